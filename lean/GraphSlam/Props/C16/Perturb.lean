import GraphSlam.Props.C03.Assembled
import Mathlib.Algebra.Order.BigOperators.Group.Finset
import Mathlib.Algebra.Order.BigOperators.Ring.Finset
import Mathlib.Algebra.BigOperators.Ring.List
import Mathlib.Algebra.Order.BigOperators.Group.List

/-!
# C16 (c) — perturbation of the assembled normal equations when the Jacobians are only `δ`-close

For general (non-affine) errors the numerical Jacobians are within `δ = M ε` of the true derivatives entrywise
(`C16.num_jacobian_accuracy`).  This file bounds what that does to one Gauss–Newton step's linear system, about the
existing definitions `Model.gradContrib`, `Model.hessContrib`, `Model.accumulate`, `Model.fillGradient`, `Model.fillHessian`:

* `gradContrib_perturb` — `|(eᵀΩ J')[t] − (eᵀΩ J)[t]| ≤ δ · Σ_b |Σ_a e_a Ω_ab|`  (`gradContrib_perturb_coarse`: `≤ δ · m² E W`);
* `hessContrib_perturb` — `|(J_i'ᵀΩ J_j')[s,t] − (J_iᵀΩ J_j)[s,t]| ≤ (δ G_j + G_i δ + δ²) · Σ_{a,b} |Ω_ab|`
  (`hessContrib_perturb_coarse`: `≤ (2 δ G + δ²) · m² W`);
* `JacClose δ l l'` — `l'` is the record `l` with every Jacobian replaced by an entrywise `δ`-close one (same error, χ²,
  information, vertices, block sizes);
* `dense_gradient_perturb`, `dense_hessian_perturb` — for edge lists related edge by edge by `JacClose δ` (any number of
  edges, parallel edges, n-ary edges, any fixed set), at every position of the layout:
  `|b'[i] − b[i]| ≤ δ · Σ_edges inc_e(u) · Σ_b |Σ_a e_a Ω_ab|`,
  `|H'[i,j] − H[i,j]| ≤ (2 δ G + δ²) · Σ_edges inc_e(u) · inc_e(w) · Σ_{a,b} |Ω_ab|`
  (`inc_e(u)` = how many vertices of edge `e` sit at the gradient index of `u`: `0` or `1` for an edge with distinct
  vertices), with the coarse corollaries `…_coarse`: `≤ δ · n_edges · m² E W` and `≤ (2 δ G + δ²) · n_edges · m² W`;
* `dense_chi2_same` — χ² is the same (it does not involve the Jacobians);
* `dense_same_of_close_zero` — `δ = 0` (in-range equality of the Jacobians, e.g. affine errors): `b' = b`, `H' = H` at every
  layout position — the in-range form of `C16.custom_assembly_exact`.
-/

namespace GraphSlam.Props.C16
open GraphSlam GraphSlam.Model GraphSlam.Props.C03 Finset
set_option linter.unusedVariables false
set_option linter.unusedSimpArgs false
noncomputable section

/-! ### one contribution -/

/-- `Σ_b |Σ_a e_a Ω_ab|` — the `ℓ¹` norm of the row vector `eᵀΩ` the gradient contributions are built from -/
def gradWeight (l : EdgeLin ℝ) : ℝ := ∑ b ∈ range l.m, |∑ a ∈ range l.m, l.err a * l.info a b|

/-- `Σ_{a,b} |Ω_ab|` -/
def infoWeight (l : EdgeLin ℝ) : ℝ := ∑ b ∈ range l.m, ∑ a ∈ range l.m, |l.info a b|

theorem gradWeight_nonneg (l : EdgeLin ℝ) : 0 ≤ gradWeight l := sum_nonneg fun _ _ => abs_nonneg _
theorem infoWeight_nonneg (l : EdgeLin ℝ) : 0 ≤ infoWeight l := sum_nonneg fun _ _ => sum_nonneg fun _ _ => abs_nonneg _

/-- **(c) gradient contribution** (`np.dot(np.dot(err.T, information), jacobian)`, base_edge.py:137): replacing the Jacobian
    by one whose column `t` is entrywise `δ`-close changes entry `t` by at most `δ · Σ_b |(eᵀΩ)_b|`. -/
theorem gradContrib_perturb (m : Nat) (err : Nat → ℝ) (info : Nat → Nat → ℝ) (dim : Nat) (J J' : Nat → Nat → ℝ)
    (δ : ℝ) (t : Nat) (hJ : ∀ b, b < m → |J' b t - J b t| ≤ δ) :
    |(gradContrib m err info dim J').get t - (gradContrib m err info dim J).get t|
      ≤ δ * ∑ b ∈ range m, |∑ a ∈ range m, err a * info a b| := by
  simp only [gradContrib, sumTo_eq_sum]
  rw [← sum_sub_distrib]
  calc |∑ b ∈ range m, ((∑ a ∈ range m, err a * info a b) * J' b t - (∑ a ∈ range m, err a * info a b) * J b t)|
      ≤ ∑ b ∈ range m, |(∑ a ∈ range m, err a * info a b) * J' b t - (∑ a ∈ range m, err a * info a b) * J b t| :=
        abs_sum_le_sum_abs _ _
    _ ≤ ∑ b ∈ range m, |∑ a ∈ range m, err a * info a b| * δ := by
        apply sum_le_sum; intro b hb
        rw [← mul_sub, abs_mul]
        exact mul_le_mul_of_nonneg_left (hJ b (mem_range.mp hb)) (abs_nonneg _)
    _ = δ * ∑ b ∈ range m, |∑ a ∈ range m, err a * info a b| := by rw [← sum_mul]; ring

/-- `Σ_b |Σ_a e_a Ω_ab| ≤ m² E W` when `|e_a| ≤ E`, `|Ω_ab| ≤ W` -/
theorem gradWeight_le (m : Nat) (err : Nat → ℝ) (info : Nat → Nat → ℝ) (Emax W : ℝ)
    (hE : ∀ a, a < m → |err a| ≤ Emax) (hW : ∀ a b, a < m → b < m → |info a b| ≤ W) :
    ∑ b ∈ range m, |∑ a ∈ range m, err a * info a b| ≤ (m : ℝ) * ((m : ℝ) * (Emax * W)) := by
  calc ∑ b ∈ range m, |∑ a ∈ range m, err a * info a b|
      ≤ ∑ b ∈ range m, ∑ a ∈ range m, Emax * W := by
        apply sum_le_sum; intro b hb
        refine le_trans (abs_sum_le_sum_abs _ _) (sum_le_sum ?_)
        intro a ha
        rw [abs_mul]
        have h1 := hE a (mem_range.mp ha)
        exact mul_le_mul h1 (hW a b (mem_range.mp ha) (mem_range.mp hb)) (abs_nonneg _) (le_trans (abs_nonneg _) h1)
    _ = (m : ℝ) * ((m : ℝ) * (Emax * W)) := by simp [sum_const, card_range, nsmul_eq_mul]

theorem gradContrib_perturb_coarse (m : Nat) (err : Nat → ℝ) (info : Nat → Nat → ℝ) (dim : Nat) (J J' : Nat → Nat → ℝ)
    (δ Emax W : ℝ) (hδ : 0 ≤ δ) (t : Nat) (hJ : ∀ b, b < m → |J' b t - J b t| ≤ δ)
    (hE : ∀ a, a < m → |err a| ≤ Emax) (hW : ∀ a b, a < m → b < m → |info a b| ≤ W) :
    |(gradContrib m err info dim J').get t - (gradContrib m err info dim J).get t|
      ≤ δ * ((m : ℝ) * ((m : ℝ) * (Emax * W))) :=
  le_trans (gradContrib_perturb m err info dim J J' δ t hJ)
    (mul_le_mul_of_nonneg_left (gradWeight_le m err info Emax W hE hW) hδ)

theorem hessContrib_get (m : Nat) (info : Nat → Nat → ℝ) (di : Nat) (Ji : Nat → Nat → ℝ) (dj : Nat) (Jj : Nat → Nat → ℝ)
    (s t : Nat) :
    (hessContrib m info di Ji dj Jj).get s t = ∑ b ∈ range m, ∑ a ∈ range m, Ji a s * info a b * Jj b t := by
  simp only [hessContrib, sumTo_eq_sum, sum_mul]

/-- **(c) Hessian contribution** (`np.dot(np.dot(jacobians[i].T, information), jacobians[j])`, base_edge.py:138): with column
    `s` of `J_i` and column `t` of `J_j` perturbed entrywise by at most `δ`, and bounded by `G_i`, `G_j`, entry `(s, t)`
    changes by at most `(δ G_j + G_i δ + δ²) · Σ_{a,b} |Ω_ab|`. -/
theorem hessContrib_perturb (m : Nat) (info : Nat → Nat → ℝ) (di dj : Nat) (Ji Ji' Jj Jj' : Nat → Nat → ℝ)
    (δ Gi Gj : ℝ) (s t : Nat)
    (hi : ∀ a, a < m → |Ji' a s - Ji a s| ≤ δ) (hj : ∀ b, b < m → |Jj' b t - Jj b t| ≤ δ)
    (hGi : ∀ a, a < m → |Ji a s| ≤ Gi) (hGj : ∀ b, b < m → |Jj b t| ≤ Gj) :
    |(hessContrib m info di Ji' dj Jj').get s t - (hessContrib m info di Ji dj Jj).get s t|
      ≤ (δ * Gj + Gi * δ + δ * δ) * ∑ b ∈ range m, ∑ a ∈ range m, |info a b| := by
  rw [hessContrib_get, hessContrib_get, ← sum_sub_distrib]
  have key : ∀ b ∈ range m, ∀ a ∈ range m,
      |Ji' a s * info a b * Jj' b t - Ji a s * info a b * Jj b t| ≤ |info a b| * (δ * Gj + Gi * δ + δ * δ) := by
    intro b hb a ha
    have e : Ji' a s * info a b * Jj' b t - Ji a s * info a b * Jj b t
        = info a b * ((Ji' a s - Ji a s) * Jj b t + Ji a s * (Jj' b t - Jj b t)
            + (Ji' a s - Ji a s) * (Jj' b t - Jj b t)) := by ring
    rw [e, abs_mul]
    apply mul_le_mul_of_nonneg_left _ (abs_nonneg _)
    have h1 := hi a (mem_range.mp ha)
    have h2 := hj b (mem_range.mp hb)
    have h3 := hGi a (mem_range.mp ha)
    have h4 := hGj b (mem_range.mp hb)
    have hδ : 0 ≤ δ := le_trans (abs_nonneg _) h1
    have hGi0 : 0 ≤ Gi := le_trans (abs_nonneg _) h3
    refine le_trans (abs_add_three _ _ _) ?_
    rw [abs_mul, abs_mul, abs_mul]
    have p1 : |Ji' a s - Ji a s| * |Jj b t| ≤ δ * Gj := mul_le_mul h1 h4 (abs_nonneg _) hδ
    have p2 : |Ji a s| * |Jj' b t - Jj b t| ≤ Gi * δ := mul_le_mul h3 h2 (abs_nonneg _) hGi0
    have p3 : |Ji' a s - Ji a s| * |Jj' b t - Jj b t| ≤ δ * δ := mul_le_mul h1 h2 (abs_nonneg _) hδ
    linarith
  calc |∑ b ∈ range m, (∑ a ∈ range m, Ji' a s * info a b * Jj' b t - ∑ a ∈ range m, Ji a s * info a b * Jj b t)|
      ≤ ∑ b ∈ range m, |∑ a ∈ range m, Ji' a s * info a b * Jj' b t - ∑ a ∈ range m, Ji a s * info a b * Jj b t| :=
        abs_sum_le_sum_abs _ _
    _ ≤ ∑ b ∈ range m, ∑ a ∈ range m, |info a b| * (δ * Gj + Gi * δ + δ * δ) := by
        apply sum_le_sum; intro b hb
        rw [← sum_sub_distrib]
        exact le_trans (abs_sum_le_sum_abs _ _) (sum_le_sum (key b hb))
    _ = (δ * Gj + Gi * δ + δ * δ) * ∑ b ∈ range m, ∑ a ∈ range m, |info a b| := by
        rw [mul_sum]; apply sum_congr rfl; intro b _
        rw [mul_sum]; apply sum_congr rfl; intro a _; ring

theorem infoWeight_le (m : Nat) (info : Nat → Nat → ℝ) (W : ℝ) (hW : ∀ a b, a < m → b < m → |info a b| ≤ W) :
    ∑ b ∈ range m, ∑ a ∈ range m, |info a b| ≤ (m : ℝ) * ((m : ℝ) * W) := by
  calc ∑ b ∈ range m, ∑ a ∈ range m, |info a b| ≤ ∑ b ∈ range m, ∑ a ∈ range m, W :=
        sum_le_sum fun b hb => sum_le_sum fun a ha => hW a b (mem_range.mp ha) (mem_range.mp hb)
    _ = (m : ℝ) * ((m : ℝ) * W) := by simp [sum_const, card_range, nsmul_eq_mul]

theorem hessContrib_perturb_coarse (m : Nat) (info : Nat → Nat → ℝ) (di dj : Nat) (Ji Ji' Jj Jj' : Nat → Nat → ℝ)
    (δ G W : ℝ) (hδ : 0 ≤ δ) (hG : 0 ≤ G) (s t : Nat)
    (hi : ∀ a, a < m → |Ji' a s - Ji a s| ≤ δ) (hj : ∀ b, b < m → |Jj' b t - Jj b t| ≤ δ)
    (hGi : ∀ a, a < m → |Ji a s| ≤ G) (hGj : ∀ b, b < m → |Jj b t| ≤ G)
    (hW : ∀ a b, a < m → b < m → |info a b| ≤ W) :
    |(hessContrib m info di Ji' dj Jj').get s t - (hessContrib m info di Ji dj Jj).get s t|
      ≤ (2 * δ * G + δ * δ) * ((m : ℝ) * ((m : ℝ) * W)) := by
  have h := hessContrib_perturb m info di dj Ji Ji' Jj Jj' δ G G s t hi hj hGi hGj
  have e : δ * G + G * δ + δ * δ = 2 * δ * G + δ * δ := by ring
  rw [e] at h
  refine le_trans h (mul_le_mul_of_nonneg_left (infoWeight_le m info W hW) ?_)
  have := mul_nonneg hδ hG; have := mul_nonneg hδ hδ; linarith

/-! ### records with `δ`-close Jacobians -/

/-- `l'` is `l` with every Jacobian replaced by one that is entrywise within `δ` (on the `m × dim` entries that exist);
    error, χ², information, vertices and block sizes are the same.  With `l` built from the true derivatives and `l'` from
    `BaseEdge.calc_jacobians`, `δ = M ε` by `C16.num_jacobian_accuracy`. -/
structure JacClose (δ : ℝ) (l l' : EdgeLin ℝ) : Prop where
  m : l'.m = l.m
  chi2 : l'.chi2 = l.chi2
  err : l'.err = l.err
  info : l'.info = l.info
  verts : List.Forall₂ (fun x x' : Nat × Nat × (Nat → Nat → ℝ) => x'.1 = x.1 ∧ x'.2.1 = x.2.1 ∧
      ∀ a, a < l.m → ∀ t, t < x.2.1 → |x'.2.2 a t - x.2.2 a t| ≤ δ) l.verts l'.verts

theorem JacClose.refl (l : EdgeLin ℝ) : JacClose 0 l l :=
  ⟨rfl, rfl, rfl, rfl, by
    generalize l.verts = vs
    induction vs with
    | nil => exact .nil
    | cons x xs ih => exact .cons ⟨rfl, rfl, by intro a _ t _; simp⟩ ih⟩

theorem forall2_mem_right {α β : Type} (R : α → β → Prop) :
    ∀ (l : List α) (l' : List β), List.Forall₂ R l l' → ∀ y ∈ l', ∃ x ∈ l, R x y := by
  intro l l' h
  induction h with
  | nil => intro y hy; simp at hy
  | cons hxy _ ih =>
    intro y hy
    rcases List.mem_cons.mp hy with rfl | hy
    · exact ⟨_, by simp, hxy⟩
    · obtain ⟨x, hx, hr⟩ := ih y hy
      exact ⟨x, by simp [hx], hr⟩

theorem forall2_map_eq {α β γ : Type} (R : α → β → Prop) (f : α → γ) (f' : β → γ) :
    ∀ (l : List α) (l' : List β), List.Forall₂ R l l' → (∀ x y, R x y → f' y = f x) → l'.map f' = l.map f := by
  intro l l' h hf
  induction h with
  | nil => rfl
  | cons hxy _ ih => simp only [List.map_cons, hf _ _ hxy, ih]

/-- sums over related lists: termwise bounds add up -/
theorem forall2_sum_abs_le {α β : Type} (R : α → β → Prop) (F : α → ℝ) (F' : β → ℝ) (B : α → ℝ) :
    ∀ (l : List α) (l' : List β), List.Forall₂ R l l' → (∀ x ∈ l, ∀ x', R x x' → |F' x' - F x| ≤ B x) →
      |(l'.map F').sum - (l.map F).sum| ≤ (l.map B).sum := by
  intro l l' h
  induction h with
  | nil => intro _; simp
  | cons hxy _ ih =>
    intro hb
    rename_i x y xs ys _
    simp only [List.map_cons, List.sum_cons]
    have h1 := hb x (by simp) y hxy
    have h2 := ih (fun z hz z' hr => hb z (by simp [hz]) z' hr)
    have e : F' y + (ys.map F').sum - (F x + (xs.map F).sum) = (F' y - F x) + ((ys.map F').sum - (xs.map F).sum) := by ring
    rw [e]
    exact le_trans (abs_add_le _ _) (add_le_add h1 h2)

theorem JacClose.keys {δ : ℝ} {l l' : EdgeLin ℝ} (h : JacClose δ l l') :
    l'.verts.map (fun x => (x.1, x.2.1)) = l.verts.map (fun x => (x.1, x.2.1)) :=
  forall2_map_eq _ _ _ _ _ h.verts (fun x y hr => by rw [hr.1, hr.2.1])

theorem JacClose.idx {δ : ℝ} {l l' : EdgeLin ℝ} (h : JacClose δ l l') : l'.verts.map (·.1) = l.verts.map (·.1) :=
  forall2_map_eq _ _ _ _ _ h.verts (fun x y hr => hr.1)

theorem edgesWF_of_close {verts : List (Nat × Nat)} {δ : ℝ} {es es' : List (EdgeLin ℝ)}
    (hc : List.Forall₂ (JacClose δ) es es') (hes : EdgesWF verts es) : EdgesWF verts es' := by
  intro e' he' x' hx'
  obtain ⟨e, he, hr⟩ := forall2_mem_right _ _ _ hc e' he'
  have hm : (x'.1, x'.2.1) ∈ e'.verts.map (fun x => (x.1, x.2.1)) := List.mem_map.mpr ⟨x', hx', rfl⟩
  rw [hr.keys] at hm
  obtain ⟨x, hx, hxe⟩ := List.mem_map.mp hm
  rw [← hxe]
  exact hes e he x hx

theorem sym_of_close {δ : ℝ} {es es' : List (EdgeLin ℝ)} (hc : List.Forall₂ (JacClose δ) es es')
    (hsym : ∀ e ∈ es, ∀ a b, e.info a b = e.info b a) : ∀ e ∈ es', ∀ a b, e.info a b = e.info b a := by
  intro e' he' a b
  obtain ⟨e, he, hr⟩ := forall2_mem_right _ _ _ hc e' he'
  rw [hr.info]; exact hsym e he a b

theorem dist_of_close {δ : ℝ} {es es' : List (EdgeLin ℝ)} (hc : List.Forall₂ (JacClose δ) es es')
    (hdist : ∀ e ∈ es, (e.verts.map (·.1)).Nodup) : ∀ e ∈ es', (e.verts.map (·.1)).Nodup := by
  intro e' he'
  obtain ⟨e, he, hr⟩ := forall2_mem_right _ _ _ hc e' he'
  rw [hr.idx]; exact hdist e he

/-! ### χ² -/

/-- χ² does not involve the Jacobians -/
theorem dense_chi2_same {δ : ℝ} {es es' : List (EdgeLin ℝ)} (hc : List.Forall₂ (JacClose δ) es es') :
    (accumulate es').chi2 = (accumulate es).chi2 := by
  rw [accumulate_chi2, accumulate_chi2]
  exact congrArg List.sum (forall2_map_eq _ _ _ _ _ hc (fun e e' hr => hr.chi2))

/-! ### the dense gradient -/

/-- how many vertices of the edge sit at gradient index `g` (`0` or `1` for an edge with pairwise distinct vertices) -/
def incid (l : EdgeLin ℝ) (g : Nat) : ℝ := (l.verts.map fun x => if x.1 = g then (1 : ℝ) else 0).sum

theorem incid_nonneg (l : EdgeLin ℝ) (g : Nat) : 0 ≤ incid l g :=
  List.sum_nonneg (by intro y hy; obtain ⟨x, _, rfl⟩ := List.mem_map.mp hy; split <;> norm_num)

theorem incid_le_one (l : EdgeLin ℝ) (hdist : (l.verts.map (·.1)).Nodup) (g : Nat) : incid l g ≤ 1 := by
  unfold incid
  generalize l.verts = vs at hdist
  induction vs with
  | nil => simp
  | cons x xs ih =>
    simp only [List.map_cons, List.nodup_cons] at hdist
    simp only [List.map_cons, List.sum_cons]
    by_cases hx : x.1 = g
    · have hz : (xs.map fun y => if y.1 = g then (1 : ℝ) else 0).sum = 0 := by
        apply List.sum_eq_zero
        intro z hz
        obtain ⟨y, hy, rfl⟩ := List.mem_map.mp hz
        have : y.1 ≠ g := fun h => hdist.1 (List.mem_map.mpr ⟨y, hy, h.trans hx.symm⟩)
        simp [this]
      simp [hx, hz]
    · simp only [hx, if_false, zero_add]; exact ih hdist.2

/-- **(c) the dense gradient `b`**: edge lists related edge by edge by `JacClose δ`; at every position `u.1 + s` of the
    layout, `|b'[i] − b[i]| ≤ δ · Σ_edges inc_e(u) · Σ_b |(eᵀΩ)_b|`. -/
theorem dense_gradient_perturb {verts : List (Nat × Nat)} (hl : Layout verts) (fixed : List Nat)
    (es es' : List (EdgeLin ℝ)) (δ : ℝ) (hδ : 0 ≤ δ) (hc : List.Forall₂ (JacClose δ) es es')
    (hes : EdgesWF verts es) (u : Nat × Nat) (hu : u ∈ verts) (s : Nat) (hs : s < u.2) :
    |fillGradient fixed (accumulate es').g (u.1 + s) - fillGradient fixed (accumulate es).g (u.1 + s)|
      ≤ δ * (es.map fun l => incid l u.1 * gradWeight l).sum := by
  have hnn : 0 ≤ δ * (es.map fun l => incid l u.1 * gradWeight l).sum :=
    mul_nonneg hδ (List.sum_nonneg (by
      intro y hy; obtain ⟨l, _, rfl⟩ := List.mem_map.mp hy
      exact mul_nonneg (incid_nonneg l _) (gradWeight_nonneg l)))
  rw [assembled_gradient hl fixed es' (edgesWF_of_close hc hes) u hu s hs, assembled_gradient hl fixed es hes u hu s hs]
  by_cases hf : u.1 ∈ fixed
  · simp only [hf, if_true, sub_self, abs_zero]; exact hnn
  · simp only [hf, if_false]
    rw [← List.sum_map_mul_left]
    apply forall2_sum_abs_le (JacClose δ) _ _ _ es es' hc
    intro e he e' hr
    -- one edge: sum over its vertices
    have h1 := forall2_sum_abs_le _
      (fun x : Nat × Nat × (Nat → Nat → ℝ) => if x.1 = u.1 then (gradContrib e.m e.err e.info x.2.1 x.2.2).get s else 0)
      (fun x : Nat × Nat × (Nat → Nat → ℝ) => if x.1 = u.1 then (gradContrib e'.m e'.err e'.info x.2.1 x.2.2).get s else 0)
      (fun x => if x.1 = u.1 then δ * gradWeight e else 0) e.verts e'.verts hr.verts (by
        intro x hx x' hxx
        obtain ⟨hk, hd, hcl⟩ := hxx
        rw [hk]
        by_cases hxu : x.1 = u.1
        · simp only [hxu, if_true]
          have hdim : x.2.1 = u.2 := by
            have := hl.index_unique _ (hes e he x hx) _ hu hxu
            simpa using congrArg Prod.snd this
          rw [hr.m, hr.err, hr.info, hd]
          exact gradContrib_perturb e.m e.err e.info x.2.1 x.2.2 x'.2.2 δ s
            (fun b hb => hcl b hb s (by rw [hdim]; exact hs))
        · simp [hxu])
    refine le_trans h1 (le_of_eq ?_)
    unfold incid
    rw [mul_comm (List.sum _) (gradWeight e), ← List.sum_map_mul_left, ← List.sum_map_mul_left]
    apply congrArg; apply List.map_congr_left; intro x _
    by_cases hxu : x.1 = u.1 <;> simp [hxu]

/-! ### the dense Hessian -/

/-- **(c) the dense Hessian `H`**: at every pair of layout positions, with all Jacobian entries of `es` bounded by `G`,
    `|H'[i,j] − H[i,j]| ≤ (2 δ G + δ²) · Σ_edges inc_e(u) · inc_e(w) · Σ_{a,b} |Ω_ab|`
    (rows/columns of fixed vertices are identity / zero in both, so the difference there is `0`). -/
theorem dense_hessian_perturb {verts : List (Nat × Nat)} (hl : Layout verts) (fixed : List Nat)
    (es es' : List (EdgeLin ℝ)) (δ G : ℝ) (hδ : 0 ≤ δ) (hG0 : 0 ≤ G) (hc : List.Forall₂ (JacClose δ) es es')
    (hes : EdgesWF verts es) (hsym : ∀ e ∈ es, ∀ a b, e.info a b = e.info b a)
    (hdist : ∀ e ∈ es, (e.verts.map (·.1)).Nodup)
    (hG : ∀ e ∈ es, ∀ x ∈ e.verts, ∀ a, a < e.m → ∀ t, t < x.2.1 → |x.2.2 a t| ≤ G) (q : Pos verts) :
    |fillHessian fixed verts (accumulate es').h (q.u.1 + q.s) (q.w.1 + q.t)
        - fillHessian fixed verts (accumulate es).h (q.u.1 + q.s) (q.w.1 + q.t)|
      ≤ (2 * δ * G + δ * δ) * (es.map fun l => incid l q.u.1 * incid l q.w.1 * infoWeight l).sum := by
  have hc0 : 0 ≤ 2 * δ * G + δ * δ := by
    have := mul_nonneg hδ hG0; have := mul_nonneg hδ hδ; linarith
  have hnn : 0 ≤ (2 * δ * G + δ * δ) * (es.map fun l => incid l q.u.1 * incid l q.w.1 * infoWeight l).sum :=
    mul_nonneg hc0 (List.sum_nonneg (by
      intro y hy; obtain ⟨l, _, rfl⟩ := List.mem_map.mp hy
      exact mul_nonneg (mul_nonneg (incid_nonneg l _) (incid_nonneg l _)) (infoWeight_nonneg l)))
  rw [assembled_hessian hl fixed es' (edgesWF_of_close hc hes) (sym_of_close hc hsym) (dist_of_close hc hdist) q,
    assembled_hessian hl fixed es hes hsym hdist q]
  by_cases hf : q.u.1 ∈ fixed ∨ q.w.1 ∈ fixed
  · simp only [hf, if_true, sub_self, abs_zero]; exact hnn
  · simp only [hf, if_false]
    rw [← List.sum_map_mul_left]
    apply forall2_sum_abs_le (JacClose δ) _ _ _ es es' hc
    intro e he e' hr
    set c := 2 * δ * G + δ * δ with hcdef
    -- inner: for related x x', sum over y
    have hinner : ∀ x ∈ e.verts, ∀ x', (x'.1 = x.1 ∧ x'.2.1 = x.2.1 ∧
          ∀ a, a < e.m → ∀ t, t < x.2.1 → |x'.2.2 a t - x.2.2 a t| ≤ δ) →
        |(e'.verts.map fun y => ordered e' q.u.1 q.w.1 q.s q.t x' y).sum
            - (e.verts.map fun y => ordered e q.u.1 q.w.1 q.s q.t x y).sum|
          ≤ (e.verts.map fun y => if x.1 = q.u.1 ∧ y.1 = q.w.1 then c * infoWeight e else 0).sum := by
      intro x hx x' hxx
      obtain ⟨hkx, hdx, hclx⟩ := hxx
      apply forall2_sum_abs_le _ _ _ _ e.verts e'.verts hr.verts
      intro y hy y' hyy
      obtain ⟨hky, hdy, hcly⟩ := hyy
      unfold ordered
      rw [hkx, hky]
      by_cases hcond : x.1 = q.u.1 ∧ y.1 = q.w.1
      · simp only [hcond, and_self, if_true]
        have hdimx : x.2.1 = q.u.2 := by
          have := hl.index_unique _ (hes e he x hx) _ q.hu hcond.1
          simpa using congrArg Prod.snd this
        have hdimy : y.2.1 = q.w.2 := by
          have := hl.index_unique _ (hes e he y hy) _ q.hw hcond.2
          simpa using congrArg Prod.snd this
        have hs' : q.s < x.2.1 := by rw [hdimx]; exact q.hs
        have ht' : q.t < y.2.1 := by rw [hdimy]; exact q.ht
        unfold pairEntry
        rw [hr.m, hr.info, hdx, hdy]
        have := hessContrib_perturb e.m e.info x.2.1 y.2.1 x.2.2 x'.2.2 y.2.2 y'.2.2 δ G G q.s q.t
          (fun a ha => hclx a ha q.s hs') (fun b hb => hcly b hb q.t ht')
          (fun a ha => hG e he x hx a ha q.s hs') (fun b hb => hG e he y hy b hb q.t ht')
        have e1 : δ * G + G * δ + δ * δ = c := by rw [hcdef]; ring
        rw [e1] at this
        exact this
      · simp [hcond]
    have h1 := forall2_sum_abs_le _
      (fun x => (e.verts.map fun y => ordered e q.u.1 q.w.1 q.s q.t x y).sum)
      (fun x' => (e'.verts.map fun y => ordered e' q.u.1 q.w.1 q.s q.t x' y).sum)
      (fun x => (e.verts.map fun y => if x.1 = q.u.1 ∧ y.1 = q.w.1 then c * infoWeight e else 0).sum)
      e.verts e'.verts hr.verts hinner
    refine le_trans h1 (le_of_eq ?_)
    unfold incid
    have e2 : ∀ x : Nat × Nat × (Nat → Nat → ℝ),
        (e.verts.map fun y => if x.1 = q.u.1 ∧ y.1 = q.w.1 then c * infoWeight e else 0).sum
          = (if x.1 = q.u.1 then (1 : ℝ) else 0)
              * ((e.verts.map fun y => if y.1 = q.w.1 then (1 : ℝ) else 0).sum * (c * infoWeight e)) := by
      intro x
      rw [← List.sum_map_mul_right, ← List.sum_map_mul_left]
      apply congrArg; apply List.map_congr_left; intro y _
      by_cases h1 : x.1 = q.u.1 <;> by_cases h2 : y.1 = q.w.1 <;> simp [h1, h2]
    simp only [e2]
    rw [List.sum_map_mul_right]
    ring

/-! ### coarse bounds: polynomial in `δ`, the bounds on `J`, `Ω`, `e`, and the number of edges -/

theorem listsum_le_length_mul {α : Type} (L : List α) (F : α → ℝ) (C : ℝ) (h : ∀ x ∈ L, F x ≤ C) :
    (L.map F).sum ≤ (L.length : ℝ) * C := by
  induction L with
  | nil => simp
  | cons x xs ih =>
    simp only [List.map_cons, List.sum_cons, List.length_cons, Nat.cast_succ]
    have := h x (by simp)
    have := ih (fun y hy => h y (by simp [hy]))
    linarith

/-- `|b'[i] − b[i]| ≤ δ · n_edges · m² E W` when every edge has distinct vertices, error dimension `≤ m`, `|e_a| ≤ E`,
    `|Ω_ab| ≤ W` -/
theorem dense_gradient_perturb_coarse {verts : List (Nat × Nat)} (hl : Layout verts) (fixed : List Nat)
    (es es' : List (EdgeLin ℝ)) (δ Emax W : ℝ) (m : Nat) (hδ : 0 ≤ δ) (hE0 : 0 ≤ Emax) (hW0 : 0 ≤ W)
    (hc : List.Forall₂ (JacClose δ) es es') (hes : EdgesWF verts es)
    (hdist : ∀ e ∈ es, (e.verts.map (·.1)).Nodup) (hm : ∀ e ∈ es, e.m ≤ m)
    (hE : ∀ e ∈ es, ∀ a, a < e.m → |e.err a| ≤ Emax)
    (hW : ∀ e ∈ es, ∀ a b, a < e.m → b < e.m → |e.info a b| ≤ W)
    (u : Nat × Nat) (hu : u ∈ verts) (s : Nat) (hs : s < u.2) :
    |fillGradient fixed (accumulate es').g (u.1 + s) - fillGradient fixed (accumulate es).g (u.1 + s)|
      ≤ δ * ((es.length : ℝ) * ((m : ℝ) * ((m : ℝ) * (Emax * W)))) := by
  refine le_trans (dense_gradient_perturb hl fixed es es' δ hδ hc hes u hu s hs) (mul_le_mul_of_nonneg_left ?_ hδ)
  apply listsum_le_length_mul
  intro e he
  have h1 : gradWeight e ≤ (e.m : ℝ) * ((e.m : ℝ) * (Emax * W)) := gradWeight_le e.m e.err e.info Emax W (hE e he) (hW e he)
  have hmm : (e.m : ℝ) ≤ (m : ℝ) := Nat.cast_le.mpr (hm e he)
  have hEW : 0 ≤ Emax * W := mul_nonneg hE0 hW0
  have h2 : (e.m : ℝ) * ((e.m : ℝ) * (Emax * W)) ≤ (m : ℝ) * ((m : ℝ) * (Emax * W)) :=
    mul_le_mul hmm (mul_le_mul_of_nonneg_right hmm hEW) (mul_nonneg (Nat.cast_nonneg _) hEW) (Nat.cast_nonneg _)
  calc incid e u.1 * gradWeight e ≤ 1 * gradWeight e :=
        mul_le_mul_of_nonneg_right (incid_le_one e (hdist e he) _) (gradWeight_nonneg e)
    _ ≤ (m : ℝ) * ((m : ℝ) * (Emax * W)) := by rw [one_mul]; exact le_trans h1 h2

/-- `|H'[i,j] − H[i,j]| ≤ (2 δ G + δ²) · n_edges · m² W` -/
theorem dense_hessian_perturb_coarse {verts : List (Nat × Nat)} (hl : Layout verts) (fixed : List Nat)
    (es es' : List (EdgeLin ℝ)) (δ G W : ℝ) (m : Nat) (hδ : 0 ≤ δ) (hG0 : 0 ≤ G) (hW0 : 0 ≤ W)
    (hc : List.Forall₂ (JacClose δ) es es')
    (hes : EdgesWF verts es) (hsym : ∀ e ∈ es, ∀ a b, e.info a b = e.info b a)
    (hdist : ∀ e ∈ es, (e.verts.map (·.1)).Nodup) (hm : ∀ e ∈ es, e.m ≤ m)
    (hG : ∀ e ∈ es, ∀ x ∈ e.verts, ∀ a, a < e.m → ∀ t, t < x.2.1 → |x.2.2 a t| ≤ G)
    (hW : ∀ e ∈ es, ∀ a b, a < e.m → b < e.m → |e.info a b| ≤ W) (q : Pos verts) :
    |fillHessian fixed verts (accumulate es').h (q.u.1 + q.s) (q.w.1 + q.t)
        - fillHessian fixed verts (accumulate es).h (q.u.1 + q.s) (q.w.1 + q.t)|
      ≤ (2 * δ * G + δ * δ) * ((es.length : ℝ) * ((m : ℝ) * ((m : ℝ) * W))) := by
  have hc0 : 0 ≤ 2 * δ * G + δ * δ := by
    have := mul_nonneg hδ hG0; have := mul_nonneg hδ hδ; linarith
  refine le_trans (dense_hessian_perturb hl fixed es es' δ G hδ hG0 hc hes hsym hdist hG q)
    (mul_le_mul_of_nonneg_left ?_ hc0)
  apply listsum_le_length_mul
  intro e he
  have h1 : infoWeight e ≤ (e.m : ℝ) * ((e.m : ℝ) * W) := infoWeight_le e.m e.info W (hW e he)
  have hmm : (e.m : ℝ) ≤ (m : ℝ) := Nat.cast_le.mpr (hm e he)
  have h2 : (e.m : ℝ) * ((e.m : ℝ) * W) ≤ (m : ℝ) * ((m : ℝ) * W) :=
    mul_le_mul hmm (mul_le_mul_of_nonneg_right hmm hW0) (mul_nonneg (Nat.cast_nonneg _) hW0) (Nat.cast_nonneg _)
  have i1 := incid_le_one e (hdist e he) q.u.1
  have i2 := incid_le_one e (hdist e he) q.w.1
  have n1 := incid_nonneg e q.u.1
  have n2 := incid_nonneg e q.w.1
  have hi : incid e q.u.1 * incid e q.w.1 ≤ 1 := by
    calc incid e q.u.1 * incid e q.w.1 ≤ 1 * 1 := mul_le_mul i1 i2 n2 (by norm_num)
      _ = 1 := by norm_num
  calc incid e q.u.1 * incid e q.w.1 * infoWeight e ≤ 1 * infoWeight e :=
        mul_le_mul_of_nonneg_right hi (infoWeight_nonneg e)
    _ ≤ (m : ℝ) * ((m : ℝ) * W) := by rw [one_mul]; exact le_trans h1 h2

/-! ### `δ = 0`: in-range equality of the Jacobians -/

/-- Jacobians equal on their `m × dim` entries (e.g. numerical Jacobians of errors that are affine on the rows `a < m`,
    whatever the functions return outside those entries): the dense `b`, `H` agree at every layout position and χ² is the
    same.  This is (c) at `δ = 0` (no bound `G` on the Jacobian entries is needed there). -/
theorem dense_same_of_close_zero {verts : List (Nat × Nat)} (hl : Layout verts) (fixed : List Nat)
    (es es' : List (EdgeLin ℝ)) (hc : List.Forall₂ (JacClose 0) es es')
    (hes : EdgesWF verts es) (hsym : ∀ e ∈ es, ∀ a b, e.info a b = e.info b a)
    (hdist : ∀ e ∈ es, (e.verts.map (·.1)).Nodup) :
    (accumulate es').chi2 = (accumulate es).chi2 ∧
    (∀ u ∈ verts, ∀ s, s < u.2 →
      fillGradient fixed (accumulate es').g (u.1 + s) = fillGradient fixed (accumulate es).g (u.1 + s)) ∧
    (∀ q : Pos verts, fillHessian fixed verts (accumulate es').h (q.u.1 + q.s) (q.w.1 + q.t)
        = fillHessian fixed verts (accumulate es).h (q.u.1 + q.s) (q.w.1 + q.t)) := by
  refine ⟨dense_chi2_same hc, ?_, ?_⟩
  · intro u hu s hs
    have := dense_gradient_perturb hl fixed es es' 0 (le_refl 0) hc hes u hu s hs
    rw [zero_mul] at this
    exact sub_eq_zero.mp (abs_nonpos_iff.mp this)
  · intro q
    -- the bound `G` is irrelevant at `δ = 0`; apply the per-edge argument with each entry bounded by itself
    have hc0 : (2 * (0 : ℝ) * 0 + 0 * 0) = 0 := by ring
    rw [assembled_hessian hl fixed es' (edgesWF_of_close hc hes) (sym_of_close hc hsym) (dist_of_close hc hdist) q,
      assembled_hessian hl fixed es hes hsym hdist q]
    by_cases hf : q.u.1 ∈ fixed ∨ q.w.1 ∈ fixed
    · simp only [hf, if_true]
    · simp only [hf, if_false]
      have hzero := forall2_sum_abs_le (JacClose 0)
        (fun e => (e.verts.map fun x => (e.verts.map fun y => ordered e q.u.1 q.w.1 q.s q.t x y).sum).sum)
        (fun e => (e.verts.map fun x => (e.verts.map fun y => ordered e q.u.1 q.w.1 q.s q.t x y).sum).sum)
        (fun _ => 0) es es' hc (by
          intro e he e' hr
          have h1 := forall2_sum_abs_le _
            (fun x => (e.verts.map fun y => ordered e q.u.1 q.w.1 q.s q.t x y).sum)
            (fun x' => (e'.verts.map fun y => ordered e' q.u.1 q.w.1 q.s q.t x' y).sum)
            (fun _ => 0) e.verts e'.verts hr.verts (by
              intro x hx x' hxx
              obtain ⟨hkx, hdx, hclx⟩ := hxx
              have h2 := forall2_sum_abs_le _
                (fun y => ordered e q.u.1 q.w.1 q.s q.t x y) (fun y' => ordered e' q.u.1 q.w.1 q.s q.t x' y')
                (fun _ => 0) e.verts e'.verts hr.verts (by
                  intro y hy y' hyy
                  obtain ⟨hky, hdy, hcly⟩ := hyy
                  unfold ordered
                  rw [hkx, hky]
                  by_cases hcond : x.1 = q.u.1 ∧ y.1 = q.w.1
                  · simp only [hcond, and_self, if_true]
                    have hdimx : x.2.1 = q.u.2 := by
                      have := hl.index_unique _ (hes e he x hx) _ q.hu hcond.1
                      simpa using congrArg Prod.snd this
                    have hdimy : y.2.1 = q.w.2 := by
                      have := hl.index_unique _ (hes e he y hy) _ q.hw hcond.2
                      simpa using congrArg Prod.snd this
                    have hs' : q.s < x.2.1 := by rw [hdimx]; exact q.hs
                    have ht' : q.t < y.2.1 := by rw [hdimy]; exact q.ht
                    have ex : ∀ a, a < e.m → x'.2.2 a q.s = x.2.2 a q.s := fun a ha =>
                      sub_eq_zero.mp (abs_nonpos_iff.mp (hclx a ha q.s hs'))
                    have ey : ∀ b, b < e.m → y'.2.2 b q.t = y.2.2 b q.t := fun b hb =>
                      sub_eq_zero.mp (abs_nonpos_iff.mp (hcly b hb q.t ht'))
                    rw [pairEntry_eq, pairEntry_eq, hr.m, hr.info]
                    have : (∑ b ∈ range e.m, ∑ a ∈ range e.m, x'.2.2 a q.s * e.info a b * y'.2.2 b q.t)
                        = ∑ b ∈ range e.m, ∑ a ∈ range e.m, x.2.2 a q.s * e.info a b * y.2.2 b q.t := by
                      apply sum_congr rfl; intro b hb; apply sum_congr rfl; intro a ha
                      rw [ex a (mem_range.mp ha), ey b (mem_range.mp hb)]
                    rw [this]; simp
                  · simp [hcond])
              simpa using h2)
          simpa using h1)
      have hz : (es.map fun _ => (0 : ℝ)).sum = 0 := by simp
      rw [hz] at hzero
      exact sub_eq_zero.mp (abs_nonpos_iff.mp hzero)

/-! ### non-vacuity -/

/-- a one-dimensional edge between the scalar vertices at gradient indices `0`, `1`, error `3`, `Ω = [2]`, Jacobians `[-1]`,
    `[1]`; and the same with Jacobians `[-1 + δ]`, `[1 - δ]` -/
def exLin (δ : ℝ) : EdgeLin ℝ :=
  { m := 1, chi2 := 18, err := fun _ => 3, info := fun _ _ => 2,
    verts := [(0, 1, fun _ _ => -1 + δ), (1, 1, fun _ _ => 1 - δ)] }

theorem exLin_close (δ : ℝ) (hδ : 0 ≤ δ) : JacClose δ (exLin 0) (exLin δ) :=
  ⟨rfl, rfl, rfl, rfl, by
    refine .cons ⟨rfl, rfl, ?_⟩ (.cons ⟨rfl, rfl, ?_⟩ .nil)
    · intro a _ t _; simp [abs_of_nonneg hδ]
    · intro a _ t _; simp [abs_of_nonneg hδ]⟩

/-- the hypotheses of `dense_gradient_perturb` / `dense_hessian_perturb` hold for this pair with `δ = 10⁻⁶`, and the bounds
    evaluate: `|b'[0] − b[0]| ≤ 6·10⁻⁶` -/
example : |fillGradient [] (accumulate [exLin 1e-6]).g 0 - fillGradient [] (accumulate [exLin 0]).g 0| ≤ 1e-6 * 6 := by
  have hl : Layout [(0, 1), (1, 1)] := prefixLayout_layout 0 [1, 1] (by simp)
  have hes : EdgesWF [(0, 1), (1, 1)] [exLin 0] := by
    intro e he x hx
    simp only [List.mem_singleton] at he; subst he
    simp only [exLin, List.mem_cons, List.not_mem_nil, or_false] at hx
    rcases hx with rfl | rfl <;> simp
  have h := dense_gradient_perturb hl [] [exLin 0] [exLin 1e-6] 1e-6 (by norm_num)
    (.cons (exLin_close 1e-6 (by norm_num)) .nil) hes (0, 1) (by simp) 0 (by norm_num)
  have hw : ([exLin 0].map fun l => incid l (0, 1).1 * gradWeight l).sum = 6 := by
    simp [incid, gradWeight, exLin]; norm_num
  rw [hw] at h
  simpa using h

end
end GraphSlam.Props.C16
