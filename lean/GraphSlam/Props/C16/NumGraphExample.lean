import GraphSlam.Props.C16.NumGraph
import GraphSlam.Props.C04.Instances

/-!
# C16 (b) — non-vacuity

* a **ternary** custom edge (three scalar vertices, error `x + y − 2z`): the hypothesis `AffineAt` of `numLin_of_affine` /
  `custom_assembly_exact` is satisfiable by an edge that is not one of the built-in binary classes, and the theorem gives
  its numerically differentiated record as the exact one (Jacobians `[1]`, `[1]`, `[−2]`) for the library's `ε = 1e-6`;
* the whole-call theorem `num_optimize_linear_optimum_R2`: all its hypotheses hold for the two-vertex R² graph of
  `Props/C04/Instances` (one odometry edge, first pose fixed, `chooseSolve`), so the call on the numerically differentiated
  graph returns the minimiser, reports its χ² and `converged = true`.
-/

namespace GraphSlam.Props.C16
open GraphSlam GraphSlam.Gen GraphSlam.Model GraphSlam.Props.C03 GraphSlam.Props.C04 GraphSlam.Props.E2E
set_option linter.unusedSimpArgs false
set_option linter.unnecessarySeqFocus false
noncomputable section

/-- error `x + y − 2z` of a ternary edge over scalar vertices (row `0`; the error is one-dimensional) -/
def triErr (ps : List ℝ) (a : Nat) : ℝ := if a = 0 then ps.getD 0 0 + ps.getD 1 0 - 2 * ps.getD 2 0 else 0

/-- its exact Jacobians: `[1]`, `[1]`, `[−2]` -/
def triJ (k a d : Nat) : ℝ := if a = 0 ∧ d = 0 then (if k = 2 then -2 else 1) else 0

theorem tri_affine (x y z ε : ℝ) :
    AffineAt (fun (p : ℝ) δ => p + δ 0) id ε triErr [(0, 1), (1, 1), (2, 1)] [x, y, z] triJ := by
  intro k g dim hk
  match k, hk with
  | 0, hk =>
    simp only [List.getElem?_cons_zero, Option.some.injEq, Prod.mk.injEq] at hk
    obtain ⟨_, rfl⟩ := hk
    refine ⟨x, rfl, rfl, ?_⟩
    intro d hd a
    have : d = 0 := by omega
    subst this
    by_cases ha : a = 0 <;> simp [triErr, triJ, unitDelta, ha] <;> ring
  | 1, hk =>
    simp only [List.getElem?_cons_succ, List.getElem?_cons_zero, Option.some.injEq, Prod.mk.injEq] at hk
    obtain ⟨_, rfl⟩ := hk
    refine ⟨y, rfl, rfl, ?_⟩
    intro d hd a
    have : d = 0 := by omega
    subst this
    by_cases ha : a = 0 <;> simp [triErr, triJ, unitDelta, ha] <;> ring
  | 2, hk =>
    simp only [List.getElem?_cons_succ, List.getElem?_cons_zero, Option.some.injEq, Prod.mk.injEq] at hk
    obtain ⟨_, rfl⟩ := hk
    refine ⟨z, rfl, rfl, ?_⟩
    intro d hd a
    have : d = 0 := by omega
    subst this
    by_cases ha : a = 0 <;> simp [triErr, triJ, unitDelta, ha] <;> ring
  | k + 3, hk => simp at hk

/-- the record `calc_chi2_gradient_hessian` works from for this edge, differentiated numerically with `ε = 1e-6`, is the
    record with the exact Jacobians -/
example (x y z : ℝ) :
    numLin (fun (p : ℝ) δ => p + δ 0) id 1e-6 1 triErr (fun _ _ => 1) [(0, 1), (1, 1), (2, 1)] [x, y, z]
      = exactLin 1 (triErr [x, y, z]) (fun _ _ => 1) [(0, 1), (1, 1), (2, 1)] triJ :=
  numLin_of_affine _ _ 1e-6 (by norm_num) 1 triErr _ _ _ triJ (tri_affine x y z 1e-6)

/-- **non-vacuity of the whole-call theorem** -/
example : ∃ (report : Report ℝ) (sStar : GState ℝ) (cStar : ℝ),
    numOptimizeSolve (1e-6 : ℝ) 1e-3 1e-9 5 true [false, false] (chooseSolve 4) exEs exPs
      = .ok (report, some sStar, [true, false]) ∧
    optimizeSolve (1e-3 : ℝ) 1e-9 5 true [false, false] (chooseSolve 4) exEs exPs
      = .ok (report, some sStar, [true, false]) ∧
    chi2At (fixedOf true [false, false] exPs) exEs sStar = some cStar ∧ report.finalChi2 = some cStar ∧
    report.converged = true := by
  have hsolve : ExactSolver (exPs.map Pose.cdim).sum (chooseSolve 4) := by
    have : (exPs.map Pose.cdim).sum = 4 := by simp [exPs, Pose.cdim]
    rw [this]; exact chooseSolve_exact 4
  obtain ⟨rep, sStar, cStar, h1, h1', _, h3, h4, _, h6, _⟩ :=
    num_optimize_linear_optimum_R2 (1e-6 : ℝ) (by norm_num) (1e-3 : ℝ) 1e-9 5 (by norm_num) true [false, false]
      (chooseSolve 4) exEs exPs
      (by intro p hp; simp only [exPs, List.mem_cons, List.not_mem_nil, or_false] at hp; rcases hp with rfl | rfl <;> trivial)
      ⟨_, rfl⟩
      ⟨by intro e he; simp only [exEs, List.mem_singleton] at he; subst he; simp [Edge.ends],
       by intro e he a b; simp only [exEs, List.mem_singleton] at he; subst he; simp [Edge.info, eq_comm]⟩
      ex_infoPD ex_anchored hsolve
  exact ⟨rep, sStar, cStar, h1, h1', h3, h4, h6 (by norm_num) (by norm_num) (by norm_num)⟩

end
end GraphSlam.Props.C16
