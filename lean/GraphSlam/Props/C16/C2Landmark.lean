import GraphSlam.Props.C16.NumGraphPerturb
import GraphSlam.Props.C16.FdExactLandmark
import GraphSlam.Props.C01.SE2
import GraphSlam.Props.C09.SE2
import GraphSlam.Props.C04.Instances
import Mathlib.Analysis.Calculus.Deriv.Comp
import Mathlib.Analysis.Calculus.Deriv.Prod

/-!
# C16 (c)/(d), unconditionally, for a genuinely non-affine generated edge: SE(2) pose – R² landmark

`Props/C16/Stationary` reduces the perturbation bounds of (c)/(d) to the analytic hypothesis `C2At` (the error is `C²` along
every box-plus coordinate with second derivative bounded by `M`).  Here `C2At` is **discharged from the generated code** for
the library's `EdgeLandmark` between a `PoseSE2` vertex and a `PoseR2` landmark (`Gen.EdgeLandmark.calc_error_SE2`, perturbed
through the generated `PoseSE2.iadd_boxplus` / `PoseR2.iadd_boxplus`), with the explicit constant

  `M = |b₀ − a₀| + |b₁ − a₁|`   (the `ℓ¹` distance between landmark and pose position),

so that the numerically differentiated record of such an edge is `JacClose (M h)` to the analytic one, and (c)/(d) hold for
pose–landmark SE(2) graphs with `δ = D h`, `D` a bound on those distances — no analytic hypothesis left.

* `lmSE2_err0/1` — closed form of the generated error (all angle wraps drop out of `cos`/`sin`);
* `hasDerivAt_coord` — a Fréchet derivative `toCLM J` at `0` gives the derivative `J i d` along the coordinate path
  `t ↦ t e_d`; with `C01.landmark_SE2_v0` this identifies the derivative at `0` of every closed form with the generated
  analytic Jacobian entry (no trigonometric matching needed);
* `landmark_SE2_C2_0` — along each of the three pose coordinates each error component is `C^∞` with explicit `φ'`, `φ''`,
  `|φ''| ≤ M` (translations: affine, `φ'' = 0`; rotation: `A cos(α+t) + B sin(α+t) + K`);
* `landmark_SE2_C2At` — `C2At` on the typed store `[.se2 a, .r2 b]` (needs `InRange a`: the stored angle is normalised, true of
  every pose the library produces, C11);
* `landmark_SE2_jacClose` — `JacClose (M h)` between `Model.lineariseAt` and `C16.numLineariseAt`;
* `landmark_graph_SE2_perturb`, `landmark_graph_SE2_stationary` — (c) and (d) for whole pose–landmark graphs.
-/

namespace GraphSlam.Props.C16
open GraphSlam GraphSlam.Gen GraphSlam.Model GraphSlam.Props.C03 GraphSlam.Props.C04 GraphSlam.Props.E2E Real
set_option linter.unusedSimpArgs false
set_option linter.unusedVariables false
noncomputable section


theorem C2_of_affine (f : ℝ → ℝ) (f0 c : ℝ) (h : ∀ t, f t = f0 + t * c) (t : ℝ) : HasDerivAt f c t := by
  have e : f = fun t => f0 + t * c := funext h
  rw [e]
  simpa using ((hasDerivAt_id' t).mul_const c).const_add f0

theorem hasDerivAt_trig (A B K α t : ℝ) :
    HasDerivAt (fun t => A * cos (α + t) + B * sin (α + t) + K) (B * cos (α + t) + (-A) * sin (α + t) + 0) t := by
  have h1 : HasDerivAt (fun t : ℝ => α + t) 1 t := by simpa using (hasDerivAt_id' t).const_add α
  have hc := (h1.cos).const_mul A
  have hs := (h1.sin).const_mul B
  have := (hc.add hs).add_const K
  have e : B * cos (α + t) + (-A) * sin (α + t) + 0 = A * (-sin (α + t) * 1) + B * (cos (α + t) * 1) := by ring
  rw [e]
  exact this

theorem cos_wrapPi_add (x y : ℝ) : cos (wrapPi x + y) = cos (x + y) := by
  rw [add_comm, cos_add_wrapPi, add_comm]
theorem sin_wrapPi_add (x y : ℝ) : sin (wrapPi x + y) = sin (x + y) := by
  rw [add_comm, sin_add_wrapPi, add_comm]

theorem lmSE2_err0 (z : Fin 2 → ℝ) (off p0 : Fin 3 → ℝ) (p1 : Fin 2 → ℝ) :
    EdgeLandmark.calc_error_SE2 z off p0 p1 0
      = (p1 0 - p0 0) * cos (p0 2 + off 2) + (p1 1 - p0 1) * sin (p0 2 + off 2)
          - off 0 * cos (off 2) - off 1 * sin (off 2) - z 0 := by
  simp [EdgeLandmark.calc_error_SE2, PoseR2.to_compact, PoseR2.sub, PoseSE2.add_point, PoseSE2.inverse, PoseSE2.add,
    neg_pi_to_pi_eq, cos_wrapPi, sin_wrapPi, Real.cos_neg, Real.sin_neg]
  rw [Real.cos_add, Real.sin_add]
  linear_combination (-(off 0 * cos (off 2) + off 1 * sin (off 2))) * Real.sin_sq_add_cos_sq (p0 2)

theorem lmSE2_err1 (z : Fin 2 → ℝ) (off p0 : Fin 3 → ℝ) (p1 : Fin 2 → ℝ) :
    EdgeLandmark.calc_error_SE2 z off p0 p1 1
      = -(p1 0 - p0 0) * sin (p0 2 + off 2) + (p1 1 - p0 1) * cos (p0 2 + off 2)
          + off 0 * sin (off 2) - off 1 * cos (off 2) - z 1 := by
  simp [EdgeLandmark.calc_error_SE2, PoseR2.to_compact, PoseR2.sub, PoseSE2.add_point, PoseSE2.inverse, PoseSE2.add,
    neg_pi_to_pi_eq, cos_wrapPi, sin_wrapPi, Real.cos_neg, Real.sin_neg]
  rw [Real.cos_add, Real.sin_add]
  linear_combination ((off 0 * sin (off 2) - off 1 * cos (off 2))) * Real.sin_sq_add_cos_sq (p0 2)

/-- directional derivative along a compact coordinate from the Fréchet derivative -/
theorem hasDerivAt_coord {n m : Nat} (F : (Fin n → ℝ) → (Fin m → ℝ)) (J : Fin m → Fin n → ℝ)
    (hF : HasFDerivAt F (toCLM J) (0 : Fin n → ℝ)) (d : Fin n) (i : Fin m) :
    HasDerivAt (fun t : ℝ => F (vecN (unitDelta d.val t)) i) (J i d) 0 := by
  have hγ : HasDerivAt (fun t : ℝ => (vecN (unitDelta d.val t) : Fin n → ℝ)) (Pi.single d 1) 0 := by
    rw [hasDerivAt_pi]
    intro j
    by_cases hj : j = d
    · subst hj
      have e : (fun t : ℝ => (vecN (unitDelta j.val t) : Fin n → ℝ) j) = fun t => t := by
        funext t; simp [vecN, unitDelta]
      rw [e]; simpa using hasDerivAt_id' (0 : ℝ)
    · have hne : j.val ≠ d.val := fun h => hj (Fin.ext h)
      have e : (fun t : ℝ => (vecN (unitDelta d.val t) : Fin n → ℝ) j) = fun _ => (0 : ℝ) := by
        funext t; simp [vecN, unitDelta, hne]
      rw [e, Pi.single_eq_of_ne hj]; exact hasDerivAt_const (0 : ℝ) (0 : ℝ)
  have h0 : (vecN (unitDelta d.val (0 : ℝ)) : Fin n → ℝ) = 0 := by
    funext j; simp [vecN, unitDelta]
  have hF' : HasFDerivAt F (toCLM J) ((fun t : ℝ => (vecN (unitDelta d.val t) : Fin n → ℝ)) 0) := by
    simpa [h0] using hF
  have hc := hF'.comp_hasDerivAt (0 : ℝ) hγ
  have hi := (hasDerivAt_pi.mp hc) i
  simpa [toCLM_apply, Pi.single_apply] using hi


/-- the perturbed pose vertex, coordinate by coordinate -/
theorem boxplus_coord (a : Fin 3 → ℝ) (t : ℝ) :
    (PoseSE2.iadd_boxplus a (vecN (unitDelta 0 t)) = fun i : Fin 3 => match i with
        | 0 => a 0 + t * cos (a 2) | 1 => a 1 + t * sin (a 2) | 2 => wrapPi (a 2 + 0)) ∧
    (PoseSE2.iadd_boxplus a (vecN (unitDelta 1 t)) = fun i : Fin 3 => match i with
        | 0 => a 0 - t * sin (a 2) | 1 => a 1 + t * cos (a 2) | 2 => wrapPi (a 2 + 0)) ∧
    (PoseSE2.iadd_boxplus a (vecN (unitDelta 2 t)) = fun i : Fin 3 => match i with
        | 0 => a 0 | 1 => a 1 | 2 => wrapPi (a 2 + t)) := by
  refine ⟨?_, ?_, ?_⟩ <;> funext i <;> fin_cases i <;>
    simp [PoseSE2.iadd_boxplus, PoseSE2.boxplus, vecN, unitDelta, neg_pi_to_pi_eq]

theorem landmark_SE2_C2_0 (z : Fin 2 → ℝ) (off a : Fin 3 → ℝ) (b : Fin 2 → ℝ) (d : Fin 3) (i : Fin 2) :
    ∃ φ' φ'' : ℝ → ℝ,
      (∀ t, HasDerivAt (fun t => EdgeLandmark.calc_error_SE2 z off (PoseSE2.iadd_boxplus a (vecN (unitDelta d.val t))) b i)
        (φ' t) t) ∧
      (∀ t, HasDerivAt φ' (φ'' t) t) ∧ (∀ t, |φ'' t| ≤ |b 0 - a 0| + |b 1 - a 1|) ∧
      EdgeLandmark.calc_jacobians_SE2_0 z off a b i d = φ' 0 := by
  have hM : 0 ≤ |b 0 - a 0| + |b 1 - a 1| := add_nonneg (abs_nonneg _) (abs_nonneg _)
  have hb0 := fun t => (boxplus_coord a t).1
  have hb1 := fun t => (boxplus_coord a t).2.1
  have hb2 := fun t => (boxplus_coord a t).2.2
  -- the analytic Jacobian is the derivative at 0 (C01), whatever closed form we differentiate
  have hJ : ∀ φ0 : ℝ,
      HasDerivAt (fun t => EdgeLandmark.calc_error_SE2 z off (PoseSE2.iadd_boxplus a (vecN (unitDelta d.val t))) b i) φ0 0 →
      EdgeLandmark.calc_jacobians_SE2_0 z off a b i d = φ0 := by
    intro φ0 h
    have := hasDerivAt_coord (fun δ => EdgeLandmark.calc_error_SE2 z off (PoseSE2.boxplus a δ) b) _
      (C01.landmark_SE2_v0 z off a b) d i
    exact this.unique h
  -- affine coordinates
  have haff : ∀ (f : ℝ → ℝ) (f0 c : ℝ), (∀ t, f t = f0 + t * c) →
      (f = fun t => EdgeLandmark.calc_error_SE2 z off (PoseSE2.iadd_boxplus a (vecN (unitDelta d.val t))) b i) →
      ∃ φ' φ'' : ℝ → ℝ,
        (∀ t, HasDerivAt (fun t => EdgeLandmark.calc_error_SE2 z off (PoseSE2.iadd_boxplus a (vecN (unitDelta d.val t))) b i)
          (φ' t) t) ∧
        (∀ t, HasDerivAt φ' (φ'' t) t) ∧ (∀ t, |φ'' t| ≤ |b 0 - a 0| + |b 1 - a 1|) ∧
        EdgeLandmark.calc_jacobians_SE2_0 z off a b i d = φ' 0 := by
    intro f f0 c hf hfe
    refine ⟨fun _ => c, fun _ => 0, ?_, fun t => hasDerivAt_const t c, fun t => by simpa using hM, ?_⟩
    · intro t; rw [← hfe]; exact C2_of_affine f f0 c hf t
    · apply hJ; rw [← hfe]; exact C2_of_affine f f0 c hf 0
  -- the rotation coordinate
  have hrot : ∀ (A B K α : ℝ), (|A| + |B| ≤ |b 0 - a 0| + |b 1 - a 1|) →
      ((fun t => A * cos (α + t) + B * sin (α + t) + K)
        = fun t => EdgeLandmark.calc_error_SE2 z off (PoseSE2.iadd_boxplus a (vecN (unitDelta d.val t))) b i) →
      ∃ φ' φ'' : ℝ → ℝ,
        (∀ t, HasDerivAt (fun t => EdgeLandmark.calc_error_SE2 z off (PoseSE2.iadd_boxplus a (vecN (unitDelta d.val t))) b i)
          (φ' t) t) ∧
        (∀ t, HasDerivAt φ' (φ'' t) t) ∧ (∀ t, |φ'' t| ≤ |b 0 - a 0| + |b 1 - a 1|) ∧
        EdgeLandmark.calc_jacobians_SE2_0 z off a b i d = φ' 0 := by
    intro A B K α hAB hfe
    refine ⟨fun t => B * cos (α + t) + (-A) * sin (α + t) + 0, fun t => (-A) * cos (α + t) + (-B) * sin (α + t) + 0,
      ?_, fun t => hasDerivAt_trig B (-A) 0 α t, ?_, ?_⟩
    · intro t; rw [← hfe]; exact hasDerivAt_trig A B K α t
    · intro t
      refine le_trans ?_ hAB
      have h1 : |(-A) * cos (α + t)| ≤ |A| := by
        rw [abs_mul, abs_neg]; exact mul_le_of_le_one_right (abs_nonneg _) (abs_cos_le_one _)
      have h2 : |(-B) * sin (α + t)| ≤ |B| := by
        rw [abs_mul, abs_neg]; exact mul_le_of_le_one_right (abs_nonneg _) (abs_sin_le_one _)
      show |(-A) * cos (α + t) + (-B) * sin (α + t) + 0| ≤ |A| + |B|
      rw [add_zero]
      exact le_trans (abs_add_le _ _) (add_le_add h1 h2)
    · apply hJ; rw [← hfe]; exact hasDerivAt_trig A B K α 0
  fin_cases d <;> fin_cases i
  · -- d = 0, i = 0
    apply haff _ (EdgeLandmark.calc_error_SE2 z off a b 0) (-(cos (a 2) * cos (a 2 + off 2) + sin (a 2) * sin (a 2 + off 2))) _ rfl
    intro t
    simp only [Fin.zero_eta, Fin.val_zero]
    rw [lmSE2_err0, lmSE2_err0, hb0]
    simp only [add_zero, cos_wrapPi_add, sin_wrapPi_add]
    ring
  · -- d = 0, i = 1
    apply haff _ (EdgeLandmark.calc_error_SE2 z off a b 1) (cos (a 2) * sin (a 2 + off 2) - sin (a 2) * cos (a 2 + off 2)) _ rfl
    intro t
    simp only [Fin.zero_eta, Fin.val_zero, Fin.mk_one]
    rw [lmSE2_err1, lmSE2_err1, hb0]
    simp only [add_zero, cos_wrapPi_add, sin_wrapPi_add]
    ring
  · -- d = 1, i = 0
    apply haff _ (EdgeLandmark.calc_error_SE2 z off a b 0) (sin (a 2) * cos (a 2 + off 2) - cos (a 2) * sin (a 2 + off 2)) _ rfl
    intro t
    simp only [Fin.zero_eta, Fin.mk_one, Fin.val_one]
    rw [lmSE2_err0, lmSE2_err0, hb1]
    simp only [add_zero, cos_wrapPi_add, sin_wrapPi_add]
    ring
  · -- d = 1, i = 1
    apply haff _ (EdgeLandmark.calc_error_SE2 z off a b 1) (-(sin (a 2) * sin (a 2 + off 2) + cos (a 2) * cos (a 2 + off 2))) _ rfl
    intro t
    simp only [Fin.mk_one, Fin.val_one]
    rw [lmSE2_err1, lmSE2_err1, hb1]
    simp only [add_zero, cos_wrapPi_add, sin_wrapPi_add]
    ring
  · -- d = 2, i = 0
    apply hrot (b 0 - a 0) (b 1 - a 1) (- off 0 * cos (off 2) - off 1 * sin (off 2) - z 0) (a 2 + off 2) (le_refl _)
    funext t
    show _ = EdgeLandmark.calc_error_SE2 z off (PoseSE2.iadd_boxplus a (vecN (unitDelta 2 t))) b 0
    rw [lmSE2_err0, hb2]
    simp only [cos_wrapPi_add, sin_wrapPi_add]
    have e : a 2 + t + off 2 = a 2 + off 2 + t := by ring
    rw [e]; ring
  · -- d = 2, i = 1
    apply hrot (b 1 - a 1) (-(b 0 - a 0)) (off 0 * sin (off 2) - off 1 * cos (off 2) - z 1) (a 2 + off 2)
      (by rw [abs_neg, add_comm])
    funext t
    show _ = EdgeLandmark.calc_error_SE2 z off (PoseSE2.iadd_boxplus a (vecN (unitDelta 2 t))) b 1
    rw [lmSE2_err1, hb2]
    simp only [cos_wrapPi_add, sin_wrapPi_add]
    have e : a 2 + t + off 2 = a 2 + off 2 + t := by ring
    rw [e]; ring

/-! ### the typed store -/

theorem boxplus_se2 (p : Fin 3 → ℝ) (δ : Nat → ℝ) : Pose.boxplus (.se2 p) δ = .se2 (PoseSE2.iadd_boxplus p (vecN δ)) := by
  simp only [Pose.boxplus, stored_eq]

theorem se2_boxplus_zero (a : Fin 3 → ℝ) (hr : C09.InRange a) (d : Nat) :
    PoseSE2.iadd_boxplus a (vecN (unitDelta d (0 : ℝ))) = a := by
  funext i
  fin_cases i <;>
    simp [PoseSE2.iadd_boxplus, PoseSE2.boxplus, vecN, unitDelta, neg_pi_to_pi_eq, wrapPi_of_mem hr.1 hr.2]

theorem r2_boxplus_zero (b : Fin 2 → ℝ) (d : Nat) : PoseR2.iadd_boxplus b (vecN (unitDelta d (0 : ℝ))) = b := by
  funext i
  fin_cases i <;> simp [PoseR2.iadd_boxplus, PoseR2.boxplus, vecN, unitDelta]

/-- the Jacobians `Model.lineariseAt` stores for this edge class (vertex 0: pose, vertex 1: landmark) -/
def lmSE2J (z : Fin 2 → ℝ) (off a : Fin 3 → ℝ) (b : Fin 2 → ℝ) : Nat → Nat → Nat → ℝ :=
  fun k => if k = 0 then arrM (EdgeLandmark.calc_jacobians_SE2_0 z off a b) else arrM (EdgeLandmark.calc_jacobians_SE2_1 z off a b)

/-- **`C2At` from the generated code**: SE(2) pose – R² landmark edge, `M = |b₀ − a₀| + |b₁ − a₁|`, any step `h` -/
theorem landmark_SE2_C2At (i j : Nat) (z : Fin 2 → ℝ) (off a : Fin 3 → ℝ) (b : Fin 2 → ℝ) (info : Nat → Nat → ℝ)
    (g0 g1 : Nat) (h : ℝ) (hr : C09.InRange a) :
    C2At Pose.boxplus poseCopy h (|b 0 - a 0| + |b 1 - a 1|) 2 (edgeErr (.lm i j (.r2 z) (.se2 off) info))
      [(g0, 3), (g1, 2)] [.se2 a, .r2 b] (lmSE2J z off a b) := by
  have hM : 0 ≤ |b 0 - a 0| + |b 1 - a 1| := add_nonneg (abs_nonneg _) (abs_nonneg _)
  intro k g dim hk
  match k, hk with
  | 0, hk =>
    simp only [List.getElem?_cons_zero, Option.some.injEq, Prod.mk.injEq] at hk
    obtain ⟨_, rfl⟩ := hk
    refine ⟨.se2 a, rfl, by simp only [poseCopy, C09.PoseSE2_copy_eq a hr], ?_⟩
    intro d hd
    refine ⟨?_, ?_⟩
    · show [Pose.boxplus (.se2 a) (unitDelta d (0 : ℝ)), Pose.r2 b] = _
      rw [boxplus_se2, se2_boxplus_zero a hr d]
    · intro x hx
      obtain ⟨φ', φ'', h1, h2, h3, h4⟩ := landmark_SE2_C2_0 z off a b ⟨d, hd⟩ ⟨x, hx⟩
      refine ⟨φ', φ'', fun t _ => ?_, fun t _ => h2 t, fun t _ => h3 t, ?_⟩
      · have e : (fun t : ℝ => edgeErr (.lm i j (.r2 z) (.se2 off) info)
              ([Pose.se2 a, Pose.r2 b].set 0 (Pose.boxplus (.se2 a) (unitDelta d t))) x)
            = fun t => EdgeLandmark.calc_error_SE2 z off (PoseSE2.iadd_boxplus a (vecN (unitDelta d t))) b ⟨x, hx⟩ := by
          funext t
          show edgeErr (.lm i j (.r2 z) (.se2 off) info) [Pose.boxplus (.se2 a) (unitDelta d t), Pose.r2 b] x = _
          rw [boxplus_se2]
          show arrV (EdgeLandmark.calc_error_SE2 z off (PoseSE2.iadd_boxplus a (vecN (unitDelta d t))) b) x = _
          exact arrV_lt _ x hx
        rw [e]; exact h1 t
      · show lmSE2J z off a b 0 x d = φ' 0
        rw [← h4]
        simp only [lmSE2J, if_true]
        exact arrM_lt _ x d hx hd
  | 1, hk =>
    simp only [List.getElem?_cons_succ, List.getElem?_cons_zero, Option.some.injEq, Prod.mk.injEq] at hk
    obtain ⟨_, rfl⟩ := hk
    refine ⟨.r2 b, rfl, poseCopy_r2 b, ?_⟩
    intro d hd
    refine ⟨?_, ?_⟩
    · show [Pose.se2 a, Pose.boxplus (.r2 b) (unitDelta d (0 : ℝ))] = _
      rw [boxplus_r2, r2_boxplus_zero b d]
    · intro x hx
      refine ⟨fun _ => EdgeLandmark.calc_jacobians_SE2_1 z off a b ⟨x, hx⟩ ⟨d, hd⟩, fun _ => 0, fun t _ => ?_,
        fun t _ => hasDerivAt_const t _, fun t _ => by simpa using hM, ?_⟩
      · have e : ∀ t : ℝ, edgeErr (.lm i j (.r2 z) (.se2 off) info)
              ([Pose.se2 a, Pose.r2 b].set 1 (Pose.boxplus (.r2 b) (unitDelta d t))) x
            = EdgeLandmark.calc_error_SE2 z off a b ⟨x, hx⟩
                + t * EdgeLandmark.calc_jacobians_SE2_1 z off a b ⟨x, hx⟩ ⟨d, hd⟩ := by
          intro t
          show edgeErr (.lm i j (.r2 z) (.se2 off) info) [Pose.se2 a, Pose.boxplus (.r2 b) (unitDelta d t)] x = _
          rw [boxplus_r2]
          show arrV (EdgeLandmark.calc_error_SE2 z off a (PoseR2.iadd_boxplus b (vecN (unitDelta d t)))) x = _
          rw [arrV_lt _ x hx]
          exact landmark_SE2_fd_1 z off a b t ⟨d, hd⟩ ⟨x, hx⟩
        exact C2_of_affine _ _ _ e t
      · show lmSE2J z off a b 1 x d = _
        simp only [lmSE2J, one_ne_zero, if_false]
        exact arrM_lt _ x d hx hd
  | k + 2, hk => simp at hk

theorem JacClose.mono {δ δ' : ℝ} (hle : δ ≤ δ') {l l' : EdgeLin ℝ} (h : JacClose δ l l') : JacClose δ' l l' :=
  ⟨h.m, h.chi2, h.err, h.info, h.verts.imp (fun x x' hx => ⟨hx.1, hx.2.1, fun a ha t ht => le_trans (hx.2.2 a ha t ht) hle⟩)⟩

/-- **one edge**: the numerically differentiated record of an SE(2)-pose / R²-landmark edge is `JacClose (M h)` to the
    analytic one, `M = |b₀ − a₀| + |b₁ − a₁|` — proved from the generated code, no analytic hypothesis -/
theorem landmark_SE2_jacClose (h : ℝ) (hh : 0 < h) (i j : Nat) (z : Fin 2 → ℝ) (off a : Fin 3 → ℝ) (b : Fin 2 → ℝ)
    (info : Nat → Nat → ℝ) (g0 g1 : Nat) (hr : C09.InRange a) :
    ∃ l l', lineariseAt g0 g1 (.se2 a) (.r2 b) (.lm i j (.r2 z) (.se2 off) info) = some l ∧
      numLineariseAt h g0 g1 (.se2 a) (.r2 b) (.lm i j (.r2 z) (.se2 off) info) = some l' ∧
      JacClose ((|b 0 - a 0| + |b 1 - a 1|) * h) l l' := by
  have hl : lineariseAt g0 g1 (.se2 a) (.r2 b) (.lm i j (.r2 z) (.se2 off) info)
      = some (mkLin g0 g1 (EdgeLandmark.calc_error_SE2 z off a b) info
          (EdgeLandmark.calc_jacobians_SE2_0 z off a b) (EdgeLandmark.calc_jacobians_SE2_1 z off a b)) := rfl
  obtain ⟨l', hl', hc⟩ := numLineariseAt_jacClose_of_C2 h (|b 0 - a 0| + |b 1 - a 1|) hh g0 g1 (.se2 a) (.r2 b) _ _ hl
    (lmSE2J z off a b) (by simp [mkLin, exactVerts, lmSE2J, truncJ_arrM, Pose.cdim])
    (landmark_SE2_C2At i j z off a b info g0 g1 h hr)
  exact ⟨_, l', hl, hl', hc⟩

/-! ### whole pose–landmark graphs -/

/-- an `EdgeLandmark` from an SE(2) pose vertex (in-range angle) to an R² landmark vertex of the state `s`, landmark within
    `ℓ¹` distance `D` of the pose position -/
def LmSE2Edge (s : GState ℝ) (D : ℝ) (e : Edge ℝ) : Prop :=
  ∃ (i j : Nat) (z : Fin 2 → ℝ) (off : Fin 3 → ℝ) (info : Nat → Nat → ℝ) (g0 d0 : Nat) (a : Fin 3 → ℝ) (g1 d1 : Nat)
    (b : Fin 2 → ℝ), e = .lm i j (.r2 z) (.se2 off) info ∧ s[i]? = some (g0, d0, .se2 a) ∧ s[j]? = some (g1, d1, .r2 b) ∧
      C09.InRange a ∧ |b 0 - a 0| + |b 1 - a 1| ≤ D

theorem lmSE2_hedge (h D : ℝ) (hh : 0 < h) (s : GState ℝ) (es : List (Edge ℝ)) (hedges : ∀ e ∈ es, LmSE2Edge s D e) :
    ∀ e ∈ es, ∀ l l', linearise s e = some l → numLinearise h s e = some l' → JacClose (D * h) l l' := by
  intro e he l l' hl hl'
  obtain ⟨i, j, z, off, info, g0, d0, a, g1, d1, b, rfl, hi, hj, hr, hD⟩ := hedges e he
  simp only [linearise, numLinearise, Edge.ends, hi, hj] at hl hl'
  obtain ⟨l0, l0', e1, e2, hc⟩ := landmark_SE2_jacClose h hh i j z off a b info g0 g1 hr
  rw [e1] at hl; rw [e2] at hl'
  simp only [Option.some.injEq] at hl hl'
  subst hl; subst hl'
  exact hc.mono (mul_le_mul_of_nonneg_right hD hh.le)

theorem numLins_exist (h : ℝ) (s : GState ℝ) (es : List (Edge ℝ)) (lins : List (EdgeLin ℝ))
    (hl : allSome (es.map (linearise s)) = some lins) : ∃ lins', allSome (es.map (numLinearise h s)) = some lins' := by
  apply allSome_exists
  intro e he
  obtain ⟨l, _, hle⟩ := allSome_of_mem (linearise s) es lins hl e he
  unfold linearise at hle
  unfold numLinearise
  cases h0 : s[e.ends.1]? with
  | none => rw [h0] at hle; simp at hle
  | some v0 =>
    cases h1 : s[e.ends.2]? with
    | none => rw [h0, h1] at hle; simp at hle
    | some v1 =>
      rw [h0, h1] at hle
      obtain ⟨g0, d0, p0⟩ := v0
      obtain ⟨g1, d1, p1⟩ := v1
      simp only at hle ⊢
      exact ⟨_, numLineariseAt_shape h g0 g1 p0 p1 e l hle⟩

/-- **(c) for pose–landmark SE(2) graphs, no analytic hypothesis**: at a visited state `s` whose edges are all SE(2)-pose /
    R²-landmark edges with landmarks within `ℓ¹` distance `D` of their poses, one iteration on the numerically
    differentiated graph (step `h > 0`) has the same χ², and `b`, `H` within the explicit bounds of (c) with `δ = D h`. -/
theorem landmark_graph_SE2_perturb (h D G : ℝ) (hh : 0 < h) (hD : 0 ≤ D) (hG0 : 0 ≤ G) (fixed : List Nat)
    (es : List (Edge ℝ)) (s : GState ℝ) (hs : StateOK s) (hdist : ∀ e ∈ es, e.ends.1 ≠ e.ends.2)
    (hsym : ∀ e ∈ es, ∀ a b, e.info a b = e.info b a) (hedges : ∀ e ∈ es, LmSE2Edge s D e)
    (lins : List (EdgeLin ℝ)) (hl : allSome (es.map (linearise s)) = some lins)
    (hG : ∀ l ∈ lins, ∀ x ∈ l.verts, ∀ a, a < l.m → ∀ t, t < x.2.1 → |x.2.2 a t| ≤ G) :
    ∃ r r', system fixed es s = some r ∧ numSystem h fixed es s = some r' ∧
      r'.1 = r.1 ∧
      (∀ u ∈ layoutOf s, ∀ k, k < u.2 →
        |r'.2.1 (u.1 + k) - r.2.1 (u.1 + k)| ≤ D * h * (lins.map fun l => incid l u.1 * gradWeight l).sum) ∧
      (∀ u ∈ layoutOf s, ∀ w ∈ layoutOf s, ∀ k, k < u.2 → ∀ t, t < w.2 →
        |r'.2.2 (u.1 + k) (w.1 + t) - r.2.2 (u.1 + k) (w.1 + t)|
          ≤ (2 * (D * h) * G + D * h * (D * h)) * (lins.map fun l => incid l u.1 * incid l w.1 * infoWeight l).sum) := by
  obtain ⟨lins', hl'⟩ := numLins_exist h s es lins hl
  exact numSystem_perturb h (D * h) G (mul_nonneg hD hh.le) hG0 fixed es s hs hdist hsym lins lins' hl hl'
    (lmSE2_hedge h D hh s es hedges) hG

/-- **(d) for pose–landmark SE(2) graphs**: the two iterations have the same stationary points up to `C · D · h` -/
theorem landmark_graph_SE2_stationary (h D : ℝ) (hh : 0 < h) (hD : 0 ≤ D) (fixed : List Nat)
    (es : List (Edge ℝ)) (s : GState ℝ) (hs : StateOK s) (hdist : ∀ e ∈ es, e.ends.1 ≠ e.ends.2)
    (hsym : ∀ e ∈ es, ∀ a b, e.info a b = e.info b a) (hedges : ∀ e ∈ es, LmSE2Edge s D e)
    (lins : List (EdgeLin ℝ)) (hl : allSome (es.map (linearise s)) = some lins) :
    ∃ r r', system fixed es s = some r ∧ numSystem h fixed es s = some r' ∧
      ∀ u ∈ layoutOf s, ∀ k, k < u.2 →
        (r.2.1 (u.1 + k) = 0 → |r'.2.1 (u.1 + k)| ≤ D * h * (lins.map fun l => incid l u.1 * gradWeight l).sum) ∧
        (r'.2.1 (u.1 + k) = 0 → |r.2.1 (u.1 + k)| ≤ D * h * (lins.map fun l => incid l u.1 * gradWeight l).sum) := by
  obtain ⟨lins', hl'⟩ := numLins_exist h s es lins hl
  exact numSystem_stationary h (D * h) (mul_nonneg hD hh.le) fixed es s hs hdist hsym lins lins' hl hl'
    (lmSE2_hedge h D hh s es hedges)

/-! ### non-vacuity -/

/-- one SE(2) pose at the origin, one R² landmark at `(1, 2)`, one landmark edge with measurement `(1, 1)`, zero offset and
    identity information -/
def exLmPs : List (Pose ℝ) := [.se2 (fun _ => 0), .r2 (fun i => if i = 0 then 1 else 2)]
def exLmEs : List (Edge ℝ) := [.lm 0 1 (.r2 (fun _ => 1)) (.se2 (fun _ => 0)) (fun a b => if a = b then 1 else 0)]

/-- every hypothesis of `landmark_graph_SE2_stationary` holds for this graph at its initial state, with the library's step
    `h = 1e-6` and `D = 3` -/
example : ∃ r r', system [] exLmEs (initState 0 exLmPs) = some r ∧ numSystem 1e-6 [] exLmEs (initState 0 exLmPs) = some r' ∧
    ∀ u ∈ layoutOf (initState 0 exLmPs), ∀ k, k < u.2 →
      (r.2.1 (u.1 + k) = 0 → |r'.2.1 (u.1 + k)| ≤ 3 * 1e-6 *
        ((exLmEs.filterMap (linearise (initState 0 exLmPs))).map fun l => incid l u.1 * gradWeight l).sum) := by
  have hedges : ∀ e ∈ exLmEs, LmSE2Edge (initState 0 exLmPs) 3 e := by
    intro e he
    simp only [exLmEs, List.mem_singleton] at he
    subst he
    refine ⟨0, 1, _, _, _, 0, 3, fun _ => 0, 3, 2, fun i => if i = 0 then 1 else 2, rfl, rfl, rfl, ?_, ?_⟩
    · constructor <;> simp <;> linarith [Real.pi_pos]
    · norm_num
  obtain ⟨r, r', h1, h2, h3⟩ := landmark_graph_SE2_stationary 1e-6 3 (by norm_num) (by norm_num) [] exLmEs
    (initState 0 exLmPs) (stateOK_initState exLmPs)
    (by intro e he; simp only [exLmEs, List.mem_singleton] at he; subst he; simp [Edge.ends])
    (by intro e he a b; simp only [exLmEs, List.mem_singleton] at he; subst he; simp [Edge.info, eq_comm])
    hedges _ rfl
  exact ⟨r, r', h1, h2, fun u hu k hk => (h3 u hu k hk).1⟩

end
end GraphSlam.Props.C16
