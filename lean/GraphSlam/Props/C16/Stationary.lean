import GraphSlam.Props.C16.NumGraph
import GraphSlam.Props.C16.Perturb

/-!
# C16 (c)/(d) — from the accuracy of the forward difference to the normal equations; stationary points agree to `O(ε)`

* `numJacobians_spec`, `numLin_eq_fd` — for **any** error function (no affinity), under purity (`copy p = p` for the
  edge's vertices), the record of a numerically differentiated edge is `exactLin` of the forward-difference matrices
  `fdJac` (entry `(a, d)` of vertex `k`: `(err(p_k ⊞ ε e_d)_a − err(p)_a) / ε`);
* `exactLin_jacClose` — two records built from entrywise `δ`-close matrices are `JacClose δ`;
* `numLin_jacClose_of_C2` — with `C16.num_jacobian_accuracy`: if along every coordinate of every vertex the error is `C²` on
  `[0, ε]` with second derivative bounded by `M`, and `J` holds the true derivatives at `0`, then
  `JacClose (M ε) (exactLin … J) (numLin …)` — the hypothesis of `Props/C16/Perturb` with `δ = M ε`;
* `gradient_num_of_stationary`, `gradient_true_of_num_stationary` — **(d)**: if the true gradient vanishes on the free rows,
  the numerical one is at most `C δ` there, and conversely, `C = Σ_edges inc_e(u) · Σ_b |(eᵀΩ)_b|` the constant of
  `dense_gradient_perturb` (coarse: `n_edges · m² E W`); `zero_step_iff_gradient_zero`: the zero increment solves
  `H x = −b` on `[0, N)` iff `b = 0` there, so "stationary point of the iteration" is "`b = 0`" for either system:
  **the two iterations have the same stationary points up to `O(ε)`**;
* `true_step_residual` — the exact Gauss–Newton step `dx` (`H dx = −b`) satisfies the numerical normal equations up to
  `c_H · ‖dx‖₁ + c_b` in every row, `c_H`, `c_b` the entrywise bounds of (c); `gn_step_perturb` — hence, if the numerical
  system is stable with constant `κ` (a bound on `‖H'⁻¹‖_∞`), the two Gauss–Newton steps differ by at most
  `κ (c_H ‖dx‖₁ + c_b)` in every coordinate.

Convergence itself (that the iteration approaches such a point) is C05's subject and is not claimed here.
-/

namespace GraphSlam.Props.C16
open GraphSlam GraphSlam.Model GraphSlam.Props.C03 Finset
set_option linter.unusedVariables false
set_option linter.unusedSimpArgs false
noncomputable section

/-! ### the record of a numerically differentiated edge, for any error -/

/-- the forward-difference matrix of vertex `k` of the edge: entry `(a, d)` is `(err(p_k ⊞ ε e_d)_a − err(p)_a) / ε` -/
def fdJac {P : Type} (err : List P → Nat → ℝ) (boxplus : P → (Nat → ℝ) → P) (ε : ℝ) (ps : List P) :
    Nat → Nat → Nat → ℝ :=
  fun k a d => match ps[k]? with
    | some p => fdCol err boxplus k ε ps p d a
    | none => 0

/-- **`BaseEdge.calc_jacobians`, any error function**: under purity the result is the list of forward-difference matrices,
    and the store is untouched (any number of vertices, any pose types) -/
theorem numJacobians_spec {P : Type} (err : List P → Nat → ℝ) (boxplus : P → (Nat → ℝ) → P) (copy : P → P)
    (ε : ℝ) (ps : List P) :
    ∀ (vs : List (Nat × Nat)) (k0 : Nat),
      (∀ i g dim, vs[i]? = some (g, dim) → ∃ p, ps[k0 + i]? = some p ∧ copy p = p) →
      numJacobians err boxplus copy ε k0 vs ps = (exactVerts (fdJac err boxplus ε ps) k0 vs, ps) := by
  intro vs
  induction vs with
  | nil => intro k0 _; rfl
  | cons v rest ih =>
    intro k0 h
    obtain ⟨g, dim⟩ := v
    obtain ⟨p, hk, hcopy⟩ := h 0 g dim rfl
    simp only [Nat.add_zero] at hk
    have h1 := numJacobian_spec err boxplus copy k0 dim ε ps p hk hcopy
    have hcols : (List.range dim).map (fdCol err boxplus k0 ε ps p)
        = (List.range dim).map fun d a => fdJac err boxplus ε ps k0 a d := by
      apply List.map_congr_left; intro d _; funext a; simp [fdJac, hk]
    rw [hcols] at h1
    have h2 := ih (k0 + 1) (fun i g' dim' hi => by
      have := h (i + 1) g' dim' (by simpa using hi)
      have e : k0 + (i + 1) = k0 + 1 + i := by omega
      rw [e] at this
      exact this)
    simp only [numJacobians, h1, h2, exactVerts, colsToJac_range]

/-- the record `calc_chi2_gradient_hessian` works from, for any error function, is `exactLin` of the forward differences -/
theorem numLin_eq_fd {P : Type} (boxplus : P → (Nat → ℝ) → P) (copy : P → P) (ε : ℝ) (m : Nat)
    (err : List P → Nat → ℝ) (info : Nat → Nat → ℝ) (vs : List (Nat × Nat)) (ps : List P)
    (hpure : ∀ (k g dim : Nat), vs[k]? = some (g, dim) → ∃ p, ps[k]? = some p ∧ copy p = p) :
    numLin boxplus copy ε m err info vs ps = exactLin m (err ps) info vs (fdJac err boxplus ε ps) := by
  unfold numLin exactLin
  rw [numJacobians_spec err boxplus copy ε ps vs 0 (fun i g dim hi => by
    obtain ⟨p, h1, h2⟩ := hpure i g dim hi
    exact ⟨p, by simpa using h1, h2⟩)]

/-! ### `δ`-close matrices give `JacClose δ` records -/

theorem exactVerts_close (m : Nat) (δ : ℝ) (J J' : Nat → Nat → Nat → ℝ) :
    ∀ (vs : List (Nat × Nat)) (k0 : Nat),
      (∀ i g dim, vs[i]? = some (g, dim) → ∀ a, a < m → ∀ t, t < dim → |J' (k0 + i) a t - J (k0 + i) a t| ≤ δ) →
      List.Forall₂ (fun x x' : Nat × Nat × (Nat → Nat → ℝ) => x'.1 = x.1 ∧ x'.2.1 = x.2.1 ∧
        ∀ a, a < m → ∀ t, t < x.2.1 → |x'.2.2 a t - x.2.2 a t| ≤ δ) (exactVerts J k0 vs) (exactVerts J' k0 vs) := by
  intro vs
  induction vs with
  | nil => intro k0 _; exact .nil
  | cons v rest ih =>
    intro k0 h
    obtain ⟨g, dim⟩ := v
    simp only [exactVerts]
    refine .cons ⟨rfl, rfl, ?_⟩ (ih (k0 + 1) (fun i g' dim' hi a ha t ht => by
      have := h (i + 1) g' dim' (by simpa using hi) a ha t ht
      have e : k0 + (i + 1) = k0 + 1 + i := by omega
      rw [e] at this
      exact this))
    intro a ha t ht
    have := h 0 g dim rfl a ha t ht
    simp only [Nat.add_zero] at this
    simpa [truncJ, ht] using this

/-- records built from entrywise `δ`-close matrices (on the `m × dim` entries of every vertex) are `JacClose δ` -/
theorem exactLin_jacClose (m : Nat) (err : Nat → ℝ) (info : Nat → Nat → ℝ) (vs : List (Nat × Nat)) (δ : ℝ)
    (J J' : Nat → Nat → Nat → ℝ)
    (h : ∀ k g dim, vs[k]? = some (g, dim) → ∀ a, a < m → ∀ t, t < dim → |J' k a t - J k a t| ≤ δ) :
    JacClose δ (exactLin m err info vs J) (exactLin m err info vs J') :=
  ⟨rfl, rfl, rfl, rfl, exactVerts_close m δ J J' vs 0 (fun i g dim hi a ha t ht => by
    have := h i g dim hi a ha t ht; simpa using this)⟩

/-- the analytic hypothesis under which the numerical Jacobians are `M ε`-accurate: at the current poses `ps`, along every
    compact coordinate `d` of every vertex `k`, each error component `a < m` is a `C²` function of the step on `[0, ε]`
    with second derivative bounded by `M`, `J k a d` is its derivative at `0`; `⊞ 0` leaves the pose unchanged and `copy`
    returns the pose it is given -/
def C2At {P : Type} (boxplus : P → (Nat → ℝ) → P) (copy : P → P) (ε M : ℝ) (m : Nat) (err : List P → Nat → ℝ)
    (vs : List (Nat × Nat)) (ps : List P) (J : Nat → Nat → Nat → ℝ) : Prop :=
  ∀ k g dim, vs[k]? = some (g, dim) → ∃ p, ps[k]? = some p ∧ copy p = p ∧
    ∀ d, d < dim → ps.set k (boxplus p (unitDelta d (0 : ℝ))) = ps ∧
      ∀ a, a < m → ∃ φ' φ'' : ℝ → ℝ,
        (∀ t ∈ Set.Icc 0 ε, HasDerivAt (fun t => err (ps.set k (boxplus p (unitDelta d t))) a) (φ' t) t) ∧
        (∀ t ∈ Set.Icc 0 ε, HasDerivAt φ' (φ'' t) t) ∧ (∀ t ∈ Set.Icc 0 ε, |φ'' t| ≤ M) ∧ J k a d = φ' 0

/-- **from `num_jacobian_accuracy` to the hypothesis of (c)**: the record of a numerically differentiated edge with `C²`
    error is `JacClose (M ε)` to the record built from the true derivatives -/
theorem numLin_jacClose_of_C2 {P : Type} (boxplus : P → (Nat → ℝ) → P) (copy : P → P) (ε M : ℝ) (hε : 0 < ε) (m : Nat)
    (err : List P → Nat → ℝ) (info : Nat → Nat → ℝ) (vs : List (Nat × Nat)) (ps : List P) (J : Nat → Nat → Nat → ℝ)
    (h : C2At boxplus copy ε M m err vs ps J) :
    JacClose (M * ε) (exactLin m (err ps) info vs J) (numLin boxplus copy ε m err info vs ps) := by
  rw [numLin_eq_fd boxplus copy ε m err info vs ps (fun k g dim hk => by
    obtain ⟨p, h1, h2, _⟩ := h k g dim hk; exact ⟨p, h1, h2⟩)]
  apply exactLin_jacClose
  intro k g dim hk a ha t ht
  obtain ⟨p, hp, _, hd⟩ := h k g dim hk
  obtain ⟨hbox0, hall⟩ := hd t ht
  obtain ⟨φ', φ'', h1, h2, hM, hJ⟩ := hall a ha
  have := num_jacobian_accuracy err boxplus k ε M hε ps p t a hbox0 φ' φ'' h1 h2 hM
  simpa [fdJac, hp, hJ] using this

/-! ### (d) stationary points -/

/-- the zero increment solves `H x = −b` on `[0, N)` iff `b` vanishes there: a state is a fixed point of the Gauss–Newton
    iteration (with an exact solver and a uniquely solvable system) exactly when its gradient is zero -/
theorem zero_step_iff_gradient_zero (N : Nat) (H : Nat → Nat → ℝ) (b : Nat → ℝ) :
    (∀ i, i < N → ∑ j ∈ range N, H i j * (0 : ℝ) = - b i) ↔ ∀ i, i < N → b i = 0 := by
  constructor
  · intro h i hi
    have := h i hi
    simp only [mul_zero, sum_const_zero] at this
    linarith
  · intro h i hi
    simp [h i hi]

/-- **(d), first half**: at a stationary point of the exact iteration (`b = 0` at the position), the gradient assembled
    from `δ`-close Jacobians is at most `C δ`, `C = Σ_edges inc_e(u) · Σ_b |(eᵀΩ)_b|` -/
theorem gradient_num_of_stationary {verts : List (Nat × Nat)} (hl : Layout verts) (fixed : List Nat)
    (es es' : List (EdgeLin ℝ)) (δ : ℝ) (hδ : 0 ≤ δ) (hc : List.Forall₂ (JacClose δ) es es')
    (hes : EdgesWF verts es) (u : Nat × Nat) (hu : u ∈ verts) (s : Nat) (hs : s < u.2)
    (hstat : fillGradient fixed (accumulate es).g (u.1 + s) = 0) :
    |fillGradient fixed (accumulate es').g (u.1 + s)| ≤ δ * (es.map fun l => incid l u.1 * gradWeight l).sum := by
  have := dense_gradient_perturb hl fixed es es' δ hδ hc hes u hu s hs
  rwa [hstat, sub_zero] at this

/-- **(d), second half**: at a stationary point of the numerical iteration (`b' = 0` at the position), the true gradient
    is at most `C δ` — with the same explicit `C` (computed from the true records) -/
theorem gradient_true_of_num_stationary {verts : List (Nat × Nat)} (hl : Layout verts) (fixed : List Nat)
    (es es' : List (EdgeLin ℝ)) (δ : ℝ) (hδ : 0 ≤ δ) (hc : List.Forall₂ (JacClose δ) es es')
    (hes : EdgesWF verts es) (u : Nat × Nat) (hu : u ∈ verts) (s : Nat) (hs : s < u.2)
    (hstat : fillGradient fixed (accumulate es').g (u.1 + s) = 0) :
    |fillGradient fixed (accumulate es).g (u.1 + s)| ≤ δ * (es.map fun l => incid l u.1 * gradWeight l).sum := by
  have := dense_gradient_perturb hl fixed es es' δ hδ hc hes u hu s hs
  rwa [hstat, zero_sub, abs_neg] at this

/-- (d) with the coarse constant: `|b'[i]| ≤ δ · n_edges · m² E W` wherever `b[i] = 0`, and conversely -/
theorem stationary_points_agree_coarse {verts : List (Nat × Nat)} (hl : Layout verts) (fixed : List Nat)
    (es es' : List (EdgeLin ℝ)) (δ Emax W : ℝ) (m : Nat) (hδ : 0 ≤ δ) (hE0 : 0 ≤ Emax) (hW0 : 0 ≤ W)
    (hc : List.Forall₂ (JacClose δ) es es') (hes : EdgesWF verts es)
    (hdist : ∀ e ∈ es, (e.verts.map (·.1)).Nodup) (hm : ∀ e ∈ es, e.m ≤ m)
    (hE : ∀ e ∈ es, ∀ a, a < e.m → |e.err a| ≤ Emax)
    (hW : ∀ e ∈ es, ∀ a b, a < e.m → b < e.m → |e.info a b| ≤ W)
    (u : Nat × Nat) (hu : u ∈ verts) (s : Nat) (hs : s < u.2) :
    (fillGradient fixed (accumulate es).g (u.1 + s) = 0 →
      |fillGradient fixed (accumulate es').g (u.1 + s)| ≤ δ * ((es.length : ℝ) * ((m : ℝ) * ((m : ℝ) * (Emax * W))))) ∧
    (fillGradient fixed (accumulate es').g (u.1 + s) = 0 →
      |fillGradient fixed (accumulate es).g (u.1 + s)| ≤ δ * ((es.length : ℝ) * ((m : ℝ) * ((m : ℝ) * (Emax * W))))) := by
  have := dense_gradient_perturb_coarse hl fixed es es' δ Emax W m hδ hE0 hW0 hc hes hdist hm hE hW u hu s hs
  constructor
  · intro h; rwa [h, sub_zero] at this
  · intro h; rwa [h, zero_sub, abs_neg] at this

/-! ### the exact step in the numerical system -/

/-- if `H`, `b` and `H'`, `b'` differ entrywise by at most `cH`, `cb` on `[0, N)`, a solution `dx` of `H dx = −b` leaves the
    residual `|H' dx + b'| ≤ cH · Σ_j |dx_j| + cb` in every row of the perturbed system: the exact Gauss–Newton step solves
    the numerically assembled normal equations up to `O(δ)` (with `cH`, `cb` from `dense_hessian_perturb_coarse`,
    `dense_gradient_perturb_coarse`) -/
theorem true_step_residual (N : Nat) (H H' : Nat → Nat → ℝ) (b b' dx : Nat → ℝ) (cH cb : ℝ)
    (hH : ∀ i, i < N → ∀ j, j < N → |H' i j - H i j| ≤ cH) (hb : ∀ i, i < N → |b' i - b i| ≤ cb)
    (hsol : ∀ i, i < N → ∑ j ∈ range N, H i j * dx j = - b i) (i : Nat) (hi : i < N) :
    |∑ j ∈ range N, H' i j * dx j + b' i| ≤ cH * ∑ j ∈ range N, |dx j| + cb := by
  have e : ∑ j ∈ range N, H' i j * dx j + b' i = ∑ j ∈ range N, (H' i j - H i j) * dx j + (b' i - b i) := by
    have := hsol i hi
    simp only [sub_mul, sum_sub_distrib]
    linarith
  rw [e]
  refine le_trans (abs_add_le _ _) (add_le_add ?_ (hb i hi))
  refine le_trans (abs_sum_le_sum_abs _ _) ?_
  rw [mul_sum]
  apply sum_le_sum
  intro j hj
  rw [abs_mul]
  exact mul_le_mul_of_nonneg_right (hH i hi j (mem_range.mp hj)) (abs_nonneg _)

/-- **perturbation of the Gauss–Newton step.**  Let `dx` solve the exact system `H dx = −b` and `dx'` the numerically
    assembled one `H' dx' = −b'` on `[0, N)`, the two systems differing entrywise by at most `cH`, `cb` (from (c)).  If the
    numerical system is stable with constant `κ` in the max-norm (`|H' v| ≤ ρ` in every row forces `|v_j| ≤ κ ρ`: a bound on
    `‖H'⁻¹‖_∞`), the two steps differ by at most `κ · (cH · ‖dx‖₁ + cb)` in every coordinate — `O(δ)`. -/
theorem gn_step_perturb (N : Nat) (H H' : Nat → Nat → ℝ) (b b' dx dx' : Nat → ℝ) (cH cb κ : ℝ)
    (hH : ∀ i, i < N → ∀ j, j < N → |H' i j - H i j| ≤ cH) (hb : ∀ i, i < N → |b' i - b i| ≤ cb)
    (hsol : ∀ i, i < N → ∑ j ∈ range N, H i j * dx j = - b i)
    (hsol' : ∀ i, i < N → ∑ j ∈ range N, H' i j * dx' j = - b' i)
    (hstab : ∀ (v : Nat → ℝ) (ρ : ℝ), (∀ i, i < N → |∑ j ∈ range N, H' i j * v j| ≤ ρ) → ∀ j, j < N → |v j| ≤ κ * ρ)
    (j : Nat) (hj : j < N) :
    |dx j - dx' j| ≤ κ * (cH * ∑ j ∈ range N, |dx j| + cb) := by
  apply hstab (fun j => dx j - dx' j) _ _ j hj
  intro i hi
  have e : ∑ j ∈ range N, H' i j * (dx j - dx' j) = ∑ j ∈ range N, H' i j * dx j + b' i := by
    simp only [mul_sub, sum_sub_distrib]
    rw [hsol' i hi]; ring
  rw [e]
  exact true_step_residual N H H' b b' dx cH cb hH hb hsol i hi

/-! ### non-vacuity of `C2At` -/

/-- a unary edge on a scalar vertex `x` (box-plus is addition) with the non-affine error `x²`: `C²` with `M = 2`, true
    derivative `2x`; the record with numerical Jacobians is `JacClose (2 ε)` to the exact one -/
example (x ε : ℝ) (hε : 0 < ε) :
    JacClose (2 * ε)
      (exactLin 1 (fun _ => x ^ 2) (fun _ _ => 1) [(0, 1)] (fun _ _ _ => 2 * x))
      (numLin (fun (p : ℝ) δ => p + δ 0) id ε 1 (fun ps _ => (ps.headD 0) ^ 2) (fun _ _ => 1) [(0, 1)] [x]) := by
  have := numLin_jacClose_of_C2 (fun (p : ℝ) δ => p + δ 0) id ε 2 hε 1 (fun ps _ => (ps.headD 0) ^ 2) (fun _ _ => 1)
    [(0, 1)] [x] (fun _ _ _ => 2 * x) (by
      intro k g dim hk
      match k, hk with
      | 0, hk =>
        simp only [List.getElem?_cons_zero, Option.some.injEq, Prod.mk.injEq] at hk
        obtain ⟨_, rfl⟩ := hk
        refine ⟨x, rfl, rfl, ?_⟩
        intro d hd
        have hd0 : d = 0 := by omega
        subst hd0
        refine ⟨by simp [unitDelta], ?_⟩
        intro a _
        refine ⟨fun t => 2 * (x + t), fun _ => 2, ?_, ?_, ?_, by simp⟩
        · intro t _
          have h1 : HasDerivAt (fun t : ℝ => x + t) 1 t := by simpa using (hasDerivAt_id t).const_add x
          have h2 : HasDerivAt (fun t : ℝ => (x + t) ^ 2) (2 * (x + t)) t := by simpa using h1.fun_pow 2
          simpa [unitDelta] using h2
        · intro t _
          have h1 : HasDerivAt (fun t : ℝ => x + t) 1 t := by simpa using (hasDerivAt_id t).const_add x
          simpa using h1.const_mul 2
        · intro t _; norm_num
      | k + 1, hk => simp at hk)
  simpa using this

end
end GraphSlam.Props.C16
