import GraphSlam.Props.C09.SE2
import GraphSlam.Real.Atan2
import Mathlib.LinearAlgebra.Matrix.NonsingularInverse

/-!
# C09 for `PoseSE2.from_matrix` — the matrix → pose half of "⊕ is multiplication of homogeneous matrices"

`PoseSE2.from_matrix` (se2.py:97-112) is regenerated from the source like every other pose method:
`from_matrix M = new [M₀₂, M₁₂] (atan2 (M₁₀, M₀₀))`, i.e. the translation column and the heading of the first column of
the rotation block, *wrapped by the class constructor* into `[-π, π)`.

Over the reals `atan2` is `atan2R` (`Real/Atan2.lean`, `Complex.arg` of the point, range `(-π, π]`).  The constructor
wrap that follows matters exactly once: for a heading `θ ≡ -π` the first column is `(-1, 0)`, `atan2` returns `+π`, and the
wrap maps it to `-π` — the representative the constructor guarantees.  So the round trip `from_matrix ∘ to_matrix` is the
identity on the whole range `InRange p` (`-π ≤ θ < π`), *including* `θ = -π` (`PoseSE2_from_matrix_to_matrix`,
`PoseSE2_from_matrix_to_matrix_neg_pi`).

The composition statements hold for ALL real triples (no range hypothesis), because both sides are wrapped:
`from_matrix (M a · M b) = a ⊕ b`, `from_matrix (M b⁻¹ · M a) = a ⊖ b`, `from_matrix (M a⁻¹) = a.inverse`, where `M = to_matrix`
and `⁻¹` is Mathlib's matrix inverse.
-/

namespace GraphSlam.Props.C09
open GraphSlam GraphSlam.Gen Real
set_option linter.unusedSimpArgs false
set_option linter.unusedVariables false

/-- `from_matrix` unfolded over the reals: translation column, and the wrapped `atan2` of the first rotation column -/
theorem PoseSE2_from_matrix_apply (M : Fin 3 → Fin 3 → ℝ) :
    PoseSE2.from_matrix M 0 = M 0 2 ∧ PoseSE2.from_matrix M 1 = M 1 2 ∧
      PoseSE2.from_matrix M 2 = wrapPi (atan2R (M 1 0) (M 0 0)) := by
  refine ⟨rfl, rfl, ?_⟩
  simp only [PoseSE2.from_matrix, neg_pi_to_pi_eq, real_atan2]

/-- whatever 3×3 array is passed, the pose returned by `from_matrix` has its angle in `[-π, π)` (C11's range invariant
    extends to this constructor path) -/
theorem PoseSE2_from_matrix_inRange (M : Fin 3 → Fin 3 → ℝ) : InRange (PoseSE2.from_matrix M) := by
  unfold InRange
  rw [(PoseSE2_from_matrix_apply M).2.2]
  exact wrapPi_mem _

/-- **General form.**  If the first column of the rotation block of `M` is a positive multiple `r·(cos θ, sin θ)` (`r = 1` for
    a rigid motion; products of rounded matrices have `r ≈ 1`), `from_matrix M` is the pose the constructor builds from
    the translation column of `M` and the heading `θ`. -/
theorem PoseSE2_from_matrix_of_column (M : Fin 3 → Fin 3 → ℝ) {r : ℝ} (hr : 0 < r) (θ : ℝ)
    (h00 : M 0 0 = r * cos θ) (h10 : M 1 0 = r * sin θ) :
    PoseSE2.from_matrix M = PoseSE2.new (fun i => match i with | 0 => M 0 2 | 1 => M 1 2) θ := by
  funext i
  fin_cases i
  · rfl
  · rfl
  · show PoseSE2.from_matrix M 2 = PoseSE2.new _ θ 2
    rw [(PoseSE2_from_matrix_apply M).2.2, h00, h10, wrapPi_atan2R_mul_sin_cos hr]
    simp only [PoseSE2.new, neg_pi_to_pi_eq]

/-- `from_matrix (to_matrix p)` is `p` with its angle wrapped (= `p.copy()`), for every real triple -/
theorem PoseSE2_from_matrix_to_matrix_copy (p : Fin 3 → ℝ) :
    PoseSE2.from_matrix (PoseSE2.to_matrix p) = PoseSE2.copy p := by
  rw [PoseSE2_from_matrix_of_column (PoseSE2.to_matrix p) one_pos (p 2)
    (by simp [PoseSE2.to_matrix]) (by simp [PoseSE2.to_matrix])]
  funext i; fin_cases i <;> rfl

/-- **Round trip pose → matrix → pose** (se2.py:81-112): `from_matrix (to_matrix p) = p` for every pose whose angle is in the
    range the constructor guarantees, `-π ≤ θ < π` — the closed end `θ = -π` included. -/
theorem PoseSE2_from_matrix_to_matrix (p : Fin 3 → ℝ) (h : InRange p) :
    PoseSE2.from_matrix (PoseSE2.to_matrix p) = p := by
  rw [PoseSE2_from_matrix_to_matrix_copy, PoseSE2_copy_eq p h]

/-- the range hypothesis cannot be dropped: the round trip returns an in-range pose, so it can only fix in-range poses -/
theorem PoseSE2_from_matrix_to_matrix_iff (p : Fin 3 → ℝ) :
    PoseSE2.from_matrix (PoseSE2.to_matrix p) = p ↔ InRange p :=
  ⟨fun h => h ▸ PoseSE2_from_matrix_inRange _, PoseSE2_from_matrix_to_matrix p⟩

/-- the boundary case spelled out: at `θ = -π` the inner `atan2` returns `+π` (outside the pose range) and it is the
    constructor's wrap that brings it back to `-π`; dropping the wrap in `from_matrix` would break the round trip here. -/
theorem PoseSE2_from_matrix_to_matrix_neg_pi (x y : ℝ) :
    let p : Fin 3 → ℝ := fun i => match i with | 0 => x | 1 => y | 2 => -π
    InRange p ∧
    (ScalarT.atan2 (PoseSE2.to_matrix p 1 0) (PoseSE2.to_matrix p 0 0) : ℝ) = π ∧
    PoseSE2.from_matrix (PoseSE2.to_matrix p) = p := by
  intro p
  have hp : InRange p := ⟨le_refl _, by show -π < π; linarith [Real.pi_pos]⟩
  refine ⟨hp, ?_, PoseSE2_from_matrix_to_matrix p hp⟩
  show atan2R (Real.sin (-π)) (Real.cos (-π)) = π
  rw [Real.sin_neg, Real.cos_neg, Real.sin_pi, Real.cos_pi, neg_zero]
  exact atan2R_zero_of_neg (by norm_num)

/-! ### ⊕, ⊖, inverse through matrices (`np.dot` form: `dotMM` is what `np.dot` of two 2-D arrays translates to) -/

/-- **`p ⊕ q` is the pose of the matrix product** (the way the library's own test states C09):
    `from_matrix (np.dot(p.to_matrix(), q.to_matrix())) = p + q`, for all real triples, wrapped angle included. -/
theorem PoseSE2_from_matrix_mul (p q : Fin 3 → ℝ) :
    PoseSE2.from_matrix (dotMM (PoseSE2.to_matrix p) (PoseSE2.to_matrix q)) = PoseSE2.add p q := by
  have hM : dotMM (PoseSE2.to_matrix p) (PoseSE2.to_matrix q) = PoseSE2.to_matrix (PoseSE2.add p q) := by
    funext i j; exact (PoseSE2_to_matrix_add p q i j).symm
  rw [hM, PoseSE2_from_matrix_to_matrix _ (PoseSE2_add_inRange p q)]

/-- `p.inverse` is the pose of the matrix `to_matrix (p.inverse)`, which is the inverse matrix (`PoseSE2_to_matrix_inverse`) -/
theorem PoseSE2_from_matrix_to_matrix_inverse (p : Fin 3 → ℝ) :
    PoseSE2.from_matrix (PoseSE2.to_matrix (PoseSE2.inverse p)) = PoseSE2.inverse p :=
  PoseSE2_from_matrix_to_matrix _ (PoseSE2_inverse_inRange p)

/-- **`p ⊖ q` is the pose of `M(q)⁻¹ · M(p)`**, with `M(q)⁻¹ = to_matrix (q.inverse)` -/
theorem PoseSE2_from_matrix_inverse_mul (p q : Fin 3 → ℝ) :
    PoseSE2.from_matrix (dotMM (PoseSE2.to_matrix (PoseSE2.inverse q)) (PoseSE2.to_matrix p)) = PoseSE2.sub p q := by
  rw [PoseSE2_from_matrix_mul, PoseSE2_sub_eq_inverse_add]

/-- the identity matrix is the identity pose -/
theorem PoseSE2_from_matrix_eye : PoseSE2.from_matrix (eye 3 : Fin 3 → Fin 3 → ℝ) = PoseSE2.identity := by
  have h := PoseSE2_from_matrix_to_matrix (PoseSE2.identity (E := ℝ)) PoseSE2_identity_inRange
  have hM : PoseSE2.to_matrix (PoseSE2.identity (E := ℝ)) = eye 3 := by
    funext i j; fin_cases i <;> fin_cases j <;> simp [PoseSE2.to_matrix, PoseSE2.identity, eye, neg_pi_to_pi_eq, wrapPi_zero]
  rw [hM] at h; exact h

/-! ### the same with Mathlib's matrix product and matrix inverse -/

/-- the homogeneous matrix of a pose, as a Mathlib matrix -/
noncomputable def homM (p : Fin 3 → ℝ) : Matrix (Fin 3) (Fin 3) ℝ := Matrix.of (PoseSE2.to_matrix p)

theorem homM_mul (p q : Fin 3 → ℝ) : homM p * homM q = Matrix.of (dotMM (PoseSE2.to_matrix p) (PoseSE2.to_matrix q)) := by
  unfold homM; rw [dotMM_eq_mul]; rfl

/-- `to_matrix (p.inverse)` is Mathlib's inverse of `to_matrix p` -/
theorem homM_inv (p : Fin 3 → ℝ) : (homM p)⁻¹ = homM (PoseSE2.inverse p) := by
  apply Matrix.inv_eq_right_inv
  rw [homM_mul]
  ext i j
  rw [Matrix.of_apply, PoseSE2_to_matrix_inverse, Matrix.one_apply]

/-- `p ⊕ q = from_matrix (M p * M q)` (Mathlib matrix product) -/
theorem PoseSE2_from_matrix_matrix_mul (p q : Fin 3 → ℝ) :
    PoseSE2.from_matrix (homM p * homM q : Matrix (Fin 3) (Fin 3) ℝ) = PoseSE2.add p q := by
  rw [homM_mul]; exact PoseSE2_from_matrix_mul p q

/-- `p ⊖ q = from_matrix ((M q)⁻¹ * M p)` (Mathlib matrix inverse and product) -/
theorem PoseSE2_from_matrix_matrix_inv_mul (p q : Fin 3 → ℝ) :
    PoseSE2.from_matrix ((homM q)⁻¹ * homM p : Matrix (Fin 3) (Fin 3) ℝ) = PoseSE2.sub p q := by
  rw [homM_inv, homM_mul]; exact PoseSE2_from_matrix_inverse_mul p q

/-- `p.inverse = from_matrix ((M p)⁻¹)` (Mathlib matrix inverse) -/
theorem PoseSE2_from_matrix_matrix_inv (p : Fin 3 → ℝ) :
    PoseSE2.from_matrix ((homM p)⁻¹ : Matrix (Fin 3) (Fin 3) ℝ) = PoseSE2.inverse p := by
  rw [homM_inv]; exact PoseSE2_from_matrix_to_matrix_inverse p

/-! ### the other round trip: matrix → pose → matrix -/

/-- a homogeneous matrix of a planar rigid motion: rotation block `[[c, -s], [s, c]]` with `c² + s² = 1`, bottom row `0 0 1` -/
structure IsSE2 (M : Fin 3 → Fin 3 → ℝ) : Prop where
  unit : M 0 0 ^ 2 + M 1 0 ^ 2 = 1
  m01 : M 0 1 = -M 1 0
  m11 : M 1 1 = M 0 0
  m20 : M 2 0 = 0
  m21 : M 2 1 = 0
  m22 : M 2 2 = 1

theorem isSE2_to_matrix (p : Fin 3 → ℝ) : IsSE2 (PoseSE2.to_matrix p) := by
  constructor <;> simp [PoseSE2.to_matrix]

/-- **Round trip matrix → pose → matrix**: `to_matrix (from_matrix M) = M` for every rigid-motion matrix, so `to_matrix` and
    `from_matrix` are mutually inverse bijections between in-range poses and SE(2) matrices. -/
theorem PoseSE2_to_matrix_from_matrix (M : Fin 3 → Fin 3 → ℝ) (hM : IsSE2 M) :
    PoseSE2.to_matrix (PoseSE2.from_matrix M) = M := by
  have hne : M 0 0 ≠ 0 ∨ M 1 0 ≠ 0 := by
    by_contra hcon
    rw [not_or, not_not, not_not] at hcon
    have := hM.unit
    rw [hcon.1, hcon.2] at this
    norm_num at this
  have hc : Real.cos (PoseSE2.from_matrix M 2) = M 0 0 := by
    rw [(PoseSE2_from_matrix_apply M).2.2, cos_wrapPi, cos_atan2R hne, hM.unit, Real.sqrt_one, div_one]
  have hs : Real.sin (PoseSE2.from_matrix M 2) = M 1 0 := by
    rw [(PoseSE2_from_matrix_apply M).2.2, sin_wrapPi, sin_atan2R, hM.unit, Real.sqrt_one, div_one]
  funext i j
  fin_cases i <;> fin_cases j <;>
    simp only [PoseSE2.to_matrix, real_cos, real_sin, real_ofInt, hc, hs, hM.m01, hM.m11, hM.m20, hM.m21, hM.m22,
      Fin.zero_eta, Fin.mk_one, Fin.reduceFinMk, Fin.isValue, Int.cast_zero, Int.cast_one] <;> rfl

/-- the pose ↔ matrix correspondence is one-to-one on the range the constructor guarantees -/
theorem PoseSE2_to_matrix_injOn (p q : Fin 3 → ℝ) (hp : InRange p) (hq : InRange q)
    (h : PoseSE2.to_matrix p = PoseSE2.to_matrix q) : p = q := by
  rw [← PoseSE2_from_matrix_to_matrix p hp, h, PoseSE2_from_matrix_to_matrix q hq]

/-! ### non-vacuity: concrete in-range poses (one on the closed end of the range), concrete matrices -/

example : InRange (fun i => match i with | 0 => 1 | 1 => 2 | 2 => -π : Fin 3 → ℝ) :=
  (PoseSE2_from_matrix_to_matrix_neg_pi 1 2).1

example : InRange (fun i => match i with | 0 => 0.5 | 1 => -1.5 | 2 => -1.1 : Fin 3 → ℝ) := by
  constructor
  · show -π ≤ (-1.1 : ℝ); linarith [Real.two_le_pi]
  · show (-1.1 : ℝ) < π; linarith [Real.two_le_pi]

/-- a clockwise quarter turn (the quadrant the seeded `acos`-of-the-trace variant gets wrong): heading `-π/2` is recovered -/
example :
    PoseSE2.from_matrix (fun i j => match i, j with
      | 0, 0 => 0 | 0, 1 => 1 | 0, 2 => 3
      | 1, 0 => -1 | 1, 1 => 0 | 1, 2 => 4
      | 2, 0 => 0 | 2, 1 => 0 | 2, 2 => 1 : Fin 3 → Fin 3 → ℝ) 2 = -(π / 2) := by
  rw [(PoseSE2_from_matrix_apply _).2.2]
  have h := (atan2R_spec (-1) 0).2.2.2.2.1 rfl (by norm_num)
  show wrapPi (atan2R (-1) 0) = _
  rw [h]
  exact wrapPi_of_mem (by linarith [Real.pi_pos]) (by linarith [Real.pi_pos])

example : IsSE2 (eye 3 : Fin 3 → Fin 3 → ℝ) := by
  constructor <;> simp [eye]

end GraphSlam.Props.C09
