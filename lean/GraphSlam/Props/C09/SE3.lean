import GraphSlam.Real.Reflect
import GraphSlam.Generated.PoseSE3
import Mathlib.Tactic.LinearCombination

/-!
# C09 / C11 for `PoseSE3` — composition is the rigid-motion group (unit quaternions)

Statements are fixed; the definitions (`PoseSE3.add`, `.sub`, `.inverse`, `.to_matrix`, …) are regenerated from
`/repo/graphslam/pose/se3.py` on every run.  Identities that hold only on the unit sphere are proved by
`linear_combination c * hp` where the cofactor `c` was found by sympy (tools/dev/certs.py) — an untrusted oracle: the
kernel re-checks the identity by `ring`.  A certificate keeps checking under any rewrite of the code denoting the same
polynomial and stops checking when the polynomial changes.
-/

namespace GraphSlam.Props.C09
open GraphSlam GraphSlam.Gen
set_option linter.unusedSimpArgs false
set_option linter.unusedVariables false
set_option maxHeartbeats 4000000

/-- the quaternion part `[qx qy qz qw] = p 3 … p 6` has unit norm -/
def Unit4 (p : Fin 7 → ℝ) : Prop := p 3 ^ 2 + p 4 ^ 2 + p 5 ^ 2 + p 6 ^ 2 = 1

/-- squared norm of the quaternion part -/
def qnorm2 (p : Fin 7 → ℝ) : ℝ := p 3 ^ 2 + p 4 ^ 2 + p 5 ^ 2 + p 6 ^ 2

macro "se3_unfold" : tactic =>
  `(tactic| simp only [PoseSE3.add, PoseSE3.sub, PoseSE3.inverse, PoseSE3.identity, PoseSE3.add_point, PoseSE3.to_matrix, PoseSE3.copy, PoseSE3.to_compact, PoseSE3.position, PoseSE3.orientation, dotMM, finSum_four, finSum_three, qnorm2,
      real_ofInt, Fin.isValue, Fin.reduceEq, Fin.reduceFinMk, Fin.zero_eta, Fin.mk_one, Fin.reduceLast, Fin.reduceCastSucc,
      Fin.castSucc_zero, Fin.castSucc_one, Fin.last, Fin.castSucc,
      Int.cast_zero, Int.cast_one, Int.cast_ofNat, Int.cast_neg, ↓reduceIte, if_true, if_false])

/-- identity is a left unit (every `p`) -/
theorem PoseSE3_identity_left (p : Fin 7 → ℝ) :
    PoseSE3.add PoseSE3.identity p = p := by
  try unfold Unit4 at *
  funext i
  fin_cases i
  · se3_unfold <;> ring
  · se3_unfold <;> ring
  · se3_unfold <;> ring
  · se3_unfold <;> ring
  · se3_unfold <;> ring
  · se3_unfold <;> ring
  · se3_unfold <;> ring

/-- identity is a right unit (every `p`) -/
theorem PoseSE3_identity_right (p : Fin 7 → ℝ) :
    PoseSE3.add p PoseSE3.identity = p := by
  try unfold Unit4 at *
  funext i
  fin_cases i
  · se3_unfold <;> ring
  · se3_unfold <;> ring
  · se3_unfold <;> ring
  · se3_unfold <;> ring
  · se3_unfold <;> ring
  · se3_unfold <;> ring
  · se3_unfold <;> ring

/-- `p ⊕ p⁻¹ = identity` for unit quaternions -/
theorem PoseSE3_add_inverse (p : Fin 7 → ℝ) (hp : Unit4 p) :
    PoseSE3.add p (PoseSE3.inverse p) = PoseSE3.identity := by
  try unfold Unit4 at *
  funext i
  fin_cases i
  · se3_unfold <;> linear_combination (-4*p 0*p 4^2 - 4*p 0*p 5^2 + 4*p 1*p 3*p 4 + 4*p 2*p 3*p 5) * hp
  · se3_unfold <;> linear_combination (4*p 0*p 3*p 4 - 4*p 1*p 3^2 - 4*p 1*p 5^2 + 4*p 2*p 4*p 5) * hp
  · se3_unfold <;> linear_combination (4*p 0*p 3*p 5 + 4*p 1*p 4*p 5 - 4*p 2*p 3^2 - 4*p 2*p 4^2) * hp
  · se3_unfold <;> ring
  · se3_unfold <;> ring
  · se3_unfold <;> ring
  · se3_unfold <;> linear_combination (1) * hp

/-- `p⁻¹ ⊕ p = identity` for unit quaternions -/
theorem PoseSE3_inverse_add (p : Fin 7 → ℝ) (hp : Unit4 p) :
    PoseSE3.add (PoseSE3.inverse p) p = PoseSE3.identity := by
  try unfold Unit4 at *
  funext i
  fin_cases i
  · se3_unfold <;> ring
  · se3_unfold <;> ring
  · se3_unfold <;> ring
  · se3_unfold <;> ring
  · se3_unfold <;> ring
  · se3_unfold <;> ring
  · se3_unfold <;> linear_combination (1) * hp

/-- inversion is an involution on unit quaternions -/
theorem PoseSE3_inverse_inverse (p : Fin 7 → ℝ) (hp : Unit4 p) :
    PoseSE3.inverse (PoseSE3.inverse p) = p := by
  try unfold Unit4 at *
  funext i
  fin_cases i
  · se3_unfold <;> linear_combination (4*p 0*p 4^2 + 4*p 0*p 5^2 - 4*p 1*p 3*p 4 - 4*p 2*p 3*p 5) * hp
  · se3_unfold <;> linear_combination (-4*p 0*p 3*p 4 + 4*p 1*p 3^2 + 4*p 1*p 5^2 - 4*p 2*p 4*p 5) * hp
  · se3_unfold <;> linear_combination (-4*p 0*p 3*p 5 - 4*p 1*p 4*p 5 + 4*p 2*p 3^2 + 4*p 2*p 4^2) * hp
  · se3_unfold <;> ring
  · se3_unfold <;> ring
  · se3_unfold <;> ring
  · se3_unfold <;> ring

/-- `a ⊖ b = b⁻¹ ⊕ a` (unit `b`) -/
theorem PoseSE3_sub_eq_inverse_add (p q : Fin 7 → ℝ) (hq : Unit4 q) :
    PoseSE3.sub p q = PoseSE3.add (PoseSE3.inverse q) p := by
  try unfold Unit4 at *
  funext i
  fin_cases i
  · se3_unfold <;> ring
  · se3_unfold <;> ring
  · se3_unfold <;> ring
  · se3_unfold <;> ring
  · se3_unfold <;> ring
  · se3_unfold <;> ring
  · se3_unfold <;> ring

/-- composition is associative (unit `p`, `q`) -/
theorem PoseSE3_add_assoc (p q r : Fin 7 → ℝ) (hp : Unit4 p) (hq : Unit4 q) :
    PoseSE3.add (PoseSE3.add p q) r = PoseSE3.add p (PoseSE3.add q r) := by
  try unfold Unit4 at *
  funext i
  fin_cases i
  · se3_unfold <;> linear_combination (2*q 3*q 4*r 1 + 2*q 3*q 5*r 2 - 2*q 4^2*r 0 + 2*q 4*q 6*r 2 - 2*q 5^2*r 0 - 2*q 5*q 6*r 1) * hp + (2*p 3*p 4*r 1 + 2*p 3*p 5*r 2 - 2*p 4^2*r 0 + 2*p 4*p 6*r 2 - 2*p 5^2*r 0 - 2*p 5*p 6*r 1) * hq
  · se3_unfold <;> linear_combination (-4*q 3^2*r 1 + 2*q 3*q 4*r 0 - 2*q 3*q 6*r 2 - 2*q 4^2*r 1 + 2*q 4*q 5*r 2 - 4*q 5^2*r 1 + 2*q 5*q 6*r 0 - 2*q 6^2*r 1 + 2*r 1) * hp + (2*p 3*p 4*r 0 - 2*p 3*p 6*r 2 + 2*p 4^2*r 1 + 2*p 4*p 5*r 2 + 2*p 5*p 6*r 0 + 2*p 6^2*r 1 - 2*r 1) * hq
  · se3_unfold <;> linear_combination (-4*q 3^2*r 2 + 2*q 3*q 5*r 0 + 2*q 3*q 6*r 1 - 4*q 4^2*r 2 + 2*q 4*q 5*r 1 - 2*q 4*q 6*r 0 - 2*q 5^2*r 2 - 2*q 6^2*r 2 + 2*r 2) * hp + (2*p 3*p 5*r 0 + 2*p 3*p 6*r 1 + 2*p 4*p 5*r 1 - 2*p 4*p 6*r 0 + 2*p 5^2*r 2 + 2*p 6^2*r 2 - 2*r 2) * hq
  · se3_unfold <;> ring
  · se3_unfold <;> ring
  · se3_unfold <;> ring
  · se3_unfold <;> ring

/-- `(q ⊕ p) ⊖ q = p` (unit `q`) -/
theorem PoseSE3_add_sub_cancel (p q : Fin 7 → ℝ) (hq : Unit4 q) :
    PoseSE3.sub (PoseSE3.add q p) q = p := by
  try unfold Unit4 at *
  funext i
  fin_cases i
  · se3_unfold <;> linear_combination (4*p 0*q 4^2 + 4*p 0*q 5^2 - 4*p 1*q 3*q 4 - 4*p 2*q 3*q 5) * hq
  · se3_unfold <;> linear_combination (-4*p 0*q 3*q 4 + 4*p 1*q 3^2 + 4*p 1*q 5^2 - 4*p 2*q 4*q 5) * hq
  · se3_unfold <;> linear_combination (-4*p 0*q 3*q 5 - 4*p 1*q 4*q 5 + 4*p 2*q 3^2 + 4*p 2*q 4^2) * hq
  · se3_unfold <;> linear_combination (p 3) * hq
  · se3_unfold <;> linear_combination (p 4) * hq
  · se3_unfold <;> linear_combination (p 5) * hq
  · se3_unfold <;> linear_combination (p 6) * hq

/-- `q ⊕ (p ⊖ q) = p` (unit `q`) -/
theorem PoseSE3_add_sub_cancel_left (p q : Fin 7 → ℝ) (hq : Unit4 q) :
    PoseSE3.add q (PoseSE3.sub p q) = p := by
  try unfold Unit4 at *
  funext i
  fin_cases i
  · se3_unfold <;> linear_combination (4*p 0*q 4^2 + 4*p 0*q 5^2 - 4*p 1*q 3*q 4 - 4*p 2*q 3*q 5 - 4*q 0*q 4^2 - 4*q 0*q 5^2 + 4*q 1*q 3*q 4 + 4*q 2*q 3*q 5) * hq
  · se3_unfold <;> linear_combination (-4*p 0*q 3*q 4 + 4*p 1*q 3^2 + 4*p 1*q 5^2 - 4*p 2*q 4*q 5 + 4*q 0*q 3*q 4 - 4*q 1*q 3^2 - 4*q 1*q 5^2 + 4*q 2*q 4*q 5) * hq
  · se3_unfold <;> linear_combination (-4*p 0*q 3*q 5 - 4*p 1*q 4*q 5 + 4*p 2*q 3^2 + 4*p 2*q 4^2 + 4*q 0*q 3*q 5 + 4*q 1*q 4*q 5 - 4*q 2*q 3^2 - 4*q 2*q 4^2) * hq
  · se3_unfold <;> linear_combination (p 3) * hq
  · se3_unfold <;> linear_combination (p 4) * hq
  · se3_unfold <;> linear_combination (p 5) * hq
  · se3_unfold <;> linear_combination (p 6) * hq

/-- `p ⊖ p = identity` (unit `p`) -/
theorem PoseSE3_sub_self (p : Fin 7 → ℝ) (hp : Unit4 p) :
    PoseSE3.sub p p = PoseSE3.identity := by
  try unfold Unit4 at *
  funext i
  fin_cases i
  · se3_unfold <;> ring
  · se3_unfold <;> ring
  · se3_unfold <;> ring
  · se3_unfold <;> ring
  · se3_unfold <;> ring
  · se3_unfold <;> ring
  · se3_unfold <;> linear_combination (1) * hp

/-- the quaternion norm is multiplicative under `add` (every real operand) -/
theorem PoseSE3_qnorm2_add (p q : Fin 7 → ℝ) : qnorm2 (PoseSE3.add p q) = qnorm2 p * qnorm2 q := by
  se3_unfold; ring

/-- the quaternion norm is multiplicative under `sub` (every real operand) -/
theorem PoseSE3_qnorm2_sub (p q : Fin 7 → ℝ) : qnorm2 (PoseSE3.sub p q) = qnorm2 p * qnorm2 q := by
  se3_unfold; ring

theorem PoseSE3_qnorm2_inverse (p : Fin 7 → ℝ) : qnorm2 (PoseSE3.inverse p) = qnorm2 p := by
  se3_unfold; ring

theorem PoseSE3_qnorm2_copy (p : Fin 7 → ℝ) : qnorm2 (PoseSE3.copy p) = qnorm2 p := by
  se3_unfold

theorem PoseSE3_qnorm2_identity : qnorm2 (PoseSE3.identity (E := ℝ)) = 1 := by
  se3_unfold; norm_num

/-- every operation maps unit quaternions to unit quaternions -/
theorem PoseSE3_unit_add (p q : Fin 7 → ℝ) (hp : Unit4 p) (hq : Unit4 q) : Unit4 (PoseSE3.add p q) := by
  have h := PoseSE3_qnorm2_add p q
  unfold Unit4 at *; unfold qnorm2 at h; rw [h, hp, hq]; norm_num
theorem PoseSE3_unit_sub (p q : Fin 7 → ℝ) (hp : Unit4 p) (hq : Unit4 q) : Unit4 (PoseSE3.sub p q) := by
  have h := PoseSE3_qnorm2_sub p q
  unfold Unit4 at *; unfold qnorm2 at h; rw [h, hp, hq]; norm_num
theorem PoseSE3_unit_inverse (p : Fin 7 → ℝ) (hp : Unit4 p) : Unit4 (PoseSE3.inverse p) := by
  have h := PoseSE3_qnorm2_inverse p
  unfold Unit4 at *; unfold qnorm2 at h; rw [h, hp]
theorem PoseSE3_unit_identity : Unit4 (PoseSE3.identity (E := ℝ)) := PoseSE3_qnorm2_identity

/-- ⊕ is multiplication of the 4×4 homogeneous matrices `to_matrix` returns (unit `p`, `q`) -/
theorem PoseSE3_to_matrix_add (p q : Fin 7 → ℝ) (hp : Unit4 p) (hq : Unit4 q) (i : Fin 4) (j : Fin 4) :
    PoseSE3.to_matrix (PoseSE3.add p q) i j = dotMM (PoseSE3.to_matrix p) (PoseSE3.to_matrix q) i j := by
  try unfold Unit4 at *
  fin_cases i <;> fin_cases j
  · se3_unfold <;> ring
  · se3_unfold <;> ring
  · se3_unfold <;> ring
  · se3_unfold <;> linear_combination (-q 0) * hp
  · se3_unfold <;> ring
  · se3_unfold <;> ring
  · se3_unfold <;> ring
  · se3_unfold <;> linear_combination (-q 1) * hp
  · se3_unfold <;> ring
  · se3_unfold <;> ring
  · se3_unfold <;> ring
  · se3_unfold <;> linear_combination (-q 2) * hp
  · se3_unfold <;> ring
  · se3_unfold <;> ring
  · se3_unfold <;> ring
  · se3_unfold <;> ring

/-- `to_matrix p · to_matrix p⁻¹ = I` (unit `p`) -/
theorem PoseSE3_to_matrix_inverse (p : Fin 7 → ℝ) (hp : Unit4 p) (i : Fin 4) (j : Fin 4) :
    dotMM (PoseSE3.to_matrix p) (PoseSE3.to_matrix (PoseSE3.inverse p)) i j = (if i = j then 1 else 0) := by
  try unfold Unit4 at *
  fin_cases i <;> fin_cases j
  · se3_unfold <;> linear_combination (p 3^2 + p 4^2 + p 5^2 + p 6^2 + 1) * hp
  · se3_unfold <;> ring
  · se3_unfold <;> ring
  · se3_unfold <;> linear_combination (-2*p 0*p 4^2 - 2*p 0*p 5^2 - p 0 + 2*p 1*p 3*p 4 - 2*p 1*p 5*p 6 + 2*p 2*p 3*p 5 + 2*p 2*p 4*p 6) * hp
  · se3_unfold <;> ring
  · se3_unfold <;> linear_combination (p 3^2 + p 4^2 + p 5^2 + p 6^2 + 1) * hp
  · se3_unfold <;> ring
  · se3_unfold <;> linear_combination (2*p 0*p 3*p 4 + 2*p 0*p 5*p 6 - 2*p 1*p 3^2 - 2*p 1*p 5^2 - p 1 - 2*p 2*p 3*p 6 + 2*p 2*p 4*p 5) * hp
  · se3_unfold <;> ring
  · se3_unfold <;> ring
  · se3_unfold <;> linear_combination (p 3^2 + p 4^2 + p 5^2 + p 6^2 + 1) * hp
  · se3_unfold <;> linear_combination (2*p 0*p 3*p 5 - 2*p 0*p 4*p 6 + 2*p 1*p 3*p 6 + 2*p 1*p 4*p 5 - 2*p 2*p 3^2 - 2*p 2*p 4^2 - p 2) * hp
  · se3_unfold <;> ring
  · se3_unfold <;> ring
  · se3_unfold <;> ring
  · se3_unfold <;> ring

/-- the rotation block of `to_matrix p` is orthogonal for unit `p` (so `to_matrix` really is a rigid motion) -/
theorem PoseSE3_rotation_orthogonal (p : Fin 7 → ℝ) (hp : Unit4 p) (i j : Fin 3) :
    (PoseSE3.to_matrix p (Fin.castLE (by omega) i) 0 * PoseSE3.to_matrix p (Fin.castLE (by omega) j) 0 + PoseSE3.to_matrix p (Fin.castLE (by omega) i) 1 * PoseSE3.to_matrix p (Fin.castLE (by omega) j) 1 + PoseSE3.to_matrix p (Fin.castLE (by omega) i) 2 * PoseSE3.to_matrix p (Fin.castLE (by omega) j) 2) = (if i = j then 1 else 0) := by
  unfold Unit4 at *
  fin_cases i <;> fin_cases j
  · simp only [Fin.castLE]; se3_unfold <;> linear_combination (p 3^2 + p 4^2 + p 5^2 + p 6^2 + 1) * hp
  · simp only [Fin.castLE]; se3_unfold <;> ring
  · simp only [Fin.castLE]; se3_unfold <;> ring
  · simp only [Fin.castLE]; se3_unfold <;> ring
  · simp only [Fin.castLE]; se3_unfold <;> linear_combination (p 3^2 + p 4^2 + p 5^2 + p 6^2 + 1) * hp
  · simp only [Fin.castLE]; se3_unfold <;> ring
  · simp only [Fin.castLE]; se3_unfold <;> ring
  · simp only [Fin.castLE]; se3_unfold <;> ring
  · simp only [Fin.castLE]; se3_unfold <;> linear_combination (p 3^2 + p 4^2 + p 5^2 + p 6^2 + 1) * hp

/-- `pose ⊕ point` is the action of the homogeneous matrix on the point (unit `p`) -/
theorem PoseSE3_add_point_action (p : Fin 7 → ℝ) (x : Fin 3 → ℝ) (hp : Unit4 p) (i : Fin 3) :
    PoseSE3.add_point p x i = PoseSE3.to_matrix p (Fin.castLE (by omega) i) 0 * x 0 + PoseSE3.to_matrix p (Fin.castLE (by omega) i) 1 * x 1 + PoseSE3.to_matrix p (Fin.castLE (by omega) i) 2 * x 2 + PoseSE3.to_matrix p (Fin.castLE (by omega) i) 3 := by
  unfold Unit4 at *
  fin_cases i
  · simp only [Fin.castLE]; se3_unfold <;> linear_combination (-x 0) * hp
  · simp only [Fin.castLE]; se3_unfold <;> linear_combination (-x 1) * hp
  · simp only [Fin.castLE]; se3_unfold <;> linear_combination (-x 2) * hp

/-- the point action is compatible with composition (unit `p`, `q`) -/
theorem PoseSE3_add_point_add (p q : Fin 7 → ℝ) (x : Fin 3 → ℝ) (hp : Unit4 p) (hq : Unit4 q) :
    PoseSE3.add_point (PoseSE3.add p q) x = PoseSE3.add_point p (PoseSE3.add_point q x) := by
  try unfold Unit4 at *
  funext i
  fin_cases i
  · se3_unfold <;> linear_combination (2*q 3*q 4*x 1 + 2*q 3*q 5*x 2 - 2*q 4^2*x 0 + 2*q 4*q 6*x 2 - 2*q 5^2*x 0 - 2*q 5*q 6*x 1) * hp + (2*p 3*p 4*x 1 + 2*p 3*p 5*x 2 - 2*p 4^2*x 0 + 2*p 4*p 6*x 2 - 2*p 5^2*x 0 - 2*p 5*p 6*x 1) * hq
  · se3_unfold <;> linear_combination (-4*q 3^2*x 1 + 2*q 3*q 4*x 0 - 2*q 3*q 6*x 2 - 2*q 4^2*x 1 + 2*q 4*q 5*x 2 - 4*q 5^2*x 1 + 2*q 5*q 6*x 0 - 2*q 6^2*x 1 + 2*x 1) * hp + (2*p 3*p 4*x 0 - 2*p 3*p 6*x 2 + 2*p 4^2*x 1 + 2*p 4*p 5*x 2 + 2*p 5*p 6*x 0 + 2*p 6^2*x 1 - 2*x 1) * hq
  · se3_unfold <;> linear_combination (-4*q 3^2*x 2 + 2*q 3*q 5*x 0 + 2*q 3*q 6*x 1 - 4*q 4^2*x 2 + 2*q 4*q 5*x 1 - 2*q 4*q 6*x 0 - 2*q 5^2*x 2 - 2*q 6^2*x 2 + 2*x 2) * hp + (2*p 3*p 5*x 0 + 2*p 3*p 6*x 1 + 2*p 4*p 5*x 1 - 2*p 4*p 6*x 0 + 2*p 5^2*x 2 + 2*p 6^2*x 2 - 2*x 2) * hq

end GraphSlam.Props.C09
