import GraphSlam.Real.Reflect
import GraphSlam.Generated.PoseR2
import GraphSlam.Generated.PoseR3

/-!
# C09 for `PoseR2` / `PoseR3` — the translation group

For points the homogeneous matrix is `[I t; 0 1]`, so composition of matrices is addition of translations; all
group laws reduce to the abelian group laws of `ℝⁿ`.
-/

namespace GraphSlam.Props.C09
open GraphSlam GraphSlam.Gen
set_option linter.unusedSimpArgs false

macro "rn_tac" : tactic =>
  `(tactic| (funext i; fin_cases i <;>
      simp only [PoseR2.add, PoseR2.sub, PoseR2.inverse, PoseR2.identity, PoseR2.boxplus, PoseR2.copy, PoseR2.new,
        PoseR2.to_compact, PoseR2.to_array, PoseR2.position,
        PoseR3.add, PoseR3.sub, PoseR3.inverse, PoseR3.identity, PoseR3.boxplus, PoseR3.copy, PoseR3.new,
        PoseR3.to_compact, PoseR3.to_array, PoseR3.position,
        real_ofInt, Int.cast_zero, Fin.isValue, Fin.zero_eta, Fin.mk_one, Fin.reduceFinMk,
        Pi.add_apply, Pi.sub_apply, Pi.neg_apply, Pi.zero_apply] <;> (try ring1)))

theorem PoseR2_add_is_vector_add (p q : Fin 2 → ℝ) : PoseR2.add p q = p + q := by rn_tac
theorem PoseR2_sub_is_vector_sub (p q : Fin 2 → ℝ) : PoseR2.sub p q = p - q := by rn_tac
theorem PoseR2_inverse_is_neg (p : Fin 2 → ℝ) : PoseR2.inverse p = -p := by rn_tac
theorem PoseR2_identity_is_zero : PoseR2.identity (E := ℝ) = 0 := by rn_tac
theorem PoseR2_identity_left (p : Fin 2 → ℝ) : PoseR2.add PoseR2.identity p = p := by rn_tac
theorem PoseR2_identity_right (p : Fin 2 → ℝ) : PoseR2.add p PoseR2.identity = p := by rn_tac
theorem PoseR2_add_inverse (p : Fin 2 → ℝ) : PoseR2.add p (PoseR2.inverse p) = PoseR2.identity := by rn_tac
theorem PoseR2_inverse_add (p : Fin 2 → ℝ) : PoseR2.add (PoseR2.inverse p) p = PoseR2.identity := by rn_tac
theorem PoseR2_sub_eq_inverse_add (p q : Fin 2 → ℝ) : PoseR2.sub p q = PoseR2.add (PoseR2.inverse q) p := by rn_tac
theorem PoseR2_add_assoc (p q r : Fin 2 → ℝ) : PoseR2.add (PoseR2.add p q) r = PoseR2.add p (PoseR2.add q r) := by rn_tac
theorem PoseR2_boxplus_eq_add (p δ : Fin 2 → ℝ) : PoseR2.boxplus p δ = PoseR2.add p δ := by rn_tac
theorem PoseR2_copy_eq (p : Fin 2 → ℝ) : PoseR2.copy p = p := by rn_tac

theorem PoseR3_add_is_vector_add (p q : Fin 3 → ℝ) : PoseR3.add p q = p + q := by rn_tac
theorem PoseR3_sub_is_vector_sub (p q : Fin 3 → ℝ) : PoseR3.sub p q = p - q := by rn_tac
theorem PoseR3_inverse_is_neg (p : Fin 3 → ℝ) : PoseR3.inverse p = -p := by rn_tac
theorem PoseR3_identity_is_zero : PoseR3.identity (E := ℝ) = 0 := by rn_tac
theorem PoseR3_identity_left (p : Fin 3 → ℝ) : PoseR3.add PoseR3.identity p = p := by rn_tac
theorem PoseR3_identity_right (p : Fin 3 → ℝ) : PoseR3.add p PoseR3.identity = p := by rn_tac
theorem PoseR3_add_inverse (p : Fin 3 → ℝ) : PoseR3.add p (PoseR3.inverse p) = PoseR3.identity := by rn_tac
theorem PoseR3_inverse_add (p : Fin 3 → ℝ) : PoseR3.add (PoseR3.inverse p) p = PoseR3.identity := by rn_tac
theorem PoseR3_sub_eq_inverse_add (p q : Fin 3 → ℝ) : PoseR3.sub p q = PoseR3.add (PoseR3.inverse q) p := by rn_tac
theorem PoseR3_add_assoc (p q r : Fin 3 → ℝ) : PoseR3.add (PoseR3.add p q) r = PoseR3.add p (PoseR3.add q r) := by rn_tac
theorem PoseR3_boxplus_eq_add (p δ : Fin 3 → ℝ) : PoseR3.boxplus p δ = PoseR3.add p δ := by rn_tac
theorem PoseR3_copy_eq (p : Fin 3 → ℝ) : PoseR3.copy p = p := by rn_tac

end GraphSlam.Props.C09
