import GraphSlam.Real.Reflect
import GraphSlam.Real.Wrap
import GraphSlam.Generated.PoseSE2
import Mathlib.Tactic.LinearCombination

/-!
# C09 / C11 for `PoseSE2` — composition is the planar rigid-motion group, exactly, wrapped angle included

Poses are real triples `(x, y, θ)`.  Every constructor wraps the angle (`neg_pi_to_pi`); the theorems below hold with
the wrap in place: both sides are wrapped angles of congruent arguments, hence *equal*.  `InRange p` (`-π ≤ θ < π`)
is assumed only where a bare `p` (not the result of an operation) appears on one side of an equation.
-/

namespace GraphSlam.Props.C09
open GraphSlam GraphSlam.Gen Real
set_option linter.unusedSimpArgs false
set_option linter.unusedVariables false
set_option maxHeartbeats 4000000

/-- the angle is a representative in `[-π, π)` -/
def InRange (p : Fin 3 → ℝ) : Prop := -π ≤ p 2 ∧ p 2 < π

macro "se2_unfold" : tactic =>
  `(tactic| simp only [PoseSE2.add, PoseSE2.sub, PoseSE2.inverse, PoseSE2.identity, PoseSE2.add_point, PoseSE2.to_matrix,
      PoseSE2.copy, PoseSE2.new, PoseSE2.boxplus, PoseSE2.to_compact, PoseSE2.to_array, PoseSE2.orientation, PoseSE2.position,
      PoseR2.new, neg_pi_to_pi_eq, finSum_three, dotMM,
      real_ofInt, real_cos, real_sin, Fin.isValue, Fin.reduceEq, Fin.reduceFinMk, Fin.zero_eta, Fin.mk_one,
      Int.cast_zero, Int.cast_one, Int.cast_ofNat, Int.cast_neg, ↓reduceIte, if_true, if_false,
      cos_wrapPi, sin_wrapPi, cos_sub_wrapPi, sin_sub_wrapPi, cos_add_wrapPi, sin_add_wrapPi,
      wrapPi_sub_wrapPi_right, wrapPi_sub_wrapPi_left, wrapPi_add_wrapPi_left, wrapPi_add_wrapPi_right,
      wrapPi_neg_wrapPi, wrapPi_wrapPi])

theorem wrapPi_zero : wrapPi 0 = 0 := wrapPi_of_mem (by linarith [Real.pi_pos]) Real.pi_pos

/-! ### range invariant (C11): every operation returns an angle in `[-π, π)` congruent to the exact angle -/

theorem PoseSE2_new_inRange (pos : Fin 2 → ℝ) (θ : ℝ) : InRange (PoseSE2.new pos θ) := by
  unfold InRange; se2_unfold; exact wrapPi_mem θ
theorem PoseSE2_new_congr (pos : Fin 2 → ℝ) (θ : ℝ) : ∃ k : ℤ, PoseSE2.new pos θ 2 = θ - k * (2 * π) := by
  se2_unfold; exact wrapPi_eq_sub θ
theorem PoseSE2_add_inRange (p q : Fin 3 → ℝ) : InRange (PoseSE2.add p q) := by
  unfold InRange; se2_unfold; exact wrapPi_mem _
theorem PoseSE2_add_congr (p q : Fin 3 → ℝ) : ∃ k : ℤ, PoseSE2.add p q 2 = p 2 + q 2 - k * (2 * π) := by
  se2_unfold; exact wrapPi_eq_sub _
theorem PoseSE2_sub_inRange (p q : Fin 3 → ℝ) : InRange (PoseSE2.sub p q) := by
  unfold InRange; se2_unfold; exact wrapPi_mem _
theorem PoseSE2_sub_congr (p q : Fin 3 → ℝ) : ∃ k : ℤ, PoseSE2.sub p q 2 = p 2 - q 2 - k * (2 * π) := by
  se2_unfold; exact wrapPi_eq_sub _
theorem PoseSE2_inverse_inRange (p : Fin 3 → ℝ) : InRange (PoseSE2.inverse p) := by
  unfold InRange; se2_unfold; exact wrapPi_mem _
theorem PoseSE2_inverse_congr (p : Fin 3 → ℝ) : ∃ k : ℤ, PoseSE2.inverse p 2 = -p 2 - k * (2 * π) := by
  se2_unfold; exact wrapPi_eq_sub _
theorem PoseSE2_boxplus_inRange (p δ : Fin 3 → ℝ) : InRange (PoseSE2.boxplus p δ) := by
  unfold InRange; se2_unfold; exact wrapPi_mem _
theorem PoseSE2_boxplus_congr (p δ : Fin 3 → ℝ) : ∃ k : ℤ, PoseSE2.boxplus p δ 2 = p 2 + δ 2 - k * (2 * π) := by
  se2_unfold; exact wrapPi_eq_sub _
theorem PoseSE2_copy_inRange (p : Fin 3 → ℝ) : InRange (PoseSE2.copy p) := by
  unfold InRange; se2_unfold; exact wrapPi_mem _
theorem PoseSE2_identity_inRange : InRange (PoseSE2.identity (E := ℝ)) := by
  unfold InRange; se2_unfold; exact wrapPi_mem _
/-- `copy` of an in-range pose is the pose itself (the reason a perturb/restore cycle is pure, C15) -/
theorem PoseSE2_copy_eq (p : Fin 3 → ℝ) (h : InRange p) : PoseSE2.copy p = p := by
  funext i; fin_cases i <;> se2_unfold
  exact wrapPi_of_mem h.1 h.2
/-- adding any multiple of `2π` to the angle gives the same pose (C08) -/
theorem PoseSE2_new_two_pi (pos : Fin 2 → ℝ) (θ : ℝ) (k : ℤ) : PoseSE2.new pos (θ + k * (2 * π)) = PoseSE2.new pos θ := by
  funext i; fin_cases i <;> se2_unfold
  exact wrapPi_add_int θ k

/-! ### group laws -/

/-- box-plus on SE(2) *is* composition with the pose whose compact form is `δ` -/
theorem PoseSE2_boxplus_eq_add (p δ : Fin 3 → ℝ) : PoseSE2.boxplus p δ = PoseSE2.add p δ := by
  funext i; fin_cases i <;> rfl

theorem PoseSE2_identity_right (p : Fin 3 → ℝ) (h : InRange p) : PoseSE2.add p PoseSE2.identity = p := by
  funext i; fin_cases i <;> se2_unfold <;> simp [wrapPi_zero]
  exact wrapPi_of_mem h.1 h.2

theorem PoseSE2_identity_left (p : Fin 3 → ℝ) (h : InRange p) : PoseSE2.add PoseSE2.identity p = p := by
  funext i; fin_cases i <;> se2_unfold <;> simp [wrapPi_zero]
  exact wrapPi_of_mem h.1 h.2

theorem PoseSE2_add_inverse (p : Fin 3 → ℝ) : PoseSE2.add p (PoseSE2.inverse p) = PoseSE2.identity := by
  funext i; fin_cases i <;> se2_unfold
  · linear_combination (-(p 0)) * (Real.sin_sq_add_cos_sq (p 2))
  · linear_combination (-(p 1)) * (Real.sin_sq_add_cos_sq (p 2))
  · congr 1; ring

theorem PoseSE2_inverse_add (p : Fin 3 → ℝ) : PoseSE2.add (PoseSE2.inverse p) p = PoseSE2.identity := by
  funext i; fin_cases i <;> se2_unfold <;> (try simp only [Real.cos_neg, Real.sin_neg])
  · ring
  · ring
  · congr 1; ring

theorem PoseSE2_sub_eq_inverse_add (p q : Fin 3 → ℝ) : PoseSE2.sub p q = PoseSE2.add (PoseSE2.inverse q) p := by
  funext i; fin_cases i <;> se2_unfold <;> (try simp only [Real.cos_neg, Real.sin_neg])
  · ring
  · ring
  · congr 1; ring

theorem PoseSE2_add_assoc (p q r : Fin 3 → ℝ) :
    PoseSE2.add (PoseSE2.add p q) r = PoseSE2.add p (PoseSE2.add q r) := by
  funext i; fin_cases i <;> se2_unfold <;> (try simp only [Real.cos_add, Real.sin_add])
  · ring
  · ring
  · congr 1; ring

theorem PoseSE2_sub_self (p : Fin 3 → ℝ) : PoseSE2.sub p p = PoseSE2.identity := by
  funext i; fin_cases i <;> se2_unfold <;> simp

/-- ⊕ is multiplication of the 3×3 homogeneous matrices `to_matrix` returns — for all real triples -/
theorem PoseSE2_to_matrix_add (p q : Fin 3 → ℝ) (i j : Fin 3) :
    PoseSE2.to_matrix (PoseSE2.add p q) i j = dotMM (PoseSE2.to_matrix p) (PoseSE2.to_matrix q) i j := by
  fin_cases i <;> fin_cases j <;> se2_unfold <;> (try simp only [Real.cos_add, Real.sin_add]) <;> ring

theorem PoseSE2_to_matrix_inverse (p : Fin 3 → ℝ) (i j : Fin 3) :
    dotMM (PoseSE2.to_matrix p) (PoseSE2.to_matrix (PoseSE2.inverse p)) i j = if i = j then 1 else 0 := by
  fin_cases i <;> fin_cases j <;> se2_unfold <;> (try simp only [Real.cos_neg, Real.sin_neg]) <;>
    first
    | ring1
    | linear_combination (Real.sin_sq_add_cos_sq (p 2))
    | linear_combination (-(p 0)) * (Real.sin_sq_add_cos_sq (p 2))
    | linear_combination (-(p 1)) * (Real.sin_sq_add_cos_sq (p 2))

/-- `pose ⊕ point` is the action of the homogeneous matrix on the point -/
theorem PoseSE2_add_point_action (p : Fin 3 → ℝ) (x : Fin 2 → ℝ) (i : Fin 2) :
    PoseSE2.add_point p x i
      = PoseSE2.to_matrix p (Fin.castLE (by omega) i) 0 * x 0 + PoseSE2.to_matrix p (Fin.castLE (by omega) i) 1 * x 1
        + PoseSE2.to_matrix p (Fin.castLE (by omega) i) 2 := by
  fin_cases i <;> simp only [Fin.castLE] <;> se2_unfold <;> ring

theorem PoseSE2_add_point_add (p q : Fin 3 → ℝ) (x : Fin 2 → ℝ) :
    PoseSE2.add_point (PoseSE2.add p q) x = PoseSE2.add_point p (PoseSE2.add_point q x) := by
  funext i; fin_cases i <;> se2_unfold <;> (try simp only [Real.cos_add, Real.sin_add]) <;> ring

end GraphSlam.Props.C09
