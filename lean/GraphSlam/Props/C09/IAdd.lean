import GraphSlam.Real.Instance
import GraphSlam.Generated.PoseSE3
import GraphSlam.Generated.PoseSE2

/-!
# C09 — in-place add delegates to composition (base_pose.py `__iadd__`: `return self + other`)

The generated `iadd` / `iadd_boxplus` of every class are, definitionally, that class's `add` / `boxplus`:
`p += q` rebinds `p` to `p ⊕ q` (pose operand) or `p ⊞ δ` (compact increment), for every pose type.
-/

namespace GraphSlam.Props.C09
open GraphSlam GraphSlam.Gen

theorem PoseR2_iadd (p q : Fin 2 → ℝ) : PoseR2.iadd p q = PoseR2.add p q := rfl
theorem PoseR3_iadd (p q : Fin 3 → ℝ) : PoseR3.iadd p q = PoseR3.add p q := rfl
theorem PoseSE2_iadd (p q : Fin 3 → ℝ) : PoseSE2.iadd p q = PoseSE2.add p q := rfl
theorem PoseSE3_iadd (p q : Fin 7 → ℝ) : PoseSE3.iadd p q = PoseSE3.add p q := rfl
theorem PoseR2_iadd_boxplus (p δ : Fin 2 → ℝ) : PoseR2.iadd_boxplus p δ = PoseR2.boxplus p δ := rfl
theorem PoseR3_iadd_boxplus (p δ : Fin 3 → ℝ) : PoseR3.iadd_boxplus p δ = PoseR3.boxplus p δ := rfl
theorem PoseSE2_iadd_boxplus (p δ : Fin 3 → ℝ) : PoseSE2.iadd_boxplus p δ = PoseSE2.boxplus p δ := rfl
theorem PoseSE3_iadd_boxplus (p : Fin 7 → ℝ) (δ : Fin 6 → ℝ) : PoseSE3.iadd_boxplus p δ = PoseSE3.boxplus p δ := rfl

end GraphSlam.Props.C09
