import GraphSlam.Real.Unwrap
import GraphSlam.Generated.Edges

/-!
# C01 for SE(2) edges

SE(2) poses store a wrapped angle, so the odometry error `z ⊖ (p₁ ⊖ (p₀ ⊞ δ))` wraps three times.  The error is
reflected as an expression, every inner wrap is shown to be irrelevant (`cos`/`sin` are `2π`-periodic, a wrap inside a
wrap can be dropped), the wrap-free expression is differentiated symbolically, and the product of pose Jacobians that
`calc_jacobians()` forms (edge_odometry.py:89-106, edge_landmark.py:118-136) is shown equal, entry by entry, to that
derivative.  The only hypothesis is the property's own: the final angular error of an odometry edge is not on the
wrap (`OffWrap`); landmark edges need no hypothesis at all.  Poses range over all real triples (angles outside
`[-π, π)` included).
-/

namespace GraphSlam.Props.C01
open GraphSlam GraphSlam.Gen GraphSlam.Expr
set_option linter.unusedSimpArgs false
set_option linter.unusedVariables false
set_option linter.unusedTactic false
set_option linter.unreachableTactic false
set_option maxHeartbeats 4000000

/-! ## odometry -/

/-- parameters of an odometry edge packed into one vector: z, p0, p1 -/
def packO (z p0 p1 : Fin 3 → ℝ) : Fin 9 → ℝ := fun k => match k with
  | 0 => z 0 | 1 => z 1 | 2 => z 2 | 3 => p0 0 | 4 => p0 1 | 5 => p0 2 | 6 => p1 0 | 7 => p1 1 | 8 => p1 2
def zO : Fin 3 → Expr 9 3 := fun i => match i with | 0 => .par 0 | 1 => .par 1 | 2 => .par 2
def p0O : Fin 3 → Expr 9 3 := fun i => match i with | 0 => .par 3 | 1 => .par 4 | 2 => .par 5
def p1O : Fin 3 → Expr 9 3 := fun i => match i with | 0 => .par 6 | 1 => .par 7 | 2 => .par 8

/-- the error as a function of the perturbation of vertex 0 / vertex 1, reflected -/
def odoE0 : Fin 3 → Expr 9 3 := EdgeOdometry.calc_error_SE2 zO (PoseSE2.boxplus p0O (vars 9 3)) p1O
def odoE1 : Fin 3 → Expr 9 3 := EdgeOdometry.calc_error_SE2 zO p0O (PoseSE2.boxplus p1O (vars 9 3))

/-- wrap the angular coordinate only -/
noncomputable def wrap2 (G : Fin 3 → ℝ) : Fin 3 → ℝ := fun i => if i = 2 then wrapPi (G i) else G i

macro "se2_simp" : tactic =>
  `(tactic| simp [odoE0, odoE1, EdgeOdometry.calc_error_SE2, EdgeOdometry.calc_jacobians_SE2_0, EdgeOdometry.calc_jacobians_SE2_1,
      PoseSE2.to_compact, PoseSE2.sub, PoseSE2.boxplus, PoseSE2.add, PoseSE2.inverse, PoseSE2.add_point,
      PoseR2.sub, PoseR2.to_compact, PoseR2.boxplus, PoseR2.jacobian_boxplus,
      PoseSE2.jacobian_self_ominus_other_wrt_other_compact, PoseSE2.jacobian_self_ominus_other_wrt_other,
      PoseSE2.jacobian_self_ominus_other_wrt_self, PoseSE2.jacobian_boxplus,
      PoseSE2.jacobian_self_oplus_point_wrt_self, PoseSE2.jacobian_self_oplus_point_wrt_point,
      PoseSE2.jacobian_inverse, PoseSE2.jacobian_self_oplus_other_wrt_self,
      dotMM, finSum, eye, Util.neg_pi_to_pi, zO, p0O, p1O, vars, packO, unwrap, eval, diff, pymod_shape',
      cos_wrapPi, sin_wrapPi, cos_sub_wrapPi, sin_sub_wrapPi, cos_add_wrapPi, sin_add_wrapPi,
      wrapPi_sub_wrapPi_right, wrapPi_sub_wrapPi_left, wrapPi_add_wrapPi_left, wrapPi_add_wrapPi_right, wrapPi_neg_wrapPi])

theorem odo0_reflect (z p0 p1 δ : Fin 3 → ℝ) (i : Fin 3) :
    EdgeOdometry.calc_error_SE2 z (PoseSE2.boxplus p0 δ) p1 i = eval (packO z p0 p1) δ (odoE0 i) := by
  fin_cases i <;> rfl
theorem odo1_reflect (z p0 p1 δ : Fin 3 → ℝ) (i : Fin 3) :
    EdgeOdometry.calc_error_SE2 z p0 (PoseSE2.boxplus p1 δ) i = eval (packO z p0 p1) δ (odoE1 i) := by
  fin_cases i <;> rfl

/-- inner wraps are irrelevant: the error is the wrap of the wrap-free error (vertex 0) -/
theorem odo0_unwrap (z p0 p1 δ : Fin 3 → ℝ) :
    (fun i => eval (packO z p0 p1) δ (odoE0 i)) = wrap2 (fun i => eval (packO z p0 p1) δ (unwrap (odoE0 i))) := by
  funext i; fin_cases i <;> simp only [wrap2] <;> se2_simp
theorem odo1_unwrap (z p0 p1 δ : Fin 3 → ℝ) :
    (fun i => eval (packO z p0 p1) δ (odoE1 i)) = wrap2 (fun i => eval (packO z p0 p1) δ (unwrap (odoE1 i))) := by
  funext i; fin_cases i <;> simp only [wrap2] <;> se2_simp

/-- the product of pose Jacobians formed by `calc_jacobians()` is the symbolic derivative of the wrap-free error -/
theorem odo0_jac (z p0 p1 : Fin 3 → ℝ) (i j : Fin 3) :
    EdgeOdometry.calc_jacobians_SE2_0 z p0 p1 i j = eval (packO z p0 p1) 0 (diff j (unwrap (odoE0 i))) := by
  fin_cases i <;> fin_cases j <;> se2_simp <;> ring
theorem odo1_jac (z p0 p1 : Fin 3 → ℝ) (i j : Fin 3) :
    EdgeOdometry.calc_jacobians_SE2_1 z p0 p1 i j = eval (packO z p0 p1) 0 (diff j (unwrap (odoE1 i))) := by
  fin_cases i <;> fin_cases j <;> se2_simp <;> ring

theorem odometry_SE2_v0 (z p0 p1 : Fin 3 → ℝ) (h : OffWrap (z 2 - (p1 2 - p0 2))) :
    HasFDerivAt (fun δ => EdgeOdometry.calc_error_SE2 z (PoseSE2.boxplus p0 δ) p1)
      (toCLM (EdgeOdometry.calc_jacobians_SE2_0 z p0 p1)) (0 : Fin 3 → ℝ) := by
  have hF : (fun δ => EdgeOdometry.calc_error_SE2 z (PoseSE2.boxplus p0 δ) p1)
      = fun δ => wrap2 (fun i => eval (packO z p0 p1) δ (unwrap (odoE0 i))) := by
    funext δ; rw [← odo0_unwrap]; funext i; exact odo0_reflect z p0 p1 δ i
  rw [hF, toCLM_congr (odo0_jac z p0 p1)]
  refine hasFDerivAt_wrap_coord 2 _ _ _ (hasFDerivAt_evalVec _ _ _ (fun i => smooth_unwrap _ _ _)) ?_
  se2_simp
  convert h using 2

theorem odometry_SE2_v1 (z p0 p1 : Fin 3 → ℝ) (h : OffWrap (z 2 - (p1 2 - p0 2))) :
    HasFDerivAt (fun δ => EdgeOdometry.calc_error_SE2 z p0 (PoseSE2.boxplus p1 δ))
      (toCLM (EdgeOdometry.calc_jacobians_SE2_1 z p0 p1)) (0 : Fin 3 → ℝ) := by
  have hF : (fun δ => EdgeOdometry.calc_error_SE2 z p0 (PoseSE2.boxplus p1 δ))
      = fun δ => wrap2 (fun i => eval (packO z p0 p1) δ (unwrap (odoE1 i))) := by
    funext δ; rw [← odo1_unwrap]; funext i; exact odo1_reflect z p0 p1 δ i
  rw [hF, toCLM_congr (odo1_jac z p0 p1)]
  refine hasFDerivAt_wrap_coord 2 _ _ _ (hasFDerivAt_evalVec _ _ _ (fun i => smooth_unwrap _ _ _)) ?_
  se2_simp
  convert h using 2

/-! ## landmark (SE(2) pose, R² point, any SE(2) offset) -/

/-- parameters: z (2), offset (3), p0 (3), p1 (2) -/
def packL (z : Fin 2 → ℝ) (off p0 : Fin 3 → ℝ) (p1 : Fin 2 → ℝ) : Fin 10 → ℝ := fun k => match k with
  | 0 => z 0 | 1 => z 1 | 2 => off 0 | 3 => off 1 | 4 => off 2 | 5 => p0 0 | 6 => p0 1 | 7 => p0 2 | 8 => p1 0 | 9 => p1 1
def zL {N : Nat} : Fin 2 → Expr 10 N := fun i => match i with | 0 => .par 0 | 1 => .par 1
def offL {N : Nat} : Fin 3 → Expr 10 N := fun i => match i with | 0 => .par 2 | 1 => .par 3 | 2 => .par 4
def p0L {N : Nat} : Fin 3 → Expr 10 N := fun i => match i with | 0 => .par 5 | 1 => .par 6 | 2 => .par 7
def p1L {N : Nat} : Fin 2 → Expr 10 N := fun i => match i with | 0 => .par 8 | 1 => .par 9

def lmE0 : Fin 2 → Expr 10 3 := EdgeLandmark.calc_error_SE2 zL offL (PoseSE2.boxplus p0L (vars 10 3)) p1L
def lmE1 : Fin 2 → Expr 10 2 := EdgeLandmark.calc_error_SE2 zL offL p0L (PoseR2.boxplus p1L (vars 10 2))

macro "lm_simp" : tactic =>
  `(tactic| simp [lmE0, lmE1, EdgeLandmark.calc_error_SE2, EdgeLandmark.calc_jacobians_SE2_0, EdgeLandmark.calc_jacobians_SE2_1,
      PoseSE2.to_compact, PoseSE2.sub, PoseSE2.boxplus, PoseSE2.add, PoseSE2.inverse, PoseSE2.add_point,
      PoseR2.sub, PoseR2.to_compact, PoseR2.boxplus, PoseR2.jacobian_boxplus, PoseSE2.jacobian_boxplus,
      PoseSE2.jacobian_self_oplus_point_wrt_self, PoseSE2.jacobian_self_oplus_point_wrt_point,
      PoseSE2.jacobian_inverse, PoseSE2.jacobian_self_oplus_other_wrt_self,
      dotMM, finSum, eye, Util.neg_pi_to_pi, zL, offL, p0L, p1L, vars, packL, unwrap, eval, diff, pymod_shape',
      cos_wrapPi, sin_wrapPi, cos_sub_wrapPi, sin_sub_wrapPi, cos_add_wrapPi, sin_add_wrapPi,
      wrapPi_sub_wrapPi_right, wrapPi_sub_wrapPi_left, wrapPi_add_wrapPi_left, wrapPi_add_wrapPi_right, wrapPi_neg_wrapPi,
      Real.cos_neg, Real.sin_neg])

theorem lm0_reflect (z : Fin 2 → ℝ) (off p0 : Fin 3 → ℝ) (p1 : Fin 2 → ℝ) (δ : Fin 3 → ℝ) (i : Fin 2) :
    EdgeLandmark.calc_error_SE2 z off (PoseSE2.boxplus p0 δ) p1 i = eval (packL z off p0 p1) δ (lmE0 i) := by
  fin_cases i <;> rfl
theorem lm1_reflect (z : Fin 2 → ℝ) (off p0 : Fin 3 → ℝ) (p1 : Fin 2 → ℝ) (δ : Fin 2 → ℝ) (i : Fin 2) :
    EdgeLandmark.calc_error_SE2 z off p0 (PoseR2.boxplus p1 δ) i = eval (packL z off p0 p1) δ (lmE1 i) := by
  fin_cases i <;> rfl

theorem lm0_unwrap (z : Fin 2 → ℝ) (off p0 : Fin 3 → ℝ) (p1 : Fin 2 → ℝ) (δ : Fin 3 → ℝ) (i : Fin 2) :
    eval (packL z off p0 p1) δ (lmE0 i) = eval (packL z off p0 p1) δ (unwrap (lmE0 i)) := by
  fin_cases i <;> lm_simp
theorem lm1_unwrap (z : Fin 2 → ℝ) (off p0 : Fin 3 → ℝ) (p1 : Fin 2 → ℝ) (δ : Fin 2 → ℝ) (i : Fin 2) :
    eval (packL z off p0 p1) δ (lmE1 i) = eval (packL z off p0 p1) δ (unwrap (lmE1 i)) := by
  fin_cases i <;> lm_simp

theorem lm0_jac (z : Fin 2 → ℝ) (off p0 : Fin 3 → ℝ) (p1 : Fin 2 → ℝ) (i : Fin 2) (j : Fin 3) :
    EdgeLandmark.calc_jacobians_SE2_0 z off p0 p1 i j = eval (packL z off p0 p1) 0 (diff j (unwrap (lmE0 i))) := by
  fin_cases i <;> fin_cases j <;> lm_simp <;> (try ring)
theorem lm1_jac (z : Fin 2 → ℝ) (off p0 : Fin 3 → ℝ) (p1 : Fin 2 → ℝ) (i : Fin 2) (j : Fin 2) :
    EdgeLandmark.calc_jacobians_SE2_1 z off p0 p1 i j = eval (packL z off p0 p1) 0 (diff j (unwrap (lmE1 i))) := by
  fin_cases i <;> fin_cases j <;> lm_simp <;> (try ring)

theorem landmark_SE2_v0 (z : Fin 2 → ℝ) (off p0 : Fin 3 → ℝ) (p1 : Fin 2 → ℝ) :
    HasFDerivAt (fun δ => EdgeLandmark.calc_error_SE2 z off (PoseSE2.boxplus p0 δ) p1)
      (toCLM (EdgeLandmark.calc_jacobians_SE2_0 z off p0 p1)) (0 : Fin 3 → ℝ) := by
  have hF : (fun δ => EdgeLandmark.calc_error_SE2 z off (PoseSE2.boxplus p0 δ) p1)
      = fun δ i => eval (packL z off p0 p1) δ (unwrap (lmE0 i)) := by
    funext δ i; rw [lm0_reflect, lm0_unwrap]
  rw [hF, toCLM_congr (lm0_jac z off p0 p1)]
  exact hasFDerivAt_evalVec _ _ _ (fun i => smooth_unwrap _ _ _)

theorem landmark_SE2_v1 (z : Fin 2 → ℝ) (off p0 : Fin 3 → ℝ) (p1 : Fin 2 → ℝ) :
    HasFDerivAt (fun δ => EdgeLandmark.calc_error_SE2 z off p0 (PoseR2.boxplus p1 δ))
      (toCLM (EdgeLandmark.calc_jacobians_SE2_1 z off p0 p1)) (0 : Fin 2 → ℝ) := by
  have hF : (fun δ => EdgeLandmark.calc_error_SE2 z off p0 (PoseR2.boxplus p1 δ))
      = fun δ i => eval (packL z off p0 p1) δ (unwrap (lmE1 i)) := by
    funext δ i; rw [lm1_reflect, lm1_unwrap]
  rw [hF, toCLM_congr (lm1_jac z off p0 p1)]
  exact hasFDerivAt_evalVec _ _ _ (fun i => smooth_unwrap _ _ _)

/-- non-vacuity: a measurement that agrees with the relative angle satisfies the hypothesis -/
example : OffWrap ((0.75 : ℝ) - (1 - 0.25)) := by
  have h0 : (0.75 : ℝ) - (1 - 0.25) = 0 := by norm_num
  rw [h0, offWrap_iff, wrapPi_of_mem] <;> linarith [Real.pi_pos]

end GraphSlam.Props.C01
