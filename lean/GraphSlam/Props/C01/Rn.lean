import GraphSlam.Props.C01.Chain
import GraphSlam.Props.C10.R2Core
import GraphSlam.Props.C10.R3Core
import GraphSlam.Generated.Edges

/-!
# C01 for R² / R³ edges

`calc_jacobians()` of odometry and point-to-point landmark edges (with any offset) is the Fréchet derivative of
`calc_error()` with respect to the box-plus perturbation of each vertex, at zero — for every pose, measurement
and offset.  Proof: chain rule over the pose-level theorems of C10, one `np.dot` per composition.
-/

namespace GraphSlam.Props.C01
open GraphSlam GraphSlam.Gen GraphSlam.Props.C10
set_option linter.unusedSimpArgs false

theorem PoseR2_boxplus_zero (p : Fin 2 → ℝ) : PoseR2.boxplus p 0 = p := by
  funext i; fin_cases i <;> simp [PoseR2.boxplus]
theorem PoseR3_boxplus_zero (p : Fin 3 → ℝ) : PoseR3.boxplus p 0 = p := by
  funext i; fin_cases i <;> simp [PoseR3.boxplus]

theorem PoseR2_sub_const_deriv (z x : Fin 2 → ℝ) :
    HasFDerivAt (fun y => PoseR2.to_compact (PoseR2.sub y z)) (ContinuousLinearMap.id ℝ (Fin 2 → ℝ)) x := by
  have h : (fun y => PoseR2.to_compact (PoseR2.sub y z)) = fun y => y - z := by
    funext y i; fin_cases i <;> simp [PoseR2.to_compact, PoseR2.sub]
  rw [h]; exact (hasFDerivAt_id x).sub_const z
theorem PoseR3_sub_const_deriv (z x : Fin 3 → ℝ) :
    HasFDerivAt (fun y => PoseR3.to_compact (PoseR3.sub y z)) (ContinuousLinearMap.id ℝ (Fin 3 → ℝ)) x := by
  have h : (fun y => PoseR3.to_compact (PoseR3.sub y z)) = fun y => y - z := by
    funext y i; fin_cases i <;> simp [PoseR3.to_compact, PoseR3.sub]
  rw [h]; exact (hasFDerivAt_id x).sub_const z

/-! ## odometry and point-to-point landmark edges (any offset) -/

theorem odometry_R2_v0 (z p0 p1 : Fin 2 → ℝ) :
    HasFDerivAt (fun δ => EdgeOdometry.calc_error_R2 z (PoseR2.boxplus p0 δ) p1)
      (toCLM (EdgeOdometry.calc_jacobians_R2_0 z p0 p1)) (0 : Fin 2 → ℝ) := by
  have h23 := comp_toCLM (g := fun o => PoseR2.to_compact (PoseR2.sub z o)) (f := fun o => PoseR2.sub p1 o) rfl
    (PoseR2_sub_wrt_other_compact z (PoseR2.sub p1 p0)) (PoseR2_sub_wrt_other p1 p0)
  exact comp_toCLM (g := fun o => PoseR2.to_compact (PoseR2.sub z (PoseR2.sub p1 o))) (f := fun δ => PoseR2.boxplus p0 δ)
    (PoseR2_boxplus_zero p0) h23 (PoseR2_boxplus p0)

theorem odometry_R2_v1 (z p0 p1 : Fin 2 → ℝ) :
    HasFDerivAt (fun δ => EdgeOdometry.calc_error_R2 z p0 (PoseR2.boxplus p1 δ))
      (toCLM (EdgeOdometry.calc_jacobians_R2_1 z p0 p1)) (0 : Fin 2 → ℝ) := by
  have h23 := comp_toCLM (g := fun o => PoseR2.to_compact (PoseR2.sub z o)) (f := fun o => PoseR2.sub o p0) rfl
    (PoseR2_sub_wrt_other_compact z (PoseR2.sub p1 p0)) (PoseR2_sub_wrt_self p1 p0)
  exact comp_toCLM (g := fun o => PoseR2.to_compact (PoseR2.sub z (PoseR2.sub o p0))) (f := fun δ => PoseR2.boxplus p1 δ)
    (PoseR2_boxplus_zero p1) h23 (PoseR2_boxplus p1)

theorem odometry_R3_v0 (z p0 p1 : Fin 3 → ℝ) :
    HasFDerivAt (fun δ => EdgeOdometry.calc_error_R3 z (PoseR3.boxplus p0 δ) p1)
      (toCLM (EdgeOdometry.calc_jacobians_R3_0 z p0 p1)) (0 : Fin 3 → ℝ) := by
  have h23 := comp_toCLM (g := fun o => PoseR3.to_compact (PoseR3.sub z o)) (f := fun o => PoseR3.sub p1 o) rfl
    (PoseR3_sub_wrt_other_compact z (PoseR3.sub p1 p0)) (PoseR3_sub_wrt_other p1 p0)
  exact comp_toCLM (g := fun o => PoseR3.to_compact (PoseR3.sub z (PoseR3.sub p1 o))) (f := fun δ => PoseR3.boxplus p0 δ)
    (PoseR3_boxplus_zero p0) h23 (PoseR3_boxplus p0)

theorem odometry_R3_v1 (z p0 p1 : Fin 3 → ℝ) :
    HasFDerivAt (fun δ => EdgeOdometry.calc_error_R3 z p0 (PoseR3.boxplus p1 δ))
      (toCLM (EdgeOdometry.calc_jacobians_R3_1 z p0 p1)) (0 : Fin 3 → ℝ) := by
  have h23 := comp_toCLM (g := fun o => PoseR3.to_compact (PoseR3.sub z o)) (f := fun o => PoseR3.sub o p0) rfl
    (PoseR3_sub_wrt_other_compact z (PoseR3.sub p1 p0)) (PoseR3_sub_wrt_self p1 p0)
  exact comp_toCLM (g := fun o => PoseR3.to_compact (PoseR3.sub z (PoseR3.sub o p0))) (f := fun δ => PoseR3.boxplus p1 δ)
    (PoseR3_boxplus_zero p1) h23 (PoseR3_boxplus p1)

theorem landmark_R2_v0 (z : Fin 2 → ℝ) (off p0 : Fin 2 → ℝ) (p1 : Fin 2 → ℝ) :
    HasFDerivAt (fun δ => EdgeLandmark.calc_error_R2 z off (PoseR2.boxplus p0 δ) p1)
      (toCLM (EdgeLandmark.calc_jacobians_R2_0 z off p0 p1)) (0 : Fin 2 → ℝ) := by
  have h1 := comp_toCLM (g := fun s => PoseR2.add s p1) (f := fun s => PoseR2.inverse s) rfl
    (PoseR2_oplus_point_wrt_self (PoseR2.inverse (PoseR2.add p0 off)) p1) (PoseR2_inverse (PoseR2.add p0 off))
  have h2 := comp_toCLM (g := fun s => PoseR2.add (PoseR2.inverse s) p1) (f := fun s => PoseR2.add s off) rfl
    h1 (PoseR2_add_wrt_self p0 off)
  have h3 := comp_toCLM (g := fun s => PoseR2.add (PoseR2.inverse (PoseR2.add s off)) p1) (f := fun δ => PoseR2.boxplus p0 δ)
    (PoseR2_boxplus_zero p0) h2 (PoseR2_boxplus p0)
  exact comp_id_left (h := fun y => PoseR2.to_compact (PoseR2.sub y z))
    (f := fun δ => PoseR2.add (PoseR2.inverse (PoseR2.add (PoseR2.boxplus p0 δ) off)) p1) rfl (PoseR2_sub_const_deriv z _) h3

theorem landmark_R2_v1 (z : Fin 2 → ℝ) (off p0 : Fin 2 → ℝ) (p1 : Fin 2 → ℝ) :
    HasFDerivAt (fun δ => EdgeLandmark.calc_error_R2 z off p0 (PoseR2.boxplus p1 δ))
      (toCLM (EdgeLandmark.calc_jacobians_R2_1 z off p0 p1)) (0 : Fin 2 → ℝ) := by
  have h1 := comp_toCLM (g := fun o => PoseR2.add (PoseR2.inverse (PoseR2.add p0 off)) o) (f := fun δ => PoseR2.boxplus p1 δ)
    (PoseR2_boxplus_zero p1) (PoseR2_oplus_point_wrt_point (PoseR2.inverse (PoseR2.add p0 off)) p1) (PoseR2_boxplus p1)
  exact comp_id_left (h := fun y => PoseR2.to_compact (PoseR2.sub y z))
    (f := fun δ => PoseR2.add (PoseR2.inverse (PoseR2.add p0 off)) (PoseR2.boxplus p1 δ)) rfl (PoseR2_sub_const_deriv z _) h1

theorem landmark_R3_v0 (z : Fin 3 → ℝ) (off p0 : Fin 3 → ℝ) (p1 : Fin 3 → ℝ) :
    HasFDerivAt (fun δ => EdgeLandmark.calc_error_R3 z off (PoseR3.boxplus p0 δ) p1)
      (toCLM (EdgeLandmark.calc_jacobians_R3_0 z off p0 p1)) (0 : Fin 3 → ℝ) := by
  have h1 := comp_toCLM (g := fun s => PoseR3.add s p1) (f := fun s => PoseR3.inverse s) rfl
    (PoseR3_oplus_point_wrt_self (PoseR3.inverse (PoseR3.add p0 off)) p1) (PoseR3_inverse (PoseR3.add p0 off))
  have h2 := comp_toCLM (g := fun s => PoseR3.add (PoseR3.inverse s) p1) (f := fun s => PoseR3.add s off) rfl
    h1 (PoseR3_add_wrt_self p0 off)
  have h3 := comp_toCLM (g := fun s => PoseR3.add (PoseR3.inverse (PoseR3.add s off)) p1) (f := fun δ => PoseR3.boxplus p0 δ)
    (PoseR3_boxplus_zero p0) h2 (PoseR3_boxplus p0)
  exact comp_id_left (h := fun y => PoseR3.to_compact (PoseR3.sub y z))
    (f := fun δ => PoseR3.add (PoseR3.inverse (PoseR3.add (PoseR3.boxplus p0 δ) off)) p1) rfl (PoseR3_sub_const_deriv z _) h3

theorem landmark_R3_v1 (z : Fin 3 → ℝ) (off p0 : Fin 3 → ℝ) (p1 : Fin 3 → ℝ) :
    HasFDerivAt (fun δ => EdgeLandmark.calc_error_R3 z off p0 (PoseR3.boxplus p1 δ))
      (toCLM (EdgeLandmark.calc_jacobians_R3_1 z off p0 p1)) (0 : Fin 3 → ℝ) := by
  have h1 := comp_toCLM (g := fun o => PoseR3.add (PoseR3.inverse (PoseR3.add p0 off)) o) (f := fun δ => PoseR3.boxplus p1 δ)
    (PoseR3_boxplus_zero p1) (PoseR3_oplus_point_wrt_point (PoseR3.inverse (PoseR3.add p0 off)) p1) (PoseR3_boxplus p1)
  exact comp_id_left (h := fun y => PoseR3.to_compact (PoseR3.sub y z))
    (f := fun δ => PoseR3.add (PoseR3.inverse (PoseR3.add p0 off)) (PoseR3.boxplus p1 δ)) rfl (PoseR3_sub_const_deriv z _) h1

end GraphSlam.Props.C01
