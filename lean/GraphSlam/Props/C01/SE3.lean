import GraphSlam.Props.C01.Rn
import GraphSlam.Props.C10.SE3Core
import GraphSlam.Props.C10.SE3Boxplus

/-!
# C01 for SE(3) edges

`calc_jacobians()` of SE(3) odometry edges and SE(3)→R³ landmark edges (with any sensor offset) is the Fréchet
derivative of `calc_error()` with respect to the box-plus perturbation of each vertex at zero — for **every** real
7-vector pose / measurement / offset (so every unit quaternion, `w < 0`, `w = 0`, 180° rotations, rotated offsets).
-/

namespace GraphSlam.Props.C01
open GraphSlam GraphSlam.Gen GraphSlam.Props.C10
set_option linter.unusedSimpArgs false

theorem PoseSE3_boxplus_zero (p : Fin 7 → ℝ) : PoseSE3.boxplus p 0 = p := by
  rw [PoseSE3_boxplus_eq_add_lift p 0 (by simp [vnorm2]), lift_zero]
  funext i; fin_cases i <;> simp [PoseSE3.add, PoseSE3.identity]

theorem odometry_SE3_v0 (z p0 p1 : Fin 7 → ℝ) :
    HasFDerivAt (fun δ => EdgeOdometry.calc_error_SE3 z (PoseSE3.boxplus p0 δ) p1)
      (toCLM (EdgeOdometry.calc_jacobians_SE3_0 z p0 p1)) (0 : Fin 6 → ℝ) := by
  have h23 := comp_toCLM (g := fun o => PoseSE3.to_compact (PoseSE3.sub z o)) (f := fun o => PoseSE3.sub p1 o) rfl
    (PoseSE3_sub_wrt_other_compact z (PoseSE3.sub p1 p0)) (PoseSE3_sub_wrt_other p1 p0)
  exact comp_toCLM (g := fun o => PoseSE3.to_compact (PoseSE3.sub z (PoseSE3.sub p1 o))) (f := fun δ => PoseSE3.boxplus p0 δ)
    (PoseSE3_boxplus_zero p0) h23 (PoseSE3_boxplus p0)

theorem odometry_SE3_v1 (z p0 p1 : Fin 7 → ℝ) :
    HasFDerivAt (fun δ => EdgeOdometry.calc_error_SE3 z p0 (PoseSE3.boxplus p1 δ))
      (toCLM (EdgeOdometry.calc_jacobians_SE3_1 z p0 p1)) (0 : Fin 6 → ℝ) := by
  have h23 := comp_toCLM (g := fun o => PoseSE3.to_compact (PoseSE3.sub z o)) (f := fun o => PoseSE3.sub o p0) rfl
    (PoseSE3_sub_wrt_other_compact z (PoseSE3.sub p1 p0)) (PoseSE3_sub_wrt_self p1 p0)
  exact comp_toCLM (g := fun o => PoseSE3.to_compact (PoseSE3.sub z (PoseSE3.sub o p0))) (f := fun δ => PoseSE3.boxplus p1 δ)
    (PoseSE3_boxplus_zero p1) h23 (PoseSE3_boxplus p1)

theorem landmark_SE3_v0 (z : Fin 3 → ℝ) (off p0 : Fin 7 → ℝ) (p1 : Fin 3 → ℝ) :
    HasFDerivAt (fun δ => EdgeLandmark.calc_error_SE3 z off (PoseSE3.boxplus p0 δ) p1)
      (toCLM (EdgeLandmark.calc_jacobians_SE3_0 z off p0 p1)) (0 : Fin 6 → ℝ) := by
  have h1 := comp_toCLM (g := fun s => PoseSE3.add_point s p1) (f := fun s => PoseSE3.inverse s) rfl
    (PoseSE3_oplus_point_wrt_self (PoseSE3.inverse (PoseSE3.add p0 off)) p1) (PoseSE3_inverse (PoseSE3.add p0 off))
  have h2 := comp_toCLM (g := fun s => PoseSE3.add_point (PoseSE3.inverse s) p1) (f := fun s => PoseSE3.add s off) rfl
    h1 (PoseSE3_add_wrt_self p0 off)
  have h3 := comp_toCLM (g := fun s => PoseSE3.add_point (PoseSE3.inverse (PoseSE3.add s off)) p1) (f := fun δ => PoseSE3.boxplus p0 δ)
    (PoseSE3_boxplus_zero p0) h2 (PoseSE3_boxplus p0)
  exact comp_id_left (h := fun y => PoseR3.to_compact (PoseR3.sub y z))
    (f := fun δ => PoseSE3.add_point (PoseSE3.inverse (PoseSE3.add (PoseSE3.boxplus p0 δ) off)) p1) rfl (PoseR3_sub_const_deriv z _) h3

theorem landmark_SE3_v1 (z : Fin 3 → ℝ) (off p0 : Fin 7 → ℝ) (p1 : Fin 3 → ℝ) :
    HasFDerivAt (fun δ => EdgeLandmark.calc_error_SE3 z off p0 (PoseR3.boxplus p1 δ))
      (toCLM (EdgeLandmark.calc_jacobians_SE3_1 z off p0 p1)) (0 : Fin 3 → ℝ) := by
  have h1 := comp_toCLM (g := fun o => PoseSE3.add_point (PoseSE3.inverse (PoseSE3.add p0 off)) o) (f := fun δ => PoseR3.boxplus p1 δ)
    (PoseR3_boxplus_zero p1) (PoseSE3_oplus_point_wrt_point (PoseSE3.inverse (PoseSE3.add p0 off)) p1) (PoseR3_boxplus p1)
  exact comp_id_left (h := fun y => PoseR3.to_compact (PoseR3.sub y z))
    (f := fun δ => PoseSE3.add_point (PoseSE3.inverse (PoseSE3.add p0 off)) (PoseR3.boxplus p1 δ)) rfl (PoseR3_sub_const_deriv z _) h1

/-- non-vacuity: the theorems apply at a pose with negative scalar part, a 180° measurement and a rotated offset -/
example : HasFDerivAt (fun δ => EdgeLandmark.calc_error_SE3 ![1, 2, 3] ![0.1, 0.2, 0.3, 0, 1, 0, 0]
      (PoseSE3.boxplus ![1, -2, 3, 0.5, 0.5, 0.5, -0.5] δ) ![4, 5, 6])
    (toCLM (EdgeLandmark.calc_jacobians_SE3_0 ![1, 2, 3] ![0.1, 0.2, 0.3, 0, 1, 0, 0] ![1, -2, 3, 0.5, 0.5, 0.5, -0.5] ![4, 5, 6])) 0 :=
  landmark_SE3_v0 _ _ _ _

end GraphSlam.Props.C01
