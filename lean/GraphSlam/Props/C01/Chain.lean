import GraphSlam.Real.Expr

/-! Chain-rule plumbing: `np.dot` of Jacobians ↔ composition of Fréchet derivatives. -/

namespace GraphSlam

/-- chain rule in matrix form -/
theorem comp_toCLM {k m n : Nat} {g : (Fin m → ℝ) → (Fin k → ℝ)} {f : (Fin n → ℝ) → (Fin m → ℝ)}
    {A : Fin k → Fin m → ℝ} {B : Fin m → Fin n → ℝ} {x : Fin n → ℝ} {y : Fin m → ℝ}
    (hy : f x = y) (hg : HasFDerivAt g (toCLM A) y) (hf : HasFDerivAt f (toCLM B) x) :
    HasFDerivAt (fun v => g (f v)) (toCLM (dotMM A B)) x := by
  rw [toCLM_dotMM]; subst hy; exact hg.comp x hf

/-- post-composition with a map whose derivative is the identity does not change the derivative -/
theorem comp_id_left {m n : Nat} {h : (Fin m → ℝ) → (Fin m → ℝ)} {f : (Fin n → ℝ) → (Fin m → ℝ)}
    {L : (Fin n → ℝ) →L[ℝ] (Fin m → ℝ)} {x : Fin n → ℝ} {y : Fin m → ℝ}
    (hy : f x = y) (hh : HasFDerivAt h (ContinuousLinearMap.id ℝ (Fin m → ℝ)) y) (hf : HasFDerivAt f L x) :
    HasFDerivAt (fun v => h (f v)) L x := by
  subst hy
  have := hh.comp x hf
  simpa using this

end GraphSlam
