import GraphSlam.Props.C08.Representation
/-! C08 — umbrella. -/
