import GraphSlam.Props.C08.Representation
import GraphSlam.Props.E2E.Step
import GraphSlam.Props.Tie.GraphPy
import GraphSlam.Props.E2E.Relabel
import GraphSlam.Props.E2E.VertexPermExample
/-! C08 — umbrella. -/
