import GraphSlam.Props.C08.Representation
import GraphSlam.Props.E2E.Step
/-! C08 — umbrella. -/
