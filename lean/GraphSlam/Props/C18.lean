import GraphSlam.Props.C18.Lemmas

/-!
# C18 — graph construction binds edges by vertex id and rejects ill-typed edges

Theorems about `GraphSlam/Model/Validity.lean` (the model of `Graph._initialize`, `BaseEdge._is_valid`,
`EdgeOdometry.is_valid`, `EdgeLandmark.is_valid`), for vertex and edge lists of any length.

"Well-typed" is the rule of the class docstrings:
* odometry: two vertices; both poses and the estimate are of one pose class `T`; information is `c_T × c_T`;
* landmark: two vertices; the offset has the class of the first pose, the estimate the class of the second pose `T₁`;
  information is `c_{T₁} × c_{T₁}`  (so an SE(2)→R³ edge with SE(2) offset, R³ estimate and 3×3 information is well-typed);
* a user-defined edge class decides for itself (the parameter `custom`).
-/

namespace GraphSlam.Props.C18
open GraphSlam.Model.Cmp GraphSlam.Model.Validity

/-! ## binding by id -/

/-- Every bound vertex is a vertex of the graph carrying the id the edge names at that position (any vertex type `α`
    with an id function, any list lengths; `js` are the positions the dictionary returns). -/
theorem bind_by_id {α : Type} (key : α → Int) (vs : List α) (vids : List Int) (js : List Nat)
    (h : Model.Validity.bind (vs.map key) vids = .ok js) :
    List.Forall₂ (fun v x => v ∈ vs ∧ key v = x) (pick vs js) vids :=
  pick_forall₂ key vs (bind_ok h)

/-- With unique ids the bound vertex at position `k` is *the* vertex with id `vertex_ids[k]`: any vertex of the graph with
    that id is the bound one. -/
theorem bind_by_id_unique {α : Type} (key : α → Int) (vs : List α) (hn : (vs.map key).Nodup) (vids : List Int)
    (js : List Nat) (h : Model.Validity.bind (vs.map key) vids = .ok js) :
    List.Forall₂ (fun v x => v ∈ vs ∧ key v = x ∧ ∀ w ∈ vs, key w = x → w = v) (pick vs js) vids := by
  refine (bind_by_id key vs vids js h).imp ?_
  intro v x ⟨hv, hk⟩
  refine ⟨hv, hk, fun w hw hwk => ?_⟩
  exact List.inj_on_of_nodup_map hn hw hv (hwk.trans hk.symm)

/-- Binding does not depend on the order of the vertex list: for a permutation of a vertex list with unique ids the same
    vertices are bound, position by position, and an unknown id is unknown in both. -/
theorem bind_perm_invariant {α : Type} (key : α → Int) (vs vs' : List α) (hp : vs.Perm vs') (hn : (vs.map key).Nodup)
    (vids : List Int) :
    (Model.Validity.bind (vs.map key) vids).map (pick vs) = (Model.Validity.bind (vs'.map key) vids).map (pick vs') := by
  have hn' : (vs'.map key).Nodup := (hp.map key).nodup_iff.mp hn
  have hmem : ∀ x, x ∈ vs.map key ↔ x ∈ vs'.map key := fun x => (hp.map key).mem_iff
  cases h : Model.Validity.bind (vs.map key) vids with
  | error e =>
    obtain ⟨he, x, hx, hx'⟩ := bind_error h
    rw [bind_of_unknown hx (fun hc => hx' ((hmem x).mpr hc)), he]; rfl
  | ok js =>
    obtain ⟨js', h'⟩ := bind_of_known (ids := vs'.map key) (vids := vids)
      (fun x hx => (hmem x).mp (known_of_forall₂ (bind_ok h) x hx))
    rw [h']
    have f1 := bind_by_id_unique key vs hn vids js h
    have f2 := bind_by_id key vs' vids js' h'
    show Except.ok (pick vs js) = Except.ok (pick vs' js')
    congr 1
    clear h h'
    generalize pick vs js = l1 at f1
    generalize pick vs' js' = l2 at f2
    induction f1 generalizing l2 with
    | nil => cases f2; rfl
    | @cons v x l1' xs hv _ ih =>
      cases f2 with
      | @cons w _ l2' _ hw hrest =>
        have : w = v := hv.2.2 w (hp.mem_iff.mpr hw.1) hw.2
        rw [this, ih l2' hrest]

/-- An edge that names an id no vertex has makes the binding raise `KeyError`. -/
theorem unknown_id_raises (ids vids : List Int) (x : Int) (hx : x ∈ vids) (hx' : x ∉ ids) :
    Model.Validity.bind ids vids = .error .keyError :=
  bind_of_unknown hx hx'

/-- Binding raises only for an unknown id, and then `KeyError`. -/
theorem bind_raises_iff (ids vids : List Int) :
    (∃ e, Model.Validity.bind ids vids = .error e) ↔ ∃ x ∈ vids, x ∉ ids := by
  constructor
  · rintro ⟨e, h⟩; exact (bind_error h).2
  · rintro ⟨x, hx, hx'⟩; exact ⟨_, bind_of_unknown hx hx'⟩

/-- The dictionary comprehension keeps the last vertex with a given id (what happens when ids are *not* unique). -/
theorem bind_last_wins (ids vids : List Int) (js : List Nat) (h : Model.Validity.bind ids vids = .ok js) :
    List.Forall₂ (fun j x => ids[j]? = some x ∧ ∀ j', j < j' → ids[j']? ≠ some x) js vids :=
  (bind_ok h).imp fun _ _ hjx => ⟨lastIdx_some hjx, lastIdx_last hjx⟩

/-! ## validity = the documented typing rule -/

/-- the documented rule for an odometry edge whose `vertices` are `vs` -/
def WellTypedOdometry (e : EdgeDesc) (vs : List VertexDesc) : Prop :=
  ∃ v0 v1 : VertexDesc, ∃ T : PoseKind, vs = [v0, v1] ∧ e.vertexIds = [v0.id, v1.id] ∧ v0.kind = T ∧ v1.kind = T ∧
    e.estimate = .pose T ∧ e.infoShape = [T.compactDim, T.compactDim]

/-- the documented rule for a landmark edge whose `vertices` are `vs` -/
def WellTypedLandmark (e : EdgeDesc) (vs : List VertexDesc) : Prop :=
  ∃ v0 v1 : VertexDesc, vs = [v0, v1] ∧ e.vertexIds = [v0.id, v1.id] ∧ e.offset = .pose v0.kind ∧
    e.estimate = .pose v1.kind ∧ e.infoShape = [v1.kind.compactDim, v1.kind.compactDim]

theorem isInstance_iff (o : ObjKind) (t : PoseKind) : o.isInstance t = true ↔ o = .pose t := by
  cases o <;> simp [ObjKind.isInstance]

/-- `_is_valid()` holds exactly when `vertices` is populated with one vertex per id, carrying that id -/
theorem isValidBase_iff (e : EdgeDesc) (vs : List VertexDesc) :
    isValidBase e (some vs) = true ↔ vs.map (·.id) = e.vertexIds := by
  unfold isValidBase
  generalize e.vertexIds = xs
  induction vs generalizing xs with
  | nil => cases xs <;> simp [idsMatch]
  | cons v vs ih =>
    cases xs with
    | nil => simp
    | cons x xs =>
      have := ih xs
      by_cases hvx : v.id = x
      · by_cases hl : vs.length = xs.length
        · simp [idsMatch, hvx, hl] at this ⊢; exact this
        · have hne : ¬ List.map (fun v => v.id) vs = xs := fun hc => hl (by rw [← hc, List.length_map])
          simp [hl, hne]
      · simp [idsMatch, hvx]

theorem isValidBase_none (e : EdgeDesc) : isValidBase e none = false := rfl

theorem valid_iff_welltyped_odometry (e : EdgeDesc) (vs : List VertexDesc) :
    isValidOdometry e (some vs) = true ↔ WellTypedOdometry e vs := by
  unfold isValidOdometry WellTypedOdometry
  by_cases hb : isValidBase e (some vs) = true
  · have hids := (isValidBase_iff e vs).mp hb
    simp only [hb, Bool.not_true, Bool.false_eq_true, if_false]
    match vs, hids with
    | [], _ => simp
    | [_], _ => simp
    | _ :: _ :: _ :: _, _ => simp
    | [v0, v1], hids =>
      simp only [List.map_cons, List.map_nil] at hids
      by_cases ho : (ObjKind.pose v1.kind).isInstance v0.kind = true
      · have h10 : v1.kind = v0.kind := by simpa [ObjKind.isInstance] using ho
        by_cases he : e.estimate.isInstance v0.kind = true
        · simp only [ho, he, Bool.not_true, Bool.or_self, Bool.false_eq_true, if_false, decide_eq_true_eq]
          constructor
          · intro h
            exact ⟨v0, v1, v0.kind, rfl, hids.symm, rfl, h10, (isInstance_iff _ _).mp he, h⟩
          · rintro ⟨w0, w1, T, hvs, _, hT0, _, _, hshape⟩
            simp only [List.cons.injEq, and_true] at hvs
            obtain ⟨rfl, rfl⟩ := hvs
            subst hT0
            exact hshape
        · have he' : e.estimate.isInstance v0.kind = false := by simpa using he
          simp only [ho, he', Bool.not_true, Bool.not_false, Bool.or_true, if_true, Bool.false_eq_true, false_iff]
          rintro ⟨w0, w1, T, hvs, _, hT0, _, hest, _⟩
          simp only [List.cons.injEq, and_true] at hvs
          obtain ⟨rfl, rfl⟩ := hvs
          subst hT0
          exact he ((isInstance_iff _ _).mpr hest)
      · have ho' : (ObjKind.pose v1.kind).isInstance v0.kind = false := by simpa using ho
        simp only [ho', Bool.not_false, Bool.true_or, if_true, Bool.false_eq_true, false_iff]
        rintro ⟨w0, w1, T, hvs, _, hT0, hT1, _, _⟩
        simp only [List.cons.injEq, and_true] at hvs
        obtain ⟨rfl, rfl⟩ := hvs
        exact ho (by simp [ObjKind.isInstance, hT0, hT1])
  · have hb' : isValidBase e (some vs) = false := by simpa using hb
    simp only [hb', Bool.not_false, if_true, Bool.false_eq_true, false_iff]
    rintro ⟨v0, v1, T, hvs, hids, _⟩
    apply hb
    rw [isValidBase_iff, hvs, hids]; rfl

theorem valid_iff_welltyped_landmark (e : EdgeDesc) (vs : List VertexDesc) :
    isValidLandmark e (some vs) = true ↔ WellTypedLandmark e vs := by
  unfold isValidLandmark WellTypedLandmark
  by_cases hb : isValidBase e (some vs) = true
  · have hids := (isValidBase_iff e vs).mp hb
    simp only [hb, Bool.not_true, Bool.false_eq_true, if_false]
    match vs, hids with
    | [], _ => simp
    | [_], _ => simp
    | _ :: _ :: _ :: _, _ => simp
    | [v0, v1], hids =>
      simp only [List.map_cons, List.map_nil] at hids
      by_cases ho : e.offset.isInstance v0.kind = true
      · by_cases he : e.estimate.isInstance v1.kind = true
        · simp only [ho, he, Bool.not_true, Bool.or_self, Bool.false_eq_true, if_false, decide_eq_true_eq]
          constructor
          · intro h
            exact ⟨v0, v1, rfl, hids.symm, (isInstance_iff _ _).mp ho, (isInstance_iff _ _).mp he, h⟩
          · rintro ⟨w0, w1, hvs, _, _, _, hshape⟩
            simp only [List.cons.injEq, and_true] at hvs
            obtain ⟨rfl, rfl⟩ := hvs
            exact hshape
        · have he' : e.estimate.isInstance v1.kind = false := by simpa using he
          simp only [ho, he', Bool.not_true, Bool.not_false, Bool.or_true, if_true, Bool.false_eq_true, false_iff]
          rintro ⟨w0, w1, hvs, _, _, hest, _⟩
          simp only [List.cons.injEq, and_true] at hvs
          obtain ⟨rfl, rfl⟩ := hvs
          exact he ((isInstance_iff _ _).mpr hest)
      · have ho' : e.offset.isInstance v0.kind = false := by simpa using ho
        simp only [ho', Bool.not_false, Bool.true_or, if_true, Bool.false_eq_true, false_iff]
        rintro ⟨w0, w1, hvs, _, hoff, _, _⟩
        simp only [List.cons.injEq, and_true] at hvs
        obtain ⟨rfl, rfl⟩ := hvs
        exact ho ((isInstance_iff _ _).mpr hoff)
  · have hb' : isValidBase e (some vs) = false := by simpa using hb
    simp only [hb', Bool.not_false, if_true, Bool.false_eq_true, false_iff]
    rintro ⟨v0, v1, hvs, hids, _⟩
    apply hb
    rw [isValidBase_iff, hvs, hids]; rfl

/-- an unbound edge (`vertices is None`) is never valid -/
theorem unbound_invalid (e : EdgeDesc) : isValidOdometry e none = false ∧ isValidLandmark e none = false := by
  simp [isValidOdometry, isValidLandmark, isValidBase]

/-- the typing rule by edge class; user-defined classes decide for themselves -/
def WellTyped (custom : CustomValid) (e : EdgeDesc) (vs : List VertexDesc) : Prop :=
  match e.cls with
  | .odometry => WellTypedOdometry e vs
  | .landmark => WellTypedLandmark e vs
  | .custom k => custom k e (some vs) = true

theorem valid_iff_welltyped (custom : CustomValid) (e : EdgeDesc) (vs : List VertexDesc) :
    isValid custom e (some vs) = true ↔ WellTyped custom e vs := by
  unfold isValid WellTyped
  cases e.cls with
  | odometry => exact valid_iff_welltyped_odometry e vs
  | landmark => exact valid_iff_welltyped_landmark e vs
  | custom k => exact Iff.rfl

/-! ## the constructor -/

/-- all ids named by the edges exist -/
def AllKnown (vs : List VertexDesc) (es : List EdgeDesc) : Prop := ∀ e ∈ es, ∀ x ∈ e.vertexIds, x ∈ vs.map (·.id)

/-- every edge, bound to the vertices its ids name, is well-typed -/
def AllWellTyped (custom : CustomValid) (vs : List VertexDesc) (es : List EdgeDesc) : Prop :=
  ∀ e ∈ es, ∃ b, bindVertices vs e.vertexIds = .ok b ∧ WellTyped custom e b

/-- `Graph(edges, vertices)` raises `KeyError` exactly when some edge names an unknown id — whatever else is wrong
    (the binding loop runs to completion before the assert). -/
theorem constructor_keyError_iff (custom : CustomValid) (vs : List VertexDesc) (es : List EdgeDesc) :
    construct custom vs es = .error .keyError ↔ ¬ AllKnown vs es := by
  unfold construct AllKnown
  constructor
  · intro h
    cases hb : bindAll vs es with
    | error err =>
      obtain ⟨_, e, he, x, hx, hx'⟩ := bindAll_error hb
      intro hall; exact hx' (hall e he x hx)
    | ok bs =>
      simp only [hb] at h
      split at h <;> cases h
  · intro h
    simp only [not_forall] at h
    obtain ⟨e, he, x, hx, hx'⟩ := h
    simp [bindAll_of_unknown he hx hx']

private lemma forall₂_bind_valid {custom : CustomValid} {vs : List VertexDesc} {es : List EdgeDesc}
    {bs : List (List VertexDesc)} (hb : List.Forall₂ (fun e b => bindVertices vs e.vertexIds = .ok b) es bs) :
    List.Forall₂ (fun e b => isValid custom e (some b) = true) es bs ↔ AllWellTyped custom vs es := by
  unfold AllWellTyped
  induction hb with
  | nil => simp
  | @cons e b es bs heb _ ih =>
    simp only [List.forall₂_cons, List.mem_cons, forall_eq_or_imp, ih]
    constructor
    · rintro ⟨h1, h2⟩
      exact ⟨⟨b, heb, (valid_iff_welltyped custom e b).mp h1⟩, h2⟩
    · rintro ⟨⟨b', hb', hw⟩, h2⟩
      rw [heb] at hb'; cases hb'
      exact ⟨(valid_iff_welltyped custom e b).mpr hw, h2⟩

/-- `Graph(edges, vertices)` raises `AssertionError` exactly when every id is known and some edge is not well-typed. -/
theorem constructor_assertionError_iff (custom : CustomValid) (vs : List VertexDesc) (es : List EdgeDesc) :
    construct custom vs es = .error .assertionError ↔ AllKnown vs es ∧ ¬ AllWellTyped custom vs es := by
  by_cases hk : AllKnown vs es
  · obtain ⟨bs, hb⟩ := bindAll_of_known hk
    have hf := bindAll_ok hb
    have hv := (allValid_iff (custom := custom) hf.length_eq).trans (forall₂_bind_valid hf)
    unfold construct
    simp only [hb, hk, true_and]
    by_cases ha : allValid custom es bs = true
    · simp [ha, hv.mp ha]
    · simp only [ha, Bool.false_eq_true, if_false, true_iff]
      exact fun hc => ha (hv.mpr hc)
  · have := (constructor_keyError_iff custom vs es).mpr hk
    simp [this, hk]

/-- The constructor accepts exactly the graphs in which every id is known and every edge is well-typed; it raises
    (`KeyError` first, else `AssertionError`) exactly otherwise: no inconsistent edge is accepted, no consistent one refused. -/
theorem constructor_accepts_iff (custom : CustomValid) (vs : List VertexDesc) (es : List EdgeDesc) :
    (∃ g, construct custom vs es = .ok g) ↔ AllKnown vs es ∧ AllWellTyped custom vs es := by
  cases h : construct custom vs es with
  | ok g =>
    have h1 : ¬ construct custom vs es = .error .keyError := by rw [h]; intro hc; cases hc
    have h2 : ¬ construct custom vs es = .error .assertionError := by rw [h]; intro hc; cases hc
    rw [constructor_keyError_iff, not_not] at h1
    rw [constructor_assertionError_iff] at h2
    simp only [not_and, not_not] at h2
    exact ⟨fun _ => ⟨h1, h2 h1⟩, fun _ => ⟨g, rfl⟩⟩
  | error err =>
    constructor
    · rintro ⟨g, hg⟩; cases hg
    · rintro ⟨hk, hw⟩
      exfalso
      unfold construct at h
      obtain ⟨bs, hb⟩ := bindAll_of_known hk
      have hf := bindAll_ok hb
      have hv := (allValid_iff (custom := custom) hf.length_eq).trans (forall₂_bind_valid hf)
      simp only [hb, hv.mpr hw, if_true] at h
      cases h

theorem constructor_raises_iff (custom : CustomValid) (vs : List VertexDesc) (es : List EdgeDesc) :
    (∃ err, construct custom vs es = .error err) ↔ ¬ AllKnown vs es ∨ ¬ AllWellTyped custom vs es := by
  have := constructor_accepts_iff custom vs es
  cases h : construct custom vs es with
  | ok g =>
    rw [h] at this
    have h' := this.mp ⟨g, rfl⟩
    constructor
    · rintro ⟨_, hc⟩; cases hc
    · rintro (hc | hc)
      · exact absurd h'.1 hc
      · exact absurd h'.2 hc
  | error err =>
    rw [h] at this
    constructor
    · intro _
      by_contra hc
      simp only [not_or, not_not] at hc
      obtain ⟨g, hg⟩ := this.mpr hc
      cases hg
    · intro _; exact ⟨err, rfl⟩

/-- the only exception classes the constructor raises -/
theorem constructor_error_classes (custom : CustomValid) (vs : List VertexDesc) (es : List EdgeDesc) (err : PyErr)
    (h : construct custom vs es = .error err) : err = .keyError ∨ err = .assertionError := by
  unfold construct at h
  cases hb : bindAll vs es with
  | error e => rw [hb] at h; simp only [Except.error.injEq] at h; subst h; exact Or.inl (bindAll_error hb).1
  | ok bs =>
    simp only [hb] at h
    split at h
    · cases h
    · simp only [Except.error.injEq] at h; exact Or.inr h.symm

/-- An accepted graph has every edge bound, position by position, to vertices carrying the ids the edge names. -/
theorem constructor_binds_by_id (custom : CustomValid) (vs : List VertexDesc) (es : List EdgeDesc) (g : BoundGraph)
    (h : construct custom vs es = .ok g) :
    List.Forall₂ (fun e b => List.Forall₂ (fun v x => v ∈ vs ∧ v.id = x) b e.vertexIds) es g.edgeVertices := by
  unfold construct at h
  cases hb : bindAll vs es with
  | error e => rw [hb] at h; cases h
  | ok bs =>
    simp only [hb] at h
    split at h
    · simp only [Except.ok.injEq] at h
      subst h
      refine (bindAll_ok hb).imp ?_
      intro e b heb
      unfold bindVertices at heb
      cases hj : Model.Validity.bind (vs.map (·.id)) e.vertexIds with
      | error e' => rw [hj] at heb; cases heb
      | ok js =>
        rw [hj] at heb; simp only [Except.ok.injEq] at heb; subst heb
        exact bind_by_id (·.id) vs e.vertexIds js hj
    · cases h

/-! ## gradient index layout -/

/-- `gradient_index` of the `k`-th vertex is the sum of the compact dimensionalities of the vertices before it (list order),
    and `_len_gradient` is the total. -/
theorem gradient_index_layout (custom : CustomValid) (vs : List VertexDesc) (es : List EdgeDesc) (g : BoundGraph)
    (h : construct custom vs es = .ok g) :
    g.gradientIndex.length = vs.length ∧
    (∀ k, k < vs.length → g.gradientIndex[k]? = some ((vs.take k).map (·.kind.compactDim)).sum) ∧
    g.lenGradient = (vs.map (·.kind.compactDim)).sum := by
  unfold construct at h
  cases hb : bindAll vs es with
  | error e => rw [hb] at h; cases h
  | ok bs =>
    simp only [hb] at h
    split at h
    · simp only [Except.ok.injEq] at h
      subst h
      refine ⟨gradLoop_fst_length vs 0, fun k hk => ?_, ?_⟩
      · simpa using gradLoop_fst_get vs 0 k hk
      · simpa using gradLoop_snd vs 0
    · cases h

/-! ## the hypotheses are satisfiable, the rule is not vacuous -/

/-- SE(2)→R³ landmark edge with SE(2) offset, R³ estimate, 3×3 information, vertices listed in the *other* order, plus an
    SE(3) odometry edge: accepted; bound by id, not by position. -/
example :
    construct harnessCustom
      [⟨7, .r3⟩, ⟨5, .se2⟩, ⟨9, .se3⟩, ⟨11, .se3⟩]
      [⟨.landmark, [5, 7], .pose .r3, .pose .se2, [3, 3]⟩, ⟨.odometry, [11, 9], .pose .se3, .none, [6, 6]⟩]
    = .ok ⟨[0, 3, 6, 12], 18, [[⟨5, .se2⟩, ⟨7, .r3⟩], [⟨11, .se3⟩, ⟨9, .se3⟩]]⟩ := by decide

/-- an unknown id takes precedence over an ill-typed edge, in either edge order -/
example :
    construct harnessCustom [⟨1, .se2⟩, ⟨2, .se2⟩]
      [⟨.odometry, [1, 2], .pose .r2, .none, [3, 3]⟩, ⟨.odometry, [1, 3], .pose .se2, .none, [3, 3]⟩]
    = .error .keyError := by decide

example :
    construct harnessCustom [⟨1, .se2⟩, ⟨2, .se2⟩] [⟨.odometry, [1, 2], .pose .r2, .none, [3, 3]⟩]
    = .error .assertionError := by decide

/-- duplicate ids: the last vertex with the id is bound (here an R² point instead of the SE(2) pose, so the edge is refused) -/
example :
    construct harnessCustom [⟨1, .se2⟩, ⟨2, .se2⟩, ⟨2, .r2⟩] [⟨.odometry, [1, 2], .pose .se2, .none, [3, 3]⟩]
    = .error .assertionError := by decide

example : WellTypedLandmark ⟨.landmark, [5, 7], .pose .r3, .pose .se2, [3, 3]⟩ [⟨5, .se2⟩, ⟨7, .r3⟩] :=
  ⟨⟨5, .se2⟩, ⟨7, .r3⟩, rfl, rfl, rfl, rfl, rfl⟩

example : AllKnown [⟨1, .se2⟩, ⟨2, .se2⟩] [⟨.odometry, [1, 2], .pose .se2, .none, [3, 3]⟩] := by
  intro e he x hx
  simp only [List.mem_singleton] at he
  subst he
  simp only [List.mem_cons, List.not_mem_nil, or_false] at hx
  rcases hx with rfl | rfl <;> simp

end GraphSlam.Props.C18
