import GraphSlam.Model.Assembly
import GraphSlam.Real.Instance
import Mathlib.Algebra.BigOperators.Group.List.Basic
import Mathlib.Tactic.Ring
import Mathlib.Tactic.Linarith

/-!
# C03 — accumulation of the per-edge contributions (any number of edges, any order, parallel edges, n-ary edges)

`accumulate_hess_spec`: after folding `_Chi2GradientHessian.update` over **any** list of edges, the block stored under a
key `(a, b)` (always `a ≤ b`) is the sum of all contributions keyed `(a, b)` plus the transposes of all contributions
keyed `(b, a)` with `b > a`; `accumulate_grad_spec` likewise for the gradient dictionary; `accumulate_chi2`.
Over `ℝ` (sums are order-independent; the float order is what the correspondence harness observes).
-/

namespace GraphSlam.Props.C03
open GraphSlam GraphSlam.Model
noncomputable section

/-! ### dictionaries -/

section dict
variable {κ β : Type} [DecidableEq κ]

theorem get?_addAt (add : β → β → β) (d : Dict κ β) (k k' : κ) (v : β) :
    (Dict.addAt add d k v).get? k' =
      if k = k' then some (match d.get? k with | some w => add w v | none => v) else d.get? k' := by
  induction d with
  | nil =>
    by_cases h : k = k' <;> simp [Dict.addAt, Dict.get?, List.find?, h]
  | cons hd tl ih =>
    obtain ⟨k0, w⟩ := hd
    by_cases h0 : k0 = k
    · subst h0
      by_cases h : k0 = k' <;> simp [Dict.addAt, Dict.get?, List.find?, h]
    · by_cases h1 : k0 = k'
      · subst h1
        have hne : ¬ (k = k0) := fun h => h0 h.symm
        simp [Dict.addAt, Dict.get?, List.find?, h0, hne]
      · simp only [Dict.addAt, h0, if_false]
        simp only [Dict.get?, List.find?, h1, decide_false] at ih ⊢
        by_cases h : k = k'
        · simp only [h, if_true] at ih ⊢
          have hk0 : ¬ (k0 = k') := h1
          rw [ih]
          subst h
          simp [h0]
        · simp only [h, if_false] at ih ⊢
          exact ih

/-- keys are never removed and no key is created other than the one added -/
theorem keys_addAt (add : β → β → β) (d : Dict κ β) (k : κ) (v : β) (k' : κ) :
    ((Dict.addAt add d k v).get? k').isSome = (decide (k = k') || (d.get? k').isSome) := by
  rw [get?_addAt]
  by_cases h : k = k' <;> simp [h]

end dict

/-! ### value functions of the two dictionaries (0 where no key exists) -/

/-- entry `(s, t)` of the block stored under `k` -/
def hval (h : Dict (Nat × Nat) (Block ℝ)) (k : Nat × Nat) (s t : Nat) : ℝ :=
  match h.get? k with | some B => B.get s t | none => 0

/-- entry `t` of the segment stored under `idx` -/
def gval (g : Dict Nat (Seg ℝ)) (idx : Nat) (t : Nat) : ℝ :=
  match g.get? idx with | some S => S.get t | none => 0

theorem hval_addAt (h : Dict (Nat × Nat) (Block ℝ)) (k k' : Nat × Nat) (B : Block ℝ) (s t : Nat) :
    hval (Dict.addAt Block.add h k B) k' s t = hval h k' s t + if k = k' then B.get s t else 0 := by
  unfold hval
  rw [get?_addAt]
  by_cases hk : k = k'
  · subst hk
    simp only [if_true]
    cases h.get? k <;> simp [Block.add]
  · simp [hk]

theorem gval_addAt (g : Dict Nat (Seg ℝ)) (k k' : Nat) (S : Seg ℝ) (t : Nat) :
    gval (Dict.addAt Seg.add g k S) k' t = gval g k' t + if k = k' then S.get t else 0 := by
  unfold gval
  rw [get?_addAt]
  by_cases hk : k = k'
  · subst hk
    simp only [if_true]
    cases g.get? k <;> simp [Seg.add]
  · simp [hk]

/-- the key a Hessian contribution is stored under, and the entry it contributes there -/
def normKey (k : Nat × Nat) : Nat × Nat := if k.1 ≤ k.2 then k else (k.2, k.1)
def normEntry (c : (Nat × Nat) × Block ℝ) (s t : Nat) : ℝ := if c.1.1 ≤ c.1.2 then c.2.get s t else c.2.get t s

/-- one `for (idx1, idx2), contrib in incoming[2]` step -/
def hstep (d : Dict (Nat × Nat) (Block ℝ)) (p : (Nat × Nat) × Block ℝ) : Dict (Nat × Nat) (Block ℝ) :=
  if p.1.1 ≤ p.1.2 then Dict.addAt Block.add d (p.1.1, p.1.2) p.2 else Dict.addAt Block.add d (p.1.2, p.1.1) p.2.transpose

theorem hval_hstep (d : Dict (Nat × Nat) (Block ℝ)) (p : (Nat × Nat) × Block ℝ) (k : Nat × Nat) (s t : Nat) :
    hval (hstep d p) k s t = hval d k s t + if normKey p.1 = k then normEntry p s t else 0 := by
  unfold hstep normKey normEntry
  by_cases h : p.1.1 ≤ p.1.2
  · simp only [h, if_true]; rw [hval_addAt]
  · simp only [h, if_false]; rw [hval_addAt]; simp [Block.transpose]

theorem hval_foldl (cs : List ((Nat × Nat) × Block ℝ)) (d : Dict (Nat × Nat) (Block ℝ)) (k : Nat × Nat) (s t : Nat) :
    hval (cs.foldl hstep d) k s t =
      hval d k s t + (cs.map fun c => if normKey c.1 = k then normEntry c s t else 0).sum := by
  induction cs generalizing d with
  | nil => simp
  | cons c cs ih => rw [List.foldl_cons, ih, hval_hstep, List.map_cons, List.sum_cons]; ring

theorem gval_foldl (cs : List (Nat × Seg ℝ)) (d : Dict Nat (Seg ℝ)) (k : Nat) (t : Nat) :
    gval (cs.foldl (fun d (p : Nat × Seg ℝ) => Dict.addAt Seg.add d p.1 p.2) d) k t =
      gval d k t + (cs.map fun c => if c.1 = k then c.2.get t else 0).sum := by
  induction cs generalizing d with
  | nil => simp
  | cons c cs ih => rw [List.foldl_cons, ih, gval_addAt, List.map_cons, List.sum_cons]; ring

theorem update_h (acc : Acc ℝ) (inc : Contribs ℝ) : (update acc inc).h = inc.hess.foldl hstep acc.h := rfl

/-- **Hessian dictionary after any list of edges.** -/
theorem accumulate_hess_spec (es : List (EdgeLin ℝ)) (k : Nat × Nat) (s t : Nat) :
    hval (accumulate es).h k s t =
      (es.map fun e => ((contribs e).hess.map fun c => if normKey c.1 = k then normEntry c s t else 0).sum).sum := by
  unfold accumulate
  have gen : ∀ (acc : Acc ℝ), hval (es.foldl (fun acc e => update acc (contribs e)) acc).h k s t =
      hval acc.h k s t +
        (es.map fun e => ((contribs e).hess.map fun c => if normKey c.1 = k then normEntry c s t else 0).sum).sum := by
    induction es with
    | nil => intro acc; simp
    | cons e es ih =>
      intro acc
      rw [List.foldl_cons, ih, update_h, hval_foldl, List.map_cons, List.sum_cons]; ring
  rw [gen]; simp [hval, Dict.get?]

/-- **Gradient dictionary after any list of edges.** -/
theorem accumulate_grad_spec (es : List (EdgeLin ℝ)) (k : Nat) (t : Nat) :
    gval (accumulate es).g k t =
      (es.map fun e => ((contribs e).grads.map fun c => if c.1 = k then c.2.get t else 0).sum).sum := by
  unfold accumulate
  have gen : ∀ (acc : Acc ℝ), gval (es.foldl (fun acc e => update acc (contribs e)) acc).g k t =
      gval acc.g k t + (es.map fun e => ((contribs e).grads.map fun c => if c.1 = k then c.2.get t else 0).sum).sum := by
    induction es with
    | nil => intro acc; simp
    | cons e es ih =>
      intro acc
      rw [List.foldl_cons, ih]
      show gval ((contribs e).grads.foldl _ acc.g) k t + _ = _
      rw [gval_foldl, List.map_cons, List.sum_cons]; ring
  rw [gen]; simp [gval, Dict.get?]

/-- χ² accumulates as the plain sum (from the float `0.0`) -/
theorem accumulate_chi2 (es : List (EdgeLin ℝ)) : (accumulate es).chi2 = (es.map (·.chi2)).sum := by
  unfold accumulate
  have gen : ∀ (acc : Acc ℝ), (es.foldl (fun acc e => update acc (contribs e)) acc).chi2 = acc.chi2 + (es.map (·.chi2)).sum := by
    induction es with
    | nil => intro acc; simp
    | cons e es ih => intro acc; rw [List.foldl_cons, ih]; simp [update, contribs]; ring
  rw [gen]; simp

/-- every stored Hessian key is upper-triangular (`a ≤ b`): no key with `a > b` is ever created -/
theorem accumulate_keys_upper (es : List (EdgeLin ℝ)) (k : Nat × Nat) (hk : ((accumulate es).h.get? k).isSome = true) :
    k.1 ≤ k.2 := by
  unfold accumulate at hk
  have step : ∀ (d : Dict (Nat × Nat) (Block ℝ)) (p : (Nat × Nat) × Block ℝ),
      (∀ k, (d.get? k).isSome = true → k.1 ≤ k.2) → ∀ k, ((hstep d p).get? k).isSome = true → k.1 ≤ k.2 := by
    intro d p hd k hk
    unfold hstep at hk
    by_cases h : p.1.1 ≤ p.1.2
    · simp only [h, if_true] at hk
      rw [keys_addAt] at hk
      rcases Bool.or_eq_true _ _ |>.mp hk with h1 | h1
      · have := of_decide_eq_true h1; subst this; exact h
      · exact hd k h1
    · simp only [h, if_false] at hk
      rw [keys_addAt] at hk
      rcases Bool.or_eq_true _ _ |>.mp hk with h1 | h1
      · have := of_decide_eq_true h1; subst this; simp; omega
      · exact hd k h1
  have fold1 : ∀ (cs : List ((Nat × Nat) × Block ℝ)) (d : Dict (Nat × Nat) (Block ℝ)),
      (∀ k, (d.get? k).isSome = true → k.1 ≤ k.2) → ∀ k, ((cs.foldl hstep d).get? k).isSome = true → k.1 ≤ k.2 := by
    intro cs; induction cs with
    | nil => intro d hd; simpa using hd
    | cons c cs ih => intro d hd; rw [List.foldl_cons]; exact ih _ (step d c hd)
  have gen : ∀ (es : List (EdgeLin ℝ)) (acc : Acc ℝ), (∀ k, (acc.h.get? k).isSome = true → k.1 ≤ k.2) →
      ∀ k, ((es.foldl (fun acc e => update acc (contribs e)) acc).h.get? k).isSome = true → k.1 ≤ k.2 := by
    intro es
    induction es with
    | nil => intro acc h; simpa using h
    | cons e es ih =>
      intro acc h
      rw [List.foldl_cons]
      apply ih
      rw [update_h]
      exact fold1 _ _ h
  exact gen es _ (by intro k h; simp [Dict.get?] at h) k hk

end
end GraphSlam.Props.C03
