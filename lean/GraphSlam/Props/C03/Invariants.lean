import GraphSlam.Props.C03.EdgeSum

/-!
# C03 — invariants of the block dictionaries: unique keys, block shapes = vertex dimensions

`verts` is the graph's layout: `(gradient_index, compact dimension)` of every vertex (graph.py:336-343).
-/

namespace GraphSlam.Props.C03
open GraphSlam GraphSlam.Model
set_option linter.unusedVariables false
noncomputable section

/-- `i` lies in the index range of vertex `v` -/
def InIv (v : Nat × Nat) (i : Nat) : Prop := v.1 ≤ i ∧ i < v.1 + v.2

/-- a layout: distinct vertices have distinct gradient indices and disjoint index ranges -/
structure Layout (verts : List (Nat × Nat)) : Prop where
  index_unique : ∀ v ∈ verts, ∀ w ∈ verts, v.1 = w.1 → v = w
  disjoint : ∀ v ∈ verts, ∀ w ∈ verts, ∀ i, InIv v i → InIv w i → v = w

/-- `gradient_index` assignment of `Graph._initialize`: prefix sums of the compact dimensions, from `start` -/
def prefixLayout : Nat → List Nat → List (Nat × Nat)
  | _, [] => []
  | start, d :: ds => (start, d) :: prefixLayout (start + d) ds

theorem prefixLayout_ge (start : Nat) (ds : List Nat) : ∀ v ∈ prefixLayout start ds, start ≤ v.1 := by
  induction ds generalizing start with
  | nil => intro v hv; simp [prefixLayout] at hv
  | cons d ds ih =>
    intro v hv
    simp only [prefixLayout, List.mem_cons] at hv
    rcases hv with rfl | hv
    · exact le_refl _
    · have := ih (start + d) v hv; omega

/-- the layout computed by the constructor is a `Layout` when every compact dimension is positive -/
theorem prefixLayout_layout (start : Nat) (ds : List Nat) (hpos : ∀ d ∈ ds, 0 < d) : Layout (prefixLayout start ds) := by
  induction ds generalizing start with
  | nil => exact ⟨by simp [prefixLayout], by simp [prefixLayout]⟩
  | cons d ds ih =>
    have hd : 0 < d := hpos d (by simp)
    have ih' := ih (start + d) (fun x hx => hpos x (by simp [hx]))
    have hge := prefixLayout_ge (start + d) ds
    constructor
    · intro v hv w hw h
      simp only [prefixLayout, List.mem_cons] at hv hw
      rcases hv with rfl | hv <;> rcases hw with rfl | hw
      · rfl
      · have := hge w hw; simp at h; omega
      · have := hge v hv; simp at h; omega
      · exact ih'.index_unique v hv w hw h
    · intro v hv w hw i hi hj
      simp only [prefixLayout, List.mem_cons] at hv hw
      rcases hv with rfl | hv <;> rcases hw with rfl | hw
      · rfl
      · have := hge w hw; unfold InIv at hi hj; simp at hi; omega
      · have := hge v hv; unfold InIv at hi hj; simp at hj; omega
      · exact ih'.disjoint v hv w hw i hi hj

/-! ### keys of `Dict.addAt` -/

section dict
variable {κ β : Type} [DecidableEq κ]

theorem addAt_keys (add : β → β → β) (d : Dict κ β) (k : κ) (v : β) :
    (Dict.addAt add d k v).map (·.1) = if k ∈ d.map (·.1) then d.map (·.1) else d.map (·.1) ++ [k] := by
  induction d with
  | nil => simp [Dict.addAt]
  | cons hd tl ih =>
    obtain ⟨k0, w⟩ := hd
    by_cases h0 : k0 = k
    · subst h0; simp [Dict.addAt]
    · have hne : ¬ (k = k0) := fun h => h0 h.symm
      simp only [Dict.addAt, h0, if_false, List.map_cons, ih, List.mem_cons, hne, false_or]
      split <;> simp

theorem addAt_nodup (add : β → β → β) (d : Dict κ β) (k : κ) (v : β) (h : (d.map (·.1)).Nodup) :
    ((Dict.addAt add d k v).map (·.1)).Nodup := by
  rw [addAt_keys]
  split
  · exact h
  · rename_i hk
    exact List.Nodup.append h (by simp) (by simpa using hk)

/-- an entry of the updated dictionary is an old entry, or sits under `k` and is `add old v` or `v` -/
theorem addAt_mem (add : β → β → β) (d : Dict κ β) (k : κ) (v : β) (p : κ × β) (hp : p ∈ Dict.addAt add d k v) :
    p ∈ d ∨ (p.1 = k ∧ ((∃ w, (k, w) ∈ d ∧ p.2 = add w v) ∨ p.2 = v)) := by
  induction d with
  | nil => simp [Dict.addAt] at hp; right; subst hp; simp
  | cons hd tl ih =>
    obtain ⟨k0, w⟩ := hd
    by_cases h0 : k0 = k
    · subst h0
      simp only [Dict.addAt, if_true, List.mem_cons] at hp
      rcases hp with rfl | hp
      · right; exact ⟨rfl, Or.inl ⟨w, by simp, rfl⟩⟩
      · left; simp [hp]
    · simp only [Dict.addAt, h0, if_false, List.mem_cons] at hp
      rcases hp with rfl | hp
      · left; simp
      · rcases ih hp with h | ⟨h1, h2⟩
        · left; simp [h]
        · right
          refine ⟨h1, ?_⟩
          rcases h2 with ⟨w', hw', h3⟩ | h3
          · left; exact ⟨w', by simp [hw'], h3⟩
          · right; exact h3

theorem get?_eq_some_of_mem (d : Dict κ β) (h : (d.map (·.1)).Nodup) (k : κ) (v : β) (hm : (k, v) ∈ d) :
    d.get? k = some v := by
  induction d with
  | nil => simp at hm
  | cons hd tl ih =>
    obtain ⟨k0, w⟩ := hd
    simp only [List.map_cons, List.nodup_cons] at h
    simp only [List.mem_cons, Prod.mk.injEq] at hm
    by_cases h0 : k0 = k
    · subst h0
      rcases hm with ⟨_, rfl⟩ | hm
      · simp [Dict.get?, List.find?]
      · exfalso; apply h.1; exact List.mem_map_of_mem (f := (·.1)) hm
    · rcases hm with ⟨rfl, _⟩ | hm
      · exact absurd rfl h0
      · have := ih h.2 hm
        simp only [Dict.get?, List.find?, h0, decide_false] at this ⊢
        exact this

theorem mem_of_get?_eq_some (d : Dict κ β) (k : κ) (v : β) (h : d.get? k = some v) : (k, v) ∈ d := by
  induction d with
  | nil => simp [Dict.get?] at h
  | cons hd tl ih =>
    obtain ⟨k0, w⟩ := hd
    by_cases h0 : k0 = k
    · subst h0; simp [Dict.get?, List.find?] at h; subst h; simp
    · simp only [Dict.get?, List.find?, h0, decide_false] at h
      have := ih h
      simp [this]

end dict

/-! ### well-formedness of the Hessian / gradient dictionaries w.r.t. a layout -/

/-- every stored block sits under an upper-triangular key of two vertices and has their dimensions -/
def HWF (verts : List (Nat × Nat)) (h : Dict (Nat × Nat) (Block ℝ)) : Prop :=
  ∀ p ∈ h, p.1.1 ≤ p.1.2 ∧ (p.1.1, p.2.r) ∈ verts ∧ (p.1.2, p.2.c) ∈ verts

def GWF (verts : List (Nat × Nat)) (g : Dict Nat (Seg ℝ)) : Prop := ∀ p ∈ g, (p.1, p.2.len) ∈ verts

/-- every vertex an edge names is a vertex of the layout, with the same dimension -/
def EdgesWF (verts : List (Nat × Nat)) (es : List (EdgeLin ℝ)) : Prop :=
  ∀ e ∈ es, ∀ x ∈ e.verts, (x.1, x.2.1) ∈ verts

theorem mem_pairsLE {α : Type} (l : List α) (p : α × α) (hp : p ∈ pairsLE l) : p.1 ∈ l ∧ p.2 ∈ l := by
  induction l with
  | nil => simp [pairsLE] at hp
  | cons x xs ih =>
    simp only [pairsLE, List.map_cons, List.mem_cons, List.mem_append, List.mem_map] at hp
    rcases hp with (rfl | ⟨y, hy, rfl⟩) | hp
    · simp
    · simp [hy]
    · have := ih hp; simp [this.1, this.2]

theorem hstep_wf (verts : List (Nat × Nat)) (hl : Layout verts) (d : Dict (Nat × Nat) (Block ℝ)) (p : (Nat × Nat) × Block ℝ)
    (hd : HWF verts d) (hn : (d.map (·.1)).Nodup) (hp1 : (p.1.1, p.2.r) ∈ verts) (hp2 : (p.1.2, p.2.c) ∈ verts) :
    HWF verts (hstep d p) ∧ ((hstep d p).map (·.1)).Nodup := by
  unfold hstep
  by_cases h : p.1.1 ≤ p.1.2
  · simp only [h, if_true]
    refine ⟨?_, addAt_nodup _ _ _ _ hn⟩
    intro q hq
    rcases addAt_mem _ _ _ _ q hq with hq | ⟨hk, hv⟩
    · exact hd q hq
    · rcases hv with ⟨w, hw, hv⟩ | hv
      · have := hd _ hw
        rw [hk, hv]; simpa [Block.add] using this
      · rw [hk, hv]; exact ⟨h, hp1, hp2⟩
  · simp only [h, if_false]
    refine ⟨?_, addAt_nodup _ _ _ _ hn⟩
    intro q hq
    rcases addAt_mem _ _ _ _ q hq with hq | ⟨hk, hv⟩
    · exact hd q hq
    · rcases hv with ⟨w, hw, hv⟩ | hv
      · have := hd _ hw
        rw [hk, hv]; simpa [Block.add] using this
      · rw [hk, hv]; exact ⟨by simp; omega, by simpa [Block.transpose] using hp2, by simpa [Block.transpose] using hp1⟩

theorem accumulate_wf (verts : List (Nat × Nat)) (hl : Layout verts) (es : List (EdgeLin ℝ)) (hes : EdgesWF verts es) :
    HWF verts (accumulate es).h ∧ ((accumulate es).h.map (·.1)).Nodup ∧
      GWF verts (accumulate es).g ∧ ((accumulate es).g.map (·.1)).Nodup := by
  unfold accumulate
  have gen : ∀ (es : List (EdgeLin ℝ)) (acc : Acc ℝ), EdgesWF verts es →
      (HWF verts acc.h ∧ (acc.h.map (·.1)).Nodup ∧ GWF verts acc.g ∧ (acc.g.map (·.1)).Nodup) →
      (let r := es.foldl (fun acc e => update acc (contribs e)) acc
       HWF verts r.h ∧ (r.h.map (·.1)).Nodup ∧ GWF verts r.g ∧ (r.g.map (·.1)).Nodup) := by
    intro es
    induction es with
    | nil => intro acc _ h; simpa using h
    | cons e es ih =>
      intro acc hes hacc
      rw [List.foldl_cons]
      apply ih _ (fun e' he' => hes e' (by simp [he']))
      have hev : ∀ x ∈ e.verts, (x.1, x.2.1) ∈ verts := hes e (by simp)
      -- Hessian part
      have hH : ∀ (cs : List ((Nat × Nat) × Block ℝ)) (d : Dict (Nat × Nat) (Block ℝ)),
          (∀ c ∈ cs, (c.1.1, c.2.r) ∈ verts ∧ (c.1.2, c.2.c) ∈ verts) → HWF verts d → (d.map (·.1)).Nodup →
          HWF verts (cs.foldl hstep d) ∧ ((cs.foldl hstep d).map (·.1)).Nodup := by
        intro cs
        induction cs with
        | nil => intro d _ h1 h2; exact ⟨h1, h2⟩
        | cons c cs ihc =>
          intro d hc h1 h2
          rw [List.foldl_cons]
          have := hstep_wf verts hl d c h1 h2 (hc c (by simp)).1 (hc c (by simp)).2
          exact ihc _ (fun c' hc' => hc c' (by simp [hc'])) this.1 this.2
      have hG : ∀ (cs : List (Nat × Seg ℝ)) (d : Dict Nat (Seg ℝ)),
          (∀ c ∈ cs, (c.1, c.2.len) ∈ verts) → GWF verts d → (d.map (·.1)).Nodup →
          GWF verts (cs.foldl (fun d (p : Nat × Seg ℝ) => Dict.addAt Seg.add d p.1 p.2) d) ∧
            ((cs.foldl (fun d (p : Nat × Seg ℝ) => Dict.addAt Seg.add d p.1 p.2) d).map (·.1)).Nodup := by
        intro cs
        induction cs with
        | nil => intro d _ h1 h2; exact ⟨h1, h2⟩
        | cons c cs ihc =>
          intro d hc h1 h2
          rw [List.foldl_cons]
          apply ihc _ (fun c' hc' => hc c' (by simp [hc']))
          · intro q hq
            rcases addAt_mem _ _ _ _ q hq with hq | ⟨hk, hv⟩
            · exact h1 q hq
            · rcases hv with ⟨w, hw, hv⟩ | hv
              · have := h1 _ hw; rw [hk, hv]; simpa [Seg.add] using this
              · rw [hk, hv]; exact hc c (by simp)
          · exact addAt_nodup _ _ _ _ h2
      have hcH : ∀ c ∈ (contribs e).hess, (c.1.1, c.2.r) ∈ verts ∧ (c.1.2, c.2.c) ∈ verts := by
        intro c hc
        simp only [contribs, List.mem_map] at hc
        obtain ⟨⟨⟨gi, di, Ji⟩, ⟨gj, dj, Jj⟩⟩, hmem, rfl⟩ := hc
        have := mem_pairsLE _ _ hmem
        exact ⟨hev _ this.1, hev _ this.2⟩
      have hcG : ∀ c ∈ (contribs e).grads, (c.1, c.2.len) ∈ verts := by
        intro c hc
        simp only [contribs, List.mem_map] at hc
        obtain ⟨⟨g, d, J⟩, hmem, rfl⟩ := hc
        exact hev _ hmem
      have h1 := hH _ acc.h hcH hacc.1 hacc.2.1
      have h2 := hG _ acc.g hcG hacc.2.2.1 hacc.2.2.2
      exact ⟨h1.1, h1.2, h2.1, h2.2⟩
  have := gen es ⟨Scalar.ofInt 0, [], []⟩ hes ⟨by intro p hp; simp at hp, by simp, by intro p hp; simp at hp, by simp⟩
  simpa using this

end
end GraphSlam.Props.C03
