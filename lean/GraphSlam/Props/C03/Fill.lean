import GraphSlam.Props.C03.Invariants

/-!
# C03 / C06 — the dense fill: `H` and `b` block by block

`fillHessian_spec`: for vertices `u = (g_u, d_u)`, `w = (g_w, d_w)` of the layout and local coordinates `s < d_u`,
`t < d_w`, the entry `H[g_u + s, g_w + t]` of `Model.fillHessian` is

* `δ_{st}` if `u = w` is fixed, `0` if `u ≠ w` and one of them is fixed (identity rows/columns for fixed vertices,
  written for **every** fixed vertex whether or not an edge touches it);
* otherwise the `(s, t)` entry of the dictionary block under `(g_u, g_w)` if `g_u ≤ g_w`, or the `(t, s)` entry of the
  block under `(g_w, g_u)` (the transpose) — `0` when no such block exists.

The proof is where "assignment, not accumulation" is justified: distinct keys write to disjoint regions because the
index ranges of distinct vertices are disjoint.
-/

namespace GraphSlam.Props.C03
open GraphSlam GraphSlam.Model
set_option linter.unusedVariables false
noncomputable section

/-- `np.eye` entry -/
def eyeR (s t : Nat) : ℝ := if s = t then 1 else 0

theorem eyeBlock_get (r c s t : Nat) : (eyeBlock (E := ℝ) r c).get s t = eyeR s t := by
  simp [eyeBlock, eyeR]

/-- one step of the loop over the Hessian dictionary -/
def dstep (fixed : List Nat) (H : Nat → Nat → ℝ) (p : (Nat × Nat) × Block ℝ) : Nat → Nat → ℝ :=
  if p.1.1 ∈ fixed ∨ p.1.2 ∈ fixed then
    (if p.1.1 = p.1.2 then setBlock H p.1.1 p.1.2 (eyeBlock p.2.r p.2.c) else H)
  else
    (if p.1.1 ≠ p.1.2 then setBlock (setBlock H p.1.1 p.1.2 p.2) p.1.2 p.1.1 p.2.transpose
     else setBlock H p.1.1 p.1.2 p.2)

theorem fillHessianDict_eq (fixed : List Nat) (h : Dict (Nat × Nat) (Block ℝ)) :
    fillHessianDict fixed h = h.foldl (dstep fixed) (fun _ _ => 0) := by
  unfold fillHessianDict dstep
  simp only [real_ofInt, Int.cast_zero]

/-- a point of `u`'s range and a point of `w`'s range -/
structure Pos (verts : List (Nat × Nat)) where
  u : Nat × Nat
  w : Nat × Nat
  s : Nat
  t : Nat
  hu : u ∈ verts
  hw : w ∈ verts
  hs : s < u.2
  ht : t < w.2

theorem inIv_pos {verts : List (Nat × Nat)} (q : Pos verts) : InIv q.u (q.u.1 + q.s) ∧ InIv q.w (q.w.1 + q.t) := by
  have := q.hs; have := q.ht
  unfold InIv; omega

/-- if a block of two layout vertices covers the position, those vertices are `u` and `w` -/
theorem covers_iff {verts : List (Nat × Nat)} (hl : Layout verts) (q : Pos verts) (a b r c : Nat)
    (ha : (a, r) ∈ verts) (hb : (b, c) ∈ verts)
    (hcov : a ≤ q.u.1 + q.s ∧ q.u.1 + q.s < a + r ∧ b ≤ q.w.1 + q.t ∧ q.w.1 + q.t < b + c) :
    (a, r) = q.u ∧ (b, c) = q.w := by
  obtain ⟨h1, h2⟩ := inIv_pos q
  exact ⟨hl.disjoint _ ha _ q.hu _ ⟨hcov.1, hcov.2.1⟩ h1, hl.disjoint _ hb _ q.hw _ ⟨hcov.2.2.1, hcov.2.2.2⟩ h2⟩

theorem setBlock_apply (H : Nat → Nat → ℝ) (r0 c0 : Nat) (B : Block ℝ) (i j : Nat) :
    setBlock H r0 c0 B i j = if r0 ≤ i ∧ i < r0 + B.r ∧ c0 ≤ j ∧ j < c0 + B.c then B.get (i - r0) (j - c0) else H i j := rfl

/-- an entry with a different (normalised) key does not touch the position -/
theorem dstep_other {verts : List (Nat × Nat)} (hl : Layout verts) (fixed : List Nat) (q : Pos verts)
    (H : Nat → Nat → ℝ) (p : (Nat × Nat) × Block ℝ)
    (hp : p.1.1 ≤ p.1.2 ∧ (p.1.1, p.2.r) ∈ verts ∧ (p.1.2, p.2.c) ∈ verts)
    (hne : p.1 ≠ normKey (q.u.1, q.w.1)) :
    dstep fixed H p (q.u.1 + q.s) (q.w.1 + q.t) = H (q.u.1 + q.s) (q.w.1 + q.t) := by
  obtain ⟨hle, h1, h2⟩ := hp
  obtain ⟨⟨a, b⟩, B⟩ := p
  simp only at hle h1 h2 hne
  have hdirect : ¬ (a ≤ q.u.1 + q.s ∧ q.u.1 + q.s < a + B.r ∧ b ≤ q.w.1 + q.t ∧ q.w.1 + q.t < b + B.c) := by
    intro hc
    obtain ⟨e1, e2⟩ := covers_iff hl q a b B.r B.c h1 h2 hc
    apply hne
    have ha : a = q.u.1 := by rw [← e1]
    have hb : b = q.w.1 := by rw [← e2]
    subst ha; subst hb
    simp [normKey, hle]
  have htrans : ¬ (b ≤ q.u.1 + q.s ∧ q.u.1 + q.s < b + B.c ∧ a ≤ q.w.1 + q.t ∧ q.w.1 + q.t < a + B.r) := by
    intro hc
    obtain ⟨e1, e2⟩ := covers_iff hl q b a B.c B.r h2 h1 hc
    apply hne
    have hb : b = q.u.1 := by rw [← e1]
    have ha : a = q.w.1 := by rw [← e2]
    subst ha; subst hb
    unfold normKey
    by_cases h : q.u.1 ≤ q.w.1
    · have : q.u.1 = q.w.1 := le_antisymm h hle
      simp [this]
    · simp [h]
  unfold dstep
  simp only
  split
  · split
    · rename_i hab
      rw [setBlock_apply]
      simp only [eyeBlock]
      have : ¬ (a ≤ q.u.1 + q.s ∧ q.u.1 + q.s < a + B.r ∧ b ≤ q.w.1 + q.t ∧ q.w.1 + q.t < b + B.c) := hdirect
      simp only [this, if_false]
    · rfl
  · split
    · rw [setBlock_apply]
      simp only [Block.transpose]
      simp only [htrans, if_false]
      rw [setBlock_apply]
      simp only [hdirect, if_false]
    · rw [setBlock_apply]
      simp only [hdirect, if_false]

/-- what the entry under the position's own key writes there -/
def ownValue (fixed : List Nat) {verts : List (Nat × Nat)} (q : Pos verts) (H0 : ℝ) (B : Block ℝ) : ℝ :=
  if q.u.1 ∈ fixed ∨ q.w.1 ∈ fixed then (if q.u.1 = q.w.1 then eyeR q.s q.t else H0)
  else (if q.u.1 ≤ q.w.1 then B.get q.s q.t else B.get q.t q.s)

theorem dstep_own {verts : List (Nat × Nat)} (hl : Layout verts) (fixed : List Nat) (q : Pos verts)
    (H : Nat → Nat → ℝ) (p : (Nat × Nat) × Block ℝ)
    (hp : p.1.1 ≤ p.1.2 ∧ (p.1.1, p.2.r) ∈ verts ∧ (p.1.2, p.2.c) ∈ verts)
    (hk : p.1 = normKey (q.u.1, q.w.1)) :
    dstep fixed H p (q.u.1 + q.s) (q.w.1 + q.t) = ownValue fixed q (H (q.u.1 + q.s) (q.w.1 + q.t)) p.2 := by
  obtain ⟨hle, h1, h2⟩ := hp
  obtain ⟨⟨a, b⟩, B⟩ := p
  simp only at hle h1 h2 hk
  have hs := q.hs; have ht := q.ht
  rcases hu' : q.u with ⟨gu, du⟩
  rcases hw' : q.w with ⟨gw, dw⟩
  have hqu : (gu, du) ∈ verts := hu' ▸ q.hu
  have hqw : (gw, dw) ∈ verts := hw' ▸ q.hw
  simp only [hu', hw'] at hs ht hk ⊢
  unfold ownValue dstep
  simp only [hu', hw']
  unfold normKey at hk
  by_cases hguw : gu ≤ gw
  · -- key is (gu, gw)
    simp only [hguw, if_true, Prod.mk.injEq] at hk
    obtain ⟨rfl, rfl⟩ := hk
    have hr : B.r = du := by have := hl.index_unique _ h1 _ hqu rfl; simpa using congrArg Prod.snd this
    have hc : B.c = dw := by have := hl.index_unique _ h2 _ hqw rfl; simpa using congrArg Prod.snd this
    by_cases hfix : a ∈ fixed ∨ b ∈ fixed
    · simp only [hfix, if_true]
      by_cases hab : a = b
      · subst hab
        simp only [if_true]
        rw [setBlock_apply, eyeBlock_get]
        have this' : a ≤ a + q.s ∧ a + q.s < a + (eyeBlock (E := ℝ) B.r B.c).r ∧ a ≤ a + q.t ∧
            a + q.t < a + (eyeBlock (E := ℝ) B.r B.c).c := by simp only [eyeBlock]; omega
        rw [if_pos this']; simp
      · simp [hab]
    · simp only [hfix, if_false, hguw, if_true]
      by_cases hab : a = b
      · subst hab
        simp only [ne_eq, not_true_eq_false, if_false]
        rw [setBlock_apply]
        have : a ≤ a + q.s ∧ a + q.s < a + B.r ∧ a ≤ a + q.t ∧ a + q.t < a + B.c := by omega
        simp [this]
      · simp only [ne_eq, hab, not_false_eq_true, if_true]
        rw [setBlock_apply]
        -- the transposed region cannot contain the position (u ≠ w have disjoint ranges)
        have hnt : ¬ (b ≤ a + q.s ∧ a + q.s < b + B.transpose.r ∧ a ≤ b + q.t ∧ b + q.t < a + B.transpose.c) := by
          intro hcov
          simp only [Block.transpose] at hcov
          have hi1 : InIv (a, du) (a + q.s) := by unfold InIv; simp; omega
          have hi2 : InIv (b, dw) (a + q.s) := by unfold InIv; simp; omega
          have := hl.disjoint _ hqu _ hqw _ hi1 hi2
          apply hab; simpa using congrArg Prod.fst this
        simp only [hnt, if_false]
        rw [setBlock_apply]
        have : a ≤ a + q.s ∧ a + q.s < a + B.r ∧ b ≤ b + q.t ∧ b + q.t < b + B.c := by omega
        simp [this]
  · -- key is (gw, gu), gw < gu
    simp only [hguw, if_false, Prod.mk.injEq] at hk
    obtain ⟨rfl, rfl⟩ := hk
    have hlt : a < b := by omega
    have hab : a ≠ b := by omega
    have hba : ¬ (b = a) := by omega
    have hr : B.r = dw := by have := hl.index_unique _ h1 _ hqw rfl; simpa using congrArg Prod.snd this
    have hc : B.c = du := by have := hl.index_unique _ h2 _ hqu rfl; simpa using congrArg Prod.snd this
    by_cases hfix : a ∈ fixed ∨ b ∈ fixed
    · have hfix' : b ∈ fixed ∨ a ∈ fixed := hfix.symm
      simp [hfix, hfix', hab, hba]
    · have hfix' : ¬ (b ∈ fixed ∨ a ∈ fixed) := fun h => hfix h.symm
      simp only [hfix, hfix', if_false, hguw, ne_eq, hab, not_false_eq_true, if_true]
      rw [setBlock_apply]
      have : b ≤ b + q.s ∧ b + q.s < b + B.transpose.r ∧ a ≤ a + q.t ∧ a + q.t < a + B.transpose.c := by
        simp only [Block.transpose]; omega
      rw [if_pos this]; simp [Block.transpose]

/-- **the dictionary pass** -/
theorem fillDict_at {verts : List (Nat × Nat)} (hl : Layout verts) (fixed : List Nat) (q : Pos verts) :
    ∀ (l : Dict (Nat × Nat) (Block ℝ)) (H0 : Nat → Nat → ℝ), HWF verts l → (l.map (·.1)).Nodup →
      l.foldl (dstep fixed) H0 (q.u.1 + q.s) (q.w.1 + q.t) =
        match Dict.get? l (normKey (q.u.1, q.w.1)) with
        | none => H0 (q.u.1 + q.s) (q.w.1 + q.t)
        | some B => ownValue fixed q (H0 (q.u.1 + q.s) (q.w.1 + q.t)) B := by
  intro l
  induction l with
  | nil => intro H0 _ _; simp [Dict.get?]
  | cons p l ih =>
    intro H0 hwf hnd
    rw [List.foldl_cons]
    have hwf' : HWF verts l := fun x hx => hwf x (by simp [hx])
    have hnd' : (l.map (·.1)).Nodup := (List.nodup_cons.mp (by simpa using hnd)).2
    have hnotin : p.1 ∉ l.map (·.1) := (List.nodup_cons.mp (by simpa using hnd)).1
    rw [ih _ hwf' hnd']
    by_cases hk : p.1 = normKey (q.u.1, q.w.1)
    · have hnone : Dict.get? l (normKey (q.u.1, q.w.1)) = none := by
        rw [← hk]
        cases hg : Dict.get? l p.1 with
        | none => rfl
        | some v => exact absurd (List.mem_map_of_mem (f := (·.1)) (mem_of_get?_eq_some l p.1 v hg)) hnotin
      have hsome : Dict.get? (p :: l) (normKey (q.u.1, q.w.1)) = some p.2 := by
        simp [Dict.get?, List.find?, hk]
      rw [hnone, hsome]
      exact dstep_own hl fixed q H0 p (hwf p (by simp)) hk
    · have hsame : Dict.get? (p :: l) (normKey (q.u.1, q.w.1)) = Dict.get? l (normKey (q.u.1, q.w.1)) := by
        simp [Dict.get?, List.find?, hk]
      rw [hsame, dstep_other hl fixed q H0 p (hwf p (by simp)) hk]

/-- the identity pass over all vertices (added by the C06 repair) -/
def vstep (fixed : List Nat) (H : Nat → Nat → ℝ) (v : Nat × Nat) : Nat → Nat → ℝ :=
  if v.1 ∈ fixed then setBlock H v.1 v.1 (eyeBlock v.2 v.2) else H

theorem fillFixed_at {verts : List (Nat × Nat)} (hl : Layout verts) (fixed : List Nat) (q : Pos verts) :
    ∀ (l : List (Nat × Nat)) (H0 : Nat → Nat → ℝ), (∀ v ∈ l, v ∈ verts) →
      l.foldl (vstep fixed) H0 (q.u.1 + q.s) (q.w.1 + q.t) =
        if q.u = q.w ∧ q.u.1 ∈ fixed ∧ q.u ∈ l then eyeR q.s q.t else H0 (q.u.1 + q.s) (q.w.1 + q.t) := by
  intro l
  induction l using List.reverseRecOn with
  | nil => intro H0 _; simp
  | append_singleton l v ih =>
    intro H0 hsub
    rw [List.foldl_append, List.foldl_cons, List.foldl_nil]
    have hv : v ∈ verts := hsub v (by simp)
    have ih' := ih H0 (fun x hx => hsub x (by simp [hx]))
    generalize l.foldl (vstep fixed) H0 = H at ih'
    show vstep fixed H v (q.u.1 + q.s) (q.w.1 + q.t) = _
    have hmem : ∀ x : Nat × Nat, x ∈ l ++ [v] ↔ x ∈ l ∨ x = v := by intro x; simp
    unfold vstep
    by_cases hf : v.1 ∈ fixed
    · simp only [hf, if_true]
      rw [setBlock_apply, eyeBlock_get]
      show (if v.1 ≤ q.u.1 + q.s ∧ q.u.1 + q.s < v.1 + v.2 ∧ v.1 ≤ q.w.1 + q.t ∧ q.w.1 + q.t < v.1 + v.2 then _ else _) = _
      by_cases hcov : v.1 ≤ q.u.1 + q.s ∧ q.u.1 + q.s < v.1 + v.2 ∧ v.1 ≤ q.w.1 + q.t ∧ q.w.1 + q.t < v.1 + v.2
      · obtain ⟨e1, e2⟩ := covers_iff hl q v.1 v.1 v.2 v.2 hv hv hcov
        have e1' : v = q.u := e1
        have e2' : v = q.w := e2
        rw [if_pos hcov]
        have huw : q.u = q.w := e1'.symm.trans e2'
        have hcond : q.u = q.w ∧ q.u.1 ∈ fixed ∧ q.u ∈ l ++ [v] := ⟨huw, e1' ▸ hf, by rw [hmem]; exact Or.inr e1'.symm⟩
        rw [if_pos hcond]
        have h1 : q.u.1 + q.s - v.1 = q.s := by rw [e1']; omega
        have h2 : q.w.1 + q.t - v.1 = q.t := by rw [e2']; omega
        rw [h1, h2]
      · rw [if_neg hcov, ih']
        by_cases hc : q.u = q.w ∧ q.u.1 ∈ fixed
        · have hne : q.u ≠ v := by
            intro e
            apply hcov
            have := q.hs; have := q.ht
            have e2 : q.w = v := hc.1 ▸ e
            rw [← e]
            refine ⟨by omega, by omega, ?_, ?_⟩
            · rw [hc.1]; omega
            · rw [hc.1]; omega
          have hne' : ¬ (q.w = v) := fun e => hne (hc.1.trans e)
          simp only [hc, true_and, hmem, hne', or_false]
        · have h1 : ¬ (q.u = q.w ∧ q.u.1 ∈ fixed ∧ q.u ∈ l) := fun h => hc ⟨h.1, h.2.1⟩
          have h2 : ¬ (q.u = q.w ∧ q.u.1 ∈ fixed ∧ q.u ∈ l ++ [v]) := fun h => hc ⟨h.1, h.2.1⟩
          rw [if_neg h1, if_neg h2]
    · simp only [hf, if_false]
      rw [ih']
      by_cases hc : q.u = q.w ∧ q.u.1 ∈ fixed
      · have hne : q.u ≠ v := by rintro rfl; exact hf hc.2
        have hne' : ¬ (q.w = v) := fun e => hne (hc.1.trans e)
        simp only [hc, true_and, hmem, hne', or_false]
      · have h1 : ¬ (q.u = q.w ∧ q.u.1 ∈ fixed ∧ q.u ∈ l) := fun h => hc ⟨h.1, h.2.1⟩
        have h2 : ¬ (q.u = q.w ∧ q.u.1 ∈ fixed ∧ q.u ∈ l ++ [v]) := fun h => hc ⟨h.1, h.2.1⟩
        rw [if_neg h1, if_neg h2]

theorem fillHessian_eq (fixed : List Nat) (verts : List (Nat × Nat)) (h : Dict (Nat × Nat) (Block ℝ)) :
    fillHessian fixed verts h = verts.foldl (vstep fixed) (fillHessianDict fixed h) := rfl

/-- **Entries of the assembled Hessian.** -/
theorem fillHessian_spec {verts : List (Nat × Nat)} (hl : Layout verts) (fixed : List Nat) (q : Pos verts)
    (h : Dict (Nat × Nat) (Block ℝ)) (hwf : HWF verts h) (hnd : (h.map (·.1)).Nodup) :
    fillHessian fixed verts h (q.u.1 + q.s) (q.w.1 + q.t) =
      if q.u.1 ∈ fixed ∨ q.w.1 ∈ fixed then (if q.u.1 = q.w.1 then eyeR q.s q.t else 0)
      else (if q.u.1 ≤ q.w.1 then hval h (q.u.1, q.w.1) q.s q.t else hval h (q.w.1, q.u.1) q.t q.s) := by
  rw [fillHessian_eq, fillFixed_at hl fixed q verts _ (fun v hv => hv), fillHessianDict_eq, fillDict_at hl fixed q h _ hwf hnd]
  have huw : q.u.1 = q.w.1 ↔ q.u = q.w := ⟨fun e => hl.index_unique _ q.hu _ q.hw e, fun e => by rw [e]⟩
  by_cases hfix : q.u.1 ∈ fixed ∨ q.w.1 ∈ fixed
  · simp only [hfix, if_true]
    by_cases he : q.u.1 = q.w.1
    · have he' : q.u = q.w := huw.mp he
      have hfu : q.u.1 ∈ fixed := by rcases hfix with h | h; exact h; rw [he]; exact h
      simp [he, he', hfu, q.hu]
      rw [← he'] ; simp [hfu, q.hu]
    · have he' : ¬ (q.u = q.w) := fun e => he (huw.mpr e)
      simp only [he', false_and, if_false, he]
      cases h.get? (normKey (q.u.1, q.w.1)) <;> simp [ownValue, hfix, he]
  · have hnf : ¬ (q.u = q.w ∧ q.u.1 ∈ fixed ∧ q.u ∈ verts) := fun hh => hfix (Or.inl hh.2.1)
    simp only [hnf, if_false, hfix]
    unfold hval normKey
    by_cases hle : q.u.1 ≤ q.w.1
    · simp only [hle, if_true]
      cases h.get? (q.u.1, q.w.1) <;> simp [ownValue, hfix, hle]
    · simp only [hle, if_false]
      cases h.get? (q.w.1, q.u.1) <;> simp [ownValue, hfix, hle]

end
end GraphSlam.Props.C03
