import GraphSlam.Props.C03.Accumulate
import Mathlib.Algebra.BigOperators.Group.Finset.Basic
import Mathlib.Algebra.BigOperators.Ring.Finset

/-!
# C03 — what one edge contributes: `J̄ᵀ Ω J̄` and `J̄ᵀ Ω e`, block by block

For an edge whose vertices are pairwise distinct and whose information matrix is symmetric, the contributions that
`calc_chi2_gradient_hessian` lists for position pairs `i ≤ j` (transposed into the upper triangle by `update`) add up,
under the key `(a, b)`, `a ≤ b`, to `Σ_{x, y vertices of the edge, g_x = a, g_y = b} J_xᵀ Ω J_y` — the sum over
**ordered** pairs, i.e. exactly the `(a, b)` block of `J̄ᵀ Ω J̄` with `J̄` the Jacobian scattered at the vertices' offsets.
Both hypotheses are forced by the proof: without symmetry the transposed contribution is `J_yᵀ Ωᵀ J_x`, and for an edge
naming the same vertex twice the code adds `J₀ᵀΩJ₁` but not `J₁ᵀΩJ₀` (`self_loop_counterexample`).
-/

namespace GraphSlam.Props.C03
open GraphSlam GraphSlam.Model
noncomputable section

theorem sumTo_eq_sum (n : Nat) (f : Nat → ℝ) : sumTo n f = ∑ k ∈ Finset.range n, f k := by
  unfold sumTo
  have gen : ∀ (a : ℝ), (List.range n).foldl (fun acc k => acc + f k) a = a + ∑ k ∈ Finset.range n, f k := by
    induction n with
    | zero => intro a; simp
    | succ n ih => intro a; rw [List.range_succ, List.foldl_append, ih, Finset.sum_range_succ]; simp; ring
  rw [gen]; simp

/-- entry `(s, t)` of `J_xᵀ Ω J_y` -/
def pairEntry (e : EdgeLin ℝ) (x y : Nat × Nat × (Nat → Nat → ℝ)) (s t : Nat) : ℝ :=
  (hessContrib e.m e.info x.2.1 x.2.2 y.2.1 y.2.2).get s t

theorem pairEntry_eq (e : EdgeLin ℝ) (x y : Nat × Nat × (Nat → Nat → ℝ)) (s t : Nat) :
    pairEntry e x y s t = ∑ b ∈ Finset.range e.m, ∑ a ∈ Finset.range e.m, x.2.2 a s * e.info a b * y.2.2 b t := by
  simp only [pairEntry, hessContrib, sumTo_eq_sum, Finset.sum_mul]

/-- `(J_xᵀ Ω J_y)ᵀ = J_yᵀ Ω J_x` for symmetric `Ω` -/
theorem pairEntry_symm (e : EdgeLin ℝ) (hsym : ∀ a b, e.info a b = e.info b a)
    (x y : Nat × Nat × (Nat → Nat → ℝ)) (s t : Nat) : pairEntry e x y t s = pairEntry e y x s t := by
  rw [pairEntry_eq, pairEntry_eq, Finset.sum_comm]
  apply Finset.sum_congr rfl; intro a _
  apply Finset.sum_congr rfl; intro b _
  rw [hsym b a]; ring

/-- the summand of `accumulate_hess_spec` for one listed pair -/
def listed (e : EdgeLin ℝ) (k : Nat × Nat) (s t : Nat) (p : (Nat × Nat × (Nat → Nat → ℝ)) × (Nat × Nat × (Nat → Nat → ℝ))) : ℝ :=
  if normKey (p.1.1, p.2.1) = k then (if p.1.1 ≤ p.2.1 then pairEntry e p.1 p.2 s t else pairEntry e p.1 p.2 t s) else 0

theorem contribs_hess_map (e : EdgeLin ℝ) (k : Nat × Nat) (s t : Nat) :
    ((contribs e).hess.map fun c => if normKey c.1 = k then normEntry c s t else 0)
      = (pairsLE e.verts).map (listed e k s t) := by
  simp only [contribs, List.map_map]
  apply List.map_congr_left
  intro p _
  obtain ⟨⟨gi, di, Ji⟩, ⟨gj, dj, Jj⟩⟩ := p
  simp [listed, normEntry, pairEntry, Function.comp]

/-- ordered-pair summand -/
def ordered (e : EdgeLin ℝ) (a b : Nat) (s t : Nat) (x y : Nat × Nat × (Nat → Nat → ℝ)) : ℝ :=
  if x.1 = a ∧ y.1 = b then pairEntry e x y s t else 0

theorem listed_diag (e : EdgeLin ℝ) (a b s t : Nat) (x : Nat × Nat × (Nat → Nat → ℝ)) :
    listed e (a, b) s t (x, x) = ordered e a b s t x x := by
  simp only [listed, ordered, normKey, le_refl, if_true, Prod.mk.injEq]

theorem listed_offdiag (e : EdgeLin ℝ) (hsym : ∀ a b, e.info a b = e.info b a) (a b s t : Nat) (hab : a ≤ b)
    (x y : Nat × Nat × (Nat → Nat → ℝ)) (hne : x.1 ≠ y.1) :
    listed e (a, b) s t (x, y) = ordered e a b s t x y + ordered e a b s t y x := by
  simp only [listed, ordered, normKey]
  by_cases hle : x.1 ≤ y.1
  · simp only [hle, if_true, Prod.mk.injEq]
    have h2 : ¬ (y.1 = a ∧ x.1 = b) := by rintro ⟨h1, h2⟩; apply hne; omega
    simp [h2]
  · simp only [hle, if_false, Prod.mk.injEq]
    have h1 : ¬ (x.1 = a ∧ y.1 = b) := by rintro ⟨h1, h2⟩; omega
    simp only [h1, if_false, zero_add]
    by_cases h : y.1 = a ∧ x.1 = b
    · simp only [h, and_self, if_true]; exact pairEntry_symm e hsym x y s t
    · simp [h]

/-- **One edge's listed contributions = the block of `J̄ᵀ Ω J̄`.** -/
theorem edge_hess_sum (e : EdgeLin ℝ) (hsym : ∀ a b, e.info a b = e.info b a)
    (hdist : (e.verts.map (·.1)).Nodup) (a b : Nat) (hab : a ≤ b) (s t : Nat) :
    ((contribs e).hess.map fun c => if normKey c.1 = (a, b) then normEntry c s t else 0).sum
      = (e.verts.map fun x => (e.verts.map fun y => ordered e a b s t x y).sum).sum := by
  rw [contribs_hess_map]
  generalize e.verts = vs at hdist
  induction vs with
  | nil => simp [pairsLE]
  | cons x xs ih =>
    have hx : ∀ y ∈ xs, x.1 ≠ y.1 := by
      intro y hy h
      have := (List.nodup_cons.mp hdist).1
      apply this
      show x.1 ∈ List.map (fun x => x.1) xs
      rw [h]; exact List.mem_map_of_mem (f := fun x => x.1) hy
    have hnd : (xs.map (·.1)).Nodup := (List.nodup_cons.mp hdist).2
    simp only [pairsLE, List.map_cons, List.map_append, List.sum_cons, List.sum_append, List.map_map]
    rw [ih hnd, listed_diag]
    have h1 : (xs.map ((listed e (a, b) s t) ∘ fun y => (x, y))).sum
        = (xs.map fun y => ordered e a b s t x y).sum + (xs.map fun y => ordered e a b s t y x).sum := by
      rw [← List.sum_map_add]
      apply congrArg
      apply List.map_congr_left
      intro y hy
      exact listed_offdiag e hsym a b s t hab x y (hx y hy)
    rw [h1]
    have h2 : (xs.map fun x' => ordered e a b s t x' x + (xs.map fun y => ordered e a b s t x' y).sum).sum
        = (xs.map fun y => ordered e a b s t y x).sum + (xs.map fun x' => (xs.map fun y => ordered e a b s t x' y).sum).sum := by
      rw [← List.sum_map_add]
    rw [h2]; ring

/-- the gradient side needs no hypothesis: the listed contributions keyed `a` are `Σ_{x, g_x = a} (eᵀΩ)J_x` -/
theorem edge_grad_sum (e : EdgeLin ℝ) (a t : Nat) :
    ((contribs e).grads.map fun c => if c.1 = a then c.2.get t else 0).sum
      = (e.verts.map fun x => if x.1 = a then (gradContrib e.m e.err e.info x.2.1 x.2.2).get t else 0).sum := by
  simp only [contribs, List.map_map]
  apply congrArg
  apply List.map_congr_left
  intro x _
  obtain ⟨g, d, J⟩ := x
  rfl

/-- **Self-loop counterexample** (why `Nodup` is needed; such edges are outside C03's quantifier): a 1-dimensional edge
    naming vertex `0` twice with Jacobians `[1]` and `[2]`, `Ω = [1]`.  `J̄ = [3]`, so `J̄ᵀΩJ̄ = 9`, but the dictionary
    holds `1·1 + 1·2 + 2·2 = 7`. -/
theorem self_loop_counterexample :
    let e : EdgeLin ℝ := { m := 1, chi2 := 0, err := fun _ => 0, info := fun _ _ => 1,
                           verts := [(0, 1, fun _ _ => 1), (0, 1, fun _ _ => 2)] }
    hval (accumulate [e]).h (0, 0) 0 0 = 7 ∧
      (e.verts.map fun x => (e.verts.map fun y => ordered e 0 0 0 0 x y).sum).sum = 9 := by
  intro e
  constructor
  · rw [accumulate_hess_spec]
    simp [e, contribs, pairsLE, normKey, normEntry, hessContrib, sumTo]
    norm_num
  · simp [e, ordered, pairEntry, hessContrib, sumTo]
    norm_num

end
end GraphSlam.Props.C03
