import GraphSlam.Props.C03.Fill

/-!
# C03 — the assembled system is the Gauss–Newton normal equations (and C06: fixed rows are identity / zero)

`assembled_hessian` and `assembled_gradient` put the pieces together: for **every** edge list (parallel edges, either
vertex order, mixed dimensions, n-ary edges), every layout and every set of fixed vertices, the dense `H` and `b` the code
hands to the solver satisfy, for vertices `u`, `w` and local coordinates `s`, `t`:

* `H[g_u+s, g_w+t] = Σ_e Σ_{x,y ∈ e} [g_x = g_u ∧ g_y = g_w] (J_xᵀ Ω_e J_y)[s,t]` when `u`, `w` are free — the `(u, w)` block
  of `Σ_e J̄_eᵀ Ω_e J̄_e`, `J̄_e` being the edge Jacobians scattered at the vertices' offsets;
* `b[g_u+s] = Σ_e Σ_{x ∈ e} [g_x = g_u] ((e_eᵀ Ω_e) J_x)[s]` when `u` is free — the `u` block of `Σ_e J̄_eᵀ Ω_e e_e`;
* identity block / zero off-diagonal blocks / zero gradient for fixed vertices (whether or not an edge touches them).

Hypotheses (all forced by the proofs): symmetric information matrices, pairwise distinct vertices within one edge, edges
refer to layout vertices with the layout's dimensions.
-/

namespace GraphSlam.Props.C03
open GraphSlam GraphSlam.Model
set_option linter.unusedVariables false
noncomputable section

theorem sum_sum_comm {α : Type} (l : List α) (f : α → α → ℝ) :
    (l.map fun x => (l.map fun y => f x y).sum).sum = (l.map fun y => (l.map fun x => f x y).sum).sum := by
  have gen : ∀ (l1 l2 : List α), (l1.map fun x => (l2.map fun y => f x y).sum).sum
      = (l2.map fun y => (l1.map fun x => f x y).sum).sum := by
    intro l1
    induction l1 with
    | nil => intro l2; simp
    | cons a l1 ih =>
      intro l2
      simp only [List.map_cons, List.sum_cons, ih]
      rw [← List.sum_map_add]
  exact gen l l

/-- the ordered-pair sum is symmetric under exchanging the two vertices together with the coordinates -/
theorem ordered_sum_swap (e : EdgeLin ℝ) (hsym : ∀ a b, e.info a b = e.info b a) (a b s t : Nat) :
    (e.verts.map fun x => (e.verts.map fun y => ordered e a b s t x y).sum).sum
      = (e.verts.map fun x => (e.verts.map fun y => ordered e b a t s x y).sum).sum := by
  rw [sum_sum_comm e.verts (fun x y => ordered e b a t s x y)]
  apply congrArg; apply List.map_congr_left; intro x _
  apply congrArg; apply List.map_congr_left; intro y _
  simp only [ordered]
  by_cases h : x.1 = a ∧ y.1 = b
  · have h' : y.1 = b ∧ x.1 = a := ⟨h.2, h.1⟩
    simp only [h, h', and_self, if_true]
    exact (pairEntry_symm e hsym y x s t).symm
  · have h' : ¬ (y.1 = b ∧ x.1 = a) := fun hh => h ⟨hh.2, hh.1⟩
    simp [h, h']

/-- **The assembled Hessian.** -/
theorem assembled_hessian {verts : List (Nat × Nat)} (hl : Layout verts) (fixed : List Nat) (es : List (EdgeLin ℝ))
    (hes : EdgesWF verts es) (hsym : ∀ e ∈ es, ∀ a b, e.info a b = e.info b a)
    (hdist : ∀ e ∈ es, (e.verts.map (·.1)).Nodup) (q : Pos verts) :
    fillHessian fixed verts (accumulate es).h (q.u.1 + q.s) (q.w.1 + q.t) =
      if q.u.1 ∈ fixed ∨ q.w.1 ∈ fixed then (if q.u.1 = q.w.1 then eyeR q.s q.t else 0)
      else (es.map fun e => (e.verts.map fun x => (e.verts.map fun y => ordered e q.u.1 q.w.1 q.s q.t x y).sum).sum).sum := by
  obtain ⟨hwf, hnd, _, _⟩ := accumulate_wf verts hl es hes
  rw [fillHessian_spec hl fixed q _ hwf hnd]
  by_cases hfix : q.u.1 ∈ fixed ∨ q.w.1 ∈ fixed
  · simp [hfix]
  · simp only [hfix, if_false]
    by_cases hle : q.u.1 ≤ q.w.1
    · simp only [hle, if_true]
      rw [accumulate_hess_spec]
      apply congrArg; apply List.map_congr_left; intro e he
      exact edge_hess_sum e (hsym e he) (hdist e he) _ _ hle _ _
    · simp only [hle, if_false]
      rw [accumulate_hess_spec]
      apply congrArg; apply List.map_congr_left; intro e he
      rw [edge_hess_sum e (hsym e he) (hdist e he) _ _ (by omega) _ _]
      exact (ordered_sum_swap e (hsym e he) _ _ _ _).symm

/-! ### gradient -/

def gstep (fixed : List Nat) (vec : Nat → ℝ) (p : Nat × Seg ℝ) : Nat → ℝ :=
  if p.1 ∈ fixed then vec else fun i => if p.1 ≤ i ∧ i < p.1 + p.2.len then vec i + p.2.get (i - p.1) else vec i

theorem fillGradient_eq (fixed : List Nat) (g : Dict Nat (Seg ℝ)) :
    fillGradient fixed g = g.foldl (gstep fixed) (fun _ => 0) := by
  unfold fillGradient gstep
  simp only [real_ofInt, Int.cast_zero]

theorem fillGrad_at {verts : List (Nat × Nat)} (hl : Layout verts) (fixed : List Nat) (u : Nat × Nat) (hu : u ∈ verts)
    (s : Nat) (hs : s < u.2) :
    ∀ (l : Dict Nat (Seg ℝ)) (v0 : Nat → ℝ), GWF verts l → (l.map (·.1)).Nodup →
      l.foldl (gstep fixed) v0 (u.1 + s) =
        v0 (u.1 + s) + (match Dict.get? l u.1 with
                        | none => 0
                        | some S => if u.1 ∈ fixed then 0 else S.get s) := by
  intro l
  induction l with
  | nil => intro v0 _ _; simp [Dict.get?]
  | cons p l ih =>
    intro v0 hwf hnd
    rw [List.foldl_cons]
    have hwf' : GWF verts l := fun x hx => hwf x (by simp [hx])
    have hnd' : (l.map (·.1)).Nodup := (List.nodup_cons.mp (by simpa using hnd)).2
    have hnotin : p.1 ∉ l.map (·.1) := (List.nodup_cons.mp (by simpa using hnd)).1
    rw [ih _ hwf' hnd']
    have hp : (p.1, p.2.len) ∈ verts := hwf p (by simp)
    by_cases hk : p.1 = u.1
    · have hnone : Dict.get? l u.1 = none := by
        rw [← hk]
        cases hg : Dict.get? l p.1 with
        | none => rfl
        | some v => exact absurd (List.mem_map_of_mem (f := (·.1)) (mem_of_get?_eq_some l p.1 v hg)) hnotin
      have hsome : Dict.get? (p :: l) u.1 = some p.2 := by simp [Dict.get?, List.find?, hk]
      rw [hnone, hsome]
      have hlen : p.2.len = u.2 := by
        have := hl.index_unique _ hp _ hu hk; simpa using congrArg Prod.snd this
      unfold gstep
      by_cases hf : p.1 ∈ fixed
      · have hf' : u.1 ∈ fixed := hk ▸ hf
        simp [hf, hf']
      · have hf' : u.1 ∉ fixed := fun h => hf (hk ▸ h)
        simp only [hf, hf', if_false]
        have hin : p.1 ≤ u.1 + s ∧ u.1 + s < p.1 + p.2.len := by omega
        simp only [hin, and_self, if_true, add_zero]
        have : u.1 + s - p.1 = s := by omega
        rw [this]
    · have hsame : Dict.get? (p :: l) u.1 = Dict.get? l u.1 := by simp [Dict.get?, List.find?, hk]
      rw [hsame]
      congr 1
      unfold gstep
      by_cases hf : p.1 ∈ fixed
      · simp [hf]
      · simp only [hf, if_false]
        have hnot : ¬ (p.1 ≤ u.1 + s ∧ u.1 + s < p.1 + p.2.len) := by
          intro hin
          have h1 : InIv (p.1, p.2.len) (u.1 + s) := hin
          have h2 : InIv u (u.1 + s) := by unfold InIv; omega
          have := hl.disjoint _ hp _ hu _ h1 h2
          exact hk (by simpa using congrArg Prod.fst this)
        simp [hnot]

/-- **The assembled gradient.** -/
theorem assembled_gradient {verts : List (Nat × Nat)} (hl : Layout verts) (fixed : List Nat) (es : List (EdgeLin ℝ))
    (hes : EdgesWF verts es) (u : Nat × Nat) (hu : u ∈ verts) (s : Nat) (hs : s < u.2) :
    fillGradient fixed (accumulate es).g (u.1 + s) =
      if u.1 ∈ fixed then 0
      else (es.map fun e => (e.verts.map fun x =>
              if x.1 = u.1 then (gradContrib e.m e.err e.info x.2.1 x.2.2).get s else 0).sum).sum := by
  obtain ⟨_, _, gwf, gnd⟩ := accumulate_wf verts hl es hes
  rw [fillGradient_eq, fillGrad_at hl fixed u hu s hs _ _ gwf gnd]
  simp only [zero_add]
  have hspec := accumulate_grad_spec es u.1 s
  unfold gval at hspec
  by_cases hf : u.1 ∈ fixed
  · simp only [hf, if_true]; cases Dict.get? (accumulate es).g u.1 <;> simp
  · simp only [hf, if_false]
    have : (match Dict.get? (accumulate es).g u.1 with | none => (0 : ℝ) | some S => S.get s)
        = (es.map fun e => ((contribs e).grads.map fun c => if c.1 = u.1 then c.2.get s else 0).sum).sum := by
      rw [← hspec]; cases Dict.get? (accumulate es).g u.1 <;> rfl
    rw [this]
    apply congrArg; apply List.map_congr_left; intro e _
    exact edge_grad_sum e u.1 s

/-- C06: with the rows and columns of fixed vertices replaced by identity / zero and their gradient entries zero,
    any solution of `H dx = -b` has `dx = 0` on every fixed vertex (so even without the skip in the update loop a fixed
    vertex would receive a zero increment), and the free unknowns solve the reduced system: the equation of a free row
    involves no fixed column. -/
theorem fixed_column_zero {verts : List (Nat × Nat)} (hl : Layout verts) (fixed : List Nat) (es : List (EdgeLin ℝ))
    (hes : EdgesWF verts es) (hsym : ∀ e ∈ es, ∀ a b, e.info a b = e.info b a)
    (hdist : ∀ e ∈ es, (e.verts.map (·.1)).Nodup) (q : Pos verts) (hne : q.u.1 ≠ q.w.1)
    (hf : q.u.1 ∈ fixed ∨ q.w.1 ∈ fixed) :
    fillHessian fixed verts (accumulate es).h (q.u.1 + q.s) (q.w.1 + q.t) = 0 := by
  rw [assembled_hessian hl fixed es hes hsym hdist q]; simp [hf, hne]

theorem fixed_diagonal_identity {verts : List (Nat × Nat)} (hl : Layout verts) (fixed : List Nat) (es : List (EdgeLin ℝ))
    (hes : EdgesWF verts es) (hsym : ∀ e ∈ es, ∀ a b, e.info a b = e.info b a)
    (hdist : ∀ e ∈ es, (e.verts.map (·.1)).Nodup) (u : Nat × Nat) (hu : u ∈ verts) (hf : u.1 ∈ fixed)
    (s t : Nat) (hs : s < u.2) (ht : t < u.2) :
    fillHessian fixed verts (accumulate es).h (u.1 + s) (u.1 + t) = if s = t then 1 else 0 := by
  have := assembled_hessian hl fixed es hes hsym hdist ⟨u, u, s, t, hu, hu, hs, ht⟩
  simp only at this
  rw [this]; simp [hf, eyeR]

end
end GraphSlam.Props.C03
