import GraphSlam.Props.C09.SE3
import GraphSlam.Props.C10.SE3Boxplus

/-!
# C11 for `PoseSE3` — unit quaternions are preserved by every operation, for histories of any length

(The angle-range half of C11 is `PoseSE2_*_inRange` / `_congr` in `Props/C09/SE2.lean`.)
Exact real arithmetic: "up to accumulated rounding" is measured by the harness, not proved.
-/

namespace GraphSlam.Props.C11
open GraphSlam GraphSlam.Gen GraphSlam.Props.C09 GraphSlam.Props.C10
set_option linter.unusedSimpArgs false
set_option maxHeartbeats 4000000

theorem lift_unit (δ : Fin 6 → ℝ) (h : vnorm2 δ ≤ 1) : Unit4 (lift δ) := by
  unfold Unit4
  simp only [lift]
  have hs : Real.sqrt (1 - vnorm2 δ) ^ 2 = 1 - vnorm2 δ := Real.sq_sqrt (by linarith)
  rw [hs]; unfold vnorm2; ring

/-- box-plus keeps the quaternion unit for **every** increment (both branches of se3.py:182-186) -/
theorem PoseSE3_unit_boxplus (p : Fin 7 → ℝ) (δ : Fin 6 → ℝ) (hp : Unit4 p) : Unit4 (PoseSE3.boxplus p δ) := by
  by_cases h : vnorm2 δ ≤ 1
  · rw [PoseSE3_boxplus_eq_add_lift p δ h]
    exact PoseSE3_unit_add p _ hp (lift_unit δ h)
  · rw [PoseSE3_boxplus_big p δ (lt_of_not_ge h)]
    apply PoseSE3_unit_add p _ hp
    unfold Unit4; norm_num

theorem PoseSE3_unit_copy (p : Fin 7 → ℝ) (hp : Unit4 p) : Unit4 (PoseSE3.copy p) := by
  have h := PoseSE3_qnorm2_copy p
  unfold Unit4 at *; unfold qnorm2 at h; rw [h, hp]

/-- poses reachable from unit-quaternion operands by any finite sequence of the public operations -/
inductive Reach : (Fin 7 → ℝ) → Prop
  | given (p : Fin 7 → ℝ) (h : Unit4 p) : Reach p
  | identity : Reach (PoseSE3.identity (E := ℝ))
  | add {p q} : Reach p → Reach q → Reach (PoseSE3.add p q)
  | sub {p q} : Reach p → Reach q → Reach (PoseSE3.sub p q)
  | inverse {p} : Reach p → Reach (PoseSE3.inverse p)
  | copy {p} : Reach p → Reach (PoseSE3.copy p)
  | boxplus {p} (δ : Fin 6 → ℝ) : Reach p → Reach (PoseSE3.boxplus p δ)

/-- **any operation history, of any length, ends in a unit quaternion** -/
theorem chain_unit {p : Fin 7 → ℝ} (h : Reach p) : Unit4 p := by
  induction h with
  | given p h => exact h
  | identity => exact PoseSE3_unit_identity
  | add _ _ ihp ihq => exact PoseSE3_unit_add _ _ ihp ihq
  | sub _ _ ihp ihq => exact PoseSE3_unit_sub _ _ ihp ihq
  | inverse _ ih => exact PoseSE3_unit_inverse _ ih
  | copy _ ih => exact PoseSE3_unit_copy _ ih
  | boxplus δ _ ih => exact PoseSE3_unit_boxplus _ δ ih

/-- a vertex that is updated `n` times by box-plus with arbitrary increments (whatever the solver returned)
    still has a unit quaternion: the per-vertex content of "after any number of optimizer iterations" -/
theorem iterate_boxplus_unit (p : Fin 7 → ℝ) (hp : Unit4 p) (δs : List (Fin 6 → ℝ)) :
    Unit4 (δs.foldl (fun q δ => PoseSE3.boxplus q δ) p) := by
  induction δs generalizing p with
  | nil => exact hp
  | cons δ δs ih => exact ih _ (PoseSE3_unit_boxplus p δ hp)

/-! ### `normalize` -/

theorem normalize_translation (p : Fin 7 → ℝ) (i : Fin 3) :
    PoseSE3.normalize p (Fin.castLE (by omega) i) = p (Fin.castLE (by omega) i) := by
  fin_cases i <;> rfl

/-- `normalize()` of a pose with non-zero quaternion: unit norm -/
theorem normalize_unit (p : Fin 7 → ℝ) (h : qnorm2 p ≠ 0) : Unit4 (PoseSE3.normalize p) := by
  have hN : 0 < qnorm2 p := lt_of_le_of_ne (by unfold qnorm2; positivity) (Ne.symm h)
  have hN' : 0 < p 3 * p 3 + p 4 * p 4 + p 5 * p 5 + p 6 * p 6 := by unfold qnorm2 at hN; nlinarith
  have hs := Real.sq_sqrt hN'.le
  have hs0 : Real.sqrt (p 3 * p 3 + p 4 * p 4 + p 5 * p 5 + p 6 * p 6) ≠ 0 := (Real.sqrt_pos.mpr hN').ne'
  unfold Unit4
  simp only [PoseSE3.normalize, real_div, real_sqrt, real_ge, real_ofInt]
  generalize Real.sqrt (p 3 * p 3 + p 4 * p 4 + p 5 * p 5 + p 6 * p 6) = S at hs hs0 ⊢
  by_cases hw : p 6 ≥ ((0 : ℤ) : ℝ)
  · simp only [hw, if_true]
    field_simp
    push_cast
    first | linear_combination (-1 : ℝ) * hs | linear_combination hs
  · simp only [hw, if_false]
    field_simp
    push_cast
    first | linear_combination (-1 : ℝ) * hs | linear_combination hs

/-- … and non-negative scalar part -/
theorem normalize_w_nonneg (p : Fin 7 → ℝ) (h : qnorm2 p ≠ 0) : 0 ≤ PoseSE3.normalize p 6 := by
  have hN : 0 < qnorm2 p := lt_of_le_of_ne (by unfold qnorm2; positivity) (Ne.symm h)
  have hN' : 0 < p 3 * p 3 + p 4 * p 4 + p 5 * p 5 + p 6 * p 6 := by unfold qnorm2 at hN; nlinarith
  have hs0 : 0 < Real.sqrt (p 3 * p 3 + p 4 * p 4 + p 5 * p 5 + p 6 * p 6) := Real.sqrt_pos.mpr hN'
  simp only [PoseSE3.normalize, real_div, real_sqrt, real_ge, real_ofInt]
  by_cases hw : p 6 ≥ ((0 : ℤ) : ℝ)
  · simp only [hw, if_true]
    push_cast at hw ⊢
    apply div_nonneg hw; simp [hs0.le]
  · simp only [hw, if_false]
    push_cast at hw ⊢
    have : p 6 ≤ 0 := le_of_lt (not_le.mp hw)
    apply div_nonneg_of_nonpos this
    nlinarith

/-- … and the same rotation: the rotation block of `to_matrix` is the original one divided by `|q|²`
    (the rotation a non-unit quaternion represents), whichever sign was chosen -/
theorem normalize_same_rotation (p : Fin 7 → ℝ) (h : qnorm2 p ≠ 0) (i j : Fin 3) :
    PoseSE3.to_matrix (PoseSE3.normalize p) (Fin.castLE (by omega) i) (Fin.castLE (by omega) j)
      = PoseSE3.to_matrix p (Fin.castLE (by omega) i) (Fin.castLE (by omega) j) / qnorm2 p := by
  have hN : 0 < qnorm2 p := lt_of_le_of_ne (by unfold qnorm2; positivity) (Ne.symm h)
  have hN' : 0 < p 3 * p 3 + p 4 * p 4 + p 5 * p 5 + p 6 * p 6 := by unfold qnorm2 at hN; nlinarith
  have hs := Real.sq_sqrt hN'.le
  have hs0 : Real.sqrt (p 3 * p 3 + p 4 * p 4 + p 5 * p 5 + p 6 * p 6) ≠ 0 := (Real.sqrt_pos.mpr hN').ne'
  have hq : qnorm2 p = Real.sqrt (p 3 * p 3 + p 4 * p 4 + p 5 * p 5 + p 6 * p 6) ^ 2 := by
    rw [hs]; unfold qnorm2; ring
  rw [hq]
  by_cases hw : p 6 ≥ ((0 : ℤ) : ℝ) <;>
    fin_cases i <;> fin_cases j <;>
      simp only [Fin.castLE, PoseSE3.to_matrix, PoseSE3.normalize, real_div, real_sqrt, real_ge, real_ofInt, hw,
        if_true, if_false, Fin.isValue, Fin.zero_eta, Fin.mk_one, Fin.reduceFinMk] <;>
      field_simp <;> push_cast <;> ring

end GraphSlam.Props.C11
