import GraphSlam.Props.C11.SE3

/-!
# C11 — "unit quaternion up to accumulated rounding", under the standard model of rounding error

`Props/C11/SE3.lean` proves in exact real arithmetic that every `PoseSE3` operation maps unit quaternions to unit
quaternions.  Here the *rounding* half of the clause is turned into theorems over `ℝ`: each computed operation is allowed
to return a **perturbation** of the exact result of the generated definition (`PoseSE3.add`, `.sub`, `.inverse`,
`.boxplus`, `.normalize`, …), of relative size `η` in the quaternion part, and the drift of the quaternion norm after
any history of such operations is bounded.

The hypothesis "the computed quaternion `ĉ` of `p ⊕ q` satisfies `‖ĉ − c‖ ≤ η ‖p‖ ‖q‖`" is what componentwise rounding
gives: each of the four quaternion components of `PoseSE3.add` (se3.py:166-169) is a sum of four products
`± p_a q_b`; with unit round-off `u = 2⁻⁵³` every product carries `(1+δ)`, every sum/difference another `(1+δ)`,
`|δ| ≤ u`, so component `i` is off by at most `γ₄ Σ_j |p_{a(i,j)}| |q_{b(i,j)}| ≤ γ₄ ‖p‖ ‖q‖` (Cauchy–Schwarz) with
`γ₄ = (1+u)⁴ − 1 ≈ 4u`; four components give `η = 2 γ₄ ≈ 8 · 2⁻⁵³`.  That derivation is itself proved, for the
generated code evaluated with a rounding after every operation, in `Props/C11/RoundingStd.lean`; in *this* file `η` is
a hypothesis and IEEE arithmetic is not modelled.

Contents
* (a) `qn_add`, `qn_sub`, `qn_inverse`, `qn_copy`, `qn_identity`, `qn_boxplus`, `qn_normalize`: the quaternion norm of the
  exact result, for **all** real operands;
* (b) `add_computed_bounds` (and `sub_`, `inverse_`, `boxplus_`): one computed operation;
* (c) `ReachApprox`, `chain_bounds`, `chain_linear`, `chain_linear_unit`: any history of computed operations;
* (d) `boxplus_eq_add_increment`, `increment_unit`: the optimizer update is composition with an exactly unit
  increment in **both** branches of se3.py:181-186; `iterate_boxplus_bounds`, `iterate_boxplus_linear`: a vertex after
  `n` optimizer iterations; `increment_computed`: the increment whose scalar part was itself computed with error;
* (e) `normalize_computed_bounds`, `ReachApprox.normalize_computed`: `normalize()` resets the drift.
-/

namespace GraphSlam.Props.C11
open GraphSlam GraphSlam.Gen GraphSlam.Props.C09 GraphSlam.Props.C10
set_option linter.unusedSimpArgs false
set_option linter.unusedVariables false

/-! ### norm and distance of the quaternion part `p 3 … p 6` -/

/-- Euclidean norm of the quaternion part `[qx qy qz qw] = p 3 … p 6` of a 7-vector -/
noncomputable def qn (p : Fin 7 → ℝ) : ℝ := Real.sqrt (qnorm2 p)

/-- Euclidean distance between the quaternion parts of two 7-vectors -/
noncomputable def qdist (a b : Fin 7 → ℝ) : ℝ :=
  Real.sqrt ((a 3 - b 3) ^ 2 + (a 4 - b 4) ^ 2 + (a 5 - b 5) ^ 2 + (a 6 - b 6) ^ 2)

theorem qnorm2_nonneg (p : Fin 7 → ℝ) : 0 ≤ qnorm2 p := by unfold qnorm2; positivity

theorem qn_nonneg (p : Fin 7 → ℝ) : 0 ≤ qn p := Real.sqrt_nonneg _

theorem qn_sq (p : Fin 7 → ℝ) : qn p ^ 2 = qnorm2 p := Real.sq_sqrt (qnorm2_nonneg p)

theorem qdist_nonneg (a b : Fin 7 → ℝ) : 0 ≤ qdist a b := Real.sqrt_nonneg _

theorem qdist_self (a : Fin 7 → ℝ) : qdist a a = 0 := by simp [qdist]

theorem qdist_comm (a b : Fin 7 → ℝ) : qdist a b = qdist b a := by
  unfold qdist; congr 1; ring

/-- `Unit4 p` (the exact invariant of `Props/C11/SE3.lean`) says `qn p = 1` -/
theorem qn_eq_one_iff (p : Fin 7 → ℝ) : qn p = 1 ↔ Unit4 p := by
  unfold qn Unit4; rw [Real.sqrt_eq_one]; rfl

theorem qn_of_unit {p : Fin 7 → ℝ} (h : Unit4 p) : qn p = 1 := (qn_eq_one_iff p).mpr h

/-- `qn` only looks at the quaternion part -/
theorem qn_congr {a b : Fin 7 → ℝ} (h3 : a 3 = b 3) (h4 : a 4 = b 4) (h5 : a 5 = b 5) (h6 : a 6 = b 6) :
    qn a = qn b := by
  unfold qn qnorm2; rw [h3, h4, h5, h6]

/-- `qdist` only looks at the quaternion parts -/
theorem qdist_congr_right {a b b' : Fin 7 → ℝ} (h3 : b 3 = b' 3) (h4 : b 4 = b' 4) (h5 : b 5 = b' 5)
    (h6 : b 6 = b' 6) : qdist a b = qdist a b' := by
  unfold qdist; rw [h3, h4, h5, h6]

theorem qdist_congr_left {a a' b : Fin 7 → ℝ} (h3 : a 3 = a' 3) (h4 : a 4 = a' 4) (h5 : a 5 = a' 5)
    (h6 : a 6 = a' 6) : qdist a b = qdist a' b := by
  unfold qdist; rw [h3, h4, h5, h6]

/-- Cauchy–Schwarz in `ℝ⁴`, as a polynomial inequality -/
theorem cauchy4 (x1 x2 x3 x4 y1 y2 y3 y4 : ℝ) :
    (x1 * y1 + x2 * y2 + x3 * y3 + x4 * y4) ^ 2
      ≤ (x1 ^ 2 + x2 ^ 2 + x3 ^ 2 + x4 ^ 2) * (y1 ^ 2 + y2 ^ 2 + y3 ^ 2 + y4 ^ 2) := by
  nlinarith [sq_nonneg (x1 * y2 - x2 * y1), sq_nonneg (x1 * y3 - x3 * y1), sq_nonneg (x1 * y4 - x4 * y1),
    sq_nonneg (x2 * y3 - x3 * y2), sq_nonneg (x2 * y4 - x4 * y2), sq_nonneg (x3 * y4 - x4 * y3)]

/-- triangle inequality in `ℝ⁴`, sums of squares under `Real.sqrt` -/
theorem sqrt4_triangle (x1 x2 x3 x4 y1 y2 y3 y4 : ℝ) :
    Real.sqrt ((x1 + y1) ^ 2 + (x2 + y2) ^ 2 + (x3 + y3) ^ 2 + (x4 + y4) ^ 2)
      ≤ Real.sqrt (x1 ^ 2 + x2 ^ 2 + x3 ^ 2 + x4 ^ 2) + Real.sqrt (y1 ^ 2 + y2 ^ 2 + y3 ^ 2 + y4 ^ 2) := by
  have hX : 0 ≤ x1 ^ 2 + x2 ^ 2 + x3 ^ 2 + x4 ^ 2 := by positivity
  have hY : 0 ≤ y1 ^ 2 + y2 ^ 2 + y3 ^ 2 + y4 ^ 2 := by positivity
  have hs : x1 * y1 + x2 * y2 + x3 * y3 + x4 * y4
      ≤ Real.sqrt (x1 ^ 2 + x2 ^ 2 + x3 ^ 2 + x4 ^ 2) * Real.sqrt (y1 ^ 2 + y2 ^ 2 + y3 ^ 2 + y4 ^ 2) := by
    rw [← Real.sqrt_mul hX]
    exact Real.le_sqrt_of_sq_le (cauchy4 x1 x2 x3 x4 y1 y2 y3 y4)
  rw [Real.sqrt_le_left (by positivity)]
  have h1 := Real.sq_sqrt hX
  have h2 := Real.sq_sqrt hY
  nlinarith [h1, h2, hs]

/-- `‖a‖ ≤ ‖b‖ + ‖a − b‖` for the quaternion parts -/
theorem qn_le_qn_add_qdist (a b : Fin 7 → ℝ) : qn a ≤ qn b + qdist a b := by
  have h := sqrt4_triangle (b 3) (b 4) (b 5) (b 6) (a 3 - b 3) (a 4 - b 4) (a 5 - b 5) (a 6 - b 6)
  have e : (b 3 + (a 3 - b 3)) ^ 2 + (b 4 + (a 4 - b 4)) ^ 2 + (b 5 + (a 5 - b 5)) ^ 2 + (b 6 + (a 6 - b 6)) ^ 2
      = qnorm2 a := by unfold qnorm2; ring
  rw [e] at h
  exact h

/-- reverse triangle inequality: the norm of the quaternion part is 1-Lipschitz -/
theorem abs_qn_sub_qn_le (a b : Fin 7 → ℝ) : |qn a - qn b| ≤ qdist a b := by
  rw [abs_le]
  have h1 := qn_le_qn_add_qdist a b
  have h2 := qn_le_qn_add_qdist b a
  rw [qdist_comm b a] at h2
  constructor <;> linarith

/-! ### (a) the exact quaternion norm of every operation, for all real operands -/

/-- the quaternion part of `PoseSE3.add p q` (se3.py:166-169) has norm `‖p‖ ‖q‖`, for every real `p`, `q` -/
theorem qn_add (p q : Fin 7 → ℝ) : qn (PoseSE3.add p q) = qn p * qn q := by
  unfold qn; rw [PoseSE3_qnorm2_add, Real.sqrt_mul (qnorm2_nonneg p)]

/-- the quaternion part of `PoseSE3.sub p q` (se3.py:226-229) has norm `‖p‖ ‖q‖`, for every real `p`, `q` -/
theorem qn_sub (p q : Fin 7 → ℝ) : qn (PoseSE3.sub p q) = qn p * qn q := by
  unfold qn; rw [PoseSE3_qnorm2_sub, Real.sqrt_mul (qnorm2_nonneg p)]

/-- `PoseSE3.inverse` (se3.py:131-144) keeps the quaternion norm, for every real `p` -/
theorem qn_inverse (p : Fin 7 → ℝ) : qn (PoseSE3.inverse p) = qn p := by
  unfold qn; rw [PoseSE3_qnorm2_inverse]

theorem qn_copy (p : Fin 7 → ℝ) : qn (PoseSE3.copy p) = qn p := by
  unfold qn; rw [PoseSE3_qnorm2_copy]

theorem qn_identity : qn (PoseSE3.identity (E := ℝ)) = 1 := by
  unfold qn; rw [PoseSE3_qnorm2_identity, Real.sqrt_one]

theorem qn_iadd (p q : Fin 7 → ℝ) : qn (PoseSE3.iadd p q) = qn p * qn q := qn_add p q

/-! ### (d) the optimizer update `p ⊞ δ` is composition with an exactly unit increment -/

/-- the increment pose that `PoseSE3.boxplus p δ` composes `p` with (se3.py:180-186): `(δ_t, δ_v, √(1-‖δ_v‖²))` when
    `‖δ_v‖ ≤ 1` (`lift δ`), and the pure translation `(δ_t, 0, 0, 0, 1)` in the documented fallback `‖δ_v‖ > 1` -/
noncomputable def increment (δ : Fin 6 → ℝ) : Fin 7 → ℝ :=
  if vnorm2 δ ≤ 1 then lift δ
  else fun i => match i with
    | 0 => δ 0 | 1 => δ 1 | 2 => δ 2 | 3 => 0 | 4 => 0 | 5 => 0 | 6 => 1

/-- both branches of the generated `PoseSE3.boxplus`: it **is** `PoseSE3.add p (increment δ)`, for every real `p`, `δ` -/
theorem boxplus_eq_add_increment (p : Fin 7 → ℝ) (δ : Fin 6 → ℝ) :
    PoseSE3.boxplus p δ = PoseSE3.add p (increment δ) := by
  unfold increment
  by_cases h : vnorm2 δ ≤ 1
  · rw [if_pos h]; exact PoseSE3_boxplus_eq_add_lift p δ h
  · rw [if_neg h]; exact PoseSE3_boxplus_big p δ (lt_of_not_ge h)

/-- main branch (`‖δ_v‖ ≤ 1`, se3.py:184-186): the increment is `(δ_t, δ_v, √(1-‖δ_v‖²))` -/
theorem increment_main (δ : Fin 6 → ℝ) (h : vnorm2 δ ≤ 1) : increment δ = lift δ := by
  unfold increment; rw [if_pos h]

/-- fallback branch (`‖δ_v‖ > 1`, se3.py:182-183): the rotation increment is dropped, the quaternion is `(0,0,0,1)` -/
theorem increment_fallback (δ : Fin 6 → ℝ) (h : 1 < vnorm2 δ) (i : Fin 7) :
    increment δ i = (match i with | 0 => δ 0 | 1 => δ 1 | 2 => δ 2 | 3 => 0 | 4 => 0 | 5 => 0 | 6 => 1 : ℝ) := by
  unfold increment; rw [if_neg (not_le.mpr h)]

/-- the increment quaternion is **exactly unit in both branches** -/
theorem increment_unit (δ : Fin 6 → ℝ) : Unit4 (increment δ) := by
  unfold increment
  by_cases h : vnorm2 δ ≤ 1
  · rw [if_pos h]; exact lift_unit δ h
  · rw [if_neg h]; unfold Unit4; norm_num

theorem qn_increment (δ : Fin 6 → ℝ) : qn (increment δ) = 1 := qn_of_unit (increment_unit δ)

/-- the generated `PoseSE3.boxplus` / `iadd_boxplus` (what `Vertex.update` calls) keeps the quaternion norm of **every**
    real 7-vector `p` exactly, for every increment `δ` (both branches) -/
theorem qn_boxplus (p : Fin 7 → ℝ) (δ : Fin 6 → ℝ) : qn (PoseSE3.boxplus p δ) = qn p := by
  rw [boxplus_eq_add_increment, qn_add, qn_increment, mul_one]

theorem qn_iadd_boxplus (p : Fin 7 → ℝ) (δ : Fin 6 → ℝ) : qn (PoseSE3.iadd_boxplus p δ) = qn p := qn_boxplus p δ

/-- `normalize()` (se3.py:46-49) of any 7-vector with non-zero quaternion has quaternion norm exactly 1 -/
theorem qn_normalize (p : Fin 7 → ℝ) (h : qnorm2 p ≠ 0) : qn (PoseSE3.normalize p) = 1 :=
  qn_of_unit (normalize_unit p h)

/-! ### (b) one computed operation -/

/-- generic step: a perturbation of relative size `η` changes the quaternion norm by a factor in `[1-η, 1+η]` -/
theorem perturb_bounds {c e : Fin 7 → ℝ} {η : ℝ} (h : qdist c e ≤ η * qn e) :
    (1 - η) * qn e ≤ qn c ∧ qn c ≤ (1 + η) * qn e := by
  have := abs_qn_sub_qn_le c e
  rw [abs_le] at this
  constructor <;> nlinarith [this.1, this.2]

/-- **one computed composition.**  If the computed pose `ĉ` has a quaternion part within `η ‖p‖ ‖q‖` of the
    quaternion part of the exact `PoseSE3.add p q` (se3.py:166-169; componentwise rounding of the 16 products and
    12 sums/differences gives this with `η = 2((1+u)⁴-1) ≈ 8·2⁻⁵³`, see the file header), then
    `(1-η) ‖p‖‖q‖ ≤ ‖ĉ‖ ≤ (1+η) ‖p‖‖q‖`.  No assumption on `p`, `q` (they need not be unit). -/
theorem add_computed_bounds (p q c : Fin 7 → ℝ) (η : ℝ)
    (h : qdist c (PoseSE3.add p q) ≤ η * (qn p * qn q)) :
    (1 - η) * (qn p * qn q) ≤ qn c ∧ qn c ≤ (1 + η) * (qn p * qn q) := by
  rw [← qn_add] at h ⊢; exact perturb_bounds h

/-- the same in the form `|‖ĉ‖ − ‖p‖‖q‖| ≤ η ‖p‖‖q‖` -/
theorem add_computed_abs (p q c : Fin 7 → ℝ) (η : ℝ)
    (h : qdist c (PoseSE3.add p q) ≤ η * (qn p * qn q)) :
    |qn c - qn p * qn q| ≤ η * (qn p * qn q) := by
  rw [← qn_add] at h ⊢; exact le_trans (abs_qn_sub_qn_le _ _) h

/-- one computed `⊖` (se3.py:226-229) -/
theorem sub_computed_bounds (p q c : Fin 7 → ℝ) (η : ℝ)
    (h : qdist c (PoseSE3.sub p q) ≤ η * (qn p * qn q)) :
    (1 - η) * (qn p * qn q) ≤ qn c ∧ qn c ≤ (1 + η) * (qn p * qn q) := by
  rw [← qn_sub] at h ⊢; exact perturb_bounds h

/-- one computed inverse (se3.py:141-144; in IEEE arithmetic the quaternion part is exact — sign flips — so `η = 0`
    applies) -/
theorem inverse_computed_bounds (p c : Fin 7 → ℝ) (η : ℝ)
    (h : qdist c (PoseSE3.inverse p) ≤ η * qn p) :
    (1 - η) * qn p ≤ qn c ∧ qn c ≤ (1 + η) * qn p := by
  rw [← qn_inverse] at h ⊢; exact perturb_bounds h

/-- one computed optimizer update `p ⊞ δ` (se3.py:178-196), either branch -/
theorem boxplus_computed_bounds (p c : Fin 7 → ℝ) (δ : Fin 6 → ℝ) (η : ℝ)
    (h : qdist c (PoseSE3.boxplus p δ) ≤ η * qn p) :
    (1 - η) * qn p ≤ qn c ∧ qn c ≤ (1 + η) * qn p := by
  rw [← qn_boxplus p δ] at h ⊢; exact perturb_bounds h

/-- (e) **`normalize()` resets the drift.**  Whatever the norm of the quaternion of `p` (any non-zero value: the
    drift accumulated so far), a computed `normalize` whose quaternion part is within `η` of the exact
    `PoseSE3.normalize p` (se3.py:46-49) has `1-η ≤ ‖ĉ‖ ≤ 1+η`: the bound no longer depends on the history of `p`. -/
theorem normalize_computed_bounds (p c : Fin 7 → ℝ) (η : ℝ) (hp : qnorm2 p ≠ 0)
    (h : qdist c (PoseSE3.normalize p) ≤ η) : 1 - η ≤ qn c ∧ qn c ≤ 1 + η := by
  have h' : qdist c (PoseSE3.normalize p) ≤ η * qn (PoseSE3.normalize p) := by
    rw [qn_normalize p hp, mul_one]; exact h
  have := perturb_bounds h'
  rw [qn_normalize p hp, mul_one, mul_one] at this
  exact this

theorem normalize_computed_abs (p c : Fin 7 → ℝ) (η : ℝ) (hp : qnorm2 p ≠ 0)
    (h : qdist c (PoseSE3.normalize p) ≤ η) : |qn c - 1| ≤ η := by
  have := normalize_computed_bounds p c η hp h
  rw [abs_le]; constructor <;> linarith [this.1, this.2]

/-! ### (c) any history of computed operations -/

/-- `ReachApprox η ε₀ p n l`: the 7-vector `p` is obtained from `l` operands whose quaternion norm is within `ε₀` of 1
    (and any number of exactly unit ones) by a history of the public `PoseSE3` operations — the **generated**
    definitions, applied to whatever the previous steps returned — in which `n` results were replaced by a
    perturbation of relative size `η` of the quaternion part (`round`).  A *computed* operation is the exact operation
    followed by `round` (`ReachApprox.add_computed`, `.sub_computed`, `.boxplus_computed`, …); operations that IEEE
    arithmetic performs exactly on the quaternion part (`inverse`, `copy`: sign flips and copies) need no `round`.
    `transl`: the translation part `p 0 … p 2` (computed with rounding too) is irrelevant and may be anything.
    Mirrors `Reach` of `Props/C11/SE3.lean`, which is the case `n = 0`, `l = 0`. -/
inductive ReachApprox (η ε₀ : ℝ) : (Fin 7 → ℝ) → ℕ → ℕ → Prop
  | given (p : Fin 7 → ℝ) (h : |qn p - 1| ≤ ε₀) : ReachApprox η ε₀ p 0 1
  | unit (p : Fin 7 → ℝ) (h : Unit4 p) : ReachApprox η ε₀ p 0 0
  | add {p q n₁ l₁ n₂ l₂} : ReachApprox η ε₀ p n₁ l₁ → ReachApprox η ε₀ q n₂ l₂ →
      ReachApprox η ε₀ (PoseSE3.add p q) (n₁ + n₂) (l₁ + l₂)
  | sub {p q n₁ l₁ n₂ l₂} : ReachApprox η ε₀ p n₁ l₁ → ReachApprox η ε₀ q n₂ l₂ →
      ReachApprox η ε₀ (PoseSE3.sub p q) (n₁ + n₂) (l₁ + l₂)
  | inverse {p n l} : ReachApprox η ε₀ p n l → ReachApprox η ε₀ (PoseSE3.inverse p) n l
  | copy {p n l} : ReachApprox η ε₀ p n l → ReachApprox η ε₀ (PoseSE3.copy p) n l
  | boxplus {p n l} (δ : Fin 6 → ℝ) : ReachApprox η ε₀ p n l → ReachApprox η ε₀ (PoseSE3.boxplus p δ) n l
  | round {p n l} (c : Fin 7 → ℝ) : ReachApprox η ε₀ p n l → qdist c p ≤ η * qn p → ReachApprox η ε₀ c (n + 1) l
  | transl {p n l} (c : Fin 7 → ℝ) : ReachApprox η ε₀ p n l → c 3 = p 3 → c 4 = p 4 → c 5 = p 5 → c 6 = p 6 →
      ReachApprox η ε₀ c n l

namespace ReachApprox
variable {η ε₀ : ℝ}

theorem identity : ReachApprox η ε₀ (PoseSE3.identity (E := ℝ)) 0 0 := .unit _ PoseSE3_unit_identity

/-- the exact history of `Props/C11/SE3.lean` is a history with no rounding and no inexact operand -/
theorem of_reach {p : Fin 7 → ℝ} (h : Reach p) : ReachApprox η ε₀ p 0 0 := .unit p (chain_unit h)

/-- a computed `p ⊕ q`: `‖ĉ − (p ⊕ q)‖ ≤ η ‖p‖ ‖q‖` on the quaternion part costs one rounding -/
theorem add_computed {p q n₁ l₁ n₂ l₂} (c : Fin 7 → ℝ) (hp : ReachApprox η ε₀ p n₁ l₁) (hq : ReachApprox η ε₀ q n₂ l₂)
    (h : qdist c (PoseSE3.add p q) ≤ η * (qn p * qn q)) : ReachApprox η ε₀ c (n₁ + n₂ + 1) (l₁ + l₂) :=
  .round c (.add hp hq) (by rw [qn_add]; exact h)

/-- a computed `p ⊖ q` -/
theorem sub_computed {p q n₁ l₁ n₂ l₂} (c : Fin 7 → ℝ) (hp : ReachApprox η ε₀ p n₁ l₁) (hq : ReachApprox η ε₀ q n₂ l₂)
    (h : qdist c (PoseSE3.sub p q) ≤ η * (qn p * qn q)) : ReachApprox η ε₀ c (n₁ + n₂ + 1) (l₁ + l₂) :=
  .round c (.sub hp hq) (by rw [qn_sub]; exact h)

/-- a computed inverse with an inexact quaternion part (not needed for IEEE arithmetic, where `inverse` applies) -/
theorem inverse_computed {p n l} (c : Fin 7 → ℝ) (hp : ReachApprox η ε₀ p n l)
    (h : qdist c (PoseSE3.inverse p) ≤ η * qn p) : ReachApprox η ε₀ c (n + 1) l :=
  .round c (.inverse hp) (by rw [qn_inverse]; exact h)

/-- a computed optimizer update `p ⊞ δ` in which the increment quaternion `(δ_v, √(1-‖δ_v‖²))` is exact -/
theorem boxplus_computed {p n l} (δ : Fin 6 → ℝ) (c : Fin 7 → ℝ) (hp : ReachApprox η ε₀ p n l)
    (h : qdist c (PoseSE3.boxplus p δ) ≤ η * qn p) : ReachApprox η ε₀ c (n + 1) l :=
  .round c (.boxplus δ hp) (by rw [qn_boxplus]; exact h)

/-- a computed optimizer update in which the increment quaternion `d̂` was itself computed with error
    (`|‖d̂‖ − 1| ≤ ε₀`, see `increment_computed`) and then composed with `p` with error `η` -/
theorem boxplus_computed' {p n l} (d c : Fin 7 → ℝ) (hp : ReachApprox η ε₀ p n l) (hd : |qn d - 1| ≤ ε₀)
    (h : qdist c (PoseSE3.add p d) ≤ η * (qn p * qn d)) : ReachApprox η ε₀ c (n + 1) (l + 1) :=
  add_computed c hp (.given d hd) h

/-- (e) a computed `normalize()` forgets the history: one rounding, no inexact operand -/
theorem normalize_computed (p c : Fin 7 → ℝ) (hp : qnorm2 p ≠ 0)
    (h : qdist c (PoseSE3.normalize p) ≤ η) : ReachApprox η ε₀ c 1 0 :=
  .round c (.unit _ (normalize_unit p hp)) (by rw [qn_normalize p hp, mul_one]; exact h)

end ReachApprox

/-- **(c) chain bound.**  After any history with `n` roundings of relative size `η` on `l` operands whose quaternion
    norms are within `ε₀` of 1:  `(1-ε₀)^l (1-η)^n ≤ ‖q‖ ≤ (1+ε₀)^l (1+η)^n`. -/
theorem chain_bounds {η ε₀ : ℝ} (hη0 : 0 ≤ η) (hη1 : η ≤ 1) (hε0 : 0 ≤ ε₀) (hε1 : ε₀ ≤ 1)
    {p : Fin 7 → ℝ} {n l : ℕ} (h : ReachApprox η ε₀ p n l) :
    (1 - ε₀) ^ l * (1 - η) ^ n ≤ qn p ∧ qn p ≤ (1 + ε₀) ^ l * (1 + η) ^ n := by
  have a0 : 0 ≤ 1 - ε₀ := by linarith
  have b0 : 0 ≤ 1 - η := by linarith
  have mulcase : ∀ {x y : ℝ} {n₁ l₁ n₂ l₂ : ℕ}, 0 ≤ x → 0 ≤ y →
      ((1 - ε₀) ^ l₁ * (1 - η) ^ n₁ ≤ x ∧ x ≤ (1 + ε₀) ^ l₁ * (1 + η) ^ n₁) →
      ((1 - ε₀) ^ l₂ * (1 - η) ^ n₂ ≤ y ∧ y ≤ (1 + ε₀) ^ l₂ * (1 + η) ^ n₂) →
      ((1 - ε₀) ^ (l₁ + l₂) * (1 - η) ^ (n₁ + n₂) ≤ x * y ∧
        x * y ≤ (1 + ε₀) ^ (l₁ + l₂) * (1 + η) ^ (n₁ + n₂)) := by
    intro x y n₁ l₁ n₂ l₂ hx hy h1 h2
    constructor
    · calc (1 - ε₀) ^ (l₁ + l₂) * (1 - η) ^ (n₁ + n₂)
          = ((1 - ε₀) ^ l₁ * (1 - η) ^ n₁) * ((1 - ε₀) ^ l₂ * (1 - η) ^ n₂) := by rw [pow_add, pow_add]; ring
        _ ≤ x * y := mul_le_mul h1.1 h2.1 (by positivity) hx
    · calc x * y ≤ ((1 + ε₀) ^ l₁ * (1 + η) ^ n₁) * ((1 + ε₀) ^ l₂ * (1 + η) ^ n₂) :=
            mul_le_mul h1.2 h2.2 hy (by positivity)
        _ = (1 + ε₀) ^ (l₁ + l₂) * (1 + η) ^ (n₁ + n₂) := by rw [pow_add, pow_add]; ring
  induction h with
  | given p h =>
    rw [abs_le] at h
    simp only [pow_one, pow_zero, mul_one]
    constructor <;> linarith [h.1, h.2]
  | unit p h => simp [qn_of_unit h]
  | add _ _ ihp ihq => rw [qn_add]; exact mulcase (qn_nonneg _) (qn_nonneg _) ihp ihq
  | sub _ _ ihp ihq => rw [qn_sub]; exact mulcase (qn_nonneg _) (qn_nonneg _) ihp ihq
  | inverse _ ih => rw [qn_inverse]; exact ih
  | copy _ ih => rw [qn_copy]; exact ih
  | boxplus δ _ ih => rw [qn_boxplus]; exact ih
  | transl c _ h3 h4 h5 h6 ih => rw [qn_congr h3 h4 h5 h6]; exact ih
  | @round p n l c _ hc ih =>
    have hb := perturb_bounds hc
    constructor
    · calc (1 - ε₀) ^ l * (1 - η) ^ (n + 1) = (1 - η) * ((1 - ε₀) ^ l * (1 - η) ^ n) := by rw [pow_succ]; ring
        _ ≤ (1 - η) * qn p := mul_le_mul_of_nonneg_left ih.1 b0
        _ ≤ qn c := hb.1
    · calc qn c ≤ (1 + η) * qn p := hb.2
        _ ≤ (1 + η) * ((1 + ε₀) ^ l * (1 + η) ^ n) := mul_le_mul_of_nonneg_left ih.2 (by linarith)
        _ = (1 + ε₀) ^ l * (1 + η) ^ (n + 1) := by rw [pow_succ]; ring

/-! #### linearisation: `(1+η)^n ≤ 1/(1-nη) ≤ 1 + 2nη` -/

/-- Bernoulli: `1 - n x ≤ (1-x)^n` for `0 ≤ x ≤ 1` -/
theorem one_sub_mul_le_pow' {x : ℝ} (hx1 : x ≤ 1) (n : ℕ) : 1 - n * x ≤ (1 - x) ^ n := by
  have := one_add_mul_le_pow (a := -x) (by linarith) n
  simpa [sub_eq_add_neg] using this

/-- `(1+x)^n (1 - n x) ≤ 1` for `0 ≤ x ≤ 1` (the usual `γ_n = n u / (1 - n u)` estimate) -/
theorem pow_mul_one_sub_le_one {x : ℝ} (hx0 : 0 ≤ x) (hx1 : x ≤ 1) (n : ℕ) : (1 + x) ^ n * (1 - n * x) ≤ 1 := by
  by_cases hneg : 1 - (n : ℝ) * x ≤ 0
  · have : (1 + x) ^ n * (1 - n * x) ≤ 0 := mul_nonpos_of_nonneg_of_nonpos (by positivity) hneg
    linarith
  · have h1 : (1 + x) ^ n * (1 - n * x) ≤ (1 + x) ^ n * (1 - x) ^ n :=
      mul_le_mul_of_nonneg_left (one_sub_mul_le_pow' hx1 n) (by positivity)
    have h2 : (1 + x) ^ n * (1 - x) ^ n = (1 - x ^ 2) ^ n := by rw [← mul_pow]; congr 1; ring
    have h3 : (1 - x ^ 2) ^ n ≤ 1 := pow_le_one₀ (by nlinarith) (by nlinarith)
    linarith

/-- upper and lower products, linearised: with `s = l ε₀ + n η ≤ 1/2`,
    `1 - s ≤ (1-ε₀)^l (1-η)^n` and `(1+ε₀)^l (1+η)^n ≤ 1 + 2 s` -/
theorem prod_linear {η ε₀ : ℝ} (hη0 : 0 ≤ η) (hε0 : 0 ≤ ε₀) (n l : ℕ)
    (hs : l * ε₀ + n * η ≤ 1 / 2) :
    1 - (l * ε₀ + n * η) ≤ (1 - ε₀) ^ l * (1 - η) ^ n ∧ (1 + ε₀) ^ l * (1 + η) ^ n ≤ 1 + 2 * (l * ε₀ + n * η) := by
  have hle : 0 ≤ (l : ℝ) * ε₀ := by positivity
  have hne : 0 ≤ (n : ℝ) * η := by positivity
  -- η ≤ 1 unless n = 0, ε₀ ≤ 1 unless l = 0: treat the degenerate exponents separately
  have hη1 : n = 0 ∨ η ≤ 1 := by
    rcases Nat.eq_zero_or_pos n with h | h
    · exact Or.inl h
    · right
      have : (1 : ℝ) ≤ n := by exact_mod_cast h
      nlinarith
  have hε1 : l = 0 ∨ ε₀ ≤ 1 := by
    rcases Nat.eq_zero_or_pos l with h | h
    · exact Or.inl h
    · right
      have : (1 : ℝ) ≤ l := by exact_mod_cast h
      nlinarith
  -- one-factor facts
  have lowη : 1 - n * η ≤ (1 - η) ^ n := by
    rcases hη1 with h | h
    · subst h; simp
    · exact one_sub_mul_le_pow' h n
  have lowε : 1 - l * ε₀ ≤ (1 - ε₀) ^ l := by
    rcases hε1 with h | h
    · subst h; simp
    · exact one_sub_mul_le_pow' h l
  have upη : (1 + η) ^ n * (1 - n * η) ≤ 1 := by
    rcases hη1 with h | h
    · subst h; simp
    · exact pow_mul_one_sub_le_one hη0 h n
  have upε : (1 + ε₀) ^ l * (1 - l * ε₀) ≤ 1 := by
    rcases hε1 with h | h
    · subst h; simp
    · exact pow_mul_one_sub_le_one hε0 h l
  have pη : 0 < 1 - (n : ℝ) * η := by linarith
  have pε : 0 < 1 - (l : ℝ) * ε₀ := by linarith
  constructor
  · calc 1 - (l * ε₀ + n * η) ≤ (1 - l * ε₀) * (1 - n * η) := by nlinarith
      _ ≤ (1 - ε₀) ^ l * (1 - η) ^ n := mul_le_mul lowε lowη pη.le (le_trans pε.le lowε)
  · set A := (1 + ε₀) ^ l with hA
    set B := (1 + η) ^ n with hB
    have hA0 : 0 ≤ A := by positivity
    have hB0 : 0 ≤ B := by positivity
    set s := (l : ℝ) * ε₀ + n * η with hsdef
    -- A B (1 - s) ≤ A B (1 - lε)(1 - nη) ≤ 1
    have h1 : A * B * ((1 - l * ε₀) * (1 - n * η)) ≤ 1 := by
      have : A * B * ((1 - l * ε₀) * (1 - n * η)) = (A * (1 - l * ε₀)) * (B * (1 - n * η)) := by ring
      rw [this]
      exact mul_le_one₀ upε (mul_nonneg hB0 pη.le) upη
    have h2 : A * B * (1 - s) ≤ 1 := by
      have : (1 - s) ≤ (1 - l * ε₀) * (1 - n * η) := by rw [hsdef]; nlinarith
      calc A * B * (1 - s) ≤ A * B * ((1 - l * ε₀) * (1 - n * η)) :=
            mul_le_mul_of_nonneg_left this (mul_nonneg hA0 hB0)
        _ ≤ 1 := h1
    have hs0 : 0 ≤ s := by rw [hsdef]; linarith
    have hpos : 0 < 1 - s := by linarith
    -- 1 ≤ (1 + 2 s)(1 - s)
    have h3 : 1 ≤ (1 + 2 * s) * (1 - s) := by nlinarith
    have h4 : A * B * (1 - s) ≤ (1 + 2 * s) * (1 - s) := le_trans h2 h3
    exact le_of_mul_le_mul_right h4 hpos

/-- the parameters may be enlarged, and a parameter that is never used (`n = 0` roundings, resp. `l = 0` inexact
    operands) may be replaced by anything -/
theorem ReachApprox.weaken {η ε₀ η' ε₀' : ℝ} {p : Fin 7 → ℝ} {n l : ℕ} (h : ReachApprox η ε₀ p n l)
    (hη : n = 0 ∨ η ≤ η') (hε : l = 0 ∨ ε₀ ≤ ε₀') : ReachApprox η' ε₀' p n l := by
  induction h with
  | given p h =>
    rcases hε with hε | hε
    · omega
    · exact .given p (le_trans h hε)
  | unit p h => exact .unit p h
  | add _ _ ihp ihq =>
    exact .add (ihp (by rcases hη with h | h; left; omega; right; exact h)
                    (by rcases hε with h | h; left; omega; right; exact h))
               (ihq (by rcases hη with h | h; left; omega; right; exact h)
                    (by rcases hε with h | h; left; omega; right; exact h))
  | sub _ _ ihp ihq =>
    exact .sub (ihp (by rcases hη with h | h; left; omega; right; exact h)
                    (by rcases hε with h | h; left; omega; right; exact h))
               (ihq (by rcases hη with h | h; left; omega; right; exact h)
                    (by rcases hε with h | h; left; omega; right; exact h))
  | inverse _ ih => exact .inverse (ih hη hε)
  | copy _ ih => exact .copy (ih hη hε)
  | boxplus δ _ ih => exact .boxplus δ (ih hη hε)
  | transl c _ h3 h4 h5 h6 ih => exact .transl c (ih hη hε) h3 h4 h5 h6
  | @round p n l c _ hc ih =>
    have hη' : η ≤ η' := by rcases hη with h | h; omega; exact h
    exact .round c (ih (Or.inr hη') hε) (le_trans hc (mul_le_mul_of_nonneg_right hη' (qn_nonneg p)))

/-- **(c) linearised chain bound.**  `n` roundings of size `η`, `l` operands within `ε₀` of unit norm, and
    `l ε₀ + n η ≤ 1/2`:  `|‖q‖ − 1| ≤ 2 (l ε₀ + n η)`. -/
theorem chain_linear {η ε₀ : ℝ} (hη0 : 0 ≤ η) (hε0 : 0 ≤ ε₀) {p : Fin 7 → ℝ} {n l : ℕ}
    (h : ReachApprox η ε₀ p n l) (hs : l * ε₀ + n * η ≤ 1 / 2) :
    |qn p - 1| ≤ 2 * (l * ε₀ + n * η) := by
  have hle : 0 ≤ (l : ℝ) * ε₀ := by positivity
  have hne : 0 ≤ (n : ℝ) * η := by positivity
  -- an unused parameter is replaced by 0, so that both are ≤ 1
  obtain ⟨η', hη'0, hη'1, hnη, hwη⟩ : ∃ η' : ℝ, 0 ≤ η' ∧ η' ≤ 1 ∧ (n : ℝ) * η' = n * η ∧ (n = 0 ∨ η ≤ η') := by
    rcases Nat.eq_zero_or_pos n with h0 | h0
    · exact ⟨0, le_rfl, zero_le_one, by simp [h0], Or.inl h0⟩
    · have : (1 : ℝ) ≤ n := by exact_mod_cast h0
      exact ⟨η, hη0, by nlinarith, rfl, Or.inr le_rfl⟩
  obtain ⟨ε', hε'0, hε'1, hlε, hwε⟩ : ∃ ε' : ℝ, 0 ≤ ε' ∧ ε' ≤ 1 ∧ (l : ℝ) * ε' = l * ε₀ ∧ (l = 0 ∨ ε₀ ≤ ε') := by
    rcases Nat.eq_zero_or_pos l with h0 | h0
    · exact ⟨0, le_rfl, zero_le_one, by simp [h0], Or.inl h0⟩
    · have : (1 : ℝ) ≤ l := by exact_mod_cast h0
      exact ⟨ε₀, hε0, by nlinarith, rfl, Or.inr le_rfl⟩
  have hb := chain_bounds hη'0 hη'1 hε'0 hε'1 (h.weaken hwη hwε)
  have hl := prod_linear hη'0 hε'0 n l (by rw [hnη, hlε]; exact hs)
  rw [hnη, hlε] at hl
  rw [abs_le]; constructor <;> linarith [hb.1, hb.2, hl.1, hl.2]

/-- **the clause of C11 for exactly unit operands:** every pose produced from unit-quaternion operands by a history
    containing `n` computed operations (each within `η` of the exact generated formula, relative to the operand
    norms) has `|‖q‖ − 1| ≤ 2 n η`, provided `n η ≤ 1/2`.
    With `η = 8·2⁻⁵³` this is `≈ 1.8·10⁻¹⁵ · n`. -/
theorem chain_linear_unit {η : ℝ} (hη0 : 0 ≤ η) {p : Fin 7 → ℝ} {n : ℕ}
    (h : ReachApprox η 0 p n 0) (hs : n * η ≤ 1 / 2) : |qn p - 1| ≤ 2 * n * η := by
  have := chain_linear hη0 le_rfl h (by simpa using hs)
  simpa [mul_assoc] using this

/-- the squared norm (what `Unit4` is about): `|‖q‖² − 1| ≤ 6 n η` under the same hypotheses -/
theorem chain_linear_unit_sq {η : ℝ} (hη0 : 0 ≤ η) {p : Fin 7 → ℝ} {n : ℕ}
    (h : ReachApprox η 0 p n 0) (hs : n * η ≤ 1 / 2) : |qnorm2 p - 1| ≤ 6 * n * η := by
  have h1 := chain_linear_unit hη0 h hs
  have h0 : 0 ≤ (n : ℝ) * η := by positivity
  rw [← qn_sq]
  rw [abs_le] at h1 ⊢
  have := qn_nonneg p
  constructor <;> nlinarith [h1.1, h1.2]

/-! ### (d) a vertex after any number of optimizer iterations -/

/-- **every SE(3) vertex after `n` optimizer iterations.**  `c 0` is the initial estimate; at iteration `k` the
    optimizer replaces the estimate `c k` by a computed `c k ⊞ δ k` (`Vertex.update` → `iadd_boxplus`,
    base_pose.py:158-172 / se3.py:178-196), `δ k` being whatever the linear solver returned (either branch of
    se3.py:181), the computed quaternion being within `η ‖c k‖` of the exact generated formula.  Then the history
    `c n` has `n` roundings and the inexact operands of `c 0`. -/
theorem iterate_boxplus_reach {η ε₀ : ℝ} (c : ℕ → Fin 7 → ℝ) (δ : ℕ → Fin 6 → ℝ) {n₀ l₀ : ℕ}
    (h0 : ReachApprox η ε₀ (c 0) n₀ l₀)
    (hstep : ∀ k, qdist (c (k + 1)) (PoseSE3.iadd_boxplus (c k) (δ k)) ≤ η * qn (c k)) (n : ℕ) :
    ReachApprox η ε₀ (c n) (n₀ + n) l₀ := by
  induction n with
  | zero => exact h0
  | succ k ih => exact ReachApprox.boxplus_computed (δ k) (c (k + 1)) ih (hstep k)

/-- bounds after `n` iterations from an exactly unit initial estimate -/
theorem iterate_boxplus_bounds {η : ℝ} (hη0 : 0 ≤ η) (hη1 : η ≤ 1) (c : ℕ → Fin 7 → ℝ) (δ : ℕ → Fin 6 → ℝ)
    (h0 : Unit4 (c 0))
    (hstep : ∀ k, qdist (c (k + 1)) (PoseSE3.iadd_boxplus (c k) (δ k)) ≤ η * qn (c k)) (n : ℕ) :
    (1 - η) ^ n ≤ qn (c n) ∧ qn (c n) ≤ (1 + η) ^ n := by
  have h := iterate_boxplus_reach (ε₀ := 0) c δ (.unit _ h0) hstep n
  have := chain_bounds hη0 hη1 le_rfl zero_le_one h
  simpa using this

/-- linearised: `|‖q_n‖ − 1| ≤ 2 n η` after `n` optimizer iterations, for `n η ≤ 1/2` -/
theorem iterate_boxplus_linear {η : ℝ} (hη0 : 0 ≤ η) (c : ℕ → Fin 7 → ℝ) (δ : ℕ → Fin 6 → ℝ)
    (h0 : Unit4 (c 0))
    (hstep : ∀ k, qdist (c (k + 1)) (PoseSE3.iadd_boxplus (c k) (δ k)) ≤ η * qn (c k)) (n : ℕ)
    (hs : n * η ≤ 1 / 2) : |qn (c n) - 1| ≤ 2 * n * η := by
  have h := iterate_boxplus_reach (ε₀ := 0) c δ (.unit _ h0) hstep n
  rw [zero_add] at h
  exact chain_linear_unit hη0 h hs

/-- the increment quaternion with a *computed* scalar part: `d̂ = (δ_t, δ_v, ŵ)` where `ŵ² ` is within `e` of the exact
    `1 − ‖δ_v‖²` (se3.py:185: `qw = np.sqrt(1.0 - qnorm**2)` with `qnorm`, its square, the difference and the root all
    rounded: `e` is a few units of round-off, *absolute*, because every intermediate quantity is at most 1).  Then
    `|‖d̂‖ − 1| ≤ e`: the increment is an operand "within `ε₀ = e` of unit norm" for `ReachApprox.boxplus_computed'`. -/
theorem increment_computed (δ : Fin 6 → ℝ) (w e : ℝ) (d : Fin 7 → ℝ)
    (hd3 : d 3 = δ 3) (hd4 : d 4 = δ 4) (hd5 : d 5 = δ 5) (hd6 : d 6 = w)
    (hw : |w ^ 2 - (1 - vnorm2 δ)| ≤ e) : |qn d - 1| ≤ e := by
  have hq : qnorm2 d - 1 = w ^ 2 - (1 - vnorm2 δ) := by
    unfold qnorm2 vnorm2; rw [hd3, hd4, hd5, hd6]; ring
  have h1 : |qn d ^ 2 - 1| ≤ e := by rw [qn_sq, hq]; exact hw
  have h0 := qn_nonneg d
  have hfac : |qn d - 1| ≤ |qn d ^ 2 - 1| := by
    have : qn d ^ 2 - 1 = (qn d - 1) * (qn d + 1) := by ring
    rw [this, abs_mul]
    have h2 : 1 ≤ |qn d + 1| := by rw [abs_of_nonneg (by linarith)]; linarith
    nlinarith [abs_nonneg (qn d - 1)]
  exact le_trans hfac h1

/-- `n` optimizer iterations in which, at each one, the increment quaternion `d k` is itself computed with error at
    most `ε₀` in norm and the composition with error `η`:  `|‖q_n‖ − 1| ≤ 2 n (ε₀ + η)`. -/
theorem iterate_boxplus_linear' {η ε₀ : ℝ} (hη0 : 0 ≤ η) (hε0 : 0 ≤ ε₀) (c d : ℕ → Fin 7 → ℝ)
    (h0 : Unit4 (c 0)) (hd : ∀ k, |qn (d k) - 1| ≤ ε₀)
    (hstep : ∀ k, qdist (c (k + 1)) (PoseSE3.add (c k) (d k)) ≤ η * (qn (c k) * qn (d k))) (n : ℕ)
    (hs : n * (ε₀ + η) ≤ 1 / 2) : |qn (c n) - 1| ≤ 2 * n * (ε₀ + η) := by
  have h : ReachApprox η ε₀ (c n) n n := by
    induction n with
    | zero => exact .unit _ h0
    | succ k ih =>
      have hk : (k : ℝ) * (ε₀ + η) ≤ 1 / 2 := by
        have : (k : ℝ) ≤ (k + 1 : ℕ) := by push_cast; linarith
        have h2 : 0 ≤ ε₀ + η := by linarith
        nlinarith
      exact ReachApprox.boxplus_computed' (d k) (c (k + 1)) (ih hk) (hd k) (hstep k)
  have := chain_linear hη0 hε0 h (by linarith [hs, mul_add (n : ℝ) ε₀ η])
  calc |qn (c n) - 1| ≤ 2 * (n * ε₀ + n * η) := this
    _ = 2 * n * (ε₀ + η) := by ring

/-! ### non-vacuity -/

/-- the hypotheses of the one-operation bound are satisfiable non-trivially: the computed result
    `(0,0,0, 0,0,0, 1+η)` of `identity ⊕ identity` is within `η` of the exact one and is not unit. -/
example : ∃ (p q c : Fin 7 → ℝ) (η : ℝ), 0 < η ∧ Unit4 p ∧ Unit4 q ∧ ¬ Unit4 c ∧
    qdist c (PoseSE3.add p q) ≤ η * (qn p * qn q) ∧ ReachApprox η 0 c 1 0 := by
  refine ⟨PoseSE3.identity, PoseSE3.identity, fun i => match i with | 0 => 0 | 1 => 0 | 2 => 0 | 3 => 0 | 4 => 0 | 5 => 0 | 6 => 1 + 1 / 8, 1 / 8, by norm_num,
    PoseSE3_unit_identity, PoseSE3_unit_identity, ?_, ?_, ?_⟩
  · unfold Unit4; norm_num
  · rw [qn_identity, PoseSE3_identity_left]
    have : qdist (fun i => match i with | 0 => 0 | 1 => 0 | 2 => 0 | 3 => 0 | 4 => 0 | 5 => 0 | 6 => 1 + 1 / 8) (PoseSE3.identity (E := ℝ)) = 1 / 8 := by
      unfold qdist
      simp only [PoseSE3.identity, real_ofInt, Int.cast_zero, Int.cast_one]
      rw [show ((0 : ℝ) - 0) ^ 2 + (0 - 0) ^ 2 + (0 - 0) ^ 2 + (1 + 1 / 8 - 1) ^ 2 = (1 / 8) ^ 2 by norm_num]
      exact Real.sqrt_sq (by norm_num)
    rw [this]; norm_num
  · have hq : qdist (fun i => match i with | 0 => 0 | 1 => 0 | 2 => 0 | 3 => 0 | 4 => 0 | 5 => 0 | 6 => 1 + 1 / 8) (PoseSE3.identity (E := ℝ)) = 1 / 8 := by
      unfold qdist
      simp only [PoseSE3.identity, real_ofInt, Int.cast_zero, Int.cast_one]
      rw [show ((0 : ℝ) - 0) ^ 2 + (0 - 0) ^ 2 + (0 - 0) ^ 2 + (1 + 1 / 8 - 1) ^ 2 = (1 / 8) ^ 2 by norm_num]
      exact Real.sqrt_sq (by norm_num)
    have := ReachApprox.add_computed (η := 1 / 8) (ε₀ := 0) (fun i => match i with | 0 => 0 | 1 => 0 | 2 => 0 | 3 => 0 | 4 => 0 | 5 => 0 | 6 => 1 + 1 / 8)
      (ReachApprox.identity) (ReachApprox.identity)
      (by rw [qn_identity, PoseSE3_identity_left, hq]; norm_num)
    simpa using this

end GraphSlam.Props.C11
