import GraphSlam.Props.C11.RoundingStd
import GraphSlam.Model.Run

/-!
# C11 — "every SE(3) vertex after any number of optimizer iterations", for the whole-call model in rounded arithmetic

`Model/GraphIter.lean` / `Model/Run.lean` model `Graph.optimize` generically in the scalar type.  Instantiated at
`Fl rnd` (`RoundingStd.lean`: a rounding obeying the standard model after every arithmetic operation) the model *is* a
floating-point run of the optimizer: linearisation, assembly, **any** solver (even one returning garbage), and the
update `v.pose += dx[g : g + c]` through the generated `iadd_boxplus`.  The theorems below say that in such a run every
SE(3) vertex estimate keeps `|‖q‖ − 1| ≤ 37 · i · u` after `i` iterations, if it started exactly unit.
-/

namespace GraphSlam.Props.C11
open GraphSlam GraphSlam.Gen GraphSlam.Model GraphSlam.Props.C09 GraphSlam.Props.C10
set_option linter.unusedSimpArgs false
set_option linter.unusedVariables false

section run
variable {u : ℝ} {rnd : ℝ → ℝ}

/-- invariant of the optimizer state after at most `k` updates: every SE(3) estimate is the value of a history of at
    most `k` computed box-plus updates of an exactly unit quaternion -/
def Se3Inv (u : ℝ) (k : ℕ) (s : GState (Fl rnd)) : Prop :=
  ∀ v ∈ s, ∀ p, v.2.2 = Pose.se3 p → ∃ k' ≤ k, ReachApprox (etaFl u) (10 * u) (vl p) k' k'

theorem Se3Inv.init (s : GState (Fl rnd)) (h : ∀ v ∈ s, ∀ p, v.2.2 = Pose.se3 p → Unit4 (vl p)) :
    Se3Inv u 0 s := fun v hv p hp => ⟨0, le_rfl, .unit _ (h v hv p hp)⟩

/-- the update loop of graph.py:484-494 (`applyDx` with the generated box-plus), in rounded arithmetic, keeps the
    invariant with one more update — for **any** increment vector `dx` and any set of fixed vertices -/
theorem Se3Inv.applyDx (hu0 : 0 ≤ u) (hu : u ≤ 1 / 100) (hr : StdRnd u rnd) {k : ℕ} {s : GState (Fl rnd)}
    (h : Se3Inv u k s) (fixed : List Nat) (dx : Nat → Fl rnd) :
    Se3Inv u (k + 1) (Model.applyDx Pose.boxplus fixed s dx) := by
  intro v' hv' p hp
  unfold Model.applyDx at hv'
  rw [List.mem_map] at hv'
  obtain ⟨⟨g, d, q⟩, hv, rfl⟩ := hv'
  by_cases hg : g ∈ fixed
  · simp only [hg, if_true] at hp
    obtain ⟨k', hk', hR⟩ := h _ hv p hp
    exact ⟨k', Nat.le_succ_of_le hk', hR⟩
  · simp only [hg, if_false] at hp
    cases q with
    | r2 q => simp [Pose.boxplus] at hp
    | r3 q => simp [Pose.boxplus] at hp
    | se2 q => simp [Pose.boxplus] at hp
    | se3 q =>
      simp only [Pose.boxplus, stored_eq, Pose.se3.injEq] at hp
      subst hp
      obtain ⟨k', hk', hR⟩ := h _ hv q rfl
      exact ⟨k' + 1, Nat.succ_le_succ hk', boxplus_fl_step hu0 hu hr le_rfl q _ hR⟩

/-- any per-iteration state map that, when it succeeds, applies *some* increment vector through the update loop:
    both `stepWith (dxs i) fixed es` (recorded increments) and `step solve fixed es` (any solver) are of this form -/
def UpdatesByBoxplus (fixed : List Nat) (stepFn : Nat → GState (Fl rnd) → Option (GState (Fl rnd))) : Prop :=
  ∀ i s s', stepFn i s = some s' → ∃ dx, s' = Model.applyDx Pose.boxplus fixed s dx

theorem updatesByBoxplus_stepWith (dxs : Nat → Nat → Fl rnd) (fixed : List Nat) (es : List (Edge (Fl rnd))) :
    UpdatesByBoxplus fixed (fun i => stepWith (dxs i) fixed es) := by
  intro i s s' h
  unfold stepWith at h
  rw [Option.map_eq_some_iff] at h
  obtain ⟨_, _, rfl⟩ := h
  exact ⟨_, rfl⟩

theorem updatesByBoxplus_step (solve : (Nat → Nat → Fl rnd) → (Nat → Fl rnd) → (Nat → Fl rnd)) (fixed : List Nat)
    (es : List (Edge (Fl rnd))) : UpdatesByBoxplus fixed (fun _ => step solve fixed es) := by
  intro i s s' h
  unfold step at h
  rw [Option.map_eq_some_iff] at h
  obtain ⟨_, _, rfl⟩ := h
  exact ⟨_, rfl⟩

theorem se3Inv_iterStates (hu0 : 0 ≤ u) (hu : u ≤ 1 / 100) (hr : StdRnd u rnd) (fixed : List Nat)
    (stepFn : Nat → GState (Fl rnd) → Option (GState (Fl rnd))) (hstep : UpdatesByBoxplus fixed stepFn)
    (s0 : GState (Fl rnd)) (h0 : Se3Inv u 0 s0) :
    ∀ (i : ℕ) (s : GState (Fl rnd)), iterStates stepFn s0 i = some s → Se3Inv u i s := by
  intro i
  induction i with
  | zero =>
    intro s hs
    simp only [iterStates, Option.some.injEq] at hs
    subst hs; exact h0
  | succ i ih =>
    intro s hs
    simp only [iterStates] at hs
    rw [Option.bind_eq_some_iff] at hs
    obtain ⟨s1, hs1, hs2⟩ := hs
    obtain ⟨dx, rfl⟩ := hstep i s1 s hs2
    exact (ih s1 hs1).applyDx hu0 hu hr fixed dx

/-- **whole-call model, rounded arithmetic: every SE(3) vertex after `i` optimizer iterations.**
    Start from a state whose SE(3) estimates have exactly unit quaternions; run `i` iterations of the model of
    `Graph.optimize` in `Fl rnd` (standard model, unit round-off `u ≤ 1/100`), with any solver / any increments.  If the
    run reaches a state `s`, every SE(3) estimate `p` in it satisfies `|‖q‖ − 1| ≤ 37 · i · u`, provided `i · u ≤ 1/37`. -/
theorem run_fl_se3_drift (hu0 : 0 ≤ u) (hu : u ≤ 1 / 100) (hr : StdRnd u rnd) (fixed : List Nat)
    (stepFn : Nat → GState (Fl rnd) → Option (GState (Fl rnd))) (hstep : UpdatesByBoxplus fixed stepFn)
    (s0 : GState (Fl rnd)) (h0 : ∀ v ∈ s0, ∀ p, v.2.2 = Pose.se3 p → Unit4 (vl p))
    (i : ℕ) (s : GState (Fl rnd)) (hs : iterStates stepFn s0 i = some s) (hi : i * u ≤ 1 / 37) :
    ∀ v ∈ s, ∀ p, v.2.2 = Pose.se3 p → |qn (vl p) - 1| ≤ 37 * i * u := by
  intro v hv p hp
  obtain ⟨k', hk', hR⟩ := se3Inv_iterStates hu0 hu hr fixed stepFn hstep s0 (Se3Inv.init s0 h0) i s hs v hv p hp
  have hk'i : (k' : ℝ) ≤ i := by exact_mod_cast hk'
  have h1 : (k' : ℝ) * u ≤ 1 / 37 := le_trans (mul_le_mul_of_nonneg_right hk'i hu0) hi
  have := drift_of_reach hu0 hu hR h1
  have h2 : 37 * (k' : ℝ) * u ≤ 37 * i * u := by nlinarith
  linarith

/-- the same for `stateAt` (recorded increments `dxs`, the form the driver runs) -/
theorem stateAt_fl_se3_drift (hu0 : 0 ≤ u) (hu : u ≤ 1 / 100) (hr : StdRnd u rnd) (dxs : Nat → Nat → Fl rnd)
    (fixed : List Nat) (es : List (Edge (Fl rnd))) (s0 : GState (Fl rnd))
    (h0 : ∀ v ∈ s0, ∀ p, v.2.2 = Pose.se3 p → Unit4 (vl p))
    (i : ℕ) (s : GState (Fl rnd)) (hs : stateAt dxs fixed es s0 i = some s) (hi : i * u ≤ 1 / 37) :
    ∀ v ∈ s, ∀ p, v.2.2 = Pose.se3 p → |qn (vl p) - 1| ≤ 37 * i * u :=
  run_fl_se3_drift hu0 hu hr fixed _ (updatesByBoxplus_stepWith dxs fixed es) s0 h0 i s hs hi

/-- the initial state (`Graph._initialize`) lists the given poses -/
theorem mem_initState (g : Nat) (l : List (Pose (Fl rnd))) : ∀ v ∈ initState g l, v.2.2 ∈ l := by
  induction l generalizing g with
  | nil => intro v hv; simp [initState] at hv
  | cons a l ih =>
    intro v hv
    simp only [initState, List.mem_cons] at hv
    rcases hv with rfl | hv
    · simp
    · exact List.mem_cons_of_mem _ (ih _ v hv)

/-- **the state returned by a whole call** `optimizeSolve` (the model of `Graph.optimize(tol, max_iter, fix_first_pose)`
    with an arbitrary solver) in rounded arithmetic: if the call returns report `r` and state `s`, every SE(3) vertex of
    `s` has `|‖q‖ − 1| ≤ 37 · k · u`, `k = r.numIterations` the number of iterations performed. -/
theorem optimizeSolve_fl_se3_drift (hu0 : 0 ≤ u) (hu : u ≤ 1 / 100) (hr : StdRnd u rnd) (tol eps : Fl rnd) (maxIter : Nat)
    (ffp : Bool) (flags : List Bool) (solve : (Nat → Nat → Fl rnd) → (Nat → Fl rnd) → (Nat → Fl rnd))
    (es : List (Edge (Fl rnd))) (ps : List (Pose (Fl rnd)))
    (h0 : ∀ q ∈ ps, ∀ p, q = Pose.se3 p → Unit4 (vl p))
    (r : Report (Fl rnd)) (s : GState (Fl rnd)) (flags' : List Bool)
    (hrun : optimizeSolve tol eps maxIter ffp flags solve es ps = .ok (r, some s, flags'))
    (hi : (r.numIterations.getD 0 : ℕ) * u ≤ 1 / 37) :
    ∀ v ∈ s, ∀ p, v.2.2 = Pose.se3 p → |qn (vl p) - 1| ≤ 37 * (r.numIterations.getD 0 : ℕ) * u := by
  unfold optimizeSolve optimizeRunOf at hrun
  simp only at hrun
  split at hrun
  · cases hrun
  · rename_i r' hr'
    simp only [Except.ok.injEq, Prod.mk.injEq] at hrun
    obtain ⟨rfl, hs, -⟩ := hrun
    refine run_fl_se3_drift hu0 hu hr _ _ (updatesByBoxplus_step solve _ es) (initState 0 ps) ?_ _ s hs hi
    intro v hv p hp
    exact h0 _ (mem_initState 0 ps v hv) p hp

/-- the same for `optimizeRun` (recorded increments: the form the driver executes and the harness compares with the
    real `optimize`) -/
theorem optimizeRun_fl_se3_drift (hu0 : 0 ≤ u) (hu : u ≤ 1 / 100) (hr : StdRnd u rnd) (tol eps : Fl rnd) (maxIter : Nat)
    (ffp : Bool) (flags : List Bool) (dxs : Nat → Nat → Fl rnd)
    (es : List (Edge (Fl rnd))) (ps : List (Pose (Fl rnd)))
    (h0 : ∀ q ∈ ps, ∀ p, q = Pose.se3 p → Unit4 (vl p))
    (r : Report (Fl rnd)) (s : GState (Fl rnd)) (flags' : List Bool)
    (hrun : optimizeRun tol eps maxIter ffp flags dxs es ps = .ok (r, some s, flags'))
    (hi : (r.numIterations.getD 0 : ℕ) * u ≤ 1 / 37) :
    ∀ v ∈ s, ∀ p, v.2.2 = Pose.se3 p → |qn (vl p) - 1| ≤ 37 * (r.numIterations.getD 0 : ℕ) * u := by
  unfold optimizeRun optimizeRunOf at hrun
  simp only at hrun
  split at hrun
  · cases hrun
  · rename_i r' hr'
    simp only [Except.ok.injEq, Prod.mk.injEq] at hrun
    obtain ⟨rfl, hs, -⟩ := hrun
    refine run_fl_se3_drift hu0 hu hr _ _ (updatesByBoxplus_stepWith dxs _ es) (initState 0 ps) ?_ _ s hs hi
    intro v hv p hp
    exact h0 _ (mem_initState 0 ps v hv) p hp

/-- non-vacuity: a one-vertex SE(3) state with the identity estimate satisfies the hypotheses, for every rounding and
    every increment; after one update its quaternion is within `37u` of unit norm -/
example (hu0 : 0 ≤ u) (hu : u ≤ 1 / 100) (hr : StdRnd u rnd) (dx : Nat → Fl rnd) :
    ∀ v ∈ Model.applyDx Pose.boxplus [] [(0, 6, Pose.se3 (PoseSE3.identity (E := Fl rnd)))] dx,
      ∀ p, v.2.2 = Pose.se3 p → |qn (vl p) - 1| ≤ 37 * (1 : ℕ) * u := by
  have hstep : UpdatesByBoxplus (rnd := rnd) [] (fun _ s => some (Model.applyDx Pose.boxplus [] s dx)) := by
    intro i s s' h
    simp only [Option.some.injEq] at h
    exact ⟨dx, h.symm⟩
  refine run_fl_se3_drift hu0 hu hr [] _ hstep [(0, 6, Pose.se3 (PoseSE3.identity (E := Fl rnd)))] ?_ 1 _ rfl
    (by push_cast; linarith)
  intro v hv p hp
  simp only [List.mem_singleton] at hv
  subst hv
  simp only [Pose.se3.injEq] at hp
  subst hp
  rw [identity_fl]; exact PoseSE3_unit_identity

end run

end GraphSlam.Props.C11
