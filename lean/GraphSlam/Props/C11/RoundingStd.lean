import GraphSlam.Props.C11.Rounding

/-!
# C11 — the rounding hypothesis of `Rounding.lean` derived from the standard model, for the generated code itself

`Rounding.lean` *assumes* that a computed `p ⊕ q` has a quaternion within `η ‖p‖‖q‖` of the exact one.  Here that
assumption is **proved** for the generated definitions evaluated in rounded arithmetic.  The generated code is generic
over the `Scalar`/`ScalarF` interface; `Fl rnd` is that interface with a rounding `rnd : ℝ → ℝ` applied after every
`+`, `-`, `*`, `/`, `√` (negation, comparisons and the integer literals `0., 1., 2.` are exact, as in IEEE arithmetic).
The only property of `rnd` used is the **standard model of floating-point arithmetic**

  `StdRnd u rnd :  ∀ x, |rnd x − x| ≤ u |x|`      (`u = 2⁻⁵³` for binary64, no overflow/underflow)

which is a hypothesis (IEEE arithmetic is not modelled).  `PoseSE3.add (E := Fl rnd) p q` is then the Python expression of
se3.py:166-169 *with its own parenthesisation and evaluation order* and a rounding after each of its operations.

Main results
* `add_fl_qdist`, `sub_fl_qdist`: `‖ĉ − c‖ ≤ 2((1+u)⁴−1) ‖p‖‖q‖` for the quaternion parts, all operands;
* `inverse_fl_quat`, `copy_fl_quat`: the quaternion part of `inverse`/`copy` is exact;
* `ReachFl`, `reachFl_reachApprox`, `chain_fl_linear`: any history of the generated operations evaluated in `Fl rnd`
  keeps `|‖q‖ − 1| ≤ 2 (l ε₀ + n η)`, `η = 2((1+u)⁴−1)`.
-/

namespace GraphSlam.Props.C11
open GraphSlam GraphSlam.Gen GraphSlam.Props.C09 GraphSlam.Props.C10
set_option linter.unusedSimpArgs false
set_option linter.unusedVariables false

/-- the standard model of floating-point arithmetic for a rounding function: relative error at most `u` -/
def StdRnd (u : ℝ) (rnd : ℝ → ℝ) : Prop := ∀ x, |rnd x - x| ≤ u * |x|

/-- a real number carried through arithmetic that rounds with `rnd` after every operation -/
structure Fl (rnd : ℝ → ℝ) : Type where
  /-- the real value of the floating-point number -/
  val : ℝ

namespace Fl
variable {rnd : ℝ → ℝ}

/-- the scalar interface of the generated code, with a rounding after every inexact operation -/
noncomputable instance instScalarF : ScalarF (Fl rnd) where
  add a b := ⟨rnd (a.val + b.val)⟩
  sub a b := ⟨rnd (a.val - b.val)⟩
  mul a b := ⟨rnd (a.val * b.val)⟩
  neg a := ⟨-a.val⟩
  ofInt z := ⟨(z : ℝ)⟩
  cos a := ⟨rnd (Real.cos a.val)⟩
  sin a := ⟨rnd (Real.sin a.val)⟩
  pi := ⟨rnd Real.pi⟩
  pymod a b := ⟨rnd (a.val - b.val * (⌊a.val / b.val⌋ : ℤ))⟩
  sqrt a := ⟨rnd (Real.sqrt a.val)⟩
  div a b := ⟨rnd (a.val / b.val)⟩
  gt a b := decide (a.val > b.val)
  ge a b := decide (a.val ≥ b.val)

@[simp] theorem val_add (a b : Fl rnd) : (a + b).val = rnd (a.val + b.val) := rfl
@[simp] theorem val_sub (a b : Fl rnd) : (a - b).val = rnd (a.val - b.val) := rfl
@[simp] theorem val_mul (a b : Fl rnd) : (a * b).val = rnd (a.val * b.val) := rfl
@[simp] theorem val_neg (a : Fl rnd) : (-a).val = -a.val := rfl
@[simp] theorem val_ofInt (z : Int) : (Scalar.ofInt z : Fl rnd).val = (z : ℝ) := rfl
@[simp] theorem val_sqrt (a : Fl rnd) : (ScalarF.sqrt a).val = rnd (Real.sqrt a.val) := rfl
@[simp] theorem val_div (a b : Fl rnd) : (ScalarF.div a b).val = rnd (a.val / b.val) := rfl
@[simp] theorem gt_iff (a b : Fl rnd) : (ScalarF.gt a b = true) ↔ a.val > b.val := by
  show decide (a.val > b.val) = true ↔ _; simp
@[simp] theorem ge_iff (a b : Fl rnd) : (ScalarF.ge a b = true) ↔ a.val ≥ b.val := by
  show decide (a.val ≥ b.val) = true ↔ _; simp

end Fl

/-- the real values of an array of floating-point numbers -/
def vl {rnd : ℝ → ℝ} {n : ℕ} (p : Fin n → Fl rnd) : Fin n → ℝ := fun i => (p i).val

@[simp] theorem vl_apply {rnd : ℝ → ℝ} {n : ℕ} (p : Fin n → Fl rnd) (i : Fin n) : vl p i = (p i).val := rfl

/-! ### accumulation of relative errors -/

/-- `a` approximates `A` after `k` accumulated roundings, relative to a magnitude `S ≥ |A|` (for a sum of products:
    the sum of the absolute values of the terms) -/
def Approx (u : ℝ) (k : ℕ) (a A S : ℝ) : Prop := |a - A| ≤ ((1 + u) ^ k - 1) * S ∧ |A| ≤ S

namespace Approx
variable {u : ℝ} {rnd : ℝ → ℝ}

theorem S_nonneg {k a A S} (h : Approx u k a A S) : 0 ≤ S := le_trans (abs_nonneg _) h.2

theorem mono (hu : 0 ≤ u) {k K a A S} (h : Approx u k a A S) (hk : k ≤ K) : Approx u K a A S := by
  refine ⟨le_trans h.1 ?_, h.2⟩
  have : (1 + u) ^ k ≤ (1 + u) ^ K := pow_le_pow_right₀ (by linarith) hk
  exact mul_le_mul_of_nonneg_right (by linarith) h.S_nonneg

/-- an exact input -/
theorem exact (x : ℝ) : Approx u 0 x x |x| := by
  constructor <;> simp

/-- one rounded product of exact inputs -/
theorem mul (hr : StdRnd u rnd) (x y : ℝ) : Approx u 1 (rnd (x * y)) (x * y) (|x| * |y|) := by
  constructor
  · have := hr (x * y); rw [abs_mul] at this; simpa using this
  · rw [abs_mul]

theorem neg {k a A S} (h : Approx u k a A S) : Approx u k (-a) (-A) S := by
  refine ⟨?_, by rw [abs_neg]; exact h.2⟩
  have : -a - -A = -(a - A) := by ring
  rw [this, abs_neg]; exact h.1

/-- a rounded sum of two approximations: one more rounding on top of the worse of the two -/
theorem add (hu : 0 ≤ u) (hr : StdRnd u rnd) {K a A SA b B SB} (ha : Approx u K a A SA) (hb : Approx u K b B SB) :
    Approx u (K + 1) (rnd (a + b)) (A + B) (SA + SB) := by
  have hSA := ha.S_nonneg
  have hSB := hb.S_nonneg
  have hP : 1 ≤ (1 + u) ^ K := one_le_pow₀ (by linarith)
  set P := (1 + u) ^ K with hPdef
  have haa : |a| ≤ P * SA := by
    have := abs_sub_abs_le_abs_sub a A
    have h1 := ha.1; have h2 := ha.2
    have : (P - 1) * SA = P * SA - SA := by ring
    linarith
  have hbb : |b| ≤ P * SB := by
    have := abs_sub_abs_le_abs_sub b B
    have h1 := hb.1; have h2 := hb.2
    have : (P - 1) * SB = P * SB - SB := by ring
    linarith
  have hab : |a + b| ≤ P * SA + P * SB := le_trans (abs_add_le a b) (by linarith)
  have hr1 : |rnd (a + b) - (a + b)| ≤ u * (P * SA + P * SB) :=
    le_trans (hr (a + b)) (mul_le_mul_of_nonneg_left hab hu)
  constructor
  · have e : rnd (a + b) - (A + B) = (rnd (a + b) - (a + b)) + (a - A) + (b - B) := by ring
    have h3 := abs_add_three (rnd (a + b) - (a + b)) (a - A) (b - B)
    rw [← e] at h3
    have h1 := ha.1; have h2 := hb.1
    have e2 : ((1 + u) ^ (K + 1) - 1) * (SA + SB) = u * (P * SA + P * SB) + (P - 1) * SA + (P - 1) * SB := by
      rw [pow_succ, ← hPdef]; ring
    rw [e2]; linarith
  · exact le_trans (abs_add_le A B) (add_le_add ha.2 hb.2)

theorem sub (hu : 0 ≤ u) (hr : StdRnd u rnd) {K a A SA b B SB} (ha : Approx u K a A SA) (hb : Approx u K b B SB) :
    Approx u (K + 1) (rnd (a - b)) (A - B) (SA + SB) := by
  have := add hu hr ha hb.neg
  simpa [sub_eq_add_neg] using this

/-- `acc + x*y` as the generated code evaluates it: the product is rounded, then the sum -/
theorem add_mul (hu : 0 ≤ u) (hr : StdRnd u rnd) {K a A SA} (ha : Approx u K a A SA) (hK : 1 ≤ K) (x y : ℝ) :
    Approx u (K + 1) (rnd (a + rnd (x * y))) (A + x * y) (SA + |x| * |y|) :=
  add hu hr ha ((mul hr x y).mono hu hK)

theorem sub_mul (hu : 0 ≤ u) (hr : StdRnd u rnd) {K a A SA} (ha : Approx u K a A SA) (hK : 1 ≤ K) (x y : ℝ) :
    Approx u (K + 1) (rnd (a - rnd (x * y))) (A - x * y) (SA + |x| * |y|) :=
  sub hu hr ha ((mul hr x y).mono hu hK)

end Approx

/-- Cauchy–Schwarz for the magnitudes of four products -/
theorem abs_sum4_le (x1 x2 x3 x4 y1 y2 y3 y4 : ℝ) :
    |x1| * |y1| + |x2| * |y2| + |x3| * |y3| + |x4| * |y4|
      ≤ Real.sqrt (x1 ^ 2 + x2 ^ 2 + x3 ^ 2 + x4 ^ 2) * Real.sqrt (y1 ^ 2 + y2 ^ 2 + y3 ^ 2 + y4 ^ 2) := by
  have hX : 0 ≤ x1 ^ 2 + x2 ^ 2 + x3 ^ 2 + x4 ^ 2 := by positivity
  rw [← Real.sqrt_mul hX]
  apply Real.le_sqrt_of_sq_le
  have := cauchy4 |x1| |x2| |x3| |x4| |y1| |y2| |y3| |y4|
  simpa only [sq_abs] using this

/-- the magnitude of one quaternion component (four products pairing each of `P 3 … P 6` with each of `Q 3 … Q 6`
    once) is at most `‖P‖ ‖Q‖` -/
theorem comp_magnitude_le {P Q : Fin 7 → ℝ} {x1 x2 x3 x4 y1 y2 y3 y4 : ℝ}
    (hx : x1 ^ 2 + x2 ^ 2 + x3 ^ 2 + x4 ^ 2 = qnorm2 P) (hy : y1 ^ 2 + y2 ^ 2 + y3 ^ 2 + y4 ^ 2 = qnorm2 Q) :
    |x1| * |y1| + |x2| * |y2| + |x3| * |y3| + |x4| * |y4| ≤ qn P * qn Q := by
  have := abs_sum4_le x1 x2 x3 x4 y1 y2 y3 y4
  rw [hx, hy] at this
  exact this

/-- four components each within `B` give a distance of at most `2B` -/
theorem qdist_le_of_comp {a b : Fin 7 → ℝ} {B : ℝ} (h3 : |a 3 - b 3| ≤ B) (h4 : |a 4 - b 4| ≤ B)
    (h5 : |a 5 - b 5| ≤ B) (h6 : |a 6 - b 6| ≤ B) : qdist a b ≤ 2 * B := by
  have hB : 0 ≤ B := le_trans (abs_nonneg _) h3
  unfold qdist
  rw [Real.sqrt_le_left (by positivity)]
  have s3 := sq_le_sq' (abs_le.mp h3).1 (abs_le.mp h3).2
  have s4 := sq_le_sq' (abs_le.mp h4).1 (abs_le.mp h4).2
  have s5 := sq_le_sq' (abs_le.mp h5).1 (abs_le.mp h5).2
  have s6 := sq_le_sq' (abs_le.mp h6).1 (abs_le.mp h6).2
  nlinarith

/-- from a componentwise `Approx` with magnitudes bounded by `M` to the componentwise bound -/
theorem Approx.bound {u : ℝ} (hu : 0 ≤ u) {k : ℕ} {a A S M : ℝ} (h : Approx u k a A S) (hS : S ≤ M) :
    |a - A| ≤ ((1 + u) ^ k - 1) * M := by
  have : 0 ≤ (1 + u) ^ k - 1 := by
    have := one_le_pow₀ (M₀ := ℝ) (a := 1 + u) (by linarith) (n := k); linarith
  exact le_trans h.1 (mul_le_mul_of_nonneg_left hS this)

/-! ### `⊕` and `⊖` of the generated code in rounded arithmetic -/

section ops
variable {u : ℝ} {rnd : ℝ → ℝ}

/-- **`η` for `⊕`, proved.**  The quaternion part of the generated `PoseSE3.add` (se3.py:166-169), evaluated with a
    rounding obeying the standard model after each of its 16 multiplications and 12 additions/subtractions, is within
    `2((1+u)⁴−1) ‖p‖ ‖q‖` of the quaternion part of the exact `PoseSE3.add` of the same operands (`≈ 8u ‖p‖‖q‖`).
    No assumption on the operands. -/
theorem add_fl_qdist (hu : 0 ≤ u) (hr : StdRnd u rnd) (p q : Fin 7 → Fl rnd) :
    qdist (vl (PoseSE3.add p q)) (PoseSE3.add (vl p) (vl q))
      ≤ 2 * ((1 + u) ^ 4 - 1) * (qn (vl p) * qn (vl q)) := by
  rw [mul_assoc]
  apply qdist_le_of_comp
  · have h := Approx.sub_mul hu hr (Approx.add_mul hu hr (Approx.add_mul hu hr
      (Approx.mul hr (p 6).val (q 3).val) le_rfl (p 3).val (q 6).val) (by norm_num) (p 4).val (q 5).val)
      (by norm_num) (p 5).val (q 4).val
    exact h.bound hu (comp_magnitude_le (by unfold qnorm2; simp only [vl_apply]; ring)
      (by unfold qnorm2; simp only [vl_apply]; ring))
  · have h := Approx.add_mul hu hr (Approx.add_mul hu hr (Approx.sub_mul hu hr
      (Approx.mul hr (p 6).val (q 4).val) le_rfl (p 3).val (q 5).val) (by norm_num) (p 4).val (q 6).val)
      (by norm_num) (p 5).val (q 3).val
    exact h.bound hu (comp_magnitude_le (by unfold qnorm2; simp only [vl_apply]; ring)
      (by unfold qnorm2; simp only [vl_apply]; ring))
  · have h := Approx.add_mul hu hr (Approx.sub_mul hu hr (Approx.add_mul hu hr
      (Approx.mul hr (p 6).val (q 5).val) le_rfl (p 3).val (q 4).val) (by norm_num) (p 4).val (q 3).val)
      (by norm_num) (p 5).val (q 6).val
    exact h.bound hu (comp_magnitude_le (by unfold qnorm2; simp only [vl_apply]; ring)
      (by unfold qnorm2; simp only [vl_apply]; ring))
  · have h := Approx.sub_mul hu hr (Approx.sub_mul hu hr (Approx.sub_mul hu hr
      (Approx.mul hr (p 6).val (q 6).val) le_rfl (p 3).val (q 3).val) (by norm_num) (p 4).val (q 4).val)
      (by norm_num) (p 5).val (q 5).val
    exact h.bound hu (comp_magnitude_le (by unfold qnorm2; simp only [vl_apply]; ring)
      (by unfold qnorm2; simp only [vl_apply]; ring))

/-- **`η` for `⊖`, proved** (se3.py:226-229), same constant -/
theorem sub_fl_qdist (hu : 0 ≤ u) (hr : StdRnd u rnd) (p q : Fin 7 → Fl rnd) :
    qdist (vl (PoseSE3.sub p q)) (PoseSE3.sub (vl p) (vl q))
      ≤ 2 * ((1 + u) ^ 4 - 1) * (qn (vl p) * qn (vl q)) := by
  rw [mul_assoc]
  apply qdist_le_of_comp
  · have h := Approx.add_mul hu hr (Approx.sub_mul hu hr (Approx.sub_mul hu hr
      (Approx.mul hr (q 6).val (p 3).val) le_rfl (q 3).val (p 6).val) (by norm_num) (q 4).val (p 5).val)
      (by norm_num) (q 5).val (p 4).val
    rw [mul_comm (qn (vl p))]
    exact h.bound hu (comp_magnitude_le (by unfold qnorm2; simp only [vl_apply]; ring)
      (by unfold qnorm2; simp only [vl_apply]; ring))
  · have h := Approx.sub_mul hu hr (Approx.sub_mul hu hr (Approx.add_mul hu hr
      (Approx.mul hr (q 6).val (p 4).val) le_rfl (q 3).val (p 5).val) (by norm_num) (q 4).val (p 6).val)
      (by norm_num) (q 5).val (p 3).val
    rw [mul_comm (qn (vl p))]
    exact h.bound hu (comp_magnitude_le (by unfold qnorm2; simp only [vl_apply]; ring)
      (by unfold qnorm2; simp only [vl_apply]; ring))
  · have h := Approx.sub_mul hu hr (Approx.add_mul hu hr (Approx.sub_mul hu hr
      (Approx.mul hr (q 6).val (p 5).val) le_rfl (q 3).val (p 4).val) (by norm_num) (q 4).val (p 3).val)
      (by norm_num) (q 5).val (p 6).val
    rw [mul_comm (qn (vl p))]
    exact h.bound hu (comp_magnitude_le (by unfold qnorm2; simp only [vl_apply]; ring)
      (by unfold qnorm2; simp only [vl_apply]; ring))
  · have h := Approx.add_mul hu hr (Approx.add_mul hu hr (Approx.add_mul hu hr
      (Approx.mul hr (q 6).val (p 6).val) le_rfl (q 3).val (p 3).val) (by norm_num) (q 4).val (p 4).val)
      (by norm_num) (q 5).val (p 5).val
    rw [mul_comm (qn (vl p))]
    exact h.bound hu (comp_magnitude_le (by unfold qnorm2; simp only [vl_apply]; ring)
      (by unfold qnorm2; simp only [vl_apply]; ring))

/-- the quaternion part of the generated `inverse` (se3.py:141-144) is exact in rounded arithmetic (sign flips) -/
theorem inverse_fl_quat (p : Fin 7 → Fl rnd) :
    vl (PoseSE3.inverse p) 3 = PoseSE3.inverse (vl p) 3 ∧ vl (PoseSE3.inverse p) 4 = PoseSE3.inverse (vl p) 4 ∧
    vl (PoseSE3.inverse p) 5 = PoseSE3.inverse (vl p) 5 ∧ vl (PoseSE3.inverse p) 6 = PoseSE3.inverse (vl p) 6 :=
  ⟨rfl, rfl, rfl, rfl⟩

/-- `copy` is exact -/
theorem copy_fl (p : Fin 7 → Fl rnd) : vl (PoseSE3.copy p) = PoseSE3.copy (vl p) := by
  funext i; fin_cases i <;> rfl

theorem identity_fl : vl (PoseSE3.identity (E := Fl rnd)) = PoseSE3.identity (E := ℝ) := by
  funext i; fin_cases i <;> rfl

end ops

/-! ### the optimizer update `⊞` in rounded arithmetic -/

section boxplus
variable {u : ℝ} {rnd : ℝ → ℝ}

theorem StdRnd.bounds (hr : StdRnd u rnd) {x : ℝ} (hx : 0 ≤ x) : (1 - u) * x ≤ rnd x ∧ rnd x ≤ (1 + u) * x := by
  have := hr x
  rw [abs_of_nonneg hx, abs_le] at this
  constructor <;> linarith [this.1, this.2]

theorem StdRnd.zero (hr : StdRnd u rnd) : rnd 0 = 0 := by
  have := hr 0
  simpa using this

theorem StdRnd.nonneg (hr : StdRnd u rnd) (hu1 : u ≤ 1) {x : ℝ} (hx : 0 ≤ x) : 0 ≤ rnd x :=
  le_trans (mul_nonneg (by linarith) hx) (hr.bounds hx).1

/-- numeric bounds on `(1+u)^k` for `u ≤ 1/100` -/
theorem pow_one_add_le (hu0 : 0 ≤ u) (hu : u ≤ 1 / 100) :
    (1 + u) ^ 2 ≤ 1 + 201 / 100 * u ∧ (1 + u) ^ 3 ≤ 1 + 304 / 100 * u ∧ (1 + u) ^ 4 ≤ 1 + 407 / 100 * u := by
  have huu : u * u ≤ u / 100 := by nlinarith
  have h2 : (1 + u) ^ 2 ≤ 1 + 201 / 100 * u := by nlinarith
  have h3 : (1 + u) ^ 3 ≤ 1 + 304 / 100 * u := by
    have e : (1 + u) ^ 3 = (1 + u) ^ 2 * (1 + u) := by ring
    have := mul_le_mul_of_nonneg_right h2 (by linarith : 0 ≤ 1 + u)
    rw [e]; nlinarith
  have h4 : (1 + u) ^ 4 ≤ 1 + 407 / 100 * u := by
    have e : (1 + u) ^ 4 = (1 + u) ^ 3 * (1 + u) := by ring
    have := mul_le_mul_of_nonneg_right h3 (by linarith : 0 ≤ 1 + u)
    rw [e]; nlinarith
  exact ⟨h2, h3, h4⟩

/-- the computed `qnorm**2` of se3.py:185: `S` is the computed sum of squares (three rounded products, two rounded sums),
    `qnorm = rnd √S`, and the branch `qnorm ≤ 1` was taken.  Then `m = rnd (qnorm·qnorm)` lies in `[0, 1+u]` and is
    within `6.7u` of the exact `V = ‖δ_v‖²`. -/
theorem qnorm2_computed (hu0 : 0 ≤ u) (hu : u ≤ 1 / 100) (hr : StdRnd u rnd) (V S : ℝ) (hV : 0 ≤ V)
    (hS : |S - V| ≤ ((1 + u) ^ 3 - 1) * V) (hn : ¬ rnd (Real.sqrt S) > 1) :
    0 ≤ rnd (rnd (Real.sqrt S) * rnd (Real.sqrt S)) ∧ rnd (rnd (Real.sqrt S) * rnd (Real.sqrt S)) ≤ 1 + u ∧
      |V - rnd (rnd (Real.sqrt S) * rnd (Real.sqrt S))| ≤ 67 / 10 * u := by
  obtain ⟨p2, p3, -⟩ := pow_one_add_le hu0 hu
  have huu : u * u ≤ u / 100 := by nlinarith
  have hu1 : u ≤ 1 := by linarith
  have hS' := abs_le.mp hS
  have hg : ((1 + u) ^ 3 - 1) * V ≤ 304 / 100 * u * V := by
    have := mul_le_mul_of_nonneg_right (by linarith : (1 + u) ^ 3 - 1 ≤ 304 / 100 * u) hV
    linarith
  have S_lo : (1 - 304 / 100 * u) * V ≤ S := by linarith [hS'.1]
  have S_hi : S ≤ (1 + 304 / 100 * u) * V := by linarith [hS'.2]
  have S0 : 0 ≤ S := le_trans (mul_nonneg (by linarith) hV) S_lo
  -- r = √S, n = rnd r
  have hr2 : Real.sqrt S ^ 2 = S := Real.sq_sqrt S0
  have r0 : 0 ≤ Real.sqrt S := Real.sqrt_nonneg S
  generalize Real.sqrt S = r at hr2 r0 hn ⊢
  have hnb := hr.bounds r0
  have n0 : 0 ≤ rnd r := hr.nonneg hu1 r0
  have n1 : rnd r ≤ 1 := not_lt.mp hn
  generalize rnd r = n at hnb n0 n1 ⊢
  -- t = n*n
  have t0 : 0 ≤ n * n := mul_nonneg n0 n0
  have t1 : n * n ≤ 1 := mul_le_one₀ n1 n0 n1
  have t_lo : (1 - u) ^ 2 * S ≤ n * n := by
    have := mul_self_le_mul_self (mul_nonneg (by linarith : 0 ≤ 1 - u) r0) hnb.1
    have e : (1 - u) * r * ((1 - u) * r) = (1 - u) ^ 2 * r ^ 2 := by ring
    rw [e, hr2] at this; exact this
  have t_hi : n * n ≤ (1 + u) ^ 2 * S := by
    have := mul_self_le_mul_self n0 hnb.2
    have e : (1 + u) * r * ((1 + u) * r) = (1 + u) ^ 2 * r ^ 2 := by ring
    rw [e, hr2] at this; exact this
  generalize n * n = t at t0 t1 t_lo t_hi ⊢
  clear hnb n0 n1 hr2 r0 hn
  -- m = rnd t
  have hmb := hr.bounds t0
  have m0 : 0 ≤ rnd t := hr.nonneg hu1 t0
  have m_le : rnd t ≤ 1 + u := by
    have : (1 + u) * t ≤ (1 + u) * 1 := mul_le_mul_of_nonneg_left t1 (by linarith)
    linarith [hmb.2]
  have m_lo : (1 - 61 / 10 * u) * V ≤ rnd t := by
    have a1 : (1 - u) * ((1 - u) ^ 2 * ((1 - 304 / 100 * u) * V)) ≤ rnd t := by
      have b1 : (1 - u) ^ 2 * ((1 - 304 / 100 * u) * V) ≤ (1 - u) ^ 2 * S :=
        mul_le_mul_of_nonneg_left S_lo (by positivity)
      have b2 : (1 - u) * ((1 - u) ^ 2 * ((1 - 304 / 100 * u) * V)) ≤ (1 - u) * t :=
        mul_le_mul_of_nonneg_left (le_trans b1 t_lo) (by linarith)
      linarith [hmb.1]
    have a2 : (1 - 61 / 10 * u) ≤ (1 - u) * ((1 - u) ^ 2 * (1 - 304 / 100 * u)) := by
      have c1 : 1 - 3 * u ≤ (1 - u) ^ 3 := by
        have := one_sub_mul_le_pow' hu1 3
        simpa using this
      have c2 : (1 - 3 * u) * (1 - 304 / 100 * u) ≤ (1 - u) ^ 3 * (1 - 304 / 100 * u) :=
        mul_le_mul_of_nonneg_right c1 (by linarith)
      have e : (1 - u) * ((1 - u) ^ 2 * (1 - 304 / 100 * u)) = (1 - u) ^ 3 * (1 - 304 / 100 * u) := by ring
      have c3 : 1 - 61 / 10 * u ≤ (1 - 3 * u) * (1 - 304 / 100 * u) := by nlinarith
      rw [e]; linarith
    have := mul_le_mul_of_nonneg_right a2 hV
    have e : (1 - u) * ((1 - u) ^ 2 * (1 - 304 / 100 * u)) * V
        = (1 - u) * ((1 - u) ^ 2 * ((1 - 304 / 100 * u) * V)) := by ring
    linarith
  have m_hi : rnd t ≤ (1 + 62 / 10 * u) * V := by
    have a1 : rnd t ≤ (1 + u) * ((1 + u) ^ 2 * ((1 + 304 / 100 * u) * V)) := by
      have b1 : (1 + u) ^ 2 * S ≤ (1 + u) ^ 2 * ((1 + 304 / 100 * u) * V) :=
        mul_le_mul_of_nonneg_left S_hi (by positivity)
      have b2 : (1 + u) * t ≤ (1 + u) * ((1 + u) ^ 2 * ((1 + 304 / 100 * u) * V)) :=
        mul_le_mul_of_nonneg_left (le_trans t_hi b1) (by linarith)
      linarith [hmb.2]
    have a2 : (1 + u) * ((1 + u) ^ 2 * (1 + 304 / 100 * u)) ≤ 1 + 62 / 10 * u := by
      have e : (1 + u) * ((1 + u) ^ 2 * (1 + 304 / 100 * u)) = (1 + u) ^ 3 * (1 + 304 / 100 * u) := by ring
      have c2 : (1 + u) ^ 3 * (1 + 304 / 100 * u) ≤ (1 + 304 / 100 * u) * (1 + 304 / 100 * u) :=
        mul_le_mul_of_nonneg_right p3 (by linarith)
      have c3 : (1 + 304 / 100 * u) * (1 + 304 / 100 * u) ≤ 1 + 62 / 10 * u := by nlinarith
      rw [e]; linarith
    have := mul_le_mul_of_nonneg_right a2 hV
    have e : (1 + u) * ((1 + u) ^ 2 * (1 + 304 / 100 * u)) * V
        = (1 + u) * ((1 + u) ^ 2 * ((1 + 304 / 100 * u) * V)) := by ring
    linarith
  have V_le : V ≤ 108 / 100 := by
    have h1 : (1 - 61 / 10 * u) * V ≤ 1 + u := le_trans m_lo m_le
    have h2 : (939 / 1000) * V ≤ (1 - 61 / 10 * u) * V := mul_le_mul_of_nonneg_right (by linarith) hV
    linarith
  have huV : u * V ≤ u * (108 / 100) := mul_le_mul_of_nonneg_left V_le hu0
  refine ⟨m0, m_le, ?_⟩
  rw [abs_le]; constructor <;> linarith

/-- the computed `qw = np.sqrt(1.0 - m)` (se3.py:185) for a computed `m = qnorm²` in `[0, 1+u]`: `qw²` is within
    `3.04u` of `1 − m`.  (If the rounded difference came out negative — impossible for a monotone rounding — the
    real square root is `0`, and the bound still holds.) -/
theorem qw_computed (hu0 : 0 ≤ u) (hu : u ≤ 1 / 100) (hr : StdRnd u rnd) (m : ℝ) (m0 : 0 ≤ m) (m_le : m ≤ 1 + u) :
    |rnd (Real.sqrt (rnd (1 - m))) ^ 2 - (1 - m)| ≤ 304 / 100 * u := by
  have huu : u * u ≤ u / 100 := by nlinarith
  have hu1 : u ≤ 1 := by linarith
  have hy_abs : |1 - m| ≤ 1 := by rw [abs_le]; constructor <;> linarith
  have hx := hr (1 - m)
  have hxy : |rnd (1 - m) - (1 - m)| ≤ u := le_trans hx (by nlinarith [abs_nonneg (1 - m)])
  by_cases hx0 : 0 ≤ rnd (1 - m)
  · have hs2 : Real.sqrt (rnd (1 - m)) ^ 2 = rnd (1 - m) := Real.sq_sqrt hx0
    have s0 : 0 ≤ Real.sqrt (rnd (1 - m)) := Real.sqrt_nonneg _
    have x_le : rnd (1 - m) ≤ 101 / 100 := by
      have := (abs_le.mp hxy).2; linarith
    generalize rnd (1 - m) = x at hx hxy hx0 hs2 s0 x_le ⊢
    generalize Real.sqrt x = s at hs2 s0 ⊢
    have hwb := hr.bounds s0
    have w0 : 0 ≤ rnd s := hr.nonneg hu1 s0
    generalize rnd s = w at hwb w0 ⊢
    have w_lo : (1 - u) ^ 2 * x ≤ w ^ 2 := by
      have := mul_self_le_mul_self (mul_nonneg (by linarith : 0 ≤ 1 - u) s0) hwb.1
      have e : (1 - u) * s * ((1 - u) * s) = (1 - u) ^ 2 * s ^ 2 := by ring
      rw [e, hs2] at this; rw [sq w]; exact this
    have w_hi : w ^ 2 ≤ (1 + u) ^ 2 * x := by
      have := mul_self_le_mul_self w0 hwb.2
      have e : (1 + u) * s * ((1 + u) * s) = (1 + u) ^ 2 * s ^ 2 := by ring
      rw [e, hs2] at this; rw [sq w]; exact this
    have hwx : |w ^ 2 - x| ≤ 204 / 100 * u := by
      have hux : u * x ≤ u * (101 / 100) := mul_le_mul_of_nonneg_left x_le hu0
      have hux0 : 0 ≤ u * x := mul_nonneg hu0 hx0
      have huux : u * u * x ≤ u / 100 * x := mul_le_mul_of_nonneg_right huu hx0
      have e1 : (1 - u) ^ 2 * x = x - 2 * (u * x) + u * u * x := by ring
      have e2 : (1 + u) ^ 2 * x = x + 2 * (u * x) + u * u * x := by ring
      have hx2 : 0 ≤ u * u * x := mul_nonneg (mul_nonneg hu0 hu0) hx0
      have e3 : u / 100 * x = (u * x) / 100 := by ring
      rw [e1] at w_lo; rw [e2] at w_hi; rw [e3] at huux
      rw [abs_le]; constructor <;> linarith
    have e : w ^ 2 - (1 - m) = (w ^ 2 - x) + (x - (1 - m)) := by ring
    rw [e]
    have := abs_add_le (w ^ 2 - x) (x - (1 - m))
    linarith
  · have hx0' : rnd (1 - m) < 0 := not_le.mp hx0
    have hs : Real.sqrt (rnd (1 - m)) = 0 := Real.sqrt_eq_zero_of_nonpos hx0'.le
    rw [hs, hr.zero]
    have yneg : 1 - m < 0 := by
      by_contra hcon
      have hy0 : 0 ≤ 1 - m := not_lt.mp hcon
      have h1 := (hr.bounds hy0).1
      have h2 : 0 ≤ (1 - u) * (1 - m) := mul_nonneg (by linarith) hy0
      linarith
    have e : (0 : ℝ) ^ 2 - (1 - m) = -(1 - m) := by ring
    rw [e, abs_neg, abs_of_neg yneg]; linarith

/-- **the scalar part of the increment quaternion, as computed** (se3.py:180-185): `qnorm = ‖δ_v‖` is the rounded root of
    the rounded sum of squares `S`; the branch `qnorm ≤ 1` is taken on the *computed* value; `qw` is the rounded root of
    the rounded `1 − qnorm²`.  Its square is within `10u` of the exact `1 − ‖δ_v‖²`. -/
theorem increment_w_error (hu0 : 0 ≤ u) (hu : u ≤ 1 / 100) (hr : StdRnd u rnd) (V S : ℝ) (hV : 0 ≤ V)
    (hS : |S - V| ≤ ((1 + u) ^ 3 - 1) * V) (hn : ¬ rnd (Real.sqrt S) > 1) :
    |rnd (Real.sqrt (rnd (1 - rnd (rnd (Real.sqrt S) * rnd (Real.sqrt S))))) ^ 2 - (1 - V)| ≤ 10 * u := by
  obtain ⟨m0, m_le, hVm⟩ := qnorm2_computed hu0 hu hr V S hV hS hn
  have hw := qw_computed hu0 hu hr _ m0 m_le
  generalize rnd (rnd (Real.sqrt S) * rnd (Real.sqrt S)) = m at m0 m_le hVm hw ⊢
  generalize rnd (Real.sqrt (rnd (1 - m))) ^ 2 = W at hw ⊢
  have e : W - (1 - V) = (W - (1 - m)) + (V - m) := by ring
  rw [e]
  have := abs_add_le (W - (1 - m)) (V - m)
  linarith

/-- the increment pose the generated `PoseSE3.boxplus` composes with, **as computed** in `Fl rnd`: literally the
    sub-expressions `qx, qy, qz, qw` of se3.py:180-186 as they appear in the generated definition -/
noncomputable def incrementFl (δ : Fin 6 → Fl rnd) : Fin 7 → Fl rnd := fun i => match i with
  | 0 => δ 0
  | 1 => δ 1
  | 2 => δ 2
  | 3 => (if ScalarF.gt (ScalarF.sqrt (δ 3 * δ 3 + δ 4 * δ 4 + δ 5 * δ 5)) (Scalar.ofInt 1) = true then Scalar.ofInt 0 else δ 3)
  | 4 => (if ScalarF.gt (ScalarF.sqrt (δ 3 * δ 3 + δ 4 * δ 4 + δ 5 * δ 5)) (Scalar.ofInt 1) = true then Scalar.ofInt 0 else δ 4)
  | 5 => (if ScalarF.gt (ScalarF.sqrt (δ 3 * δ 3 + δ 4 * δ 4 + δ 5 * δ 5)) (Scalar.ofInt 1) = true then Scalar.ofInt 0 else δ 5)
  | 6 => (if ScalarF.gt (ScalarF.sqrt (δ 3 * δ 3 + δ 4 * δ 4 + δ 5 * δ 5)) (Scalar.ofInt 1) = true then Scalar.ofInt 1 else ScalarF.sqrt (Scalar.ofInt 1 - ScalarF.sqrt (δ 3 * δ 3 + δ 4 * δ 4 + δ 5 * δ 5) * ScalarF.sqrt (δ 3 * δ 3 + δ 4 * δ 4 + δ 5 * δ 5)))

/-- the quaternion part of the generated `boxplus` in rounded arithmetic is that of the generated `add` applied to the
    computed increment (syntactically: same operations in the same order) -/
theorem boxplus_fl_quat (p : Fin 7 → Fl rnd) (δ : Fin 6 → Fl rnd) :
    PoseSE3.boxplus p δ 3 = PoseSE3.add p (incrementFl δ) 3 ∧ PoseSE3.boxplus p δ 4 = PoseSE3.add p (incrementFl δ) 4 ∧
    PoseSE3.boxplus p δ 5 = PoseSE3.add p (incrementFl δ) 5 ∧ PoseSE3.boxplus p δ 6 = PoseSE3.add p (incrementFl δ) 6 :=
  ⟨rfl, rfl, rfl, rfl⟩

/-- **the computed increment quaternion is unit to within `10u`**, in both branches of se3.py:181 (in the fallback
    branch it is exactly `(0,0,0,1)`) -/
theorem incrementFl_norm (hu0 : 0 ≤ u) (hu : u ≤ 1 / 100) (hr : StdRnd u rnd) (δ : Fin 6 → Fl rnd) :
    |qn (vl (incrementFl δ)) - 1| ≤ 10 * u := by
  by_cases hc : ScalarF.gt (ScalarF.sqrt (δ 3 * δ 3 + δ 4 * δ 4 + δ 5 * δ 5)) (Scalar.ofInt 1 : Fl rnd) = true
  · have hunit : Unit4 (vl (incrementFl δ)) := by
      unfold Unit4
      simp only [vl_apply, incrementFl, hc, if_true, Fl.val_ofInt]
      norm_num
    rw [qn_of_unit hunit]; simp; positivity
  · have hS : Approx u 3 ((δ 3 * δ 3 + δ 4 * δ 4 + δ 5 * δ 5 : Fl rnd).val)
        ((δ 3).val * (δ 3).val + (δ 4).val * (δ 4).val + (δ 5).val * (δ 5).val)
        (|(δ 3).val| * |(δ 3).val| + |(δ 4).val| * |(δ 4).val| + |(δ 5).val| * |(δ 5).val|) :=
      Approx.add_mul hu0 hr (Approx.add_mul hu0 hr (Approx.mul hr (δ 3).val (δ 3).val) le_rfl (δ 4).val (δ 4).val)
        (by norm_num) (δ 5).val (δ 5).val
    have hSV : |(δ 3).val| * |(δ 3).val| + |(δ 4).val| * |(δ 4).val| + |(δ 5).val| * |(δ 5).val|
        = (δ 3).val * (δ 3).val + (δ 4).val * (δ 4).val + (δ 5).val * (δ 5).val := by
      simp only [abs_mul_abs_self]
    have hV : 0 ≤ (δ 3).val * (δ 3).val + (δ 4).val * (δ 4).val + (δ 5).val * (δ 5).val := by
      nlinarith [mul_self_nonneg (δ 3).val, mul_self_nonneg (δ 4).val, mul_self_nonneg (δ 5).val]
    have hS1 := hS.1
    rw [hSV] at hS1
    have hc' : ¬ rnd (Real.sqrt ((δ 3 * δ 3 + δ 4 * δ 4 + δ 5 * δ 5 : Fl rnd).val)) > 1 := by
      intro h
      apply hc
      rw [Fl.gt_iff]
      simpa using h
    have hw := increment_w_error hu0 hu hr _ _ hV hS1 hc'
    refine increment_computed (fun i => match i with
        | 0 => (δ 0).val | 1 => (δ 1).val | 2 => (δ 2).val | 3 => (δ 3).val | 4 => (δ 4).val | 5 => (δ 5).val)
      (vl (incrementFl δ) 6) (10 * u) (vl (incrementFl δ)) ?_ ?_ ?_ rfl ?_
    · simp only [vl_apply, incrementFl, hc]; rfl
    · simp only [vl_apply, incrementFl, hc]; rfl
    · simp only [vl_apply, incrementFl, hc]; rfl
    · unfold vnorm2
      simp only [vl_apply, incrementFl, hc]
      simpa using hw

end boxplus

/-! ### `normalize()` in rounded arithmetic -/

section normalize
variable {u : ℝ} {rnd : ℝ → ℝ}

/-- componentwise relative errors of size `κ` give a distance of at most `κ ‖b‖` -/
theorem qdist_le_of_rel {a b : Fin 7 → ℝ} {κ : ℝ} (hκ : 0 ≤ κ) (h3 : |a 3 - b 3| ≤ κ * |b 3|)
    (h4 : |a 4 - b 4| ≤ κ * |b 4|) (h5 : |a 5 - b 5| ≤ κ * |b 5|) (h6 : |a 6 - b 6| ≤ κ * |b 6|) :
    qdist a b ≤ κ * qn b := by
  unfold qdist
  rw [Real.sqrt_le_left (mul_nonneg hκ (qn_nonneg b)), mul_pow, qn_sq]
  have key : ∀ x y : ℝ, |x| ≤ κ * |y| → x ^ 2 ≤ κ ^ 2 * y ^ 2 := by
    intro x y h
    have := mul_self_le_mul_self (abs_nonneg x) h
    rw [abs_mul_abs_self] at this
    have e : κ * |y| * (κ * |y|) = κ ^ 2 * (|y| * |y|) := by ring
    rw [e, abs_mul_abs_self] at this
    nlinarith
  have k3 := key _ _ h3; have k4 := key _ _ h4; have k5 := key _ _ h5; have k6 := key _ _ h6
  unfold qnorm2; nlinarith

/-- the computed norm `‖q‖` of se3.py:49 (`np.linalg.norm`: rounded root of the rounded sum of squares `S`) and the
    computed divisor `sgn * ‖q‖`: with `E = σ · rnd (σ · rnd √S)` one has `(1 − 4.1u) √N ≤ E ≤ (1 + 4.11u) √N` -/
theorem norm_computed (hu0 : 0 ≤ u) (hu : u ≤ 1 / 100) (hr : StdRnd u rnd) (N S σ : ℝ) (hN : 0 < N)
    (hS : |S - N| ≤ ((1 + u) ^ 4 - 1) * N) (hσ : σ = 1 ∨ σ = -1) :
    (1 - 41 / 10 * u) * Real.sqrt N ≤ σ * rnd (σ * rnd (Real.sqrt S)) ∧
      σ * rnd (σ * rnd (Real.sqrt S)) ≤ (1 + 411 / 100 * u) * Real.sqrt N := by
  obtain ⟨-, -, p4⟩ := pow_one_add_le hu0 hu
  have huu : u * u ≤ u / 100 := by nlinarith
  have hu1 : u ≤ 1 := by linarith
  have hS' := abs_le.mp hS
  have hg : ((1 + u) ^ 4 - 1) * N ≤ 407 / 100 * u * N := by
    have := mul_le_mul_of_nonneg_right (by linarith : (1 + u) ^ 4 - 1 ≤ 407 / 100 * u) hN.le
    linarith
  have S_lo : (1 - 407 / 100 * u) * N ≤ S := by linarith [hS'.1]
  have S_hi : S ≤ (1 + 407 / 100 * u) * N := by linarith [hS'.2]
  have hR2 : Real.sqrt N ^ 2 = N := Real.sq_sqrt hN.le
  have R0 : 0 < Real.sqrt N := Real.sqrt_pos.mpr hN
  generalize Real.sqrt N = R at hR2 R0 ⊢
  -- r̂ = √S
  have r_hi : Real.sqrt S ≤ (1 + 204 / 100 * u) * R := by
    rw [Real.sqrt_le_iff]
    refine ⟨by positivity, le_trans S_hi ?_⟩
    have : ((1 + 204 / 100 * u) * R) ^ 2 = (1 + 204 / 100 * u) ^ 2 * N := by rw [mul_pow, hR2]
    rw [this]
    exact mul_le_mul_of_nonneg_right (by nlinarith) hN.le
  have r_lo : (1 - 21 / 10 * u) * R ≤ Real.sqrt S := by
    apply Real.le_sqrt_of_sq_le
    refine le_trans ?_ S_lo
    have : ((1 - 21 / 10 * u) * R) ^ 2 = (1 - 21 / 10 * u) ^ 2 * N := by rw [mul_pow, hR2]
    rw [this]
    exact mul_le_mul_of_nonneg_right (by nlinarith) hN.le
  have r0 : 0 ≤ Real.sqrt S := Real.sqrt_nonneg S
  generalize Real.sqrt S = r at r_hi r_lo r0 ⊢
  -- n̂ = rnd r̂
  have hnb := hr.bounds r0
  have n0 : 0 ≤ rnd r := hr.nonneg hu1 r0
  have n_lo : (1 - 31 / 10 * u) * R ≤ rnd r := by
    have h1 : (1 - u) * ((1 - 21 / 10 * u) * R) ≤ (1 - u) * r := mul_le_mul_of_nonneg_left r_lo (by linarith)
    have h2 : (1 - 31 / 10 * u) * R ≤ (1 - u) * ((1 - 21 / 10 * u) * R) := by
      have : (1 - 31 / 10 * u) ≤ (1 - u) * (1 - 21 / 10 * u) := by nlinarith
      have := mul_le_mul_of_nonneg_right this R0.le
      linarith
    linarith [hnb.1]
  have n_hi : rnd r ≤ (1 + 307 / 100 * u) * R := by
    have h1 : (1 + u) * r ≤ (1 + u) * ((1 + 204 / 100 * u) * R) := mul_le_mul_of_nonneg_left r_hi (by linarith)
    have h2 : (1 + u) * ((1 + 204 / 100 * u) * R) ≤ (1 + 307 / 100 * u) * R := by
      have : (1 + u) * (1 + 204 / 100 * u) ≤ (1 + 307 / 100 * u) := by nlinarith
      have := mul_le_mul_of_nonneg_right this R0.le
      linarith
    linarith [hnb.2]
  generalize rnd r = n at n0 n_lo n_hi ⊢
  clear hnb r_hi r_lo r0
  -- E = σ · rnd (σ n̂)
  have hE : |σ * rnd (σ * n) - n| ≤ u * n := by
    have h := hr (σ * n)
    have hσ2 : σ * σ = 1 := by rcases hσ with h | h <;> rw [h] <;> norm_num
    have hσa : |σ| = 1 := by rcases hσ with h | h <;> rw [h] <;> norm_num
    have e : σ * rnd (σ * n) - n = σ * (rnd (σ * n) - σ * n) := by
      have : σ * (rnd (σ * n) - σ * n) = σ * rnd (σ * n) - (σ * σ) * n := by ring
      rw [this, hσ2, one_mul]
    rw [e, abs_mul, hσa, one_mul]
    rw [abs_mul, hσa, one_mul, abs_of_nonneg n0] at h
    exact h
  have hE' := abs_le.mp hE
  generalize σ * rnd (σ * n) = E at hE hE' ⊢
  have hun_lo : u * ((1 - 31 / 10 * u) * R) ≤ u * n := mul_le_mul_of_nonneg_left n_lo hu0
  have hun_hi : u * n ≤ u * ((1 + 307 / 100 * u) * R) := mul_le_mul_of_nonneg_left n_hi hu0
  have huR : u * u * R ≤ u / 100 * R := mul_le_mul_of_nonneg_right huu R0.le
  have huR0 : 0 ≤ u * R := mul_nonneg hu0 R0.le
  constructor
  · -- E ≥ (1-u) n ≥ (1-u)(1-3.1u) R ≥ (1-4.1u) R
    have h1 : (1 - u) * ((1 - 31 / 10 * u) * R) ≤ (1 - u) * n := mul_le_mul_of_nonneg_left n_lo (by linarith)
    have h2 : (1 - 41 / 10 * u) * R ≤ (1 - u) * ((1 - 31 / 10 * u) * R) := by
      have : (1 - u) * ((1 - 31 / 10 * u) * R) = R - 41 / 10 * (u * R) + 31 / 10 * (u * u * R) := by ring
      have h0 : 0 ≤ u * u * R := mul_nonneg (mul_nonneg hu0 hu0) R0.le
      rw [this]; linarith
    linarith [hE'.1]
  · have h1 : (1 + u) * n ≤ (1 + u) * ((1 + 307 / 100 * u) * R) := mul_le_mul_of_nonneg_left n_hi (by linarith)
    have h2 : (1 + u) * ((1 + 307 / 100 * u) * R) ≤ (1 + 411 / 100 * u) * R := by
      have : (1 + u) * ((1 + 307 / 100 * u) * R) = R + 407 / 100 * (u * R) + 307 / 100 * (u * u * R) := by ring
      have e3 : u / 100 * R = (u * R) / 100 := by ring
      rw [e3] at huR
      rw [this]; linarith
    linarith [hE'.2]

/-- one quaternion component of the computed `normalize()` (se3.py:48-49: `self[3:] /= sgn * np.linalg.norm(self[3:])`):
    relative error at most `6u` -/
theorem normalize_comp_error (hu0 : 0 ≤ u) (hu : u ≤ 1 / 100) (hr : StdRnd u rnd) (N S σ x : ℝ) (hN : 0 < N)
    (hS : |S - N| ≤ ((1 + u) ^ 4 - 1) * N) (hσ : σ = 1 ∨ σ = -1) :
    |rnd (x / rnd (σ * rnd (Real.sqrt S))) - x / (σ * Real.sqrt N)| ≤ 6 * u * |x / (σ * Real.sqrt N)| := by
  obtain ⟨hElo, hEhi⟩ := norm_computed hu0 hu hr N S σ hN hS hσ
  have huu : u * u ≤ u / 100 := by nlinarith
  have R0 : 0 < Real.sqrt N := Real.sqrt_pos.mpr hN
  have hσ2 : σ * σ = 1 := by rcases hσ with h | h <;> rw [h] <;> norm_num
  have hσ0 : σ ≠ 0 := by rcases hσ with h | h <;> rw [h] <;> norm_num
  generalize Real.sqrt N = R at R0 hElo hEhi ⊢
  generalize hD : rnd (σ * rnd (Real.sqrt S)) = D at hElo hEhi ⊢
  -- E = σ D > 0, D = σ E
  have E0 : 0 < σ * D := lt_of_lt_of_le (mul_pos (by linarith) R0) hElo
  have hDE : D = σ * (σ * D) := by rw [← mul_assoc, hσ2, one_mul]
  set E := σ * D with hEdef
  -- ρ = R / E
  have hρ_hi : R / E ≤ 1 + 43 / 10 * u := by
    rw [div_le_iff₀ E0]
    have h1 : (1 + 43 / 10 * u) * ((1 - 41 / 10 * u) * R) ≤ (1 + 43 / 10 * u) * E :=
      mul_le_mul_of_nonneg_left hElo (by linarith)
    have h2 : R ≤ (1 + 43 / 10 * u) * ((1 - 41 / 10 * u) * R) := by
      have : (1 : ℝ) ≤ (1 + 43 / 10 * u) * (1 - 41 / 10 * u) := by nlinarith
      have := mul_le_mul_of_nonneg_right this R0.le
      linarith
    linarith
  have hρ_lo : 1 - 411 / 100 * u ≤ R / E := by
    rw [le_div_iff₀ E0]
    have h1 : (1 - 411 / 100 * u) * E ≤ (1 - 411 / 100 * u) * ((1 + 411 / 100 * u) * R) :=
      mul_le_mul_of_nonneg_left hEhi (by linarith)
    have h2 : (1 - 411 / 100 * u) * ((1 + 411 / 100 * u) * R) ≤ R := by
      have : (1 - 411 / 100 * u) * (1 + 411 / 100 * u) ≤ 1 := by nlinarith
      have := mul_le_mul_of_nonneg_right this R0.le
      linarith
    linarith
  have hρ0 : 0 ≤ R / E := div_nonneg R0.le E0.le
  have hfac : x / D = x / (σ * R) * (R / E) := by
    rw [hDE]; field_simp
  generalize R / E = ρ at hρ_hi hρ_lo hρ0 hfac
  rw [hfac]
  generalize x / (σ * R) = c
  have h1 := hr (c * ρ)
  rw [abs_mul, abs_of_nonneg hρ0] at h1
  have hc0 := abs_nonneg c
  have h2 : |c * ρ - c| ≤ 43 / 10 * u * |c| := by
    have : c * ρ - c = c * (ρ - 1) := by ring
    rw [this, abs_mul]
    have : |ρ - 1| ≤ 43 / 10 * u := by rw [abs_le]; constructor <;> linarith
    nlinarith
  have h3 : u * (|c| * ρ) ≤ 105 / 100 * u * |c| := by
    have : |c| * ρ ≤ |c| * (105 / 100) := mul_le_mul_of_nonneg_left (by linarith) hc0
    nlinarith
  have e : rnd (c * ρ) - c = (rnd (c * ρ) - c * ρ) + (c * ρ - c) := by ring
  rw [e]
  have h4 := abs_add_le (rnd (c * ρ) - c * ρ) (c * ρ - c)
  have h5 : 0 ≤ u * |c| := mul_nonneg hu0 hc0
  linarith

/-- **(e) `normalize()` of the generated code in rounded arithmetic**: the computed quaternion is within `6u` of the
    exact `PoseSE3.normalize` of the same operand (which is exactly unit), whatever the norm of the operand -/
theorem normalize_fl_qdist (hu0 : 0 ≤ u) (hu : u ≤ 1 / 100) (hr : StdRnd u rnd) (p : Fin 7 → Fl rnd)
    (hp : qnorm2 (vl p) ≠ 0) :
    qdist (vl (PoseSE3.normalize p)) (PoseSE3.normalize (vl p)) ≤ 6 * u := by
  have hN : 0 < (p 3).val * (p 3).val + (p 4).val * (p 4).val + (p 5).val * (p 5).val + (p 6).val * (p 6).val := by
    have h0 := qnorm2_nonneg (vl p)
    have : qnorm2 (vl p) = (p 3).val * (p 3).val + (p 4).val * (p 4).val + (p 5).val * (p 5).val
        + (p 6).val * (p 6).val := by unfold qnorm2; simp only [vl_apply]; ring
    rw [← this]; exact lt_of_le_of_ne h0 (Ne.symm hp)
  have hS : Approx u 4 ((p 3 * p 3 + p 4 * p 4 + p 5 * p 5 + p 6 * p 6 : Fl rnd).val)
      ((p 3).val * (p 3).val + (p 4).val * (p 4).val + (p 5).val * (p 5).val + (p 6).val * (p 6).val)
      (|(p 3).val| * |(p 3).val| + |(p 4).val| * |(p 4).val| + |(p 5).val| * |(p 5).val|
        + |(p 6).val| * |(p 6).val|) :=
    Approx.add_mul hu0 hr (Approx.add_mul hu0 hr (Approx.add_mul hu0 hr (Approx.mul hr (p 3).val (p 3).val) le_rfl
      (p 4).val (p 4).val) (by norm_num) (p 5).val (p 5).val) (by norm_num) (p 6).val (p 6).val
  have hS1 := hS.1
  simp only [abs_mul_abs_self] at hS1
  have hmain : ∀ (σ : ℝ), (σ = 1 ∨ σ = -1) → ∀ x : ℝ,
      |rnd (x / rnd (σ * rnd (Real.sqrt ((p 3 * p 3 + p 4 * p 4 + p 5 * p 5 + p 6 * p 6 : Fl rnd).val))))
        - x / (σ * Real.sqrt ((p 3).val * (p 3).val + (p 4).val * (p 4).val + (p 5).val * (p 5).val
            + (p 6).val * (p 6).val))|
      ≤ 6 * u * |x / (σ * Real.sqrt ((p 3).val * (p 3).val + (p 4).val * (p 4).val + (p 5).val * (p 5).val
            + (p 6).val * (p 6).val))| :=
    fun σ hσ x => normalize_comp_error hu0 hu hr _ _ σ x hN hS1 hσ
  have hq : qn (PoseSE3.normalize (vl p)) = 1 := qn_normalize (vl p) hp
  have := qdist_le_of_rel (a := vl (PoseSE3.normalize p)) (b := PoseSE3.normalize (vl p)) (κ := 6 * u)
    (by positivity)
  rw [hq, mul_one] at this
  apply this
  all_goals
    by_cases hw : (p 6).val ≥ ((0 : ℤ) : ℝ)
    · simp only [vl_apply, PoseSE3.normalize, Fl.ge_iff, real_ge, real_div, real_sqrt, real_ofInt, Fl.val_div,
        Fl.val_mul, Fl.val_sqrt, Fl.val_ofInt, hw, if_true, Int.cast_one]
      exact hmain 1 (Or.inl rfl) _
    · simp only [vl_apply, PoseSE3.normalize, Fl.ge_iff, real_ge, real_div, real_sqrt, real_ofInt, Fl.val_div,
        Fl.val_mul, Fl.val_sqrt, Fl.val_ofInt, hw, if_false, Int.cast_neg, Int.cast_one]
      exact hmain (-1) (Or.inr rfl) _

end normalize

/-! ### any history of the generated operations, evaluated in rounded arithmetic -/

section chain
variable {u : ℝ} {rnd : ℝ → ℝ}

/-- `ReachFl rnd ε₀ p n l`: the array of floating-point numbers `p` is the result of a history of the **generated**
    `PoseSE3` operations evaluated in the rounded arithmetic `Fl rnd`, starting from `l₀ ≤ l` operands whose quaternion
    norm is within `ε₀` of 1 and from `identity`; `n` counts the operations that round the quaternion part
    (`⊕`, `⊖`, `⊞`, `normalize`), `l` the inexact operands plus one per `⊞` (its computed increment quaternion). -/
inductive ReachFl (rnd : ℝ → ℝ) (ε₀ : ℝ) : (Fin 7 → Fl rnd) → ℕ → ℕ → Prop
  | given (p : Fin 7 → Fl rnd) (h : |qn (vl p) - 1| ≤ ε₀) : ReachFl rnd ε₀ p 0 1
  | identity : ReachFl rnd ε₀ (PoseSE3.identity (E := Fl rnd)) 0 0
  | add {p q n₁ l₁ n₂ l₂} : ReachFl rnd ε₀ p n₁ l₁ → ReachFl rnd ε₀ q n₂ l₂ →
      ReachFl rnd ε₀ (PoseSE3.add p q) (n₁ + n₂ + 1) (l₁ + l₂)
  | sub {p q n₁ l₁ n₂ l₂} : ReachFl rnd ε₀ p n₁ l₁ → ReachFl rnd ε₀ q n₂ l₂ →
      ReachFl rnd ε₀ (PoseSE3.sub p q) (n₁ + n₂ + 1) (l₁ + l₂)
  | inverse {p n l} : ReachFl rnd ε₀ p n l → ReachFl rnd ε₀ (PoseSE3.inverse p) n l
  | copy {p n l} : ReachFl rnd ε₀ p n l → ReachFl rnd ε₀ (PoseSE3.copy p) n l
  | boxplus {p n l} (δ : Fin 6 → Fl rnd) : ReachFl rnd ε₀ p n l → ReachFl rnd ε₀ (PoseSE3.iadd_boxplus p δ) (n + 1) (l + 1)
  | normalize {p n l} : ReachFl rnd ε₀ p n l → qnorm2 (vl p) ≠ 0 → ReachFl rnd ε₀ (PoseSE3.normalize p) 1 0

/-- the rounding constant of one `⊕`/`⊖`: `η(u) = 2((1+u)⁴ − 1) ≈ 8u` -/
noncomputable def etaFl (u : ℝ) : ℝ := 2 * ((1 + u) ^ 4 - 1)

theorem etaFl_nonneg (hu0 : 0 ≤ u) : 0 ≤ etaFl u := by
  unfold etaFl
  have := one_le_pow₀ (M₀ := ℝ) (a := 1 + u) (by linarith) (n := 4)
  linarith

theorem etaFl_ge (hu0 : 0 ≤ u) : 8 * u ≤ etaFl u := by
  unfold etaFl
  have := one_add_mul_le_pow (a := u) (by linarith) 4
  push_cast at this
  linarith

theorem etaFl_le (hu0 : 0 ≤ u) (hu : u ≤ 1 / 100) : etaFl u ≤ 814 / 100 * u := by
  unfold etaFl
  have := (pow_one_add_le hu0 hu).2.2
  linarith

/-- one optimizer update `p ⊞ δ` of the generated code in rounded arithmetic: one rounding of size `η(u)` and one
    operand (the computed increment quaternion) within `10u` of unit norm -/
theorem boxplus_fl_step (hu0 : 0 ≤ u) (hu : u ≤ 1 / 100) (hr : StdRnd u rnd) {ε₀ : ℝ} (hε : 10 * u ≤ ε₀)
    (p : Fin 7 → Fl rnd) (δ : Fin 6 → Fl rnd) {n l : ℕ} (ih : ReachApprox (etaFl u) ε₀ (vl p) n l) :
    ReachApprox (etaFl u) ε₀ (vl (PoseSE3.iadd_boxplus p δ)) (n + 1) (l + 1) := by
  refine ReachApprox.boxplus_computed' (vl (incrementFl δ)) _ ih
    (le_trans (incrementFl_norm hu0 hu hr δ) hε) ?_
  have h := add_fl_qdist hu0 hr p (incrementFl δ)
  have e : qdist (vl (PoseSE3.iadd_boxplus p δ)) (PoseSE3.add (vl p) (vl (incrementFl δ)))
      = qdist (vl (PoseSE3.add p (incrementFl δ))) (PoseSE3.add (vl p) (vl (incrementFl δ))) :=
    qdist_congr_left rfl rfl rfl rfl
  rw [e]; exact h

/-- **a history evaluated in rounded arithmetic is a history of perturbed exact operations**: the values of every
    `ReachFl` array are `ReachApprox` with `η = 2((1+u)⁴−1)`, provided the standard model holds for `rnd` and
    `ε₀ ≥ 10u` (the error of a computed increment quaternion) -/
theorem reachFl_reachApprox (hu0 : 0 ≤ u) (hu : u ≤ 1 / 100) (hr : StdRnd u rnd) {ε₀ : ℝ} (hε : 10 * u ≤ ε₀)
    {p : Fin 7 → Fl rnd} {n l : ℕ} (h : ReachFl rnd ε₀ p n l) : ReachApprox (etaFl u) ε₀ (vl p) n l := by
  induction h with
  | given p h => exact .given _ h
  | identity => rw [identity_fl]; exact ReachApprox.identity
  | @add p q _ _ _ _ _ _ ihp ihq =>
    exact ReachApprox.add_computed _ ihp ihq (add_fl_qdist hu0 hr p q)
  | @sub p q _ _ _ _ _ _ ihp ihq =>
    exact ReachApprox.sub_computed _ ihp ihq (sub_fl_qdist hu0 hr p q)
  | @inverse p _ _ _ ih => exact .transl _ (.inverse ih) rfl rfl rfl rfl
  | @copy p _ _ _ ih => rw [copy_fl]; exact .copy ih
  | @boxplus p _ _ δ _ ih => exact boxplus_fl_step hu0 hu hr hε p δ ih
  | @normalize p _ _ _ hne ih =>
    exact ReachApprox.normalize_computed (vl p) _ hne
      (le_trans (normalize_fl_qdist hu0 hu hr p hne) (by linarith [etaFl_ge hu0]))

/-- **C11, rounding clause, for the generated code under the standard model.**  Every pose produced from operands
    whose quaternions are within `ε₀` of unit norm by any history of the generated `PoseSE3` operations
    (`+`, `-`, `inverse`, `copy`, `+=` box-plus — either branch —, `normalize`) evaluated with a rounding of relative error
    `u ≤ 1/100` after every arithmetic operation has
    `(1−ε₀)^l (1−η)^n ≤ ‖q‖ ≤ (1+ε₀)^l (1+η)^n`, `η = 2((1+u)⁴−1)`. -/
theorem chain_fl_bounds (hu0 : 0 ≤ u) (hu : u ≤ 1 / 100) (hr : StdRnd u rnd) {ε₀ : ℝ} (hε : 10 * u ≤ ε₀) (hε1 : ε₀ ≤ 1)
    {p : Fin 7 → Fl rnd} {n l : ℕ} (h : ReachFl rnd ε₀ p n l) :
    (1 - ε₀) ^ l * (1 - etaFl u) ^ n ≤ qn (vl p) ∧ qn (vl p) ≤ (1 + ε₀) ^ l * (1 + etaFl u) ^ n :=
  chain_bounds (etaFl_nonneg hu0) (by linarith [etaFl_le hu0 hu]) (by linarith) hε1
    (reachFl_reachApprox hu0 hu hr hε h)

/-- linearised: `|‖q‖ − 1| ≤ 2 (l ε₀ + n η)` -/
theorem chain_fl_linear (hu0 : 0 ≤ u) (hu : u ≤ 1 / 100) (hr : StdRnd u rnd) {ε₀ : ℝ} (hε : 10 * u ≤ ε₀)
    {p : Fin 7 → Fl rnd} {n l : ℕ} (h : ReachFl rnd ε₀ p n l) (hs : l * ε₀ + n * etaFl u ≤ 1 / 2) :
    |qn (vl p) - 1| ≤ 2 * (l * ε₀ + n * etaFl u) :=
  chain_linear (etaFl_nonneg hu0) (by linarith) (reachFl_reachApprox hu0 hu hr hε h) hs

/-- a history of `k` optimizer updates in rounded arithmetic (each: one rounding of size `η(u)`, one computed
    increment within `10u` of unit) drifts by at most `37 k u` -/
theorem drift_of_reach (hu0 : 0 ≤ u) (hu : u ≤ 1 / 100) {q : Fin 7 → ℝ} {k : ℕ}
    (hA : ReachApprox (etaFl u) (10 * u) q k k) (hk : k * u ≤ 1 / 37) : |qn q - 1| ≤ 37 * k * u := by
  have h1 := etaFl_le hu0 hu
  have hn0 : (0 : ℝ) ≤ k := Nat.cast_nonneg k
  have h2 : (k : ℝ) * etaFl u ≤ k * (814 / 100 * u) := mul_le_mul_of_nonneg_left h1 hn0
  have := chain_linear (etaFl_nonneg hu0) (by positivity) hA (by nlinarith)
  nlinarith

/-- **every SE(3) vertex after `n` optimizer iterations, in rounded arithmetic.**  `c 0` has an exactly unit quaternion;
    iteration `k` performs `c (k+1) = c k ⊞ δ k` with the generated `iadd_boxplus` in `Fl rnd`, for whatever increments
    `δ k` the solver returned.  Then `|‖q_n‖ − 1| ≤ 37 n u` as long as `n u ≤ 1/37`
    (`u = 2⁻⁵³`: `≈ 4.1·10⁻¹⁵ · n`, for up to `2.4·10¹⁴` iterations). -/
theorem iterate_boxplus_fl (hu0 : 0 ≤ u) (hu : u ≤ 1 / 100) (hr : StdRnd u rnd) (c : ℕ → Fin 7 → Fl rnd)
    (δ : ℕ → Fin 6 → Fl rnd) (h0 : Unit4 (vl (c 0))) (hstep : ∀ k, c (k + 1) = PoseSE3.iadd_boxplus (c k) (δ k))
    (n : ℕ) (hn : n * u ≤ 1 / 37) : |qn (vl (c n)) - 1| ≤ 37 * n * u := by
  have hA : ReachApprox (etaFl u) (10 * u) (vl (c n)) n n := by
    clear hn
    induction n with
    | zero => exact .unit _ h0
    | succ k ih => rw [hstep k]; exact boxplus_fl_step hu0 hu hr le_rfl (c k) (δ k) ih
  exact drift_of_reach hu0 hu hA hn

/-- binary64 (`u = 2⁻⁵³`) satisfies the smallness hypothesis `u ≤ 1/100` -/
theorem u_binary64 : (0 : ℝ) ≤ (1 / 2) ^ 53 ∧ ((1 / 2 : ℝ) ^ 53) ≤ 1 / 100 := by norm_num

/-- the numbers for binary64: under the standard model with `u = 2⁻⁵³`, after `n ≤ 10¹²` optimizer iterations in rounded
    arithmetic an initially unit SE(3) vertex quaternion has `|‖q‖ − 1| ≤ 4.2·10⁻¹⁵ · n` -/
theorem iterate_boxplus_binary64 (hr : StdRnd ((1 / 2) ^ 53) rnd) (c : ℕ → Fin 7 → Fl rnd)
    (δ : ℕ → Fin 6 → Fl rnd) (h0 : Unit4 (vl (c 0))) (hstep : ∀ k, c (k + 1) = PoseSE3.iadd_boxplus (c k) (δ k))
    (n : ℕ) (hn : n ≤ 10 ^ 12) : |qn (vl (c n)) - 1| ≤ 42 / 10 ^ 16 * n := by
  have hn' : (n : ℝ) ≤ 10 ^ 12 := by exact_mod_cast hn
  have hn0 : (0 : ℝ) ≤ n := Nat.cast_nonneg n
  have h := iterate_boxplus_fl u_binary64.1 u_binary64.2 hr c δ h0 hstep n (by
    have : (n : ℝ) * (1 / 2) ^ 53 ≤ 10 ^ 12 * (1 / 2) ^ 53 := mul_le_mul_of_nonneg_right hn' (by positivity)
    have h2 : (10 : ℝ) ^ 12 * (1 / 2) ^ 53 ≤ 1 / 37 := by norm_num
    linarith)
  have h3 : 37 * (n : ℝ) * (1 / 2) ^ 53 = (37 * (1 / 2) ^ 53) * n := by ring
  have h4 : (37 : ℝ) * (1 / 2) ^ 53 ≤ 42 / 10 ^ 16 := by norm_num
  have h5 : (37 * (1 / 2 : ℝ) ^ 53) * n ≤ 42 / 10 ^ 16 * n := mul_le_mul_of_nonneg_right h4 hn0
  linarith

/-! ### non-vacuity -/

/-- the standard model is satisfiable non-trivially: `rnd x = x (1 + u)` (always rounding away from zero by the full
    relative amount) obeys it for every `u ≥ 0`, and so does exact arithmetic `rnd = id` -/
example (u : ℝ) (hu : 0 ≤ u) : StdRnd u (fun x => x * (1 + u)) := by
  intro x
  have : x * (1 + u) - x = u * x := by ring
  rw [this, abs_mul, abs_of_nonneg hu]

example (u : ℝ) (hu : 0 ≤ u) : StdRnd u id := by
  intro x; simp; positivity

/-- …and with that rounding the computed `identity ⊕ identity` is **not** a unit quaternion (its scalar part is
    `(1+u)²` … ), while the theorems above bound its norm: the hypotheses are satisfiable and the conclusion is not
    trivially `‖q‖ = 1` -/
example : ∃ (rnd : ℝ → ℝ) (p : Fin 7 → Fl rnd), StdRnd (1 / 100) rnd ∧ ReachFl rnd (1 / 10) p 1 0 ∧
    ¬ Unit4 (vl p) := by
  refine ⟨fun x => x * (1 + 1 / 100), PoseSE3.add PoseSE3.identity PoseSE3.identity, ?_, ?_, ?_⟩
  · intro x
    have : x * (1 + 1 / 100) - x = 1 / 100 * x := by ring
    rw [this, abs_mul, abs_of_nonneg (by norm_num)]
  · exact ReachFl.add ReachFl.identity ReachFl.identity
  · unfold Unit4
    simp only [vl_apply, PoseSE3.add, PoseSE3.identity, Fl.val_add, Fl.val_sub, Fl.val_mul, Fl.val_ofInt]
    norm_num

end chain

end GraphSlam.Props.C11
