import GraphSlam.Props.C14.Dispatch
import GraphSlam.Props.C14.Lines
import GraphSlam.Props.C14.Stream
import GraphSlam.Props.C13.Triu
import GraphSlam.Props.C13.Example

/-!
# C14 — `.g2o` import is faithful to the file

Statements about the reader of the Layer-B model `GraphSlam.Model.G2O` (`parseLine`, `parseLines`, `Graph.fromG2O`, the
`load.py` wrappers), which the correspondence harness compares bitwise with `Graph.from_g2o` / `load_g2o*` on every run.
The ten per-tag theorems `line_faithful_<TAG>` are in `GraphSlam/Props/C14/Lines.lean`; helper lemmas in
`C14/Dispatch.lean`, `C14/Stream.lean`.
-/

namespace GraphSlam.Props.C14
open GraphSlam.Model.G2O GraphSlam.Props.C13

variable {A : Type}

set_option linter.unusedSimpArgs false

/-- **`dispatch_total_order`** — (1) the whole 10 × 10 table: no `TAG + " "` is a prefix of another one; hence (2) a line
starts with at most one of them, so the order of the `startswith` tests in `Graph.from_g2o` cannot matter between built-in
tags. -/
theorem dispatch_total_order :
    prefixFreeTable = true ∧
    ∀ (t t' line : Str), t ∈ T.all → t' ∈ T.all → t' ≠ t → startsWith (withSp t) line = true → startsWith (withSp t') line = false :=
  ⟨prefixFreeTable_true, fun _ _ _ ht ht' hne h => startsWith_excl ht ht' hne h⟩

/-- which constructor a tag leads to -/
inductive Slot | vertex | edge | param
  deriving DecidableEq

def slotOf (t : Str) : Slot :=
  if t = T.vertexXY ∨ t = T.vertexTrackXYZ ∨ t = T.vertexSE2 ∨ t = T.vertexSE3 then .vertex
  else if t = T.paramsSE2Offset ∨ t = T.paramsSE3Offset then .param else .edge

def _root_.GraphSlam.Model.G2O.LineOut.slot : LineOut A → Option Slot
  | .vertex _ => some .vertex | .edge _ => some .edge | .param _ => some .param | .unsupported => none

/-- **each supported line maps to exactly one constructor** (no custom edge types registered): a line that starts with
`TAG + " "` either raises or produces exactly one object of the kind the tag names — never a warning, never another kind. -/
theorem dispatch_constructor (env : Env A) (params : List (Param A)) (t line : Str) (out : LineOut A) (ht : t ∈ T.all)
    (hs : startsWith (withSp t) line = true) (h : parseLine env [] params line = .ok out) : out.slot = some (slotOf t) := by
  have e := fun t' h1 h2 => startsWith_excl (t' := t') ht h1 h2 hs
  have e1 := fun (h2 : T.vertexXY ≠ t) => e T.vertexXY (by simp [T.all]) h2
  have e2 := fun (h2 : T.vertexTrackXYZ ≠ t) => e T.vertexTrackXYZ (by simp [T.all]) h2
  have e3 := fun (h2 : T.vertexSE2 ≠ t) => e T.vertexSE2 (by simp [T.all]) h2
  have e4 := fun (h2 : T.vertexSE3 ≠ t) => e T.vertexSE3 (by simp [T.all]) h2
  have e5 := fun (h2 : T.edgeSE2 ≠ t) => e T.edgeSE2 (by simp [T.all]) h2
  have e6 := fun (h2 : T.edgeSE3 ≠ t) => e T.edgeSE3 (by simp [T.all]) h2
  have e7 := fun (h2 : T.edgeSE2XY ≠ t) => e T.edgeSE2XY (by simp [T.all]) h2
  have e8 := fun (h2 : T.edgeSE3TrackXYZ ≠ t) => e T.edgeSE3TrackXYZ (by simp [T.all]) h2
  have e9 := fun (h2 : T.paramsSE2Offset ≠ t) => e T.paramsSE2Offset (by simp [T.all]) h2
  simp only [T.all, List.mem_cons, List.not_mem_nil, or_false] at ht
  rcases ht with rfl | rfl | rfl | rfl | rfl | rfl | rfl | rfl | rfl | rfl
  · cases hx : Vertex.from_vertexXY env line <;>
      simp [parseLine, Vertex.fromG2O, hs, someE, hx] at h
    subst h; rfl
  · cases hx : Vertex.from_vertexTrackXYZ env line <;>
      simp [parseLine, Vertex.fromG2O, hs, e1 (by decide), someE, hx] at h
    subst h; rfl
  · cases hx : Vertex.from_vertexSE2 env line <;>
      simp [parseLine, Vertex.fromG2O, hs, e1 (by decide), e2 (by decide), someE, hx] at h
    subst h; rfl
  · cases hx : Vertex.from_vertexSE3 env line <;>
      simp [parseLine, Vertex.fromG2O, hs, e1 (by decide), e2 (by decide), e3 (by decide), someE, hx] at h
    subst h; rfl
  · cases hx : EdgeOdometry.from_edgeSE2 env line <;>
      simp [parseLine, Vertex.fromG2O, EdgeOdometry.fromG2O, customFromG2O, hs, e1 (by decide), e2 (by decide), e3 (by decide),
        e4 (by decide), someE, hx] at h
    subst h; rfl
  · cases hx : EdgeOdometry.from_edgeSE3 env line <;>
      simp [parseLine, Vertex.fromG2O, EdgeOdometry.fromG2O, customFromG2O, hs, e1 (by decide), e2 (by decide), e3 (by decide),
        e4 (by decide), e5 (by decide), someE, hx] at h
    subst h; rfl
  · cases hx : EdgeLandmark.from_edgeSE2XY env params line <;>
      simp [parseLine, Vertex.fromG2O, EdgeOdometry.fromG2O, EdgeLandmark.fromG2O, customFromG2O, hs, e1 (by decide), e2 (by decide),
        e3 (by decide), e4 (by decide), e5 (by decide), e6 (by decide), someE, hx] at h
    subst h; rfl
  · cases hx : EdgeLandmark.from_edgeSE3TrackXYZ env params line <;>
      simp [parseLine, Vertex.fromG2O, EdgeOdometry.fromG2O, EdgeLandmark.fromG2O, customFromG2O, hs, e1 (by decide), e2 (by decide),
        e3 (by decide), e4 (by decide), e5 (by decide), e6 (by decide), e7 (by decide), someE, hx] at h
    subst h; rfl
  · cases hx : Param.from_paramsSE2Offset env line <;>
      simp [parseLine, Vertex.fromG2O, EdgeOdometry.fromG2O, EdgeLandmark.fromG2O, Param.fromG2O, customFromG2O, hs, e1 (by decide),
        e2 (by decide), e3 (by decide), e4 (by decide), e5 (by decide), e6 (by decide), e7 (by decide), e8 (by decide), someE, hx] at h
    subst h; rfl
  · cases hx : Param.from_paramsSE3Offset env line <;>
      simp [parseLine, Vertex.fromG2O, EdgeOdometry.fromG2O, EdgeLandmark.fromG2O, Param.fromG2O, customFromG2O, hs, e1 (by decide),
        e2 (by decide), e3 (by decide), e4 (by decide), e5 (by decide), e6 (by decide), e7 (by decide), e8 (by decide), e9 (by decide),
        someE, hx] at h
    subst h; rfl

/-- **information = symmetric expansion of the triangular tokens**: with the right number of tokens the reader's matrix is
`fullOfTriu`, which is `n × n`, symmetric, and holds the tokens above the diagonal in file (row-major) order; a single
token is broadcast by numpy to every entry; any other count raises `ValueError`. -/
theorem information_expansion (zero : A) (n : Nat) (arr : List A) :
    (arr.length = (triuPairs n).length → expandTriu zero n arr = .ok (fullOfTriu zero n arr)) ∧
    (∀ a, arr = [a] → (triuPairs n).length ≠ 1 → expandTriu zero n arr = .ok (fullOfTriu zero n (List.replicate (triuPairs n).length a))) ∧
    (arr.length ≠ (triuPairs n).length → arr.length ≠ 1 → expandTriu zero n arr = .error .valueError) ∧
    Square (fullOfTriu zero n arr) n ∧ Symm zero (fullOfTriu zero n arr) n ∧
    (∀ i j, i ≤ j → j < n → entry zero (fullOfTriu zero n arr) i j = arr.getD ((triuPairs n).idxOf (i, j)) zero) := by
  refine ⟨expandTriu_exact zero n arr, ?_, ?_, fullOfTriu_square zero n arr, fullOfTriu_symm zero n arr,
    fun i j hij hj => entry_fullOfTriu_upper zero n arr i j hij hj⟩
  · intro a ha hne
    subst ha
    have : ¬ ([a].length = (triuPairs n).length) := by simpa [eq_comm] using hne
    unfold expandTriu
    rw [if_neg this]
  · intro h1 h2
    unfold expandTriu
    rw [if_neg h1]
    match arr, h2 with
    | [], _ => rfl
    | [a], h2 => exact absurd rfl h2
    | _ :: _ :: _, _ => rfl

/-- row-major positions: `triuPairs n` enumerates exactly the pairs `i ≤ j < n` -/
theorem triu_positions (n i j : Nat) : (i, j) ∈ triuPairs n ↔ i ≤ j ∧ j < n := mem_triuPairs n i j

/-- **landmark offsets are resolved through the most recent preceding parameter with that id**: after a parameter line
the dictionary answers with that parameter for its own key and is unchanged for every other key … -/
theorem param_lookup_after_line (ps : List (Param A)) (p : Param A) (k : ParamKind) (i : Int) :
    lookupParam (dictSet ps p) k i = if p.kind = k ∧ p.id = i then some p else lookupParam ps k i :=
  lookupParam_dictSet ps p k i

/-- … and the dictionary a line sees is the one built, in file order, from the parameter lines before it -/
theorem param_dictionary_of_trace (env : Env A) (customs : List (CustomType A)) (ps : List (Param A)) (pre : List Str)
    (l : Str) (post : List Str) (outs : List (Str × LineOut A)) (h : Trace env customs ps (pre ++ l :: post) outs)
    (hb : isBlank l = false) :
    ∃ outsPre out outsPost, outs = outsPre ++ (l, out) :: outsPost ∧ Trace env customs ps pre outsPre ∧
      parseLine env customs (outsPre.foldl (fun d o => paramsStep d o.2) ps) l = .ok out := by
  induction pre generalizing ps outs with
  | nil =>
    cases h with
    | blank hb' _ => rw [hb] at hb'; cases hb'
    | @line _ _ _ out outs' _ hp ht => exact ⟨[], out, outs', rfl, Trace.nil _, hp⟩
  | cons a pre ih =>
    cases h with
    | blank hb' ht =>
      obtain ⟨o1, out, o2, he, ht', hp⟩ := ih ps _ ht
      exact ⟨o1, out, o2, he, Trace.blank hb' ht', hp⟩
    | @line _ _ _ outa outs' hb' hpa ht =>
      obtain ⟨o1, out, o2, he, ht', hp⟩ := ih _ _ ht
      exact ⟨(a, outa) :: o1, out, o2, by rw [he]; rfl, Trace.line hb' hpa ht', by simpa using hp⟩

/-- **`skip_independent`** — for files of every length: removing (or, read backwards, inserting) blank lines and non-blank
lines that no `from_g2o` recognises, anywhere in the file, changes neither the parameters, vertices, edges, their order, nor
the exception raised; and when no exception is raised the log differs by exactly one `Line not supported` record per
removed non-blank line (`Perm`: compared as a multiset, as the harness does). -/
theorem skip_independent (env : Env A) (customs : List (CustomType A)) (a b d : List Str) (h : Thinned env customs a b d) (st : PState A) :
    core (parseLines env customs st a) = core (parseLines env customs st b) ∧
    ((parseLines env customs st a).2 = none →
      (newLog env customs st a).Perm (newLog env customs st b ++ d.map fun l => ⟨.graph, unsupportedMsg l⟩)) :=
  ⟨thinned_core env customs h st, thinned_log env customs h st⟩

/-- a blank line does nothing; a non-blank unrecognised line logs exactly one record and does nothing else -/
theorem skip_one (env : Env A) (customs : List (CustomType A)) (st : PState A) (l : Str) (ls : List Str) :
    (isBlank l = true → parseLines env customs st (l :: ls) = parseLines env customs st ls) ∧
    (isBlank l = false → parseLine env customs st.params l = .ok .unsupported →
      parseLines env customs st (l :: ls) = parseLines env customs (withLog st (st.warnings ++ [⟨.graph, unsupportedMsg l⟩])) ls) :=
  ⟨parseLines_blank env customs st l ls, parseLines_unsupported env customs st l ls⟩

/-- **`order_preserved`** — the loop finishes without an exception iff there is a trace `outs` pairing, in file order, every
non-blank line with the single thing it produced; the final containers are then exactly the vertices / edges of `outs` in that
order appended to the initial ones, the dictionary folded over the parameter lines in that order, and one log record per
unsupported line.  In particular every supported line contributes exactly one object and file order is kept. -/
theorem order_preserved (env : Env A) (customs : List (CustomType A)) (ls : List Str) (st st' : PState A) :
    parseLines env customs st ls = (st', none) ↔ ∃ outs, Trace env customs st.params ls outs ∧ st' = assemble st outs := by
  constructor
  · exact trace_of_parseLines env customs ls st st'
  · rintro ⟨outs, ht, rfl⟩
    exact parseLines_of_trace env customs ht st rfl

/-- **`loaders_agree`** — each of the five `load.py` wrappers returns what `Graph.from_g2o(infile)` returns (same graph
or same exception) and logs the same records preceded by exactly one deprecation warning on the `graphslam.load` logger. -/
theorem loaders_agree (env : Env A) (text : Str) (l : Loader) :
    (Loader.run env text l).result = (Graph.fromG2O env [] text).result ∧
    (Loader.run env text l).warnings = ⟨.load, l.msg⟩ :: (Graph.fromG2O env [] text).warnings := by
  cases l <;> exact ⟨rfl, rfl⟩

/-! ### the hypotheses are satisfiable -/

/-- a concrete `VERTEX_SE2` line with a tab and repeated blanks between the fields, CRLF-free, read in the example
environment: the angle `7` is wrapped to `3` -/
example : parseLine Ex.env [] [] "VERTEX_SE2 ii \t aaa  a aaaaaaaa\n".toList = .ok (.vertex ⟨1, ⟨.se2, [2, 0, 3]⟩⟩) := by decide

/-- the hypotheses of `line_faithful_EDGE_SE2` are satisfiable: an `EDGE_SE2` line with ids `0 1`, measurement `(2, 0, 5)`
(angle wrapped to `1`) and the six numbers of the upper triangle of `[[2,1,0],[1,2,0],[0,0,3]]` -/
example : parseLine Ex.env [] [] "EDGE_SE2 i ii aaa a aaaaaa aaa aa a aaa a aaaa\n".toList
    = .ok (.edge ⟨[0, 1], [[2, 1, 0], [1, 2, 0], [0, 0, 3]], .odometry ⟨.se2, [2, 0, 1]⟩⟩) :=
  line_faithful_EDGE_SE2 Ex.env [] [] _ "i".toList "ii".toList
    (["aaa", "a", "aaaaaa", "aaa", "aa", "a", "aaa", "a", "aaaa"].map String.toList) 0 1 2 0 5 [2, 1, 0, 2, 0, 3] _
    (by decide) (by decide) (by decide) (by decide) (by decide) (by decide) rfl

/-- junk and blank lines around it do not matter; one warning for the non-blank junk line -/
example : (Graph.fromG2O Ex.env [] "# comment\n\n \t\nVERTEX_SE2 ii aaa a aaaaaaaa\r\n".toList).result
      = .ok ⟨[], [⟨1, ⟨.se2, [2, 0, 3]⟩⟩], []⟩ ∧
    (Graph.fromG2O Ex.env [] "# comment\n\n \t\nVERTEX_SE2 ii aaa a aaaaaaaa\r\n".toList).warnings
      = [⟨.graph, "Line not supported -- '# comment'".toList⟩] := by
  constructor <;> decide

end GraphSlam.Props.C14
