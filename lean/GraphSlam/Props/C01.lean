import GraphSlam.Props.C01.Rn
import GraphSlam.Props.C01.SE2
import GraphSlam.Props.C01.SE3

/-! C01 — umbrella: the 16 edge-Jacobian theorems (8 edge/type combinations × 2 vertices). -/
