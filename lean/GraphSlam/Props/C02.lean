import GraphSlam.Props.C02.Chi2
import GraphSlam.Props.C02.Model

/-! C02 — umbrella. -/
