import GraphSlam.Props.C02.Chi2
import GraphSlam.Props.C02.Model
import GraphSlam.Props.Tie.GraphPy

/-! C02 — umbrella. -/
