import GraphSlam.Props.C11.SE3
import GraphSlam.Props.C09.SE2
import GraphSlam.Props.C11.RoundingRun

/-! C11 — umbrella: angle range/congruence (`PoseSE2_*_inRange`, `_congr` in `Props/C09/SE2.lean`) and unit
quaternions (`Props/C11/SE3.lean`). -/
