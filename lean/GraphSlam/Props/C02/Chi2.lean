import GraphSlam.Real.Instance
import GraphSlam.Generated.Edges
import GraphSlam.Model.Chi2
import Mathlib.Data.Matrix.Mul
import Mathlib.Tactic.Ring
import Mathlib.Tactic.Linarith

/-!
# C02 — χ² is the quadratic form `eᵀ Ω e`, summed over edges

`BaseEdge.calc_chi2` is the generated definition (base_edge.py:97-113); `Model.graphChi2` mirrors graph.py:364.
-/

namespace GraphSlam.Props.C02
open GraphSlam GraphSlam.Gen Matrix

/-- an edge's χ² is `eᵀ Ω e` -/
theorem edge_chi2 {n : Nat} (e : Fin n → ℝ) (Ω : Fin n → Fin n → ℝ) :
    BaseEdge.calc_chi2 e Ω = e ⬝ᵥ (Matrix.of Ω *ᵥ e) := by
  unfold BaseEdge.calc_chi2 transposeV
  rw [dotVV_eq_dotProduct, dotVM_eq_vecMul, Matrix.dotProduct_mulVec]

/-- the graph's χ² is the sum of its edges' χ² -/
theorem graph_chi2 (cs : List ℝ) : Model.graphChi2 cs = cs.sum := by
  unfold Model.graphChi2 Model.pySum
  have h : ∀ (l : List ℝ) (a : ℝ), l.foldl (· + ·) a = a + l.sum := by
    intro l; induction l with
    | nil => intro a; simp
    | cons x xs ih => intro a; rw [List.foldl_cons, ih, List.sum_cons]; ring
  rw [h]; simp

/-- χ² ≥ 0 for positive semi-definite information -/
theorem chi2_nonneg {n : Nat} (e : Fin n → ℝ) (Ω : Fin n → Fin n → ℝ)
    (hpsd : ∀ x : Fin n → ℝ, 0 ≤ x ⬝ᵥ (Matrix.of Ω *ᵥ x)) : 0 ≤ BaseEdge.calc_chi2 e Ω := by
  rw [edge_chi2]; exact hpsd e

/-- for positive-definite information an edge's χ² vanishes exactly when its error vector does -/
theorem chi2_eq_zero_iff {n : Nat} (e : Fin n → ℝ) (Ω : Fin n → Fin n → ℝ)
    (hpd : ∀ x : Fin n → ℝ, x ≠ 0 → 0 < x ⬝ᵥ (Matrix.of Ω *ᵥ x)) : BaseEdge.calc_chi2 e Ω = 0 ↔ e = 0 := by
  rw [edge_chi2]
  constructor
  · intro h; by_contra hne; exact absurd h (ne_of_gt (hpd e hne))
  · intro h; subst h; simp

/-- a sum of non-negative edge χ² is zero exactly when every term is -/
theorem graph_chi2_eq_zero_iff (cs : List ℝ) (hnn : ∀ c ∈ cs, 0 ≤ c) :
    Model.graphChi2 cs = 0 ↔ ∀ c ∈ cs, c = 0 := by
  rw [graph_chi2]
  induction cs with
  | nil => simp
  | cons x xs ih =>
    have hx : 0 ≤ x := hnn x (by simp)
    have hxs : ∀ c ∈ xs, 0 ≤ c := fun c hc => hnn c (by simp [hc])
    have hs : 0 ≤ xs.sum := List.sum_nonneg hxs
    rw [List.sum_cons]
    constructor
    · intro h
      have h1 : x = 0 := by linarith
      have h2 : xs.sum = 0 := by linarith
      intro c hc
      rcases List.mem_cons.mp hc with rfl | hc
      · exact h1
      · exact (ih hxs).mp h2 c hc
    · intro h
      have h1 : x = 0 := h x (by simp)
      have h2 : xs.sum = 0 := (ih hxs).mpr (fun c hc => h c (by simp [hc]))
      linarith

theorem graph_chi2_nonneg (cs : List ℝ) (hnn : ∀ c ∈ cs, 0 ≤ c) : 0 ≤ Model.graphChi2 cs := by
  rw [graph_chi2]; exact List.sum_nonneg hnn

/-- χ² is linear in the information matrix -/
theorem chi2_linear_in_info {n : Nat} (e : Fin n → ℝ) (Ω₁ Ω₂ : Fin n → Fin n → ℝ) (a b : ℝ) :
    BaseEdge.calc_chi2 e (fun i j => a * Ω₁ i j + b * Ω₂ i j)
      = a * BaseEdge.calc_chi2 e Ω₁ + b * BaseEdge.calc_chi2 e Ω₂ := by
  simp only [edge_chi2]
  have : (Matrix.of fun i j => a * Ω₁ i j + b * Ω₂ i j) = a • Matrix.of Ω₁ + b • Matrix.of Ω₂ := by
    ext i j; simp
  rw [this, Matrix.add_mulVec, Matrix.smul_mulVec, Matrix.smul_mulVec, dotProduct_add, dotProduct_smul,
    dotProduct_smul]
  simp [smul_eq_mul]

end GraphSlam.Props.C02
