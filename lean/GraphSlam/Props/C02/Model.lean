import GraphSlam.Props.C09.SE3
import GraphSlam.Props.C09.SE2
import GraphSlam.Props.C09.Rn
import GraphSlam.Generated.Edges

/-!
# C02 — the edge errors implement the documented measurement model

* odometry: the pose whose compact form `calc_error` returns is `z ⊖ (p₁ ⊖ p₀) = (p₀⁻¹ ⊕ p₁)⁻¹ ⊕ z`, with ⊕, ⁻¹ the
  rigid-motion composition / inverse (C09: `to_matrix` is multiplicative and `to_matrix p · to_matrix p⁻¹ = I`);
* landmark: `calc_error = ((p₀ ⊕ offset)⁻¹ • l) − z` with `•` the action of the homogeneous matrix;
* the error vanishes exactly when the measurement agrees with the current estimates (for SE(3): equal translation and
  `q_z = ± q_Δ`, the two unit quaternions of the same rotation; for SE(2): equal position and congruent angle).
-/

namespace GraphSlam.Props.C02
open GraphSlam GraphSlam.Gen GraphSlam.Props.C09
set_option linter.unusedSimpArgs false
set_option linter.unusedVariables false
set_option maxHeartbeats 4000000

/-! ## odometry: the error pose is `(p₀⁻¹ ⊕ p₁)⁻¹ ⊕ z` -/

theorem odometry_SE3_spec (z p0 p1 : Fin 7 → ℝ) (h0 : Unit4 p0) (h1 : Unit4 p1) :
    EdgeOdometry.calc_error_SE3 z p0 p1
      = PoseSE3.to_compact (PoseSE3.add (PoseSE3.inverse (PoseSE3.add (PoseSE3.inverse p0) p1)) z) := by
  unfold EdgeOdometry.calc_error_SE3
  rw [PoseSE3_sub_eq_inverse_add z _ (PoseSE3_unit_sub p1 p0 h1 h0), PoseSE3_sub_eq_inverse_add p1 p0 h0]

theorem odometry_SE2_spec (z p0 p1 : Fin 3 → ℝ) :
    EdgeOdometry.calc_error_SE2 z p0 p1
      = PoseSE2.to_compact (PoseSE2.add (PoseSE2.inverse (PoseSE2.add (PoseSE2.inverse p0) p1)) z) := by
  unfold EdgeOdometry.calc_error_SE2
  rw [PoseSE2_sub_eq_inverse_add z, PoseSE2_sub_eq_inverse_add p1 p0]

theorem odometry_R2_spec (z p0 p1 : Fin 2 → ℝ) :
    EdgeOdometry.calc_error_R2 z p0 p1
      = PoseR2.to_compact (PoseR2.add (PoseR2.inverse (PoseR2.add (PoseR2.inverse p0) p1)) z) := by
  unfold EdgeOdometry.calc_error_R2
  rw [PoseR2_sub_eq_inverse_add z, PoseR2_sub_eq_inverse_add p1 p0]

theorem odometry_R3_spec (z p0 p1 : Fin 3 → ℝ) :
    EdgeOdometry.calc_error_R3 z p0 p1
      = PoseR3.to_compact (PoseR3.add (PoseR3.inverse (PoseR3.add (PoseR3.inverse p0) p1)) z) := by
  unfold EdgeOdometry.calc_error_R3
  rw [PoseR3_sub_eq_inverse_add z, PoseR3_sub_eq_inverse_add p1 p0]

/-- matrix form of the SE(3) statement: `M(p₀⁻¹ ⊕ p₁) · M(error pose) = M(z)` -/
theorem odometry_SE3_matrix (z p0 p1 : Fin 7 → ℝ) (h0 : Unit4 p0) (h1 : Unit4 p1) (hz : Unit4 z) (i j : Fin 4) :
    dotMM (PoseSE3.to_matrix (PoseSE3.add (PoseSE3.inverse p0) p1))
        (PoseSE3.to_matrix (PoseSE3.sub z (PoseSE3.sub p1 p0))) i j = PoseSE3.to_matrix z i j := by
  have hD : Unit4 (PoseSE3.add (PoseSE3.inverse p0) p1) := PoseSE3_unit_add _ _ (PoseSE3_unit_inverse p0 h0) h1
  have hE : Unit4 (PoseSE3.sub z (PoseSE3.sub p1 p0)) := PoseSE3_unit_sub _ _ hz (PoseSE3_unit_sub _ _ h1 h0)
  rw [← PoseSE3_to_matrix_add _ _ hD hE]
  rw [PoseSE3_sub_eq_inverse_add p1 p0 h0, PoseSE3_sub_eq_inverse_add z _ hD,
    ← PoseSE3_add_assoc _ _ z hD (PoseSE3_unit_inverse _ hD), PoseSE3_add_inverse _ hD, PoseSE3_identity_left]

/-! ## landmark: `((p₀ ⊕ offset)⁻¹ • l) − z` -/

theorem landmark_SE3_spec (z : Fin 3 → ℝ) (off p0 : Fin 7 → ℝ) (l : Fin 3 → ℝ) (i : Fin 3) :
    EdgeLandmark.calc_error_SE3 z off p0 l i
      = PoseSE3.add_point (PoseSE3.inverse (PoseSE3.add p0 off)) l i - z i := by
  fin_cases i <;> rfl

theorem landmark_SE2_spec (z : Fin 2 → ℝ) (off p0 : Fin 3 → ℝ) (l : Fin 2 → ℝ) (i : Fin 2) :
    EdgeLandmark.calc_error_SE2 z off p0 l i
      = PoseSE2.add_point (PoseSE2.inverse (PoseSE2.add p0 off)) l i - z i := by
  fin_cases i <;> rfl

theorem landmark_R2_spec (z off p0 l : Fin 2 → ℝ) (i : Fin 2) :
    EdgeLandmark.calc_error_R2 z off p0 l i = (l i - (p0 i + off i)) - z i := by
  fin_cases i <;> simp [EdgeLandmark.calc_error_R2, PoseR2.to_compact, PoseR2.sub, PoseR2.add, PoseR2.inverse] <;> ring

theorem landmark_R3_spec (z off p0 l : Fin 3 → ℝ) (i : Fin 3) :
    EdgeLandmark.calc_error_R3 z off p0 l i = (l i - (p0 i + off i)) - z i := by
  fin_cases i <;> simp [EdgeLandmark.calc_error_R3, PoseR3.to_compact, PoseR3.sub, PoseR3.add, PoseR3.inverse] <;> ring

/-- the landmark error vanishes exactly when the measurement is the landmark seen from the (offset) sensor frame -/
theorem landmark_SE3_zero_iff (z : Fin 3 → ℝ) (off p0 : Fin 7 → ℝ) (l : Fin 3 → ℝ) :
    EdgeLandmark.calc_error_SE3 z off p0 l = 0 ↔ z = PoseSE3.add_point (PoseSE3.inverse (PoseSE3.add p0 off)) l := by
  constructor
  · intro h; funext i
    have := congrFun h i
    rw [landmark_SE3_spec] at this; simp at this; linarith
  · intro h; funext i; rw [landmark_SE3_spec, h]; simp

theorem landmark_SE2_zero_iff (z : Fin 2 → ℝ) (off p0 : Fin 3 → ℝ) (l : Fin 2 → ℝ) :
    EdgeLandmark.calc_error_SE2 z off p0 l = 0 ↔ z = PoseSE2.add_point (PoseSE2.inverse (PoseSE2.add p0 off)) l := by
  constructor
  · intro h; funext i
    have := congrFun h i
    rw [landmark_SE2_spec] at this; simp at this; linarith
  · intro h; funext i; rw [landmark_SE2_spec, h]; simp

/-! ## zero error ⇔ agreement (odometry) -/

theorem odometry_R2_zero_iff (z p0 p1 : Fin 2 → ℝ) :
    EdgeOdometry.calc_error_R2 z p0 p1 = 0 ↔ z = p1 - p0 := by
  constructor
  · intro h; funext i; have := congrFun h i
    fin_cases i <;>
      simp [EdgeOdometry.calc_error_R2, PoseR2.to_compact, PoseR2.sub] at this ⊢ <;> linarith
  · intro h; subst h; funext i
    fin_cases i <;> simp [EdgeOdometry.calc_error_R2, PoseR2.to_compact, PoseR2.sub]

theorem odometry_R3_zero_iff (z p0 p1 : Fin 3 → ℝ) :
    EdgeOdometry.calc_error_R3 z p0 p1 = 0 ↔ z = p1 - p0 := by
  constructor
  · intro h; funext i; have := congrFun h i
    fin_cases i <;>
      simp [EdgeOdometry.calc_error_R3, PoseR3.to_compact, PoseR3.sub] at this ⊢ <;> linarith
  · intro h; subst h; funext i
    fin_cases i <;> simp [EdgeOdometry.calc_error_R3, PoseR3.to_compact, PoseR3.sub]

/-- SE(2): zero error ⇔ the measurement equals the relative pose `Δ = p₁ ⊖ p₀` (position exactly, angle modulo `2π`) -/
theorem odometry_SE2_zero_iff (z p0 p1 : Fin 3 → ℝ) :
    EdgeOdometry.calc_error_SE2 z p0 p1 = 0 ↔
      z 0 = PoseSE2.sub p1 p0 0 ∧ z 1 = PoseSE2.sub p1 p0 1 ∧ wrapPi (z 2 - PoseSE2.sub p1 p0 2) = 0 := by
  set Δ := PoseSE2.sub p1 p0 with hΔ
  have hsc := Real.sin_sq_add_cos_sq (Δ 2)
  have key : ∀ i, EdgeOdometry.calc_error_SE2 z p0 p1 i = PoseSE2.sub z Δ i := by
    intro i; fin_cases i <;> rfl
  constructor
  · intro h
    have e0 := (key 0).symm.trans (congrFun h 0)
    have e1 := (key 1).symm.trans (congrFun h 1)
    have e2 := (key 2).symm.trans (congrFun h 2)
    simp only [PoseSE2.sub, neg_pi_to_pi_eq, real_cos, real_sin, Pi.zero_apply] at e0 e1 e2
    refine ⟨?_, ?_, e2⟩
    · have : (z 0 - Δ 0) * (Real.sin (Δ 2) ^ 2 + Real.cos (Δ 2) ^ 2) = 0 := by
        linear_combination (Real.cos (Δ 2)) * e0 - (Real.sin (Δ 2)) * e1
      rw [hsc] at this; linarith
    · have : (z 1 - Δ 1) * (Real.sin (Δ 2) ^ 2 + Real.cos (Δ 2) ^ 2) = 0 := by
        linear_combination (Real.sin (Δ 2)) * e0 + (Real.cos (Δ 2)) * e1
      rw [hsc] at this; linarith
  · rintro ⟨h0, h1, h2⟩
    funext i
    rw [key]
    fin_cases i <;> simp only [PoseSE2.sub, neg_pi_to_pi_eq, real_cos, real_sin, Pi.zero_apply, h0, h1, h2] <;> simp

/-- SE(3): zero error ⇔ equal translation and `q_z = ± q_Δ` (unit quaternions), `Δ = p₁ ⊖ p₀` -/
theorem odometry_SE3_zero_iff (z p0 p1 : Fin 7 → ℝ) (hz : Unit4 z) (h0 : Unit4 p0) (h1 : Unit4 p1) :
    EdgeOdometry.calc_error_SE3 z p0 p1 = 0 ↔
      (∀ i : Fin 3, z (Fin.castLE (by omega) i) = PoseSE3.sub p1 p0 (Fin.castLE (by omega) i)) ∧
      ((∀ i : Fin 4, z (Fin.natAdd 3 i) = PoseSE3.sub p1 p0 (Fin.natAdd 3 i)) ∨
       (∀ i : Fin 4, z (Fin.natAdd 3 i) = -PoseSE3.sub p1 p0 (Fin.natAdd 3 i))) := by
  set Δ := PoseSE3.sub p1 p0 with hΔ
  have hD : Unit4 Δ := PoseSE3_unit_sub p1 p0 h1 h0
  have hE : Unit4 (PoseSE3.sub z Δ) := PoseSE3_unit_sub z Δ hz hD
  have key : ∀ i : Fin 6, EdgeOdometry.calc_error_SE3 z p0 p1 i = PoseSE3.sub z Δ (Fin.castLE (by omega) i) := by
    intro i; fin_cases i <;> rfl
  constructor
  · intro h
    have e : ∀ i : Fin 6, PoseSE3.sub z Δ (Fin.castLE (by omega) i) = 0 := fun i => (key i).symm.trans (congrFun h i)
    have e0 : PoseSE3.sub z Δ 0 = 0 := e 0
    have e1 : PoseSE3.sub z Δ 1 = 0 := e 1
    have e2 : PoseSE3.sub z Δ 2 = 0 := e 2
    have e3 : PoseSE3.sub z Δ 3 = 0 := e 3
    have e4 : PoseSE3.sub z Δ 4 = 0 := e 4
    have e5 : PoseSE3.sub z Δ 5 = 0 := e 5
    -- the error pose is (0,0,0, 0,0,0, w) with w² = 1, and z = Δ ⊕ error pose
    have hw : PoseSE3.sub z Δ 6 ^ 2 = 1 := by
      have := hE; unfold Unit4 at this; rw [e3, e4, e5] at this; linarith
    have hzz := PoseSE3_add_sub_cancel_left z Δ hD
    generalize hEdef : PoseSE3.sub z Δ = E at *
    have comp : ∀ i, z i = PoseSE3.add Δ E i := fun i => (congrFun hzz i).symm
    have c0 := comp 0; have c1 := comp 1; have c2 := comp 2; have c3 := comp 3
    have c4 := comp 4; have c5 := comp 5; have c6 := comp 6
    simp only [PoseSE3.add, e0, e1, e2, e3, e4, e5, real_ofInt] at c0 c1 c2 c3 c4 c5 c6
    have hw' : E 6 = 1 ∨ E 6 = -1 := by
      have : (E 6 - 1) * (E 6 + 1) = 0 := by linear_combination hw
      rcases mul_eq_zero.mp this with h | h
      · left; linarith
      · right; linarith
    refine ⟨?_, ?_⟩
    · intro i; fin_cases i <;> simp only [Fin.castLE, Fin.isValue, Fin.zero_eta, Fin.mk_one, Fin.reduceFinMk]
      · rw [c0]; ring
      · rw [c1]; ring
      · rw [c2]; ring
    · rcases hw' with hw1 | hw1
      · left; intro i
        fin_cases i <;> simp only [Fin.natAdd, Fin.isValue, Fin.zero_eta, Fin.mk_one, Fin.reduceFinMk]
        · show z 3 = Δ 3; rw [c3, hw1]; ring
        · show z 4 = Δ 4; rw [c4, hw1]; ring
        · show z 5 = Δ 5; rw [c5, hw1]; ring
        · show z 6 = Δ 6; rw [c6, hw1]; ring
      · right; intro i
        fin_cases i <;> simp only [Fin.natAdd, Fin.isValue, Fin.zero_eta, Fin.mk_one, Fin.reduceFinMk]
        · show z 3 = -Δ 3; rw [c3, hw1]; ring
        · show z 4 = -Δ 4; rw [c4, hw1]; ring
        · show z 5 = -Δ 5; rw [c5, hw1]; ring
        · show z 6 = -Δ 6; rw [c6, hw1]; ring
  · rintro ⟨ht, hq⟩
    have t0 : z 0 = Δ 0 := ht 0
    have t1 : z 1 = Δ 1 := ht 1
    have t2 : z 2 = Δ 2 := ht 2
    funext i
    rw [key]
    rcases hq with hq | hq
    · have q3 : z 3 = Δ 3 := hq 0
      have q4 : z 4 = Δ 4 := hq 1
      have q5 : z 5 = Δ 5 := hq 2
      have q6 : z 6 = Δ 6 := hq 3
      fin_cases i <;>
        simp only [Fin.castLE, PoseSE3.sub, t0, t1, t2, q3, q4, q5, q6, real_ofInt, Pi.zero_apply,
          Fin.isValue, Fin.zero_eta, Fin.mk_one, Fin.reduceFinMk] <;> ring
    · have q3 : z 3 = -Δ 3 := hq 0
      have q4 : z 4 = -Δ 4 := hq 1
      have q5 : z 5 = -Δ 5 := hq 2
      have q6 : z 6 = -Δ 6 := hq 3
      fin_cases i <;>
        simp only [Fin.castLE, PoseSE3.sub, t0, t1, t2, q3, q4, q5, q6, real_ofInt, Pi.zero_apply,
          Fin.isValue, Fin.zero_eta, Fin.mk_one, Fin.reduceFinMk] <;> ring

end GraphSlam.Props.C02
