import GraphSlam.Props.C07.Invariance
import GraphSlam.Theory.GaussNewton
import GraphSlam.Props.C07.Jacobians
import GraphSlam.Props.E2E.Frame
import GraphSlam.Props.Tie.GraphPy
import GraphSlam.Props.E2E.FrameMixed
/-! C07 — umbrella (`Theory.reparam_solves`, `chi2_reparam`: the change of variables for landmark increments). -/
