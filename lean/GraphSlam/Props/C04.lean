import GraphSlam.Props.C04.Linear
import GraphSlam.Props.C03.Assembled
import GraphSlam.Props.C04.Instances
import GraphSlam.Props.Tie.GraphPy
/-! C04 — umbrella. -/
