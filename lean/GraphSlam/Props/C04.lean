import GraphSlam.Props.C04.Linear
import GraphSlam.Props.C03.Assembled
/-! C04 — umbrella. -/
