import GraphSlam.Model.Assembly
import GraphSlam.Model.GraphIter
import GraphSlam.Real.Instance
import Mathlib.Logic.Function.Iterate

/-!
# C06 — fixed vertices never move, in every outcome

`Model.applyDx` mirrors the update loop of `Graph.optimize` (graph.py:484-494, after the repair recorded in
known_findings.json: fixed vertices are skipped).  The solver is an **arbitrary function of the state** — it may return
garbage, NaN-like values, anything — so "every outcome (converged, iteration limit, divergence, singular system)" is
covered by the quantifier.  The pose type and its box-plus are parameters, so the statement covers all four pose types
and custom ones.
-/

namespace GraphSlam.Props.C06
open GraphSlam GraphSlam.Model

variable {E : Type} [Scalar E] {P : Type}

/-- the optimiser state: `(gradient_index, compact dimension, pose)` per vertex, in graph order -/
abbrev St (P : Type) := List (Nat × Nat × P)

/-- one iteration with an arbitrary solver -/
def iter (boxplus : P → (Nat → E) → P) (fixed : List Nat) (solve : St P → (Nat → E)) (s : St P) : St P :=
  applyDx boxplus fixed s (solve s)

/-- the layout (indices and dimensions) never changes -/
theorem applyDx_layout (boxplus : P → (Nat → E) → P) (fixed : List Nat) (s : St P) (dx : Nat → E) :
    (applyDx boxplus fixed s dx).map (fun v => (v.1, v.2.1)) = s.map (fun v => (v.1, v.2.1)) := by
  unfold applyDx
  rw [List.map_map]
  apply List.map_congr_left
  intro v _
  obtain ⟨g, d, p⟩ := v
  simp only [Function.comp]
  split <;> rfl

/-- a fixed vertex keeps its pose through one update, whatever `dx` is -/
theorem applyDx_fixed (boxplus : P → (Nat → E) → P) (fixed : List Nat) (s : St P) (dx : Nat → E) (k : Nat)
    (v : Nat × Nat × P) (hv : s[k]? = some v) (hf : v.1 ∈ fixed) :
    (applyDx boxplus fixed s dx)[k]? = some v := by
  unfold applyDx
  rw [List.getElem?_map, hv]
  obtain ⟨g, d, p⟩ := v
  simp only [Option.map_some]
  simp only at hf
  simp [hf]

/-- a free vertex gets `pose ⊞ dx[g : g + c]` -/
theorem applyDx_free (boxplus : P → (Nat → E) → P) (fixed : List Nat) (s : St P) (dx : Nat → E) (k : Nat)
    (g d : Nat) (p : P) (hv : s[k]? = some (g, d, p)) (hf : g ∉ fixed) :
    (applyDx boxplus fixed s dx)[k]? = some (g, d, boxplus p (fun t => dx (g + t))) := by
  unfold applyDx
  rw [List.getElem?_map, hv]
  simp [hf]

/-- **Fixed vertices never move: any number of iterations, any solver behaviour.** -/
theorem fixed_unchanged (boxplus : P → (Nat → E) → P) (fixed : List Nat) (solve : St P → (Nat → E)) (n : Nat)
    (s : St P) (k : Nat) (v : Nat × Nat × P) (hv : s[k]? = some v) (hf : v.1 ∈ fixed) :
    ((iter boxplus fixed solve)^[n] s)[k]? = some v := by
  induction n generalizing s with
  | zero => simpa using hv
  | succ n ih =>
    rw [Function.iterate_succ, Function.comp]
    exact ih _ (applyDx_fixed boxplus fixed s (solve s) k v hv hf)

/-! the head of `optimize` (`Model.applyFixFirst`, `Model.fixedIndices`: the definitions the driver executes) -/

theorem fix_first_pose_flags (fixFirst : Bool) (flags : List Bool) (k : Nat) :
    (applyFixFirst fixFirst flags)[k]? =
      if fixFirst = true ∧ k = 0 ∧ flags ≠ [] then some true else flags[k]? := by
  unfold applyFixFirst
  cases fixFirst <;> cases flags <;> cases k <;> simp

theorem mem_fixedIndices (flags : List Bool) (gidx : List Nat) (g : Nat) :
    g ∈ fixedIndices flags gidx ↔ ∃ k : Nat, flags[k]? = some true ∧ gidx[k]? = some g := by
  unfold fixedIndices
  simp only [List.mem_map, List.mem_filter, Prod.exists]
  constructor
  · rintro ⟨b, g', ⟨hmem, hb⟩, rfl⟩
    obtain ⟨k, hk⟩ := List.getElem?_of_mem hmem
    refine ⟨k, ?_, ?_⟩
    · have := (List.getElem?_zip_eq_some.mp hk).1
      have hb' : b = true := hb
      rw [hb'] at this; exact this
    · exact (List.getElem?_zip_eq_some.mp hk).2
  · rintro ⟨k, h1, h2⟩
    exact ⟨true, g, ⟨List.mem_of_getElem? (List.getElem?_zip_eq_some.mpr ⟨h1, h2⟩), rfl⟩, rfl⟩

/-- non-vacuity: a three-vertex state whose middle vertex is fixed, a solver that returns a huge increment -/
example : ((iter (E := Float) (P := Float) (fun p d => p + d 0) [2] (fun _ _ => 1e300))^[5]
    [(0, 2, 1.0), (2, 2, 5.0), (4, 2, 7.0)])[1]? = some (2, 2, 5.0) :=
  fixed_unchanged _ _ _ 5 _ 1 (2, 2, 5.0) rfl (by simp)

end GraphSlam.Props.C06
