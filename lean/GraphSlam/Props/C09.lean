import GraphSlam.Props.C09.Rn
import GraphSlam.Props.C09.SE2
import GraphSlam.Props.C09.SE3
import GraphSlam.Props.C10.SE3Boxplus
import GraphSlam.Props.C09.IAdd
import GraphSlam.Props.C09.FromMatrix

/-! C09 — umbrella: group laws for the four pose types (`PoseSE3_boxplus_eq_add_lift`, the box-plus clause for
SE(3), lives in `Props/C10/SE3Boxplus.lean`; the matrix → pose direction `PoseSE2.from_matrix` is `Props/C09/FromMatrix.lean`). -/
