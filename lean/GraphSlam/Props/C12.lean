import GraphSlam.Props.C12.Ctl
import GraphSlam.Props.C12.State
import GraphSlam.Props.E2E.Run
import GraphSlam.Props.Tie.GraphPy

/-! C12 — umbrella. -/
