import GraphSlam.Props.C12.Ctl
import GraphSlam.Props.C12.State

/-! C12 — umbrella. -/
