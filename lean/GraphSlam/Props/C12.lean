import GraphSlam.Props.C12.Ctl

/-! C12 — umbrella. -/
