import GraphSlam.Props.C04.EndToEnd

/-!
# C04 end to end — the theorems of `Increment`, `Minimise`, `Unique`, `EndToEnd` for R² and R³ graphs as constructed

The generic theorems are stated for any state satisfying `StateOK` and any `LinearClass`.  Here they are specialised to
what `Graph.__init__` / `Graph.optimize` start from: `Model.initState 0 ps` with all of `ps` R² (R³) points, a well-formed
edge list (`E2E.GraphOK`), `N = Σ compact dimensions`.  Also: `fixedPos_iff_flag` (what "fixed vertex" means in terms of
the `fixed` attributes after `fix_first_pose`), an exact solver exists (`chooseSolve`), and a concrete instance of every
hypothesis (non-vacuity).
-/

namespace GraphSlam.Props.C04
open GraphSlam GraphSlam.Gen GraphSlam.Model GraphSlam.Props.C03 GraphSlam.Props.E2E GraphSlam.Props.C12 Finset
set_option linter.unusedVariables false
set_option linter.unusedSimpArgs false
noncomputable section

theorem initState_length (g : Nat) (ps : List (Pose ℝ)) : (initState g ps).length = ps.length := by
  induction ps generalizing g with
  | nil => rfl
  | cons p ps ih => simp [initState, ih]

/-- a position is fixed in the sense of `Anchored` / `optimize_linear_optimum` iff its `fixed` attribute is set after
    `fix_first_pose` was applied (graph.py:431-433) -/
theorem fixedPos_iff_flag (ffp : Bool) (flags : List Bool) (ps : List (Pose ℝ)) (k : Nat) :
    FixedPos (fixedOf ffp flags ps) (initState 0 ps) k ↔ k < ps.length ∧ (applyFixFirst ffp flags)[k]? = some true := by
  have hlen := initState_length 0 ps
  unfold FixedPos fixedOf
  constructor
  · rintro ⟨v, hv, hf⟩
    rw [C06.mem_fixedIndices] at hf
    obtain ⟨k', hfl, hg⟩ := hf
    have hk : k < (initState 0 ps).length := by
      by_contra h; rw [List.getElem?_eq_none (by omega)] at hv; cases hv
    have hgk : ((initState 0 ps).map (·.1))[k]? = some v.1 := by rw [List.getElem?_map, hv]; rfl
    have hnd : ((initState 0 ps).map (·.1)).Nodup := by rw [← layoutOf_keys]; exact (stateOK_initState ps).nodup
    have : k' = k := by
      obtain ⟨h1, e1⟩ := List.getElem?_eq_some_iff.mp hg
      obtain ⟨h2, e2⟩ := List.getElem?_eq_some_iff.mp hgk
      exact (hnd.getElem_inj_iff).mp (e1.trans e2.symm)
    subst this
    exact ⟨by omega, hfl⟩
  · rintro ⟨hk, hfl⟩
    have hk' : k < (initState 0 ps).length := by omega
    refine ⟨(initState 0 ps)[k], List.getElem?_eq_getElem hk', ?_⟩
    rw [C06.mem_fixedIndices]
    exact ⟨k, hfl, by rw [List.getElem?_map, List.getElem?_eq_getElem hk']; rfl⟩

/-- "connected graph with at least one fixed vertex" (the wording of C04) gives `Anchored` -/
theorem anchored_of_connected (fixed : List Nat) (es : List (Edge ℝ)) (s : GState ℝ) (f : Nat) (hf : FixedPos fixed s f)
    (hconn : ∀ k, k < s.length → Relation.ReflTransGen (Adj es) f k) : Anchored fixed es s :=
  fun k hk => ⟨f, hf, hconn k hk⟩

/-! ### well-typed edges (what the edge constructors guarantee, C18) -/

/-- an odometry / landmark edge whose measurement (and offset) are R² points -/
def EdgeIsR2 : Edge ℝ → Prop
  | .odo _ _ (.r2 _) _ => True
  | .lm _ _ (.r2 _) (.r2 _) _ => True
  | _ => False

def EdgeIsR3 : Edge ℝ → Prop
  | .odo _ _ (.r3 _) _ => True
  | .lm _ _ (.r3 _) (.r3 _) _ => True
  | _ => False

theorem allSome_exists {α β : Type} (f : α → Option β) (L : List α) (h : ∀ x ∈ L, ∃ y, f x = some y) :
    ∃ r, allSome (L.map f) = some r := by
  induction L with
  | nil => exact ⟨[], rfl⟩
  | cons a L ih =>
    obtain ⟨y, hy⟩ := h a (by simp)
    obtain ⟨r, hr⟩ := ih (fun x hx => h x (by simp [hx]))
    exact ⟨y :: r, by simp [allSome, hy, hr]⟩

/-- R² edges between existing R² vertices linearise: the hypothesis `htyped` of the theorems below holds -/
theorem typed_R2 (ps : List (Pose ℝ)) (es : List (Edge ℝ)) (hps : ∀ p ∈ ps, IsR2 p)
    (h : ∀ e ∈ es, EdgeIsR2 e ∧ e.ends.1 < ps.length ∧ e.ends.2 < ps.length) :
    ∃ lins, allSome (es.map (linearise (initState 0 ps))) = some lins := by
  apply allSome_exists
  intro e he
  obtain ⟨hty, h1, h2⟩ := h e he
  have hg := initState_good IsR2 0 ps hps
  have hlen := initState_length 0 ps
  unfold linearise
  rw [List.getElem?_eq_getElem (by omega), List.getElem?_eq_getElem (by omega)]
  have g0 := hg _ (List.getElem_mem (by omega : e.ends.1 < (initState 0 ps).length))
  have g1 := hg _ (List.getElem_mem (by omega : e.ends.2 < (initState 0 ps).length))
  generalize (initState 0 ps)[e.ends.1] = v0 at g0
  generalize (initState 0 ps)[e.ends.2] = v1 at g1
  obtain ⟨a0, d0, p0⟩ := v0
  obtain ⟨a1, d1, p1⟩ := v1
  simp only at g0 g1 ⊢
  cases p0 <;> simp only [IsR2] at g0
  cases p1 <;> simp only [IsR2] at g1
  cases e with
  | odo i j z info => cases z <;> simp only [EdgeIsR2] at hty; exact ⟨_, rfl⟩
  | lm i j z off info => cases z <;> cases off <;> simp only [EdgeIsR2] at hty; exact ⟨_, rfl⟩

theorem typed_R3 (ps : List (Pose ℝ)) (es : List (Edge ℝ)) (hps : ∀ p ∈ ps, IsR3 p)
    (h : ∀ e ∈ es, EdgeIsR3 e ∧ e.ends.1 < ps.length ∧ e.ends.2 < ps.length) :
    ∃ lins, allSome (es.map (linearise (initState 0 ps))) = some lins := by
  apply allSome_exists
  intro e he
  obtain ⟨hty, h1, h2⟩ := h e he
  have hg := initState_good IsR3 0 ps hps
  have hlen := initState_length 0 ps
  unfold linearise
  rw [List.getElem?_eq_getElem (by omega), List.getElem?_eq_getElem (by omega)]
  have g0 := hg _ (List.getElem_mem (by omega : e.ends.1 < (initState 0 ps).length))
  have g1 := hg _ (List.getElem_mem (by omega : e.ends.2 < (initState 0 ps).length))
  generalize (initState 0 ps)[e.ends.1] = v0 at g0
  generalize (initState 0 ps)[e.ends.2] = v1 at g1
  obtain ⟨a0, d0, p0⟩ := v0
  obtain ⟨a1, d1, p1⟩ := v1
  simp only at g0 g1 ⊢
  cases p0 <;> simp only [IsR3] at g0
  cases p1 <;> simp only [IsR3] at g1
  cases e with
  | odo i j z info => cases z <;> simp only [EdgeIsR3] at hty; exact ⟨_, rfl⟩
  | lm i j z off info => cases z <;> cases off <;> simp only [EdgeIsR3] at hty; exact ⟨_, rfl⟩

/-! ### (b) -/

/-- **(b) for R² graphs**, in the form of the task statement: `system fixed es s = some (χ², b, H)`, `dx` solves
    `∀ i < N, Σ_{j<N} H i j · dx j = − b i`, all information matrices symmetric positive semi-definite ⇒ for every `d`,
    `χ²(s ⊞ dx) ≤ χ²(s ⊞ d)` (true χ², `Model.chi2At`). -/
theorem gn_step_minimises_R2 (fixed : List Nat) (ps : List (Pose ℝ)) (es : List (Edge ℝ)) (hps : ∀ p ∈ ps, IsR2 p)
    (hok : GraphOK ps es) (hpsd : ∀ e ∈ es, InfoPSD 2 e) (χ : ℝ) (b : Nat → ℝ) (H : Nat → Nat → ℝ)
    (hsys : system fixed es (initState 0 ps) = some (χ, b, H)) (dx : Nat → ℝ)
    (hsolve : ∀ i, i < (ps.map Pose.cdim).sum → ∑ j ∈ range (ps.map Pose.cdim).sum, H i j * dx j = - b i)
    (d : Nat → ℝ) :
    ∃ c₁ c₂, chi2At fixed es (applyDx Pose.boxplus fixed (initState 0 ps) dx) = some c₁ ∧
      chi2At fixed es (applyDx Pose.boxplus fixed (initState 0 ps) d) = some c₂ ∧ c₁ ≤ c₂ :=
  gn_step_minimises linearClass_R2 fixed es _ (stateOK_initState ps) (initState_good IsR2 0 ps hps) hok.distinct hok.symm
    hpsd _ hsys dx (by rw [totalDim_initState]; exact hsolve) d

/-- **(b) for R³ graphs** -/
theorem gn_step_minimises_R3 (fixed : List Nat) (ps : List (Pose ℝ)) (es : List (Edge ℝ)) (hps : ∀ p ∈ ps, IsR3 p)
    (hok : GraphOK ps es) (hpsd : ∀ e ∈ es, InfoPSD 3 e) (χ : ℝ) (b : Nat → ℝ) (H : Nat → Nat → ℝ)
    (hsys : system fixed es (initState 0 ps) = some (χ, b, H)) (dx : Nat → ℝ)
    (hsolve : ∀ i, i < (ps.map Pose.cdim).sum → ∑ j ∈ range (ps.map Pose.cdim).sum, H i j * dx j = - b i)
    (d : Nat → ℝ) :
    ∃ c₁ c₂, chi2At fixed es (applyDx Pose.boxplus fixed (initState 0 ps) dx) = some c₁ ∧
      chi2At fixed es (applyDx Pose.boxplus fixed (initState 0 ps) d) = some c₂ ∧ c₁ ≤ c₂ :=
  gn_step_minimises linearClass_R3 fixed es _ (stateOK_initState ps) (initState_good IsR3 0 ps hps) hok.distinct hok.symm
    hpsd _ hsys dx (by rw [totalDim_initState]; exact hsolve) d

/-! ### (c) -/

/-- **(c) for R² graphs**: at most one solution on `[0, N)`, for any right-hand side -/
theorem gn_step_unique_R2 (fixed : List Nat) (ps : List (Pose ℝ)) (es : List (Edge ℝ)) (hps : ∀ p ∈ ps, IsR2 p)
    (hok : GraphOK ps es) (hpd : ∀ e ∈ es, InfoPD 2 e) (hanch : Anchored fixed es (initState 0 ps))
    (χ : ℝ) (b : Nat → ℝ) (H : Nat → Nat → ℝ) (hsys : system fixed es (initState 0 ps) = some (χ, b, H))
    (rhs x x' : Nat → ℝ) (hx : Solves (ps.map Pose.cdim).sum H rhs x) (hx' : Solves (ps.map Pose.cdim).sum H rhs x') :
    ∀ i, i < (ps.map Pose.cdim).sum → x i = x' i := by
  have := gn_step_unique linearClass_R2 fixed es _ (stateOK_initState ps) (initState_good IsR2 0 ps hps) hok.distinct
    hok.symm hpd hanch _ hsys rhs x x'
  rw [totalDim_initState] at this
  exact this hx hx'

theorem gn_step_unique_R3 (fixed : List Nat) (ps : List (Pose ℝ)) (es : List (Edge ℝ)) (hps : ∀ p ∈ ps, IsR3 p)
    (hok : GraphOK ps es) (hpd : ∀ e ∈ es, InfoPD 3 e) (hanch : Anchored fixed es (initState 0 ps))
    (χ : ℝ) (b : Nat → ℝ) (H : Nat → Nat → ℝ) (hsys : system fixed es (initState 0 ps) = some (χ, b, H))
    (rhs x x' : Nat → ℝ) (hx : Solves (ps.map Pose.cdim).sum H rhs x) (hx' : Solves (ps.map Pose.cdim).sum H rhs x') :
    ∀ i, i < (ps.map Pose.cdim).sum → x i = x' i := by
  have := gn_step_unique linearClass_R3 fixed es _ (stateOK_initState ps) (initState_good IsR3 0 ps hps) hok.distinct
    hok.symm hpd hanch _ hsys rhs x x'
  rw [totalDim_initState] at this
  exact this hx hx'

/-- **(c) for R² graphs**: the minimiser state is unique -/
theorem minimiser_unique_R2 (fixed : List Nat) (ps : List (Pose ℝ)) (es : List (Edge ℝ)) (hps : ∀ p ∈ ps, IsR2 p)
    (hok : GraphOK ps es) (hpd : ∀ e ∈ es, InfoPD 2 e) (hanch : Anchored fixed es (initState 0 ps))
    (χ : ℝ) (b : Nat → ℝ) (H : Nat → Nat → ℝ) (hsys : system fixed es (initState 0 ps) = some (χ, b, H))
    (dx : Nat → ℝ) (hx : Solves (ps.map Pose.cdim).sum H (fun i => - b i) dx) (d : Nat → ℝ) (c₁ c₂ : ℝ)
    (h1 : chi2At fixed es (applyDx Pose.boxplus fixed (initState 0 ps) dx) = some c₁)
    (h2 : chi2At fixed es (applyDx Pose.boxplus fixed (initState 0 ps) d) = some c₂) (hle : c₂ ≤ c₁) :
    applyDx Pose.boxplus fixed (initState 0 ps) d = applyDx Pose.boxplus fixed (initState 0 ps) dx :=
  minimiser_unique linearClass_R2 fixed es _ (stateOK_initState ps) (initState_good IsR2 0 ps hps) hok.distinct
    hok.symm hpd hanch _ hsys dx (by rw [totalDim_initState]; exact hx) d c₁ c₂ h1 h2 hle

theorem minimiser_unique_R3 (fixed : List Nat) (ps : List (Pose ℝ)) (es : List (Edge ℝ)) (hps : ∀ p ∈ ps, IsR3 p)
    (hok : GraphOK ps es) (hpd : ∀ e ∈ es, InfoPD 3 e) (hanch : Anchored fixed es (initState 0 ps))
    (χ : ℝ) (b : Nat → ℝ) (H : Nat → Nat → ℝ) (hsys : system fixed es (initState 0 ps) = some (χ, b, H))
    (dx : Nat → ℝ) (hx : Solves (ps.map Pose.cdim).sum H (fun i => - b i) dx) (d : Nat → ℝ) (c₁ c₂ : ℝ)
    (h1 : chi2At fixed es (applyDx Pose.boxplus fixed (initState 0 ps) dx) = some c₁)
    (h2 : chi2At fixed es (applyDx Pose.boxplus fixed (initState 0 ps) d) = some c₂) (hle : c₂ ≤ c₁) :
    applyDx Pose.boxplus fixed (initState 0 ps) d = applyDx Pose.boxplus fixed (initState 0 ps) dx :=
  minimiser_unique linearClass_R3 fixed es _ (stateOK_initState ps) (initState_good IsR3 0 ps hps) hok.distinct
    hok.symm hpd hanch _ hsys dx (by rw [totalDim_initState]; exact hx) d c₁ c₂ h1 h2 hle

/-! ### (d) -/

/-- **(d) for R² graphs**: after one exact step `b` vanishes on `[0, N)` (no connectivity / definiteness needed) -/
theorem gradient_after_step_R2 (fixed : List Nat) (ps : List (Pose ℝ)) (es : List (Edge ℝ)) (hps : ∀ p ∈ ps, IsR2 p)
    (hok : GraphOK ps es) (χ : ℝ) (b : Nat → ℝ) (H : Nat → Nat → ℝ)
    (hsys : system fixed es (initState 0 ps) = some (χ, b, H))
    (dx : Nat → ℝ) (hx : Solves (ps.map Pose.cdim).sum H (fun i => - b i) dx) :
    ∃ χ₁ b₁ H₁, system fixed es (applyDx Pose.boxplus fixed (initState 0 ps) dx) = some (χ₁, b₁, H₁) ∧
      (∀ i, i < (ps.map Pose.cdim).sum → b₁ i = 0) ∧
      (∀ i j, i < (ps.map Pose.cdim).sum → j < (ps.map Pose.cdim).sum → H₁ i j = H i j) := by
  obtain ⟨r₁, h1, h2, h3⟩ := gradient_after_step linearClass_R2 fixed es _ (stateOK_initState ps)
    (initState_good IsR2 0 ps hps) hok.distinct hok.symm _ hsys dx (by rw [totalDim_initState]; exact hx)
  rw [totalDim_initState] at h2 h3
  exact ⟨r₁.1, r₁.2.1, r₁.2.2, h1, h2, h3⟩

theorem gradient_after_step_R3 (fixed : List Nat) (ps : List (Pose ℝ)) (es : List (Edge ℝ)) (hps : ∀ p ∈ ps, IsR3 p)
    (hok : GraphOK ps es) (χ : ℝ) (b : Nat → ℝ) (H : Nat → Nat → ℝ)
    (hsys : system fixed es (initState 0 ps) = some (χ, b, H))
    (dx : Nat → ℝ) (hx : Solves (ps.map Pose.cdim).sum H (fun i => - b i) dx) :
    ∃ χ₁ b₁ H₁, system fixed es (applyDx Pose.boxplus fixed (initState 0 ps) dx) = some (χ₁, b₁, H₁) ∧
      (∀ i, i < (ps.map Pose.cdim).sum → b₁ i = 0) ∧
      (∀ i j, i < (ps.map Pose.cdim).sum → j < (ps.map Pose.cdim).sum → H₁ i j = H i j) := by
  obtain ⟨r₁, h1, h2, h3⟩ := gradient_after_step linearClass_R3 fixed es _ (stateOK_initState ps)
    (initState_good IsR3 0 ps hps) hok.distinct hok.symm _ hsys dx (by rw [totalDim_initState]; exact hx)
  rw [totalDim_initState] at h2 h3
  exact ⟨r₁.1, r₁.2.1, r₁.2.2, h1, h2, h3⟩

/-- **(d) for R² graphs**: with an exact solver every iteration after the first leaves the state unchanged, and the χ²
    sequence is constant from index 1 -/
theorem second_step_zero_R2 (fixed : List Nat) (ps : List (Pose ℝ)) (es : List (Edge ℝ)) (hps : ∀ p ∈ ps, IsR2 p)
    (hok : GraphOK ps es) (hpd : ∀ e ∈ es, InfoPD 2 e) (hanch : Anchored fixed es (initState 0 ps))
    (solve : (Nat → Nat → ℝ) → (Nat → ℝ) → (Nat → ℝ)) (hsolve : ExactSolver (ps.map Pose.cdim).sum solve)
    (s₁ : GState ℝ) (h1 : step solve fixed es (initState 0 ps) = some s₁) :
    step solve fixed es s₁ = some s₁ ∧
      (∀ i, iterStates (fun _ => step solve fixed es) (initState 0 ps) (i + 1) = some s₁) ∧
      ∃ c₁, chi2At fixed es s₁ = some c₁ ∧
        ∀ i, 1 ≤ i → chi2SeqOf (fun _ => step solve fixed es) fixed es (initState 0 ps) i = c₁ := by
  have hs := stateOK_initState ps
  have hg := initState_good IsR2 0 ps hps
  have hsolve' : ExactSolver (totalDim (initState 0 ps)) solve := by rw [totalDim_initState]; exact hsolve
  exact ⟨second_step_zero linearClass_R2 fixed es _ hs hg hok.distinct hok.symm hpd hanch solve hsolve' s₁ h1,
    iterStates_const linearClass_R2 fixed es _ hs hg hok.distinct hok.symm hpd hanch solve hsolve' s₁ h1,
    chi2Seq_const linearClass_R2 fixed es _ hs hg hok.distinct hok.symm hpd hanch solve hsolve' s₁ h1⟩

theorem second_step_zero_R3 (fixed : List Nat) (ps : List (Pose ℝ)) (es : List (Edge ℝ)) (hps : ∀ p ∈ ps, IsR3 p)
    (hok : GraphOK ps es) (hpd : ∀ e ∈ es, InfoPD 3 e) (hanch : Anchored fixed es (initState 0 ps))
    (solve : (Nat → Nat → ℝ) → (Nat → ℝ) → (Nat → ℝ)) (hsolve : ExactSolver (ps.map Pose.cdim).sum solve)
    (s₁ : GState ℝ) (h1 : step solve fixed es (initState 0 ps) = some s₁) :
    step solve fixed es s₁ = some s₁ ∧
      (∀ i, iterStates (fun _ => step solve fixed es) (initState 0 ps) (i + 1) = some s₁) ∧
      ∃ c₁, chi2At fixed es s₁ = some c₁ ∧
        ∀ i, 1 ≤ i → chi2SeqOf (fun _ => step solve fixed es) fixed es (initState 0 ps) i = c₁ := by
  have hs := stateOK_initState ps
  have hg := initState_good IsR3 0 ps hps
  have hsolve' : ExactSolver (totalDim (initState 0 ps)) solve := by rw [totalDim_initState]; exact hsolve
  exact ⟨second_step_zero linearClass_R3 fixed es _ hs hg hok.distinct hok.symm hpd hanch solve hsolve' s₁ h1,
    iterStates_const linearClass_R3 fixed es _ hs hg hok.distinct hok.symm hpd hanch solve hsolve' s₁ h1,
    chi2Seq_const linearClass_R3 fixed es _ hs hg hok.distinct hok.symm hpd hanch solve hsolve' s₁ h1⟩

/-! ### non-vacuity -/

open Classical in
/-- an exact solver exists (classical choice of a solution whenever there is one) -/
def chooseSolve (N : Nat) : (Nat → Nat → ℝ) → (Nat → ℝ) → (Nat → ℝ) :=
  fun H b => if h : ∃ x, Solves N H b x then Classical.choose h else fun _ => 0

theorem chooseSolve_exact (N : Nat) : ExactSolver N (chooseSolve N) := by
  intro H b h
  unfold chooseSolve
  rw [dif_pos h]
  exact Classical.choose_spec h

/-- two R² points, the first fixed by `fix_first_pose`, one odometry edge `0 → 1` with measurement `(1, 1)` and identity
    information, initial estimates `(0, 0)` and `(5, 7)` -/
def exPs : List (Pose ℝ) := [.r2 (fun _ => 0), .r2 (fun i => if i = 0 then 5 else 7)]
def exEs : List (Edge ℝ) := [.odo 0 1 (.r2 (fun _ => 1)) (fun a b => if a = b then 1 else 0)]

theorem ex_infoPD : ∀ e ∈ exEs, InfoPD 2 e := by
  intro e he
  simp only [exEs, List.mem_singleton] at he
  subst he
  intro x ⟨a, ha, hxa⟩
  simp only [Edge.info, sum_range_succ, sum_range_zero]
  norm_num
  interval_cases a
  · nlinarith [sq_nonneg (x 1), sq_pos_of_ne_zero hxa]
  · nlinarith [sq_nonneg (x 0), sq_pos_of_ne_zero hxa]

theorem ex_anchored : Anchored (fixedOf true [false, false] exPs) exEs (initState 0 exPs) := by
  have h0 : FixedPos (fixedOf true [false, false] exPs) (initState 0 exPs) 0 := by
    rw [fixedPos_iff_flag]; simp [exPs, applyFixFirst]
  intro k hk
  have hk' : k < 2 := by simpa [exPs, initState] using hk
  refine ⟨0, h0, ?_⟩
  interval_cases k
  · exact Relation.ReflTransGen.refl
  · exact Relation.ReflTransGen.single ⟨_, List.mem_singleton.mpr rfl, Or.inl rfl⟩

/-- **non-vacuity of (a)–(e)**: every hypothesis of `optimize_linear_optimum_R2` holds for this graph with `chooseSolve`,
    so the call returns the minimiser, reports its χ² and `converged = true` -/
example : ∃ (report : Report ℝ) (sStar : GState ℝ) (cStar : ℝ),
    optimizeSolve (1e-3 : ℝ) 1e-9 5 true [false, false] (chooseSolve 4) exEs exPs
      = .ok (report, some sStar, [true, false]) ∧
    chi2At (fixedOf true [false, false] exPs) exEs sStar = some cStar ∧ report.finalChi2 = some cStar ∧
    report.converged = true := by
  have hsolve : ExactSolver (exPs.map Pose.cdim).sum (chooseSolve 4) := by
    have : (exPs.map Pose.cdim).sum = 4 := by simp [exPs, Pose.cdim]
    rw [this]; exact chooseSolve_exact 4
  obtain ⟨rep, sStar, cStar, h1, _, h3, h4, _, h6, _⟩ :=
    optimize_linear_optimum_R2 (1e-3 : ℝ) 1e-9 5 (by norm_num) true [false, false] (chooseSolve 4) exEs exPs
      (by intro p hp; simp only [exPs, List.mem_cons, List.not_mem_nil, or_false] at hp; rcases hp with rfl | rfl <;> trivial)
      ⟨_, rfl⟩
      ⟨by intro e he; simp only [exEs, List.mem_singleton] at he; subst he; simp [Edge.ends],
       by intro e he a b; simp only [exEs, List.mem_singleton] at he; subst he; simp [Edge.info, eq_comm]⟩
      ex_infoPD ex_anchored hsolve
  exact ⟨rep, sStar, cStar, h1, h3, h4, h6 (by norm_num) (by norm_num) (by norm_num)⟩

end
end GraphSlam.Props.C04
