import GraphSlam.Props.C04.Quad
import GraphSlam.Props.C04.Linear
import GraphSlam.Props.E2E.Step
import GraphSlam.Props.E2E.Frame
import Mathlib.Tactic.IntervalCases

/-!
# C04 (a) — for R² / R³ graphs the linearisation is exact, at the level of `Model.linearise` / `Model.chi2At`

* `shiftLin l d`   — the `EdgeLin` whose error is the linearised residual `e + J̄ d` of `l` (same Jacobians, same `Ω`);
* `mkLin_shift`    — generic in the block sizes: if the error of a binary edge moves affinely with the generated Jacobians,
                     the record `Model.mkLin` builds at the moved estimates *is* `shiftLin` of the record at the old ones;
* `LinearClass`    — what is needed of a class of vertex estimates (`IsR2`, `IsR3`): box-plus keeps the class, `⊞ 0` is
                     the identity, `Model.lineariseAt` at box-plus-moved estimates is `shiftLin`, the scattered Jacobian
                     of every edge is `±(v[g₁:] − v[g₀:])`; `linearClass_R2`, `linearClass_R3` prove it from the **generated**
                     `calc_error_* / calc_jacobians_* / iadd_boxplus`;
* `linearise_moved`, `lins_moved` — hence for a whole state moved by `Model.applyDx Pose.boxplus fixed · d`;
* `chi2_after_increment` — **(a)**: `chi2At` of the moved state is `Σ_edges (e + J̄ d̃)ᵀ Ω (e + J̄ d̃)`, `d̃ = zeroFixed … d`.
-/

namespace GraphSlam.Props.C04
open GraphSlam GraphSlam.Gen GraphSlam.Model GraphSlam.Props.C03 GraphSlam.Props.E2E Finset
set_option linter.unusedVariables false
set_option linter.unusedSimpArgs false
noncomputable section

/-! ### the record of an edge after an increment -/

/-- `l` with the error replaced by the linearised residual at `d` (and χ² recomputed from it) -/
def shiftLin (l : EdgeLin ℝ) (d : Nat → ℝ) : EdgeLin ℝ :=
  { m := l.m, chi2 := linChi2 l d, err := resid l d, info := l.info, verts := l.verts }

@[simp] theorem shiftLin_m (l : EdgeLin ℝ) (d : Nat → ℝ) : (shiftLin l d).m = l.m := rfl
@[simp] theorem shiftLin_info (l : EdgeLin ℝ) (d : Nat → ℝ) : (shiftLin l d).info = l.info := rfl
@[simp] theorem shiftLin_verts (l : EdgeLin ℝ) (d : Nat → ℝ) : (shiftLin l d).verts = l.verts := rfl
@[simp] theorem shiftLin_err (l : EdgeLin ℝ) (d : Nat → ℝ) : (shiftLin l d).err = resid l d := rfl
@[simp] theorem shiftLin_chi2 (l : EdgeLin ℝ) (d : Nat → ℝ) : (shiftLin l d).chi2 = linChi2 l d := rfl

theorem quad_shiftLin (l : EdgeLin ℝ) (d : Nat → ℝ) (r r' : Nat → ℝ) : quad (shiftLin l d) r r' = quad l r r' := rfl
theorem jcol_shiftLin (l : EdgeLin ℝ) (d : Nat → ℝ) (g s : Nat) : jcol (shiftLin l d) g s = jcol l g s := rfl
theorem jbar_shiftLin (l : EdgeLin ℝ) (d : Nat → ℝ) (v : Nat → ℝ) : jbar (shiftLin l d) v = jbar l v := rfl

theorem arrV_val {n : Nat} (v : Fin n → ℝ) (i : Fin n) : arrV v i.val = v i := by
  simp [arrV]

theorem arrM_val {m n : Nat} (M : Fin m → Fin n → ℝ) (i : Fin m) (j : Fin n) : arrM M i.val j.val = M i j := by
  simp [arrM]

theorem arrM_ge {m n : Nat} (M : Fin m → Fin n → ℝ) (a t : Nat) (h : m ≤ a) : arrM M a t = 0 := by
  have : ¬ (a < m ∧ t < n) := by omega
  simp [arrM, this]

theorem jbar_mkLin {m c0 c1 : Nat} (g0 g1 : Nat) (err : Fin m → ℝ) (info : Nat → Nat → ℝ)
    (J0 : Fin m → Fin c0 → ℝ) (J1 : Fin m → Fin c1 → ℝ) (v : Nat → ℝ) (a : Nat) :
    jbar (mkLin g0 g1 err info J0 J1) v a =
      (∑ t ∈ range c0, arrM J0 a t * v (g0 + t)) + ∑ t ∈ range c1, arrM J1 a t * v (g1 + t) := by
  simp [jbar, mkLin]

/-- the χ² `mkLin` stores (generated `BaseEdge.calc_chi2`) is `eᵀ Ω e` -/
theorem mkLin_chi2 {m c0 c1 : Nat} (g0 g1 : Nat) (err : Fin m → ℝ) (info : Nat → Nat → ℝ)
    (J0 : Fin m → Fin c0 → ℝ) (J1 : Fin m → Fin c1 → ℝ) :
    (mkLin g0 g1 err info J0 J1).chi2 = quad (mkLin g0 g1 err info J0 J1) (arrV err) (arrV err) := by
  show BaseEdge.calc_chi2 err (fun a b => info a.val b.val) = ∑ a ∈ range m, ∑ b ∈ range m, arrV err a * info a b * arrV err b
  rw [sum_range]
  simp only [BaseEdge.calc_chi2, dotVV, dotVM, transposeV, finSum_eq_sum, sum_range, arrV_val, sum_mul]
  rw [sum_comm]

/-- **generic step**: an affine error with the record's own Jacobians gives the shifted record -/
theorem mkLin_shift {m c0 c1 : Nat} (g0 g1 : Nat) (err err' : Fin m → ℝ) (info : Nat → Nat → ℝ)
    (J0 : Fin m → Fin c0 → ℝ) (J1 : Fin m → Fin c1 → ℝ) (d : Nat → ℝ)
    (h : ∀ i, err' i = err i + dotMV J0 (vecN fun t => d (g0 + t)) i + dotMV J1 (vecN fun t => d (g1 + t)) i) :
    mkLin g0 g1 err' info J0 J1 = shiftLin (mkLin g0 g1 err info J0 J1) d := by
  have hres : resid (mkLin g0 g1 err info J0 J1) d = arrV err' := by
    funext a
    unfold resid
    rw [jbar_mkLin]
    by_cases ha : a < m
    · have e1 : arrV err' a = err' ⟨a, ha⟩ := arrV_val err' ⟨a, ha⟩
      have e2 : arrV err a = err ⟨a, ha⟩ := arrV_val err ⟨a, ha⟩
      show arrV err a + _ = _
      rw [e1, e2, h ⟨a, ha⟩, sum_range, sum_range]
      simp only [dotMV, finSum_eq_sum, vecN]
      have e3 : ∀ t : Fin c0, arrM J0 a t.val = J0 ⟨a, ha⟩ t := fun t => arrM_val J0 ⟨a, ha⟩ t
      have e4 : ∀ t : Fin c1, arrM J1 a t.val = J1 ⟨a, ha⟩ t := fun t => arrM_val J1 ⟨a, ha⟩ t
      simp only [e3, e4]
      ring
    · have e1 : arrV err' a = 0 := by simp [arrV, ha]
      have e2 : arrV err a = 0 := by simp [arrV, ha]
      show arrV err a + _ = _
      rw [e1, e2]
      simp [arrM_ge _ a _ (Nat.le_of_not_lt ha)]
  have hchi := mkLin_chi2 g0 g1 err' info J0 J1
  unfold shiftLin linChi2
  rw [hres]
  show EdgeLin.mk m (mkLin g0 g1 err' info J0 J1).chi2 (arrV err') info _ = _
  rw [hchi]
  rfl

/-! ### what is needed of a class of vertex estimates -/

/-- a class `Good` of vertex estimates of compact dimension `n` on which the edge errors are affine in the box-plus
    increments with the Jacobians the code computes, and those Jacobians are `∓I`, `±I` -/
structure LinearClass (Good : Pose ℝ → Prop) (n : Nat) : Prop where
  cdim : ∀ p, Good p → p.cdim = n
  good : ∀ p δ, Good p → Good (Pose.boxplus p δ)
  zero : ∀ p, Good p → Pose.boxplus p (fun _ => 0) = p
  ext : ∀ p (δ δ' : Nat → ℝ), Good p → (∀ t, t < n → δ t = δ' t) → Pose.boxplus p δ = Pose.boxplus p δ'
  aff : ∀ g0 g1 p0 p1 e l, Good p0 → Good p1 → lineariseAt g0 g1 p0 p1 e = some l → ∀ d : Nat → ℝ,
    lineariseAt g0 g1 (Pose.boxplus p0 fun t => d (g0 + t)) (Pose.boxplus p1 fun t => d (g1 + t)) e = some (shiftLin l d)
  shape : ∀ g0 g1 p0 p1 e l, Good p0 → Good p1 → lineariseAt g0 g1 p0 p1 e = some l →
    l.m = n ∧ ∃ σ : ℝ, σ ≠ 0 ∧ ∀ (v : Nat → ℝ) a, a < n → jbar l v a = σ * (v (g1 + a) - v (g0 + a))
  reach : ∀ p q, Good p → Good q → ∃ δ : Nat → ℝ, Pose.boxplus p δ = q

macro "rn_simp" : tactic =>
  `(tactic| (
      simp [EdgeOdometry.calc_error_R2, EdgeOdometry.calc_error_R3, EdgeLandmark.calc_error_R2, EdgeLandmark.calc_error_R3,
        EdgeOdometry.calc_jacobians_R2_0, EdgeOdometry.calc_jacobians_R2_1, EdgeOdometry.calc_jacobians_R3_0,
        EdgeOdometry.calc_jacobians_R3_1, EdgeLandmark.calc_jacobians_R2_0, EdgeLandmark.calc_jacobians_R2_1,
        EdgeLandmark.calc_jacobians_R3_0, EdgeLandmark.calc_jacobians_R3_1,
        PoseR2.to_compact, PoseR2.sub, PoseR2.add, PoseR2.inverse, PoseR2.boxplus,
        PoseR3.to_compact, PoseR3.sub, PoseR3.add, PoseR3.inverse, PoseR3.boxplus,
        PoseR2.jacobian_self_ominus_other_wrt_other_compact, PoseR2.jacobian_self_ominus_other_wrt_other,
        PoseR2.jacobian_self_ominus_other_wrt_self, PoseR2.jacobian_boxplus, PoseR2.jacobian_self_oplus_point_wrt_self,
        PoseR2.jacobian_self_oplus_point_wrt_point, PoseR2.jacobian_inverse, PoseR2.jacobian_self_oplus_other_wrt_self,
        PoseR3.jacobian_self_ominus_other_wrt_other_compact, PoseR3.jacobian_self_ominus_other_wrt_other,
        PoseR3.jacobian_self_ominus_other_wrt_self, PoseR3.jacobian_boxplus, PoseR3.jacobian_self_oplus_point_wrt_self,
        PoseR3.jacobian_self_oplus_point_wrt_point, PoseR3.jacobian_inverse, PoseR3.jacobian_self_oplus_other_wrt_self,
        dotMV, dotMM, finSum_two, finSum_three, eye, negM, jbar_mkLin, sum_range_succ, arrM, vecN, arrV]))

theorem linearClass_R2 : LinearClass IsR2 2 where
  cdim := by intro p h; cases p <;> simp only [IsR2] at h; rfl
  good := good_R2
  zero := by
    intro p h; cases p <;> simp only [IsR2] at h
    simp only [Pose.boxplus, stored_eq, PoseR2.iadd_boxplus]
    congr 1; funext i; fin_cases i <;> simp [PoseR2.boxplus, vecN]
  ext := by
    intro p δ δ' h hδ; cases p <;> simp only [IsR2] at h
    simp only [Pose.boxplus, stored_eq, PoseR2.iadd_boxplus]
    have : (vecN δ : Fin 2 → ℝ) = vecN δ' := by funext i; exact hδ i.val i.isLt
    rw [this]
  aff := by
    intro g0 g1 p0 p1 e l h0 h1 h d
    cases p0 <;> simp only [IsR2] at h0
    cases p1 <;> simp only [IsR2] at h1
    rename_i a b
    cases e with
    | odo i j z info =>
      cases z <;> simp only [lineariseAt, Option.some.injEq, reduceCtorEq] at h
      subst h
      simp only [Pose.boxplus, stored_eq, lineariseAt, PoseR2.iadd_boxplus, Option.some.injEq]
      exact mkLin_shift g0 g1 _ _ info _ _ d (fun i => odometry_R2_affine _ a b _ _ i)
    | lm i j z off info =>
      cases z <;> cases off <;> simp only [lineariseAt, Option.some.injEq, reduceCtorEq] at h
      subst h
      simp only [Pose.boxplus, stored_eq, lineariseAt, PoseR2.iadd_boxplus, Option.some.injEq]
      exact mkLin_shift g0 g1 _ _ info _ _ d (fun i => landmark_R2_affine _ _ a b _ _ i)
  shape := by
    intro g0 g1 p0 p1 e l h0 h1 h
    cases p0 <;> simp only [IsR2] at h0
    cases p1 <;> simp only [IsR2] at h1
    rename_i a b
    cases e with
    | odo i j z info =>
      cases z <;> simp only [lineariseAt, Option.some.injEq, reduceCtorEq] at h
      subst h
      refine ⟨rfl, -1, by norm_num, ?_⟩
      intro v a ha
      interval_cases a <;> rn_simp <;> ring
    | lm i j z off info =>
      cases z <;> cases off <;> simp only [lineariseAt, Option.some.injEq, reduceCtorEq] at h
      subst h
      refine ⟨rfl, 1, by norm_num, ?_⟩
      intro v a ha
      interval_cases a <;> rn_simp <;> ring
  reach := by
    intro p q hp hq
    cases p <;> simp only [IsR2] at hp
    cases q <;> simp only [IsR2] at hq
    rename_i p q
    refine ⟨arrV fun i => q i - p i, ?_⟩
    simp only [Pose.boxplus, stored_eq, PoseR2.iadd_boxplus]
    congr 1; funext i; fin_cases i <;> simp [PoseR2.boxplus, vecN, arrV]

theorem linearClass_R3 : LinearClass IsR3 3 where
  cdim := by intro p h; cases p <;> simp only [IsR3] at h; rfl
  good := good_R3
  zero := by
    intro p h; cases p <;> simp only [IsR3] at h
    simp only [Pose.boxplus, stored_eq, PoseR3.iadd_boxplus]
    congr 1; funext i; fin_cases i <;> simp [PoseR3.boxplus, vecN]
  ext := by
    intro p δ δ' h hδ; cases p <;> simp only [IsR3] at h
    simp only [Pose.boxplus, stored_eq, PoseR3.iadd_boxplus]
    have : (vecN δ : Fin 3 → ℝ) = vecN δ' := by funext i; exact hδ i.val i.isLt
    rw [this]
  aff := by
    intro g0 g1 p0 p1 e l h0 h1 h d
    cases p0 <;> simp only [IsR3] at h0
    cases p1 <;> simp only [IsR3] at h1
    rename_i a b
    cases e with
    | odo i j z info =>
      cases z <;> simp only [lineariseAt, Option.some.injEq, reduceCtorEq] at h
      subst h
      simp only [Pose.boxplus, stored_eq, lineariseAt, PoseR3.iadd_boxplus, Option.some.injEq]
      exact mkLin_shift g0 g1 _ _ info _ _ d (fun i => odometry_R3_affine _ a b _ _ i)
    | lm i j z off info =>
      cases z <;> cases off <;> simp only [lineariseAt, Option.some.injEq, reduceCtorEq] at h
      subst h
      simp only [Pose.boxplus, stored_eq, lineariseAt, PoseR3.iadd_boxplus, Option.some.injEq]
      exact mkLin_shift g0 g1 _ _ info _ _ d (fun i => landmark_R3_affine _ _ a b _ _ i)
  shape := by
    intro g0 g1 p0 p1 e l h0 h1 h
    cases p0 <;> simp only [IsR3] at h0
    cases p1 <;> simp only [IsR3] at h1
    rename_i a b
    cases e with
    | odo i j z info =>
      cases z <;> simp only [lineariseAt, Option.some.injEq, reduceCtorEq] at h
      subst h
      refine ⟨rfl, -1, by norm_num, ?_⟩
      intro v a ha
      interval_cases a <;> rn_simp <;> ring
    | lm i j z off info =>
      cases z <;> cases off <;> simp only [lineariseAt, Option.some.injEq, reduceCtorEq] at h
      subst h
      refine ⟨rfl, 1, by norm_num, ?_⟩
      intro v a ha
      interval_cases a <;> rn_simp <;> ring
  reach := by
    intro p q hp hq
    cases p <;> simp only [IsR3] at hp
    cases q <;> simp only [IsR3] at hq
    rename_i p q
    refine ⟨arrV fun i => q i - p i, ?_⟩
    simp only [Pose.boxplus, stored_eq, PoseR3.iadd_boxplus]
    congr 1; funext i; fin_cases i <;> simp [PoseR3.boxplus, vecN, arrV]

end
end GraphSlam.Props.C04
