import GraphSlam.Props.C03.Assembled
import Mathlib.Algebra.BigOperators.Ring.Finset
import Mathlib.Algebra.BigOperators.Ring.List
import Mathlib.Algebra.Order.BigOperators.Group.List

/-!
# C04 — the linearised χ² of a list of `EdgeLin`s as a quadratic function of the dense increment

Helper algebra for `Props/C04/EndToEnd`.  Everything here is about `Model.EdgeLin` (the record
`BaseEdge.calc_chi2_gradient_hessian` works from, base_edge.py:115-140) and about the index layout of the dense system
(`Props.C03.Layout`):

* `quad l r r'`      — `rᵀ Ω r'` with the edge's information matrix;
* `jbar l v`         — `J̄ v`: the edge Jacobians applied to the slices `v[g : g + c]` of a dense vector at the edge's vertices;
* `resid l d`        — the linearised residual `e + J̄ d`; `linChi2 l d = (e + J̄ d)ᵀ Ω (e + J̄ d)`;
* `jcol l g s`       — column `g + s` of the scattered Jacobian `J̄`;
* `gradEntry`, `hessEntry` — `Σ_edges eᵀ Ω J̄[:, g+s]` and `Σ_edges J̄[:, g+s]ᵀ Ω J̄[:, g'+t]`: what `Props/C03` proves the dense `b`
  and `H` to be (`gradContrib_sum_eq`, `ordered_sum_eq` connect to the exact expressions of `assembled_gradient`,
  `assembled_hessian`);
* `cross_expand`, `energy_expand`, `gradAt_expand` — the bilinear expansions
  `Σ_edges (J̄ v)ᵀ Ω (e + J̄ y) = Σ_{(g,s)} v[g+s] · (b'[g+s] + Σ_{(g',t)} H'[g+s, g'+t] · y[g'+t])`.
-/

namespace GraphSlam.Props.C04
open GraphSlam GraphSlam.Model GraphSlam.Props.C03 Finset
set_option linter.unusedVariables false
set_option linter.unusedSimpArgs false
noncomputable section

/-! ### list / finset sum plumbing -/

theorem listsum_finsum_comm {α : Type} (L : List α) (S : Finset Nat) (f : α → Nat → ℝ) :
    (L.map fun x => ∑ s ∈ S, f x s).sum = ∑ s ∈ S, (L.map fun x => f x s).sum := by
  induction L with
  | nil => simp
  | cons x xs ih => simp only [List.map_cons, List.sum_cons, ih, sum_add_distrib]

theorem listsum_listsum_comm {α β : Type} (L : List α) (L' : List β) (f : α → β → ℝ) :
    (L.map fun x => (L'.map fun y => f x y).sum).sum = (L'.map fun y => (L.map fun x => f x y).sum).sum := by
  induction L with
  | nil => simp
  | cons a L ih =>
    simp only [List.map_cons, List.sum_cons, ih]
    rw [← List.sum_map_add]

theorem listsum_congr {α : Type} (L : List α) (f g : α → ℝ) (h : ∀ x ∈ L, f x = g x) :
    (L.map f).sum = (L.map g).sum := by
  rw [List.map_congr_left h]

theorem listsum_zero {α : Type} (L : List α) (f : α → ℝ) (h : ∀ x ∈ L, f x = 0) : (L.map f).sum = 0 := by
  induction L with
  | nil => simp
  | cons a L ih =>
    simp only [List.map_cons, List.sum_cons]
    rw [h a (by simp), ih (fun x hx => h x (by simp [hx]))]; ring

/-! ### the Ω-bilinear form of one edge -/

/-- `rᵀ Ω r'` over the edge's error dimension -/
def quad (l : EdgeLin ℝ) (r r' : Nat → ℝ) : ℝ :=
  ∑ a ∈ range l.m, ∑ b ∈ range l.m, r a * l.info a b * r' b

theorem quad_add_left (l : EdgeLin ℝ) (r₁ r₂ r' : Nat → ℝ) :
    quad l (fun a => r₁ a + r₂ a) r' = quad l r₁ r' + quad l r₂ r' := by
  simp only [quad, add_mul, sum_add_distrib]

theorem quad_add_right (l : EdgeLin ℝ) (r r₁ r₂ : Nat → ℝ) :
    quad l r (fun b => r₁ b + r₂ b) = quad l r r₁ + quad l r r₂ := by
  simp only [quad, mul_add, sum_add_distrib]

theorem quad_zero_left (l : EdgeLin ℝ) (r' : Nat → ℝ) : quad l (fun _ => 0) r' = 0 := by
  simp [quad]

theorem quad_zero_right (l : EdgeLin ℝ) (r : Nat → ℝ) : quad l r (fun _ => 0) = 0 := by
  simp [quad]

theorem quad_smul_left (l : EdgeLin ℝ) (c : ℝ) (r r' : Nat → ℝ) :
    quad l (fun a => c * r a) r' = c * quad l r r' := by
  simp only [quad, mul_sum]
  apply sum_congr rfl; intro a _; apply sum_congr rfl; intro b _; ring

theorem quad_smul_right (l : EdgeLin ℝ) (c : ℝ) (r r' : Nat → ℝ) :
    quad l r (fun b => r' b * c) = quad l r r' * c := by
  simp only [quad, sum_mul]
  apply sum_congr rfl; intro a _; apply sum_congr rfl; intro b _; ring

theorem quad_symm (l : EdgeLin ℝ) (hsym : ∀ a b, l.info a b = l.info b a) (r r' : Nat → ℝ) :
    quad l r r' = quad l r' r := by
  unfold quad
  rw [sum_comm]
  apply sum_congr rfl; intro a _; apply sum_congr rfl; intro b _
  rw [hsym b a]; ring

theorem quad_congr (l : EdgeLin ℝ) (r₁ r₂ r₁' r₂' : Nat → ℝ) (h : ∀ a, a < l.m → r₁ a = r₂ a)
    (h' : ∀ a, a < l.m → r₁' a = r₂' a) : quad l r₁ r₁' = quad l r₂ r₂' := by
  unfold quad
  apply sum_congr rfl; intro a ha; apply sum_congr rfl; intro b hb
  rw [h a (mem_range.mp ha), h' b (mem_range.mp hb)]

theorem quad_ite_left (l : EdgeLin ℝ) (c : Prop) [Decidable c] (r r' : Nat → ℝ) :
    quad l (fun a => if c then r a else 0) r' = if c then quad l r r' else 0 := by
  by_cases h : c <;> simp [h, quad_zero_left]

theorem quad_ite_right (l : EdgeLin ℝ) (c : Prop) [Decidable c] (r r' : Nat → ℝ) :
    quad l r (fun a => if c then r' a else 0) = if c then quad l r r' else 0 := by
  by_cases h : c <;> simp [h, quad_zero_right]

theorem quad_listsum_left {α : Type} (l : EdgeLin ℝ) (L : List α) (f : α → Nat → ℝ) (r' : Nat → ℝ) :
    quad l (fun a => (L.map fun x => f x a).sum) r' = (L.map fun x => quad l (f x) r').sum := by
  induction L with
  | nil => simp [quad_zero_left]
  | cons x xs ih =>
    simp only [List.map_cons, List.sum_cons]
    rw [quad_add_left l (f x) (fun a => (xs.map fun x => f x a).sum) r', ih]

theorem quad_listsum_right {α : Type} (l : EdgeLin ℝ) (L : List α) (r : Nat → ℝ) (f : α → Nat → ℝ) :
    quad l r (fun a => (L.map fun x => f x a).sum) = (L.map fun x => quad l r (f x)).sum := by
  induction L with
  | nil => simp [quad_zero_right]
  | cons x xs ih =>
    simp only [List.map_cons, List.sum_cons]
    rw [quad_add_right l r (f x) (fun a => (xs.map fun x => f x a).sum), ih]

theorem quad_finsum_left (l : EdgeLin ℝ) (S : Finset Nat) (f : Nat → Nat → ℝ) (r' : Nat → ℝ) :
    quad l (fun a => ∑ s ∈ S, f s a) r' = ∑ s ∈ S, quad l (f s) r' := by
  unfold quad
  simp only [sum_mul]
  have h : ∀ a ∈ range l.m, (∑ b ∈ range l.m, ∑ s ∈ S, f s a * l.info a b * r' b)
      = ∑ s ∈ S, ∑ b ∈ range l.m, f s a * l.info a b * r' b := fun a _ => sum_comm
  rw [sum_congr rfl h, sum_comm]

theorem quad_finsum_right (l : EdgeLin ℝ) (S : Finset Nat) (r : Nat → ℝ) (f : Nat → Nat → ℝ) :
    quad l r (fun a => ∑ s ∈ S, f s a) = ∑ s ∈ S, quad l r (f s) := by
  unfold quad
  simp only [mul_sum]
  have h : ∀ a ∈ range l.m, (∑ b ∈ range l.m, ∑ s ∈ S, r a * l.info a b * f s b)
      = ∑ s ∈ S, ∑ b ∈ range l.m, r a * l.info a b * f s b := fun a _ => sum_comm
  rw [sum_congr rfl h, sum_comm]

/-! ### the edge Jacobian applied to a dense vector; its columns -/

/-- `(J̄ v)[a] = Σ_{x vertex of the edge} Σ_{t < dim x} J_x[a, t] · v[g_x + t]` -/
def jbar (l : EdgeLin ℝ) (v : Nat → ℝ) (a : Nat) : ℝ :=
  (l.verts.map fun x => ∑ t ∈ range x.2.1, x.2.2 a t * v (x.1 + t)).sum

/-- column `g + s` of the scattered Jacobian: `Σ_{x, g_x = g} J_x[a, s]` -/
def jcol (l : EdgeLin ℝ) (g s : Nat) (a : Nat) : ℝ :=
  (l.verts.map fun x => if x.1 = g then x.2.2 a s else 0).sum

/-- the linearised residual `e + J̄ d` -/
def resid (l : EdgeLin ℝ) (d : Nat → ℝ) (a : Nat) : ℝ := l.err a + jbar l d a

/-- the linearised χ² of one edge: `(e + J̄ d)ᵀ Ω (e + J̄ d)` -/
def linChi2 (l : EdgeLin ℝ) (d : Nat → ℝ) : ℝ := quad l (resid l d) (resid l d)

theorem jbar_add (l : EdgeLin ℝ) (v w : Nat → ℝ) (a : Nat) :
    jbar l (fun i => v i + w i) a = jbar l v a + jbar l w a := by
  unfold jbar
  rw [← List.sum_map_add]
  apply congrArg; apply List.map_congr_left; intro x _
  rw [← sum_add_distrib]
  apply sum_congr rfl; intro t _; ring

theorem jbar_sub (l : EdgeLin ℝ) (v w : Nat → ℝ) (a : Nat) :
    jbar l (fun i => v i - w i) a = jbar l v a - jbar l w a := by
  have := jbar_add l (fun i => v i - w i) w a
  simp only [sub_add_cancel] at this
  linarith

theorem jbar_zero (l : EdgeLin ℝ) (a : Nat) : jbar l (fun _ => 0) a = 0 := by
  unfold jbar
  apply listsum_zero; intro x _; simp

/-- `J̄ v` reads `v` only inside the index ranges of the edge's vertices -/
theorem jbar_congr (l : EdgeLin ℝ) (v w : Nat → ℝ) (h : ∀ x ∈ l.verts, ∀ t, t < x.2.1 → v (x.1 + t) = w (x.1 + t)) (a : Nat) :
    jbar l v a = jbar l w a := by
  unfold jbar
  apply listsum_congr; intro x hx
  apply sum_congr rfl; intro t ht
  rw [h x hx t (mem_range.mp ht)]

theorem resid_congr (l : EdgeLin ℝ) (v w : Nat → ℝ) (h : ∀ x ∈ l.verts, ∀ t, t < x.2.1 → v (x.1 + t) = w (x.1 + t)) (a : Nat) :
    resid l v a = resid l w a := by
  unfold resid; rw [jbar_congr l v w h]

theorem linChi2_congr (l : EdgeLin ℝ) (v w : Nat → ℝ) (h : ∀ x ∈ l.verts, ∀ t, t < x.2.1 → v (x.1 + t) = w (x.1 + t)) :
    linChi2 l v = linChi2 l w := by
  unfold linChi2
  exact quad_congr l _ _ _ _ (fun a _ => resid_congr l v w h a) (fun a _ => resid_congr l v w h a)

/-- **quadratic expansion around an increment `y`** (symmetric `Ω`):
    `χ²_lin(d) = χ²_lin(y) + 2 (J̄(d−y))ᵀ Ω (e + J̄ y) + (J̄(d−y))ᵀ Ω (J̄(d−y))` -/
theorem linChi2_expand (l : EdgeLin ℝ) (hsym : ∀ a b, l.info a b = l.info b a) (d y : Nat → ℝ) :
    linChi2 l d = linChi2 l y + 2 * quad l (jbar l fun i => d i - y i) (resid l y)
      + quad l (jbar l fun i => d i - y i) (jbar l fun i => d i - y i) := by
  have hres : resid l d = fun a => resid l y a + jbar l (fun i => d i - y i) a := by
    funext a
    unfold resid
    rw [jbar_sub]; ring
  unfold linChi2
  rw [hres]
  rw [quad_add_left l (resid l y) (jbar l fun i => d i - y i),
    quad_add_right l (resid l y) (resid l y) (jbar l fun i => d i - y i),
    quad_add_right l (jbar l fun i => d i - y i) (resid l y) (jbar l fun i => d i - y i),
    quad_symm l hsym (resid l y) (jbar l fun i => d i - y i)]
  ring

/-! ### sums over the positions of a layout -/

/-- `Σ_{(g, c) ∈ lay} Σ_{s < c} F g s` -/
def laySum (lay : List (Nat × Nat)) (F : Nat → Nat → ℝ) : ℝ := (lay.map fun u => ∑ s ∈ range u.2, F u.1 s).sum

theorem laySum_cons (u : Nat × Nat) (rest : List (Nat × Nat)) (F : Nat → Nat → ℝ) :
    laySum (u :: rest) F = (∑ s ∈ range u.2, F u.1 s) + laySum rest F := by
  simp [laySum]

theorem laySum_add (lay : List (Nat × Nat)) (F G : Nat → Nat → ℝ) :
    laySum lay (fun g s => F g s + G g s) = laySum lay F + laySum lay G := by
  unfold laySum
  rw [← List.sum_map_add]
  apply congrArg; apply List.map_congr_left; intro u _
  rw [sum_add_distrib]

theorem laySum_congr (lay : List (Nat × Nat)) (F G : Nat → Nat → ℝ)
    (h : ∀ u ∈ lay, ∀ s, s < u.2 → F u.1 s = G u.1 s) : laySum lay F = laySum lay G := by
  unfold laySum
  apply listsum_congr; intro u hu
  apply sum_congr rfl; intro s hs
  exact h u hu s (mem_range.mp hs)

theorem laySum_zero (lay : List (Nat × Nat)) (F : Nat → Nat → ℝ)
    (h : ∀ u ∈ lay, ∀ s, s < u.2 → F u.1 s = 0) : laySum lay F = 0 := by
  unfold laySum
  apply listsum_zero; intro u hu
  apply sum_eq_zero; intro s hs
  exact h u hu s (mem_range.mp hs)

theorem laySum_mul_left (lay : List (Nat × Nat)) (c : ℝ) (F : Nat → Nat → ℝ) :
    laySum lay (fun g s => c * F g s) = c * laySum lay F := by
  unfold laySum
  rw [← List.sum_map_mul_left]
  apply congrArg; apply List.map_congr_left; intro u _
  rw [mul_sum]

theorem listsum_laySum_comm {α : Type} (L : List α) (lay : List (Nat × Nat)) (F : α → Nat → Nat → ℝ) :
    (L.map fun x => laySum lay (F x)).sum = laySum lay fun g s => (L.map fun x => F x g s).sum := by
  unfold laySum
  rw [listsum_listsum_comm]
  apply congrArg; apply List.map_congr_left; intro u _
  rw [listsum_finsum_comm]

/-- in a layout with pairwise distinct gradient indices, an indicator on the index picks one vertex -/
theorem laySum_pick (lay : List (Nat × Nat)) (hnd : (lay.map (·.1)).Nodup) (g0 d0 : Nat) (h0 : (g0, d0) ∈ lay)
    (F : Nat → Nat → ℝ) :
    laySum lay (fun g s => if g0 = g then F g s else 0) = ∑ s ∈ range d0, F g0 s := by
  induction lay with
  | nil => simp at h0
  | cons u rest ih =>
    simp only [List.map_cons, List.nodup_cons] at hnd
    have hrest : ∀ w ∈ rest, w.1 ≠ u.1 := by
      intro w hw h
      exact hnd.1 (h ▸ List.mem_map_of_mem (f := (·.1)) hw)
    rw [laySum_cons]
    by_cases hu : g0 = u.1
    · have hmem : (g0, d0) = u := by
        rcases List.mem_cons.mp h0 with h | h
        · exact h
        · exact absurd hu (by have := hrest _ h; simpa using this)
      subst hmem
      simp only [if_true]
      rw [laySum_zero rest _ (fun w hw s _ => by
        have : ¬ (g0 = w.1) := fun h => hrest w hw h.symm
        simp [this])]
      ring
    · have hmem : (g0, d0) ∈ rest := by
        rcases List.mem_cons.mp h0 with h | h
        · exact absurd (by rw [← h]) hu
        · exact h
      simp only [hu, if_false, sum_const_zero, zero_add]
      exact ih hnd.2 hmem

/-! ### scattering: `J̄ v = Σ_{(g,s)} J̄[:, g+s] · v[g+s]` -/

/-- every vertex the edge names is a vertex of the layout with the same block size -/
def LinWF (lay : List (Nat × Nat)) (l : EdgeLin ℝ) : Prop := ∀ x ∈ l.verts, (x.1, x.2.1) ∈ lay

theorem jbar_scatter (lay : List (Nat × Nat)) (hnd : (lay.map (·.1)).Nodup) (l : EdgeLin ℝ) (hwf : LinWF lay l)
    (v : Nat → ℝ) (a : Nat) :
    jbar l v a = laySum lay fun g s => jcol l g s a * v (g + s) := by
  unfold jbar jcol LinWF at *
  generalize l.verts = vs at hwf
  induction vs with
  | nil => simp [laySum]
  | cons x xs ih =>
    simp only [List.map_cons, List.sum_cons, add_mul]
    rw [laySum_add, ← ih (fun y hy => hwf y (by simp [hy]))]
    congr 1
    have h := laySum_pick lay hnd x.1 x.2.1 (hwf x (by simp)) (fun g s => x.2.2 a s * v (g + s))
    rw [← h]
    apply laySum_congr; intro u _ s _
    by_cases hx : x.1 = u.1 <;> simp [hx]

theorem quad_laySum_left (l : EdgeLin ℝ) (lay : List (Nat × Nat)) (F : Nat → Nat → Nat → ℝ) (r' : Nat → ℝ) :
    quad l (fun a => laySum lay fun g s => F g s a) r' = laySum lay fun g s => quad l (F g s) r' := by
  unfold laySum
  rw [quad_listsum_left l lay (fun u a => ∑ s ∈ range u.2, F u.1 s a) r']
  apply congrArg; apply List.map_congr_left; intro u _
  rw [quad_finsum_left]

theorem quad_laySum_right (l : EdgeLin ℝ) (lay : List (Nat × Nat)) (r : Nat → ℝ) (F : Nat → Nat → Nat → ℝ) :
    quad l r (fun a => laySum lay fun g s => F g s a) = laySum lay fun g s => quad l r (F g s) := by
  unfold laySum
  rw [quad_listsum_right l lay r (fun u a => ∑ s ∈ range u.2, F u.1 s a)]
  apply congrArg; apply List.map_congr_left; intro u _
  rw [quad_finsum_right]

/-- `(J̄ v)ᵀ Ω r = Σ_{(g,s)} v[g+s] · (J̄[:, g+s]ᵀ Ω r)` -/
theorem quad_jbar_left (lay : List (Nat × Nat)) (hnd : (lay.map (·.1)).Nodup) (l : EdgeLin ℝ) (hwf : LinWF lay l)
    (v r : Nat → ℝ) :
    quad l (jbar l v) r = laySum lay fun g s => v (g + s) * quad l (jcol l g s) r := by
  have h : jbar l v = fun a => laySum lay fun g s => v (g + s) * jcol l g s a := by
    funext a; rw [jbar_scatter lay hnd l hwf]; apply laySum_congr; intros; ring
  rw [h, quad_laySum_left l lay (fun g s a => v (g + s) * jcol l g s a) r]
  apply laySum_congr; intro u _ s _
  rw [quad_smul_left]

/-- `rᵀ Ω (J̄ y) = Σ_{(g,t)} (rᵀ Ω J̄[:, g+t]) · y[g+t]` -/
theorem quad_jbar_right (lay : List (Nat × Nat)) (hnd : (lay.map (·.1)).Nodup) (l : EdgeLin ℝ) (hwf : LinWF lay l)
    (r y : Nat → ℝ) :
    quad l r (jbar l y) = laySum lay fun g t => quad l r (jcol l g t) * y (g + t) := by
  have h : jbar l y = fun a => laySum lay fun g t => jcol l g t a * y (g + t) := by
    funext a; rw [jbar_scatter lay hnd l hwf]
  rw [h, quad_laySum_right l lay r (fun g t a => jcol l g t a * y (g + t))]
  apply laySum_congr; intro u _ t _
  rw [quad_smul_right]

/-! ### the entries of `Σ J̄ᵀ Ω e` and `Σ J̄ᵀ Ω J̄` -/

/-- `(Σ_edges J̄ᵀ Ω e)[g + s]` -/
def gradEntry (lins : List (EdgeLin ℝ)) (g s : Nat) : ℝ := (lins.map fun l => quad l l.err (jcol l g s)).sum

/-- `(Σ_edges J̄ᵀ Ω J̄)[g + s, g' + t]` -/
def hessEntry (lins : List (EdgeLin ℝ)) (g s g' t : Nat) : ℝ :=
  (lins.map fun l => quad l (jcol l g s) (jcol l g' t)).sum

/-- gradient of the linearised χ² (halved) at the increment `y`: `(Σ_edges J̄ᵀ Ω (e + J̄ y))[g + s]` -/
def gradAt (lins : List (EdgeLin ℝ)) (y : Nat → ℝ) (g s : Nat) : ℝ :=
  (lins.map fun l => quad l (jcol l g s) (resid l y)).sum

/-- the gradient expression of `C03.assembled_gradient` is `gradEntry` -/
theorem gradContrib_sum_eq (l : EdgeLin ℝ) (g s : Nat) :
    (l.verts.map fun x => if x.1 = g then (gradContrib l.m l.err l.info x.2.1 x.2.2).get s else 0).sum
      = quad l l.err (jcol l g s) := by
  unfold jcol
  rw [quad_listsum_right l l.verts l.err (fun x a => if x.1 = g then x.2.2 a s else 0)]
  apply congrArg; apply List.map_congr_left; intro x _
  rw [quad_ite_right l (x.1 = g) l.err (fun a => x.2.2 a s)]
  by_cases h : x.1 = g
  · simp only [h, if_true, gradContrib, sumTo_eq_sum, quad, sum_mul]
    rw [sum_comm]
  · simp [h]

/-- the Hessian expression of `C03.assembled_hessian` is `hessEntry` -/
theorem ordered_sum_eq (l : EdgeLin ℝ) (g g' s t : Nat) :
    (l.verts.map fun x => (l.verts.map fun y => ordered l g g' s t x y).sum).sum
      = quad l (jcol l g s) (jcol l g' t) := by
  unfold jcol
  rw [quad_listsum_left l l.verts (fun x a => if x.1 = g then x.2.2 a s else 0)]
  apply congrArg; apply List.map_congr_left; intro x _
  rw [quad_listsum_right l l.verts _ (fun y a => if y.1 = g' then y.2.2 a t else 0)]
  apply congrArg; apply List.map_congr_left; intro y _
  rw [quad_ite_left l (x.1 = g) (fun a => x.2.2 a s), quad_ite_right l (y.1 = g') (fun a => x.2.2 a s) (fun a => y.2.2 a t)]
  unfold ordered
  by_cases hx : x.1 = g <;> by_cases hy : y.1 = g' <;> simp only [hx, hy, and_self, and_true, and_false, true_and, false_and, if_true, if_false]
  rw [pairEntry_eq]
  unfold quad
  rw [sum_comm]

/-- `gradAt` at `y` is `b' + H' y` -/
theorem gradAt_expand (lay : List (Nat × Nat)) (hnd : (lay.map (·.1)).Nodup) (lins : List (EdgeLin ℝ))
    (hwf : ∀ l ∈ lins, LinWF lay l) (hsym : ∀ l ∈ lins, ∀ a b, l.info a b = l.info b a) (y : Nat → ℝ) (g s : Nat) :
    gradAt lins y g s = gradEntry lins g s + laySum lay fun g' t => hessEntry lins g s g' t * y (g' + t) := by
  unfold gradAt gradEntry hessEntry
  have h2 : (laySum lay fun g' t => (lins.map fun l => quad l (jcol l g s) (jcol l g' t)).sum * y (g' + t))
      = (lins.map fun l => laySum lay fun g' t => quad l (jcol l g s) (jcol l g' t) * y (g' + t)).sum := by
    rw [listsum_laySum_comm]
    apply laySum_congr; intro u _ t _
    rw [List.sum_map_mul_right]
  rw [h2, ← List.sum_map_add]
  apply listsum_congr; intro l hl
  have : resid l y = fun a => l.err a + jbar l y a := rfl
  rw [this, quad_add_right l (jcol l g s) l.err (jbar l y), quad_symm l (hsym l hl) (jcol l g s) l.err,
    quad_jbar_right lay hnd l (hwf l hl)]

/-- `Σ_edges (J̄ v)ᵀ Ω (e + J̄ y) = Σ_{(g,s)} v[g+s] · gradAt y (g, s)` -/
theorem cross_expand (lay : List (Nat × Nat)) (hnd : (lay.map (·.1)).Nodup) (lins : List (EdgeLin ℝ))
    (hwf : ∀ l ∈ lins, LinWF lay l) (v y : Nat → ℝ) :
    (lins.map fun l => quad l (jbar l v) (resid l y)).sum = laySum lay fun g s => v (g + s) * gradAt lins y g s := by
  unfold gradAt
  have h2 : (laySum lay fun g s => v (g + s) * (lins.map fun l => quad l (jcol l g s) (resid l y)).sum)
      = (lins.map fun l => laySum lay fun g s => v (g + s) * quad l (jcol l g s) (resid l y)).sum := by
    rw [listsum_laySum_comm]
    apply laySum_congr; intro u _ t _
    rw [List.sum_map_mul_left]
  rw [h2]
  apply listsum_congr; intro l hl
  exact quad_jbar_left lay hnd l (hwf l hl) v _

/-- `Σ_edges (J̄ v)ᵀ Ω (J̄ y) = Σ_{(g,s)} v[g+s] · Σ_{(g',t)} H'[g+s, g'+t] · y[g'+t]` -/
theorem energy_expand (lay : List (Nat × Nat)) (hnd : (lay.map (·.1)).Nodup) (lins : List (EdgeLin ℝ))
    (hwf : ∀ l ∈ lins, LinWF lay l) (v y : Nat → ℝ) :
    (lins.map fun l => quad l (jbar l v) (jbar l y)).sum
      = laySum lay fun g s => v (g + s) * laySum lay fun g' t => hessEntry lins g s g' t * y (g' + t) := by
  unfold hessEntry
  have h3 : ∀ g s, (laySum lay fun g' t => (lins.map fun l => quad l (jcol l g s) (jcol l g' t)).sum * y (g' + t))
      = (lins.map fun l => laySum lay fun g' t => quad l (jcol l g s) (jcol l g' t) * y (g' + t)).sum := by
    intro g s
    rw [listsum_laySum_comm]
    apply laySum_congr; intro u _ t _
    rw [List.sum_map_mul_right]
  have h2 : (laySum lay fun g s => v (g + s) * laySum lay fun g' t =>
        (lins.map fun l => quad l (jcol l g s) (jcol l g' t)).sum * y (g' + t))
      = (lins.map fun l => laySum lay fun g s => v (g + s) * laySum lay fun g' t =>
          quad l (jcol l g s) (jcol l g' t) * y (g' + t)).sum := by
    rw [listsum_laySum_comm]
    apply laySum_congr; intro u _ s _
    rw [h3, List.sum_map_mul_left]
  rw [h2]
  apply listsum_congr; intro l hl
  rw [quad_jbar_left lay hnd l (hwf l hl) v]
  apply laySum_congr; intro u _ s _
  rw [quad_jbar_right lay hnd l (hwf l hl)]

end
end GraphSlam.Props.C04
