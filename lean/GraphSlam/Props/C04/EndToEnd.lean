import GraphSlam.Props.C04.Unique
import GraphSlam.Props.E2E.Run

/-!
# C04 end to end — (d) the second step is zero, (e) a whole `optimize()` call returns the χ² minimiser

Everything is about `Model.system`, `Model.step`, `Model.optimizeSolve` (the typed-graph model of graph.py:419-510) for graphs
all of whose vertices are R² (resp. R³) points:

* `ExactSolver N solve`     — the hypothesis on the sparse solver: whenever the dense system it is handed has a solution
                              on `[0, N)`, what it returns is one;
* `gradient_after_step`     — **(d)** after one exact step the dense gradient `b` vanishes on `[0, N)` and `H` is unchanged;
* `step_fixpoint`, `second_step_zero` — hence (PD information, every vertex connected to a fixed one) an exact solver
                              leaves the state unchanged in every later iteration;
* `iterStates_const`        — the visited states are `s₀, s₁, s₁, s₁, …`;
* `reach_state`             — every state of the same shape that agrees with `s₀` on the fixed vertices is `s₀ ⊞ d` for
                              some increment `d`;
* `optimize_linear_optimum` — **(e)**; `optimize_linear_optimum_R2`, `optimize_linear_optimum_R3`.
-/

namespace GraphSlam.Props.C04
open GraphSlam GraphSlam.Gen GraphSlam.Model GraphSlam.Props.C03 GraphSlam.Props.E2E GraphSlam.Props.C12 Finset
set_option linter.unusedVariables false
set_option linter.unusedSimpArgs false
noncomputable section

/-- the solver returns a solution of every solvable system it is handed (rows and columns `[0, N)`) -/
def ExactSolver (N : Nat) (solve : (Nat → Nat → ℝ) → (Nat → ℝ) → (Nat → ℝ)) : Prop :=
  ∀ H b, (∃ x, Solves N H b x) → Solves N H b (solve H b)

theorem applyDx_getElem? (fixed : List Nat) (s : GState ℝ) (d : Nat → ℝ) (k : Nat) :
    ((applyDx Pose.boxplus fixed s d)[k]?).map (·.1) = (s[k]?).map (·.1) := by
  unfold applyDx
  rw [List.getElem?_map]
  cases s[k]? with
  | none => rfl
  | some v =>
    obtain ⟨g, dd, p⟩ := v
    simp only [Option.map_some]
    split <;> rfl

theorem fixedPos_applyDx (fixed : List Nat) (s : GState ℝ) (d : Nat → ℝ) (k : Nat) :
    FixedPos fixed (applyDx Pose.boxplus fixed s d) k ↔ FixedPos fixed s k := by
  have h := applyDx_getElem? fixed s d k
  unfold FixedPos
  constructor
  · rintro ⟨v, hv, hf⟩
    rw [hv] at h
    cases hs : s[k]? with
    | none => rw [hs] at h; simp at h
    | some w => rw [hs] at h; simp only [Option.map_some, Option.some.injEq] at h; exact ⟨w, rfl, h ▸ hf⟩
  · rintro ⟨v, hv, hf⟩
    rw [hv] at h
    cases hs : (applyDx Pose.boxplus fixed s d)[k]? with
    | none => rw [hs] at h; simp at h
    | some w => rw [hs] at h; simp only [Option.map_some, Option.some.injEq] at h; exact ⟨w, rfl, h ▸ hf⟩

theorem anchored_applyDx (fixed : List Nat) (es : List (Edge ℝ)) (s : GState ℝ) (d : Nat → ℝ)
    (h : Anchored fixed es s) : Anchored fixed es (applyDx Pose.boxplus fixed s d) := by
  intro k hk
  have hlen : (applyDx Pose.boxplus fixed s d).length = s.length := by simp [applyDx]
  obtain ⟨f, hf, hp⟩ := h k (by omega)
  exact ⟨f, (fixedPos_applyDx fixed s d f).mpr hf, hp⟩

section generic
variable {Good : Pose ℝ → Prop} {n : Nat}

/-- an increment that is zero on every free block leaves the state unchanged -/
theorem applyDx_zero (C : LinearClass Good n) (fixed : List Nat) (s : GState ℝ) (hs : StateOK s)
    (hg : ∀ v ∈ s, Good v.2.2) (x : Nat → ℝ)
    (hx : ∀ u ∈ layoutOf s, u.1 ∉ fixed → ∀ k, k < u.2 → x (u.1 + k) = 0) :
    applyDx Pose.boxplus fixed s x = s := by
  rw [applyDx_eq_map C fixed s hs.layout hs.dims hg x]
  conv_rhs => rw [← List.map_id s]
  apply List.map_congr_left
  intro v hv
  obtain ⟨g, dd, p⟩ := v
  have hmem : (g, dd) ∈ layoutOf s := List.mem_map.mpr ⟨(g, dd, p), hv, rfl⟩
  have hdd : dd = n := by rw [← C.cdim p (hg _ hv)]; exact hs.dims _ hv
  simp only [id]
  have : Pose.boxplus p (fun t => zeroFixed (layoutOf s) fixed x (g + t)) = Pose.boxplus p (fun _ => 0) := by
    apply C.ext p _ _ (hg _ hv)
    intro t ht
    rw [zeroFixed_at hs.layout fixed x (g, dd) hmem t (by simpa [hdd] using ht)]
    by_cases hf : g ∈ fixed
    · simp [hf]
    · simp only [hf, if_false]
      exact hx (g, dd) hmem hf t (by simpa [hdd] using ht)
  rw [this, C.zero p (hg _ hv)]

/-! ### (d) -/

/-- **(d) after one exact step the gradient vanishes.**  If `dx` solves the dense system of the state `s`, the dense
    gradient `b` that `Model.system` assembles at the moved state `s ⊞ dx` is zero on the whole index range `[0, N)` (free
    rows: the normal equations hold exactly because the residual is affine; fixed rows: zero by construction), and the
    dense Hessian is the same on `[0, N)²`. -/
theorem gradient_after_step (C : LinearClass Good n) (fixed : List Nat) (es : List (Edge ℝ)) (s : GState ℝ)
    (hs : StateOK s) (hg : ∀ v ∈ s, Good v.2.2)
    (hdist : ∀ e ∈ es, e.ends.1 ≠ e.ends.2) (hsym : ∀ e ∈ es, ∀ a b, e.info a b = e.info b a)
    (r : ℝ × (Nat → ℝ) × (Nat → Nat → ℝ)) (h : system fixed es s = some r)
    (dx : Nat → ℝ) (hx : Solves (totalDim s) r.2.2 (fun i => - r.2.1 i) dx) :
    ∃ r₁, system fixed es (applyDx Pose.boxplus fixed s dx) = some r₁ ∧
      (∀ i, i < totalDim s → r₁.2.1 i = 0) ∧
      (∀ i j, i < totalDim s → j < totalDim s → r₁.2.2 i j = r.2.2 i j) := by
  cases hl : allSome (es.map (linearise s)) with
  | none => unfold system at h; rw [hl] at h; simp at h
  | some lins =>
    have hl1 := lins_moved C fixed es s hs.layout hs.dims hg dx lins hl
    have hs1 := stateOK_applyDx fixed s hs dx
    have hsys1 : ∃ r₁, system fixed es (applyDx Pose.boxplus fixed s dx) = some r₁ := by
      unfold system; rw [hl1]; exact ⟨_, rfl⟩
    obtain ⟨r₁, h1⟩ := hsys1
    obtain ⟨hwf, hsy, _⟩ := lins_ok' s hs es hdist hsym lins hl
    obtain ⟨_, hb, hH⟩ := system_spec fixed es s hs hdist hsym lins hl r h
    obtain ⟨_, hb1, hH1⟩ := system_spec fixed es _ hs1 hdist hsym _ hl1 r₁ h1
    rw [layoutOf_applyDx] at hb1 hH1
    have hv := solves_vanishes fixed es s hs hdist hsym lins hl r h dx hx
    refine ⟨r₁, h1, ?_, ?_⟩
    · intro i hi
      obtain ⟨u, hu, k, hk, rfl⟩ := hs.cover i hi
      rw [hb1 u hu k hk]
      by_cases hf : u.1 ∈ fixed
      · simp [hf]
      · simp only [hf, if_false]
        have e1 : gradEntry (lins.map fun l => shiftLin l (zeroFixed (layoutOf s) fixed dx)) u.1 k
            = gradAt lins dx u.1 k := by
          unfold gradEntry gradAt
          rw [List.map_map]
          apply listsum_congr; intro l hl'
          simp only [Function.comp, shiftLin_err, quad_shiftLin, jcol_shiftLin]
          rw [quad_symm l (hsy l hl')]
          apply quad_congr l _ _ _ _ (fun _ _ => rfl)
          intro a _
          apply resid_congr; intro y hy t ht
          exact zeroFixed_of_vanishes hs.layout fixed dx hv _ (hwf l hl' y hy) t ht
        rw [e1]
        exact solves_gradAt_zero fixed es s hs hdist hsym lins hl r h dx hx u hu hf k hk
    · intro i j hi hj
      obtain ⟨u, hu, k, hk, rfl⟩ := hs.cover i hi
      obtain ⟨w, hw, t, ht, rfl⟩ := hs.cover j hj
      rw [hH1 u hu w hw k hk t ht, hH u hu w hw k hk t ht]
      have e1 : hessEntry (lins.map fun l => shiftLin l (zeroFixed (layoutOf s) fixed dx)) u.1 k w.1 t
          = hessEntry lins u.1 k w.1 t := by
        unfold hessEntry
        rw [List.map_map]
        rfl
      rw [e1]

/-- a state whose dense gradient vanishes is a fixed point of the iteration, for every exact solver -/
theorem step_fixpoint (C : LinearClass Good n) (fixed : List Nat) (es : List (Edge ℝ)) (s : GState ℝ)
    (hs : StateOK s) (hg : ∀ v ∈ s, Good v.2.2)
    (hdist : ∀ e ∈ es, e.ends.1 ≠ e.ends.2) (hsym : ∀ e ∈ es, ∀ a b, e.info a b = e.info b a)
    (hpd : ∀ e ∈ es, InfoPD n e) (hanch : Anchored fixed es s)
    (r : ℝ × (Nat → ℝ) × (Nat → Nat → ℝ)) (h : system fixed es s = some r)
    (hb0 : ∀ i, i < totalDim s → r.2.1 i = 0)
    (solve : (Nat → Nat → ℝ) → (Nat → ℝ) → (Nat → ℝ)) (hsolve : ExactSolver (totalDim s) solve) :
    step solve fixed es s = some s := by
  unfold step
  rw [h]
  simp only [Option.map_some, Option.some.injEq]
  have h0 : Solves (totalDim s) r.2.2 (fun i => - r.2.1 i) (fun _ => 0) := by
    intro i hi
    simp [hb0 i hi]
  have hx := hsolve r.2.2 (fun i => - r.2.1 i) ⟨_, h0⟩
  have hz := gn_step_unique C fixed es s hs hg hdist hsym hpd hanch r h _ _ _ hx h0
  apply applyDx_zero C fixed s hs hg
  intro u hu _ k hk
  exact hz (u.1 + k) (hs.index_lt u hu k hk)

/-- **(d) the second step is zero.**  Under (c)'s hypotheses, for every exact solver: one iteration from `s` gives
    `s₁ = s ⊞ dx`, and one more iteration from `s₁` gives `s₁` again. -/
theorem second_step_zero (C : LinearClass Good n) (fixed : List Nat) (es : List (Edge ℝ)) (s : GState ℝ)
    (hs : StateOK s) (hg : ∀ v ∈ s, Good v.2.2)
    (hdist : ∀ e ∈ es, e.ends.1 ≠ e.ends.2) (hsym : ∀ e ∈ es, ∀ a b, e.info a b = e.info b a)
    (hpd : ∀ e ∈ es, InfoPD n e) (hanch : Anchored fixed es s)
    (solve : (Nat → Nat → ℝ) → (Nat → ℝ) → (Nat → ℝ)) (hsolve : ExactSolver (totalDim s) solve)
    (s₁ : GState ℝ) (h1 : step solve fixed es s = some s₁) :
    step solve fixed es s₁ = some s₁ := by
  unfold step at h1
  cases h : system fixed es s with
  | none => rw [h] at h1; simp at h1
  | some r =>
    rw [h] at h1
    simp only [Option.map_some, Option.some.injEq] at h1
    obtain ⟨x, hx0⟩ := exists_solution C fixed es s hs hg hdist hsym hpd hanch r h (fun i => - r.2.1 i)
    have hx := hsolve r.2.2 (fun i => - r.2.1 i) ⟨x, hx0⟩
    obtain ⟨r₁, hr1, hb1, _⟩ := gradient_after_step C fixed es s hs hg hdist hsym r h _ hx
    rw [h1] at hr1
    have hs1 : StateOK s₁ := h1 ▸ stateOK_applyDx fixed s hs _
    have hg1 : ∀ v ∈ s₁, Good v.2.2 := h1 ▸ applyDx_good C fixed s hg _
    have ha1 : Anchored fixed es s₁ := h1 ▸ anchored_applyDx fixed es s _ hanch
    have hN : totalDim s₁ = totalDim s := h1 ▸ totalDim_applyDx fixed s _
    exact step_fixpoint C fixed es s₁ hs1 hg1 hdist hsym hpd ha1 r₁ hr1 (by rw [hN]; exact hb1) solve (by rw [hN]; exact hsolve)

/-- the visited states of a run with an exact solver are `s, s₁, s₁, s₁, …` -/
theorem iterStates_const (C : LinearClass Good n) (fixed : List Nat) (es : List (Edge ℝ)) (s : GState ℝ)
    (hs : StateOK s) (hg : ∀ v ∈ s, Good v.2.2)
    (hdist : ∀ e ∈ es, e.ends.1 ≠ e.ends.2) (hsym : ∀ e ∈ es, ∀ a b, e.info a b = e.info b a)
    (hpd : ∀ e ∈ es, InfoPD n e) (hanch : Anchored fixed es s)
    (solve : (Nat → Nat → ℝ) → (Nat → ℝ) → (Nat → ℝ)) (hsolve : ExactSolver (totalDim s) solve)
    (s₁ : GState ℝ) (h1 : step solve fixed es s = some s₁) (i : Nat) :
    iterStates (fun _ => step solve fixed es) s (i + 1) = some s₁ := by
  induction i with
  | zero => simp only [iterStates, Option.bind_some]; exact h1
  | succ i ih =>
    rw [iterStates, ih]
    simp only [Option.bind_some]
    exact second_step_zero C fixed es s hs hg hdist hsym hpd hanch solve hsolve s₁ h1

/-- **(d) the χ² sequence the control loop sees is constant from index 1 on** (and equals the true χ² of `s₁`) -/
theorem chi2Seq_const (C : LinearClass Good n) (fixed : List Nat) (es : List (Edge ℝ)) (s : GState ℝ)
    (hs : StateOK s) (hg : ∀ v ∈ s, Good v.2.2)
    (hdist : ∀ e ∈ es, e.ends.1 ≠ e.ends.2) (hsym : ∀ e ∈ es, ∀ a b, e.info a b = e.info b a)
    (hpd : ∀ e ∈ es, InfoPD n e) (hanch : Anchored fixed es s)
    (solve : (Nat → Nat → ℝ) → (Nat → ℝ) → (Nat → ℝ)) (hsolve : ExactSolver (totalDim s) solve)
    (s₁ : GState ℝ) (h1 : step solve fixed es s = some s₁) :
    ∃ c₁, chi2At fixed es s₁ = some c₁ ∧
      ∀ i, 1 ≤ i → chi2SeqOf (fun _ => step solve fixed es) fixed es s i = c₁ := by
  have hiter := iterStates_const C fixed es s hs hg hdist hsym hpd hanch solve hsolve s₁ h1
  have h2 := second_step_zero C fixed es s hs hg hdist hsym hpd hanch solve hsolve s₁ h1
  have hc : ∃ c₁, chi2At fixed es s₁ = some c₁ := by
    unfold step at h2
    unfold chi2At
    cases hsys : system fixed es s₁ with
    | none => rw [hsys] at h2; simp at h2
    | some r => exact ⟨_, rfl⟩
  obtain ⟨c₁, hc₁⟩ := hc
  refine ⟨c₁, hc₁, ?_⟩
  intro i hi
  obtain ⟨j, rfl⟩ : ∃ j, i = j + 1 := ⟨i - 1, by omega⟩
  exact chi2SeqOf_eq _ fixed es s s₁ (j + 1) c₁ (hiter j) hc₁

/-! ### every admissible state is `s₀ ⊞ d` -/

theorem initState_ge (g : Nat) (ps : List (Pose ℝ)) : ∀ v ∈ initState g ps, g ≤ v.1 := by
  intro v hv
  have hmem : (v.1, v.2.1) ∈ layoutOf (initState g ps) := List.mem_map.mpr ⟨v, hv, rfl⟩
  rw [layoutOf_initState] at hmem
  exact prefixLayout_ge _ _ _ hmem

theorem applyDx_congr (fixed : List Nat) (s : GState ℝ) (d d' : Nat → ℝ)
    (h : ∀ v ∈ s, ∀ t, d (v.1 + t) = d' (v.1 + t)) :
    applyDx Pose.boxplus fixed s d = applyDx Pose.boxplus fixed s d' := by
  unfold applyDx
  apply List.map_congr_left
  intro v hv
  obtain ⟨g, dd, p⟩ := v
  have : (fun t => d (g + t)) = fun t => d' (g + t) := funext fun t => h _ hv t
  simp only [this]

/-- a list of estimates of the same shape that keeps the estimates of fixed vertices is reached by an increment -/
theorem reach_state (C : LinearClass Good n) (fixed : List Nat) (g : Nat) (ps ps' : List (Pose ℝ))
    (hps : ∀ p ∈ ps, Good p) (hps' : ∀ p ∈ ps', Good p) (hlen : ps'.length = ps.length)
    (hfix : ∀ k, FixedPos fixed (initState g ps) k → ps'[k]? = ps[k]?) :
    ∃ d : Nat → ℝ, applyDx Pose.boxplus fixed (initState g ps) d = initState g ps' := by
  induction ps generalizing g ps' with
  | nil =>
    cases ps' with
    | nil => exact ⟨fun _ => 0, rfl⟩
    | cons q qs => simp at hlen
  | cons p ps ih =>
    cases ps' with
    | nil => simp at hlen
    | cons q qs =>
      have hp : Good p := hps p (by simp)
      have hq : Good q := hps' q (by simp)
      have hcd : q.cdim = p.cdim := by rw [C.cdim p hp, C.cdim q hq]
      obtain ⟨d', hd'⟩ := ih (g + p.cdim) qs (fun x hx => hps x (by simp [hx])) (fun x hx => hps' x (by simp [hx]))
        (by simpa using hlen)
        (by
          intro k hk
          have := hfix (k + 1) (by
            obtain ⟨v, hv, hf⟩ := hk
            exact ⟨v, by simpa [initState] using hv, hf⟩)
          simpa using this)
      obtain ⟨δ, hδ⟩ := C.reach p q hp hq
      refine ⟨fun i => if i < g + p.cdim then δ (i - g) else d' i, ?_⟩
      simp only [initState]
      unfold applyDx
      simp only [List.map_cons]
      congr 1
      · by_cases hf : g ∈ fixed
        · simp only [hf, if_true]
          have := hfix 0 ⟨(g, p.cdim, p), by simp [initState], hf⟩
          simp only [List.getElem?_cons_zero, Option.some.injEq] at this
          rw [this]
        · simp only [hf, if_false]
          have : Pose.boxplus p (fun t => if g + t < g + p.cdim then δ (g + t - g) else d' (g + t)) = Pose.boxplus p δ := by
            apply C.ext p _ _ hp
            intro t ht
            rw [← C.cdim p hp] at ht
            simp [ht]
          rw [this, hδ, hcd]
      · rw [hcd]
        have := applyDx_congr fixed (initState (g + p.cdim) ps) (fun i => if i < g + p.cdim then δ (i - g) else d' i) d'
          (by
            intro v hv t
            have := initState_ge _ _ v hv
            have : ¬ (v.1 + t < g + p.cdim) := by omega
            simp [this])
        unfold applyDx at this hd'
        rw [this, hd']

/-! ### (e) -/

/-- the documented stopping test fires between two equal χ² values (`tol > 0`) -/
theorem stop_of_eq (tol eps : ℝ) (htol : 0 < tol) (c : Nat → ℝ) (k : Nat) (h : c (k - 1) = c k) :
    stop tol eps c k = true := by
  simp only [stop, stopTest, Model.le, Model.lt, relDiff, h, Bool.and_eq_true]
  refine ⟨by rw [real_ge], ?_⟩
  rw [real_gt, real_div]; simp [htol]

/-- **(e) a whole `optimize()` call on a linear graph returns the global χ² minimiser and reports its χ².**

    Graph: vertices `ps`, all R² (resp. R³) points (`Good` is `IsR2` / `IsR3`); edges `es` well typed, each joining two
    different vertices, with symmetric positive-definite information; every vertex connected through edges to a vertex
    that is fixed after `fix_first_pose` was applied.  Solver: any function that returns a solution of every solvable
    dense system it is handed.  `max_iter ≥ 1`, any tolerance, any initial estimates.  Then `Model.optimizeSolve` returns
    `.ok (report, some s*, flags')` and

    1. `s* = s₀ ⊞ dx` for a solution `dx` of the dense system assembled at the initial state `s₀`
       (the state after exactly one Gauss–Newton step);
    2. `report.final_chi2` is the true χ² (`calc_chi2()`) of `s*`;
    3. `s*` minimises the true χ² among **all** states of the same shape that agree with `s₀` on the fixed vertices, and
       is the only minimiser;
    4. `report.converged = true` when `max_iter ≥ 2`, `tol > 0`, `eps > 0`;
    5. `report.num_iterations` is `1` or `2` in that case (the minimum is reached after one step; the stopping test fires at
       the latest when the second iteration sees an unchanged χ²), and always between `1` and `max_iter`. -/
theorem optimize_linear_optimum (C : LinearClass Good n) (tol eps : ℝ) (maxIter : Nat) (hm : 1 ≤ maxIter) (ffp : Bool)
    (flags : List Bool) (solve : (Nat → Nat → ℝ) → (Nat → ℝ) → (Nat → ℝ)) (es : List (Edge ℝ)) (ps : List (Pose ℝ))
    (hps : ∀ p ∈ ps, Good p)
    (htyped : ∃ lins, allSome (es.map (linearise (initState 0 ps))) = some lins)
    (hdist : ∀ e ∈ es, e.ends.1 ≠ e.ends.2) (hsym : ∀ e ∈ es, ∀ a b, e.info a b = e.info b a)
    (hpd : ∀ e ∈ es, InfoPD n e)
    (hanch : Anchored (fixedOf ffp flags ps) es (initState 0 ps))
    (hsolve : ExactSolver (ps.map Pose.cdim).sum solve) :
    ∃ (report : Report ℝ) (sStar : GState ℝ) (cStar : ℝ),
      optimizeSolve tol eps maxIter ffp flags solve es ps = .ok (report, some sStar, applyFixFirst ffp flags) ∧
      (∃ r dx, system (fixedOf ffp flags ps) es (initState 0 ps) = some r ∧
          Solves (ps.map Pose.cdim).sum r.2.2 (fun i => - r.2.1 i) dx ∧
          sStar = applyDx Pose.boxplus (fixedOf ffp flags ps) (initState 0 ps) dx) ∧
      chi2At (fixedOf ffp flags ps) es sStar = some cStar ∧
      report.finalChi2 = some cStar ∧
      (∀ ps' : List (Pose ℝ), (∀ p ∈ ps', Good p) → ps'.length = ps.length →
          (∀ k, FixedPos (fixedOf ffp flags ps) (initState 0 ps) k → ps'[k]? = ps[k]?) →
          ∃ c', chi2At (fixedOf ffp flags ps) es (initState 0 ps') = some c' ∧ cStar ≤ c' ∧
            (c' ≤ cStar → initState 0 ps' = sStar)) ∧
      (2 ≤ maxIter → 0 < tol → 0 < eps → report.converged = true) ∧
      (∃ k, report.numIterations = some k ∧ 1 ≤ k ∧ k ≤ maxIter ∧ (2 ≤ maxIter → 0 < tol → k ≤ 2)) := by
  set fixed := fixedOf ffp flags ps with hfixed
  set s0 := initState 0 ps with hs0def
  have hs0 : StateOK s0 := stateOK_initState ps
  have hg0 : ∀ v ∈ s0, Good v.2.2 := initState_good Good 0 ps hps
  have hN : totalDim s0 = (ps.map Pose.cdim).sum := totalDim_initState ps
  have hsolve' : ExactSolver (totalDim s0) solve := by rw [hN]; exact hsolve
  obtain ⟨lins, hl⟩ := htyped
  -- the first step
  have hsys : ∃ r, system fixed es s0 = some r := by unfold system; rw [hl]; exact ⟨_, rfl⟩
  obtain ⟨r, hr⟩ := hsys
  obtain ⟨x, hx0⟩ := exists_solution C fixed es s0 hs0 hg0 hdist hsym hpd hanch r hr (fun i => - r.2.1 i)
  have hx := hsolve' r.2.2 (fun i => - r.2.1 i) ⟨x, hx0⟩
  set dx := solve r.2.2 (fun i => - r.2.1 i) with hdx
  set s1 := applyDx Pose.boxplus fixed s0 dx with hs1def
  have hstep : step solve fixed es s0 = some s1 := by unfold step; rw [hr]; rfl
  have hiter := iterStates_const C fixed es s0 hs0 hg0 hdist hsym hpd hanch solve hsolve' s1 hstep
  obtain ⟨c1, hc1⟩ : ∃ c1, chi2At fixed es s1 = some c1 :=
    ⟨_, chi2_after_increment C fixed es s0 hs0.layout hs0.dims hg0 lins hl dx⟩
  -- the χ² sequence
  have hseq : ∀ i, 1 ≤ i → chi2SeqOf (fun _ => step solve fixed es) fixed es s0 i = c1 := by
    intro i hi
    obtain ⟨j, rfl⟩ : ∃ j, i = j + 1 := ⟨i - 1, by omega⟩
    exact chi2SeqOf_eq _ fixed es s0 s1 (j + 1) c1 (hiter j) hc1
  -- the report
  obtain ⟨rep, hrep, hnum, hconv, hinit, hfin⟩ :=
    optimizeRunOf_spec tol eps maxIter hm ffp flags (fun fixed _ => step solve fixed es) es ps
  obtain ⟨hk1, hk2, hnofire, hfire⟩ := stops_at_first tol eps (chi2SeqOf (fun _ => step solve fixed es) fixed es s0) maxIter hm
  set k := endIndex tol eps (chi2SeqOf (fun _ => step solve fixed es) fixed es s0) maxIter with hk
  have hstate : iterStates (fun _ => step solve fixed es) s0 k = some s1 := by
    obtain ⟨j, hj⟩ : ∃ j, k = j + 1 := ⟨k - 1, by omega⟩
    rw [hj]; exact hiter j
  refine ⟨rep, s1, c1, ?_, ⟨r, dx, hr, by rw [← hN]; exact hx, rfl⟩, hc1, ?_, ?_, ?_, ?_⟩
  · show optimizeRunOf tol eps maxIter ffp flags (fun fixed _ => step solve fixed es) es ps = _
    rw [hrep]
    show Except.ok (rep, iterStates (fun _ => step solve fixed es) s0 k, applyFixFirst ffp flags) = _
    rw [hstate]
  · rw [hfin]
    show some (chi2SeqOf (fun _ => step solve fixed es) fixed es s0 k) = _
    rw [hseq k hk1]
  · intro ps' hps' hlen hfix
    obtain ⟨d, hd⟩ := reach_state C fixed 0 ps ps' hps hps' hlen hfix
    obtain ⟨c₁, c₂, e1, e2, hle⟩ := gn_step_minimises C fixed es s0 hs0 hg0 hdist hsym (fun e he => (hpd e he).psd) r hr dx hx d
    rw [hd] at e2
    have : c₁ = c1 := by
      have := e1.symm.trans hc1; simpa using this
    subst this
    refine ⟨c₂, e2, hle, ?_⟩
    intro hle'
    have := minimiser_unique C fixed es s0 hs0 hg0 hdist hsym hpd hanch r hr dx hx d c₁ c₂ e1 (hd ▸ e2) hle'
    rw [← hd]; exact this
  · intro hm2 htol heps
    rw [hconv]
    by_cases hlt : k < maxIter
    · exact hfire hlt
    · have hkm : k = maxIter := by omega
      apply stop_of_eq tol eps htol
      rw [hseq k hk1, hseq (k - 1) (by omega)]
  · refine ⟨k, hnum, hk1, hk2, ?_⟩
    intro hm2 htol
    by_contra hgt
    have h2 := hnofire 2 (by norm_num) (by omega)
    have h2' := stop_of_eq tol eps htol (chi2SeqOf (fun _ => step solve fixed es) fixed es s0) 2
      (by rw [hseq 2 (by norm_num), hseq (2 - 1) (by norm_num)])
    rw [h2'] at h2; cases h2

end generic

/-! ### the two instances -/

/-- **(e) for R² graphs** (`GraphOK`: what the constructor guarantees plus symmetric information) -/
theorem optimize_linear_optimum_R2 (tol eps : ℝ) (maxIter : Nat) (hm : 1 ≤ maxIter) (ffp : Bool)
    (flags : List Bool) (solve : (Nat → Nat → ℝ) → (Nat → ℝ) → (Nat → ℝ)) (es : List (Edge ℝ)) (ps : List (Pose ℝ))
    (hps : ∀ p ∈ ps, IsR2 p)
    (htyped : ∃ lins, allSome (es.map (linearise (initState 0 ps))) = some lins)
    (hok : GraphOK ps es) (hpd : ∀ e ∈ es, InfoPD 2 e)
    (hanch : Anchored (fixedOf ffp flags ps) es (initState 0 ps))
    (hsolve : ExactSolver (ps.map Pose.cdim).sum solve) :
    ∃ (report : Report ℝ) (sStar : GState ℝ) (cStar : ℝ),
      optimizeSolve tol eps maxIter ffp flags solve es ps = .ok (report, some sStar, applyFixFirst ffp flags) ∧
      (∃ r dx, system (fixedOf ffp flags ps) es (initState 0 ps) = some r ∧
          Solves (ps.map Pose.cdim).sum r.2.2 (fun i => - r.2.1 i) dx ∧
          sStar = applyDx Pose.boxplus (fixedOf ffp flags ps) (initState 0 ps) dx) ∧
      chi2At (fixedOf ffp flags ps) es sStar = some cStar ∧
      report.finalChi2 = some cStar ∧
      (∀ ps' : List (Pose ℝ), (∀ p ∈ ps', IsR2 p) → ps'.length = ps.length →
          (∀ k, FixedPos (fixedOf ffp flags ps) (initState 0 ps) k → ps'[k]? = ps[k]?) →
          ∃ c', chi2At (fixedOf ffp flags ps) es (initState 0 ps') = some c' ∧ cStar ≤ c' ∧
            (c' ≤ cStar → initState 0 ps' = sStar)) ∧
      (2 ≤ maxIter → 0 < tol → 0 < eps → report.converged = true) ∧
      (∃ k, report.numIterations = some k ∧ 1 ≤ k ∧ k ≤ maxIter ∧ (2 ≤ maxIter → 0 < tol → k ≤ 2)) :=
  optimize_linear_optimum linearClass_R2 tol eps maxIter hm ffp flags solve es ps hps htyped hok.distinct hok.symm hpd hanch hsolve

/-- **(e) for R³ graphs** -/
theorem optimize_linear_optimum_R3 (tol eps : ℝ) (maxIter : Nat) (hm : 1 ≤ maxIter) (ffp : Bool)
    (flags : List Bool) (solve : (Nat → Nat → ℝ) → (Nat → ℝ) → (Nat → ℝ)) (es : List (Edge ℝ)) (ps : List (Pose ℝ))
    (hps : ∀ p ∈ ps, IsR3 p)
    (htyped : ∃ lins, allSome (es.map (linearise (initState 0 ps))) = some lins)
    (hok : GraphOK ps es) (hpd : ∀ e ∈ es, InfoPD 3 e)
    (hanch : Anchored (fixedOf ffp flags ps) es (initState 0 ps))
    (hsolve : ExactSolver (ps.map Pose.cdim).sum solve) :
    ∃ (report : Report ℝ) (sStar : GState ℝ) (cStar : ℝ),
      optimizeSolve tol eps maxIter ffp flags solve es ps = .ok (report, some sStar, applyFixFirst ffp flags) ∧
      (∃ r dx, system (fixedOf ffp flags ps) es (initState 0 ps) = some r ∧
          Solves (ps.map Pose.cdim).sum r.2.2 (fun i => - r.2.1 i) dx ∧
          sStar = applyDx Pose.boxplus (fixedOf ffp flags ps) (initState 0 ps) dx) ∧
      chi2At (fixedOf ffp flags ps) es sStar = some cStar ∧
      report.finalChi2 = some cStar ∧
      (∀ ps' : List (Pose ℝ), (∀ p ∈ ps', IsR3 p) → ps'.length = ps.length →
          (∀ k, FixedPos (fixedOf ffp flags ps) (initState 0 ps) k → ps'[k]? = ps[k]?) →
          ∃ c', chi2At (fixedOf ffp flags ps) es (initState 0 ps') = some c' ∧ cStar ≤ c' ∧
            (c' ≤ cStar → initState 0 ps' = sStar)) ∧
      (2 ≤ maxIter → 0 < tol → 0 < eps → report.converged = true) ∧
      (∃ k, report.numIterations = some k ∧ 1 ≤ k ∧ k ≤ maxIter ∧ (2 ≤ maxIter → 0 < tol → k ≤ 2)) :=
  optimize_linear_optimum linearClass_R3 tol eps maxIter hm ffp flags solve es ps hps htyped hok.distinct hok.symm hpd hanch hsolve

end
end GraphSlam.Props.C04
