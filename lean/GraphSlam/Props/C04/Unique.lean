import GraphSlam.Props.C04.Minimise
import Mathlib.Logic.Relation
import Mathlib.LinearAlgebra.Matrix.ToLin
import Mathlib.LinearAlgebra.FiniteDimensional.Basic

/-!
# C04 (c) — connected to a fixed vertex + positive-definite information ⇒ the dense system is nonsingular

* `Anchored fixed es s` — every vertex position is joined, through edges of `es` (in either direction), to a position
                          whose vertex is fixed;
* `InfoPD n e`          — the information matrix of `e` is positive definite on the first `n` coordinates;
* `energy_zero_blocks`  — an increment that vanishes on fixed blocks and has zero energy `vᵀ(ΣJ̄ᵀΩJ̄)v` vanishes on every
                          block (each edge forces equal increments at its two ends: `J̄ v = ±(v[g₁:] − v[g₀:])`);
* `kernel_trivial`      — `H w = 0` on `[0, N)` ⇒ `w = 0` on `[0, N)` for the dense `H` of `Model.system`;
* `gn_step_unique`      — **(c)** two solutions of the dense system agree on `[0, N)`;
* `exists_solution`     — and a solution exists for every right-hand side (finite-dimensional injective ⇒ surjective);
* `minimiser_unique`    — **(c)** a state `s ⊞ d` whose true χ² does not exceed that of `s ⊞ dx` *is* `s ⊞ dx`.
-/

namespace GraphSlam.Props.C04
open GraphSlam GraphSlam.Gen GraphSlam.Model GraphSlam.Props.C03 GraphSlam.Props.E2E Finset
set_option linter.unusedVariables false
set_option linter.unusedSimpArgs false
noncomputable section

/-- the vertex at position `k` is fixed -/
def FixedPos (fixed : List Nat) (s : GState ℝ) (k : Nat) : Prop := ∃ v, s[k]? = some v ∧ v.1 ∈ fixed

/-- some edge joins positions `a` and `b` (in either order) -/
def Adj (es : List (Edge ℝ)) (a b : Nat) : Prop := ∃ e ∈ es, e.ends = (a, b) ∨ e.ends = (b, a)

/-- every vertex is connected, through edges, to a fixed vertex -/
def Anchored (fixed : List Nat) (es : List (Edge ℝ)) (s : GState ℝ) : Prop :=
  ∀ k, k < s.length → ∃ f, FixedPos fixed s f ∧ Relation.ReflTransGen (Adj es) f k

/-- positive-definite information on the first `n` coordinates -/
def InfoPD (n : Nat) (e : Edge ℝ) : Prop :=
  ∀ x : Nat → ℝ, (∃ a, a < n ∧ x a ≠ 0) → 0 < ∑ a ∈ range n, ∑ b ∈ range n, x a * e.info a b * x b

theorem InfoPD.psd {n : Nat} {e : Edge ℝ} (h : InfoPD n e) : InfoPSD n e := by
  intro x
  by_cases hx : ∃ a, a < n ∧ x a ≠ 0
  · exact (h x hx).le
  · have hz : ∀ a, a < n → x a = 0 := by
      intro a ha; by_contra hne; exact hx ⟨a, ha, hne⟩
    apply le_of_eq
    symm
    apply sum_eq_zero; intro a ha
    apply sum_eq_zero; intro b hb
    rw [hz a (mem_range.mp ha)]; ring

theorem allSome_of_mem {α β : Type} (f : α → Option β) (L : List α) (r : List β) (h : allSome (L.map f) = some r) :
    ∀ x ∈ L, ∃ y ∈ r, f x = some y := by
  induction L generalizing r with
  | nil => intro x hx; simp at hx
  | cons a L ih =>
    simp only [List.map_cons] at h
    cases ha : f a with
    | none => rw [ha] at h; simp [allSome] at h
    | some y =>
      rw [ha] at h
      simp only [allSome, Option.map_eq_some_iff] at h
      obtain ⟨r', hr', rfl⟩ := h
      intro x hx
      rcases List.mem_cons.mp hx with rfl | hx
      · exact ⟨y, by simp, ha⟩
      · obtain ⟨y', hy', hfy⟩ := ih r' hr' x hx
        exact ⟨y', by simp [hy'], hfy⟩

section generic
variable {Good : Pose ℝ → Prop} {n : Nat}

/-- an edge of zero energy sees equal increments at its two ends -/
theorem edge_zero_energy (C : LinearClass Good n) (es : List (Edge ℝ)) (s : GState ℝ) (hg : ∀ v ∈ s, Good v.2.2)
    (hpd : ∀ e ∈ es, InfoPD n e) (e : Edge ℝ) (he : e ∈ es) (l : EdgeLin ℝ) (hle : linearise s e = some l)
    (v : Nat → ℝ) (hz : quad l (jbar l v) (jbar l v) = 0) :
    ∃ v0 v1, s[e.ends.1]? = some v0 ∧ s[e.ends.2]? = some v1 ∧ ∀ a, a < n → v (v1.1 + a) = v (v0.1 + a) := by
  obtain ⟨_, _, _, _, _, hinfo⟩ := linearise_spec _ e l hle
  unfold linearise at hle
  cases h0 : s[e.ends.1]? with
  | none => rw [h0] at hle; simp at hle
  | some v0 =>
    cases h1 : s[e.ends.2]? with
    | none => rw [h0, h1] at hle; simp at hle
    | some v1 =>
      rw [h0, h1] at hle
      obtain ⟨g0, d0, p0⟩ := v0
      obtain ⟨g1, d1, p1⟩ := v1
      simp only at hle
      obtain ⟨hm, σ, hσ, hj⟩ := C.shape g0 g1 p0 p1 e l (hg _ (List.mem_of_getElem? h0)) (hg _ (List.mem_of_getElem? h1)) hle
      refine ⟨_, _, rfl, rfl, ?_⟩
      have hall : ∀ a, a < n → jbar l v a = 0 := by
        intro a ha
        by_contra hne
        have := hpd e he (jbar l v) ⟨a, ha, hne⟩
        unfold quad at hz
        rw [hm] at hz
        simp only [hinfo] at hz
        linarith
      intro a ha
      have := hall a ha
      rw [hj v a ha] at this
      rcases mul_eq_zero.mp this with h | h
      · exact absurd h hσ
      · simp only; linarith

/-- **zero energy + zero on fixed blocks ⇒ zero on every block** -/
theorem energy_zero_blocks (C : LinearClass Good n) (fixed : List Nat) (es : List (Edge ℝ)) (s : GState ℝ)
    (hs : StateOK s) (hg : ∀ v ∈ s, Good v.2.2) (hpd : ∀ e ∈ es, InfoPD n e) (hanch : Anchored fixed es s)
    (lins : List (EdgeLin ℝ)) (hl : allSome (es.map (linearise s)) = some lins)
    (v : Nat → ℝ) (hv : VanishesFixed (layoutOf s) fixed v) (hz : qenergy lins v = 0) :
    ∀ u ∈ layoutOf s, ∀ k, k < u.2 → v (u.1 + k) = 0 := by
  -- every edge term vanishes
  have hterm : ∀ l ∈ lins, quad l (jbar l v) (jbar l v) = 0 := by
    intro l hmem
    have hnn : ∀ y ∈ lins.map (fun l => quad l (jbar l v) (jbar l v)), 0 ≤ y := by
      intro y hy
      obtain ⟨l', hmem', rfl⟩ := List.mem_map.mp hy
      obtain ⟨e, he, _, hm, hinfo, _⟩ := lins_shape C es s hg lins hl l' hmem'
      have := (hpd e he).psd (jbar l' v)
      unfold quad
      rw [hm]
      simpa only [hinfo] using this
    exact List.all_zero_of_le_zero_le_of_sum_eq_zero hnn hz (List.mem_map.mpr ⟨l, hmem, rfl⟩)
  -- propagate along paths from a fixed vertex
  have hdim : ∀ w ∈ s, w.2.1 = n := fun w hw => by rw [hs.dims w hw]; exact C.cdim _ (hg w hw)
  have hprop : ∀ k, (∃ f, FixedPos fixed s f ∧ Relation.ReflTransGen (Adj es) f k) →
      ∀ w, s[k]? = some w → ∀ a, a < n → v (w.1 + a) = 0 := by
    rintro k ⟨f, ⟨vf, hvf, hff⟩, hpath⟩
    induction hpath with
    | refl =>
      intro w hw a ha
      rw [hvf] at hw; cases hw
      have hmem := List.mem_of_getElem? hvf
      exact hv (vf.1, vf.2.1) (List.mem_map.mpr ⟨vf, hmem, rfl⟩) hff a (by rw [hdim vf hmem]; exact ha)
    | @tail b c _ hab ih =>
      intro w hw a ha
      obtain ⟨e, he, hends⟩ := hab
      obtain ⟨l, hlm, hle⟩ := allSome_of_mem _ es lins hl e he
      obtain ⟨v0, v1, h0, h1, heq⟩ := edge_zero_energy C es s hg hpd e he l hle v (hterm l hlm)
      rcases hends with hends | hends
      · rw [hends] at h0 h1
        simp only at h0 h1
        rw [h1] at hw; cases hw
        rw [heq a ha]
        exact ih v0 h0 a ha
      · rw [hends] at h0 h1
        simp only at h0 h1
        rw [h0] at hw; cases hw
        rw [← heq a ha]
        exact ih v1 h1 a ha
  intro u hu k hk
  simp only [layoutOf, List.mem_map] at hu
  obtain ⟨w, hw, rfl⟩ := hu
  obtain ⟨i, hi⟩ := List.getElem?_of_mem hw
  have hlen : i < s.length := by
    by_contra hni
    rw [List.getElem?_eq_none (by omega)] at hi; cases hi
  exact hprop i (hanch i hlen) w hi k (by simpa [hdim w hw] using hk)

/-- every index below the size of the system lies in the block of some vertex -/
theorem prefixLayout_cover (start : Nat) (ds : List Nat) (i : Nat) (h1 : start ≤ i) (h2 : i < start + ds.sum) :
    ∃ u ∈ prefixLayout start ds, ∃ k, k < u.2 ∧ i = u.1 + k := by
  induction ds generalizing start with
  | nil => simp at h2; omega
  | cons d ds ih =>
    simp only [List.sum_cons] at h2
    by_cases hi : i < start + d
    · exact ⟨(start, d), by simp [prefixLayout], i - start, by simp; omega, by simp; omega⟩
    · obtain ⟨u, hu, k, hk, hik⟩ := ih (start + d) (by omega) (by omega)
      exact ⟨u, by simp [prefixLayout, hu], k, hk, hik⟩

theorem StateOK.cover {s : GState ℝ} (hs : StateOK s) (i : Nat) (hi : i < totalDim s) :
    ∃ u ∈ layoutOf s, ∃ k, k < u.2 ∧ i = u.1 + k := by
  have := prefixLayout_cover 0 ((layoutOf s).map (·.2)) i (Nat.zero_le _) (by simpa [totalDim] using hi)
  rw [← hs.pref] at this
  exact this

variable (C : LinearClass Good n) (fixed : List Nat) (es : List (Edge ℝ)) (s : GState ℝ) (hs : StateOK s)
  (hg : ∀ v ∈ s, Good v.2.2)
  (hdist : ∀ e ∈ es, e.ends.1 ≠ e.ends.2) (hsym : ∀ e ∈ es, ∀ a b, e.info a b = e.info b a)
  (hpd : ∀ e ∈ es, InfoPD n e) (hanch : Anchored fixed es s)
  (r : ℝ × (Nat → ℝ) × (Nat → Nat → ℝ)) (h : system fixed es s = some r)
include C hs hg hdist hsym hpd hanch h

/-- **the dense `H` of `Model.system` has trivial kernel on `[0, N)`** -/
theorem kernel_trivial (w : Nat → ℝ) (hw : Solves (totalDim s) r.2.2 (fun _ => 0) w) :
    ∀ i, i < totalDim s → w i = 0 := by
  cases hl : allSome (es.map (linearise s)) with
  | none => unfold system at h; rw [hl] at h; simp at h
  | some lins =>
    obtain ⟨hwf, hsy, _⟩ := lins_ok' s hs es hdist hsym lins hl
    have hv : VanishesFixed (layoutOf s) fixed w := by
      intro u hu hf k hk
      have h1 := hw (u.1 + k) (hs.index_lt u hu k hk)
      rw [row_fixed fixed es s hs hdist hsym lins hl r h w u hu hf k hk] at h1
      exact h1
    have hz : qenergy lins w = 0 := by
      unfold qenergy
      rw [energy_expand (layoutOf s) hs.nodup lins hwf]
      apply laySum_zero; intro u hu k hk
      by_cases hf : u.1 ∈ fixed
      · rw [hv u hu hf k hk]; ring
      · have h1 := hw (u.1 + k) (hs.index_lt u hu k hk)
        rw [row_free fixed es s hs hdist hsym lins hl r h w hv u hu hf k hk] at h1
        rw [h1]; ring
    intro i hi
    obtain ⟨u, hu, k, hk, rfl⟩ := hs.cover i hi
    exact energy_zero_blocks C fixed es s hs hg hpd hanch lins hl w hv hz u hu k hk

/-- **(c) the dense system has at most one solution on `[0, N)`**: for any right-hand side, two solutions agree on every
    index the system has.  Hypotheses: R² / R³ points, constructor layout, edges between different vertices, symmetric
    positive-definite information, every vertex connected through edges to a fixed vertex. -/
theorem gn_step_unique (rhs : Nat → ℝ) (x x' : Nat → ℝ) (hx : Solves (totalDim s) r.2.2 rhs x)
    (hx' : Solves (totalDim s) r.2.2 rhs x') : ∀ i, i < totalDim s → x i = x' i := by
  have hw : Solves (totalDim s) r.2.2 (fun _ => 0) (fun i => x i - x' i) := by
    intro i hi
    have e1 := hx i hi
    have e2 := hx' i hi
    simp only [mul_sub, sum_sub_distrib, e1, e2, sub_self]
  intro i hi
  have := kernel_trivial C fixed es s hs hg hdist hsym hpd hanch r h _ hw i hi
  linarith

/-- … and exactly one: a solution exists for every right-hand side -/
theorem exists_solution (rhs : Nat → ℝ) : ∃ x, Solves (totalDim s) r.2.2 rhs x := by
  let N := totalDim s
  let M : Matrix (Fin N) (Fin N) ℝ := fun i j => r.2.2 i.val j.val
  have hinj : Function.Injective (Matrix.mulVecLin M) := by
    rw [← LinearMap.ker_eq_bot, LinearMap.ker_eq_bot']
    intro y hy
    let w : Nat → ℝ := fun i => if hi : i < N then y ⟨i, hi⟩ else 0
    have hw : Solves N r.2.2 (fun _ => 0) w := by
      intro i hi
      have := congrFun hy ⟨i, hi⟩
      simp only [Matrix.mulVecLin_apply, Matrix.mulVec, dotProduct, Pi.zero_apply] at this
      rw [sum_range]
      rw [← this]
      apply sum_congr rfl; intro j _
      simp [M, w]
    funext i
    have := kernel_trivial C fixed es s hs hg hdist hsym hpd hanch r h w hw i.val i.isLt
    simpa [w] using this
  have hsurj := LinearMap.injective_iff_surjective.mp hinj
  obtain ⟨y, hy⟩ := hsurj (fun i => rhs i.val)
  refine ⟨fun i => if hi : i < N then y ⟨i, hi⟩ else 0, ?_⟩
  intro i hi
  have := congrFun hy ⟨i, hi⟩
  simp only [Matrix.mulVecLin_apply, Matrix.mulVec, dotProduct] at this
  rw [sum_range, ← this]
  apply sum_congr rfl; intro j _
  have hj : (j : Nat) < N := j.isLt
  simp [M, hj]

/-- **(c) the minimiser state is unique**: if the state moved by some increment `d` has a true χ² not exceeding that of
    the state moved by a solution `dx` of the dense system, it is the same state. -/
theorem minimiser_unique (dx : Nat → ℝ) (hx : Solves (totalDim s) r.2.2 (fun i => - r.2.1 i) dx) (d : Nat → ℝ)
    (c₁ c₂ : ℝ) (h1 : chi2At fixed es (applyDx Pose.boxplus fixed s dx) = some c₁)
    (h2 : chi2At fixed es (applyDx Pose.boxplus fixed s d) = some c₂) (hle : c₂ ≤ c₁) :
    applyDx Pose.boxplus fixed s d = applyDx Pose.boxplus fixed s dx := by
  cases hl : allSome (es.map (linearise s)) with
  | none => unfold system at h; rw [hl] at h; simp at h
  | some lins =>
    obtain ⟨hwf, _, _⟩ := lins_ok' s hs es hdist hsym lins hl
    have hv := solves_vanishes fixed es s hs hdist hsym lins hl r h dx hx
    rw [chi2_after_increment C fixed es s hs.layout hs.dims hg lins hl dx, Option.some.injEq] at h1
    rw [chi2_after_increment C fixed es s hs.layout hs.dims hg lins hl d, Option.some.injEq] at h2
    have hxx : (lins.map fun l => linChi2 l (zeroFixed (layoutOf s) fixed dx)).sum = (lins.map fun l => linChi2 l dx).sum := by
      apply listsum_congr; intro l hl'
      apply linChi2_congr; intro y hy t ht
      exact zeroFixed_of_vanishes hs.layout fixed dx hv _ (hwf l hl' y hy) t ht
    have hgap := chi2_gap fixed es s hs hdist hsym lins hl r h dx hx _ (zeroFixed_vanishes hs.layout fixed d)
    have hnn := qenergy_nonneg C es s hg (fun e he => (hpd e he).psd) lins hl
      (fun i => zeroFixed (layoutOf s) fixed d i - dx i)
    have hz : qenergy lins (fun i => zeroFixed (layoutOf s) fixed d i - dx i) = 0 := by
      rw [hxx] at h1; linarith
    have hvan : VanishesFixed (layoutOf s) fixed (fun i => zeroFixed (layoutOf s) fixed d i - dx i) := by
      intro u hu hf k hk
      simp only
      rw [zeroFixed_vanishes hs.layout fixed d u hu hf k hk, hv u hu hf k hk]; ring
    have hzero := energy_zero_blocks C fixed es s hs hg hpd hanch lins hl _ hvan hz
    rw [applyDx_eq_map C fixed s hs.layout hs.dims hg d, applyDx_eq_map C fixed s hs.layout hs.dims hg dx]
    apply List.map_congr_left
    intro v hvm
    have hmem : (v.1, v.2.1) ∈ layoutOf s := List.mem_map.mpr ⟨v, hvm, rfl⟩
    have hdim : v.2.1 = n := by rw [hs.dims v hvm]; exact C.cdim _ (hg v hvm)
    congr 2
    apply C.ext _ _ _ (hg v hvm)
    intro t ht
    have e1 := hzero (v.1, v.2.1) hmem t (by simpa [hdim] using ht)
    simp only at e1
    rw [zeroFixed_of_vanishes hs.layout fixed dx hv (v.1, v.2.1) hmem t (by simpa [hdim] using ht)]
    linarith

end generic

end
end GraphSlam.Props.C04
