import GraphSlam.Props.C04.Affine

/-!
# C04 (a) — χ² of a state moved by `Model.applyDx` is the linearised χ², exactly

For a state `s` all of whose vertex estimates belong to a `LinearClass` (R² or R³), whose gradient indices form a
`Layout` with the classes' block sizes, and ANY dense increment `d : Nat → ℝ`:

* `applyDx_eq_map`      — the update loop `Model.applyDx Pose.boxplus fixed s d` (fixed vertices skipped) is
                          "every vertex gets `⊞ d̃[g : g + c]`", `d̃ = zeroFixed (layoutOf s) fixed d`;
* `linearise_moved`, `lins_moved` — `Model.linearise` of every edge at the moved state is `shiftLin` of its
                          linearisation at `s`;
* `chi2_after_increment` — **(a)**: `Model.chi2At` of the moved state is `Σ_edges (e + J̄ d̃)ᵀ Ω (e + J̄ d̃)` with `e`, `J̄`, `Ω`
                          read from the `EdgeLin`s of `s`.
-/

namespace GraphSlam.Props.C04
open GraphSlam GraphSlam.Gen GraphSlam.Model GraphSlam.Props.C03 GraphSlam.Props.E2E Finset
set_option linter.unusedVariables false
set_option linter.unusedSimpArgs false
noncomputable section

/-- `d` with the blocks of fixed vertices zeroed -/
def zeroFixed (lay : List (Nat × Nat)) (fixed : List Nat) (d : Nat → ℝ) : Nat → ℝ :=
  fun i => if ∃ v ∈ lay, v.1 ∈ fixed ∧ v.1 ≤ i ∧ i < v.1 + v.2 then 0 else d i

theorem zeroFixed_at {lay : List (Nat × Nat)} (hl : Layout lay) (fixed : List Nat) (d : Nat → ℝ) (u : Nat × Nat)
    (hu : u ∈ lay) (s : Nat) (hs : s < u.2) :
    zeroFixed lay fixed d (u.1 + s) = if u.1 ∈ fixed then 0 else d (u.1 + s) := by
  unfold zeroFixed
  by_cases hf : u.1 ∈ fixed
  · have : ∃ v ∈ lay, v.1 ∈ fixed ∧ v.1 ≤ u.1 + s ∧ u.1 + s < v.1 + v.2 := ⟨u, hu, hf, by omega, by omega⟩
    simp [this, hf]
  · have : ¬ ∃ v ∈ lay, v.1 ∈ fixed ∧ v.1 ≤ u.1 + s ∧ u.1 + s < v.1 + v.2 := by
      rintro ⟨v, hv, hvf, h1, h2⟩
      have : v = u := hl.disjoint v hv u hu (u.1 + s) ⟨h1, h2⟩ ⟨by omega, by omega⟩
      exact hf (this ▸ hvf)
    simp [this, hf]

/-- an increment that vanishes on the blocks of fixed vertices -/
def VanishesFixed (lay : List (Nat × Nat)) (fixed : List Nat) (v : Nat → ℝ) : Prop :=
  ∀ u ∈ lay, u.1 ∈ fixed → ∀ s, s < u.2 → v (u.1 + s) = 0

theorem zeroFixed_vanishes {lay : List (Nat × Nat)} (hl : Layout lay) (fixed : List Nat) (d : Nat → ℝ) :
    VanishesFixed lay fixed (zeroFixed lay fixed d) := by
  intro u hu hf s hs
  rw [zeroFixed_at hl fixed d u hu s hs]; simp [hf]

theorem zeroFixed_of_vanishes {lay : List (Nat × Nat)} (hl : Layout lay) (fixed : List Nat) (d : Nat → ℝ)
    (hv : VanishesFixed lay fixed d) (u : Nat × Nat) (hu : u ∈ lay) (s : Nat) (hs : s < u.2) :
    zeroFixed lay fixed d (u.1 + s) = d (u.1 + s) := by
  rw [zeroFixed_at hl fixed d u hu s hs]
  by_cases hf : u.1 ∈ fixed
  · simp [hf, hv u hu hf s hs]
  · simp [hf]

section generic
variable {Good : Pose ℝ → Prop} {n : Nat}

/-- the update loop with fixed vertices skipped = every vertex moved by its slice of `d̃` -/
theorem applyDx_eq_map (C : LinearClass Good n) (fixed : List Nat) (s : GState ℝ) (hl : Layout (layoutOf s))
    (hd : DimsOK s) (hs : ∀ v ∈ s, Good v.2.2) (d : Nat → ℝ) :
    applyDx Pose.boxplus fixed s d
      = s.map fun v => (v.1, v.2.1, Pose.boxplus v.2.2 fun t => zeroFixed (layoutOf s) fixed d (v.1 + t)) := by
  unfold applyDx
  apply List.map_congr_left
  intro v hv
  obtain ⟨g, dd, p⟩ := v
  have hmem : (g, dd) ∈ layoutOf s := List.mem_map.mpr ⟨(g, dd, p), hv, rfl⟩
  have hdd : dd = n := by rw [← C.cdim p (hs _ hv)]; exact hd _ hv
  simp only
  by_cases hf : g ∈ fixed
  · simp only [hf, if_true]
    have : Pose.boxplus p (fun t => zeroFixed (layoutOf s) fixed d (g + t)) = Pose.boxplus p (fun _ => 0) := by
      apply C.ext p _ _ (hs _ hv)
      intro t ht
      rw [zeroFixed_at hl fixed d (g, dd) hmem t (by simpa [hdd] using ht)]; simp [hf]
    rw [this, C.zero p (hs _ hv)]
  · simp only [hf, if_false]
    have : Pose.boxplus p (fun t => zeroFixed (layoutOf s) fixed d (g + t)) = Pose.boxplus p (fun t => d (g + t)) := by
      apply C.ext p _ _ (hs _ hv)
      intro t ht
      rw [zeroFixed_at hl fixed d (g, dd) hmem t (by simpa [hdd] using ht)]; simp [hf]
    rw [this]

/-- the moved state is still in the class -/
theorem applyDx_good (C : LinearClass Good n) (fixed : List Nat) (s : GState ℝ) (hs : ∀ v ∈ s, Good v.2.2) (d : Nat → ℝ) :
    ∀ v ∈ applyDx Pose.boxplus fixed s d, Good v.2.2 := by
  intro v hv
  unfold applyDx at hv
  rw [List.mem_map] at hv
  obtain ⟨w, hw, rfl⟩ := hv
  obtain ⟨g, dd, p⟩ := w
  simp only
  split
  · exact hs _ hw
  · exact C.good p _ (hs _ hw)

theorem layoutOf_applyDx (fixed : List Nat) (s : GState ℝ) (d : Nat → ℝ) :
    layoutOf (applyDx Pose.boxplus fixed s d) = layoutOf s :=
  C06.applyDx_layout Pose.boxplus fixed s d

/-- **every edge's linearisation at the moved state is the shifted linearisation** -/
theorem linearise_moved (C : LinearClass Good n) (fixed : List Nat) (s : GState ℝ) (hl : Layout (layoutOf s))
    (hd : DimsOK s) (hs : ∀ v ∈ s, Good v.2.2) (d : Nat → ℝ) (e : Edge ℝ) (l : EdgeLin ℝ) (h : linearise s e = some l) :
    linearise (applyDx Pose.boxplus fixed s d) e = some (shiftLin l (zeroFixed (layoutOf s) fixed d)) := by
  rw [applyDx_eq_map C fixed s hl hd hs d]
  unfold linearise at h ⊢
  rw [List.getElem?_map, List.getElem?_map]
  cases h0 : s[e.ends.1]? with
  | none => rw [h0] at h; simp at h
  | some v0 =>
    cases h1 : s[e.ends.2]? with
    | none => rw [h0, h1] at h; simp at h
    | some v1 =>
      rw [h0, h1] at h
      obtain ⟨g0, d0, p0⟩ := v0
      obtain ⟨g1, d1, p1⟩ := v1
      simp only [Option.map_some] at h ⊢
      exact C.aff g0 g1 p0 p1 e l (hs _ (List.mem_of_getElem? h0)) (hs _ (List.mem_of_getElem? h1)) h _

theorem allSome_map_of {α β : Type} (f f' : α → Option β) (φ : β → β) (L : List α)
    (h : ∀ x ∈ L, ∀ y, f x = some y → f' x = some (φ y)) (r : List β) (hr : allSome (L.map f) = some r) :
    allSome (L.map f') = some (r.map φ) := by
  induction L generalizing r with
  | nil => simp only [List.map_nil, allSome, Option.some.injEq] at hr ⊢; subst hr; rfl
  | cons x xs ih =>
    simp only [List.map_cons] at hr ⊢
    cases hx : f x with
    | none => rw [hx] at hr; simp [allSome] at hr
    | some y =>
      rw [hx] at hr
      simp only [allSome, Option.map_eq_some_iff] at hr
      obtain ⟨r', hr', rfl⟩ := hr
      rw [h x (by simp) y hx]
      simp only [allSome, ih (fun x' hx' => h x' (by simp [hx'])) r' hr', Option.map_some, List.map_cons]

theorem lins_moved (C : LinearClass Good n) (fixed : List Nat) (es : List (Edge ℝ)) (s : GState ℝ)
    (hl : Layout (layoutOf s)) (hd : DimsOK s) (hs : ∀ v ∈ s, Good v.2.2) (d : Nat → ℝ) (lins : List (EdgeLin ℝ))
    (h : allSome (es.map (linearise s)) = some lins) :
    allSome (es.map (linearise (applyDx Pose.boxplus fixed s d)))
      = some (lins.map fun l => shiftLin l (zeroFixed (layoutOf s) fixed d)) :=
  allSome_map_of _ _ _ es (fun e _ l hle => linearise_moved C fixed s hl hd hs d e l hle) lins h

/-- `chi2At` is the sum of the edges' χ² -/
theorem chi2At_of_lins (fixed : List Nat) (es : List (Edge ℝ)) (s : GState ℝ) (lins : List (EdgeLin ℝ))
    (h : allSome (es.map (linearise s)) = some lins) : chi2At fixed es s = some (lins.map (·.chi2)).sum := by
  unfold chi2At system
  rw [h]
  simp only [Option.map_some, accumulate_chi2]

/-- **(a) the linearisation is exact.**  For a state all of whose vertices are R² (resp. R³) points, with the constructor's
    index layout, well-typed edges (`lins` are their `EdgeLin`s at `s`: error, Jacobians, information as
    `calc_chi2_gradient_hessian` reads them) and any dense increment `d`: the true χ² (`Model.chi2At`: the generated
    `calc_error` / `calc_chi2` of every edge at the new estimates) of the state the update loop graph.py:484-494 produces
    equals `Σ_edges (e + J̄ d̃)ᵀ Ω (e + J̄ d̃)`, `d̃` being `d` with the blocks of fixed vertices zeroed. -/
theorem chi2_after_increment (C : LinearClass Good n) (fixed : List Nat) (es : List (Edge ℝ)) (s : GState ℝ)
    (hl : Layout (layoutOf s)) (hd : DimsOK s) (hs : ∀ v ∈ s, Good v.2.2) (lins : List (EdgeLin ℝ))
    (h : allSome (es.map (linearise s)) = some lins) (d : Nat → ℝ) :
    chi2At fixed es (applyDx Pose.boxplus fixed s d)
      = some (lins.map fun l => linChi2 l (zeroFixed (layoutOf s) fixed d)).sum := by
  rw [chi2At_of_lins fixed es _ _ (lins_moved C fixed es s hl hd hs d lins h), List.map_map]
  rfl

end generic

/-- (a) for R² graphs -/
theorem chi2_after_increment_R2 (fixed : List Nat) (es : List (Edge ℝ)) (s : GState ℝ)
    (hl : Layout (layoutOf s)) (hd : DimsOK s) (hs : ∀ v ∈ s, IsR2 v.2.2) (lins : List (EdgeLin ℝ))
    (h : allSome (es.map (linearise s)) = some lins) (d : Nat → ℝ) :
    chi2At fixed es (applyDx Pose.boxplus fixed s d)
      = some (lins.map fun l => linChi2 l (zeroFixed (layoutOf s) fixed d)).sum :=
  chi2_after_increment linearClass_R2 fixed es s hl hd hs lins h d

/-- (a) for R³ graphs -/
theorem chi2_after_increment_R3 (fixed : List Nat) (es : List (Edge ℝ)) (s : GState ℝ)
    (hl : Layout (layoutOf s)) (hd : DimsOK s) (hs : ∀ v ∈ s, IsR3 v.2.2) (lins : List (EdgeLin ℝ))
    (h : allSome (es.map (linearise s)) = some lins) (d : Nat → ℝ) :
    chi2At fixed es (applyDx Pose.boxplus fixed s d)
      = some (lins.map fun l => linChi2 l (zeroFixed (layoutOf s) fixed d)).sum :=
  chi2_after_increment linearClass_R3 fixed es s hl hd hs lins h d

end
end GraphSlam.Props.C04
