import GraphSlam.Props.C04.Increment
import Mathlib.Algebra.BigOperators.Group.Finset.Piecewise
import Mathlib.Algebra.BigOperators.Intervals

/-!
# C04 (b) — an exact solution of the dense system `Model.system` assembles minimises the true χ²

* `StateOK s`          — the invariant of every state `Graph.optimize` visits: gradient indices are the prefix sums of the
                         compact dimensions from `0` (`Graph._initialize`), stored dimensions are the classes';
                         `stateOK_initState`, `stateOK_applyDx`;
* `system_spec`        — `Model.system` on such a state, in the vocabulary of `Props/C04/Quad`: χ² is the sum of the
                         edges' χ², `b`, `H` are `gradEntry` / `hessEntry` on free blocks, zero / identity on fixed ones
                         (a restatement of `C03.assembled_gradient`, `C03.assembled_hessian` for the typed-graph model);
* `Solves N H rhs x`   — `x` solves the dense system on the index range `[0, N)`: what `spsolve(H, rhs)` is asked for;
* `solves_vanishes`, `solves_gradAt_zero` — a solution vanishes on the blocks of fixed vertices (C06) and makes the
                         gradient of the linearised χ² vanish on every free row;
* `chi2_gap`           — `Σ χ²_lin(d̃) = Σ χ²_lin(dx) + (d̃ − dx)ᵀ (Σ J̄ᵀΩJ̄) (d̃ − dx)` for every `d`;
* `gn_step_minimises`  — **(b)**.
-/

namespace GraphSlam.Props.C04
open GraphSlam GraphSlam.Gen GraphSlam.Model GraphSlam.Props.C03 GraphSlam.Props.E2E Finset
set_option linter.unusedVariables false
set_option linter.unusedSimpArgs false
set_option linter.unusedSectionVars false
noncomputable section

/-! ### the invariant of visited states -/

/-- gradient indices are the running sums of the block sizes starting at `0`; block sizes are the classes' -/
structure StateOK (s : GState ℝ) : Prop where
  pref : layoutOf s = prefixLayout 0 ((layoutOf s).map (·.2))
  dims : DimsOK s

/-- size of the dense system -/
def totalDim (s : GState ℝ) : Nat := ((layoutOf s).map (·.2)).sum

theorem stateOK_initState (ps : List (Pose ℝ)) : StateOK (initState 0 ps) := by
  refine ⟨?_, dimsOK_initState 0 ps⟩
  have h := layoutOf_initState 0 ps
  have h2 : ∀ (g : Nat) (ds : List Nat), (prefixLayout g ds).map (·.2) = ds := by
    intro g ds
    induction ds generalizing g with
    | nil => rfl
    | cons d ds ih => simp [prefixLayout, ih]
  rw [h, h2]

theorem totalDim_initState (ps : List (Pose ℝ)) : totalDim (initState 0 ps) = (ps.map Pose.cdim).sum := by
  unfold totalDim
  rw [layoutOf_initState]
  have h2 : ∀ (g : Nat) (ds : List Nat), (prefixLayout g ds).map (·.2) = ds := by
    intro g ds
    induction ds generalizing g with
    | nil => rfl
    | cons d ds ih => simp [prefixLayout, ih]
  rw [h2]

theorem boxplus_cdim (p : Pose ℝ) (δ : Nat → ℝ) : (Pose.boxplus p δ).cdim = p.cdim := by
  cases p <;> rfl

theorem stateOK_applyDx (fixed : List Nat) (s : GState ℝ) (hs : StateOK s) (d : Nat → ℝ) :
    StateOK (applyDx Pose.boxplus fixed s d) := by
  refine ⟨by rw [layoutOf_applyDx]; exact hs.pref, ?_⟩
  intro v hv
  unfold applyDx at hv
  rw [List.mem_map] at hv
  obtain ⟨w, hw, rfl⟩ := hv
  obtain ⟨g, dd, p⟩ := w
  have := hs.dims _ hw
  simp only at this ⊢
  split
  · exact this
  · simp only [boxplus_cdim]; exact this

theorem totalDim_applyDx (fixed : List Nat) (s : GState ℝ) (d : Nat → ℝ) :
    totalDim (applyDx Pose.boxplus fixed s d) = totalDim s := by
  unfold totalDim; rw [layoutOf_applyDx]

theorem StateOK.dims_pos {s : GState ℝ} (hs : StateOK s) : ∀ d ∈ (layoutOf s).map (·.2), 0 < d := by
  intro d hd
  simp only [layoutOf, List.map_map, List.mem_map, Function.comp] at hd
  obtain ⟨v, hv, rfl⟩ := hd
  rw [hs.dims v hv]; exact cdim_pos _

theorem StateOK.layout {s : GState ℝ} (hs : StateOK s) : Layout (layoutOf s) := by
  rw [hs.pref]; exact prefixLayout_layout 0 _ hs.dims_pos

theorem prefixLayout_nodup (start : Nat) (ds : List Nat) (hpos : ∀ d ∈ ds, 0 < d) :
    ((prefixLayout start ds).map (·.1)).Nodup := by
  induction ds generalizing start with
  | nil => simp [prefixLayout]
  | cons d ds ih =>
    simp only [prefixLayout, List.map_cons, List.nodup_cons]
    refine ⟨?_, ih _ (fun x hx => hpos x (by simp [hx]))⟩
    intro hmem
    rw [List.mem_map] at hmem
    obtain ⟨v, hv, hv1⟩ := hmem
    have := prefixLayout_ge (start + d) ds v hv
    have := hpos d (by simp)
    omega

theorem StateOK.nodup {s : GState ℝ} (hs : StateOK s) : ((layoutOf s).map (·.1)).Nodup := by
  rw [hs.pref]; exact prefixLayout_nodup 0 _ hs.dims_pos

theorem layoutOf_keys (s : GState ℝ) : (layoutOf s).map (·.1) = s.map (·.1) := by
  simp [layoutOf, List.map_map, Function.comp]

/-- the index ranges of a prefix layout tile `[start, start + Σ dims)` -/
theorem sum_range_prefixLayout (start : Nat) (ds : List Nat) (f : Nat → ℝ) :
    ∑ j ∈ range (start + ds.sum), f j
      = (∑ j ∈ range start, f j) + laySum (prefixLayout start ds) fun g t => f (g + t) := by
  induction ds generalizing start with
  | nil => simp [prefixLayout, laySum]
  | cons d ds ih =>
    simp only [List.sum_cons, prefixLayout]
    rw [laySum_cons, ← Nat.add_assoc, ih (start + d), sum_range_add]
    ring

theorem StateOK.sum_range {s : GState ℝ} (hs : StateOK s) (f : Nat → ℝ) :
    ∑ j ∈ range (totalDim s), f j = laySum (layoutOf s) fun g t => f (g + t) := by
  have := sum_range_prefixLayout 0 ((layoutOf s).map (·.2)) f
  simp only [Nat.zero_add, range_zero, sum_empty, zero_add] at this
  rw [← hs.pref] at this
  exact this

theorem prefixLayout_lt (start : Nat) (ds : List Nat) : ∀ v ∈ prefixLayout start ds, v.1 + v.2 ≤ start + ds.sum := by
  induction ds generalizing start with
  | nil => intro v hv; simp [prefixLayout] at hv
  | cons d ds ih =>
    intro v hv
    simp only [prefixLayout, List.mem_cons] at hv
    simp only [List.sum_cons]
    rcases hv with rfl | hv
    · simp
    · have := ih (start + d) v hv; omega

theorem StateOK.index_lt {s : GState ℝ} (hs : StateOK s) (u : Nat × Nat) (hu : u ∈ layoutOf s) (k : Nat) (hk : k < u.2) :
    u.1 + k < totalDim s := by
  have h := prefixLayout_lt 0 ((layoutOf s).map (·.2)) u (by rw [← hs.pref]; exact hu)
  unfold totalDim; omega

/-! ### what `linearise` returns on such a state -/

theorem lins_ok' (s : GState ℝ) (hs : StateOK s) (es : List (Edge ℝ))
    (hdist : ∀ e ∈ es, e.ends.1 ≠ e.ends.2) (hsym : ∀ e ∈ es, ∀ a b, e.info a b = e.info b a)
    (lins : List (EdgeLin ℝ)) (h : allSome (es.map (linearise s)) = some lins) :
    EdgesWF (layoutOf s) lins ∧ (∀ l ∈ lins, ∀ a b, l.info a b = l.info b a) ∧
      (∀ l ∈ lins, (l.verts.map (·.1)).Nodup) := by
  have hmem := allSome_mem _ _ h
  refine ⟨?_, ?_, ?_⟩
  · intro l hl
    obtain ⟨e, he, hle⟩ := List.mem_map.mp (hmem l hl)
    exact linearise_wf _ hs.dims e l hle
  · intro l hl a b
    obtain ⟨e, he, hle⟩ := List.mem_map.mp (hmem l hl)
    obtain ⟨_, _, _, _, _, hinfo⟩ := linearise_spec _ e l hle
    rw [hinfo, hinfo]; exact hsym e he a b
  · intro l hl
    obtain ⟨e, he, hle⟩ := List.mem_map.mp (hmem l hl)
    obtain ⟨v0, v1, h0, h1, hv, _⟩ := linearise_spec _ e l hle
    have : l.verts.map (·.1) = (l.verts.map (fun x => (x.1, x.2.1))).map (·.1) := by
      rw [List.map_map]; rfl
    rw [this, hv]
    simp only [List.map_cons, List.map_nil, List.nodup_cons, List.mem_cons, List.not_mem_nil, or_false, not_false_eq_true,
      List.nodup_nil, and_true]
    have hnd : (s.map (·.1)).Nodup := by rw [← layoutOf_keys]; exact hs.nodup
    obtain ⟨hi, rfl⟩ := List.getElem?_eq_some_iff.mp h0
    obtain ⟨hj, rfl⟩ := List.getElem?_eq_some_iff.mp h1
    intro heq
    have hi' : e.ends.1 < (s.map (·.1)).length := by simpa using hi
    have hj' : e.ends.2 < (s.map (·.1)).length := by simpa using hj
    have : (s.map (·.1))[e.ends.1] = (s.map (·.1))[e.ends.2] := by simpa using heq
    exact hdist e he ((hnd.getElem_inj_iff).mp this)

/-- **`Model.system` in the vocabulary of `Quad`** -/
theorem system_spec (fixed : List Nat) (es : List (Edge ℝ)) (s : GState ℝ) (hs : StateOK s)
    (hdist : ∀ e ∈ es, e.ends.1 ≠ e.ends.2) (hsym : ∀ e ∈ es, ∀ a b, e.info a b = e.info b a)
    (lins : List (EdgeLin ℝ)) (hl : allSome (es.map (linearise s)) = some lins)
    (r : ℝ × (Nat → ℝ) × (Nat → Nat → ℝ)) (h : system fixed es s = some r) :
    r.1 = (lins.map (·.chi2)).sum ∧
    (∀ u ∈ layoutOf s, ∀ k, k < u.2 → r.2.1 (u.1 + k) = if u.1 ∈ fixed then 0 else gradEntry lins u.1 k) ∧
    (∀ u ∈ layoutOf s, ∀ w ∈ layoutOf s, ∀ k, k < u.2 → ∀ t, t < w.2 →
      r.2.2 (u.1 + k) (w.1 + t) =
        if u.1 ∈ fixed ∨ w.1 ∈ fixed then (if u.1 = w.1 then eyeR k t else 0) else hessEntry lins u.1 k w.1 t) := by
  unfold system at h
  rw [hl] at h
  simp only [Option.map_some, Option.some.injEq] at h
  subst h
  obtain ⟨hwf, hsy, hnd⟩ := lins_ok' s hs es hdist hsym lins hl
  refine ⟨accumulate_chi2 lins, ?_, ?_⟩
  · intro u hu k hk
    simp only
    rw [assembled_gradient hs.layout fixed lins hwf u hu k hk]
    split
    · rfl
    · unfold gradEntry
      apply listsum_congr; intro l _
      exact gradContrib_sum_eq l u.1 k
  · intro u hu w hw k hk t ht
    have := assembled_hessian hs.layout fixed lins hwf hsy hnd ⟨u, w, k, t, hu, hw, hk, ht⟩
    simp only at this ⊢
    rw [this]
    split
    · rfl
    · unfold hessEntry
      apply listsum_congr; intro l _
      exact ordered_sum_eq l u.1 w.1 k t

/-! ### solutions of the dense system -/

/-- `x` solves `H x = rhs` on the index range `[0, N)` (rows and columns) -/
def Solves (N : Nat) (H : Nat → Nat → ℝ) (rhs : Nat → ℝ) (x : Nat → ℝ) : Prop :=
  ∀ i, i < N → ∑ j ∈ range N, H i j * x j = rhs i

/-- the quadratic energy `vᵀ (Σ J̄ᵀΩJ̄) v` -/
def qenergy (lins : List (EdgeLin ℝ)) (v : Nat → ℝ) : ℝ := (lins.map fun l => quad l (jbar l v) (jbar l v)).sum

section solved
variable (fixed : List Nat) (es : List (Edge ℝ)) (s : GState ℝ) (hs : StateOK s)
  (hdist : ∀ e ∈ es, e.ends.1 ≠ e.ends.2) (hsym : ∀ e ∈ es, ∀ a b, e.info a b = e.info b a)
  (lins : List (EdgeLin ℝ)) (hl : allSome (es.map (linearise s)) = some lins)
  (r : ℝ × (Nat → ℝ) × (Nat → Nat → ℝ)) (h : system fixed es s = some r)
include hs hdist hsym hl h

/-- a row of `H x` as a sum over the layout -/
theorem row_sum (x : Nat → ℝ) (i : Nat) :
    ∑ j ∈ range (totalDim s), r.2.2 i j * x j = laySum (layoutOf s) fun g t => r.2.2 i (g + t) * x (g + t) :=
  hs.sum_range _

/-- C06 at this level: on the block of a fixed vertex, `(H x)[i] = x[i]` -/
theorem row_fixed (x : Nat → ℝ) (u : Nat × Nat) (hu : u ∈ layoutOf s) (hf : u.1 ∈ fixed) (k : Nat) (hk : k < u.2) :
    ∑ j ∈ range (totalDim s), r.2.2 (u.1 + k) j * x j = x (u.1 + k) := by
  obtain ⟨_, _, hH⟩ := system_spec fixed es s hs hdist hsym lins hl r h
  rw [row_sum fixed es s hs hdist hsym lins hl r h]
  have h1 : (laySum (layoutOf s) fun g t => r.2.2 (u.1 + k) (g + t) * x (g + t))
      = laySum (layoutOf s) fun g t => if u.1 = g then eyeR k t * x (g + t) else 0 := by
    apply laySum_congr; intro w hw t ht
    rw [hH u hu w hw k hk t ht]
    simp only [hf, true_or, if_true]
    split <;> simp
  rw [h1, laySum_pick (layoutOf s) hs.nodup u.1 u.2 hu (fun g t => eyeR k t * x (g + t))]
  simp only [eyeR, ite_mul, one_mul, zero_mul]
  rw [sum_ite_eq]
  simp [hk]

/-- on a free row, `(H x)[i] = Σ_{(g,t)} (Σ J̄ᵀΩJ̄)[i, g+t] · x[g+t]` when `x` vanishes on fixed blocks -/
theorem row_free (x : Nat → ℝ) (hx : VanishesFixed (layoutOf s) fixed x) (u : Nat × Nat) (hu : u ∈ layoutOf s)
    (hf : u.1 ∉ fixed) (k : Nat) (hk : k < u.2) :
    ∑ j ∈ range (totalDim s), r.2.2 (u.1 + k) j * x j
      = laySum (layoutOf s) fun g t => hessEntry lins u.1 k g t * x (g + t) := by
  obtain ⟨_, _, hH⟩ := system_spec fixed es s hs hdist hsym lins hl r h
  rw [row_sum fixed es s hs hdist hsym lins hl r h]
  apply laySum_congr; intro w hw t ht
  rw [hH u hu w hw k hk t ht]
  by_cases hwf : w.1 ∈ fixed
  · rw [hx w hw hwf t ht]; ring
  · simp [hf, hwf]

/-- **a solution of the dense system vanishes on the blocks of fixed vertices** -/
theorem solves_vanishes (x : Nat → ℝ) (hx : Solves (totalDim s) r.2.2 (fun i => - r.2.1 i) x) :
    VanishesFixed (layoutOf s) fixed x := by
  obtain ⟨_, hb, _⟩ := system_spec fixed es s hs hdist hsym lins hl r h
  intro u hu hf k hk
  have h1 := hx (u.1 + k) (hs.index_lt u hu k hk)
  dsimp only at h1
  rw [row_fixed fixed es s hs hdist hsym lins hl r h x u hu hf k hk, hb u hu k hk] at h1
  simpa [hf] using h1

/-- **… and makes the gradient of the linearised χ² vanish on every free row** -/
theorem solves_gradAt_zero (x : Nat → ℝ) (hx : Solves (totalDim s) r.2.2 (fun i => - r.2.1 i) x)
    (u : Nat × Nat) (hu : u ∈ layoutOf s) (hf : u.1 ∉ fixed) (k : Nat) (hk : k < u.2) :
    gradAt lins x u.1 k = 0 := by
  obtain ⟨_, hb, _⟩ := system_spec fixed es s hs hdist hsym lins hl r h
  obtain ⟨hwf, hsy, _⟩ := lins_ok' s hs es hdist hsym lins hl
  have hv := solves_vanishes fixed es s hs hdist hsym lins hl r h x hx
  have h1 := hx (u.1 + k) (hs.index_lt u hu k hk)
  dsimp only at h1
  rw [row_free fixed es s hs hdist hsym lins hl r h x hv u hu hf k hk, hb u hu k hk] at h1
  rw [gradAt_expand (layoutOf s) hs.nodup lins hwf hsy x u.1 k, h1]
  simp [hf]

/-- conversely: vanishing on fixed blocks and zero linearised gradient on free rows is solving the dense system -/
theorem solves_of_gradAt_zero (x : Nat → ℝ) (hv : VanishesFixed (layoutOf s) fixed x)
    (hg : ∀ u ∈ layoutOf s, u.1 ∉ fixed → ∀ k, k < u.2 → gradAt lins x u.1 k = 0)
    (u : Nat × Nat) (hu : u ∈ layoutOf s) (k : Nat) (hk : k < u.2) :
    ∑ j ∈ range (totalDim s), r.2.2 (u.1 + k) j * x j = - r.2.1 (u.1 + k) := by
  obtain ⟨_, hb, _⟩ := system_spec fixed es s hs hdist hsym lins hl r h
  obtain ⟨hwf, hsy, _⟩ := lins_ok' s hs es hdist hsym lins hl
  by_cases hf : u.1 ∈ fixed
  · rw [row_fixed fixed es s hs hdist hsym lins hl r h x u hu hf k hk, hb u hu k hk, hv u hu hf k hk]
    simp [hf]
  · rw [row_free fixed es s hs hdist hsym lins hl r h x hv u hu hf k hk, hb u hu k hk]
    have := hg u hu hf k hk
    rw [gradAt_expand (layoutOf s) hs.nodup lins hwf hsy x u.1 k] at this
    simp only [hf, if_false]
    linarith

/-- **`Σ χ²_lin(d) = Σ χ²_lin(dx) + (d − dx)ᵀ (Σ J̄ᵀΩJ̄) (d − dx)`** for a solution `dx` and any `d` vanishing on the fixed
    blocks -/
theorem chi2_gap (x : Nat → ℝ) (hx : Solves (totalDim s) r.2.2 (fun i => - r.2.1 i) x)
    (d : Nat → ℝ) (hd : VanishesFixed (layoutOf s) fixed d) :
    (lins.map fun l => linChi2 l d).sum = (lins.map fun l => linChi2 l x).sum + qenergy lins (fun i => d i - x i) := by
  obtain ⟨hwf, hsy, _⟩ := lins_ok' s hs es hdist hsym lins hl
  have hv := solves_vanishes fixed es s hs hdist hsym lins hl r h x hx
  have hcross : (lins.map fun l => quad l (jbar l fun i => d i - x i) (resid l x)).sum = 0 := by
    rw [cross_expand (layoutOf s) hs.nodup lins hwf]
    apply laySum_zero; intro u hu k hk
    by_cases hf : u.1 ∈ fixed
    · rw [hd u hu hf k hk, hv u hu hf k hk]; ring
    · rw [solves_gradAt_zero fixed es s hs hdist hsym lins hl r h x hx u hu hf k hk]; ring
  have hexp : (lins.map fun l => linChi2 l d).sum
      = (lins.map fun l => linChi2 l x + 2 * quad l (jbar l fun i => d i - x i) (resid l x)
          + quad l (jbar l fun i => d i - x i) (jbar l fun i => d i - x i)).sum := by
    apply listsum_congr; intro l hl'
    exact linChi2_expand l (hsy l hl') d x
  rw [hexp, List.sum_map_add, List.sum_map_add, List.sum_map_mul_left, hcross]
  unfold qenergy
  ring

end solved

/-! ### (b) -/

/-- positive semi-definite information on the first `n` coordinates -/
def InfoPSD (n : Nat) (e : Edge ℝ) : Prop :=
  ∀ x : Nat → ℝ, 0 ≤ ∑ a ∈ range n, ∑ b ∈ range n, x a * e.info a b * x b

section generic
variable {Good : Pose ℝ → Prop} {n : Nat}

theorem lins_shape (C : LinearClass Good n) (es : List (Edge ℝ)) (s : GState ℝ) (hg : ∀ v ∈ s, Good v.2.2)
    (lins : List (EdgeLin ℝ)) (hl : allSome (es.map (linearise s)) = some lins) (l : EdgeLin ℝ) (hmem : l ∈ lins) :
    ∃ e ∈ es, linearise s e = some l ∧ l.m = n ∧ (∀ a b, l.info a b = e.info a b) ∧
      ∃ v0 v1, s[e.ends.1]? = some v0 ∧ s[e.ends.2]? = some v1 ∧
        ∃ σ : ℝ, σ ≠ 0 ∧ ∀ (v : Nat → ℝ) a, a < n → jbar l v a = σ * (v (v1.1 + a) - v (v0.1 + a)) := by
  obtain ⟨e, he, hle⟩ := List.mem_map.mp (allSome_mem _ _ hl l hmem)
  obtain ⟨_, _, _, _, _, hinfo⟩ := linearise_spec _ e l hle
  refine ⟨e, he, hle, ?_⟩
  unfold linearise at hle
  cases h0 : s[e.ends.1]? with
  | none => rw [h0] at hle; simp at hle
  | some v0 =>
    cases h1 : s[e.ends.2]? with
    | none => rw [h0, h1] at hle; simp at hle
    | some v1 =>
      rw [h0, h1] at hle
      obtain ⟨g0, d0, p0⟩ := v0
      obtain ⟨g1, d1, p1⟩ := v1
      simp only at hle
      obtain ⟨hm, σ, hσ, hj⟩ := C.shape g0 g1 p0 p1 e l (hg _ (List.mem_of_getElem? h0)) (hg _ (List.mem_of_getElem? h1)) hle
      exact ⟨hm, hinfo, _, _, rfl, rfl, σ, hσ, hj⟩

theorem qenergy_nonneg (C : LinearClass Good n) (es : List (Edge ℝ)) (s : GState ℝ) (hg : ∀ v ∈ s, Good v.2.2)
    (hpsd : ∀ e ∈ es, InfoPSD n e)
    (lins : List (EdgeLin ℝ)) (hl : allSome (es.map (linearise s)) = some lins) (v : Nat → ℝ) :
    0 ≤ qenergy lins v := by
  unfold qenergy
  apply List.sum_nonneg
  intro y hy
  obtain ⟨l, hmem, rfl⟩ := List.mem_map.mp hy
  obtain ⟨e, he, _, hm, hinfo, _⟩ := lins_shape C es s hg lins hl l hmem
  have := hpsd e he (jbar l v)
  unfold quad
  rw [hm]
  simpa only [hinfo] using this

/-- **(b) the Gauss–Newton step minimises the true χ².**  Let `Model.system fixed es s = some (χ², b, H)` on a state of R²
    (R³) points with the constructor's index layout, edges joining two different vertices with symmetric positive
    semi-definite information, and let `dx` solve the dense system handed to `spsolve` (graph.py:478: `H dx = −b`) on the
    index range `[0, N)`.  Then for **every** increment `d`, the true χ² of the state moved by `dx` (update loop
    graph.py:484-494) is at most the true χ² of the state moved by `d`. -/
theorem gn_step_minimises (C : LinearClass Good n) (fixed : List Nat) (es : List (Edge ℝ)) (s : GState ℝ)
    (hs : StateOK s) (hg : ∀ v ∈ s, Good v.2.2)
    (hdist : ∀ e ∈ es, e.ends.1 ≠ e.ends.2) (hsym : ∀ e ∈ es, ∀ a b, e.info a b = e.info b a)
    (hpsd : ∀ e ∈ es, InfoPSD n e)
    (r : ℝ × (Nat → ℝ) × (Nat → Nat → ℝ)) (h : system fixed es s = some r)
    (dx : Nat → ℝ) (hx : Solves (totalDim s) r.2.2 (fun i => - r.2.1 i) dx) (d : Nat → ℝ) :
    ∃ c₁ c₂, chi2At fixed es (applyDx Pose.boxplus fixed s dx) = some c₁ ∧
      chi2At fixed es (applyDx Pose.boxplus fixed s d) = some c₂ ∧ c₁ ≤ c₂ := by
  cases hl : allSome (es.map (linearise s)) with
  | none => unfold system at h; rw [hl] at h; simp at h
  | some lins =>
    refine ⟨_, _, chi2_after_increment C fixed es s hs.layout hs.dims hg lins hl dx,
      chi2_after_increment C fixed es s hs.layout hs.dims hg lins hl d, ?_⟩
    obtain ⟨hwf, _, _⟩ := lins_ok' s hs es hdist hsym lins hl
    have hv := solves_vanishes fixed es s hs hdist hsym lins hl r h dx hx
    have hxx : (lins.map fun l => linChi2 l (zeroFixed (layoutOf s) fixed dx)).sum = (lins.map fun l => linChi2 l dx).sum := by
      apply listsum_congr; intro l hl'
      apply linChi2_congr; intro y hy t ht
      exact zeroFixed_of_vanishes hs.layout fixed dx hv _ (hwf l hl' y hy) t ht
    rw [hxx, chi2_gap fixed es s hs hdist hsym lins hl r h dx hx _ (zeroFixed_vanishes hs.layout fixed d)]
    linarith [qenergy_nonneg C es s hg hpsd lins hl (fun i => zeroFixed (layoutOf s) fixed d i - dx i)]

end generic

end
end GraphSlam.Props.C04
