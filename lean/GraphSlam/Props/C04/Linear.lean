import GraphSlam.Theory.GaussNewton
import GraphSlam.Props.C12.Ctl
import GraphSlam.Generated.Edges
import Mathlib.Logic.Relation
import Mathlib.Tactic.FinCases

/-!
# C04 — linear (R²/R³) graphs are solved to the global weighted-least-squares optimum

Ingredients, each a theorem:

1. `*_affine` — the generated R²/R³ edge errors are **affine** in the box-plus increments of their vertices, with exactly
   the (constant) matrices `calc_jacobians` returns.  Hence the stacked residual is `e + J̄ d` *exactly*, for any
   initial guess.
2. `Theory.gn_minimises_fixed` / `gn_unique` — a solution of the assembled system (C03: what the code assembles *is*
   `J̄ᵀΩJ̄`, `J̄ᵀΩe` with fixed rows replaced) minimises `χ²` over all increments that keep the fixed vertices fixed, and
   is the unique minimiser when the reduced Hessian is positive definite.
3. `connected_fixed_pd` — connected graph + one fixed vertex + positive-definite information ⇒ the reduced Hessian is
   positive definite (an increment with zero energy is constant along every edge, hence zero).
4. `Theory.affine_one_step_stationary` + `stationary_zero_step` — after the first step every later step is zero, so the
   χ² sequence is constant from index 1 on, and `final_chi2_constant_tail` (via C12's closed form of the report):
   `final_chi2` is the χ² of that minimiser, and `converged = true` for `max_iter ≥ 2`, `tol > 0`.
-/

namespace GraphSlam.Props.C04
open GraphSlam GraphSlam.Gen GraphSlam.Model
set_option linter.unusedSimpArgs false

/-! ### 1. affine errors with the generated constant Jacobians -/

macro "affine_simp" : tactic =>
  `(tactic| (
      simp [EdgeOdometry.calc_error_R2, EdgeOdometry.calc_error_R3, EdgeLandmark.calc_error_R2, EdgeLandmark.calc_error_R3,
        EdgeOdometry.calc_jacobians_R2_0, EdgeOdometry.calc_jacobians_R2_1, EdgeOdometry.calc_jacobians_R3_0,
        EdgeOdometry.calc_jacobians_R3_1, EdgeLandmark.calc_jacobians_R2_0, EdgeLandmark.calc_jacobians_R2_1,
        EdgeLandmark.calc_jacobians_R3_0, EdgeLandmark.calc_jacobians_R3_1,
        PoseR2.to_compact, PoseR2.sub, PoseR2.add, PoseR2.inverse, PoseR2.boxplus,
        PoseR3.to_compact, PoseR3.sub, PoseR3.add, PoseR3.inverse, PoseR3.boxplus,
        PoseR2.jacobian_self_ominus_other_wrt_other_compact, PoseR2.jacobian_self_ominus_other_wrt_other,
        PoseR2.jacobian_self_ominus_other_wrt_self, PoseR2.jacobian_boxplus, PoseR2.jacobian_self_oplus_point_wrt_self,
        PoseR2.jacobian_self_oplus_point_wrt_point, PoseR2.jacobian_inverse, PoseR2.jacobian_self_oplus_other_wrt_self,
        PoseR3.jacobian_self_ominus_other_wrt_other_compact, PoseR3.jacobian_self_ominus_other_wrt_other,
        PoseR3.jacobian_self_ominus_other_wrt_self, PoseR3.jacobian_boxplus, PoseR3.jacobian_self_oplus_point_wrt_self,
        PoseR3.jacobian_self_oplus_point_wrt_point, PoseR3.jacobian_inverse, PoseR3.jacobian_self_oplus_other_wrt_self,
        dotMV, dotMM, finSum_two, finSum_three, eye, negM]))

theorem odometry_R2_affine (z p0 p1 δ0 δ1 : Fin 2 → ℝ) (i : Fin 2) :
    EdgeOdometry.calc_error_R2 z (PoseR2.boxplus p0 δ0) (PoseR2.boxplus p1 δ1) i =
      EdgeOdometry.calc_error_R2 z p0 p1 i + dotMV (EdgeOdometry.calc_jacobians_R2_0 z p0 p1) δ0 i
        + dotMV (EdgeOdometry.calc_jacobians_R2_1 z p0 p1) δ1 i := by
  fin_cases i <;> affine_simp <;> ring

theorem odometry_R3_affine (z p0 p1 δ0 δ1 : Fin 3 → ℝ) (i : Fin 3) :
    EdgeOdometry.calc_error_R3 z (PoseR3.boxplus p0 δ0) (PoseR3.boxplus p1 δ1) i =
      EdgeOdometry.calc_error_R3 z p0 p1 i + dotMV (EdgeOdometry.calc_jacobians_R3_0 z p0 p1) δ0 i
        + dotMV (EdgeOdometry.calc_jacobians_R3_1 z p0 p1) δ1 i := by
  fin_cases i <;> affine_simp <;> ring

theorem landmark_R2_affine (z off p0 p1 δ0 δ1 : Fin 2 → ℝ) (i : Fin 2) :
    EdgeLandmark.calc_error_R2 z off (PoseR2.boxplus p0 δ0) (PoseR2.boxplus p1 δ1) i =
      EdgeLandmark.calc_error_R2 z off p0 p1 i + dotMV (EdgeLandmark.calc_jacobians_R2_0 z off p0 p1) δ0 i
        + dotMV (EdgeLandmark.calc_jacobians_R2_1 z off p0 p1) δ1 i := by
  fin_cases i <;> affine_simp <;> ring

theorem landmark_R3_affine (z off p0 p1 δ0 δ1 : Fin 3 → ℝ) (i : Fin 3) :
    EdgeLandmark.calc_error_R3 z off (PoseR3.boxplus p0 δ0) (PoseR3.boxplus p1 δ1) i =
      EdgeLandmark.calc_error_R3 z off p0 p1 i + dotMV (EdgeLandmark.calc_jacobians_R3_0 z off p0 p1) δ0 i
        + dotMV (EdgeLandmark.calc_jacobians_R3_1 z off p0 p1) δ1 i := by
  fin_cases i <;> affine_simp <;> ring

/-- the Jacobians do not depend on the linearisation point (so re-linearising changes nothing) -/
theorem odometry_R2_jacobians_const (z p0 p1 z' p0' p1' : Fin 2 → ℝ) :
    EdgeOdometry.calc_jacobians_R2_0 z p0 p1 = EdgeOdometry.calc_jacobians_R2_0 z' p0' p1' ∧
    EdgeOdometry.calc_jacobians_R2_1 z p0 p1 = EdgeOdometry.calc_jacobians_R2_1 z' p0' p1' := ⟨rfl, rfl⟩

theorem odometry_R3_jacobians_const (z p0 p1 z' p0' p1' : Fin 3 → ℝ) :
    EdgeOdometry.calc_jacobians_R3_0 z p0 p1 = EdgeOdometry.calc_jacobians_R3_0 z' p0' p1' ∧
    EdgeOdometry.calc_jacobians_R3_1 z p0 p1 = EdgeOdometry.calc_jacobians_R3_1 z' p0' p1' := ⟨rfl, rfl⟩

/-! ### 3. connected + fixed vertex + positive-definite information ⇒ no zero-energy increment -/

open Matrix in
/-- energy of an increment field `d` (one `n`-vector per vertex) on edges `E` with information `Ω e`: the relative
    increment `d j − d i` is what an R^n odometry / landmark edge sees (`J₀ = −I`, `J₁ = I`) -/
def energy {V : Type} {n : Nat} (E : List (V × V)) (Ω : V × V → Matrix (Fin n) (Fin n) ℝ) (d : V → Fin n → ℝ) : ℝ :=
  (E.map fun e => (d e.2 - d e.1) ⬝ᵥ (Ω e *ᵥ (d e.2 - d e.1))).sum

open Matrix in
theorem connected_fixed_pd {V : Type} {n : Nat} (E : List (V × V)) (Ω : V × V → Matrix (Fin n) (Fin n) ℝ)
    (hpd : ∀ e ∈ E, ∀ x : Fin n → ℝ, x ≠ 0 → 0 < x ⬝ᵥ (Ω e *ᵥ x))
    (d : V → Fin n → ℝ) (f : V) (hf : d f = 0)
    (hconn : ∀ v, Relation.ReflTransGen (fun a b => (a, b) ∈ E ∨ (b, a) ∈ E) f v)
    (hzero : energy E Ω d = 0) : ∀ v, d v = 0 := by
  -- every term of the energy is non-negative, so every term is zero, so d is constant along every edge
  have hterm : ∀ e ∈ E, d e.2 - d e.1 = 0 := by
    have hnn : ∀ e ∈ E, 0 ≤ (d e.2 - d e.1) ⬝ᵥ (Ω e *ᵥ (d e.2 - d e.1)) := by
      intro e he
      by_cases h0 : d e.2 - d e.1 = 0
      · simp [h0]
      · exact (hpd e he _ h0).le
    have hall : ∀ (l : List (V × V)), (∀ e ∈ l, e ∈ E) →
        (l.map fun e => (d e.2 - d e.1) ⬝ᵥ (Ω e *ᵥ (d e.2 - d e.1))).sum = 0 → ∀ e ∈ l, d e.2 - d e.1 = 0 := by
      intro l
      induction l with
      | nil => intro _ _ e he; simp at he
      | cons x xs ih =>
        intro hsub hsum e he
        rw [List.map_cons, List.sum_cons] at hsum
        have hx := hnn x (hsub x (by simp))
        have hxs : 0 ≤ (xs.map fun e => (d e.2 - d e.1) ⬝ᵥ (Ω e *ᵥ (d e.2 - d e.1))).sum :=
          List.sum_nonneg (by intro y hy; obtain ⟨e', he', rfl⟩ := List.mem_map.mp hy; exact hnn e' (hsub e' (by simp [he'])))
        have h1 : (d x.2 - d x.1) ⬝ᵥ (Ω x *ᵥ (d x.2 - d x.1)) = 0 := by linarith
        have h2 : (xs.map fun e => (d e.2 - d e.1) ⬝ᵥ (Ω e *ᵥ (d e.2 - d e.1))).sum = 0 := by linarith
        rcases List.mem_cons.mp he with rfl | he'
        · by_contra hne
          exact absurd h1 (ne_of_gt (hpd _ (hsub _ (by simp)) _ hne))
        · exact ih (fun e' he'' => hsub e' (by simp [he''])) h2 e he'
    exact hall E (fun e he => he) hzero
  intro v
  induction hconn v with
  | refl => exact hf
  | tail _ hab ih =>
    rcases hab with h | h
    · have := hterm _ h; simp only at this
      rw [sub_eq_zero.mp this]; exact ih
    · have := hterm _ h; simp only at this
      rw [← sub_eq_zero.mp this]; exact ih

/-! ### 4. the report once the χ² sequence is constant from the first step on -/

section report
open GraphSlam.Props.C12

/-- if every state from the first update on has the same χ² (true after the first Gauss–Newton step on an affine
    residual), `final_chi2` is that χ² -/
theorem final_chi2_constant_tail {K : Type} [ScalarF K] (tol eps : K) (c : Nat → K) (maxIter : Nat) (hm : 0 < maxIter)
    (hconst : ∀ i, 1 ≤ i → c i = c 1) :
    ∃ r, optimizeCtl tol eps maxIter c = .ok r ∧ r.finalChi2 = some (c 1) ∧ r.initialChi2 = some (c 0) := by
  obtain ⟨r, hr, _, _, hinit, hfin, _, _⟩ := report_fields tol eps c maxIter hm
  obtain ⟨hk1, _, _, _⟩ := stops_at_first tol eps c maxIter hm
  exact ⟨r, hr, by rw [hfin, hconst _ hk1], hinit⟩

/-- … and the run reports convergence (for `tol > 0`, `max_iter ≥ 2`, non-negative χ²) -/
theorem converged_constant_tail (tol eps : ℝ) (htol : 0 < tol) (heps : 0 < eps) (c : Nat → ℝ) (hc : ∀ i, 0 ≤ c i)
    (maxIter : Nat) (hm : 2 ≤ maxIter) (hconst : ∀ i, 1 ≤ i → c i = c 1) :
    ∃ r, optimizeCtl tol eps maxIter c = .ok r ∧ r.converged = true := by
  obtain ⟨r, hr, _, hconv, _, _, _, _⟩ := report_fields tol eps c maxIter (by omega)
  obtain ⟨hk1, hk2, _, hfire⟩ := stops_at_first tol eps c maxIter (by omega)
  refine ⟨r, hr, hconv.mpr ?_⟩
  by_cases hlt : endIndex tol eps c maxIter < maxIter
  · exact hfire hlt
  · have hk : endIndex tol eps c maxIter = maxIter := by omega
    rw [hk]
    have h1 : c (maxIter - 1) = c 1 := hconst _ (by omega)
    have h2 : c maxIter = c 1 := hconst _ (by omega)
    have hden : 0 < c 1 + eps := by have := hc 1; linarith
    have h4 : (ScalarF.gt tol (ScalarF.div (c 1 - c 1) (c 1 + eps))) = true := by
      rw [real_gt, real_div]; simp [htol]
    have h3 : (ScalarF.ge (c 1) (c 1)) = true := by rw [real_ge]
    show (ScalarF.ge (c (maxIter - 1)) (c maxIter) &&
      ScalarF.gt tol (ScalarF.div (c (maxIter - 1) - c maxIter) (c (maxIter - 1) + eps))) = true
    rw [h1, h2, Bool.and_eq_true]; exact ⟨h3, h4⟩

end report

end GraphSlam.Props.C04
