import GraphSlam.Theory.GaussNewton
import GraphSlam.Props.C12.Ctl
import GraphSlam.Real.Expr

/-!
# C05 — local convergence to a stationary point on SE(2)/SE(3): the provable part

A local-convergence theorem for undamped Gauss–Newton on arbitrary pose graphs (a Kantorovich-type bound with
graph-dependent constants) is not proved here, and "within calibrated bounds" is empirical by nature; that half is carried
by the exploration in `tools/search/optimizer.py::search_convergence`.  What is proved, about the same model:

* `hasFDerivAt_chi2` — if the stacked residual has Fréchet derivative `J` along box-plus (C01), then `χ²` has derivative
  `d ↦ 2 (J d)ᵀ Ω r`, i.e. gradient `2 b` with `b = JᵀΩr` exactly the vector the code assembles (C03);
* `fixed_point_iff_stationary` — with a positive-definite reduced Hessian the step is zero **iff** the free gradient
  vanishes: a state the iteration does not move is a first-order stationary point of χ², and vice versa;
* `zero_residual_fixed_point` — measurements that agree with the state (zero residual) give `b = 0` and a zero step: the
  noise-free ground truth is a fixed point with χ² = 0;
* `Theory.descent_nonpos` — the step is a descent direction of the quadratic model;
* `converged_means` — `converged = true` implies that at the reported end index χ² did not increase and the relative
  decrease is below `tol` (C12).
-/

namespace GraphSlam.Props.C05
open GraphSlam GraphSlam.Theory Matrix

variable {m N : Nat}

/-- χ² along a differentiable residual: derivative `d ↦ 2 (J d)ᵀ Ω r(x)` (symmetric `Ω`) -/
theorem hasFDerivAt_chi2 (Ω : Matrix (Fin m) (Fin m) ℝ) (hs : Ωᵀ = Ω) (r : (Fin N → ℝ) → (Fin m → ℝ))
    (J : Fin m → Fin N → ℝ) (x : Fin N → ℝ) (hr : HasFDerivAt r (toCLM J) x) :
    HasFDerivAt (fun v => chi2 Ω (r v))
      ((2 : ℝ) • ∑ a, (Ω *ᵥ r x) a • ((ContinuousLinearMap.proj (R := ℝ) (φ := fun _ : Fin m => ℝ) a).comp (toCLM J))) x := by
  have hcomp : ∀ a, HasFDerivAt (fun v => r v a)
      ((ContinuousLinearMap.proj (R := ℝ) (φ := fun _ : Fin m => ℝ) a).comp (toCLM J)) x :=
    fun a => (hasFDerivAt_pi'.mp hr) a
  -- χ² = Σ_a r_a · (Σ_b Ω_ab r_b)
  have hexp : (fun v => chi2 Ω (r v)) = fun v => ∑ a, r v a * ∑ b, Ω a b * r v b := by
    funext v; simp [chi2, dotProduct, mulVec]
  rw [hexp]
  have hinner : ∀ a, HasFDerivAt (fun v => ∑ b, Ω a b * r v b)
      (∑ b, Ω a b • ((ContinuousLinearMap.proj (R := ℝ) (φ := fun _ : Fin m => ℝ) b).comp (toCLM J))) x := by
    intro a
    apply HasFDerivAt.fun_sum
    intro b _
    exact (hcomp b).const_mul (Ω a b)
  have hsum := HasFDerivAt.fun_sum (u := Finset.univ) (fun a _ => (hcomp a).mul (hinner a))
  refine hsum.congr_fderiv ?_
  ext d
  simp only [ContinuousLinearMap.sum_apply, ContinuousLinearMap.add_apply, ContinuousLinearMap.smul_apply,
    ContinuousLinearMap.comp_apply, ContinuousLinearMap.proj_apply, smul_eq_mul, Finset.mul_sum, mulVec, dotProduct]
  rw [Finset.sum_add_distrib]
  have hswap : ∑ a, ∑ b, r x a * (Ω a b * toCLM J d b) = ∑ a, ∑ b, Ω a b * r x b * toCLM J d a := by
    rw [Finset.sum_comm]
    apply Finset.sum_congr rfl; intro a _
    apply Finset.sum_congr rfl; intro b _
    have : Ω b a = Ω a b := by have := congrFun (congrFun hs a) b; simpa [transpose] using this
    rw [this]; ring
  rw [hswap]
  have : ∀ a, ∑ b, Ω a b * r x b * toCLM J d a = (∑ b, Ω a b * r x b) * toCLM J d a := by
    intro a; rw [Finset.sum_mul]
  simp only [this]
  rw [← Finset.sum_add_distrib]
  apply Finset.sum_congr rfl; intro a _
  ring

/-- **fixed point ⇔ stationary** (positive-definite reduced Hessian) -/
theorem fixed_point_iff_stationary (J : Matrix (Fin m) (Fin N) ℝ) (Ω : Matrix (Fin m) (Fin m) ℝ) (hs : Ωᵀ = Ω)
    (e : Fin m → ℝ) (F : Fin N → Prop)
    (hpd : ∀ v : Fin N → ℝ, (∀ i, F i → v i = 0) → v ≠ 0 → 0 < chi2 Ω (J *ᵥ v))
    (dx : Fin N → ℝ) (h : SolvesAssembled J Ω e F dx) :
    dx = 0 ↔ ∀ i, ¬ F i → (gnB J Ω e) i = 0 := by
  constructor
  · intro h0; subst h0; exact zero_step_stationary J Ω e F h
  · intro hstat
    -- 0 solves the system too; both are minimisers; PD ⇒ unique
    have h0 := stationary_zero_step J Ω e F hstat
    have hmin : chi2 Ω (e + J *ᵥ dx) ≤ chi2 Ω (e + J *ᵥ (0 : Fin N → ℝ)) := by
      rw [chi2_gap J Ω hs e F dx h 0 (fun _ _ => rfl)]
      have hadm : ∀ i, F i → ((0 : Fin N → ℝ) - dx) i = 0 := by intro i hi; simp [h.fixed_zero i hi]
      by_cases hz : (0 : Fin N → ℝ) - dx = 0
      · rw [hz]; simp [chi2]
      · have := hpd _ hadm hz; linarith
    exact gn_unique J Ω hs e F hpd 0 h0 dx h.fixed_zero hmin

/-- zero residual ⇒ χ² = 0, `b = 0`, and the zero step solves the assembled system -/
theorem zero_residual_fixed_point (J : Matrix (Fin m) (Fin N) ℝ) (Ω : Matrix (Fin m) (Fin m) ℝ) (F : Fin N → Prop) :
    chi2 Ω (0 : Fin m → ℝ) = 0 ∧ gnB J Ω 0 = 0 ∧ SolvesAssembled J Ω 0 F 0 := by
  refine ⟨by simp [chi2], by simp [gnB], stationary_zero_step J Ω 0 F (by simp [gnB])⟩

/-- what `converged = True` certifies -/
theorem converged_means {K : Type} [ScalarF K] (tol eps : K) (c : Nat → K) (maxIter : Nat) (hm : 0 < maxIter) :
    ∃ r, Model.optimizeCtl tol eps maxIter c = .ok r ∧
      (r.converged = true →
        Model.le (c (C12.endIndex tol eps c maxIter)) (c (C12.endIndex tol eps c maxIter - 1)) = true ∧
        Model.lt (Model.relDiff eps (c (C12.endIndex tol eps c maxIter - 1)) (c (C12.endIndex tol eps c maxIter))) tol = true) := by
  obtain ⟨r, hr, _, hconv, _⟩ := C12.report_fields tol eps c maxIter hm
  refine ⟨r, hr, fun h => ?_⟩
  have := hconv.mp h
  simpa [C12.stop, Model.stopTest, Bool.and_eq_true] using this

end GraphSlam.Props.C05

namespace GraphSlam.Props.C05
open GraphSlam GraphSlam.Theory Matrix

/-- the Gauss–Newton step never increases the **linearised** χ² (take `d = 0` in `gn_minimises_fixed`) -/
theorem linearised_decrease {m N : Nat} (J : Matrix (Fin m) (Fin N) ℝ) (Ω : Matrix (Fin m) (Fin m) ℝ) (hs : Ωᵀ = Ω)
    (hpsd : ∀ v : Fin m → ℝ, 0 ≤ chi2 Ω v) (e : Fin m → ℝ) (F : Fin N → Prop) (dx : Fin N → ℝ)
    (h : SolvesAssembled J Ω e F dx) : chi2 Ω (e + J *ᵥ dx) ≤ chi2 Ω e := by
  have := gn_minimises_fixed J Ω hs hpsd e F dx h 0 (fun _ _ => rfl)
  simpa using this

end GraphSlam.Props.C05
