import GraphSlam.Props.C03.Assembled
import GraphSlam.Props.C09.SE2
import GraphSlam.Props.C02.Chi2
import GraphSlam.Theory.GaussNewton
import GraphSlam.Generated.Edges
import Mathlib.Tactic.NormNum

/-!
# C08 — results do not depend on representation choices of the same physical graph

* **edge order** (`perm_edges_*`): the accumulated dictionaries and χ² are the same for any permutation of the edge list;
* **2π** (`PoseSE2_new_two_pi`, C09): constructing an SE(2) pose from `θ + 2πk` gives exactly the same pose;
* **scaling / splitting information** (`pairEntry_scale`, `pairEntry_split`, `Theory.chi2_smul`, `Theory.solves_smul`,
  `Theory.chi2_info_add`): every Hessian/gradient contribution is linear in `Ω`, so two half-information copies of an edge
  contribute what the edge contributes and scaling all `Ω` by `c > 0` scales `H`, `b`, χ² by `c` and leaves the set of
  solutions of the assembled system unchanged;
* **quaternion sign**: negating the unit quaternion of a *pose vertex* or of an *offset* leaves every **landmark** error
  unchanged (`landmark_SE3_neg_*`); negating the quaternion of the measurement or of either vertex of an **odometry** edge
  leaves the translational error unchanged and **negates the rotational error** (`odometry_SE3_neg_*`), so χ² is unchanged
  when the information matrix has no translation–rotation cross terms (`chi2_flip_blockdiag`) — and **does change**
  otherwise: `neg_quat_cross_counterexample` (a genuine, recorded finding: known_findings.json
  `quat-sign:odometry:cross-terms`);
* **vertex order / ids**: the vertex list order only fixes the layout (C03 is proved for an arbitrary `Layout`; a
  permutation of the unknowns is a `Theory.reparam_solves` change of variables), ids are only looked up (C18).
-/

namespace GraphSlam.Props.C08
open GraphSlam GraphSlam.Gen GraphSlam.Model GraphSlam.Props.C03
set_option linter.unusedSimpArgs false
set_option linter.unusedVariables false
set_option maxHeartbeats 4000000
noncomputable section

/-! ### edge order -/

theorem perm_edges_hess (es es' : List (EdgeLin ℝ)) (hp : es.Perm es') (k : Nat × Nat) (s t : Nat) :
    hval (accumulate es).h k s t = hval (accumulate es').h k s t := by
  rw [accumulate_hess_spec, accumulate_hess_spec]
  exact (hp.map _).sum_eq

theorem perm_edges_grad (es es' : List (EdgeLin ℝ)) (hp : es.Perm es') (k t : Nat) :
    gval (accumulate es).g k t = gval (accumulate es').g k t := by
  rw [accumulate_grad_spec, accumulate_grad_spec]
  exact (hp.map _).sum_eq

theorem perm_edges_chi2 (es es' : List (EdgeLin ℝ)) (hp : es.Perm es') :
    (accumulate es).chi2 = (accumulate es').chi2 := by
  rw [accumulate_chi2, accumulate_chi2]
  exact (hp.map _).sum_eq

/-! ### linearity in the information matrix -/

theorem pairEntry_scale (e : EdgeLin ℝ) (c : ℝ) (x y : Nat × Nat × (Nat → Nat → ℝ)) (s t : Nat) :
    pairEntry { e with info := fun a b => c * e.info a b } x y s t = c * pairEntry e x y s t := by
  simp only [pairEntry_eq, Finset.mul_sum]
  apply Finset.sum_congr rfl; intro b _
  apply Finset.sum_congr rfl; intro a _
  ring

/-- two copies with half the information each contribute what the edge contributes -/
theorem pairEntry_split (e : EdgeLin ℝ) (x y : Nat × Nat × (Nat → Nat → ℝ)) (s t : Nat) :
    pairEntry { e with info := fun a b => e.info a b / 2 } x y s t + pairEntry { e with info := fun a b => e.info a b / 2 } x y s t
      = pairEntry e x y s t := by
  simp only [pairEntry_eq, ← Finset.sum_add_distrib]
  apply Finset.sum_congr rfl; intro b _
  apply Finset.sum_congr rfl; intro a _
  ring

/-! ### quaternion sign -/

/-- negate the quaternion part of an SE(3) pose: the same rotation -/
def negq (p : Fin 7 → ℝ) : Fin 7 → ℝ := fun i => match i with
  | 0 => p 0 | 1 => p 1 | 2 => p 2 | 3 => -p 3 | 4 => -p 4 | 5 => -p 5 | 6 => -p 6

/-- negate the rotational half of a 6-vector -/
def flipRot (e : Fin 6 → ℝ) : Fin 6 → ℝ := fun i => match i with
  | 0 => e 0 | 1 => e 1 | 2 => e 2 | 3 => -e 3 | 4 => -e 4 | 5 => -e 5

macro "q_tac" : tactic =>
  `(tactic| (funext i; fin_cases i <;>
      simp [EdgeLandmark.calc_error_SE3, EdgeOdometry.calc_error_SE3, PoseR3.to_compact, PoseR3.sub, PoseSE3.to_compact,
        PoseSE3.add_point, PoseSE3.inverse, PoseSE3.add, PoseSE3.sub, negq, flipRot] <;> ring))

theorem landmark_SE3_neg_pose (z : Fin 3 → ℝ) (off p0 : Fin 7 → ℝ) (l : Fin 3 → ℝ) :
    EdgeLandmark.calc_error_SE3 z off (negq p0) l = EdgeLandmark.calc_error_SE3 z off p0 l := by q_tac

theorem landmark_SE3_neg_offset (z : Fin 3 → ℝ) (off p0 : Fin 7 → ℝ) (l : Fin 3 → ℝ) :
    EdgeLandmark.calc_error_SE3 z (negq off) p0 l = EdgeLandmark.calc_error_SE3 z off p0 l := by q_tac

theorem odometry_SE3_neg_measurement (z p0 p1 : Fin 7 → ℝ) :
    EdgeOdometry.calc_error_SE3 (negq z) p0 p1 = flipRot (EdgeOdometry.calc_error_SE3 z p0 p1) := by q_tac

theorem odometry_SE3_neg_v0 (z p0 p1 : Fin 7 → ℝ) :
    EdgeOdometry.calc_error_SE3 z (negq p0) p1 = flipRot (EdgeOdometry.calc_error_SE3 z p0 p1) := by q_tac

theorem odometry_SE3_neg_v1 (z p0 p1 : Fin 7 → ℝ) :
    EdgeOdometry.calc_error_SE3 z p0 (negq p1) = flipRot (EdgeOdometry.calc_error_SE3 z p0 p1) := by q_tac

/-- negating both vertices of an odometry edge (e.g. the whole graph re-normalised) changes nothing -/
theorem odometry_SE3_neg_both (z p0 p1 : Fin 7 → ℝ) :
    EdgeOdometry.calc_error_SE3 z (negq p0) (negq p1) = EdgeOdometry.calc_error_SE3 z p0 p1 := by q_tac

/-- block-diagonal information (no translation–rotation cross terms) -/
def BlockDiagInfo (Ω : Fin 6 → Fin 6 → ℝ) : Prop :=
  ∀ i j : Fin 6, (i.val < 3 ∧ 3 ≤ j.val) ∨ (3 ≤ i.val ∧ j.val < 3) → Ω i j = 0

/-- **partial form of the quaternion-sign clause for odometry edges**: χ² is unchanged when `Ω` has no cross terms -/
theorem chi2_flip_blockdiag (e : Fin 6 → ℝ) (Ω : Fin 6 → Fin 6 → ℝ) (hbd : BlockDiagInfo Ω) :
    BaseEdge.calc_chi2 (flipRot e) Ω = BaseEdge.calc_chi2 e Ω := by
  have h03 := hbd 0 3 (by simp); have h04 := hbd 0 4 (by simp); have h05 := hbd 0 5 (by simp)
  have h13 := hbd 1 3 (by simp); have h14 := hbd 1 4 (by simp); have h15 := hbd 1 5 (by simp)
  have h23 := hbd 2 3 (by simp); have h24 := hbd 2 4 (by simp); have h25 := hbd 2 5 (by simp)
  have h30 := hbd 3 0 (by simp); have h31 := hbd 3 1 (by simp); have h32 := hbd 3 2 (by simp)
  have h40 := hbd 4 0 (by simp); have h41 := hbd 4 1 (by simp); have h42 := hbd 4 2 (by simp)
  have h50 := hbd 5 0 (by simp); have h51 := hbd 5 1 (by simp); have h52 := hbd 5 2 (by simp)
  simp only [BaseEdge.calc_chi2, dotVV, dotVM, transposeV, finSum_six, flipRot,
    h03, h04, h05, h13, h14, h15, h23, h24, h25, h30, h31, h32, h40, h41, h42, h50, h51, h52]
  ring

/-- **the clause is false with cross terms** (genuine finding, recorded): identity poses, a measurement translated by
    `(1,0,0)` and rotated by the unit quaternion `(3/5, 0, 0, 4/5)`, information `I₆` plus the single symmetric cross
    pair `Ω₀₃ = Ω₃₀ = 1/2`: χ²(z) = 34/25 + 3/5·... differs from χ²(−z) -/
theorem neg_quat_cross_counterexample :
    let z : Fin 7 → ℝ := fun i => match i with | 0 => 1 | 1 => 0 | 2 => 0 | 3 => 3/5 | 4 => 0 | 5 => 0 | 6 => 4/5
    let p : Fin 7 → ℝ := fun i => match i with | 6 => 1 | _ => 0
    let Ω : Fin 6 → Fin 6 → ℝ := fun i j => if i = j then 1 else if (i.val = 0 ∧ j.val = 3) ∨ (i.val = 3 ∧ j.val = 0) then 1/2 else 0
    BaseEdge.calc_chi2 (EdgeOdometry.calc_error_SE3 z p p) Ω ≠ BaseEdge.calc_chi2 (EdgeOdometry.calc_error_SE3 (negq z) p p) Ω := by
  intro z p Ω
  simp only [BaseEdge.calc_chi2, dotVV, dotVM, transposeV, finSum_six, EdgeOdometry.calc_error_SE3, PoseSE3.to_compact,
    PoseSE3.sub, negq, z, p, Ω]
  have h1 : ¬ ((3 : Fin 6) = 0) := by decide
  have h2 : ¬ ((0 : Fin 6) = 3) := by decide
  norm_num [h1, h2]

end
end GraphSlam.Props.C08
