import GraphSlam.Props.C16.NumJac
/-! C16 — umbrella. -/
