import GraphSlam.Props.C16.NumJac
import GraphSlam.Props.Tie.GraphPy
import GraphSlam.Props.C16.C2Landmark
import GraphSlam.Props.C16.C2OdometrySE2
import GraphSlam.Props.C16.FdExact
import GraphSlam.Props.C16.FdExactLandmark
import GraphSlam.Props.C16.NumGraph
import GraphSlam.Props.C16.NumGraphExample
import GraphSlam.Props.C16.NumGraphPerturb
import GraphSlam.Props.C16.NumModel
import GraphSlam.Props.C16.Perturb
import GraphSlam.Props.C16.Stationary
/-! C16 — umbrella. -/
