import GraphSlam.Props.C16.NumJac
import GraphSlam.Props.Tie.GraphPy
/-! C16 — umbrella. -/
