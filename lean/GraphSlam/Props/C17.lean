import GraphSlam.Props.C17.Lemmas
import Mathlib.Tactic.NormNum
import Mathlib.Analysis.InnerProductSpace.PiL2

/-!
# C17 — `equals` is a sound, total tolerance comparison

Theorems about `GraphSlam/Model/Equals.lean` (the model of `BasePose.equals`, `Vertex.equals`, `BaseEdge.equals`,
`EdgeLandmark.equals`, `Graph.equals`) instantiated at `ℝ`, for every tolerance `tol > 0`, every array length and every
list length.  `vnorm` is `np.linalg.norm` (`norm_eq`), `zipSub a b` is `a - b`.

Well-formed (`….WF`, decidable): a pose's array has the length of its class; an estimate is a well-formed pose, an array or a
scalar (not `None`); a landmark edge's offset is a well-formed pose (not `None`, not a plain array).

For each level `X ∈ {pose, vertex, edge, graph}`:
* `X_total`               — never raises on well-formed pairs;
* `X_equals_iff`          — returns `True` exactly when the discrete skeletons agree and every numeric block passes
                            `‖a − b‖ < tol·max(‖a‖, tol)`;
* `X_refl`, `X_small_pert`, `X_large_pert`, `X_discrete_diff_false` (and named special cases), `X_symm_outside_band`.
-/

namespace GraphSlam.Props.C17
open GraphSlam.Model.Cmp GraphSlam.Model.Equals

variable {tol : ℝ}

/-! ## what `vnorm` and the tolerance test are -/

/-- the model's `np.linalg.norm` is `√(Σ xᵢ²)` of the ravelled data -/
theorem vnorm_eq_sqrt_sum_sq (xs : List ℝ) : vnorm xs = Real.sqrt ((xs.map fun x => x * x).sum) := norm_eq xs

/-- … which is Mathlib's Euclidean norm of the vector (Frobenius norm of a matrix given by its entries) -/
theorem vnorm_eq_euclidean (xs : List ℝ) :
    vnorm xs = ‖(WithLp.toLp 2 (fun i : Fin xs.length => xs[i]) : EuclideanSpace ℝ (Fin xs.length))‖ := by
  rw [norm_eq, EuclideanSpace.norm_eq]
  congr 1
  have h : ∀ (l : List ℝ), (l.map fun x => x * x).sum = ∑ i : Fin l.length, l[i] * l[i] := by
    intro l
    rw [← List.sum_ofFn]
    congr 1
    apply List.ext_getElem <;> simp
  rw [h]
  apply Finset.sum_congr rfl
  intro i _
  simp [Real.norm_eq_abs, pow_two]

/-- the float expression `norm(a-b) / max(norm(a), tol) < tol` of the code decides `‖a−b‖ < tol·max(‖a‖,tol)`, and the
    `>= tol` form used for the information matrix decides its negation -/
theorem tolerance_test_iff (htol : 0 < tol) (a b : List ℝ) :
    (CmpScalar.lt (relDiff tol a (zipSub a b)) tol = true ↔ vnorm (zipSub a b) < tol * max (vnorm a) tol) ∧
    (CmpScalar.ge (relDiff tol a (zipSub a b)) tol = true ↔ tol * max (vnorm a) tol ≤ vnorm (zipSub a b)) :=
  ⟨lt_relDiff_iff htol a b, (ge_relDiff_iff htol a b).trans not_lt⟩

/-! ## poses -/

theorem pose_total (htol : 0 < tol) (a b : Pose ℝ) (ha : a.WF = true) (hb : b.WF = true) :
    ∃ r, poseEquals tol a b = .ok r :=
  (poseEquals_decides htol a b ha hb).total

theorem pose_equals_iff (htol : 0 < tol) (a b : Pose ℝ) (ha : a.WF = true) (hb : b.WF = true) :
    poseEquals tol a b = .ok true ↔
      a.kind = b.kind ∧ vnorm (zipSub a.comps b.comps) < tol * max (vnorm a.comps) tol :=
  (poseEquals_decides htol a b ha hb).true_iff

theorem pose_not_equals_iff (htol : 0 < tol) (a b : Pose ℝ) (ha : a.WF = true) (hb : b.WF = true) :
    poseEquals tol a b = .ok false ↔
      ¬ (a.kind = b.kind ∧ vnorm (zipSub a.comps b.comps) < tol * max (vnorm a.comps) tol) :=
  (poseEquals_decides htol a b ha hb).false_iff

/-- a pose equals itself (and hence any exact copy) -/
theorem pose_refl (htol : 0 < tol) (a : Pose ℝ) (ha : a.WF = true) : poseEquals tol a a = .ok true :=
  (pose_equals_iff htol a a ha ha).mpr ⟨rfl, near_self htol a.comps⟩

/-- a perturbation below the threshold is accepted -/
theorem pose_small_pert (htol : 0 < tol) (a b : Pose ℝ) (ha : a.WF = true) (hb : b.WF = true) (hk : a.kind = b.kind)
    (h : vnorm (zipSub a.comps b.comps) < tol * max (vnorm a.comps) tol) : poseEquals tol a b = .ok true :=
  (pose_equals_iff htol a b ha hb).mpr ⟨hk, h⟩

/-- "far below the tolerance": `‖a − b‖ < tol²` suffices whatever the size of `a` -/
theorem pose_far_below (htol : 0 < tol) (a b : Pose ℝ) (ha : a.WF = true) (hb : b.WF = true) (hk : a.kind = b.kind)
    (h : vnorm (zipSub a.comps b.comps) < tol * tol) : poseEquals tol a b = .ok true :=
  pose_small_pert htol a b ha hb hk (near_of_lt_sq htol _ _ h)

/-- a perturbation at or above the threshold is rejected -/
theorem pose_large_pert (htol : 0 < tol) (a b : Pose ℝ) (ha : a.WF = true) (hb : b.WF = true)
    (h : tol * max (vnorm a.comps) tol ≤ vnorm (zipSub a.comps b.comps)) : poseEquals tol a b = .ok false :=
  (pose_not_equals_iff htol a b ha hb).mpr (fun hc => absurd hc.2 (not_lt.mpr h))

/-- "far above the tolerance": `‖a − b‖ ≥ tol·(‖a‖ + tol)` -/
theorem pose_far_above (htol : 0 < tol) (a b : Pose ℝ) (ha : a.WF = true) (hb : b.WF = true)
    (h : tol * (vnorm a.comps + tol) ≤ vnorm (zipSub a.comps b.comps)) : poseEquals tol a b = .ok false :=
  (pose_not_equals_iff htol a b ha hb).mpr (fun hc => not_near_of_ge htol _ _ h hc.2)

/-- one numeric component off by at least the threshold is rejected -/
theorem pose_component_far_above (htol : 0 < tol) (a b : Pose ℝ) (ha : a.WF = true) (hb : b.WF = true)
    (i : Nat) (x y : ℝ) (hx : a.comps[i]? = some x) (hy : b.comps[i]? = some y)
    (h : tol * max (vnorm a.comps) tol ≤ |x - y|) : poseEquals tol a b = .ok false :=
  (pose_not_equals_iff htol a b ha hb).mpr (fun hc => not_near_of_component _ _ i x y hx hy h hc.2)

/-- poses of different classes are unequal — for any tolerance and any data, well-formed or not -/
theorem pose_kind_diff_false (a b : Pose ℝ) (hk : a.kind ≠ b.kind) : poseEquals tol a b = .ok false :=
  poseEquals_of_kind_ne a b hk

/-- both directions agree unless `‖a − b‖` lies between `tol·max(‖a‖,tol)` and `tol·max(‖b‖,tol)` -/
theorem pose_symm_outside_band (htol : 0 < tol) (a b : Pose ℝ) (ha : a.WF = true) (hb : b.WF = true)
    (hband : OutsideBand tol a.comps b.comps) : poseEquals tol a b = poseEquals tol b a := by
  refine (poseEquals_decides htol a b ha hb).eq_of_iff (poseEquals_decides htol b a hb ha) ?_
  unfold PoseClose
  rw [near_comm_of_outsideBand htol hband, eq_comm]

/-! ## vertices -/

theorem vertex_total (htol : 0 < tol) (v w : Vertex ℝ) (hv : v.WF = true) (hw : w.WF = true) :
    ∃ r, vertexEquals tol v w = .ok r :=
  (vertexEquals_decides htol v w hv hw).total

theorem vertex_equals_iff (htol : 0 < tol) (v w : Vertex ℝ) (hv : v.WF = true) (hw : w.WF = true) :
    vertexEquals tol v w = .ok true ↔
      v.id = w.id ∧ v.pose.kind = w.pose.kind ∧
        vnorm (zipSub v.pose.comps w.pose.comps) < tol * max (vnorm v.pose.comps) tol :=
  (vertexEquals_decides htol v w hv hw).true_iff

theorem vertex_not_equals_iff (htol : 0 < tol) (v w : Vertex ℝ) (hv : v.WF = true) (hw : w.WF = true) :
    vertexEquals tol v w = .ok false ↔ ¬ VertexClose tol v w :=
  (vertexEquals_decides htol v w hv hw).false_iff

theorem vertex_refl (htol : 0 < tol) (v : Vertex ℝ) (hv : v.WF = true) : vertexEquals tol v v = .ok true :=
  (vertex_equals_iff htol v v hv hv).mpr ⟨rfl, rfl, near_self htol _⟩

theorem vertex_small_pert (htol : 0 < tol) (v w : Vertex ℝ) (hv : v.WF = true) (hw : w.WF = true) (hid : v.id = w.id)
    (hk : v.pose.kind = w.pose.kind)
    (h : vnorm (zipSub v.pose.comps w.pose.comps) < tol * max (vnorm v.pose.comps) tol) :
    vertexEquals tol v w = .ok true :=
  (vertex_equals_iff htol v w hv hw).mpr ⟨hid, hk, h⟩

theorem vertex_large_pert (htol : 0 < tol) (v w : Vertex ℝ) (hv : v.WF = true) (hw : w.WF = true)
    (h : tol * max (vnorm v.pose.comps) tol ≤ vnorm (zipSub v.pose.comps w.pose.comps)) :
    vertexEquals tol v w = .ok false :=
  (vertex_not_equals_iff htol v w hv hw).mpr (fun hc => absurd hc.2.2 (not_lt.mpr h))

/-- different ids: unequal, whatever the poses -/
theorem vertex_id_diff_false (v w : Vertex ℝ) (hid : v.id ≠ w.id) : vertexEquals tol v w = .ok false := by
  unfold vertexEquals; rw [if_pos hid]

/-- different pose classes: unequal, whatever the data -/
theorem vertex_kind_diff_false (v w : Vertex ℝ) (hk : v.pose.kind ≠ w.pose.kind) : vertexEquals tol v w = .ok false := by
  unfold vertexEquals
  by_cases hid : v.id ≠ w.id
  · rw [if_pos hid]
  · rw [if_neg hid, if_pos hk]

theorem vertex_symm_outside_band (htol : 0 < tol) (v w : Vertex ℝ) (hv : v.WF = true) (hw : w.WF = true)
    (hband : OutsideBand tol v.pose.comps w.pose.comps) : vertexEquals tol v w = vertexEquals tol w v := by
  refine (vertexEquals_decides htol v w hv hw).eq_of_iff (vertexEquals_decides htol w v hw hv) ?_
  unfold VertexClose PoseClose
  rw [near_comm_of_outsideBand htol hband, eq_comm, eq_comm (a := v.pose.kind)]

/-! ## edges -/

/-- the discrete skeleton of two edges agrees: class, vertex ids (count, values, order), information shape, estimate
    class / shape, and for landmark edges offset class and offset id -/
def EdgeSameSkeleton (a b : Edge ℝ) : Prop :=
  a.cls = b.cls ∧ a.vertexIds = b.vertexIds ∧ a.infoShape = b.infoShape ∧ estSkel a.estimate = estSkel b.estimate ∧
    (a.cls = .landmark → offSkel a.offset = offSkel b.offset ∧ a.offsetId = b.offsetId)

/-- every numeric block of `b` passes the tolerance test against `a` -/
def EdgeNumsNear (tol : ℝ) (a b : Edge ℝ) : Prop :=
  Near tol a.info b.info ∧ Near tol (estNums a.estimate) (estNums b.estimate) ∧
    (a.cls = .landmark → Near tol (offNums a.offset) (offNums b.offset))

theorem edgeClose_iff (a b : Edge ℝ) : EdgeClose tol a b ↔ EdgeSameSkeleton a b ∧ EdgeNumsNear tol a b := by
  unfold EdgeClose BaseClose EstClose EdgeSameSkeleton EdgeNumsNear
  tauto

theorem edge_total (htol : 0 < tol) (a b : Edge ℝ) (ha : a.WF = true) (hb : b.WF = true) :
    ∃ r, edgeEquals tol a b = .ok r :=
  (edgeEquals_decides htol a b ha hb).total

theorem edge_equals_iff (htol : 0 < tol) (a b : Edge ℝ) (ha : a.WF = true) (hb : b.WF = true) :
    edgeEquals tol a b = .ok true ↔ EdgeSameSkeleton a b ∧ EdgeNumsNear tol a b :=
  (edgeEquals_decides htol a b ha hb).true_iff.trans (edgeClose_iff a b)

theorem edge_not_equals_iff (htol : 0 < tol) (a b : Edge ℝ) (ha : a.WF = true) (hb : b.WF = true) :
    edgeEquals tol a b = .ok false ↔ ¬ (EdgeSameSkeleton a b ∧ EdgeNumsNear tol a b) :=
  (edgeEquals_decides htol a b ha hb).false_iff.trans (not_congr (edgeClose_iff a b))

theorem edge_refl (htol : 0 < tol) (a : Edge ℝ) (ha : a.WF = true) : edgeEquals tol a a = .ok true :=
  (edge_equals_iff htol a a ha ha).mpr
    ⟨⟨rfl, rfl, rfl, rfl, fun _ => ⟨rfl, rfl⟩⟩, near_self htol _, near_self htol _, fun _ => near_self htol _⟩

theorem edge_small_pert (htol : 0 < tol) (a b : Edge ℝ) (ha : a.WF = true) (hb : b.WF = true)
    (hs : EdgeSameSkeleton a b) (hn : EdgeNumsNear tol a b) : edgeEquals tol a b = .ok true :=
  (edge_equals_iff htol a b ha hb).mpr ⟨hs, hn⟩

/-- some numeric block (information, estimate, offset) at or above its threshold: rejected -/
theorem edge_large_pert (htol : 0 < tol) (a b : Edge ℝ) (ha : a.WF = true) (hb : b.WF = true)
    (h : ¬ EdgeNumsNear tol a b) : edgeEquals tol a b = .ok false :=
  (edge_not_equals_iff htol a b ha hb).mpr (fun hc => h hc.2)

/-- any difference in the discrete skeleton: rejected, not raised -/
theorem edge_discrete_diff_false (htol : 0 < tol) (a b : Edge ℝ) (ha : a.WF = true) (hb : b.WF = true)
    (h : ¬ EdgeSameSkeleton a b) : edgeEquals tol a b = .ok false :=
  (edge_not_equals_iff htol a b ha hb).mpr (fun hc => h hc.1)

/-- different edge classes: unequal, in either direction, well-formed or not -/
theorem edge_class_diff_false (a b : Edge ℝ) (h : a.cls ≠ b.cls) : edgeEquals tol a b = .ok false := by
  unfold edgeEquals
  cases hc : a.cls with
  | landmark => simp only []; unfold landmarkEdgeEquals; rw [if_pos h]
  | odometry => simp only []; unfold baseEdgeEquals; rw [if_pos h]
  | custom k => simp only []; unfold baseEdgeEquals; rw [if_pos h]

/-- different vertex ids — another count, another id, another order -/
theorem edge_ids_diff_false (htol : 0 < tol) (a b : Edge ℝ) (ha : a.WF = true) (hb : b.WF = true)
    (h : a.vertexIds ≠ b.vertexIds) : edgeEquals tol a b = .ok false :=
  edge_discrete_diff_false htol a b ha hb (fun hc => h hc.2.1)

theorem edge_info_shape_diff_false (htol : 0 < tol) (a b : Edge ℝ) (ha : a.WF = true) (hb : b.WF = true)
    (h : a.infoShape ≠ b.infoShape) : edgeEquals tol a b = .ok false :=
  edge_discrete_diff_false htol a b ha hb (fun hc => h hc.2.2.1)

/-- estimates of different pose classes, pose vs plain value, or plain values of different shapes -/
theorem edge_estimate_kind_diff_false (htol : 0 < tol) (a b : Edge ℝ) (ha : a.WF = true) (hb : b.WF = true)
    (h : estSkel a.estimate ≠ estSkel b.estimate) : edgeEquals tol a b = .ok false :=
  edge_discrete_diff_false htol a b ha hb (fun hc => h hc.2.2.2.1)

theorem edge_offset_diff_false (htol : 0 < tol) (a b : Edge ℝ) (ha : a.WF = true) (hb : b.WF = true)
    (hc : a.cls = .landmark) (h : offSkel a.offset ≠ offSkel b.offset ∨ a.offsetId ≠ b.offsetId) :
    edgeEquals tol a b = .ok false :=
  edge_discrete_diff_false htol a b ha hb (fun hs => by
    rcases h with h | h
    · exact h (hs.2.2.2.2 hc).1
    · exact h (hs.2.2.2.2 hc).2)

/-- every numeric block is outside the band between the two directions' thresholds -/
def EdgeOutsideBand (tol : ℝ) (a b : Edge ℝ) : Prop :=
  OutsideBand tol a.info b.info ∧ OutsideBand tol (estNums a.estimate) (estNums b.estimate) ∧
    (a.cls = .landmark → OutsideBand tol (offNums a.offset) (offNums b.offset))

theorem edgeClose_comm (htol : 0 < tol) (a b : Edge ℝ) (hband : EdgeOutsideBand tol a b) :
    EdgeClose tol a b ↔ EdgeClose tol b a := by
  obtain ⟨b1, b2, b3⟩ := hband
  unfold EdgeClose BaseClose EstClose
  constructor
  · rintro ⟨⟨h1, h2, h3, h4, h5, h6⟩, h7⟩
    refine ⟨⟨h1.symm, h2.symm, h3.symm, (near_comm_of_outsideBand htol b1).mp h4, h5.symm,
      (near_comm_of_outsideBand htol b2).mp h6⟩, fun hl => ?_⟩
    have hl' : a.cls = .landmark := h1.trans hl
    obtain ⟨g1, g2, g3⟩ := h7 hl'
    exact ⟨g1.symm, (near_comm_of_outsideBand htol (b3 hl')).mp g2, g3.symm⟩
  · rintro ⟨⟨h1, h2, h3, h4, h5, h6⟩, h7⟩
    refine ⟨⟨h1.symm, h2.symm, h3.symm, (near_comm_of_outsideBand htol b1).mpr h4, h5.symm,
      (near_comm_of_outsideBand htol b2).mpr h6⟩, fun hl => ?_⟩
    have hl' : b.cls = .landmark := h1.trans hl
    obtain ⟨g1, g2, g3⟩ := h7 hl'
    exact ⟨g1.symm, (near_comm_of_outsideBand htol (b3 hl)).mpr g2, g3.symm⟩

theorem edge_symm_outside_band (htol : 0 < tol) (a b : Edge ℝ) (ha : a.WF = true) (hb : b.WF = true)
    (hband : EdgeOutsideBand tol a b) : edgeEquals tol a b = edgeEquals tol b a :=
  (edgeEquals_decides htol a b ha hb).eq_of_iff (edgeEquals_decides htol b a hb ha) (edgeClose_comm htol a b hband)

/-! ## graphs -/

theorem graph_total (htol : 0 < tol) (g h : Graph ℝ) (hg : g.WF = true) (hh : h.WF = true) :
    ∃ r, graphEquals tol g h = .ok r :=
  (graphEquals_decides htol g h hg hh).total

/-- equal exactly when both lists have the same lengths and agree position by position -/
theorem graph_equals_iff (htol : 0 < tol) (g h : Graph ℝ) (hg : g.WF = true) (hh : h.WF = true) :
    graphEquals tol g h = .ok true ↔
      List.Forall₂ (fun a b => EdgeSameSkeleton a b ∧ EdgeNumsNear tol a b) g.edges h.edges ∧
      List.Forall₂ (VertexClose tol) g.vertices h.vertices := by
  rw [(graphEquals_decides htol g h hg hh).true_iff]
  unfold GraphClose
  have : List.Forall₂ (EdgeClose tol) g.edges h.edges ↔
      List.Forall₂ (fun a b => EdgeSameSkeleton a b ∧ EdgeNumsNear tol a b) g.edges h.edges :=
    ⟨fun hf => hf.imp (fun a b hab => (edgeClose_iff a b).mp hab), fun hf => hf.imp (fun a b hab => (edgeClose_iff a b).mpr hab)⟩
  rw [this]

theorem graph_not_equals_iff (htol : 0 < tol) (g h : Graph ℝ) (hg : g.WF = true) (hh : h.WF = true) :
    graphEquals tol g h = .ok false ↔ ¬ GraphClose tol g h :=
  (graphEquals_decides htol g h hg hh).false_iff

theorem graph_refl (htol : 0 < tol) (g : Graph ℝ) (hg : g.WF = true) : graphEquals tol g g = .ok true := by
  rw [(graphEquals_decides htol g g hg hg).true_iff]
  refine ⟨List.forall₂_same.mpr (fun e he => ?_), List.forall₂_same.mpr (fun v hv => ?_)⟩
  · exact (edgeEquals_decides htol e e (Graph.wf_edges hg e he) (Graph.wf_edges hg e he)).true_iff.mp
      (edge_refl htol e (Graph.wf_edges hg e he))
  · exact (vertexEquals_decides htol v v (Graph.wf_vertices hg v hv) (Graph.wf_vertices hg v hv)).true_iff.mp
      (vertex_refl htol v (Graph.wf_vertices hg v hv))

/-- all edges and vertices pairwise within tolerance (same skeletons): equal -/
theorem graph_small_pert (htol : 0 < tol) (g h : Graph ℝ) (hg : g.WF = true) (hh : h.WF = true)
    (he : List.Forall₂ (fun a b => EdgeSameSkeleton a b ∧ EdgeNumsNear tol a b) g.edges h.edges)
    (hv : List.Forall₂ (VertexClose tol) g.vertices h.vertices) : graphEquals tol g h = .ok true :=
  (graph_equals_iff htol g h hg hh).mpr ⟨he, hv⟩

/-- different numbers of edges or of vertices: unequal, well-formed or not -/
theorem graph_length_diff_false (g h : Graph ℝ)
    (hl : g.edges.length ≠ h.edges.length ∨ g.vertices.length ≠ h.vertices.length) : graphEquals tol g h = .ok false :=
  graphEquals_of_length_ne g h hl

private lemma forall₂_getElem? {α : Type} {R : α → α → Prop} {xs ys : List α} (hf : List.Forall₂ R xs ys) (i : Nat)
    (x y : α) (hx : xs[i]? = some x) (hy : ys[i]? = some y) : R x y := by
  induction hf generalizing i with
  | nil => simp at hx
  | cons hxy _ ih =>
    cases i with
    | zero => simp only [List.getElem?_cons_zero, Option.some.injEq] at hx hy; subst hx; subst hy; exact hxy
    | succ k => simp only [List.getElem?_cons_succ] at hx hy; exact ih k hx hy

/-- the edges at some position differ (in skeleton or beyond tolerance) — this covers a reordering of the edge list,
    a changed id, a far-off number: unequal -/
theorem graph_edge_diff_false (htol : 0 < tol) (g h : Graph ℝ) (hg : g.WF = true) (hh : h.WF = true) (i : Nat)
    (a b : Edge ℝ) (ha : g.edges[i]? = some a) (hb : h.edges[i]? = some b)
    (hne : ¬ (EdgeSameSkeleton a b ∧ EdgeNumsNear tol a b)) : graphEquals tol g h = .ok false :=
  (graph_not_equals_iff htol g h hg hh).mpr
    (fun hc => hne ((edgeClose_iff a b).mp (forall₂_getElem? hc.1 i a b ha hb)))

/-- the vertices at some position differ (id, pose class, or pose beyond tolerance): unequal -/
theorem graph_vertex_diff_false (htol : 0 < tol) (g h : Graph ℝ) (hg : g.WF = true) (hh : h.WF = true) (i : Nat)
    (v w : Vertex ℝ) (hv : g.vertices[i]? = some v) (hw : h.vertices[i]? = some w)
    (hne : ¬ VertexClose tol v w) : graphEquals tol g h = .ok false :=
  (graph_not_equals_iff htol g h hg hh).mpr (fun hc => hne (forall₂_getElem? hc.2 i v w hv hw))

private lemma forall₂_flip_iff {α : Type} {R : α → α → Prop} (xs ys : List α)
    (h : ∀ p ∈ xs.zip ys, R p.1 p.2 ↔ R p.2 p.1) : List.Forall₂ R xs ys ↔ List.Forall₂ R ys xs := by
  induction xs generalizing ys with
  | nil => cases ys <;> simp
  | cons x xs ih =>
    cases ys with
    | nil => simp
    | cons y ys =>
      simp only [List.forall₂_cons]
      rw [h (x, y) (by simp), ih ys (fun p hp => h p (by simp [hp]))]

/-- both directions agree when every aligned pair of numeric blocks is outside its band -/
theorem graph_symm_outside_band (htol : 0 < tol) (g h : Graph ℝ) (hg : g.WF = true) (hh : h.WF = true)
    (hbe : ∀ p ∈ g.edges.zip h.edges, EdgeOutsideBand tol p.1 p.2)
    (hbv : ∀ p ∈ g.vertices.zip h.vertices, OutsideBand tol p.1.pose.comps p.2.pose.comps) :
    graphEquals tol g h = graphEquals tol h g := by
  refine (graphEquals_decides htol g h hg hh).eq_of_iff (graphEquals_decides htol h g hh hg) ?_
  unfold GraphClose
  rw [forall₂_flip_iff g.edges h.edges (fun p hp => edgeClose_comm htol p.1 p.2 (hbe p hp)),
    forall₂_flip_iff g.vertices h.vertices (fun p hp => by
      unfold VertexClose PoseClose
      rw [near_comm_of_outsideBand htol (hbv p hp), eq_comm, eq_comm (a := p.1.pose.kind)])]

/-! ## the hypotheses are satisfiable; concrete instances -/

/-- a well-formed graph with an SE(2) odometry edge, an SE(2)→R² landmark edge with offset, and a custom scalar edge -/
noncomputable def exampleGraph : Graph ℝ :=
  { edges := [
      { cls := .odometry, vertexIds := [1, 2], infoShape := [3, 3], info := [1, 0, 0, 0, 1, 0, 0, 0, 1],
        estimate := .pose ⟨.se2, [1, 2, 1 / 2]⟩, offset := .none, offsetId := none },
      { cls := .landmark, vertexIds := [2, 3], infoShape := [2, 2], info := [1, 0, 0, 1],
        estimate := .pose ⟨.r2, [3, 4]⟩, offset := .pose ⟨.se2, [0, 0, 0]⟩, offsetId := some 0 },
      { cls := .custom 0, vertexIds := [1], infoShape := [1, 1], info := [2],
        estimate := .scalar 5, offset := .none, offsetId := none }],
    vertices := [⟨1, ⟨.se2, [0, 0, 0]⟩⟩, ⟨2, ⟨.se2, [1, 2, 1 / 2]⟩⟩, ⟨3, ⟨.r2, [4, 6]⟩⟩] }

example : exampleGraph.WF = true := by
  simp [exampleGraph, Graph.WF, Edge.WF, Estimate.WF, Vertex.WF, Pose.WF, PoseKind.dim]

example : graphEquals (1 / 1000000) exampleGraph exampleGraph = .ok true :=
  graph_refl (by norm_num) _ (by simp [exampleGraph, Graph.WF, Edge.WF, Estimate.WF, Vertex.WF, Pose.WF, PoseKind.dim])

/-- a genuinely perturbed pose below the threshold (`tol = 1/2`, `‖a − b‖ = 1/10 < 1/4`) -/
example : poseEquals (1 / 2 : ℝ) ⟨.r2, [3, 4]⟩ ⟨.r2, [3, 4 + 1 / 10]⟩ = .ok true := by
  refine pose_far_below (by norm_num) _ _ (by simp [Pose.WF, PoseKind.dim]) (by simp [Pose.WF, PoseKind.dim]) rfl ?_
  rw [norm_eq]
  simp only [zipSub, List.zipWith_cons_cons, List.zipWith_nil_right, List.map_cons, List.map_nil, List.sum_cons,
    List.sum_nil]
  rw [Real.sqrt_lt' (by norm_num)]
  norm_num

/-- the former defect (known_findings.json, C17): an R³ point and an SE(2) pose with the same three numbers are unequal,
    and comparing them does not raise -/
example : poseEquals (1 / 1000000 : ℝ) ⟨.r3, [1, 2, 1 / 2]⟩ ⟨.se2, [1, 2, 1 / 2]⟩ = .ok false :=
  pose_kind_diff_false _ _ (by decide)

/-- well-formedness matters: two landmark edges whose offset is `None` raise `AttributeError` -/
theorem edge_none_offset_raises (tol : ℝ) (e : Edge ℝ) (hc : e.cls = .landmark) (ho : e.offset = .none) :
    edgeEquals tol e e = .error .attributeError := by
  unfold edgeEquals; rw [hc]; simp only []
  unfold landmarkEdgeEquals
  rw [if_neg (by simp), ho]
  simp [Offset.sameType]

/-- well-formedness matters: a `None` estimate compared with a scalar raises `TypeError` -/
theorem edge_none_estimate_raises (tol : ℝ) (htol : 0 < tol) (e : Edge ℝ) (hc : e.cls ≠ .landmark)
    (he : e.estimate = .none) : edgeEquals tol e e = .error .typeError := by
  have h1 : edgeEquals tol e e = baseEdgeEquals tol e e := by
    unfold edgeEquals
    cases hcls : e.cls with
    | landmark => exact absurd hcls hc
    | odometry => rfl
    | custom k => rfl
  rw [h1]
  unfold baseEdgeEquals
  have hn : ¬ (CmpScalar.ge (relDiff tol e.info (zipSub e.info e.info)) tol = true) := by
    rw [ge_relDiff_iff htol]; exact not_not.mpr (near_self htol _)
  simp only [ne_eq, not_true_eq_false, if_false, idsDiffer_false_iff _ _ rfl |>.mpr rfl, Bool.false_eq_true,
    decide_false, Bool.false_or, hn, he]
  simp [estimateEquals, plainEstimateEquals, Estimate.shape, Estimate.data?]

end GraphSlam.Props.C17
