import GraphSlam.Model.G2O

/-!
# C14 helper lemmas: the loop over the lines (`parseLines`), for files of every length
-/

namespace GraphSlam.Props.C14
open GraphSlam.Model.G2O

variable {A : Type}

/-- what the loop produced apart from the log -/
def core (r : PState A × Option PyErr) : List (Param A) × List (Vertex A) × List (Edge A) × Option PyErr :=
  (r.1.params, r.1.vertices, r.1.edges, r.2)

/-- the same state with another log -/
def withLog (st : PState A) (w : List LogRec) : PState A := { st with warnings := w }

@[simp] theorem withLog_withLog (st : PState A) (a b : List LogRec) : withLog (withLog st a) b = withLog st b := rfl
@[simp] theorem withLog_params (st : PState A) (a : List LogRec) : (withLog st a).params = st.params := rfl
@[simp] theorem withLog_vertices (st : PState A) (a : List LogRec) : (withLog st a).vertices = st.vertices := rfl
@[simp] theorem withLog_edges (st : PState A) (a : List LogRec) : (withLog st a).edges = st.edges := rfl
@[simp] theorem withLog_warnings (st : PState A) (a : List LogRec) : (withLog st a).warnings = a := rfl
@[simp] theorem withLog_self (st : PState A) : withLog st st.warnings = st := rfl

/-- the record(s) one line adds to the log -/
def logOf (l : Str) : LineOut A → List LogRec
  | .unsupported => [⟨.graph, unsupportedMsg l⟩]
  | _ => []

/-- the object one line adds -/
def pushObj (st : PState A) : LineOut A → PState A
  | .vertex v => { st with vertices := st.vertices ++ [v] }
  | .edge e => { st with edges := st.edges ++ [e] }
  | .param p => { st with params := dictSet st.params p }
  | .unsupported => st

theorem push_eq (st : PState A) (l : Str) (out : LineOut A) :
    st.push l out = withLog (pushObj st out) (st.warnings ++ logOf l out) := by
  cases out <;> simp [PState.push, pushObj, logOf, withLog]

theorem pushObj_withLog (st : PState A) (w : List LogRec) (out : LineOut A) :
    pushObj (withLog st w) out = withLog (pushObj st out) w := by
  cases out <;> rfl

@[simp] theorem pushObj_warnings (st : PState A) (out : LineOut A) : (pushObj st out).warnings = st.warnings := by
  cases out <;> rfl

theorem parseLines_nil (env : Env A) (customs : List (CustomType A)) (st : PState A) :
    parseLines env customs st [] = (st, none) := rfl

/-- blank line: nothing happens -/
theorem parseLines_blank (env : Env A) (customs : List (CustomType A)) (st : PState A) (l : Str) (ls : List Str)
    (h : isBlank l = true) : parseLines env customs st (l :: ls) = parseLines env customs st ls := by
  simp [parseLines, h]

theorem parseLines_error (env : Env A) (customs : List (CustomType A)) (st : PState A) (l : Str) (ls : List Str) (e : PyErr)
    (hb : isBlank l = false) (h : parseLine env customs st.params l = .error e) :
    parseLines env customs st (l :: ls) = (st, some e) := by
  simp [parseLines, hb, h]

theorem parseLines_ok (env : Env A) (customs : List (CustomType A)) (st : PState A) (l : Str) (ls : List Str) (out : LineOut A)
    (hb : isBlank l = false) (h : parseLine env customs st.params l = .ok out) :
    parseLines env customs st (l :: ls) = parseLines env customs (st.push l out) ls := by
  simp [parseLines, hb, h]

/-- the log never influences the objects or the exception, and is only appended to -/
theorem parseLines_log (env : Env A) (customs : List (CustomType A)) (st : PState A) (w : List LogRec) (ls : List Str) :
    parseLines env customs (withLog st w) ls =
      (withLog (parseLines env customs (withLog st []) ls).1 (w ++ (parseLines env customs (withLog st []) ls).1.warnings),
       (parseLines env customs (withLog st []) ls).2) := by
  induction ls generalizing st w with
  | nil => simp [parseLines_nil]
  | cons l ls ih =>
    cases hb : isBlank l with
    | true => rw [parseLines_blank _ _ _ _ _ hb, parseLines_blank _ _ _ _ _ hb]; exact ih st w
    | false =>
      cases hpl : parseLine env customs st.params l with
      | error e =>
        rw [parseLines_error _ _ (withLog st w) _ _ e hb (by simpa using hpl),
          parseLines_error _ _ (withLog st []) _ _ e hb (by simpa using hpl)]
        simp
      | ok out =>
        rw [parseLines_ok _ _ (withLog st w) _ _ out hb (by simpa using hpl),
          parseLines_ok _ _ (withLog st []) _ _ out hb (by simpa using hpl)]
        rw [push_eq, push_eq, pushObj_withLog, pushObj_withLog]
        simp only [withLog_withLog, withLog_warnings, List.nil_append]
        rw [ih (pushObj st out) (w ++ logOf l out), ih (pushObj st out) (logOf l out)]
        simp [List.append_assoc]

/-- the records a run appends to the log -/
def newLog (env : Env A) (customs : List (CustomType A)) (st : PState A) (ls : List Str) : List LogRec :=
  (parseLines env customs (withLog st []) ls).1.warnings

theorem parseLines_warnings (env : Env A) (customs : List (CustomType A)) (st : PState A) (ls : List Str) :
    (parseLines env customs st ls).1.warnings = st.warnings ++ newLog env customs st ls := by
  have := parseLines_log env customs st st.warnings ls
  rw [withLog_self] at this
  rw [this]; rfl

theorem core_withLog (env : Env A) (customs : List (CustomType A)) (st : PState A) (w : List LogRec) (ls : List Str) :
    core (parseLines env customs (withLog st w) ls) = core (parseLines env customs st ls) := by
  have h1 := parseLines_log env customs st w ls
  have h2 := parseLines_log env customs st st.warnings ls
  rw [withLog_self] at h2
  rw [h1, h2]; rfl

theorem newLog_withLog (env : Env A) (customs : List (CustomType A)) (st : PState A) (w : List LogRec) (ls : List Str) :
    newLog env customs (withLog st w) ls = newLog env customs st ls := by
  simp [newLog]

/-- non-blank unrecognised line: exactly one warning, nothing else changes -/
theorem parseLines_unsupported (env : Env A) (customs : List (CustomType A)) (st : PState A) (l : Str) (ls : List Str)
    (hb : isBlank l = false) (h : parseLine env customs st.params l = .ok .unsupported) :
    parseLines env customs st (l :: ls) = parseLines env customs (withLog st (st.warnings ++ [⟨.graph, unsupportedMsg l⟩])) ls := by
  rw [parseLines_ok _ _ _ _ _ _ hb h, push_eq]; rfl

/-! ### removing / inserting skipped lines -/

/-- `Thinned a b d`: `b` is `a` with some blank lines and some non-blank unrecognised lines removed; `d` lists the
removed non-blank ones in order.  (Read from `b` to `a`: such lines inserted anywhere.) -/
inductive Thinned (env : Env A) (customs : List (CustomType A)) : List Str → List Str → List Str → Prop
  | nil : Thinned env customs [] [] []
  | keep (l : Str) {a b d : List Str} : Thinned env customs a b d → Thinned env customs (l :: a) (l :: b) d
  | dropBlank (l : Str) {a b d : List Str} : isBlank l = true → Thinned env customs a b d → Thinned env customs (l :: a) b d
  | dropJunk (l : Str) {a b d : List Str} : isBlank l = false →
      (∀ params, parseLine env customs params l = .ok .unsupported) → Thinned env customs a b d → Thinned env customs (l :: a) b (l :: d)

theorem thinned_core (env : Env A) (customs : List (CustomType A)) {a b d : List Str} (h : Thinned env customs a b d) (st : PState A) :
    core (parseLines env customs st a) = core (parseLines env customs st b) := by
  induction h generalizing st with
  | nil => rfl
  | keep l _ ih =>
    cases hb : isBlank l with
    | true => rw [parseLines_blank _ _ _ _ _ hb, parseLines_blank _ _ _ _ _ hb]; exact ih st
    | false =>
      cases hpl : parseLine env customs st.params l with
      | error e => rw [parseLines_error _ _ _ _ _ e hb hpl, parseLines_error _ _ _ _ _ e hb hpl]
      | ok out => rw [parseLines_ok _ _ _ _ _ out hb hpl, parseLines_ok _ _ _ _ _ out hb hpl]; exact ih _
  | dropBlank l hb _ ih => rw [parseLines_blank _ _ _ _ _ hb]; exact ih st
  | dropJunk l hb hj _ ih =>
    rw [parseLines_unsupported _ _ _ _ _ hb (hj _), core_withLog]; exact ih st

theorem thinned_log (env : Env A) (customs : List (CustomType A)) {a b d : List Str} (h : Thinned env customs a b d) (st : PState A)
    (hok : (parseLines env customs st a).2 = none) :
    (newLog env customs st a).Perm (newLog env customs st b ++ d.map fun l => ⟨.graph, unsupportedMsg l⟩) := by
  induction h generalizing st with
  | nil => simp [newLog, parseLines_nil]
  | @keep l a b d _ ih =>
    unfold newLog at *
    cases hb : isBlank l with
    | true =>
      rw [parseLines_blank _ _ _ _ _ hb] at hok ⊢
      rw [parseLines_blank _ _ _ _ _ hb]
      exact ih st hok
    | false =>
      cases hpl : parseLine env customs st.params l with
      | error e => rw [parseLines_error _ _ _ _ _ e hb hpl] at hok; simp at hok
      | ok out =>
        have hpl' : parseLine env customs (withLog st []).params l = .ok out := by simpa using hpl
        rw [parseLines_ok _ _ _ _ _ out hb hpl] at hok
        rw [parseLines_ok _ _ _ _ _ out hb hpl', parseLines_ok _ _ _ _ _ out hb hpl']
        rw [push_eq, pushObj_withLog]
        simp only [withLog_withLog, withLog_warnings, List.nil_append]
        rw [parseLines_log env customs (pushObj st out) (logOf l out) a, parseLines_log env customs (pushObj st out) (logOf l out) b]
        simp only [withLog_warnings, List.append_assoc]
        apply List.Perm.append_left
        have hok' : (parseLines env customs (pushObj st out) a).2 = none := by
          have := congrArg (fun r => r.2.2.2) (core_withLog env customs (pushObj st out) (st.warnings ++ logOf l out) a)
          rw [push_eq] at hok
          simpa [core] using this.symm.trans hok
        exact ih (pushObj st out) hok'
  | dropBlank l hb _ ih =>
    unfold newLog at *
    rw [parseLines_blank _ _ _ _ _ hb] at hok ⊢
    exact ih st hok
  | @dropJunk l a b d hb hj _ ih =>
    have hok' : (parseLines env customs st a).2 = none := by
      rw [parseLines_unsupported _ _ _ _ _ hb (hj _)] at hok
      have := congrArg (fun r => r.2.2.2) (core_withLog env customs st (st.warnings ++ [⟨.graph, unsupportedMsg l⟩]) a)
      simpa [core] using this.symm.trans hok
    have := ih st hok'
    unfold newLog at *
    rw [parseLines_unsupported _ _ _ _ _ hb (by simpa using hj _)]
    simp only [withLog_withLog, withLog_warnings, List.nil_append]
    rw [parseLines_log]
    simp only [withLog_warnings, List.map_cons]
    refine (List.Perm.cons _ this).trans ?_
    exact (List.perm_middle).symm

/-! ### one object per line, in file order -/

/-- the dictionary after one more line -/
def paramsStep (ps : List (Param A)) : LineOut A → List (Param A)
  | .param p => dictSet ps p
  | _ => ps

def vertexOf : LineOut A → Option (Vertex A) | .vertex v => some v | _ => none
def edgeOf : LineOut A → Option (Edge A) | .edge e => some e | _ => none

/-- `Trace ps ls outs`: reading the lines `ls` with the parameter dictionary `ps` raises nothing, and `outs` lists, in
file order, every non-blank line with the one thing it produced (the dictionary seen by a line is the one built from
the parameter lines before it) -/
inductive Trace (env : Env A) (customs : List (CustomType A)) : List (Param A) → List Str → List (Str × LineOut A) → Prop
  | nil (ps : List (Param A)) : Trace env customs ps [] []
  | blank {ps : List (Param A)} {l : Str} {ls : List Str} {outs : List (Str × LineOut A)} :
      isBlank l = true → Trace env customs ps ls outs → Trace env customs ps (l :: ls) outs
  | line {ps : List (Param A)} {l : Str} {ls : List Str} {out : LineOut A} {outs : List (Str × LineOut A)} :
      isBlank l = false → parseLine env customs ps l = .ok out → Trace env customs (paramsStep ps out) ls outs →
      Trace env customs ps (l :: ls) ((l, out) :: outs)

/-- the loop state after the lines recorded in `outs` -/
def assemble (st : PState A) (outs : List (Str × LineOut A)) : PState A :=
  ⟨outs.foldl (fun ps o => paramsStep ps o.2) st.params,
   st.vertices ++ outs.filterMap (fun o => vertexOf o.2),
   st.edges ++ outs.filterMap (fun o => edgeOf o.2),
   st.warnings ++ outs.flatMap (fun o => logOf o.1 o.2)⟩

theorem assemble_cons (st : PState A) (l : Str) (out : LineOut A) (outs : List (Str × LineOut A)) :
    assemble st ((l, out) :: outs) = assemble (st.push l out) outs := by
  cases out <;> simp [assemble, PState.push, paramsStep, vertexOf, edgeOf, logOf, List.append_assoc]

theorem push_params (st : PState A) (l : Str) (out : LineOut A) : (st.push l out).params = paramsStep st.params out := by
  cases out <;> rfl

theorem parseLines_of_trace (env : Env A) (customs : List (CustomType A)) {ps : List (Param A)} {ls : List Str}
    {outs : List (Str × LineOut A)} (h : Trace env customs ps ls outs) (st : PState A) (hst : st.params = ps) :
    parseLines env customs st ls = (assemble st outs, none) := by
  induction h generalizing st with
  | nil ps => cases st; simp [parseLines_nil, assemble]
  | blank hb _ ih => rw [parseLines_blank _ _ _ _ _ hb]; exact ih st hst
  | @line ps l ls out outs hb hp _ ih =>
    subst hst
    rw [parseLines_ok _ _ _ _ _ out hb hp, assemble_cons]
    exact ih _ (push_params st l out)

theorem trace_of_parseLines (env : Env A) (customs : List (CustomType A)) (ls : List Str) (st st' : PState A)
    (h : parseLines env customs st ls = (st', none)) :
    ∃ outs, Trace env customs st.params ls outs ∧ st' = assemble st outs := by
  induction ls generalizing st with
  | nil =>
    rw [parseLines_nil] at h
    refine ⟨[], Trace.nil _, ?_⟩
    cases st; simp only [Prod.mk.injEq] at h; rw [← h.1]; simp [assemble]
  | cons l ls ih =>
    cases hb : isBlank l with
    | true =>
      rw [parseLines_blank _ _ _ _ _ hb] at h
      obtain ⟨outs, ht, he⟩ := ih st h
      exact ⟨outs, Trace.blank hb ht, he⟩
    | false =>
      cases hpl : parseLine env customs st.params l with
      | error e => rw [parseLines_error _ _ _ _ _ e hb hpl] at h; simp at h
      | ok out =>
        rw [parseLines_ok _ _ _ _ _ out hb hpl] at h
        obtain ⟨outs, ht, he⟩ := ih _ h
        rw [push_params] at ht
        exact ⟨(l, out) :: outs, Trace.line hb hpl ht, by rw [assemble_cons]; exact he⟩

/-! ### the parameter dictionary: the most recent line with a key wins -/

theorem lookupParam_dictSet (ps : List (Param A)) (p : Param A) (k : ParamKind) (i : Int) :
    lookupParam (dictSet ps p) k i = if p.kind = k ∧ p.id = i then some p else lookupParam ps k i := by
  induction ps with
  | nil => by_cases h : p.kind = k ∧ p.id = i <;> simp_all [lookupParam, dictSet]
  | cons q qs ih =>
    unfold lookupParam at ih ⊢
    by_cases hq : (q.kind == p.kind && q.id == p.id) = true
    · simp only [dictSet, hq, if_true]
      simp only [Bool.and_eq_true, beq_iff_eq] at hq
      by_cases h : p.kind = k ∧ p.id = i
      · simp [List.find?, h]
      · have : ¬ (q.kind = k ∧ q.id = i) := by rw [hq.1, hq.2]; exact h
        have h1 : (p.kind == k && p.id == i) = false := by simpa using h
        have h2 : (q.kind == k && q.id == i) = false := by simpa using this
        simp [List.find?, h, h1, h2]
    · simp only [dictSet, hq]
      simp only [Bool.and_eq_true, beq_iff_eq] at hq
      by_cases hqk : (q.kind == k && q.id == i) = true
      · have hne : ¬ (p.kind = k ∧ p.id = i) := by
          simp only [Bool.and_eq_true, beq_iff_eq] at hqk
          intro hp; apply hq; rw [hqk.1, hqk.2, hp.1, hp.2]; exact ⟨rfl, rfl⟩
        simp [List.find?, hqk, hne]
      · have hqk' : (q.kind == k && q.id == i) = false := by simpa using hqk
        simp only [List.find?, hqk', Bool.false_eq_true, if_false]
        simpa using ih

end GraphSlam.Props.C14
