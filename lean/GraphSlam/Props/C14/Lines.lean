import GraphSlam.Props.C14.Dispatch
import GraphSlam.Props.C13.Triu

/-!
# C14: every line of the vocabulary produces exactly the object whose fields are the converted tokens

Each theorem is about the whole per-line dispatch `parseLine` (vertex → custom edge types → odometry → landmark →
parameters).  Hypotheses: the raw line starts with `TAG + " "`, `numbersOf TAG line` (= `line[len("TAG "):].split()`) is
the given token list, `floats` (= `float()` of every value token, in order) succeeds with the given atoms, the id
tokens convert with `int()`.  Lines for edges and parameters additionally need that no registered custom edge type
claims the line (`customFromG2O ... = .ok none`; with no custom types this is `rfl`).
-/

namespace GraphSlam.Props.C14
open GraphSlam.Model.G2O GraphSlam.Props.C13

variable {A : Type}

set_option linter.unusedSimpArgs false


theorem line_faithful_VERTEX_XY (env : Env A) (customs : List (CustomType A)) (params : List (Param A)) (line : Str) (tid : Str) (toks : List Str) (i : Int) (arr : List A)
    (hs : startsWith (withSp T.vertexXY) line = true)
    (hn : numbersOf T.vertexXY line = tid :: toks)
    (hf : floats env toks = .ok arr)
    (hi : env.parseI tid = some i)
    :
    parseLine env customs params line = .ok (.vertex ⟨i, ⟨.r2, arr⟩⟩) := by
  have e := fun t' h1 h2 => startsWith_excl (t' := t') (show T.vertexXY ∈ T.all by simp [T.all]) h1 h2 hs
  simp [parseLine, Vertex.fromG2O, EdgeOdometry.fromG2O, EdgeLandmark.fromG2O, Param.fromG2O, someE, Vertex.from_vertexXY, Vertex.from_vertexTrackXYZ, Vertex.from_vertexSE2, Vertex.from_vertexSE3, EdgeOdometry.from_edgeSE2, EdgeOdometry.from_edgeSE3, EdgeLandmark.from_edgeSE2XY, EdgeLandmark.from_edgeSE3TrackXYZ, Param.from_paramsSE2Offset, Param.from_paramsSE3Offset, hs, hn, hf, pyInt, hi]

theorem line_faithful_VERTEX_TRACKXYZ (env : Env A) (customs : List (CustomType A)) (params : List (Param A)) (line : Str) (tid : Str) (toks : List Str) (i : Int) (arr : List A)
    (hs : startsWith (withSp T.vertexTrackXYZ) line = true)
    (hn : numbersOf T.vertexTrackXYZ line = tid :: toks)
    (hf : floats env toks = .ok arr)
    (hi : env.parseI tid = some i)
    :
    parseLine env customs params line = .ok (.vertex ⟨i, ⟨.r3, arr⟩⟩) := by
  have e := fun t' h1 h2 => startsWith_excl (t' := t') (show T.vertexTrackXYZ ∈ T.all by simp [T.all]) h1 h2 hs
  have e_vertexXY := e T.vertexXY (by simp [T.all]) (by decide)
  simp [parseLine, Vertex.fromG2O, EdgeOdometry.fromG2O, EdgeLandmark.fromG2O, Param.fromG2O, someE, Vertex.from_vertexXY, Vertex.from_vertexTrackXYZ, Vertex.from_vertexSE2, Vertex.from_vertexSE3, EdgeOdometry.from_edgeSE2, EdgeOdometry.from_edgeSE3, EdgeLandmark.from_edgeSE2XY, EdgeLandmark.from_edgeSE3TrackXYZ, Param.from_paramsSE2Offset, Param.from_paramsSE3Offset, e_vertexXY, hs, hn, hf, pyInt, hi]

theorem line_faithful_VERTEX_SE2 (env : Env A) (customs : List (CustomType A)) (params : List (Param A)) (line : Str) (tid : Str) (toks : List Str) (i : Int) (a0 a1 a2 : A) (rest : List A)
    (hs : startsWith (withSp T.vertexSE2) line = true)
    (hn : numbersOf T.vertexSE2 line = tid :: toks)
    (hf : floats env toks = .ok (a0 :: a1 :: a2 :: rest))
    (hi : env.parseI tid = some i)
    :
    parseLine env customs params line = .ok (.vertex ⟨i, ⟨.se2, [a0, a1, env.wrap a2]⟩⟩) := by
  have e := fun t' h1 h2 => startsWith_excl (t' := t') (show T.vertexSE2 ∈ T.all by simp [T.all]) h1 h2 hs
  have e_vertexXY := e T.vertexXY (by simp [T.all]) (by decide)
  have e_vertexTrackXYZ := e T.vertexTrackXYZ (by simp [T.all]) (by decide)
  simp [parseLine, Vertex.fromG2O, EdgeOdometry.fromG2O, EdgeLandmark.fromG2O, Param.fromG2O, someE, Vertex.from_vertexXY, Vertex.from_vertexTrackXYZ, Vertex.from_vertexSE2, Vertex.from_vertexSE3, EdgeOdometry.from_edgeSE2, EdgeOdometry.from_edgeSE3, EdgeLandmark.from_edgeSE2XY, EdgeLandmark.from_edgeSE3TrackXYZ, Param.from_paramsSE2Offset, Param.from_paramsSE3Offset, e_vertexXY, e_vertexTrackXYZ, hs, hn, hf, pyInt, hi, mkSE2]

theorem line_faithful_VERTEX_SE3_QUAT (env : Env A) (customs : List (CustomType A)) (params : List (Param A)) (line : Str) (tid : Str) (toks : List Str) (i : Int) (a0 a1 a2 a3 a4 a5 a6 : A) (rest : List A)
    (hs : startsWith (withSp T.vertexSE3) line = true)
    (hn : numbersOf T.vertexSE3 line = tid :: toks)
    (hf : floats env toks = .ok (a0 :: a1 :: a2 :: a3 :: a4 :: a5 :: a6 :: rest))
    (hi : env.parseI tid = some i)
    :
    parseLine env customs params line = .ok (.vertex ⟨i, ⟨.se3, [a0, a1, a2, a3, a4, a5, a6]⟩⟩) := by
  have e := fun t' h1 h2 => startsWith_excl (t' := t') (show T.vertexSE3 ∈ T.all by simp [T.all]) h1 h2 hs
  have e_vertexXY := e T.vertexXY (by simp [T.all]) (by decide)
  have e_vertexTrackXYZ := e T.vertexTrackXYZ (by simp [T.all]) (by decide)
  have e_vertexSE2 := e T.vertexSE2 (by simp [T.all]) (by decide)
  simp [parseLine, Vertex.fromG2O, EdgeOdometry.fromG2O, EdgeLandmark.fromG2O, Param.fromG2O, someE, Vertex.from_vertexXY, Vertex.from_vertexTrackXYZ, Vertex.from_vertexSE2, Vertex.from_vertexSE3, EdgeOdometry.from_edgeSE2, EdgeOdometry.from_edgeSE3, EdgeLandmark.from_edgeSE2XY, EdgeLandmark.from_edgeSE3TrackXYZ, Param.from_paramsSE2Offset, Param.from_paramsSE3Offset, e_vertexXY, e_vertexTrackXYZ, e_vertexSE2, hs, hn, hf, pyInt, hi, mkSE3]

theorem line_faithful_EDGE_SE2 (env : Env A) (customs : List (CustomType A)) (params : List (Param A)) (line : Str) (t0 t1 : Str) (toks : List Str) (i0 i1 : Int) (a0 a1 a2 : A) (tri : List A) (info : Mat A)
    (hs : startsWith (withSp T.edgeSE2) line = true)
    (hn : numbersOf T.edgeSE2 line = t0 :: t1 :: toks)
    (hf : floats env toks = .ok (a0 :: a1 :: a2 :: tri))
    (hi0 : env.parseI t0 = some i0) (hi1 : env.parseI t1 = some i1)
    (hx : expandTriu env.zero 3 tri = .ok info)
    (hc : customFromG2O customs line params = .ok none)
    :
    parseLine env customs params line = .ok (.edge ⟨[i0, i1], info, .odometry ⟨.se2, [a0, a1, env.wrap a2]⟩⟩) := by
  have e := fun t' h1 h2 => startsWith_excl (t' := t') (show T.edgeSE2 ∈ T.all by simp [T.all]) h1 h2 hs
  have e_vertexXY := e T.vertexXY (by simp [T.all]) (by decide)
  have e_vertexTrackXYZ := e T.vertexTrackXYZ (by simp [T.all]) (by decide)
  have e_vertexSE2 := e T.vertexSE2 (by simp [T.all]) (by decide)
  have e_vertexSE3 := e T.vertexSE3 (by simp [T.all]) (by decide)
  simp [parseLine, Vertex.fromG2O, EdgeOdometry.fromG2O, EdgeLandmark.fromG2O, Param.fromG2O, someE, Vertex.from_vertexXY, Vertex.from_vertexTrackXYZ, Vertex.from_vertexSE2, Vertex.from_vertexSE3, EdgeOdometry.from_edgeSE2, EdgeOdometry.from_edgeSE3, EdgeLandmark.from_edgeSE2XY, EdgeLandmark.from_edgeSE3TrackXYZ, Param.from_paramsSE2Offset, Param.from_paramsSE3Offset, e_vertexXY, e_vertexTrackXYZ, e_vertexSE2, e_vertexSE3, hc, hs, hn, hf, pyInt, hi0, hi1, mkSE2, hx]

theorem line_faithful_EDGE_SE3_QUAT (env : Env A) (customs : List (CustomType A)) (params : List (Param A)) (line : Str) (t0 t1 : Str) (toks : List Str) (i0 i1 : Int) (a0 a1 a2 a3 a4 a5 a6 : A) (tri : List A) (info : Mat A)
    (hs : startsWith (withSp T.edgeSE3) line = true)
    (hn : numbersOf T.edgeSE3 line = t0 :: t1 :: toks)
    (hf : floats env toks = .ok (a0 :: a1 :: a2 :: a3 :: a4 :: a5 :: a6 :: tri))
    (hi0 : env.parseI t0 = some i0) (hi1 : env.parseI t1 = some i1)
    (hx : expandTriu env.zero 6 tri = .ok info)
    (hc : customFromG2O customs line params = .ok none)
    :
    parseLine env customs params line = .ok (.edge ⟨[i0, i1], info, .odometry ⟨.se3, a0 :: a1 :: a2 :: env.normQ a3 a4 a5 a6⟩⟩) := by
  have e := fun t' h1 h2 => startsWith_excl (t' := t') (show T.edgeSE3 ∈ T.all by simp [T.all]) h1 h2 hs
  have e_vertexXY := e T.vertexXY (by simp [T.all]) (by decide)
  have e_vertexTrackXYZ := e T.vertexTrackXYZ (by simp [T.all]) (by decide)
  have e_vertexSE2 := e T.vertexSE2 (by simp [T.all]) (by decide)
  have e_vertexSE3 := e T.vertexSE3 (by simp [T.all]) (by decide)
  have e_edgeSE2 := e T.edgeSE2 (by simp [T.all]) (by decide)
  simp [parseLine, Vertex.fromG2O, EdgeOdometry.fromG2O, EdgeLandmark.fromG2O, Param.fromG2O, someE, Vertex.from_vertexXY, Vertex.from_vertexTrackXYZ, Vertex.from_vertexSE2, Vertex.from_vertexSE3, EdgeOdometry.from_edgeSE2, EdgeOdometry.from_edgeSE3, EdgeLandmark.from_edgeSE2XY, EdgeLandmark.from_edgeSE3TrackXYZ, Param.from_paramsSE2Offset, Param.from_paramsSE3Offset, e_vertexXY, e_vertexTrackXYZ, e_vertexSE2, e_vertexSE3, e_edgeSE2, hc, hs, hn, hf, pyInt, hi0, hi1, mkSE3, hx, normalizeSE3]

theorem line_faithful_EDGE_SE2_XY (env : Env A) (customs : List (CustomType A)) (params : List (Param A)) (line : Str) (t0 t1 : Str) (toks : List Str) (i0 i1 : Int) (a0 a1 : A) (tri : List A) (info : Mat A)
    (hs : startsWith (withSp T.edgeSE2XY) line = true)
    (hn : numbersOf T.edgeSE2XY line = t0 :: t1 :: toks)
    (hf : floats env toks = .ok (a0 :: a1 :: tri))
    (hi0 : env.parseI t0 = some i0) (hi1 : env.parseI t1 = some i1)
    (hx : expandTriu env.zero 2 tri = .ok info)
    (hc : customFromG2O customs line params = .ok none)
    :
    parseLine env customs params line = .ok (.edge ⟨[i0, i1], info, .landmark ⟨.r2, [a0, a1]⟩ ⟨.se2, identitySE2 env⟩ (some 0)⟩) := by
  have e := fun t' h1 h2 => startsWith_excl (t' := t') (show T.edgeSE2XY ∈ T.all by simp [T.all]) h1 h2 hs
  have e_vertexXY := e T.vertexXY (by simp [T.all]) (by decide)
  have e_vertexTrackXYZ := e T.vertexTrackXYZ (by simp [T.all]) (by decide)
  have e_vertexSE2 := e T.vertexSE2 (by simp [T.all]) (by decide)
  have e_vertexSE3 := e T.vertexSE3 (by simp [T.all]) (by decide)
  have e_edgeSE2 := e T.edgeSE2 (by simp [T.all]) (by decide)
  have e_edgeSE3 := e T.edgeSE3 (by simp [T.all]) (by decide)
  simp [parseLine, Vertex.fromG2O, EdgeOdometry.fromG2O, EdgeLandmark.fromG2O, Param.fromG2O, someE, Vertex.from_vertexXY, Vertex.from_vertexTrackXYZ, Vertex.from_vertexSE2, Vertex.from_vertexSE3, EdgeOdometry.from_edgeSE2, EdgeOdometry.from_edgeSE3, EdgeLandmark.from_edgeSE2XY, EdgeLandmark.from_edgeSE3TrackXYZ, Param.from_paramsSE2Offset, Param.from_paramsSE3Offset, e_vertexXY, e_vertexTrackXYZ, e_vertexSE2, e_vertexSE3, e_edgeSE2, e_edgeSE3, hc, hs, hn, hf, pyInt, hi0, hi1, hx, identitySE2]

theorem line_faithful_EDGE_SE3_TRACKXYZ (env : Env A) (customs : List (CustomType A)) (params : List (Param A)) (line : Str) (t0 t1 t2 : Str) (toks : List Str) (i0 i1 oid : Int) (a0 a1 a2 : A) (tri : List A) (info : Mat A) (p : Param A)
    (hs : startsWith (withSp T.edgeSE3TrackXYZ) line = true)
    (hn : numbersOf T.edgeSE3TrackXYZ line = t0 :: t1 :: t2 :: toks)
    (hf : floats env toks = .ok (a0 :: a1 :: a2 :: tri))
    (hi0 : env.parseI t0 = some i0) (hi1 : env.parseI t1 = some i1) (hi2 : env.parseI t2 = some oid)
    (hp : lookupParam params .se3offset oid = some p)
    (hx : expandTriu env.zero 3 tri = .ok info)
    (hc : customFromG2O customs line params = .ok none)
    :
    parseLine env customs params line = .ok (.edge ⟨[i0, i1], info, .landmark ⟨.r3, [a0, a1, a2]⟩ p.value (some oid)⟩) := by
  have e := fun t' h1 h2 => startsWith_excl (t' := t') (show T.edgeSE3TrackXYZ ∈ T.all by simp [T.all]) h1 h2 hs
  have e_vertexXY := e T.vertexXY (by simp [T.all]) (by decide)
  have e_vertexTrackXYZ := e T.vertexTrackXYZ (by simp [T.all]) (by decide)
  have e_vertexSE2 := e T.vertexSE2 (by simp [T.all]) (by decide)
  have e_vertexSE3 := e T.vertexSE3 (by simp [T.all]) (by decide)
  have e_edgeSE2 := e T.edgeSE2 (by simp [T.all]) (by decide)
  have e_edgeSE3 := e T.edgeSE3 (by simp [T.all]) (by decide)
  have e_edgeSE2XY := e T.edgeSE2XY (by simp [T.all]) (by decide)
  simp [parseLine, Vertex.fromG2O, EdgeOdometry.fromG2O, EdgeLandmark.fromG2O, Param.fromG2O, someE, Vertex.from_vertexXY, Vertex.from_vertexTrackXYZ, Vertex.from_vertexSE2, Vertex.from_vertexSE3, EdgeOdometry.from_edgeSE2, EdgeOdometry.from_edgeSE3, EdgeLandmark.from_edgeSE2XY, EdgeLandmark.from_edgeSE3TrackXYZ, Param.from_paramsSE2Offset, Param.from_paramsSE3Offset, e_vertexXY, e_vertexTrackXYZ, e_vertexSE2, e_vertexSE3, e_edgeSE2, e_edgeSE3, e_edgeSE2XY, hc, hs, hn, hf, pyInt, hi0, hi1, hi2, hp, hx]

theorem line_faithful_PARAMS_SE2OFFSET (env : Env A) (customs : List (CustomType A)) (params : List (Param A)) (line : Str) (tid : Str) (toks : List Str) (i : Int) (a0 a1 a2 : A) (rest : List A)
    (hs : startsWith (withSp T.paramsSE2Offset) line = true)
    (hn : numbersOf T.paramsSE2Offset line = tid :: toks)
    (hf : floats env toks = .ok (a0 :: a1 :: a2 :: rest))
    (hi : env.parseI tid = some i)
    (hc : customFromG2O customs line params = .ok none)
    :
    parseLine env customs params line = .ok (.param ⟨.se2offset, i, ⟨.se2, [a0, a1, env.wrap a2]⟩⟩) := by
  have e := fun t' h1 h2 => startsWith_excl (t' := t') (show T.paramsSE2Offset ∈ T.all by simp [T.all]) h1 h2 hs
  have e_vertexXY := e T.vertexXY (by simp [T.all]) (by decide)
  have e_vertexTrackXYZ := e T.vertexTrackXYZ (by simp [T.all]) (by decide)
  have e_vertexSE2 := e T.vertexSE2 (by simp [T.all]) (by decide)
  have e_vertexSE3 := e T.vertexSE3 (by simp [T.all]) (by decide)
  have e_edgeSE2 := e T.edgeSE2 (by simp [T.all]) (by decide)
  have e_edgeSE3 := e T.edgeSE3 (by simp [T.all]) (by decide)
  have e_edgeSE2XY := e T.edgeSE2XY (by simp [T.all]) (by decide)
  have e_edgeSE3TrackXYZ := e T.edgeSE3TrackXYZ (by simp [T.all]) (by decide)
  simp [parseLine, Vertex.fromG2O, EdgeOdometry.fromG2O, EdgeLandmark.fromG2O, Param.fromG2O, someE, Vertex.from_vertexXY, Vertex.from_vertexTrackXYZ, Vertex.from_vertexSE2, Vertex.from_vertexSE3, EdgeOdometry.from_edgeSE2, EdgeOdometry.from_edgeSE3, EdgeLandmark.from_edgeSE2XY, EdgeLandmark.from_edgeSE3TrackXYZ, Param.from_paramsSE2Offset, Param.from_paramsSE3Offset, e_vertexXY, e_vertexTrackXYZ, e_vertexSE2, e_vertexSE3, e_edgeSE2, e_edgeSE3, e_edgeSE2XY, e_edgeSE3TrackXYZ, hc, hs, hn, hf, pyInt, hi, mkSE2]

theorem line_faithful_PARAMS_SE3OFFSET (env : Env A) (customs : List (CustomType A)) (params : List (Param A)) (line : Str) (tid : Str) (toks : List Str) (i : Int) (a0 a1 a2 a3 a4 a5 a6 : A) (rest : List A)
    (hs : startsWith (withSp T.paramsSE3Offset) line = true)
    (hn : numbersOf T.paramsSE3Offset line = tid :: toks)
    (hf : floats env toks = .ok (a0 :: a1 :: a2 :: a3 :: a4 :: a5 :: a6 :: rest))
    (hi : env.parseI tid = some i)
    (hc : customFromG2O customs line params = .ok none)
    :
    parseLine env customs params line = .ok (.param ⟨.se3offset, i, ⟨.se3, [a0, a1, a2, a3, a4, a5, a6]⟩⟩) := by
  have e := fun t' h1 h2 => startsWith_excl (t' := t') (show T.paramsSE3Offset ∈ T.all by simp [T.all]) h1 h2 hs
  have e_vertexXY := e T.vertexXY (by simp [T.all]) (by decide)
  have e_vertexTrackXYZ := e T.vertexTrackXYZ (by simp [T.all]) (by decide)
  have e_vertexSE2 := e T.vertexSE2 (by simp [T.all]) (by decide)
  have e_vertexSE3 := e T.vertexSE3 (by simp [T.all]) (by decide)
  have e_edgeSE2 := e T.edgeSE2 (by simp [T.all]) (by decide)
  have e_edgeSE3 := e T.edgeSE3 (by simp [T.all]) (by decide)
  have e_edgeSE2XY := e T.edgeSE2XY (by simp [T.all]) (by decide)
  have e_edgeSE3TrackXYZ := e T.edgeSE3TrackXYZ (by simp [T.all]) (by decide)
  have e_paramsSE2Offset := e T.paramsSE2Offset (by simp [T.all]) (by decide)
  simp [parseLine, Vertex.fromG2O, EdgeOdometry.fromG2O, EdgeLandmark.fromG2O, Param.fromG2O, someE, Vertex.from_vertexXY, Vertex.from_vertexTrackXYZ, Vertex.from_vertexSE2, Vertex.from_vertexSE3, EdgeOdometry.from_edgeSE2, EdgeOdometry.from_edgeSE3, EdgeLandmark.from_edgeSE2XY, EdgeLandmark.from_edgeSE3TrackXYZ, Param.from_paramsSE2Offset, Param.from_paramsSE3Offset, e_vertexXY, e_vertexTrackXYZ, e_vertexSE2, e_vertexSE3, e_edgeSE2, e_edgeSE3, e_edgeSE2XY, e_edgeSE3TrackXYZ, e_paramsSE2Offset, hc, hs, hn, hf, pyInt, hi, mkSE3]

end GraphSlam.Props.C14
