import GraphSlam.Model.G2O

/-!
# C14 helper lemmas: the ten tags are prefix-free, so the `startswith` tests of `Graph.from_g2o` are mutually exclusive
-/

namespace GraphSlam.Props.C14
open GraphSlam.Model.G2O

variable {A : Type}

/-- the whole 10 × 10 table: no `tag + " "` is a prefix of another one -/
def prefixFreeTable : Bool :=
  T.all.all fun t1 => T.all.all fun t2 => t1 == t2 || !(withSp t1).isPrefixOf (withSp t2)

theorem prefixFreeTable_true : prefixFreeTable = true := by decide

theorem tags_prefix_free {t1 t2 : Str} (h1 : t1 ∈ T.all) (h2 : t2 ∈ T.all) (hne : t1 ≠ t2) :
    (withSp t1).isPrefixOf (withSp t2) = false := by
  have h := prefixFreeTable_true
  unfold prefixFreeTable at h
  rw [List.all_eq_true] at h
  have h' := h t1 h1
  rw [List.all_eq_true] at h'
  have h'' := h' t2 h2
  simp only [Bool.or_eq_true, beq_iff_eq, Bool.not_eq_true'] at h''
  rcases h'' with h'' | h''
  · exact absurd h'' hne
  · exact h''

/-- a line starts with at most one of the ten `tag + " "` -/
theorem startsWith_excl {t t' line : Str} (ht : t ∈ T.all) (ht' : t' ∈ T.all) (hne : t' ≠ t)
    (h : startsWith (withSp t) line = true) : startsWith (withSp t') line = false := by
  unfold startsWith at *
  rw [Bool.eq_false_iff]
  intro h'
  rw [List.isPrefixOf_iff_prefix] at h h'
  rcases List.prefix_or_prefix_of_prefix h h' with p | p
  · have := tags_prefix_free ht ht' (Ne.symm hne)
    rw [← List.isPrefixOf_iff_prefix] at p
    rw [p] at this; exact Bool.noConfusion this
  · have := tags_prefix_free ht' ht hne
    rw [← List.isPrefixOf_iff_prefix] at p
    rw [p] at this; exact Bool.noConfusion this

theorem startsWith_tagged (tag rest : Str) : startsWith (withSp tag) (tag ++ ' ' :: rest) = true := by
  unfold startsWith withSp
  rw [List.isPrefixOf_iff_prefix]
  exact ⟨rest, by simp⟩

theorem numbersOf_tagged (tag rest : Str) : numbersOf tag (tag ++ ' ' :: rest) = splitWS rest := by
  unfold numbersOf
  congr 1
  have : tag ++ ' ' :: rest = (tag ++ [' ']) ++ rest := by simp
  rw [this, List.drop_left' (by simp)]

/-- a line that starts with a tag is not blank -/
theorem isBlank_of_startsWith {t line : Str} (ht : t ∈ T.all) (h : startsWith (withSp t) line = true) : isBlank line = false := by
  unfold startsWith at h
  rw [List.isPrefixOf_iff_prefix] at h
  obtain ⟨r, rfl⟩ := h
  have hne : ∃ c cs, t = c :: cs ∧ isPySpace c = false := by
    simp only [T.all, List.mem_cons, List.not_mem_nil, or_false] at ht
    rcases ht with rfl | rfl | rfl | rfl | rfl | rfl | rfl | rfl | rfl | rfl <;> exact ⟨_, _, rfl, by decide⟩
  obtain ⟨c, cs, rfl, hc⟩ := hne
  unfold isBlank withSp
  simp [hc]

end GraphSlam.Props.C14
