import GraphSlam.Model.Validity
import Mathlib.Data.List.Forall2
import Mathlib.Data.List.Nodup
import Mathlib.Data.List.Perm.Basic

/-!
# C18 — helper lemmas about the binding / validity model (`GraphSlam/Model/Validity.lean`)
-/

namespace GraphSlam.Props.C18
open GraphSlam.Model.Cmp GraphSlam.Model.Validity

/-! ## the id → index dictionary -/

lemma lastIdx_eq_none {ids : List Int} {x : Int} : lastIdx ids x = none ↔ x ∉ ids := by
  induction ids with
  | nil => simp [lastIdx]
  | cons y ys ih =>
    simp only [lastIdx]
    cases h : lastIdx ys x with
    | some j =>
      have : ¬ (x ∉ ys) := fun hn => by rw [ih.mpr hn] at h; cases h
      simp only [List.mem_cons, not_or]
      constructor
      · intro h'; cases h'
      · intro h'; exact absurd h'.2 this
    | none =>
      have hx : x ∉ ys := ih.mp h
      by_cases hy : y = x
      · subst hy; simp
      · simp only [hy, if_false, List.mem_cons, not_or, true_iff]
        exact ⟨fun e => hy e.symm, hx⟩

lemma lastIdx_some {ids : List Int} {x : Int} {j : Nat} (h : lastIdx ids x = some j) : ids[j]? = some x := by
  induction ids generalizing j with
  | nil => simp [lastIdx] at h
  | cons y ys ih =>
    simp only [lastIdx] at h
    cases h' : lastIdx ys x with
    | some i =>
      rw [h'] at h; cases h
      simpa using ih h'
    | none =>
      rw [h'] at h
      by_cases hy : y = x
      · simp only [hy, if_true] at h; cases h; simp [hy]
      · simp [hy] at h

/-- the dictionary keeps the *last* vertex with a given id -/
lemma lastIdx_last {ids : List Int} {x : Int} {j : Nat} (h : lastIdx ids x = some j) :
    ∀ j', j < j' → ids[j']? ≠ some x := by
  induction ids generalizing j with
  | nil => simp [lastIdx] at h
  | cons y ys ih =>
    simp only [lastIdx] at h
    intro j' hj'
    cases h' : lastIdx ys x with
    | some i =>
      rw [h'] at h; cases h
      cases j' with
      | zero => omega
      | succ k => simpa using ih h' k (by omega)
    | none =>
      rw [h'] at h
      have hx : x ∉ ys := lastIdx_eq_none.mp h'
      cases j' with
      | zero => omega
      | succ k =>
        intro hk
        have : ys[k]? = some x := by simpa using hk
        exact hx (List.mem_of_getElem? this)

/-- with unique ids the dictionary lookup is *the* position of the id -/
lemma lastIdx_of_nodup {ids : List Int} (hn : ids.Nodup) {x : Int} {j : Nat} (h : ids[j]? = some x) :
    lastIdx ids x = some j := by
  have hx : x ∈ ids := List.mem_of_getElem? h
  cases h' : lastIdx ids x with
  | none => exact absurd hx (lastIdx_eq_none.mp h')
  | some i =>
    have hi := lastIdx_some h'
    obtain ⟨hi1, hi2⟩ := List.getElem?_eq_some_iff.mp hi
    obtain ⟨hj1, hj2⟩ := List.getElem?_eq_some_iff.mp h
    have := (List.Nodup.getElem_inj_iff hn (hi := hi1) (hj := hj1)).mp (hi2.trans hj2.symm)
    rw [this]

/-! ## binding one edge -/

lemma bind_error {ids vids : List Int} {e : PyErr} (h : bind ids vids = .error e) :
    e = .keyError ∧ ∃ x ∈ vids, x ∉ ids := by
  induction vids with
  | nil => simp [Model.Validity.bind] at h
  | cons x xs ih =>
    simp only [Model.Validity.bind] at h
    cases h1 : lastIdx ids x with
    | none =>
      rw [h1] at h
      simp only [Except.error.injEq] at h
      exact ⟨h.symm, x, List.mem_cons_self, lastIdx_eq_none.mp h1⟩
    | some j =>
      rw [h1] at h
      cases h2 : bind ids xs with
      | error e' =>
        rw [h2] at h
        simp only [Except.error.injEq] at h
        subst h
        obtain ⟨he, y, hy, hy'⟩ := ih h2
        exact ⟨he, y, List.mem_cons_of_mem _ hy, hy'⟩
      | ok js => rw [h2] at h; cases h

lemma bind_ok {ids vids : List Int} {js : List Nat} (h : bind ids vids = .ok js) :
    List.Forall₂ (fun j x => lastIdx ids x = some j) js vids := by
  induction vids generalizing js with
  | nil => simp only [Model.Validity.bind, Except.ok.injEq] at h; subst h; exact List.Forall₂.nil
  | cons x xs ih =>
    simp only [Model.Validity.bind] at h
    cases h1 : lastIdx ids x with
    | none => rw [h1] at h; cases h
    | some j =>
      rw [h1] at h
      cases h2 : bind ids xs with
      | error e' => rw [h2] at h; cases h
      | ok js' =>
        rw [h2] at h
        simp only [Except.ok.injEq] at h
        subst h
        exact List.Forall₂.cons h1 (ih h2)

lemma bind_of_known {ids vids : List Int} (h : ∀ x ∈ vids, x ∈ ids) : ∃ js, bind ids vids = .ok js := by
  cases h' : bind ids vids with
  | ok js => exact ⟨js, rfl⟩
  | error e =>
    obtain ⟨_, x, hx, hx'⟩ := bind_error h'
    exact absurd (h x hx) hx'

lemma known_of_forall₂ {ids vids : List Int} {js : List Nat}
    (h : List.Forall₂ (fun j x => lastIdx ids x = some j) js vids) : ∀ x ∈ vids, x ∈ ids := by
  induction h with
  | nil => intro x hx; cases hx
  | @cons j y _ _ hh _ ih =>
    intro x hx
    rcases List.mem_cons.mp hx with rfl | hmem
    · by_contra hc
      rw [lastIdx_eq_none.mpr hc] at hh; cases hh
    · exact ih x hmem

lemma bind_of_unknown {ids vids : List Int} {x : Int} (hx : x ∈ vids) (hx' : x ∉ ids) :
    bind ids vids = .error .keyError := by
  cases h' : bind ids vids with
  | error e => rw [(bind_error h').1]
  | ok js => exact absurd (known_of_forall₂ (bind_ok h') x hx) hx'

/-- `pick` on in-range indices is `map` -/
lemma pick_forall₂ {α : Type} (key : α → Int) (vs : List α) {js : List Nat} {vids : List Int}
    (h : List.Forall₂ (fun j x => lastIdx (vs.map key) x = some j) js vids) :
    List.Forall₂ (fun v x => v ∈ vs ∧ key v = x) (pick vs js) vids := by
  induction h with
  | nil => exact List.Forall₂.nil
  | @cons j x js' xs hjx _ ih =>
    have h1 := lastIdx_some hjx
    rw [List.getElem?_map] at h1
    cases hv : vs[j]? with
    | none => rw [hv] at h1; cases h1
    | some v =>
      rw [hv] at h1
      simp only [Option.map_some, Option.some.injEq] at h1
      simp only [pick, hv]
      exact List.Forall₂.cons ⟨List.mem_of_getElem? hv, h1⟩ ih

/-! ## binding all edges -/

lemma bindVertices_error {vs : List VertexDesc} {vids : List Int} {e : PyErr} (h : bindVertices vs vids = .error e) :
    e = .keyError ∧ ∃ x ∈ vids, x ∉ vs.map (·.id) := by
  unfold bindVertices at h
  cases h' : bind (vs.map (·.id)) vids with
  | error e' => rw [h'] at h; simp only [Except.error.injEq] at h; subst h; exact bind_error h'
  | ok js => rw [h'] at h; cases h

lemma bindVertices_of_known {vs : List VertexDesc} {vids : List Int} (h : ∀ x ∈ vids, x ∈ vs.map (·.id)) :
    ∃ b, bindVertices vs vids = .ok b := by
  obtain ⟨js, hjs⟩ := bind_of_known h
  exact ⟨pick vs js, by simp [bindVertices, hjs]⟩

lemma bindVertices_of_unknown {vs : List VertexDesc} {vids : List Int} {x : Int} (hx : x ∈ vids)
    (hx' : x ∉ vs.map (·.id)) : bindVertices vs vids = .error .keyError := by
  simp [bindVertices, bind_of_unknown hx hx']

lemma bindAll_error {vs : List VertexDesc} {es : List EdgeDesc} {err : PyErr} (h : bindAll vs es = .error err) :
    err = .keyError ∧ ∃ e ∈ es, ∃ x ∈ e.vertexIds, x ∉ vs.map (·.id) := by
  induction es with
  | nil => simp [bindAll] at h
  | cons e es ih =>
    simp only [bindAll] at h
    cases h1 : bindVertices vs e.vertexIds with
    | error e1 =>
      rw [h1] at h; simp only [Except.error.injEq] at h; subst h
      obtain ⟨he, x, hx, hx'⟩ := bindVertices_error h1
      exact ⟨he, e, List.mem_cons_self, x, hx, hx'⟩
    | ok b =>
      rw [h1] at h
      cases h2 : bindAll vs es with
      | error e2 =>
        rw [h2] at h; simp only [Except.error.injEq] at h; subst h
        obtain ⟨he, e', he', x, hx, hx'⟩ := ih h2
        exact ⟨he, e', List.mem_cons_of_mem _ he', x, hx, hx'⟩
      | ok bs => rw [h2] at h; cases h

lemma bindAll_ok {vs : List VertexDesc} {es : List EdgeDesc} {bs : List (List VertexDesc)} (h : bindAll vs es = .ok bs) :
    List.Forall₂ (fun e b => bindVertices vs e.vertexIds = .ok b) es bs := by
  induction es generalizing bs with
  | nil => simp only [bindAll, Except.ok.injEq] at h; subst h; exact List.Forall₂.nil
  | cons e es ih =>
    simp only [bindAll] at h
    cases h1 : bindVertices vs e.vertexIds with
    | error e1 => rw [h1] at h; cases h
    | ok b =>
      rw [h1] at h
      cases h2 : bindAll vs es with
      | error e2 => rw [h2] at h; cases h
      | ok bs' =>
        rw [h2] at h; simp only [Except.ok.injEq] at h; subst h
        exact List.Forall₂.cons h1 (ih h2)

lemma bindAll_of_unknown {vs : List VertexDesc} {es : List EdgeDesc} {e : EdgeDesc} {x : Int} (he : e ∈ es)
    (hx : x ∈ e.vertexIds) (hx' : x ∉ vs.map (·.id)) : bindAll vs es = .error .keyError := by
  induction es with
  | nil => cases he
  | cons e' es ih =>
    simp only [bindAll]
    cases h1 : bindVertices vs e'.vertexIds with
    | error e1 => rw [(bindVertices_error h1).1]
    | ok b =>
      rcases List.mem_cons.mp he with rfl | hmem
      · rw [bindVertices_of_unknown hx hx'] at h1; cases h1
      · simp [ih hmem]

lemma bindAll_of_known {vs : List VertexDesc} {es : List EdgeDesc}
    (h : ∀ e ∈ es, ∀ x ∈ e.vertexIds, x ∈ vs.map (·.id)) : ∃ bs, bindAll vs es = .ok bs := by
  cases h' : bindAll vs es with
  | ok bs => exact ⟨bs, rfl⟩
  | error err =>
    obtain ⟨_, e, he, x, hx, hx'⟩ := bindAll_error h'
    exact absurd (h e he x hx) hx'

lemma allValid_iff {custom : CustomValid} {es : List EdgeDesc} {bs : List (List VertexDesc)}
    (hlen : es.length = bs.length) :
    allValid custom es bs = true ↔ List.Forall₂ (fun e b => isValid custom e (some b) = true) es bs := by
  induction es generalizing bs with
  | nil => cases bs with
    | nil => simp [allValid]
    | cons b bs => simp at hlen
  | cons e es ih =>
    cases bs with
    | nil => simp at hlen
    | cons b bs =>
      simp only [List.length_cons, Nat.add_right_cancel_iff] at hlen
      simp only [allValid, List.forall₂_cons]
      by_cases hv : isValid custom e (some b) = true
      · simp [hv, ih hlen]
      · simp [hv]

/-! ## gradient indices -/

lemma gradLoop_fst_length (vs : List VertexDesc) (acc : Nat) : (gradLoop vs acc).1.length = vs.length := by
  induction vs generalizing acc with
  | nil => rfl
  | cons v vs ih => simp [gradLoop, ih]

lemma gradLoop_snd (vs : List VertexDesc) (acc : Nat) :
    (gradLoop vs acc).2 = acc + (vs.map (·.kind.compactDim)).sum := by
  induction vs generalizing acc with
  | nil => simp [gradLoop]
  | cons v vs ih => simp [gradLoop, ih, Nat.add_assoc]

lemma gradLoop_fst_get (vs : List VertexDesc) (acc : Nat) (k : Nat) (hk : k < vs.length) :
    (gradLoop vs acc).1[k]? = some (acc + ((vs.take k).map (·.kind.compactDim)).sum) := by
  induction vs generalizing acc k with
  | nil => simp at hk
  | cons v vs ih =>
    cases k with
    | zero => simp [gradLoop]
    | succ k =>
      simp only [List.length_cons, Nat.add_lt_add_iff_right] at hk
      simp [gradLoop, ih _ k hk, Nat.add_assoc]

end GraphSlam.Props.C18
