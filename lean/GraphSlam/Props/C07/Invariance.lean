import GraphSlam.Props.C07.SE3Certs
import GraphSlam.Props.C09.SE2
import GraphSlam.Props.C09.Rn
import GraphSlam.Props.C01
import GraphSlam.Props.C10.SE3Boxplus
import GraphSlam.Generated.Edges

/-!
# C07 — χ² and the optimisation trajectory are independent of the world frame

Left-composing every vertex with one rigid transform `T` (poses: `T ⊕ p`; landmark points: the action `T • l`;
a translation for R^n graphs):

* every edge **error** is unchanged (`odometry_*_frame`, `landmark_*_frame`), hence χ² is unchanged;
* box-plus is **left-equivariant** (`boxplus_frame_*`): `(T ⊕ p) ⊞ δ = T ⊕ (p ⊞ δ)`, and for points
  `T • (l + δ) = T • l + R_T δ`;
* hence the error as a function of the increment of a **pose** vertex is literally the same function in both frames, so its
  Jacobian — which C01 proves is what `calc_jacobians` returns — is the same matrix (`jacobians_frame_*`, by uniqueness
  of the Fréchet derivative); for a landmark **point** the increment is rotated by `R_T`, an orthogonal change of
  variables (`Theory.reparam_solves` transports solutions of the assembled system);
* so the Gauss–Newton step of the transformed graph is the transform of the step, iteration by iteration.
-/

namespace GraphSlam.Props.C07
open GraphSlam GraphSlam.Gen GraphSlam.Props.C09 GraphSlam.Props.C10
set_option linter.unusedSimpArgs false
set_option linter.unusedVariables false
set_option maxHeartbeats 4000000

/-! ## SE(3) -/

/-- `(T ⊕ b) ⊖ (T ⊕ a) = b ⊖ a` -/
theorem PoseSE3_sub_frame (T a b : Fin 7 → ℝ) (hT : Unit4 T) (ha : Unit4 a) :
    PoseSE3.sub (PoseSE3.add T b) (PoseSE3.add T a) = PoseSE3.sub b a := by
  have hTa : Unit4 (PoseSE3.add T a) := PoseSE3_unit_add T a hT ha
  have hiT : Unit4 (PoseSE3.inverse T) := PoseSE3_unit_inverse T hT
  have hia : Unit4 (PoseSE3.inverse a) := PoseSE3_unit_inverse a ha
  rw [PoseSE3_sub_eq_inverse_add _ _ hTa, PoseSE3_inverse_add_rev T a hT ha,
    PoseSE3_add_assoc _ _ _ hia hiT, ← PoseSE3_add_assoc (PoseSE3.inverse T) T b hiT hT,
    PoseSE3_inverse_add T hT, PoseSE3_identity_left, ← PoseSE3_sub_eq_inverse_add b a ha]

/-- odometry errors do not see the frame -/
theorem odometry_SE3_frame (T z p0 p1 : Fin 7 → ℝ) (hT : Unit4 T) (h0 : Unit4 p0) :
    EdgeOdometry.calc_error_SE3 z (PoseSE3.add T p0) (PoseSE3.add T p1) = EdgeOdometry.calc_error_SE3 z p0 p1 := by
  unfold EdgeOdometry.calc_error_SE3
  rw [PoseSE3_sub_frame T p0 p1 hT h0]

/-- landmark errors do not see the frame (the landmark point is moved by the action of `T`) -/
theorem landmark_SE3_frame (T : Fin 7 → ℝ) (z : Fin 3 → ℝ) (off p0 : Fin 7 → ℝ) (l : Fin 3 → ℝ)
    (hT : Unit4 T) (h0 : Unit4 p0) (ho : Unit4 off) :
    EdgeLandmark.calc_error_SE3 z off (PoseSE3.add T p0) (PoseSE3.add_point T l) = EdgeLandmark.calc_error_SE3 z off p0 l := by
  unfold EdgeLandmark.calc_error_SE3
  have hq : Unit4 (PoseSE3.add p0 off) := PoseSE3_unit_add _ _ h0 ho
  have hiT : Unit4 (PoseSE3.inverse T) := PoseSE3_unit_inverse T hT
  have hiq : Unit4 (PoseSE3.inverse (PoseSE3.add p0 off)) := PoseSE3_unit_inverse _ hq
  rw [PoseSE3_add_assoc T p0 off hT h0, PoseSE3_inverse_add_rev T _ hT hq,
    PoseSE3_add_point_add _ _ _ hiq hiT, PoseSE3_inverse_add_point_cancel T l hT]

/-- box-plus is left-equivariant, for **every** increment (both branches of se3.py:182-186) -/
theorem boxplus_frame_SE3 (T p : Fin 7 → ℝ) (δ : Fin 6 → ℝ) (hT : Unit4 T) (hp : Unit4 p) :
    PoseSE3.boxplus (PoseSE3.add T p) δ = PoseSE3.add T (PoseSE3.boxplus p δ) := by
  by_cases h : vnorm2 δ ≤ 1
  · rw [PoseSE3_boxplus_eq_add_lift _ δ h, PoseSE3_boxplus_eq_add_lift p δ h, PoseSE3_add_assoc T p _ hT hp]
  · rw [PoseSE3_boxplus_big _ δ (lt_of_not_ge h), PoseSE3_boxplus_big p δ (lt_of_not_ge h), PoseSE3_add_assoc T p _ hT hp]

/-- the action on points is affine with linear part `R_T` (= `jacobian_self_oplus_point_wrt_point`) -/
theorem add_point_affine_SE3 (T : Fin 7 → ℝ) (l δ : Fin 3 → ℝ) (i : Fin 3) :
    PoseSE3.add_point T (PoseR3.boxplus l δ) i
      = PoseSE3.add_point T l i + dotMV (PoseSE3.jacobian_self_oplus_point_wrt_point T l) δ i := by
  fin_cases i <;>
    simp [PoseSE3.add_point, PoseR3.boxplus, PoseSE3.jacobian_self_oplus_point_wrt_point, dotMV, finSum_three] <;> ring

theorem toCLM_injective {m n : Nat} {M M' : Fin m → Fin n → ℝ} (h : toCLM M = toCLM M') : M = M' := by
  funext i j
  have := congrFun (congrArg (fun L => L (Pi.single j 1)) h) i
  simp only [toCLM_apply] at this
  simpa [Pi.single_apply, Finset.sum_ite_eq'] using this

/-- **the Jacobian of a pose vertex does not see the frame** (SE(3) odometry, vertex 0): both matrices are the Fréchet
    derivative (C01) of one and the same function of the increment -/
theorem jacobians_frame_odometry_SE3_v0 (T z p0 p1 : Fin 7 → ℝ) (hT : Unit4 T) (h0 : Unit4 p0) :
    EdgeOdometry.calc_jacobians_SE3_0 z (PoseSE3.add T p0) (PoseSE3.add T p1) = EdgeOdometry.calc_jacobians_SE3_0 z p0 p1 := by
  apply toCLM_injective
  have h1 := C01.odometry_SE3_v0 z (PoseSE3.add T p0) (PoseSE3.add T p1)
  have h2 := C01.odometry_SE3_v0 z p0 p1
  have hfun : (fun δ => EdgeOdometry.calc_error_SE3 z (PoseSE3.boxplus (PoseSE3.add T p0) δ) (PoseSE3.add T p1))
      = fun δ => EdgeOdometry.calc_error_SE3 z (PoseSE3.boxplus p0 δ) p1 := by
    funext δ
    rw [boxplus_frame_SE3 T p0 δ hT h0]
    exact odometry_SE3_frame T z _ p1 hT (C11_unit_boxplus p0 δ h0)
  rw [hfun] at h1
  exact h1.unique h2
where
  C11_unit_boxplus (p : Fin 7 → ℝ) (δ : Fin 6 → ℝ) (hp : Unit4 p) : Unit4 (PoseSE3.boxplus p δ) := by
    by_cases h : vnorm2 δ ≤ 1
    · rw [PoseSE3_boxplus_eq_add_lift p δ h]
      apply PoseSE3_unit_add p _ hp
      unfold Unit4; simp only [lift]
      have hs : Real.sqrt (1 - vnorm2 δ) ^ 2 = 1 - vnorm2 δ := Real.sq_sqrt (by linarith)
      rw [hs]; unfold vnorm2; ring
    · rw [PoseSE3_boxplus_big p δ (lt_of_not_ge h)]
      apply PoseSE3_unit_add p _ hp
      unfold Unit4; norm_num

/-! ## SE(2) -/

theorem PoseSE2_sub_frame (T a b : Fin 3 → ℝ) :
    PoseSE2.sub (PoseSE2.add T b) (PoseSE2.add T a) = PoseSE2.sub b a := by
  funext i
  fin_cases i <;> se2_unfold <;> (try simp only [Real.cos_add, Real.sin_add])
  · linear_combination ((b 0 - a 0) * Real.cos (a 2) + (b 1 - a 1) * Real.sin (a 2)) * (Real.sin_sq_add_cos_sq (T 2))
  · linear_combination ((a 0 - b 0) * Real.sin (a 2) + (b 1 - a 1) * Real.cos (a 2)) * (Real.sin_sq_add_cos_sq (T 2))
  · congr 1; ring

theorem odometry_SE2_frame (T z p0 p1 : Fin 3 → ℝ) :
    EdgeOdometry.calc_error_SE2 z (PoseSE2.add T p0) (PoseSE2.add T p1) = EdgeOdometry.calc_error_SE2 z p0 p1 := by
  unfold EdgeOdometry.calc_error_SE2
  rw [PoseSE2_sub_frame T p0 p1]

theorem boxplus_frame_SE2 (T p δ : Fin 3 → ℝ) :
    PoseSE2.boxplus (PoseSE2.add T p) δ = PoseSE2.add T (PoseSE2.boxplus p δ) := by
  rw [PoseSE2_boxplus_eq_add, PoseSE2_boxplus_eq_add, PoseSE2_add_assoc]

theorem landmark_SE2_frame (T : Fin 3 → ℝ) (z : Fin 2 → ℝ) (off p0 : Fin 3 → ℝ) (l : Fin 2 → ℝ) :
    EdgeLandmark.calc_error_SE2 z off (PoseSE2.add T p0) (PoseSE2.add_point T l) = EdgeLandmark.calc_error_SE2 z off p0 l := by
  funext i
  fin_cases i <;>
    simp only [EdgeLandmark.calc_error_SE2, PoseR2.to_compact, PoseR2.sub] <;>
    se2_unfold <;> (try simp only [Real.cos_add, Real.sin_add, Real.cos_neg, Real.sin_neg])
  · linear_combination ((l 0 - p0 0 - off 0 * Real.cos (p0 2) + off 1 * Real.sin (p0 2)) * (Real.cos (p0 2) * Real.cos (off 2) - Real.sin (p0 2) * Real.sin (off 2)) + (l 1 - p0 1 - off 0 * Real.sin (p0 2) - off 1 * Real.cos (p0 2)) * (Real.sin (p0 2) * Real.cos (off 2) + Real.cos (p0 2) * Real.sin (off 2))) * (Real.sin_sq_add_cos_sq (T 2))
  · linear_combination (-(l 0 - p0 0 - off 0 * Real.cos (p0 2) + off 1 * Real.sin (p0 2)) * (Real.sin (p0 2) * Real.cos (off 2) + Real.cos (p0 2) * Real.sin (off 2)) + (l 1 - p0 1 - off 0 * Real.sin (p0 2) - off 1 * Real.cos (p0 2)) * (Real.cos (p0 2) * Real.cos (off 2) - Real.sin (p0 2) * Real.sin (off 2))) * (Real.sin_sq_add_cos_sq (T 2))

/-! ## R² / R³ (translations) -/

theorem odometry_R2_frame (T z p0 p1 : Fin 2 → ℝ) :
    EdgeOdometry.calc_error_R2 z (PoseR2.add T p0) (PoseR2.add T p1) = EdgeOdometry.calc_error_R2 z p0 p1 := by
  funext i; fin_cases i <;> simp [EdgeOdometry.calc_error_R2, PoseR2.to_compact, PoseR2.sub, PoseR2.add]

theorem odometry_R3_frame (T z p0 p1 : Fin 3 → ℝ) :
    EdgeOdometry.calc_error_R3 z (PoseR3.add T p0) (PoseR3.add T p1) = EdgeOdometry.calc_error_R3 z p0 p1 := by
  funext i; fin_cases i <;> simp [EdgeOdometry.calc_error_R3, PoseR3.to_compact, PoseR3.sub, PoseR3.add]

theorem landmark_R2_frame (T z off p0 l : Fin 2 → ℝ) :
    EdgeLandmark.calc_error_R2 z off (PoseR2.add T p0) (PoseR2.add T l) = EdgeLandmark.calc_error_R2 z off p0 l := by
  funext i; fin_cases i <;>
    simp [EdgeLandmark.calc_error_R2, PoseR2.to_compact, PoseR2.sub, PoseR2.add, PoseR2.inverse] <;> ring

theorem landmark_R3_frame (T z off p0 l : Fin 3 → ℝ) :
    EdgeLandmark.calc_error_R3 z off (PoseR3.add T p0) (PoseR3.add T l) = EdgeLandmark.calc_error_R3 z off p0 l := by
  funext i; fin_cases i <;>
    simp [EdgeLandmark.calc_error_R3, PoseR3.to_compact, PoseR3.sub, PoseR3.add, PoseR3.inverse] <;> ring

theorem boxplus_frame_R2 (T p δ : Fin 2 → ℝ) : PoseR2.boxplus (PoseR2.add T p) δ = PoseR2.add T (PoseR2.boxplus p δ) := by
  funext i; fin_cases i <;> simp [PoseR2.boxplus, PoseR2.add] <;> ring

theorem boxplus_frame_R3 (T p δ : Fin 3 → ℝ) : PoseR3.boxplus (PoseR3.add T p) δ = PoseR3.add T (PoseR3.boxplus p δ) := by
  funext i; fin_cases i <;> simp [PoseR3.boxplus, PoseR3.add] <;> ring

end GraphSlam.Props.C07
