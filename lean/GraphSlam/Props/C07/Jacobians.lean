import GraphSlam.Props.C07.Invariance
import GraphSlam.Props.C01.SE2
import GraphSlam.Props.C01.SE3
import GraphSlam.Props.C01.Rn

/-!
# C07 — the Jacobians handed to the optimiser do not see the world frame (pose vertices)

For a *pose* vertex the error as a function of the box-plus increment is the same function in both frames
(`boxplus_frame_*` + `*_frame`), so its Fréchet derivative — which C01 proves is the matrix `calc_jacobians()` returns —
is the same matrix.  SE(3): directly by uniqueness of the derivative.  SE(2): the matrix is the (unconditional)
derivative of the wrap-free error (`C01.odo0_jac`), and the wrap-free errors of the two frames differ by a constant
multiple of 2π in the angular slot, so no "off the wrap" hypothesis is needed: the matrices agree at every state.
-/

namespace GraphSlam.Props.C07
open GraphSlam GraphSlam.Gen GraphSlam.Expr GraphSlam.Props.C01 GraphSlam.Props.C09 GraphSlam.Props.C10
set_option linter.unusedSimpArgs false
set_option linter.unusedVariables false
set_option maxHeartbeats 4000000

/-! ## SE(2) odometry -/

/-- the wrap-free error as a function of the increment of vertex 0 / vertex 1 -/
noncomputable def U0 (z p0 p1 : Fin 3 → ℝ) : (Fin 3 → ℝ) → Fin 3 → ℝ :=
  fun δ i => eval (packO z p0 p1) δ (unwrap (odoE0 i))
noncomputable def U1 (z p0 p1 : Fin 3 → ℝ) : (Fin 3 → ℝ) → Fin 3 → ℝ :=
  fun δ i => eval (packO z p0 p1) δ (unwrap (odoE1 i))

theorem U0_deriv (z p0 p1 : Fin 3 → ℝ) :
    HasFDerivAt (U0 z p0 p1) (toCLM (EdgeOdometry.calc_jacobians_SE2_0 z p0 p1)) 0 := by
  rw [toCLM_congr (odo0_jac z p0 p1)]
  exact hasFDerivAt_evalVec _ _ _ (fun i => smooth_unwrap _ _ _)

theorem U1_deriv (z p0 p1 : Fin 3 → ℝ) :
    HasFDerivAt (U1 z p0 p1) (toCLM (EdgeOdometry.calc_jacobians_SE2_1 z p0 p1)) 0 := by
  rw [toCLM_congr (odo1_jac z p0 p1)]
  exact hasFDerivAt_evalVec _ _ _ (fun i => smooth_unwrap _ _ _)

/-- the constant by which the wrap-free angular errors of the two frames differ -/
noncomputable def shift (T p0 p1 : Fin 3 → ℝ) : Fin 3 → ℝ :=
  fun i => if i = 2 then (PoseSE2.add T p0 2 - p0 2) - (PoseSE2.add T p1 2 - p1 2) else 0

theorem U0_wrap (z p0 p1 δ : Fin 3 → ℝ) (i : Fin 3) (hi : i ≠ 2) :
    U0 z p0 p1 δ i = EdgeOdometry.calc_error_SE2 z (PoseSE2.boxplus p0 δ) p1 i := by
  have h := congrFun (odo0_unwrap z p0 p1 δ) i
  rw [odo0_reflect, h]; simp [wrap2, hi, U0]

theorem U1_wrap (z p0 p1 δ : Fin 3 → ℝ) (i : Fin 3) (hi : i ≠ 2) :
    U1 z p0 p1 δ i = EdgeOdometry.calc_error_SE2 z p0 (PoseSE2.boxplus p1 δ) i := by
  have h := congrFun (odo1_unwrap z p0 p1 δ) i
  rw [odo1_reflect, h]; simp [wrap2, hi, U1]

theorem U0_frame (T z p0 p1 δ : Fin 3 → ℝ) :
    U0 z (PoseSE2.add T p0) (PoseSE2.add T p1) δ = U0 z p0 p1 δ + shift T p0 p1 := by
  funext i
  by_cases hi : i = 2
  · subst hi
    simp only [U0, shift, Pi.add_apply, if_true]
    se2_simp
    ring
  · rw [U0_wrap _ _ _ _ i hi, boxplus_frame_SE2, odometry_SE2_frame, ← U0_wrap _ _ _ _ i hi]
    simp [shift, hi]

theorem U1_frame (T z p0 p1 δ : Fin 3 → ℝ) :
    U1 z (PoseSE2.add T p0) (PoseSE2.add T p1) δ = U1 z p0 p1 δ + shift T p0 p1 := by
  funext i
  by_cases hi : i = 2
  · subst hi
    simp only [U1, shift, Pi.add_apply, if_true]
    se2_simp
    ring
  · rw [U1_wrap _ _ _ _ i hi, boxplus_frame_SE2, odometry_SE2_frame, ← U1_wrap _ _ _ _ i hi]
    simp [shift, hi]

/-- **SE(2) odometry, vertex 0: the Jacobian is the same matrix in both frames — at every state, wrap or not** -/
theorem jacobians_frame_odometry_SE2_v0 (T z p0 p1 : Fin 3 → ℝ) :
    EdgeOdometry.calc_jacobians_SE2_0 z (PoseSE2.add T p0) (PoseSE2.add T p1) = EdgeOdometry.calc_jacobians_SE2_0 z p0 p1 := by
  apply toCLM_injective
  have h1 := U0_deriv z (PoseSE2.add T p0) (PoseSE2.add T p1)
  have h2 := (U0_deriv z p0 p1).add_const (shift T p0 p1)
  have hfun : U0 z (PoseSE2.add T p0) (PoseSE2.add T p1) = fun δ => U0 z p0 p1 δ + shift T p0 p1 := by
    funext δ; exact U0_frame T z p0 p1 δ
  rw [hfun] at h1
  exact h1.unique h2

theorem jacobians_frame_odometry_SE2_v1 (T z p0 p1 : Fin 3 → ℝ) :
    EdgeOdometry.calc_jacobians_SE2_1 z (PoseSE2.add T p0) (PoseSE2.add T p1) = EdgeOdometry.calc_jacobians_SE2_1 z p0 p1 := by
  apply toCLM_injective
  have h1 := U1_deriv z (PoseSE2.add T p0) (PoseSE2.add T p1)
  have h2 := (U1_deriv z p0 p1).add_const (shift T p0 p1)
  have hfun : U1 z (PoseSE2.add T p0) (PoseSE2.add T p1) = fun δ => U1 z p0 p1 δ + shift T p0 p1 := by
    funext δ; exact U1_frame T z p0 p1 δ
  rw [hfun] at h1
  exact h1.unique h2

/-! ## uniqueness of the derivative, packaged -/

theorem jac_eq_of_fun_eq {n m : Nat} {f g : (Fin n → ℝ) → Fin m → ℝ} {A B : Fin m → Fin n → ℝ}
    (hf : HasFDerivAt f (toCLM A) 0) (hg : HasFDerivAt g (toCLM B) 0) (h : f = g) : A = B := by
  apply toCLM_injective
  rw [h] at hf
  exact hf.unique hg

theorem unit_boxplus (p : Fin 7 → ℝ) (δ : Fin 6 → ℝ) (hp : Unit4 p) : Unit4 (PoseSE3.boxplus p δ) :=
  jacobians_frame_odometry_SE3_v0.C11_unit_boxplus p δ hp

/-! ## SE(3) -/

theorem jacobians_frame_odometry_SE3_v1 (T z p0 p1 : Fin 7 → ℝ) (hT : Unit4 T) (h0 : Unit4 p0) (h1 : Unit4 p1) :
    EdgeOdometry.calc_jacobians_SE3_1 z (PoseSE3.add T p0) (PoseSE3.add T p1) = EdgeOdometry.calc_jacobians_SE3_1 z p0 p1 :=
  jac_eq_of_fun_eq (C01.odometry_SE3_v1 z _ _) (C01.odometry_SE3_v1 z p0 p1) (by
    funext δ
    rw [boxplus_frame_SE3 T p1 δ hT h1]
    exact odometry_SE3_frame T z p0 _ hT h0)

theorem jacobians_frame_landmark_SE3_v0 (T : Fin 7 → ℝ) (z : Fin 3 → ℝ) (off p0 : Fin 7 → ℝ) (l : Fin 3 → ℝ)
    (hT : Unit4 T) (h0 : Unit4 p0) (ho : Unit4 off) :
    EdgeLandmark.calc_jacobians_SE3_0 z off (PoseSE3.add T p0) (PoseSE3.add_point T l) = EdgeLandmark.calc_jacobians_SE3_0 z off p0 l :=
  jac_eq_of_fun_eq (C01.landmark_SE3_v0 z off _ _) (C01.landmark_SE3_v0 z off p0 l) (by
    funext δ
    rw [boxplus_frame_SE3 T p0 δ hT h0]
    exact landmark_SE3_frame T z off _ l hT (unit_boxplus p0 δ h0) ho)

/-! ## SE(2) landmark, pose vertex -/

theorem jacobians_frame_landmark_SE2_v0 (T : Fin 3 → ℝ) (z : Fin 2 → ℝ) (off p0 : Fin 3 → ℝ) (l : Fin 2 → ℝ) :
    EdgeLandmark.calc_jacobians_SE2_0 z off (PoseSE2.add T p0) (PoseSE2.add_point T l) = EdgeLandmark.calc_jacobians_SE2_0 z off p0 l :=
  jac_eq_of_fun_eq (C01.landmark_SE2_v0 z off _ _) (C01.landmark_SE2_v0 z off p0 l) (by
    funext δ
    rw [boxplus_frame_SE2 T p0 δ]
    exact landmark_SE2_frame T z off _ l)

/-! ## R² / R³ (translations): every vertex of every edge -/

theorem jacobians_frame_odometry_R2_v0 (T z p0 p1 : Fin 2 → ℝ) :
    EdgeOdometry.calc_jacobians_R2_0 z (PoseR2.add T p0) (PoseR2.add T p1) = EdgeOdometry.calc_jacobians_R2_0 z p0 p1 :=
  jac_eq_of_fun_eq (C01.odometry_R2_v0 z _ _) (C01.odometry_R2_v0 z p0 p1) (by
    funext δ; rw [boxplus_frame_R2]; exact odometry_R2_frame T z _ p1)
theorem jacobians_frame_odometry_R2_v1 (T z p0 p1 : Fin 2 → ℝ) :
    EdgeOdometry.calc_jacobians_R2_1 z (PoseR2.add T p0) (PoseR2.add T p1) = EdgeOdometry.calc_jacobians_R2_1 z p0 p1 :=
  jac_eq_of_fun_eq (C01.odometry_R2_v1 z _ _) (C01.odometry_R2_v1 z p0 p1) (by
    funext δ; rw [boxplus_frame_R2]; exact odometry_R2_frame T z p0 _)
theorem jacobians_frame_odometry_R3_v0 (T z p0 p1 : Fin 3 → ℝ) :
    EdgeOdometry.calc_jacobians_R3_0 z (PoseR3.add T p0) (PoseR3.add T p1) = EdgeOdometry.calc_jacobians_R3_0 z p0 p1 :=
  jac_eq_of_fun_eq (C01.odometry_R3_v0 z _ _) (C01.odometry_R3_v0 z p0 p1) (by
    funext δ; rw [boxplus_frame_R3]; exact odometry_R3_frame T z _ p1)
theorem jacobians_frame_odometry_R3_v1 (T z p0 p1 : Fin 3 → ℝ) :
    EdgeOdometry.calc_jacobians_R3_1 z (PoseR3.add T p0) (PoseR3.add T p1) = EdgeOdometry.calc_jacobians_R3_1 z p0 p1 :=
  jac_eq_of_fun_eq (C01.odometry_R3_v1 z _ _) (C01.odometry_R3_v1 z p0 p1) (by
    funext δ; rw [boxplus_frame_R3]; exact odometry_R3_frame T z p0 _)
theorem jacobians_frame_landmark_R2_v0 (T z off p0 l : Fin 2 → ℝ) :
    EdgeLandmark.calc_jacobians_R2_0 z off (PoseR2.add T p0) (PoseR2.add T l) = EdgeLandmark.calc_jacobians_R2_0 z off p0 l :=
  jac_eq_of_fun_eq (C01.landmark_R2_v0 z off _ _) (C01.landmark_R2_v0 z off p0 l) (by
    funext δ; rw [boxplus_frame_R2]; exact landmark_R2_frame T z off _ l)
theorem jacobians_frame_landmark_R2_v1 (T z off p0 l : Fin 2 → ℝ) :
    EdgeLandmark.calc_jacobians_R2_1 z off (PoseR2.add T p0) (PoseR2.add T l) = EdgeLandmark.calc_jacobians_R2_1 z off p0 l :=
  jac_eq_of_fun_eq (C01.landmark_R2_v1 z off _ _) (C01.landmark_R2_v1 z off p0 l) (by
    funext δ; rw [boxplus_frame_R2]; exact landmark_R2_frame T z off p0 _)
theorem jacobians_frame_landmark_R3_v0 (T z off p0 l : Fin 3 → ℝ) :
    EdgeLandmark.calc_jacobians_R3_0 z off (PoseR3.add T p0) (PoseR3.add T l) = EdgeLandmark.calc_jacobians_R3_0 z off p0 l :=
  jac_eq_of_fun_eq (C01.landmark_R3_v0 z off _ _) (C01.landmark_R3_v0 z off p0 l) (by
    funext δ; rw [boxplus_frame_R3]; exact landmark_R3_frame T z off _ l)
theorem jacobians_frame_landmark_R3_v1 (T z off p0 l : Fin 3 → ℝ) :
    EdgeLandmark.calc_jacobians_R3_1 z off (PoseR3.add T p0) (PoseR3.add T l) = EdgeLandmark.calc_jacobians_R3_1 z off p0 l :=
  jac_eq_of_fun_eq (C01.landmark_R3_v1 z off _ _) (C01.landmark_R3_v1 z off p0 l) (by
    funext δ; rw [boxplus_frame_R3]; exact landmark_R3_frame T z off p0 _)

end GraphSlam.Props.C07
