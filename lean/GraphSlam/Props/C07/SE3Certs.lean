import GraphSlam.Props.C09.SE3

/-!
# C07 — certificate lemmas for SE(3) (generated once by tools/dev/gen_c07.py, kernel-checked)
-/

namespace GraphSlam.Props.C07
open GraphSlam GraphSlam.Gen GraphSlam.Props.C09
set_option linter.unusedSimpArgs false
set_option linter.unusedVariables false
set_option maxHeartbeats 4000000

/-- `(p ⊕ q)⁻¹ = q⁻¹ ⊕ p⁻¹` (unit `p`, `q`) -/
theorem PoseSE3_inverse_add_rev (p q : Fin 7 → ℝ) (hp : Unit4 p) (hq : Unit4 q) :
    PoseSE3.inverse (PoseSE3.add p q) = PoseSE3.add (PoseSE3.inverse q) (PoseSE3.inverse p) := by
  try unfold Unit4 at *
  funext i
  fin_cases i
  · se3_unfold <;> linear_combination (2*p 0*q 4^2 + 2*p 0*q 5^2 - 2*p 1*q 3*q 4 - 2*p 1*q 5*q 6 - 2*p 2*q 3*q 5 + 2*p 2*q 4*q 6 - 4*p 3^2*q 1*q 3*q 4 - 4*p 3^2*q 1*q 5*q 6 - 4*p 3^2*q 2*q 3*q 5 + 4*p 3^2*q 2*q 4*q 6 + 4*p 3*p 4*q 0*q 3*q 4 + 4*p 3*p 4*q 0*q 5*q 6 + 4*p 3*p 4*q 1*q 3^2 + 4*p 3*p 4*q 1*q 6^2 + 4*p 3*p 5*q 0*q 3*q 5 - 4*p 3*p 5*q 0*q 4*q 6 + 4*p 3*p 5*q 2*q 3^2 + 4*p 3*p 5*q 2*q 6^2 - 4*p 3*p 6*q 1*q 3*q 5 + 4*p 3*p 6*q 1*q 4*q 6 + 4*p 3*p 6*q 2*q 3*q 4 + 4*p 3*p 6*q 2*q 5*q 6 - 4*p 4^2*q 0*q 3^2 - 4*p 4^2*q 0*q 6^2 - 4*p 4^2*q 2*q 3*q 5 + 4*p 4^2*q 2*q 4*q 6 + 4*p 4*p 5*q 1*q 3*q 5 - 4*p 4*p 5*q 1*q 4*q 6 + 4*p 4*p 5*q 2*q 3*q 4 + 4*p 4*p 5*q 2*q 5*q 6 + 4*p 4*p 6*q 0*q 3*q 5 - 4*p 4*p 6*q 0*q 4*q 6 + 4*p 4*p 6*q 2*q 4^2 + 4*p 4*p 6*q 2*q 5^2 - 4*p 5^2*q 0*q 3^2 - 4*p 5^2*q 0*q 6^2 - 4*p 5^2*q 1*q 3*q 4 - 4*p 5^2*q 1*q 5*q 6 - 4*p 5*p 6*q 0*q 3*q 4 - 4*p 5*p 6*q 0*q 5*q 6 - 4*p 5*p 6*q 1*q 4^2 - 4*p 5*p 6*q 1*q 5^2 + 2*q 0*q 4^2 + 2*q 0*q 5^2 - 2*q 1*q 3*q 4 - 2*q 1*q 5*q 6 - 2*q 2*q 3*q 5 + 2*q 2*q 4*q 6) * hp + (2*p 0*p 4^2 + 2*p 0*p 5^2 - 2*p 1*p 3*p 4 - 2*p 1*p 5*p 6 - 2*p 2*p 3*p 5 + 2*p 2*p 4*p 6 + 2*p 3*p 4*q 1 + 2*p 3*p 5*q 2 - 2*p 4^2*q 0 + 2*p 4*p 6*q 2 - 2*p 5^2*q 0 - 2*p 5*p 6*q 1) * hq
  · se3_unfold <;> linear_combination (-2*p 0*q 3*q 4 + 2*p 0*q 5*q 6 + 4*p 1*q 3^2 + 2*p 1*q 4^2 + 4*p 1*q 5^2 + 2*p 1*q 6^2 - 2*p 1 - 2*p 2*q 3*q 6 - 2*p 2*q 4*q 5 - 4*p 3^2*q 1*q 4^2 - 4*p 3^2*q 1*q 6^2 - 4*p 3^2*q 2*q 3*q 6 - 4*p 3^2*q 2*q 4*q 5 + 4*p 3*p 4*q 0*q 4^2 + 4*p 3*p 4*q 0*q 6^2 + 4*p 3*p 4*q 1*q 3*q 4 - 4*p 3*p 4*q 1*q 5*q 6 + 4*p 3*p 5*q 0*q 3*q 6 + 4*p 3*p 5*q 0*q 4*q 5 + 4*p 3*p 5*q 2*q 3*q 4 - 4*p 3*p 5*q 2*q 5*q 6 - 4*p 3*p 6*q 1*q 3*q 6 - 4*p 3*p 6*q 1*q 4*q 5 - 4*p 3*p 6*q 2*q 3^2 - 4*p 3*p 6*q 2*q 5^2 - 4*p 4^2*q 0*q 3*q 4 + 4*p 4^2*q 0*q 5*q 6 - 4*p 4^2*q 2*q 3*q 6 - 4*p 4^2*q 2*q 4*q 5 + 4*p 4*p 5*q 1*q 3*q 6 + 4*p 4*p 5*q 1*q 4*q 5 + 4*p 4*p 5*q 2*q 4^2 + 4*p 4*p 5*q 2*q 6^2 + 4*p 4*p 6*q 0*q 3*q 6 + 4*p 4*p 6*q 0*q 4*q 5 - 4*p 4*p 6*q 2*q 3*q 4 + 4*p 4*p 6*q 2*q 5*q 6 - 4*p 5^2*q 0*q 3*q 4 + 4*p 5^2*q 0*q 5*q 6 - 4*p 5^2*q 1*q 4^2 - 4*p 5^2*q 1*q 6^2 + 4*p 5*p 6*q 0*q 3^2 + 4*p 5*p 6*q 0*q 5^2 + 4*p 5*p 6*q 1*q 3*q 4 - 4*p 5*p 6*q 1*q 5*q 6 - 2*q 0*q 3*q 4 + 2*q 0*q 5*q 6 - 2*q 1*q 4^2 - 2*q 1*q 6^2 + 2*q 1 - 2*q 2*q 3*q 6 - 2*q 2*q 4*q 5) * hp + (-2*p 0*p 3*p 4 + 2*p 0*p 5*p 6 - 2*p 1*p 4^2 - 2*p 1*p 6^2 + 2*p 1 - 2*p 2*p 3*p 6 - 2*p 2*p 4*p 5 + 2*p 3*p 4*q 0 - 2*p 3*p 6*q 2 + 2*p 4^2*q 1 + 2*p 4*p 5*q 2 + 2*p 5*p 6*q 0 + 2*p 6^2*q 1 - 2*q 1) * hq
  · se3_unfold <;> linear_combination (-2*p 0*q 3*q 5 - 2*p 0*q 4*q 6 + 2*p 1*q 3*q 6 - 2*p 1*q 4*q 5 + 4*p 2*q 3^2 + 4*p 2*q 4^2 + 2*p 2*q 5^2 + 2*p 2*q 6^2 - 2*p 2 + 4*p 3^2*q 1*q 3*q 6 - 4*p 3^2*q 1*q 4*q 5 - 4*p 3^2*q 2*q 5^2 - 4*p 3^2*q 2*q 6^2 - 4*p 3*p 4*q 0*q 3*q 6 + 4*p 3*p 4*q 0*q 4*q 5 + 4*p 3*p 4*q 1*q 3*q 5 + 4*p 3*p 4*q 1*q 4*q 6 + 4*p 3*p 5*q 0*q 5^2 + 4*p 3*p 5*q 0*q 6^2 + 4*p 3*p 5*q 2*q 3*q 5 + 4*p 3*p 5*q 2*q 4*q 6 + 4*p 3*p 6*q 1*q 3^2 + 4*p 3*p 6*q 1*q 4^2 - 4*p 3*p 6*q 2*q 3*q 6 + 4*p 3*p 6*q 2*q 4*q 5 - 4*p 4^2*q 0*q 3*q 5 - 4*p 4^2*q 0*q 4*q 6 - 4*p 4^2*q 2*q 5^2 - 4*p 4^2*q 2*q 6^2 + 4*p 4*p 5*q 1*q 5^2 + 4*p 4*p 5*q 1*q 6^2 - 4*p 4*p 5*q 2*q 3*q 6 + 4*p 4*p 5*q 2*q 4*q 5 - 4*p 4*p 6*q 0*q 3^2 - 4*p 4*p 6*q 0*q 4^2 - 4*p 4*p 6*q 2*q 3*q 5 - 4*p 4*p 6*q 2*q 4*q 6 - 4*p 5^2*q 0*q 3*q 5 - 4*p 5^2*q 0*q 4*q 6 + 4*p 5^2*q 1*q 3*q 6 - 4*p 5^2*q 1*q 4*q 5 + 4*p 5*p 6*q 0*q 3*q 6 - 4*p 5*p 6*q 0*q 4*q 5 + 4*p 5*p 6*q 1*q 3*q 5 + 4*p 5*p 6*q 1*q 4*q 6 - 2*q 0*q 3*q 5 - 2*q 0*q 4*q 6 + 2*q 1*q 3*q 6 - 2*q 1*q 4*q 5 - 2*q 2*q 5^2 - 2*q 2*q 6^2 + 2*q 2) * hp + (-2*p 0*p 3*p 5 - 2*p 0*p 4*p 6 + 2*p 1*p 3*p 6 - 2*p 1*p 4*p 5 - 2*p 2*p 5^2 - 2*p 2*p 6^2 + 2*p 2 + 2*p 3*p 5*q 0 + 2*p 3*p 6*q 1 + 2*p 4*p 5*q 1 - 2*p 4*p 6*q 0 + 2*p 5^2*q 2 + 2*p 6^2*q 2 - 2*q 2) * hq
  · se3_unfold <;> ring
  · se3_unfold <;> ring
  · se3_unfold <;> ring
  · se3_unfold <;> ring

/-- `p⁻¹ • (p • x) = x` (unit `p`) -/
theorem PoseSE3_inverse_add_point_cancel (p : Fin 7 → ℝ) (x : Fin 3 → ℝ) (hp : Unit4 p) :
    PoseSE3.add_point (PoseSE3.inverse p) (PoseSE3.add_point p x) = x := by
  try unfold Unit4 at *
  funext i
  fin_cases i
  · se3_unfold <;> linear_combination (-4*p 3*p 4*x 1 - 4*p 3*p 5*x 2 + 4*p 4^2*x 0 + 4*p 5^2*x 0) * hp
  · se3_unfold <;> linear_combination (4*p 3^2*x 1 - 4*p 3*p 4*x 0 - 4*p 4*p 5*x 2 + 4*p 5^2*x 1) * hp
  · se3_unfold <;> linear_combination (4*p 3^2*x 2 - 4*p 3*p 5*x 0 + 4*p 4^2*x 2 - 4*p 4*p 5*x 1) * hp

end GraphSlam.Props.C07
