import GraphSlam.Props.C03.Accumulate
import GraphSlam.Props.C03.EdgeSum

/-! C03 — umbrella. -/
