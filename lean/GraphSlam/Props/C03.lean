import GraphSlam.Props.C03.Accumulate
import GraphSlam.Props.C03.EdgeSum
import GraphSlam.Props.C03.Invariants
import GraphSlam.Props.C03.Fill
import GraphSlam.Props.C03.Assembled
import GraphSlam.Props.E2E.Step
import GraphSlam.Props.Tie.GraphPy

/-! C03 — umbrella. -/
