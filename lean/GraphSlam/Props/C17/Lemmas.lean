import GraphSlam.Props.C17.Real
import Mathlib.Data.List.Forall2

/-!
# C17 — helper lemmas: what each `equals` method decides on well-formed objects

`Decides r P` : the result `r` is not an exception and its truth value is the proposition `P`.  For every level
(pose, vertex, estimate, edge, graph) a `…Close tol x y` proposition is defined — equal discrete skeleton and every
numeric block within the tolerance test — and `…Equals tol x y` is shown to decide it.
-/

namespace GraphSlam.Props.C17
open GraphSlam.Model.Cmp GraphSlam.Model.Equals

/-- `r` does not raise and is truthy exactly when `P` holds -/
def Decides (r : Except PyErr Bool) (P : Prop) : Prop := ∃ b, r = .ok b ∧ (b = true ↔ P)

section
variable {r r' : Except PyErr Bool} {P Q : Prop}

lemma Decides.total (h : Decides r P) : ∃ b, r = .ok b := let ⟨b, hb, _⟩ := h; ⟨b, hb⟩

lemma Decides.true_iff (h : Decides r P) : r = .ok true ↔ P := by
  obtain ⟨b, rfl, hb⟩ := h
  constructor
  · intro h; simp only [Except.ok.injEq] at h; exact hb.mp h
  · intro hp; rw [hb.mpr hp]

lemma Decides.false_iff (h : Decides r P) : r = .ok false ↔ ¬ P := by
  obtain ⟨b, rfl, hb⟩ := h
  constructor
  · intro h hp; simp only [Except.ok.injEq] at h; rw [hb.mpr hp] at h; cases h
  · intro hp
    cases b with
    | false => rfl
    | true => exact absurd (hb.mp rfl) hp

lemma Decides.congr (h : Decides r P) (hpq : P ↔ Q) : Decides r Q :=
  let ⟨b, hb, hp⟩ := h; ⟨b, hb, hp.trans hpq⟩

lemma decides_false (hn : ¬ P) : Decides (.ok false) P := ⟨false, rfl, by simp [hn]⟩

lemma decides_bool (b : Bool) : Decides (.ok b) (b = true) := ⟨b, rfl, Iff.rfl⟩

lemma Decides.ite {c : Prop} [Decidable c] (h : Decides r P) :
    Decides (if c then .ok false else r) (¬ c ∧ P) := by
  by_cases hc : c
  · rw [if_pos hc]; exact decides_false (fun hh => hh.1 hc)
  · rw [if_neg hc]; exact h.congr (by simp [hc])

lemma Decides.eq_of_iff (h1 : Decides r P) (h2 : Decides r' Q) (hpq : P ↔ Q) : r = r' := by
  obtain ⟨b, rfl, hb⟩ := h1
  obtain ⟨b', rfl, hb'⟩ := h2
  have : b = true ↔ b' = true := hb.trans (hpq.trans hb'.symm)
  cases b <;> cases b' <;> simp_all
end

variable {tol : ℝ}

/-! ## poses -/

/-- same class and `‖a − b‖ < tol·max(‖a‖, tol)` -/
def PoseClose (tol : ℝ) (a b : Pose ℝ) : Prop := a.kind = b.kind ∧ Near tol a.comps b.comps

lemma wf_length {p : Pose ℝ} (h : p.WF = true) : p.comps.length = p.kind.dim := by
  simpa [Pose.WF] using h

lemma poseEquals_of_kind_ne (a b : Pose ℝ) (hk : a.kind ≠ b.kind) : poseEquals tol a b = .ok false := by
  unfold poseEquals; rw [if_pos hk]

lemma poseEquals_decides (htol : 0 < tol) (a b : Pose ℝ) (ha : a.WF = true) (hb : b.WF = true) :
    Decides (poseEquals tol a b) (PoseClose tol a b) := by
  unfold PoseClose
  by_cases hk : a.kind = b.kind
  · have hl : a.comps.length = b.comps.length := by rw [wf_length ha, wf_length hb, hk]
    have : poseEquals tol a b = .ok (CmpScalar.lt (relDiff tol a.comps (zipSub a.comps b.comps)) tol) := by
      unfold poseEquals npSub1
      rw [if_neg (not_not.mpr hk), if_pos hl]
    rw [this]
    exact (decides_bool _).congr (by rw [lt_relDiff_iff htol]; simp [hk])
  · rw [poseEquals_of_kind_ne a b hk]
    exact decides_false (fun h => hk h.1)

/-! ## vertices -/

def VertexClose (tol : ℝ) (v w : Vertex ℝ) : Prop := v.id = w.id ∧ PoseClose tol v.pose w.pose

lemma vertexEquals_decides (htol : 0 < tol) (v w : Vertex ℝ) (hv : v.WF = true) (hw : w.WF = true) :
    Decides (vertexEquals tol v w) (VertexClose tol v w) := by
  unfold vertexEquals VertexClose
  refine (Decides.ite (Decides.ite (poseEquals_decides htol v.pose w.pose hv hw))).congr ?_
  unfold PoseClose
  tauto

/-! ## estimates -/

/-- discrete part of an estimate: pose class, or the `np.shape` of a plain value -/
inductive EstSkel where
  | pose (k : PoseKind)
  | plain (shape : List Nat)
  | none
  deriving DecidableEq

def estSkel : Estimate ℝ → EstSkel
  | .pose p => .pose p.kind
  | .array s _ => .plain s
  | .scalar _ => .plain []
  | .none => .none

/-- numeric part of an estimate -/
def estNums : Estimate ℝ → List ℝ
  | .pose p => p.comps
  | .array _ d => d
  | .scalar x => [x]
  | .none => []

def EstClose (tol : ℝ) (ea eb : Estimate ℝ) : Prop := estSkel ea = estSkel eb ∧ Near tol (estNums ea) (estNums eb)

lemma estimateEquals_decides (htol : 0 < tol) (ea eb : Estimate ℝ) (ha : ea.WF = true) (hb : eb.WF = true) :
    Decides (estimateEquals tol ea eb) (EstClose tol ea eb) := by
  unfold EstClose
  cases ea with
  | none => simp [Estimate.WF] at ha
  | pose p =>
    cases eb with
    | none => simp [Estimate.WF] at hb
    | pose q =>
      simp only [estimateEquals, estSkel, estNums]
      exact (poseEquals_decides htol p q ha hb).congr (by unfold PoseClose; simp)
    | array s d => simp only [estimateEquals]; exact decides_false (by simp [estSkel])
    | scalar x => simp only [estimateEquals]; exact decides_false (by simp [estSkel])
  | array s d =>
    cases eb with
    | none => simp [Estimate.WF] at hb
    | pose q => simp only [estimateEquals]; exact decides_false (by simp [estSkel])
    | array s' d' =>
      simp only [estimateEquals, plainEstimateEquals, Estimate.shape, Estimate.data?, estSkel, estNums]
      refine (Decides.ite (decides_bool _)).congr ?_
      rw [lt_relDiff_iff htol]; simp
    | scalar x =>
      simp only [estimateEquals, plainEstimateEquals, Estimate.shape, Estimate.data?, estSkel, estNums]
      refine (Decides.ite (decides_bool _)).congr ?_
      rw [lt_relDiff_iff htol]; simp
  | scalar x =>
    cases eb with
    | none => simp [Estimate.WF] at hb
    | pose q => simp only [estimateEquals]; exact decides_false (by simp [estSkel])
    | array s' d' =>
      simp only [estimateEquals, plainEstimateEquals, Estimate.shape, Estimate.data?, estSkel, estNums]
      refine (Decides.ite (decides_bool _)).congr ?_
      rw [lt_relDiff_iff htol]; simp [eq_comm]
    | scalar y =>
      simp only [estimateEquals, plainEstimateEquals, Estimate.shape, Estimate.data?, estSkel, estNums]
      refine (Decides.ite (decides_bool _)).congr ?_
      rw [lt_relDiff_iff htol]; simp

/-! ## edges -/

lemma idsDiffer_false_iff (xs ys : List Int) (hl : xs.length = ys.length) : idsDiffer xs ys = false ↔ xs = ys := by
  induction xs generalizing ys with
  | nil => cases ys with
    | nil => simp [idsDiffer]
    | cons y ys => simp at hl
  | cons x xs ih =>
    cases ys with
    | nil => simp at hl
    | cons y ys =>
      simp only [List.length_cons, Nat.add_right_cancel_iff] at hl
      by_cases hxy : x = y
      · simp [idsDiffer, hxy, ih ys hl]
      · simp [idsDiffer, hxy]

lemma offsetIdDiffer_false_iff (a b : Option Int) : offsetIdDiffer a b = false ↔ a = b := by
  cases a <;> cases b <;> simp [offsetIdDiffer]

/-- what `BaseEdge.equals` compares -/
def BaseClose (tol : ℝ) (a b : Edge ℝ) : Prop :=
  a.cls = b.cls ∧ a.vertexIds = b.vertexIds ∧ a.infoShape = b.infoShape ∧ Near tol a.info b.info ∧
    EstClose tol a.estimate b.estimate

lemma baseEdgeEquals_decides (htol : 0 < tol) (a b : Edge ℝ) (ha : a.estimate.WF = true) (hb : b.estimate.WF = true) :
    Decides (baseEdgeEquals tol a b) (BaseClose tol a b) := by
  unfold baseEdgeEquals BaseClose
  refine (Decides.ite (Decides.ite (Decides.ite (Decides.ite (estimateEquals_decides htol _ _ ha hb))))).congr ?_
  simp only [Bool.or_eq_true, decide_eq_true_eq, ge_relDiff_iff htol, not_or, not_not, ne_eq, Bool.not_eq_true]
  constructor
  · rintro ⟨h1, h2, h3, ⟨h4, h5⟩, h6⟩
    exact ⟨h1, (idsDiffer_false_iff _ _ h2).mp h3, h4, h5, h6⟩
  · rintro ⟨h1, h2, h3, h4, h5⟩
    have hl : a.vertexIds.length = b.vertexIds.length := by rw [h2]
    exact ⟨h1, hl, (idsDiffer_false_iff _ _ hl).mpr h2, ⟨h3, h4⟩, h5⟩

/-- discrete part of a landmark edge's offset -/
inductive OffSkel where
  | none
  | pose (k : PoseKind)
  | other
  deriving DecidableEq

def offSkel : Offset ℝ → OffSkel
  | .none => .none
  | .pose p => .pose p.kind
  | .other => .other

def offNums : Offset ℝ → List ℝ
  | .pose p => p.comps
  | _ => []

/-- what `e1.equals(e2)` compares: the `BaseEdge` part and, for landmark edges, offset class, offset value, offset id -/
def EdgeClose (tol : ℝ) (a b : Edge ℝ) : Prop :=
  BaseClose tol a b ∧
    (a.cls = .landmark → offSkel a.offset = offSkel b.offset ∧ Near tol (offNums a.offset) (offNums b.offset) ∧
      a.offsetId = b.offsetId)

lemma Edge.wf_estimate {e : Edge ℝ} (h : e.WF = true) : e.estimate.WF = true := by
  unfold Edge.WF at h; simp only [Bool.and_eq_true] at h; exact h.1

lemma Edge.wf_offset {e : Edge ℝ} (h : e.WF = true) (hc : e.cls = .landmark) : ∃ p, e.offset = .pose p ∧ p.WF = true := by
  unfold Edge.WF at h
  simp only [Bool.and_eq_true, hc] at h
  cases ho : e.offset with
  | pose p => rw [ho] at h; exact ⟨p, rfl, h.2⟩
  | none => rw [ho] at h; simp at h
  | other => rw [ho] at h; simp at h

lemma edgeEquals_decides (htol : 0 < tol) (a b : Edge ℝ) (ha : a.WF = true) (hb : b.WF = true) :
    Decides (edgeEquals tol a b) (EdgeClose tol a b) := by
  have hbase := baseEdgeEquals_decides htol a b (Edge.wf_estimate ha) (Edge.wf_estimate hb)
  unfold EdgeClose
  by_cases hc : a.cls = .landmark
  · have he : edgeEquals tol a b = landmarkEdgeEquals tol a b := by unfold edgeEquals; rw [hc]
    rw [he]
    unfold landmarkEdgeEquals
    by_cases hcb : a.cls = b.cls
    · obtain ⟨p, hp, hpw⟩ := Edge.wf_offset ha hc
      obtain ⟨q, hq, hqw⟩ := Edge.wf_offset hb (hcb ▸ hc)
      rw [if_neg (not_not.mpr hcb), hp, hq]
      simp only [Offset.sameType, offSkel, offNums]
      by_cases hk : p.kind = q.kind
      · simp only [hk, decide_true, Bool.not_true, Bool.false_eq_true, if_false]
        have hpose := poseEquals_decides htol p q hpw hqw
        obtain ⟨bb, hbb, hbi⟩ := hpose
        rw [hbb]
        cases bb with
        | false =>
          refine decides_false ?_
          rintro ⟨_, h2⟩
          have := (h2 hc).2.1
          exact absurd (hbi.mpr ⟨hk, this⟩) (by simp)
        | true =>
          have hnear : Near tol p.comps q.comps := (hbi.mp rfl).2
          simp only
          refine (Decides.ite hbase).congr ?_
          simp only [Bool.not_eq_true, offsetIdDiffer_false_iff]
          constructor
          · rintro ⟨h1, h2⟩; exact ⟨h2, fun _ => ⟨trivial, hnear, h1⟩⟩
          · rintro ⟨h1, h2⟩; exact ⟨(h2 hc).2.2, h1⟩
      · simp only [hk, decide_false, Bool.not_false, if_true]
        refine decides_false ?_
        rintro ⟨_, h2⟩
        have := (h2 hc).1
        simp only [OffSkel.pose.injEq] at this
        exact hk this
    · rw [if_pos hcb]
      exact decides_false (fun h => hcb h.1.1)
  · have he : edgeEquals tol a b = baseEdgeEquals tol a b := by
      unfold edgeEquals
      cases hcls : a.cls with
      | landmark => exact absurd hcls hc
      | odometry => rfl
      | custom k => rfl
    rw [he]
    exact hbase.congr (by simp [hc])

/-! ## graphs -/

lemma allZip_decides {α : Type} (f : α → α → Except PyErr Bool) (P : α → α → Prop) (xs ys : List α)
    (hl : xs.length = ys.length) (h : ∀ x ∈ xs, ∀ y ∈ ys, Decides (f x y) (P x y)) :
    Decides (allZip f xs ys) (List.Forall₂ P xs ys) := by
  induction xs generalizing ys with
  | nil =>
    cases ys with
    | nil => exact ⟨true, rfl, by simp⟩
    | cons y ys => simp at hl
  | cons x xs ih =>
    cases ys with
    | nil => simp at hl
    | cons y ys =>
      simp only [List.length_cons, Nat.add_right_cancel_iff] at hl
      have hxy := h x List.mem_cons_self y List.mem_cons_self
      have hrest := ih ys hl (fun x' hx' y' hy' => h x' (List.mem_cons_of_mem _ hx') y' (List.mem_cons_of_mem _ hy'))
      obtain ⟨b, hb, hbi⟩ := hxy
      simp only [allZip, hb, List.forall₂_cons]
      cases b with
      | false => exact decides_false (fun hh => by have := hbi.mpr hh.1; cases this)
      | true => exact hrest.congr (by simp [hbi.mp rfl])

def GraphClose (tol : ℝ) (g h : Graph ℝ) : Prop :=
  List.Forall₂ (EdgeClose tol) g.edges h.edges ∧ List.Forall₂ (VertexClose tol) g.vertices h.vertices

lemma Graph.wf_edges {g : Graph ℝ} (h : g.WF = true) : ∀ e ∈ g.edges, e.WF = true := by
  unfold Graph.WF at h; simp only [Bool.and_eq_true, List.all_eq_true] at h; exact h.1

lemma Graph.wf_vertices {g : Graph ℝ} (h : g.WF = true) : ∀ v ∈ g.vertices, v.WF = true := by
  unfold Graph.WF at h; simp only [Bool.and_eq_true, List.all_eq_true] at h; exact h.2

lemma graphEquals_of_length_ne (g h : Graph ℝ)
    (hl : g.edges.length ≠ h.edges.length ∨ g.vertices.length ≠ h.vertices.length) : graphEquals tol g h = .ok false := by
  unfold graphEquals; rw [if_pos hl]

lemma graphEquals_decides (htol : 0 < tol) (g h : Graph ℝ) (hg : g.WF = true) (hh : h.WF = true) :
    Decides (graphEquals tol g h) (GraphClose tol g h) := by
  unfold GraphClose
  by_cases hl : g.edges.length ≠ h.edges.length ∨ g.vertices.length ≠ h.vertices.length
  · rw [graphEquals_of_length_ne g h hl]
    refine decides_false ?_
    rintro ⟨h1, h2⟩
    rcases hl with hl | hl
    · exact hl h1.length_eq
    · exact hl h2.length_eq
  · have hl' := hl
    simp only [not_or, not_not] at hl'
    unfold graphEquals
    rw [if_neg hl]
    have he := allZip_decides (edgeEquals tol) (EdgeClose tol) g.edges h.edges hl'.1
      (fun x hx y hy => edgeEquals_decides htol x y (Graph.wf_edges hg x hx) (Graph.wf_edges hh y hy))
    have hv := allZip_decides (vertexEquals tol) (VertexClose tol) g.vertices h.vertices hl'.2
      (fun x hx y hy => vertexEquals_decides htol x y (Graph.wf_vertices hg x hx) (Graph.wf_vertices hh y hy))
    obtain ⟨b, hb, hbi⟩ := he
    rw [hb]
    cases b with
    | false => exact decides_false (fun hc => by have := hbi.mpr hc.1; cases this)
    | true => exact hv.congr (by simp [hbi.mp rfl])

end GraphSlam.Props.C17
