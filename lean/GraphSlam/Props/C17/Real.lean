import GraphSlam.Model.Equals
import Mathlib.Analysis.SpecialFunctions.Sqrt
import Mathlib.Tactic.Linarith
import Mathlib.Tactic.Positivity

/-!
# C17 — the comparison model at `ℝ`: instance and numeric lemmas

`norm` is the Euclidean / Frobenius vnorm `√(Σ xᵢ²)` of the ravelled data; `Near tol a b` is the test the code performs,
`‖a − b‖ / max(‖a‖, tol) < tol`, in division-free form.
-/

namespace GraphSlam.Props.C17
open GraphSlam.Model.Cmp GraphSlam.Model.Equals

/-- exact real arithmetic; `<` and `>=` are the order of `ℝ` -/
noncomputable instance instCmpScalarReal : CmpScalar ℝ where
  zero := 0
  sqrt := Real.sqrt
  div a b := a / b
  lt a b := decide (a < b)
  ge a b := decide (a ≥ b)

@[simp] lemma real_zero : (CmpScalar.zero : ℝ) = 0 := rfl
@[simp] lemma real_sqrt (x : ℝ) : CmpScalar.sqrt x = Real.sqrt x := rfl
@[simp] lemma real_div (a b : ℝ) : CmpScalar.div a b = a / b := rfl
@[simp] lemma real_lt (a b : ℝ) : CmpScalar.lt a b = true ↔ a < b := by
  show decide (a < b) = true ↔ _; simp
@[simp] lemma real_ge (a b : ℝ) : CmpScalar.ge a b = true ↔ b ≤ a := by
  show decide (a ≥ b) = true ↔ _; simp

lemma pyMax_eq_max (a b : ℝ) : pyMax a b = max a b := by
  unfold pyMax
  by_cases h : a < b
  · rw [if_pos ((real_lt a b).mpr h), max_eq_right h.le]
  · rw [if_neg (fun hc => h ((real_lt a b).mp hc)), max_eq_left (not_lt.mp h)]

lemma foldl_sumSq (xs : List ℝ) (acc : ℝ) :
    xs.foldl (fun acc x => acc + x * x) acc = acc + (xs.map fun x => x * x).sum := by
  induction xs generalizing acc with
  | nil => simp
  | cons x xs ih => rw [List.foldl_cons, ih, List.map_cons, List.sum_cons]; ring

/-- `x.dot(x)` is the sum of squares -/
lemma sumSq_eq (xs : List ℝ) : sumSq xs = (xs.map fun x => x * x).sum := by
  unfold sumSq; rw [foldl_sumSq]; simp

lemma sumSq_cons (x : ℝ) (xs : List ℝ) : sumSq (x :: xs) = x * x + sumSq xs := by
  simp [sumSq_eq]

lemma sumSq_nonneg (xs : List ℝ) : 0 ≤ sumSq xs := by
  induction xs with
  | nil => simp [sumSq_eq]
  | cons x xs ih => rw [sumSq_cons]; nlinarith [mul_self_nonneg x]

/-- the model's vnorm is `√(Σ xᵢ²)` -/
lemma norm_eq (xs : List ℝ) : vnorm xs = Real.sqrt ((xs.map fun x => x * x).sum) := by
  unfold vnorm; rw [real_sqrt, sumSq_eq]

lemma norm_nonneg (xs : List ℝ) : 0 ≤ vnorm xs := by
  unfold vnorm; exact Real.sqrt_nonneg _

lemma zipSub_self (xs : List ℝ) : sumSq (zipSub xs xs) = 0 := by
  induction xs with
  | nil => simp [zipSub, sumSq_eq]
  | cons x xs ih =>
    have : zipSub (x :: xs) (x :: xs) = (x - x) :: zipSub xs xs := rfl
    rw [this, sumSq_cons, ih]; ring

lemma norm_zipSub_self (xs : List ℝ) : vnorm (zipSub xs xs) = 0 := by
  unfold vnorm; rw [zipSub_self]; simp

lemma sumSq_zipSub_comm (xs ys : List ℝ) : sumSq (zipSub xs ys) = sumSq (zipSub ys xs) := by
  induction xs generalizing ys with
  | nil => cases ys <;> simp [zipSub]
  | cons x xs ih =>
    cases ys with
    | nil => simp [zipSub]
    | cons y ys =>
      have h1 : zipSub (x :: xs) (y :: ys) = (x - y) :: zipSub xs ys := rfl
      have h2 : zipSub (y :: ys) (x :: xs) = (y - x) :: zipSub ys xs := rfl
      rw [h1, h2, sumSq_cons, sumSq_cons, ih]; ring

/-- `‖a − b‖ = ‖b − a‖` -/
lemma norm_zipSub_comm (xs ys : List ℝ) : vnorm (zipSub xs ys) = vnorm (zipSub ys xs) := by
  unfold vnorm; rw [sumSq_zipSub_comm]

/-- every component is bounded by the vnorm -/
lemma abs_le_norm {xs : List ℝ} {x : ℝ} (hx : x ∈ xs) : |x| ≤ vnorm xs := by
  unfold vnorm
  rw [real_sqrt]
  apply Real.abs_le_sqrt
  induction xs with
  | nil => cases hx
  | cons y ys ih =>
    rw [sumSq_cons]
    rcases List.mem_cons.mp hx with rfl | hmem
    · nlinarith [sumSq_nonneg ys]
    · nlinarith [ih hmem, mul_self_nonneg y]

/-- the component differences are components of `a − b` -/
lemma zipSub_getElem? (xs ys : List ℝ) (i : Nat) (x y : ℝ) (hx : xs[i]? = some x) (hy : ys[i]? = some y) :
    (x - y) ∈ zipSub xs ys := by
  unfold zipSub
  apply List.mem_of_getElem? (i := i)
  rw [List.getElem?_zipWith, hx, hy]

/-! ## the tolerance test -/

/-- `‖a − b‖ < tol · max(‖a‖, tol)`: what `np.linalg.norm(a - b) / max(np.linalg.norm(a), tol) < tol` decides -/
def Near (tol : ℝ) (a b : List ℝ) : Prop := vnorm (zipSub a b) < tol * max (vnorm a) tol

lemma max_pos {tol : ℝ} (htol : 0 < tol) (a : List ℝ) : 0 < max (vnorm a) tol := lt_max_of_lt_right htol

lemma lt_relDiff_iff {tol : ℝ} (htol : 0 < tol) (a b : List ℝ) :
    CmpScalar.lt (relDiff tol a (zipSub a b)) tol = true ↔ Near tol a b := by
  unfold relDiff Near
  rw [real_lt, real_div, pyMax_eq_max, div_lt_iff₀ (max_pos htol a)]

lemma ge_relDiff_iff {tol : ℝ} (htol : 0 < tol) (a b : List ℝ) :
    CmpScalar.ge (relDiff tol a (zipSub a b)) tol = true ↔ ¬ Near tol a b := by
  unfold relDiff Near
  rw [real_ge, real_div, pyMax_eq_max, le_div_iff₀ (max_pos htol a), not_lt]

lemma near_self {tol : ℝ} (htol : 0 < tol) (a : List ℝ) : Near tol a a := by
  unfold Near; rw [norm_zipSub_self]; exact mul_pos htol (max_pos htol a)

/-- a difference below `tol²` is always accepted -/
lemma near_of_lt_sq {tol : ℝ} (htol : 0 < tol) (a b : List ℝ) (h : vnorm (zipSub a b) < tol * tol) : Near tol a b := by
  unfold Near
  have : tol * tol ≤ tol * max (vnorm a) tol := mul_le_mul_of_nonneg_left (le_max_right _ _) htol.le
  linarith

/-- a difference of at least `tol · (‖a‖ + tol)` is always rejected -/
lemma not_near_of_ge {tol : ℝ} (htol : 0 < tol) (a b : List ℝ) (h : tol * (vnorm a + tol) ≤ vnorm (zipSub a b)) :
    ¬ Near tol a b := by
  unfold Near
  have : tol * max (vnorm a) tol ≤ tol * (vnorm a + tol) :=
    mul_le_mul_of_nonneg_left (max_le (by linarith) (by linarith [norm_nonneg a])) htol.le
  linarith

/-- one component off by at least the threshold is enough to be rejected -/
lemma not_near_of_component {tol : ℝ} (a b : List ℝ) (i : Nat) (x y : ℝ) (hx : a[i]? = some x) (hy : b[i]? = some y)
    (h : tol * max (vnorm a) tol ≤ |x - y|) : ¬ Near tol a b := by
  unfold Near
  have := abs_le_norm (zipSub_getElem? a b i x y hx hy)
  linarith

/-- outside the band between the two thresholds `tol·max(‖a‖,tol)` and `tol·max(‖b‖,tol)` -/
def OutsideBand (tol : ℝ) (a b : List ℝ) : Prop :=
  vnorm (zipSub a b) < tol * min (max (vnorm a) tol) (max (vnorm b) tol) ∨
    tol * max (max (vnorm a) tol) (max (vnorm b) tol) ≤ vnorm (zipSub a b)

lemma OutsideBand.symm {tol : ℝ} {a b : List ℝ} (h : OutsideBand tol a b) : OutsideBand tol b a := by
  unfold OutsideBand at *
  rw [norm_zipSub_comm b a, min_comm, max_comm (max (vnorm b) tol)]
  exact h

lemma near_comm_of_outsideBand {tol : ℝ} (htol : 0 < tol) {a b : List ℝ} (h : OutsideBand tol a b) :
    Near tol a b ↔ Near tol b a := by
  unfold Near OutsideBand at *
  rw [norm_zipSub_comm b a]
  have hmin1 : tol * min (max (vnorm a) tol) (max (vnorm b) tol) ≤ tol * max (vnorm a) tol :=
    mul_le_mul_of_nonneg_left (min_le_left _ _) htol.le
  have hmin2 : tol * min (max (vnorm a) tol) (max (vnorm b) tol) ≤ tol * max (vnorm b) tol :=
    mul_le_mul_of_nonneg_left (min_le_right _ _) htol.le
  have hmax1 : tol * max (vnorm a) tol ≤ tol * max (max (vnorm a) tol) (max (vnorm b) tol) :=
    mul_le_mul_of_nonneg_left (le_max_left _ _) htol.le
  have hmax2 : tol * max (vnorm b) tol ≤ tol * max (max (vnorm a) tol) (max (vnorm b) tol) :=
    mul_le_mul_of_nonneg_left (le_max_right _ _) htol.le
  rcases h with h | h
  · constructor <;> intro _ <;> linarith
  · constructor <;> intro hc <;> linarith

end GraphSlam.Props.C17
