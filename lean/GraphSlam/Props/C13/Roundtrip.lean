import GraphSlam.Props.C13.Init

/-!
# C13 helper: the round-trip statement assembled from the element, file and init lemmas
-/

namespace GraphSlam.Props.C13
open GraphSlam.Model.G2O GraphSlam.Props.C14

variable {A : Type} [DecidableEq A]

set_option linter.unusedSimpArgs false
set_option linter.unusedSectionVars false

theorem expressible_parts (env : Env A) (g : Graph A) (h : Expressible env g) :
    keysNodup g.params = true ∧ (∀ p ∈ g.params, paramOK env p = true) ∧ (∀ v ∈ g.vertices, vertexOK env v = true) ∧
      (∀ e ∈ g.edges, edgeOK env g e = true) := by
  simp only [Expressible, expressible, Bool.and_eq_true, List.all_eq_true] at h
  exact ⟨h.1.1.1, h.1.1.2, h.1.2, h.2⟩

theorem roundtrip_aux (env : Env A) (g : Graph A) (h : Expressible env g) :
    ∃ text, Graph.toG2O env g = .ok text ∧
      (Graph.fromG2O env [] text).warnings = [] ∧ (Graph.fromG2O env [] text).result = .ok (canon env g) := by
  obtain ⟨hnd, hps, hvs, hes⟩ := expressible_parts env g h
  let cps := g.params.map (canonParam env)
  let cvs := g.vertices.map (canonVertex env)
  let ces := g.edges.map (canonEdge env g.params)
  -- the three sections of the file
  obtain ⟨plines, hpm, hpp⟩ := lines_of_elements (Param.toG2O env)
    (fun l p => ∀ params, RT env params l (.param (canonParam env p))) g.params
    (fun p hp => by
      obtain ⟨line, h1, _⟩ := param_rt env [] p (hps p hp)
      exact ⟨line, h1, fun params => by
        obtain ⟨line', h1', h2'⟩ := param_rt env params p (hps p hp)
        rw [h1] at h1'; cases h1'; exact h2'⟩)
  obtain ⟨vlines, hvm, hvp⟩ := lines_of_elements (Vertex.toG2O env)
    (fun l v => ∀ params, RT env params l (.vertex (canonVertex env v))) g.vertices
    (fun v hv => by
      obtain ⟨line, h1, _⟩ := vertex_rt env [] v (hvs v hv)
      exact ⟨line, h1, fun params => by
        obtain ⟨line', h1', h2'⟩ := vertex_rt env params v (hvs v hv)
        rw [h1] at h1'; cases h1'; exact h2'⟩)
  obtain ⟨elines, hem, hep⟩ := lines_of_elements (Edge.write env g.vertices)
    (fun l e => RT env cps l (.edge (canonEdge env g.params e))) g.edges
    (fun e he => edge_rt env g e hps (hes e he))
  refine ⟨(plines ++ (vlines ++ elines)).flatten, ?_, ?_⟩
  · -- the writer
    have hpre : g.edges.all (Edge.preCheck env g.params) = true := by
      rw [List.all_eq_true]; exact fun e he => preCheck_ok env g e (hes e he)
    unfold Graph.toG2O Graph.toG2OTrace
    rw [if_pos hpre, hpm, hvm, hem, List.append_assoc, ← List.map_append, ← List.map_append, writeSeq_ok]
  · -- the reader
    have hclean : ∀ l ∈ plines ++ (vlines ++ elines), ∃ b, l = b ++ ['\n'] ∧ Clean b := by
      intro l hl
      rcases List.mem_append.mp hl with hl | hl
      · exact Paired.left_all (Q := fun l => ∃ b, l = b ++ ['\n'] ∧ Clean b) (fun a b r => (r []).clean) hpp l hl
      · rcases List.mem_append.mp hl with hl | hl
        · exact Paired.left_all (Q := fun l => ∃ b, l = b ++ ['\n'] ∧ Clean b) (fun a b r => (r []).clean) hvp l hl
        · exact Paired.left_all (Q := fun l => ∃ b, l = b ++ ['\n'] ∧ Clean b) (fun a b r => r.clean) hep l hl
    obtain ⟨bodies, hb, hbc⟩ := bodies_of_lines _ hclean
    have hread : readlines (plines ++ (vlines ++ elines)).flatten = plines ++ (vlines ++ elines) := by
      rw [hb]; exact readlines_lines bodies hbc
    -- section 1: parameters
    have r1 := parseLines_run env (fun _ => True) plines (cps.map LineOut.param) (vlines ++ (elines ++ []))
      (by
        have : cps.map LineOut.param = g.params.map (fun p => LineOut.param (canonParam env p)) := by simp [cps, List.map_map]
        rw [this]
        exact Paired.map_right _ (Paired.imp (fun l p r => ⟨(r []).notBlank, fun ps _ => ⟨(r ps).parses, trivial⟩⟩) hpp))
      PState.empty trivial
    rw [pushAll_params _ _ _ (by rw [hpp.length_eq]; simp [cps])] at r1
    have hdict : cps.foldl dictSet (PState.empty : PState A).params = cps := by
      have := foldl_dictSet_nodup [] cps (by simpa [cps, keysNodup_map_canon] using hnd)
      simpa [PState.empty] using this
    rw [hdict] at r1
    -- section 2: vertices
    have r2 := parseLines_run env (fun _ => True) vlines (cvs.map LineOut.vertex) (elines ++ [])
      (by
        have : cvs.map LineOut.vertex = g.vertices.map (fun v => LineOut.vertex (canonVertex env v)) := by simp [cvs, List.map_map]
        rw [this]
        exact Paired.map_right _ (Paired.imp (fun l v r => ⟨(r []).notBlank, fun ps _ => ⟨(r ps).parses, trivial⟩⟩) hvp))
      { (PState.empty : PState A) with params := cps } trivial
    rw [pushAll_vertices _ _ _ (by rw [hvp.length_eq]; simp [cvs])] at r2
    -- section 3: edges
    have r3 := parseLines_run env (fun ps => ps = cps) elines (ces.map LineOut.edge) []
      (by
        have : ces.map LineOut.edge = g.edges.map (fun e => LineOut.edge (canonEdge env g.params e)) := by simp [ces, List.map_map]
        rw [this]
        exact Paired.map_right _ (Paired.imp (fun l e r => ⟨r.notBlank, fun ps hps' => ⟨by rw [hps']; exact r.parses, by simpa [paramsStep] using hps'⟩⟩) hep))
      { (PState.empty : PState A) with params := cps, vertices := (PState.empty : PState A).vertices ++ cvs } rfl
    rw [pushAll_edges _ _ _ (by rw [hep.length_eq]; simp [ces])] at r3
    have hall : parseLines env [] PState.empty (plines ++ (vlines ++ elines)) =
        (⟨cps, cvs, ces, []⟩, none) := by
      have e0 : plines ++ (vlines ++ elines) = plines ++ (vlines ++ (elines ++ [])) := by simp
      rw [e0, r1.1, r2.1, r3.1, parseLines_nil]
      simp [PState.empty]
    have hinit : Graph.init cps cvs ces = .ok ⟨cps, cvs, ces⟩ := by
      apply init_ok
      intro e' he'
      simp only [ces, List.mem_map] at he'
      obtain ⟨e, he, rfl⟩ := he'
      exact edge_valid env g e hps (hes e he)
    unfold Graph.fromG2O fromLines
    rw [hread, hall]
    exact ⟨rfl, hinit⟩

end GraphSlam.Props.C13
