import GraphSlam.Props.C13.Chars
import GraphSlam.Props.C13.Triu

/-!
# C13 definitions: the trusted assumption on atoms, `Expressible`, `canon`

* `GoodF env a` / `GoodI env z` — the only assumption about numbers (re-checked by the harness on every generated value):
  `parse (fmt x) = some x`, and `fmt x` is a non-empty whitespace-free token.
* `Expressible env g` — decidable (`Bool`-valued `expressible`): what the `.g2o` vocabulary can say.
* `canon env g` — what one export/import cycle is allowed to change.
-/

namespace GraphSlam.Props.C13
open GraphSlam.Model.G2O

variable {A : Type}

def GoodF (env : Env A) (a : A) : Prop := env.parseF (env.fmtF a) = some a ∧ TokOK (env.fmtF a)
def GoodI (env : Env A) (z : Int) : Prop := env.parseI (env.fmtI z) = some z ∧ TokOK (env.fmtI z)

instance [DecidableEq A] (env : Env A) (a : A) : Decidable (GoodF env a) := by unfold GoodF; exact inferInstance
instance (env : Env A) (z : Int) : Decidable (GoodI env z) := by unfold GoodI; exact inferInstance

/-- number of entries of a well-formed pose object -/
def arity : PoseKind → Nat
  | .r2 => 2 | .r3 => 3 | .se2 => 3 | .se3 => 7 | .other => 0

section
variable [DecidableEq A]

/-- a pose of one of the four classes, with the documented number of entries, all of them good atoms -/
def poseOK (env : Env A) (p : Pose A) : Bool :=
  p.kind != .other && p.xs.length == arity p.kind && p.xs.all fun a => decide (GoodF env a)

def vertexOK (env : Env A) (v : Vertex A) : Bool := decide (GoodI env v.id) && poseOK env v.pose

def paramOK (env : Env A) (p : Param A) : Bool :=
  decide (GoodI env p.id) && poseOK env p.value &&
  (match p.kind with | .se2offset => p.value.kind == .se2 | .se3offset => p.value.kind == .se3)

/-- `M == M.T` on the `n × n` block, as a computation -/
def symmB (zero : A) (M : Mat A) (n : Nat) : Bool :=
  (List.range n).all fun i => (List.range n).all fun j => entry zero M i j == entry zero M j i

/-- an `n × n` symmetric matrix of good atoms -/
def infoOK (env : Env A) (M : Mat A) (n : Nat) : Bool :=
  squareOf M n && symmB env.zero M n && M.all fun r => r.all fun a => decide (GoodF env a)

/-- the class of the pose of the vertex bound to `e.vertex_ids[k]` -/
def kindAt (g : Graph A) (e : Edge A) (k : Nat) : Option PoseKind :=
  (e.ids[k]?.bind (lookupVertex g.vertices)).map (·.pose.kind)

def edgeOK (env : Env A) (g : Graph A) (e : Edge A) : Bool :=
  e.ids.length == 2 && (e.ids.all fun i => decide (GoodI env i)) &&
  match e.body with
  | .odometry est =>
    (kindAt g e 0 == some .se2 || kindAt g e 0 == some .se3) && kindAt g e 1 == kindAt g e 0 && some est.kind == kindAt g e 0 &&
    poseOK env est && infoOK env e.info est.kind.compactDim
  | .landmark est off oid =>
    poseOK env est &&
    ((kindAt g e 0 == some .se2 && kindAt g e 1 == some .r2 && est.kind == .r2 && off.kind == .se2 &&
        numEqList env off.xs (identitySE2 env) && infoOK env e.info 2) ||
     (kindAt g e 0 == some .se3 && kindAt g e 1 == some .r3 && est.kind == .r3 && off.kind == .se3 &&
        (match oid with
         | none => false
         | some z => decide (GoodI env z) &&
           (match lookupParam g.params .se3offset z with
            | none => false
            | some p => numEqList env p.value.xs off.xs)) && infoOK env e.info 3))
  | .custom _ _ _ => false

/-- the parameter dictionary has one entry per key (true of every Python `dict`) -/
def keysNodup : List (Param A) → Bool
  | [] => true
  | p :: ps => (ps.all fun q => !(q.kind == p.kind && q.id == p.id)) && keysNodup ps

/-- decidable description of the graphs the `.g2o` vocabulary can express (property C13's domain) -/
def expressible (env : Env A) (g : Graph A) : Bool :=
  keysNodup g.params && (g.params.all (paramOK env)) && (g.vertices.all (vertexOK env)) && (g.edges.all (edgeOK env g))

def Expressible (env : Env A) (g : Graph A) : Prop := expressible env g = true

instance (env : Env A) (g : Graph A) : Decidable (Expressible env g) := by unfold Expressible; exact inferInstance

end

/-! ### what a cycle may change -/

/-- a `PoseSE2` rebuilt by its constructor: the angle is wrapped -/
def canonPose (env : Env A) (p : Pose A) : Pose A :=
  match p.kind, p.xs with
  | .se2, [x, y, t] => ⟨.se2, [x, y, env.wrap t]⟩
  | _, _ => p

def canonVertex (env : Env A) (v : Vertex A) : Vertex A := ⟨v.id, canonPose env v.pose⟩

def canonParam (env : Env A) (p : Param A) : Param A := ⟨p.kind, p.id, canonPose env p.value⟩

/-- odometry measurements: SE(2) angle wrapped, SE(3) quaternion renormalised; landmark edges: the SE(2) offset becomes
`PoseSE2.identity()` with `offset_id = 0`, the SE(3) offset becomes the value of the parameter it names -/
def canonEdge (env : Env A) (params : List (Param A)) (e : Edge A) : Edge A :=
  match e.body with
  | .odometry est =>
    match est.kind with
    | .se2 => ⟨e.ids, e.info, .odometry (canonPose env est)⟩
    | .se3 => ⟨e.ids, e.info, .odometry (normalizeSE3 env est)⟩
    | _ => e
  | .landmark est off oid =>
    match off.kind with
    | .se2 => ⟨e.ids, e.info, .landmark est ⟨.se2, identitySE2 env⟩ (some 0)⟩
    | .se3 =>
      match oid.bind (lookupParam params .se3offset) with
      | some p => ⟨e.ids, e.info, .landmark est p.value oid⟩
      | none => e
    | _ => e
  | .custom _ _ _ => e

def canon (env : Env A) (g : Graph A) : Graph A :=
  ⟨g.params.map (canonParam env), g.vertices.map (canonVertex env), g.edges.map (canonEdge env g.params)⟩

end GraphSlam.Props.C13
