import GraphSlam.Props.C13.Defs
import GraphSlam.Props.C14.Lines
import GraphSlam.Props.C14.Stream

/-!
# C13 helper lemmas: a printed line is a clean line, starts with its tag, and splits back into its fields
-/

namespace GraphSlam.Props.C13
open GraphSlam.Model.G2O GraphSlam.Props.C14

variable {A : Type}

theorem allWS_nl : AllWS ['\n'] := by intro c hc; simp at hc; subst hc; decide

theorem startsWith_fmtLine (tag : Str) (fields : List Str) : startsWith (withSp tag) (fmtLine tag fields) = true :=
  startsWith_tagged tag _

theorem numbersOf_fmtLine (tag : Str) (fields : List Str) (h : ∀ t ∈ fields, TokOK t) :
    numbersOf tag (fmtLine tag fields) = fields := by
  unfold fmtLine
  rw [numbersOf_tagged, splitWS_joinSp_append fields ['\n'] h allWS_nl]

theorem joinSp_append (a b : List Str) (ha : a ≠ []) (hb : b ≠ []) : joinSp (a ++ b) = joinSp a ++ ' ' :: joinSp b := by
  induction a with
  | nil => exact absurd rfl ha
  | cons t ts ih =>
    cases ts with
    | nil =>
      cases b with
      | nil => exact absurd rfl hb
      | cons u us => simp [joinSp]
    | cons u us =>
      have := ih (by simp)
      simp only [List.cons_append, joinSp, List.append_assoc] at this ⊢
      rw [this]

theorem fmtEdgeLine_eq (tag : Str) (fields infos : List Str) (hf : fields ≠ []) (hi : infos ≠ []) :
    fmtEdgeLine tag fields infos = fmtLine tag (fields ++ infos) := by
  unfold fmtEdgeLine fmtLine
  rw [joinSp_append fields infos hf hi]; simp

theorem mem_joinSp (fields : List Str) (c : Char) (h : c ∈ joinSp fields) : c = ' ' ∨ ∃ t ∈ fields, c ∈ t := by
  induction fields with
  | nil => simp [joinSp] at h
  | cons t ts ih =>
    cases ts with
    | nil => simp only [joinSp] at h; exact Or.inr ⟨t, by simp, h⟩
    | cons u us =>
      simp only [joinSp, List.mem_append, List.mem_cons] at h
      rcases h with h | h | h
      · exact Or.inr ⟨t, by simp, h⟩
      · exact Or.inl h
      · rcases ih h with h' | ⟨t', ht', hc⟩
        · exact Or.inl h'
        · exact Or.inr ⟨t', by simp [ht'], hc⟩

/-- no line terminator inside -/
def Clean (s : Str) : Prop := '\n' ∉ s ∧ '\r' ∉ s

instance (s : Str) : Decidable (Clean s) := by unfold Clean; exact inferInstance

theorem tags_clean : ∀ t ∈ T.all, Clean t := by decide

theorem tok_clean (t : Str) (h : TokOK t) : Clean t := by
  constructor <;> intro hm <;> have := h.2 _ hm <;> revert this <;> decide

/-- a printed line is `body ++ "\n"` with no line terminator in the body -/
theorem fmtLine_clean (tag : Str) (fields : List Str) (ht : Clean tag) (h : ∀ t ∈ fields, TokOK t) :
    ∃ b, fmtLine tag fields = b ++ ['\n'] ∧ Clean b := by
  refine ⟨tag ++ ' ' :: joinSp fields, by simp [fmtLine], ?_⟩
  constructor <;> intro hm <;> simp only [List.mem_append, List.mem_cons] at hm <;> rcases hm with hm | hm | hm
  · exact ht.1 hm
  · exact absurd hm (by decide)
  · rcases mem_joinSp _ _ hm with h' | ⟨t, ht', hc⟩
    · exact absurd h' (by decide)
    · exact (tok_clean t (h t ht')).1 hc
  · exact ht.2 hm
  · exact absurd hm (by decide)
  · rcases mem_joinSp _ _ hm with h' | ⟨t, ht', hc⟩
    · exact absurd h' (by decide)
    · exact (tok_clean t (h t ht')).2 hc

theorem isBlank_fmtLine (tag : Str) (fields : List Str) (ht : tag ∈ T.all) : isBlank (fmtLine tag fields) = false :=
  isBlank_of_startsWith ht (startsWith_fmtLine tag fields)

/-! ### formatting and re-reading lists of atoms -/

theorem mapE_congr_ok {α β : Type} (f : α → Except PyErr β) (l : List α) (r : List β) (hlen : l.length = r.length)
    (h : ∀ i (h1 : i < l.length) (h2 : i < r.length), f l[i] = .ok r[i]) : mapE f l = .ok r := by
  induction l generalizing r with
  | nil => cases r with
    | nil => rfl
    | cons b bs => simp at hlen
  | cons a as ih =>
    cases r with
    | nil => simp at hlen
    | cons b bs =>
      have h0 := h 0 (by simp) (by simp)
      simp only [List.getElem_cons_zero] at h0
      have := ih bs (by simpa using hlen) (fun i h1 h2 => by
        have := h (i + 1) (by simpa using h1) (by simpa using h2)
        simpa only [List.getElem_cons_succ] using this)
      simp [mapE, h0, this]

theorem fmtEntries_ok (env : Env A) (xs : List A) (k : Nat) (hk : xs.length = k) : fmtEntries env xs k = .ok (xs.map env.fmtF) := by
  subst hk
  unfold fmtEntries
  apply mapE_congr_ok
  · simp
  · intro i h1 h2
    have hi : i < xs.length := by simpa using h1
    simp [getIdx, List.getElem?_eq_getElem hi]

theorem fmtIds_ok (env : Env A) (ids : List Int) (k : Nat) (hk : ids.length = k) : fmtIds env ids k = .ok (ids.map env.fmtI) := by
  subst hk
  unfold fmtIds
  apply mapE_congr_ok
  · simp
  · intro i h1 h2
    have hi : i < ids.length := by simpa using h1
    simp [getIdx, List.getElem?_eq_getElem hi]

theorem floats_map (env : Env A) (xs : List A) (h : ∀ a ∈ xs, GoodF env a) : floats env (xs.map env.fmtF) = .ok xs := by
  unfold floats
  apply mapE_congr_ok
  · simp
  · intro i h1 h2
    have hi : i < xs.length := by simpa using h1
    have := (h xs[i] (List.getElem_mem hi)).1
    simp [this]

theorem fmtInfo_ok (env : Env A) (M : Mat A) (n : Nat) (hM : Square M n) :
    fmtInfo env M n = .ok (((triuPairs n).map fun p => entry env.zero M p.1 p.2).map env.fmtF) := by
  unfold fmtInfo
  rw [triuOf_square env.zero M n hM]

end GraphSlam.Props.C13
