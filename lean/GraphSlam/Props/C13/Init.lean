import GraphSlam.Props.C13.File

/-!
# C13 helper lemmas: `Graph(edges, vertices)` accepts the re-read graph (binding by id, `is_valid`)
-/

namespace GraphSlam.Props.C13
open GraphSlam.Model.G2O GraphSlam.Props.C14

variable {A : Type} [DecidableEq A]

set_option linter.unusedSimpArgs false
set_option linter.unusedSectionVars false

theorem canonPose_kind (env : Env A) (p : Pose A) : (canonPose env p).kind = p.kind := by
  obtain ⟨k, xs⟩ := p
  unfold canonPose
  split <;> simp_all

theorem normalizeSE3_kind (env : Env A) (p : Pose A) : (normalizeSE3 env p).kind = p.kind := by
  unfold normalizeSE3
  split <;> rfl

theorem lookupVertex_map_canon (env : Env A) (vs : List (Vertex A)) (i : Int) :
    lookupVertex (vs.map (canonVertex env)) i = (lookupVertex vs i).map (canonVertex env) := by
  unfold lookupVertex
  rw [← List.map_reverse, List.find?_map]
  rfl

theorem canonEdge_ids (env : Env A) (ps : List (Param A)) (e : Edge A) : (canonEdge env ps e).ids = e.ids := by
  unfold canonEdge
  repeat' split
  all_goals rfl

theorem canonEdge_info (env : Env A) (ps : List (Param A)) (e : Edge A) : (canonEdge env ps e).info = e.info := by
  unfold canonEdge
  repeat' split
  all_goals rfl

theorem squareOf_of_infoOK (env : Env A) (M : Mat A) (n : Nat) (h : infoOK env M n = true) : squareOf M n = true := by
  simp only [infoOK, Bool.and_eq_true] at h
  exact h.1.1

/-- binding and `is_valid` succeed for the canonical form of an expressible edge -/
theorem edge_valid (env : Env A) (g : Graph A) (e : Edge A) (hps : ∀ p ∈ g.params, paramOK env p = true) (h : edgeOK env g e = true) :
    ∃ bs, bindEdge (g.vertices.map (canonVertex env)) (canonEdge env g.params e) = .ok bs ∧
      (canonEdge env g.params e).isValid bs = true := by
  obtain ⟨ids, info, body⟩ := e
  have hlen : ids.length = 2 := by
    simp only [edgeOK, Bool.and_eq_true, beq_iff_eq] at h
    exact h.1.1
  obtain ⟨i0, i1, rfl⟩ := lenTwo ids hlen
  -- both ids are bound
  have hb : ∀ (k0 k1 : PoseKind), kindAt g ⟨[i0, i1], info, body⟩ 0 = some k0 → kindAt g ⟨[i0, i1], info, body⟩ 1 = some k1 →
      ∃ v0 v1, v0.pose.kind = k0 ∧ v1.pose.kind = k1 ∧
        bindEdge (g.vertices.map (canonVertex env)) (canonEdge env g.params ⟨[i0, i1], info, body⟩) = .ok [canonVertex env v0, canonVertex env v1] := by
    intro k0 k1 h0 h1
    obtain ⟨v0, hv0, hk0⟩ := kindAt_zero g i0 i1 info body k0 h0
    obtain ⟨v1, hv1, hk1⟩ := kindAt_one g i0 i1 info body k1 h1
    refine ⟨v0, v1, hk0, hk1, ?_⟩
    simp [bindEdge, canonEdge_ids, mapE, lookupVertex_map_canon, hv0, hv1]
  cases body with
  | custom c est out => simp [edgeOK] at h
  | odometry est =>
    simp only [edgeOK, Bool.and_eq_true, decide_eq_true_eq, Bool.or_eq_true, beq_iff_eq] at h
    obtain ⟨_, ⟨⟨⟨hk0, hk1⟩, hek⟩, _⟩, hinfo⟩ := h
    have hsq := squareOf_of_infoOK env info _ hinfo
    rcases hk0 with hk0 | hk0
    · rw [hk0] at hk1 hek
      have hek' : est.kind = .se2 := by simpa using hek
      obtain ⟨v0, v1, e0, e1, hbind⟩ := hb .se2 .se2 hk0 hk1
      refine ⟨_, hbind, ?_⟩
      simp [canonEdge, hek', Edge.isValid, canonVertex, canonPose_kind, e0, e1, PoseKind.compactDim]
      simpa [hek', PoseKind.compactDim] using hsq
    · rw [hk0] at hk1 hek
      have hek' : est.kind = .se3 := by simpa using hek
      obtain ⟨v0, v1, e0, e1, hbind⟩ := hb .se3 .se3 hk0 hk1
      refine ⟨_, hbind, ?_⟩
      simp [canonEdge, hek', Edge.isValid, canonVertex, canonPose_kind, normalizeSE3_kind, e0, e1, PoseKind.compactDim]
      simpa [hek', PoseKind.compactDim] using hsq
  | landmark est off oid =>
    simp only [edgeOK, Bool.and_eq_true, decide_eq_true_eq, Bool.or_eq_true, beq_iff_eq] at h
    obtain ⟨_, _, h⟩ := h
    rcases h with ⟨⟨⟨⟨⟨hk0, hk1⟩, hek⟩, hok⟩, _⟩, hinfo⟩ | ⟨⟨⟨⟨⟨hk0, hk1⟩, hek⟩, hok⟩, hoid⟩, hinfo⟩
    · obtain ⟨v0, v1, e0, e1, hbind⟩ := hb .se2 .r2 hk0 hk1
      refine ⟨_, hbind, ?_⟩
      have hsq := squareOf_of_infoOK env info _ hinfo
      simp [canonEdge, hok, hek, Edge.isValid, canonVertex, canonPose_kind, e0, e1, PoseKind.compactDim]
      simpa using hsq
    · obtain ⟨v0, v1, e0, e1, hbind⟩ := hb .se3 .r3 hk0 hk1
      refine ⟨_, hbind, ?_⟩
      have hsq := squareOf_of_infoOK env info _ hinfo
      cases oid with
      | none => simp at hoid
      | some z =>
        simp only [Bool.and_eq_true, decide_eq_true_eq] at hoid
        cases hlp : lookupParam g.params .se3offset z with
        | none => simp [hlp] at hoid
        | some p =>
          obtain ⟨hpm, hpk, _⟩ := lookupParam_mem _ _ _ _ hlp
          have hpv : p.value.kind = .se3 := by
            have := hps p hpm
            simp only [paramOK, Bool.and_eq_true, hpk, beq_iff_eq] at this
            exact this.2
          simp [canonEdge, hok, hek, hlp, Edge.isValid, canonVertex, canonPose_kind, e0, e1, PoseKind.compactDim, hpv]
          simpa using hsq

theorem init_ok (params : List (Param A)) (vs : List (Vertex A)) (es : List (Edge A))
    (h : ∀ e ∈ es, ∃ bs, bindEdge vs e = .ok bs ∧ e.isValid bs = true) :
    Graph.init params vs es = .ok ⟨params, vs, es⟩ := by
  have key : ∃ bss, mapE (bindEdge vs) es = .ok bss ∧ (List.zip es bss).all (fun eb => eb.1.isValid eb.2) = true := by
    induction es with
    | nil => exact ⟨[], rfl, rfl⟩
    | cons e es ih =>
      obtain ⟨bs, hb, hv⟩ := h e (by simp)
      obtain ⟨bss, hm, ha⟩ := ih (fun e' he' => h e' (by simp [he']))
      exact ⟨bs :: bss, by simp [mapE, hb, hm], by simp [hv, ha]⟩
  obtain ⟨bss, hm, ha⟩ := key
  simp [Graph.init, hm, ha]

end GraphSlam.Props.C13
