import GraphSlam.Props.C13.Init

/-!
# C13 helper lemmas about `canon`: idempotence, and exactly which atoms it may change
-/

namespace GraphSlam.Props.C13
open GraphSlam.Model.G2O GraphSlam.Props.C14

variable {A : Type} [DecidableEq A]

set_option linter.unusedSimpArgs false
set_option linter.unusedSectionVars false

/-- `neg_pi_to_pi` is idempotent -/
def WrapIdem (env : Env A) : Prop := ∀ a, env.wrap (env.wrap a) = env.wrap a

/-- `normalize()` returns four entries and is idempotent (true in exact arithmetic; in IEEE arithmetic a second
normalisation can move the last bit — measured by the search, not assumed by `roundtrip`) -/
def NormIdem (env : Env A) : Prop :=
  ∀ a b c d, ∃ a' b' c' d', env.normQ a b c d = [a', b', c', d'] ∧ env.normQ a' b' c' d' = [a', b', c', d']

theorem canonPose_se2 (env : Env A) (x y t : A) : canonPose env ⟨.se2, [x, y, t]⟩ = ⟨.se2, [x, y, env.wrap t]⟩ := rfl

theorem canonPose_other (env : Env A) (p : Pose A) (h : ¬ ∃ x y t, p = ⟨.se2, [x, y, t]⟩) : canonPose env p = p := by
  obtain ⟨k, xs⟩ := p
  unfold canonPose
  split
  · rename_i x y t hk hx
    simp only at hk hx
    exact absurd ⟨x, y, t, by rw [hk, hx]⟩ h
  · rfl

theorem canonPose_idem (env : Env A) (hw : WrapIdem env) (p : Pose A) : canonPose env (canonPose env p) = canonPose env p := by
  by_cases h : ∃ x y t, p = ⟨.se2, [x, y, t]⟩
  · obtain ⟨x, y, t, rfl⟩ := h
    rw [canonPose_se2, canonPose_se2, hw]
  · rw [canonPose_other env p h, canonPose_other env p h]

theorem normalizeSE3_seven (env : Env A) (k : PoseKind) (a0 a1 a2 a3 a4 a5 a6 : A) :
    normalizeSE3 env ⟨k, [a0, a1, a2, a3, a4, a5, a6]⟩ = ⟨k, a0 :: a1 :: a2 :: env.normQ a3 a4 a5 a6⟩ := rfl

theorem normalizeSE3_other (env : Env A) (p : Pose A) (h : p.xs.length ≠ 7) : normalizeSE3 env p = p := by
  unfold normalizeSE3
  split
  · rename_i h'
    rw [h'] at h; simp at h
  · rfl

theorem normalizeSE3_idem (env : Env A) (hq : NormIdem env) (p : Pose A) :
    normalizeSE3 env (normalizeSE3 env p) = normalizeSE3 env p := by
  by_cases h : p.xs.length = 7
  · obtain ⟨k, xs⟩ := p
    obtain ⟨a0, a1, a2, a3, a4, a5, a6, rfl⟩ := len7 xs h
    obtain ⟨a', b', c', d', h1, h2⟩ := hq a3 a4 a5 a6
    rw [normalizeSE3_seven, h1, normalizeSE3_seven, h2]
  · rw [normalizeSE3_other env p h, normalizeSE3_other env p h]

theorem canonEdge_idem (env : Env A) (hw : WrapIdem env) (hq : NormIdem env) (ps : List (Param A))
    (hps : ∀ p ∈ ps, p.kind = .se3offset → p.value.kind = .se3) (e : Edge A) :
    canonEdge env (ps.map (canonParam env)) (canonEdge env ps e) = canonEdge env ps e := by
  obtain ⟨ids, info, body⟩ := e
  cases body with
  | custom c est out => rfl
  | odometry est =>
    cases hk : est.kind with
    | se2 => simp [canonEdge, hk, canonPose_kind, canonPose_idem env hw]
    | se3 => simp [canonEdge, hk, normalizeSE3_kind, normalizeSE3_idem env hq]
    | r2 => simp [canonEdge, hk]
    | r3 => simp [canonEdge, hk]
    | other => simp [canonEdge, hk]
  | landmark est off oid =>
    cases hk : off.kind with
    | se2 => simp [canonEdge, hk]
    | r2 => simp [canonEdge, hk]
    | r3 => simp [canonEdge, hk]
    | other => simp [canonEdge, hk]
    | se3 =>
      cases hl : oid.bind (lookupParam ps .se3offset) with
      | none =>
        have : oid.bind (lookupParam (ps.map (canonParam env)) .se3offset) = none := by
          cases oid with
          | none => rfl
          | some z => simpa [lookupParam_map_canon] using hl
        simp [canonEdge, hk, hl, this]
      | some p =>
        cases oid with
        | none => simp at hl
        | some z =>
          simp only [Option.bind_some] at hl
          obtain ⟨hpm, hpk, _⟩ := lookupParam_mem _ _ _ _ hl
          have hpv := hps p hpm hpk
          have hcp : canonPose env p.value = p.value := canonPose_of_ne_se2 env _ (by rw [hpv]; decide)
          simp [canonEdge, hk, hl, hpv, lookupParam_map_canon, canonParam, hcp]

/-! ### which atoms `canon` may change -/

/-- everything but the SE(2) angle of a pose is untouched by `canonPose` -/
theorem canonPose_xs (env : Env A) (p : Pose A) :
    (canonPose env p).xs = p.xs ∨ ∃ x y t, p.kind = .se2 ∧ p.xs = [x, y, t] ∧ (canonPose env p).xs = [x, y, env.wrap t] := by
  obtain ⟨k, xs⟩ := p
  unfold canonPose
  split
  · rename_i x y t hk hx
    simp only at hk hx
    exact Or.inr ⟨x, y, t, hk, hx, rfl⟩
  · exact Or.inl rfl

/-- the position of an odometry measurement is untouched by `normalize()`; only the four quaternion entries change -/
theorem normalizeSE3_xs (env : Env A) (p : Pose A) :
    (normalizeSE3 env p).xs = p.xs ∨
      ∃ a0 a1 a2 a3 a4 a5 a6, p.xs = [a0, a1, a2, a3, a4, a5, a6] ∧ (normalizeSE3 env p).xs = a0 :: a1 :: a2 :: env.normQ a3 a4 a5 a6 := by
  unfold normalizeSE3
  split
  · rename_i a0 a1 a2 a3 a4 a5 a6 h
    exact Or.inr ⟨a0, a1, a2, a3, a4, a5, a6, h, rfl⟩
  · exact Or.inl rfl

theorem numEqList_symm (env : Env A) (hsym : ∀ a b, env.numEq a b = env.numEq b a) (xs ys : List A) :
    numEqList env xs ys = numEqList env ys xs := by
  induction xs generalizing ys with
  | nil => cases ys <;> rfl
  | cons a as ih =>
    cases ys with
    | nil => rfl
    | cons b bs => simp [numEqList, hsym a b, ih bs]

end GraphSlam.Props.C13
