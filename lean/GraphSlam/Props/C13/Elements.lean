import GraphSlam.Props.C13.Lines

/-!
# C13 helper lemmas: writing one expressible element and reading the line back gives its canonical form
-/

namespace GraphSlam.Props.C13
open GraphSlam.Model.G2O GraphSlam.Props.C14

variable {A : Type} [DecidableEq A]

set_option linter.unusedSimpArgs false
set_option linter.unusedSectionVars false

/-- `line` is a clean, non-blank line that the reader (with no custom edge types and the dictionary `params`) turns into `out` -/
structure RT (env : Env A) (params : List (Param A)) (line : Str) (out : LineOut A) : Prop where
  clean : ∃ b, line = b ++ ['\n'] ∧ Clean b
  notBlank : isBlank line = false
  parses : parseLine env [] params line = .ok out

theorem poseOK_iff (env : Env A) (p : Pose A) :
    poseOK env p = true ↔ p.kind ≠ .other ∧ p.xs.length = arity p.kind ∧ ∀ a ∈ p.xs, GoodF env a := by
  simp [poseOK, and_assoc]

theorem infoOK_iff (env : Env A) (M : Mat A) (n : Nat) :
    infoOK env M n = true ↔ Square M n ∧ Symm env.zero M n ∧ ∀ r ∈ M, ∀ a ∈ r, GoodF env a := by
  simp [infoOK, squareOf, symmB, Square, Symm, and_assoc]
  intro _ _ _
  exact ⟨fun h i j hi hj => h i hi j hj, fun h i hi j hj => h i j hi hj⟩

theorem len2 (xs : List A) (h : xs.length = 2) : ∃ a b, xs = [a, b] := by
  match xs, h with
  | [a, b], _ => exact ⟨a, b, rfl⟩

theorem len3 (xs : List A) (h : xs.length = 3) : ∃ a b c, xs = [a, b, c] := by
  match xs, h with
  | [a, b, c], _ => exact ⟨a, b, c, rfl⟩

theorem len7 (xs : List A) (h : xs.length = 7) : ∃ a0 a1 a2 a3 a4 a5 a6, xs = [a0, a1, a2, a3, a4, a5, a6] := by
  match xs, h with
  | [a0, a1, a2, a3, a4, a5, a6], _ => exact ⟨a0, a1, a2, a3, a4, a5, a6, rfl⟩

theorem tok_fields (env : Env A) (z : Int) (xs : List A) (hz : GoodI env z) (hx : ∀ a ∈ xs, GoodF env a) :
    ∀ t ∈ env.fmtI z :: xs.map env.fmtF, TokOK t := by
  intro t ht
  simp only [List.mem_cons, List.mem_map] at ht
  rcases ht with rfl | ⟨a, ha, rfl⟩
  · exact hz.2
  · exact (hx a ha).2

/-- a vertex -/
theorem vertex_rt (env : Env A) (params : List (Param A)) (v : Vertex A) (h : vertexOK env v = true) :
    ∃ line, Vertex.toG2O env v = .ok line ∧ RT env params line (.vertex (canonVertex env v)) := by
  obtain ⟨id, ⟨kind, xs⟩⟩ := v
  simp only [vertexOK, Bool.and_eq_true, decide_eq_true_eq] at h
  obtain ⟨hid, hp⟩ := h
  obtain ⟨hk, hlen, hx⟩ := (poseOK_iff env _).mp hp
  simp only at hk hlen hx
  have htok := tok_fields env id xs hid hx
  cases kind with
  | other => exact absurd rfl hk
  | r2 =>
    refine ⟨fmtLine T.vertexXY (env.fmtI id :: xs.map env.fmtF), by simp [Vertex.toG2O, fmtEntries_ok env xs 2 hlen], ?_⟩
    refine ⟨fmtLine_clean _ _ (tags_clean _ (by simp [T.all])) htok, isBlank_fmtLine _ _ (by simp [T.all]), ?_⟩
    have : canonVertex env ⟨id, ⟨.r2, xs⟩⟩ = ⟨id, ⟨.r2, xs⟩⟩ := by simp [canonVertex, canonPose]
    rw [this]
    exact line_faithful_VERTEX_XY env [] params _ _ _ id xs (startsWith_fmtLine _ _) (numbersOf_fmtLine _ _ htok) (floats_map env xs hx) hid.1
  | r3 =>
    refine ⟨fmtLine T.vertexTrackXYZ (env.fmtI id :: xs.map env.fmtF), by simp [Vertex.toG2O, fmtEntries_ok env xs 3 hlen], ?_⟩
    refine ⟨fmtLine_clean _ _ (tags_clean _ (by simp [T.all])) htok, isBlank_fmtLine _ _ (by simp [T.all]), ?_⟩
    have : canonVertex env ⟨id, ⟨.r3, xs⟩⟩ = ⟨id, ⟨.r3, xs⟩⟩ := by simp [canonVertex, canonPose]
    rw [this]
    exact line_faithful_VERTEX_TRACKXYZ env [] params _ _ _ id xs (startsWith_fmtLine _ _) (numbersOf_fmtLine _ _ htok) (floats_map env xs hx) hid.1
  | se2 =>
    obtain ⟨x, y, t, rfl⟩ := len3 xs hlen
    refine ⟨fmtLine T.vertexSE2 (env.fmtI id :: [x, y, t].map env.fmtF), by simp [Vertex.toG2O, fmtEntries_ok env [x, y, t] 3 hlen], ?_⟩
    refine ⟨fmtLine_clean _ _ (tags_clean _ (by simp [T.all])) htok, isBlank_fmtLine _ _ (by simp [T.all]), ?_⟩
    have : canonVertex env ⟨id, ⟨.se2, [x, y, t]⟩⟩ = ⟨id, ⟨.se2, [x, y, env.wrap t]⟩⟩ := by simp [canonVertex, canonPose]
    rw [this]
    exact line_faithful_VERTEX_SE2 env [] params _ _ _ id x y t [] (startsWith_fmtLine _ _) (numbersOf_fmtLine _ _ htok) (floats_map env _ hx) hid.1
  | se3 =>
    obtain ⟨a0, a1, a2, a3, a4, a5, a6, rfl⟩ := len7 xs hlen
    refine ⟨fmtLine T.vertexSE3 (env.fmtI id :: [a0, a1, a2, a3, a4, a5, a6].map env.fmtF), by simp [Vertex.toG2O, fmtEntries_ok env _ 7 hlen], ?_⟩
    refine ⟨fmtLine_clean _ _ (tags_clean _ (by simp [T.all])) htok, isBlank_fmtLine _ _ (by simp [T.all]), ?_⟩
    have : canonVertex env ⟨id, ⟨.se3, [a0, a1, a2, a3, a4, a5, a6]⟩⟩ = ⟨id, ⟨.se3, [a0, a1, a2, a3, a4, a5, a6]⟩⟩ := by simp [canonVertex, canonPose]
    rw [this]
    exact line_faithful_VERTEX_SE3_QUAT env [] params _ _ _ id a0 a1 a2 a3 a4 a5 a6 [] (startsWith_fmtLine _ _) (numbersOf_fmtLine _ _ htok) (floats_map env _ hx) hid.1

/-- a parameter -/
theorem param_rt (env : Env A) (params : List (Param A)) (p : Param A) (h : paramOK env p = true) :
    ∃ line, Param.toG2O env p = .ok line ∧ RT env params line (.param (canonParam env p)) := by
  obtain ⟨pk, id, ⟨kind, xs⟩⟩ := p
  simp only [paramOK, Bool.and_eq_true, decide_eq_true_eq] at h
  obtain ⟨⟨hid, hp⟩, hkind⟩ := h
  obtain ⟨hk, hlen, hx⟩ := (poseOK_iff env _).mp hp
  simp only at hk hlen hx
  have htok := tok_fields env id xs hid hx
  cases pk with
  | se2offset =>
    simp only [beq_iff_eq] at hkind
    subst hkind
    obtain ⟨x, y, t, rfl⟩ := len3 xs hlen
    refine ⟨fmtLine T.paramsSE2Offset (env.fmtI id :: [x, y, t].map env.fmtF), by simp [Param.toG2O, fmtEntries_ok env [x, y, t] 3 hlen], ?_⟩
    refine ⟨fmtLine_clean _ _ (tags_clean _ (by simp [T.all])) htok, isBlank_fmtLine _ _ (by simp [T.all]), ?_⟩
    have : canonParam env ⟨.se2offset, id, ⟨.se2, [x, y, t]⟩⟩ = ⟨.se2offset, id, ⟨.se2, [x, y, env.wrap t]⟩⟩ := by simp [canonParam, canonPose]
    rw [this]
    exact line_faithful_PARAMS_SE2OFFSET env [] params _ _ _ id x y t [] (startsWith_fmtLine _ _) (numbersOf_fmtLine _ _ htok) (floats_map env _ hx) hid.1 rfl
  | se3offset =>
    simp only [beq_iff_eq] at hkind
    subst hkind
    obtain ⟨a0, a1, a2, a3, a4, a5, a6, rfl⟩ := len7 xs hlen
    refine ⟨fmtLine T.paramsSE3Offset (env.fmtI id :: [a0, a1, a2, a3, a4, a5, a6].map env.fmtF), by simp [Param.toG2O, fmtEntries_ok env _ 7 hlen], ?_⟩
    refine ⟨fmtLine_clean _ _ (tags_clean _ (by simp [T.all])) htok, isBlank_fmtLine _ _ (by simp [T.all]), ?_⟩
    have : canonParam env ⟨.se3offset, id, ⟨.se3, [a0, a1, a2, a3, a4, a5, a6]⟩⟩ = ⟨.se3offset, id, ⟨.se3, [a0, a1, a2, a3, a4, a5, a6]⟩⟩ := by simp [canonParam, canonPose]
    rw [this]
    exact line_faithful_PARAMS_SE3OFFSET env [] params _ _ _ id a0 a1 a2 a3 a4 a5 a6 [] (startsWith_fmtLine _ _) (numbersOf_fmtLine _ _ htok) (floats_map env _ hx) hid.1 rfl

theorem lenTwo {α : Type} (xs : List α) (h : xs.length = 2) : ∃ a b, xs = [a, b] := by
  match xs, h with
  | [a, b], _ => exact ⟨a, b, rfl⟩

theorem kindAt_zero (g : Graph A) (i0 i1 : Int) (info : Mat A) (body : EdgeBody A) (k : PoseKind)
    (h : kindAt g ⟨[i0, i1], info, body⟩ 0 = some k) : ∃ v0, lookupVertex g.vertices i0 = some v0 ∧ v0.pose.kind = k := by
  simp only [kindAt, List.getElem?_cons_zero, Option.bind_some, Option.map_eq_some_iff] at h
  exact h

theorem triu3 : triuPairs 3 = [(0,0),(0,1),(0,2),(1,1),(1,2),(2,2)] := by decide
theorem triu2 : triuPairs 2 = [(0,0),(0,1),(1,1)] := by decide

theorem info_rt (env : Env A) (M : Mat A) (n : Nat) (h : infoOK env M n = true) :
    let tri := (triuPairs n).map fun p => entry env.zero M p.1 p.2
    fmtInfo env M n = .ok (tri.map env.fmtF) ∧ (∀ a ∈ tri, GoodF env a) ∧ expandTriu env.zero n tri = .ok M := by
  obtain ⟨hsq, hsym, hgood⟩ := (infoOK_iff env M n).mp h
  refine ⟨fmtInfo_ok env M n hsq, ?_, ?_⟩
  · intro a ha
    simp only [List.mem_map] at ha
    obtain ⟨p, hp, rfl⟩ := ha
    have hp' := (mem_triuPairs n p.1 p.2).mp hp
    have hi : p.1 < M.length := by rw [hsq.1]; omega
    have hrow : (M[p.1]).length = n := hsq.2 _ (List.getElem_mem hi)
    have hj : p.2 < (M[p.1]).length := by omega
    have : entry env.zero M p.1 p.2 = (M[p.1])[p.2] := by
      simp [entry, List.getD_eq_getElem?_getD, List.getElem?_eq_getElem hi, List.getElem?_eq_getElem hj]
    rw [this]
    exact hgood _ (List.getElem_mem hi) _ (List.getElem_mem hj)
  · rw [expandTriu_exact _ _ _ (by simp), (fullOfTriu_triu_iff env.zero M n hsq).mpr hsym]

theorem kindAt_one (g : Graph A) (i0 i1 : Int) (info : Mat A) (body : EdgeBody A) (k : PoseKind)
    (h : kindAt g ⟨[i0, i1], info, body⟩ 1 = some k) : ∃ v1, lookupVertex g.vertices i1 = some v1 ∧ v1.pose.kind = k := by
  simp only [kindAt, List.getElem?_cons_succ, List.getElem?_cons_zero, Option.bind_some, Option.map_eq_some_iff] at h
  exact h

theorem canonPose_of_ne_se2 (env : Env A) (p : Pose A) (h : p.kind ≠ .se2) : canonPose env p = p := by
  obtain ⟨k, xs⟩ := p
  cases k <;> simp_all [canonPose]

theorem lookupParam_map_canon (env : Env A) (ps : List (Param A)) (k : ParamKind) (z : Int) :
    lookupParam (ps.map (canonParam env)) k z = (lookupParam ps k z).map (canonParam env) := by
  unfold lookupParam
  rw [List.find?_map]
  rfl

theorem lookupParam_mem (ps : List (Param A)) (k : ParamKind) (z : Int) (p : Param A) (h : lookupParam ps k z = some p) :
    p ∈ ps ∧ p.kind = k ∧ p.id = z := by
  unfold lookupParam at h
  have h1 := List.mem_of_find?_eq_some h
  have h2 := List.find?_some h
  simp only [Bool.and_eq_true, beq_iff_eq] at h2
  exact ⟨h1, h2.1, h2.2⟩

theorem edge_fields_tok (env : Env A) (i0 i1 : Int) (xs tri : List A) (h0 : GoodI env i0) (h1 : GoodI env i1)
    (hx : ∀ a ∈ xs, GoodF env a) (ht : ∀ a ∈ tri, GoodF env a) :
    ∀ t ∈ [env.fmtI i0, env.fmtI i1] ++ xs.map env.fmtF ++ tri.map env.fmtF, TokOK t := by
  intro t ht'
  simp only [List.mem_append, List.mem_cons, List.mem_map, List.not_mem_nil, or_false] at ht'
  rcases ht' with (((rfl | rfl) | ⟨a, ha, rfl⟩) | ⟨a, ha, rfl⟩)
  · exact h0.2
  · exact h1.2
  · exact (hx a ha).2
  · exact (ht a ha).2

theorem edge_rt_odo_se2 (env : Env A) (g : Graph A) (i0 i1 : Int) (info : Mat A) (est : Pose A)
    (h : edgeOK env g ⟨[i0, i1], info, .odometry est⟩ = true) (hk : kindAt g ⟨[i0, i1], info, .odometry est⟩ 0 = some .se2) :
    ∃ line, Edge.write env g.vertices ⟨[i0, i1], info, .odometry est⟩ = .ok line ∧
      RT env (g.params.map (canonParam env)) line (.edge (canonEdge env g.params ⟨[i0, i1], info, .odometry est⟩)) := by
  simp only [edgeOK, Bool.and_eq_true, decide_eq_true_eq, List.all_cons, List.all_nil, Bool.and_true, hk, beq_iff_eq] at h
  obtain ⟨⟨_, hi0, hi1⟩, ⟨⟨⟨_, _⟩, hek⟩, hp⟩, hinfo⟩ := h
  have hek' : est.kind = .se2 := by simpa using hek
  obtain ⟨v0, hv0, hv0k⟩ := kindAt_zero g i0 i1 info _ _ hk
  obtain ⟨_, hlen, hx⟩ := (poseOK_iff env _).mp hp
  obtain ⟨ek, xs⟩ := est
  simp only at hek' hlen hx
  subst hek'
  obtain ⟨x, y, t, rfl⟩ := len3 xs hlen
  simp only [PoseKind.compactDim] at hinfo
  obtain ⟨hfi, htg, hex⟩ := info_rt env info 3 hinfo
  let tri := (triuPairs 3).map fun p => entry env.zero info p.1 p.2
  have htok := edge_fields_tok env i0 i1 [x, y, t] tri hi0 hi1 hx htg
  refine ⟨fmtLine T.edgeSE2 ([env.fmtI i0, env.fmtI i1] ++ [x, y, t].map env.fmtF ++ tri.map env.fmtF), ?_, ?_⟩
  · rw [← fmtEdgeLine_eq _ _ _ (by simp) (by simp [tri, triu3])]
    simp [Edge.write, Edge.kind0, hv0, hv0k, Edge.toG2O, fmtIds_ok env [i0, i1] 2 rfl, fmtEntries_ok env [x, y, t] 3 rfl, hfi, tri]
  · refine ⟨fmtLine_clean _ _ (tags_clean _ (by simp [T.all])) htok, isBlank_fmtLine _ _ (by simp [T.all]), ?_⟩
    have : canonEdge env g.params ⟨[i0, i1], info, .odometry ⟨.se2, [x, y, t]⟩⟩ = ⟨[i0, i1], info, .odometry ⟨.se2, [x, y, env.wrap t]⟩⟩ := by
      simp [canonEdge, canonPose]
    rw [this]
    exact line_faithful_EDGE_SE2 env [] _ _ _ _ (([x, y, t] ++ tri).map env.fmtF) i0 i1 x y t tri info (startsWith_fmtLine _ _)
      (by rw [numbersOf_fmtLine _ _ htok]; simp) (floats_map env _ (by intro a ha; rcases List.mem_append.mp ha with h | h; exact hx a h; exact htg a h)) hi0.1 hi1.1 hex rfl


theorem triuPairs_ne_nil (n : Nat) (h : 0 < n) : triuPairs n ≠ [] :=
  List.ne_nil_of_mem ((mem_triuPairs n 0 0).mpr ⟨Nat.le_refl 0, h⟩)

theorem edge_rt_odo_se3 (env : Env A) (g : Graph A) (i0 i1 : Int) (info : Mat A) (est : Pose A)
    (h : edgeOK env g ⟨[i0, i1], info, .odometry est⟩ = true) (hk : kindAt g ⟨[i0, i1], info, .odometry est⟩ 0 = some .se3) :
    ∃ line, Edge.write env g.vertices ⟨[i0, i1], info, .odometry est⟩ = .ok line ∧
      RT env (g.params.map (canonParam env)) line (.edge (canonEdge env g.params ⟨[i0, i1], info, .odometry est⟩)) := by
  simp only [edgeOK, Bool.and_eq_true, decide_eq_true_eq, List.all_cons, List.all_nil, Bool.and_true, hk, beq_iff_eq] at h
  obtain ⟨⟨_, hi0, hi1⟩, ⟨⟨⟨_, _⟩, hek⟩, hp⟩, hinfo⟩ := h
  have hek' : est.kind = .se3 := by simpa using hek
  obtain ⟨v0, hv0, hv0k⟩ := kindAt_zero g i0 i1 info _ _ hk
  obtain ⟨_, hlen, hx⟩ := (poseOK_iff env _).mp hp
  obtain ⟨ek, xs⟩ := est
  simp only at hek' hlen hx
  subst hek'
  obtain ⟨a0, a1, a2, a3, a4, a5, a6, rfl⟩ := len7 xs hlen
  simp only [PoseKind.compactDim] at hinfo
  obtain ⟨hfi, htg, hex⟩ := info_rt env info 6 hinfo
  let tri := (triuPairs 6).map fun p => entry env.zero info p.1 p.2
  have htok := edge_fields_tok env i0 i1 [a0, a1, a2, a3, a4, a5, a6] tri hi0 hi1 hx htg
  refine ⟨fmtLine T.edgeSE3 ([env.fmtI i0, env.fmtI i1] ++ [a0, a1, a2, a3, a4, a5, a6].map env.fmtF ++ tri.map env.fmtF), ?_, ?_⟩
  · rw [← fmtEdgeLine_eq _ _ _ (by simp) (by simpa [tri] using triuPairs_ne_nil 6 (by decide))]
    simp [Edge.write, Edge.kind0, hv0, hv0k, Edge.toG2O, fmtIds_ok env [i0, i1] 2 rfl, fmtEntries_ok env [a0, a1, a2, a3, a4, a5, a6] 7 rfl, hfi, tri]
  · refine ⟨fmtLine_clean _ _ (tags_clean _ (by simp [T.all])) htok, isBlank_fmtLine _ _ (by simp [T.all]), ?_⟩
    have : canonEdge env g.params ⟨[i0, i1], info, .odometry ⟨.se3, [a0, a1, a2, a3, a4, a5, a6]⟩⟩
        = ⟨[i0, i1], info, .odometry ⟨.se3, a0 :: a1 :: a2 :: env.normQ a3 a4 a5 a6⟩⟩ := by
      simp [canonEdge, normalizeSE3]
    rw [this]
    exact line_faithful_EDGE_SE3_QUAT env [] _ _ _ _ (([a0, a1, a2, a3, a4, a5, a6] ++ tri).map env.fmtF) i0 i1 a0 a1 a2 a3 a4 a5 a6 tri info
      (startsWith_fmtLine _ _) (by rw [numbersOf_fmtLine _ _ htok]; simp)
      (floats_map env _ (by intro a ha; rcases List.mem_append.mp ha with h | h; exact hx a h; exact htg a h)) hi0.1 hi1.1 hex rfl

theorem edge_rt_lm_se2 (env : Env A) (g : Graph A) (i0 i1 : Int) (info : Mat A) (est off : Pose A) (oid : Option Int)
    (h : edgeOK env g ⟨[i0, i1], info, .landmark est off oid⟩ = true)
    (hk : kindAt g ⟨[i0, i1], info, .landmark est off oid⟩ 0 = some .se2) :
    ∃ line, Edge.write env g.vertices ⟨[i0, i1], info, .landmark est off oid⟩ = .ok line ∧
      RT env (g.params.map (canonParam env)) line (.edge (canonEdge env g.params ⟨[i0, i1], info, .landmark est off oid⟩)) := by
  simp only [edgeOK, Bool.and_eq_true, decide_eq_true_eq, List.all_cons, List.all_nil, Bool.and_true, hk, beq_iff_eq,
    Bool.or_eq_true, Option.some.injEq, reduceCtorEq, false_and, or_false, true_and] at h
  obtain ⟨⟨_, hi0, hi1⟩, hp, ⟨⟨⟨⟨hk1, hek⟩, hok⟩, hid⟩, hinfo⟩⟩ := h
  obtain ⟨v0, hv0, hv0k⟩ := kindAt_zero g i0 i1 info _ _ hk
  obtain ⟨v1, hv1, hv1k⟩ := kindAt_one g i0 i1 info _ _ hk1
  obtain ⟨_, hlen, hx⟩ := (poseOK_iff env _).mp hp
  obtain ⟨ek, xs⟩ := est
  obtain ⟨ok, os⟩ := off
  simp only at hek hok hlen hx hid
  subst hek; subst hok
  obtain ⟨a, b, rfl⟩ := len2 xs hlen
  obtain ⟨hfi, htg, hex⟩ := info_rt env info 2 hinfo
  let tri := (triuPairs 2).map fun p => entry env.zero info p.1 p.2
  have htok := edge_fields_tok env i0 i1 [a, b] tri hi0 hi1 hx htg
  refine ⟨fmtLine T.edgeSE2XY ([env.fmtI i0, env.fmtI i1] ++ [a, b].map env.fmtF ++ tri.map env.fmtF), ?_, ?_⟩
  · rw [← fmtEdgeLine_eq _ _ _ (by simp) (by simpa [tri] using triuPairs_ne_nil 2 (by decide))]
    simp [Edge.write, Edge.kind0, Edge.kind1, hv0, hv0k, hv1, hv1k, Edge.toG2O, hid, fmtIds_ok env [i0, i1] 2 rfl, fmtEntries_ok env [a, b] 2 rfl, hfi, tri]
  · refine ⟨fmtLine_clean _ _ (tags_clean _ (by simp [T.all])) htok, isBlank_fmtLine _ _ (by simp [T.all]), ?_⟩
    have : canonEdge env g.params ⟨[i0, i1], info, .landmark ⟨.r2, [a, b]⟩ ⟨.se2, os⟩ oid⟩
        = ⟨[i0, i1], info, .landmark ⟨.r2, [a, b]⟩ ⟨.se2, identitySE2 env⟩ (some 0)⟩ := by
      simp [canonEdge]
    rw [this]
    exact line_faithful_EDGE_SE2_XY env [] _ _ _ _ (([a, b] ++ tri).map env.fmtF) i0 i1 a b tri info
      (startsWith_fmtLine _ _) (by rw [numbersOf_fmtLine _ _ htok]; simp)
      (floats_map env _ (by intro a ha; rcases List.mem_append.mp ha with h | h; exact hx a h; exact htg a h)) hi0.1 hi1.1 hex rfl

theorem edge_rt_lm_se3 (env : Env A) (g : Graph A) (i0 i1 : Int) (info : Mat A) (est off : Pose A) (oid : Option Int)
    (hps : ∀ p ∈ g.params, paramOK env p = true)
    (h : edgeOK env g ⟨[i0, i1], info, .landmark est off oid⟩ = true)
    (hk : kindAt g ⟨[i0, i1], info, .landmark est off oid⟩ 0 = some .se3) :
    ∃ line, Edge.write env g.vertices ⟨[i0, i1], info, .landmark est off oid⟩ = .ok line ∧
      RT env (g.params.map (canonParam env)) line (.edge (canonEdge env g.params ⟨[i0, i1], info, .landmark est off oid⟩)) := by
  simp only [edgeOK, Bool.and_eq_true, decide_eq_true_eq, List.all_cons, List.all_nil, Bool.and_true, hk, beq_iff_eq,
    Bool.or_eq_true, Option.some.injEq, reduceCtorEq, false_and, false_or, true_and] at h
  obtain ⟨⟨_, hi0, hi1⟩, hp, ⟨⟨⟨⟨hk1, hek⟩, hok⟩, hoid⟩, hinfo⟩⟩ := h
  obtain ⟨v0, hv0, hv0k⟩ := kindAt_zero g i0 i1 info _ _ hk
  obtain ⟨v1, hv1, hv1k⟩ := kindAt_one g i0 i1 info _ _ hk1
  obtain ⟨_, hlen, hx⟩ := (poseOK_iff env _).mp hp
  obtain ⟨ek, xs⟩ := est
  obtain ⟨ok, os⟩ := off
  simp only at hek hok hlen hx
  subst hek; subst hok
  obtain ⟨a, b, c, rfl⟩ := len3 xs hlen
  cases oid with
  | none => simp at hoid
  | some z =>
    simp only [Bool.and_eq_true, decide_eq_true_eq] at hoid
    obtain ⟨hz, hl⟩ := hoid
    cases hlp : lookupParam g.params .se3offset z with
    | none => simp [hlp] at hl
    | some p =>
      obtain ⟨hpm, hpk, _⟩ := lookupParam_mem _ _ _ _ hlp
      have hpv : p.value.kind = .se3 := by
        have := hps p hpm
        simp only [paramOK, Bool.and_eq_true, hpk, beq_iff_eq] at this
        exact this.2
      have hcp : canonParam env p = p := by
        obtain ⟨pk, pid, pv⟩ := p
        simp only [canonParam]
        rw [canonPose_of_ne_se2 env pv (by simp only at hpv; rw [hpv]; decide)]
      obtain ⟨hfi, htg, hex⟩ := info_rt env info 3 hinfo
      let tri := (triuPairs 3).map fun p => entry env.zero info p.1 p.2
      have htok : ∀ t ∈ [env.fmtI i0, env.fmtI i1, env.fmtI z] ++ [a, b, c].map env.fmtF ++ tri.map env.fmtF, TokOK t := by
        intro t ht'
        simp only [List.mem_append, List.mem_cons, List.mem_map, List.not_mem_nil, or_false] at ht'
        rcases ht' with (((rfl | rfl | rfl) | ⟨a, ha, rfl⟩) | ⟨a, ha, rfl⟩)
        · exact hi0.2
        · exact hi1.2
        · exact hz.2
        · exact (hx a (by simpa using ha)).2
        · exact (htg a ha).2
      refine ⟨fmtLine T.edgeSE3TrackXYZ ([env.fmtI i0, env.fmtI i1, env.fmtI z] ++ [a, b, c].map env.fmtF ++ tri.map env.fmtF), ?_, ?_⟩
      · rw [← fmtEdgeLine_eq _ _ _ (by simp) (by simpa [tri] using triuPairs_ne_nil 3 (by decide))]
        simp [Edge.write, Edge.kind0, Edge.kind1, hv0, hv0k, hv1, hv1k, Edge.toG2O, fmtOffsetId, fmtIds_ok env [i0, i1] 2 rfl, fmtEntries_ok env [a, b, c] 3 rfl, hfi, tri]
      · refine ⟨fmtLine_clean _ _ (tags_clean _ (by simp [T.all])) htok, isBlank_fmtLine _ _ (by simp [T.all]), ?_⟩
        have : canonEdge env g.params ⟨[i0, i1], info, .landmark ⟨.r3, [a, b, c]⟩ ⟨.se3, os⟩ (some z)⟩
            = ⟨[i0, i1], info, .landmark ⟨.r3, [a, b, c]⟩ p.value (some z)⟩ := by
          simp [canonEdge, hlp]
        rw [this]
        exact line_faithful_EDGE_SE3_TRACKXYZ env [] _ _ _ _ _ (([a, b, c] ++ tri).map env.fmtF) i0 i1 z a b c tri info p
          (startsWith_fmtLine _ _) (by rw [numbersOf_fmtLine _ _ htok]; simp)
          (floats_map env _ (by intro a ha; rcases List.mem_append.mp ha with h | h; exact hx a h; exact htg a h)) hi0.1 hi1.1 hz.1
          (by rw [lookupParam_map_canon, hlp, Option.map_some, hcp]) hex rfl

/-- the pre-check of graph.py:534-538 accepts every expressible edge -/
theorem preCheck_ok (env : Env A) (g : Graph A) (e : Edge A) (h : edgeOK env g e = true) : Edge.preCheck env g.params e = true := by
  obtain ⟨ids, info, body⟩ := e
  cases body with
  | odometry est => rfl
  | custom c est out => simp [edgeOK] at h
  | landmark est off oid =>
    simp only [edgeOK, Bool.and_eq_true, Bool.or_eq_true, beq_iff_eq, decide_eq_true_eq] at h
    obtain ⟨_, _, h⟩ := h
    rcases h with h | h
    · have : off.kind = .se2 := h.1.1.2
      simp [Edge.preCheck, this]
    · have hk : off.kind = .se3 := h.1.1.2
      have hm := h.1.2
      cases oid with
      | none => simp at hm
      | some z =>
        simp only [Bool.and_eq_true, decide_eq_true_eq] at hm
        cases hlp : lookupParam g.params .se3offset z with
        | none => simp [hlp] at hm
        | some p => simpa [Edge.preCheck, hk, hlp] using hm.2

/-- an edge -/
theorem edge_rt (env : Env A) (g : Graph A) (e : Edge A) (hps : ∀ p ∈ g.params, paramOK env p = true) (h : edgeOK env g e = true) :
    ∃ line, Edge.write env g.vertices e = .ok line ∧
      RT env (g.params.map (canonParam env)) line (.edge (canonEdge env g.params e)) := by
  obtain ⟨ids, info, body⟩ := e
  have hlen : ids.length = 2 := by
    simp only [edgeOK, Bool.and_eq_true, beq_iff_eq] at h
    exact h.1.1
  obtain ⟨i0, i1, rfl⟩ := lenTwo ids hlen
  cases body with
  | custom c est out => simp [edgeOK] at h
  | odometry est =>
    have hk : kindAt g ⟨[i0, i1], info, .odometry est⟩ 0 = some .se2 ∨ kindAt g ⟨[i0, i1], info, .odometry est⟩ 0 = some .se3 := by
      simp only [edgeOK, Bool.and_eq_true, Bool.or_eq_true, beq_iff_eq] at h
      exact h.2.1.1.1.1
    rcases hk with hk | hk
    · exact edge_rt_odo_se2 env g i0 i1 info est h hk
    · exact edge_rt_odo_se3 env g i0 i1 info est h hk
  | landmark est off oid =>
    have hk : kindAt g ⟨[i0, i1], info, .landmark est off oid⟩ 0 = some .se2 ∨ kindAt g ⟨[i0, i1], info, .landmark est off oid⟩ 0 = some .se3 := by
      simp only [edgeOK, Bool.and_eq_true, Bool.or_eq_true, beq_iff_eq] at h
      rcases h.2.2 with h' | h'
      · exact Or.inl h'.1.1.1.1.1
      · exact Or.inr h'.1.1.1.1.1
    rcases hk with hk | hk
    · exact edge_rt_lm_se2 env g i0 i1 info est off oid h hk
    · exact edge_rt_lm_se3 env g i0 i1 info est off oid hps h hk

end GraphSlam.Props.C13
