import GraphSlam.Props.C13.Lines

/-!
# C13 helper lemmas: writing one expressible element and reading the line back gives its canonical form
-/

namespace GraphSlam.Props.C13
open GraphSlam.Model.G2O GraphSlam.Props.C14

variable {A : Type} [DecidableEq A]

set_option linter.unusedSimpArgs false
set_option linter.unusedSectionVars false

/-- `line` is a clean, non-blank line that the reader (with no custom edge types and the dictionary `params`) turns into `out` -/
structure RT (env : Env A) (params : List (Param A)) (line : Str) (out : LineOut A) : Prop where
  clean : ∃ b, line = b ++ ['\n'] ∧ Clean b
  notBlank : isBlank line = false
  parses : parseLine env [] params line = .ok out

theorem poseOK_iff (env : Env A) (p : Pose A) :
    poseOK env p = true ↔ p.kind ≠ .other ∧ p.xs.length = arity p.kind ∧ ∀ a ∈ p.xs, GoodF env a := by
  simp [poseOK, and_assoc]

theorem infoOK_iff (env : Env A) (M : Mat A) (n : Nat) :
    infoOK env M n = true ↔ Square M n ∧ Symm env.zero M n ∧ ∀ r ∈ M, ∀ a ∈ r, GoodF env a := by
  simp [infoOK, squareOf, symmB, Square, Symm, and_assoc]
  intro _ _ _
  exact ⟨fun h i j hi hj => h i hi j hj, fun h i hi j hj => h i j hi hj⟩

theorem mem_T (t : Str) (h : t ∈ T.all) : t ∈ T.all := h

theorem len2 (xs : List A) (h : xs.length = 2) : ∃ a b, xs = [a, b] := by
  match xs, h with
  | [a, b], _ => exact ⟨a, b, rfl⟩

theorem len3 (xs : List A) (h : xs.length = 3) : ∃ a b c, xs = [a, b, c] := by
  match xs, h with
  | [a, b, c], _ => exact ⟨a, b, c, rfl⟩

theorem len7 (xs : List A) (h : xs.length = 7) : ∃ a0 a1 a2 a3 a4 a5 a6, xs = [a0, a1, a2, a3, a4, a5, a6] := by
  match xs, h with
  | [a0, a1, a2, a3, a4, a5, a6], _ => exact ⟨a0, a1, a2, a3, a4, a5, a6, rfl⟩

theorem tok_fields (env : Env A) (z : Int) (xs : List A) (hz : GoodI env z) (hx : ∀ a ∈ xs, GoodF env a) :
    ∀ t ∈ env.fmtI z :: xs.map env.fmtF, TokOK t := by
  intro t ht
  simp only [List.mem_cons, List.mem_map] at ht
  rcases ht with rfl | ⟨a, ha, rfl⟩
  · exact hz.2
  · exact (hx a ha).2

/-- a vertex -/
theorem vertex_rt (env : Env A) (params : List (Param A)) (v : Vertex A) (h : vertexOK env v = true) :
    ∃ line, Vertex.toG2O env v = .ok line ∧ RT env params line (.vertex (canonVertex env v)) := by
  obtain ⟨id, ⟨kind, xs⟩⟩ := v
  simp only [vertexOK, Bool.and_eq_true, decide_eq_true_eq] at h
  obtain ⟨hid, hp⟩ := h
  obtain ⟨hk, hlen, hx⟩ := (poseOK_iff env _).mp hp
  simp only at hk hlen hx
  have htok := tok_fields env id xs hid hx
  cases kind with
  | other => exact absurd rfl hk
  | r2 =>
    refine ⟨fmtLine T.vertexXY (env.fmtI id :: xs.map env.fmtF), by simp [Vertex.toG2O, fmtEntries_ok env xs 2 hlen], ?_⟩
    refine ⟨fmtLine_clean _ _ (tags_clean _ (by simp [T.all])) htok, isBlank_fmtLine _ _ (by simp [T.all]), ?_⟩
    have : canonVertex env ⟨id, ⟨.r2, xs⟩⟩ = ⟨id, ⟨.r2, xs⟩⟩ := by simp [canonVertex, canonPose]
    rw [this]
    exact line_faithful_VERTEX_XY env [] params _ _ _ id xs (startsWith_fmtLine _ _) (numbersOf_fmtLine _ _ htok) (floats_map env xs hx) hid.1
  | r3 =>
    refine ⟨fmtLine T.vertexTrackXYZ (env.fmtI id :: xs.map env.fmtF), by simp [Vertex.toG2O, fmtEntries_ok env xs 3 hlen], ?_⟩
    refine ⟨fmtLine_clean _ _ (tags_clean _ (by simp [T.all])) htok, isBlank_fmtLine _ _ (by simp [T.all]), ?_⟩
    have : canonVertex env ⟨id, ⟨.r3, xs⟩⟩ = ⟨id, ⟨.r3, xs⟩⟩ := by simp [canonVertex, canonPose]
    rw [this]
    exact line_faithful_VERTEX_TRACKXYZ env [] params _ _ _ id xs (startsWith_fmtLine _ _) (numbersOf_fmtLine _ _ htok) (floats_map env xs hx) hid.1
  | se2 =>
    obtain ⟨x, y, t, rfl⟩ := len3 xs hlen
    refine ⟨fmtLine T.vertexSE2 (env.fmtI id :: [x, y, t].map env.fmtF), by simp [Vertex.toG2O, fmtEntries_ok env [x, y, t] 3 hlen], ?_⟩
    refine ⟨fmtLine_clean _ _ (tags_clean _ (by simp [T.all])) htok, isBlank_fmtLine _ _ (by simp [T.all]), ?_⟩
    have : canonVertex env ⟨id, ⟨.se2, [x, y, t]⟩⟩ = ⟨id, ⟨.se2, [x, y, env.wrap t]⟩⟩ := by simp [canonVertex, canonPose]
    rw [this]
    exact line_faithful_VERTEX_SE2 env [] params _ _ _ id x y t [] (startsWith_fmtLine _ _) (numbersOf_fmtLine _ _ htok) (floats_map env _ hx) hid.1
  | se3 =>
    obtain ⟨a0, a1, a2, a3, a4, a5, a6, rfl⟩ := len7 xs hlen
    refine ⟨fmtLine T.vertexSE3 (env.fmtI id :: [a0, a1, a2, a3, a4, a5, a6].map env.fmtF), by simp [Vertex.toG2O, fmtEntries_ok env _ 7 hlen], ?_⟩
    refine ⟨fmtLine_clean _ _ (tags_clean _ (by simp [T.all])) htok, isBlank_fmtLine _ _ (by simp [T.all]), ?_⟩
    have : canonVertex env ⟨id, ⟨.se3, [a0, a1, a2, a3, a4, a5, a6]⟩⟩ = ⟨id, ⟨.se3, [a0, a1, a2, a3, a4, a5, a6]⟩⟩ := by simp [canonVertex, canonPose]
    rw [this]
    exact line_faithful_VERTEX_SE3_QUAT env [] params _ _ _ id a0 a1 a2 a3 a4 a5 a6 [] (startsWith_fmtLine _ _) (numbersOf_fmtLine _ _ htok) (floats_map env _ hx) hid.1

/-- a parameter -/
theorem param_rt (env : Env A) (params : List (Param A)) (p : Param A) (h : paramOK env p = true) :
    ∃ line, Param.toG2O env p = .ok line ∧ RT env params line (.param (canonParam env p)) := by
  obtain ⟨pk, id, ⟨kind, xs⟩⟩ := p
  simp only [paramOK, Bool.and_eq_true, decide_eq_true_eq] at h
  obtain ⟨⟨hid, hp⟩, hkind⟩ := h
  obtain ⟨hk, hlen, hx⟩ := (poseOK_iff env _).mp hp
  simp only at hk hlen hx
  have htok := tok_fields env id xs hid hx
  cases pk with
  | se2offset =>
    simp only [beq_iff_eq] at hkind
    subst hkind
    obtain ⟨x, y, t, rfl⟩ := len3 xs hlen
    refine ⟨fmtLine T.paramsSE2Offset (env.fmtI id :: [x, y, t].map env.fmtF), by simp [Param.toG2O, fmtEntries_ok env [x, y, t] 3 hlen], ?_⟩
    refine ⟨fmtLine_clean _ _ (tags_clean _ (by simp [T.all])) htok, isBlank_fmtLine _ _ (by simp [T.all]), ?_⟩
    have : canonParam env ⟨.se2offset, id, ⟨.se2, [x, y, t]⟩⟩ = ⟨.se2offset, id, ⟨.se2, [x, y, env.wrap t]⟩⟩ := by simp [canonParam, canonPose]
    rw [this]
    exact line_faithful_PARAMS_SE2OFFSET env [] params _ _ _ id x y t [] (startsWith_fmtLine _ _) (numbersOf_fmtLine _ _ htok) (floats_map env _ hx) hid.1 rfl
  | se3offset =>
    simp only [beq_iff_eq] at hkind
    subst hkind
    obtain ⟨a0, a1, a2, a3, a4, a5, a6, rfl⟩ := len7 xs hlen
    refine ⟨fmtLine T.paramsSE3Offset (env.fmtI id :: [a0, a1, a2, a3, a4, a5, a6].map env.fmtF), by simp [Param.toG2O, fmtEntries_ok env _ 7 hlen], ?_⟩
    refine ⟨fmtLine_clean _ _ (tags_clean _ (by simp [T.all])) htok, isBlank_fmtLine _ _ (by simp [T.all]), ?_⟩
    have : canonParam env ⟨.se3offset, id, ⟨.se3, [a0, a1, a2, a3, a4, a5, a6]⟩⟩ = ⟨.se3offset, id, ⟨.se3, [a0, a1, a2, a3, a4, a5, a6]⟩⟩ := by simp [canonParam, canonPose]
    rw [this]
    exact line_faithful_PARAMS_SE3OFFSET env [] params _ _ _ id a0 a1 a2 a3 a4 a5 a6 [] (startsWith_fmtLine _ _) (numbersOf_fmtLine _ _ htok) (floats_map env _ hx) hid.1 rfl

end GraphSlam.Props.C13
