import GraphSlam.Model.G2O

/-!
# C13/C14 helper lemmas, character level: `split()`, `" ".join`, `readlines`
-/

namespace GraphSlam.Props.C13
open GraphSlam.Model.G2O

/-- a token: non-empty and free of (Python) whitespace -/
def TokOK (t : Str) : Prop := t ≠ [] ∧ ∀ c ∈ t, isPySpace c = false

instance (t : Str) : Decidable (TokOK t) := by unfold TokOK; exact inferInstance

/-- a separator: whitespace only -/
def AllWS (w : Str) : Prop := ∀ c ∈ w, isPySpace c = true

instance (w : Str) : Decidable (AllWS w) := by unfold AllWS; exact inferInstance

theorem splitAux_tok (tok : Str) (h : ∀ c ∈ tok, isPySpace c = false) (rest cur : Str) :
    splitAux (tok ++ rest) cur = splitAux rest (tok.reverse ++ cur) := by
  induction tok generalizing cur with
  | nil => simp
  | cons c cs ih =>
    have hc : isPySpace c = false := h c (by simp)
    have hcs : ∀ d ∈ cs, isPySpace d = false := fun d hd => h d (by simp [hd])
    simp only [List.cons_append, splitAux, hc, Bool.false_eq_true, if_false, List.reverse_cons, List.append_assoc,
      ]
    exact ih hcs _

theorem splitAux_ws_nil (w : Str) (h : AllWS w) (rest : Str) : splitAux (w ++ rest) [] = splitAux rest [] := by
  induction w with
  | nil => simp
  | cons c cs ih =>
    have hc : isPySpace c = true := h c (by simp)
    have hcs : AllWS cs := fun d hd => h d (by simp [hd])
    simp [splitAux, hc, ih hcs]

theorem splitAux_ws_cons (c : Char) (hc : isPySpace c = true) (rest cur : Str) (hcur : cur ≠ []) :
    splitAux (c :: rest) cur = cur.reverse :: splitAux rest [] := by
  cases cur with
  | nil => exact absurd rfl hcur
  | cons a as => simp [splitAux, hc]

theorem splitAux_end (w cur : Str) (h : AllWS w) (hcur : cur ≠ []) : splitAux w cur = [cur.reverse] := by
  cases w with
  | nil => cases cur with
    | nil => exact absurd rfl hcur
    | cons a as => simp [splitAux]
  | cons c cs =>
    have hc : isPySpace c = true := h c (by simp)
    have hcs : AllWS cs := fun d hd => h d (by simp [hd])
    rw [splitAux_ws_cons c hc cs cur hcur]
    have := splitAux_ws_nil cs hcs []
    simp only [List.append_nil] at this
    rw [this]; simp [splitAux]

/-- a token followed by a non-empty separator -/
theorem splitWS_tok_sep (tok w rest : Str) (ht : TokOK tok) (hw : AllWS w) (hne : w ≠ []) :
    splitWS (tok ++ (w ++ rest)) = tok :: splitWS rest := by
  unfold splitWS
  rw [splitAux_tok tok ht.2]
  cases w with
  | nil => exact absurd rfl hne
  | cons c cs =>
    have hc : isPySpace c = true := hw c (by simp)
    have hcs : AllWS cs := fun d hd => hw d (by simp [hd])
    have hcur : tok.reverse ++ [] ≠ [] := by simpa using ht.1
    rw [List.cons_append, splitAux_ws_cons c hc _ _ hcur, splitAux_ws_nil cs hcs]
    simp

/-- the last token, followed by optional whitespace -/
theorem splitWS_tok_end (tok w : Str) (ht : TokOK tok) (hw : AllWS w) : splitWS (tok ++ w) = [tok] := by
  unfold splitWS
  rw [splitAux_tok tok ht.2]
  have hcur : tok.reverse ++ [] ≠ [] := by simpa using ht.1
  rw [splitAux_end w _ hw hcur]; simp

theorem splitWS_ws (w : Str) (hw : AllWS w) : splitWS w = [] := by
  have := splitAux_ws_nil w hw []
  simp only [List.append_nil] at this
  unfold splitWS; rw [this]; simp [splitAux]

theorem splitWS_ws_append (w s : Str) (hw : AllWS w) : splitWS (w ++ s) = splitWS s := by
  unfold splitWS; exact splitAux_ws_nil w hw s

/-- `(" ".join(toks) + w).split() == toks` for tokens without whitespace and a whitespace tail `w` (e.g. `"\n"`) -/
theorem splitWS_joinSp_append (toks : List Str) (w : Str) (ht : ∀ t ∈ toks, TokOK t) (hw : AllWS w) :
    splitWS (joinSp toks ++ w) = toks := by
  induction toks with
  | nil => simpa [joinSp] using splitWS_ws w hw
  | cons t ts ih =>
    have h1 : TokOK t := ht t (by simp)
    have h2 : ∀ u ∈ ts, TokOK u := fun u hu => ht u (by simp [hu])
    cases ts with
    | nil => simpa [joinSp] using splitWS_tok_end t w h1 hw
    | cons u us =>
      have hsp : AllWS [' '] := by intro c hc; simp at hc; subst hc; decide
      have := splitWS_tok_sep t [' '] (joinSp (u :: us) ++ w) h1 hsp (by simp)
      simp only [joinSp, List.append_assoc, List.cons_append, List.nil_append] at this ⊢
      rw [this, ih h2]

/-- tokens glued with arbitrary whitespace: `(tok, separator)` pairs, every separator but the last non-empty -/
def glue : List (Str × Str) → Str
  | [] => []
  | p :: ps => p.1 ++ (p.2 ++ glue ps)

def GoodGlue : List (Str × Str) → Prop
  | [] => True
  | [p] => TokOK p.1 ∧ AllWS p.2
  | p :: q :: r => TokOK p.1 ∧ AllWS p.2 ∧ p.2 ≠ [] ∧ GoodGlue (q :: r)

theorem splitWS_glue' (ps : List (Str × Str)) (h : GoodGlue ps) : splitWS (glue ps) = ps.map (·.1) := by
  induction ps with
  | nil => simp [glue, splitWS, splitAux]
  | cons p ps ih =>
    cases ps with
    | nil =>
      simp only [GoodGlue] at h
      simpa [glue] using splitWS_tok_end p.1 p.2 h.1 h.2
    | cons q r =>
      simp only [GoodGlue] at h
      simp only [glue, List.map_cons] at ih ⊢
      rw [splitWS_tok_sep p.1 p.2 _ h.1 h.2.1 h.2.2.1, ih h.2.2.2]

theorem isBlank_false_of_mem (s : Str) (c : Char) (hc : c ∈ s) (h : isPySpace c = false) : isBlank s = false := by
  unfold isBlank
  rw [Bool.eq_false_iff]
  intro hall
  rw [List.all_eq_true] at hall
  have := hall c hc
  simp [h] at this

/-! ### `readlines` -/

theorem translateNL_cons_ne (c : Char) (t : Str) (hc : c ≠ '\r') : translateNL (c :: t) = c :: translateNL t := by
  cases t with
  | nil => simp [translateNL, hc]
  | cons d cs => simp [translateNL, hc]

theorem translateNL_id (s : Str) (h : '\r' ∉ s) : translateNL s = s := by
  induction s with
  | nil => simp [translateNL]
  | cons c t ih =>
    have hc : c ≠ '\r' := fun e => h (by simp [e])
    have ht : '\r' ∉ t := fun hm => h (by simp [hm])
    rw [translateNL_cons_ne c t hc, ih ht]

theorem splitLinesAux_line (l rest cur : Str) (h : '\n' ∉ l) :
    splitLinesAux (l ++ '\n' :: rest) cur = (cur.reverse ++ l ++ ['\n']) :: splitLinesAux rest [] := by
  induction l generalizing cur with
  | nil => simp [splitLinesAux]
  | cons c cs ih =>
    have hc : c ≠ '\n' := fun e => h (by simp [e])
    have hcs : '\n' ∉ cs := fun hm => h (by simp [hm])
    simp only [List.cons_append, splitLinesAux, hc, if_false]
    rw [ih _ hcs]; simp

/-- a text made of newline-terminated lines without inner `\r` / `\n` is read back as exactly those lines -/
theorem readlines_lines (bodies : List Str) (h : ∀ b ∈ bodies, '\n' ∉ b ∧ '\r' ∉ b) :
    readlines ((bodies.map (· ++ ['\n'])).flatten) = bodies.map (· ++ ['\n']) := by
  unfold readlines
  have hr : '\r' ∉ (bodies.map (· ++ ['\n'])).flatten := by
    intro hm
    rw [List.mem_flatten] at hm
    obtain ⟨l, hl, hc⟩ := hm
    rw [List.mem_map] at hl
    obtain ⟨b, hb, rfl⟩ := hl
    rw [List.mem_append] at hc
    rcases hc with hc | hc
    · exact (h b hb).2 hc
    · simp at hc
  rw [translateNL_id _ hr]
  induction bodies with
  | nil => simp [splitLinesAux]
  | cons b bs ih =>
    have hb := (h b (by simp)).1
    have hbs : ∀ b' ∈ bs, '\n' ∉ b' ∧ '\r' ∉ b' := fun b' hb' => h b' (by simp [hb'])
    have hr' : '\r' ∉ (bs.map (· ++ ['\n'])).flatten := by
      intro hm; apply hr; simp only [List.map_cons, List.flatten_cons, List.mem_append]; exact Or.inr hm
    simp only [List.map_cons, List.flatten_cons, List.append_assoc, List.singleton_append]
    rw [splitLinesAux_line b _ [] hb, ih hbs hr']
    simp

end GraphSlam.Props.C13
