import GraphSlam.Props.C13.Elements

/-!
# C13 helper lemmas: from elements to the whole file (writer sequence, `readlines`, the reader loop, `Graph.__init__`)
-/

namespace GraphSlam.Props.C13
open GraphSlam.Model.G2O GraphSlam.Props.C14

variable {A : Type} [DecidableEq A]

set_option linter.unusedSimpArgs false
set_option linter.unusedSectionVars false

/-- the two lists have the same length and are related position by position -/
inductive Paired {α β : Type} (R : α → β → Prop) : List α → List β → Prop
  | nil : Paired R [] []
  | cons {a : α} {b : β} {as : List α} {bs : List β} : R a b → Paired R as bs → Paired R (a :: as) (b :: bs)

theorem Paired.length_eq {α β : Type} {R : α → β → Prop} {as : List α} {bs : List β} (h : Paired R as bs) : as.length = bs.length := by
  induction h with
  | nil => rfl
  | cons _ _ ih => simp [ih]

theorem Paired.map_right {α β γ : Type} {R : α → γ → Prop} (f : β → γ) {as : List α} {bs : List β}
    (h : Paired (fun a b => R a (f b)) as bs) : Paired R as (bs.map f) := by
  induction h with
  | nil => exact Paired.nil
  | cons hr _ ih => exact Paired.cons hr ih

theorem Paired.imp {α β : Type} {R S : α → β → Prop} (hi : ∀ a b, R a b → S a b) {as : List α} {bs : List β}
    (h : Paired R as bs) : Paired S as bs := by
  induction h with
  | nil => exact Paired.nil
  | cons hr _ ih => exact Paired.cons (hi _ _ hr) ih

theorem Paired.left_all {α β : Type} {R : α → β → Prop} {Q : α → Prop} (hi : ∀ a b, R a b → Q a) {as : List α} {bs : List β}
    (h : Paired R as bs) : ∀ a ∈ as, Q a := by
  induction h with
  | nil => simp
  | cons hr _ ih => intro a ha; rcases List.mem_cons.mp ha with rfl | h'; exact hi _ _ hr; exact ih a h'

/-- the elements of `xs` are written as the lines `lines`, and line `i` relates to element `i` by `P` -/
theorem lines_of_elements {α : Type} (f : α → Except PyErr Str) (P : Str → α → Prop) (xs : List α)
    (h : ∀ x ∈ xs, ∃ line, f x = .ok line ∧ P line x) :
    ∃ lines : List Str, xs.map f = lines.map .ok ∧ Paired P lines xs := by
  induction xs with
  | nil => exact ⟨[], rfl, Paired.nil⟩
  | cons x xs ih =>
    obtain ⟨line, hf, hp⟩ := h x (by simp)
    obtain ⟨lines, hm, hfa⟩ := ih (fun y hy => h y (by simp [hy]))
    exact ⟨line :: lines, by simp [hf, hm], Paired.cons hp hfa⟩

theorem writeSeq_ok (lines : List Str) : writeSeq (lines.map .ok) = (lines.flatten, none) := by
  induction lines with
  | nil => rfl
  | cons l ls ih => simp [writeSeq, ih]

theorem bodies_of_lines (lines : List Str) (h : ∀ l ∈ lines, ∃ b, l = b ++ ['\n'] ∧ Clean b) :
    ∃ bodies : List Str, lines = bodies.map (· ++ ['\n']) ∧ ∀ b ∈ bodies, Clean b := by
  induction lines with
  | nil => exact ⟨[], rfl, by simp⟩
  | cons l ls ih =>
    obtain ⟨b, rfl, hb⟩ := h l (by simp)
    obtain ⟨bs, rfl, hbs⟩ := ih (fun l' hl' => h l' (by simp [hl']))
    exact ⟨b :: bs, by simp, by intro b' hb'; rcases List.mem_cons.mp hb' with rfl | h'; exact hb; exact hbs b' h'⟩

/-- what a run of lines adds to the loop state -/
def pushAll (st : PState A) : List (Str × LineOut A) → PState A
  | [] => st
  | lo :: rest => pushAll (st.push lo.1 lo.2) rest

/-- a run of non-blank lines, each of which the reader turns into the paired object whenever the dictionary satisfies the
invariant `I` (which the objects preserve), is consumed by the loop without an exception -/
theorem parseLines_run (env : Env A) (I : List (Param A) → Prop) (lines : List Str) (outs : List (LineOut A)) (rest : List Str)
    (h : Paired (fun l o => isBlank l = false ∧ ∀ ps, I ps → parseLine env [] ps l = .ok o ∧ I (paramsStep ps o)) lines outs)
    (st : PState A) (hst : I st.params) :
    parseLines env [] st (lines ++ rest) = parseLines env [] (pushAll st (lines.zip outs)) rest ∧ I (pushAll st (lines.zip outs)).params := by
  induction h generalizing st with
  | nil => exact ⟨rfl, hst⟩
  | @cons l o ls os hlo _ ih =>
    obtain ⟨hb, hp⟩ := hlo
    obtain ⟨hpl, hI⟩ := hp st.params hst
    rw [List.cons_append, parseLines_ok _ _ _ _ _ o hb hpl]
    have := ih (st.push l o) (by rw [push_params]; exact hI)
    simpa [pushAll] using this

theorem pushAll_append (st : PState A) (a b : List (Str × LineOut A)) : pushAll st (a ++ b) = pushAll (pushAll st a) b := by
  induction a generalizing st with
  | nil => rfl
  | cons x xs ih => simp [pushAll, ih]

theorem pushAll_params (st : PState A) (lines : List Str) (ps : List (Param A)) (h : lines.length = ps.length) :
    pushAll st (lines.zip (ps.map LineOut.param)) = { st with params := ps.foldl dictSet st.params } := by
  induction ps generalizing st lines with
  | nil => cases lines <;> simp [pushAll]
  | cons p ps ih =>
    cases lines with
    | nil => simp at h
    | cons l ls =>
      simp only [List.map_cons, List.zip_cons_cons, pushAll, PState.push, List.foldl_cons]
      rw [ih _ ls (by simpa using h)]

theorem pushAll_vertices (st : PState A) (lines : List Str) (vs : List (Vertex A)) (h : lines.length = vs.length) :
    pushAll st (lines.zip (vs.map LineOut.vertex)) = { st with vertices := st.vertices ++ vs } := by
  induction vs generalizing st lines with
  | nil => cases lines <;> simp [pushAll]
  | cons v vs ih =>
    cases lines with
    | nil => simp at h
    | cons l ls =>
      simp only [List.map_cons, List.zip_cons_cons, pushAll, PState.push]
      rw [ih _ ls (by simpa using h)]
      simp

theorem pushAll_edges (st : PState A) (lines : List Str) (es : List (Edge A)) (h : lines.length = es.length) :
    pushAll st (lines.zip (es.map LineOut.edge)) = { st with edges := st.edges ++ es } := by
  induction es generalizing st lines with
  | nil => cases lines <;> simp [pushAll]
  | cons e es ih =>
    cases lines with
    | nil => simp at h
    | cons l ls =>
      simp only [List.map_cons, List.zip_cons_cons, pushAll, PState.push]
      rw [ih _ ls (by simpa using h)]
      simp

/-! ### the dictionary built from distinct keys is the list itself -/

theorem dictSet_fresh (ps : List (Param A)) (p : Param A) (h : ps.all (fun q => !(q.kind == p.kind && q.id == p.id)) = true) :
    dictSet ps p = ps ++ [p] := by
  induction ps with
  | nil => rfl
  | cons q qs ih =>
    simp only [List.all_cons, Bool.and_eq_true, Bool.not_eq_true'] at h
    simp [dictSet, h.1, ih h.2]

theorem foldl_dictSet_nodup (acc ps : List (Param A)) (h : keysNodup (acc ++ ps) = true) : ps.foldl dictSet acc = acc ++ ps := by
  induction ps generalizing acc with
  | nil => simp
  | cons p ps ih =>
    have hfresh : acc.all (fun q => !(q.kind == p.kind && q.id == p.id)) = true := by
      clear ih
      induction acc with
      | nil => rfl
      | cons a as iha =>
        simp only [List.cons_append, keysNodup, Bool.and_eq_true, List.all_append, List.all_cons] at h
        simp only [List.all_cons, Bool.and_eq_true]
        refine ⟨?_, iha h.2⟩
        have := h.1.2.1
        simp only [Bool.not_eq_true', Bool.and_eq_false_iff, beq_eq_false_iff_ne] at this ⊢
        rcases this with h' | h'
        · exact Or.inl (Ne.symm h')
        · exact Or.inr (Ne.symm h')
    rw [List.foldl_cons, dictSet_fresh acc p hfresh, ih (acc ++ [p]) (by simpa using h)]
    simp

theorem keysNodup_map_canon (env : Env A) (ps : List (Param A)) : keysNodup (ps.map (canonParam env)) = keysNodup ps := by
  induction ps with
  | nil => rfl
  | cons p ps ih => simp [keysNodup, ih, List.all_map, canonParam, Function.comp_def]

end GraphSlam.Props.C13
