import GraphSlam.Model.G2O

/-!
# C13 helper lemmas: `np.triu_indices` order and `upper_triangular_matrix_to_full_matrix`, for every `n`
-/

namespace GraphSlam.Props.C13
open GraphSlam.Model.G2O

variable {A : Type}

/-- entry `(i, j)` of a list-of-rows matrix (`zero` outside) -/
def entry (zero : A) (M : Mat A) (i j : Nat) : A := (M.getD i []).getD j zero

/-- `M.shape == (n, n)` -/
def Square (M : Mat A) (n : Nat) : Prop := M.length = n ∧ ∀ r ∈ M, r.length = n

/-- `M == M.T` on the `n × n` block -/
def Symm (zero : A) (M : Mat A) (n : Nat) : Prop := ∀ i j, i < n → j < n → entry zero M i j = entry zero M j i

theorem mem_triuPairs (n i j : Nat) : (i, j) ∈ triuPairs n ↔ i ≤ j ∧ j < n := by
  unfold triuPairs
  simp only [List.mem_flatMap, List.mem_range, List.mem_map, List.mem_range'_1, Prod.mk.injEq]
  constructor
  · rintro ⟨a, ha, b, ⟨hb1, hb2⟩, rfl, rfl⟩
    omega
  · rintro ⟨h1, h2⟩
    exact ⟨i, by omega, j, ⟨h1, by omega⟩, rfl, rfl⟩

theorem mapE_ok {α β : Type} (f : α → Except PyErr β) (g : α → β) (l : List α) (h : ∀ x ∈ l, f x = .ok (g x)) :
    mapE f l = .ok (l.map g) := by
  induction l with
  | nil => rfl
  | cons a as ih =>
    have h1 := h a (by simp)
    have h2 := ih (fun x hx => h x (by simp [hx]))
    simp [mapE, h1, h2]

theorem get2_ok (zero : A) (M : Mat A) (n i j : Nat) (hM : Square M n) (hi : i < n) (hj : j < n) :
    get2 M i j = .ok (entry zero M i j) := by
  obtain ⟨hl, hr⟩ := hM
  have hi' : i < M.length := by omega
  have hrow : (M[i]).length = n := hr _ (List.getElem_mem hi')
  have hj' : j < (M[i]).length := by omega
  simp [get2, getIdx, entry, List.getElem?_eq_getElem hi', List.getElem?_eq_getElem hj', List.getD_eq_getElem?_getD]

/-- the writer's `information[np.triu_indices(n, 0)]` of a square matrix -/
theorem triuOf_square (zero : A) (M : Mat A) (n : Nat) (hM : Square M n) :
    triuOf M n = .ok ((triuPairs n).map fun p => entry zero M p.1 p.2) := by
  unfold triuOf
  apply mapE_ok
  intro p hp
  have := (mem_triuPairs n p.1 p.2).mp hp
  exact get2_ok zero M n p.1 p.2 hM (by omega) this.2

theorem upperAt_map (zero : A) (n : Nat) (g : Nat × Nat → A) (i j : Nat) (h : (i, j) ∈ triuPairs n) :
    upperAt zero n ((triuPairs n).map g) i j = g (i, j) := by
  unfold upperAt
  have hc : (triuPairs n).contains (i, j) = true := by simpa using h
  have hk : (triuPairs n).idxOf (i, j) < (triuPairs n).length := List.idxOf_lt_length_iff.mpr h
  rw [if_pos hc, List.getD_eq_getElem?_getD, List.getElem?_eq_getElem (by simpa using hk)]
  simp [List.getElem_idxOf hk]

theorem fullOfTriu_square (zero : A) (n : Nat) (arr : List A) : Square (fullOfTriu zero n arr) n := by
  unfold fullOfTriu Square
  constructor
  · simp
  · intro r hr
    simp only [List.mem_map, List.mem_range] at hr
    obtain ⟨i, _, rfl⟩ := hr
    simp

theorem entry_fullOfTriu (zero : A) (n : Nat) (arr : List A) (i j : Nat) (hi : i < n) (hj : j < n) :
    entry zero (fullOfTriu zero n arr) i j = fullAt zero n arr i j := by
  simp [entry, fullOfTriu, List.getD_eq_getElem?_getD, hi, hj]

theorem mat_ext (zero : A) (M N : Mat A) (n : Nat) (hM : Square M n) (hN : Square N n)
    (h : ∀ i j, i < n → j < n → entry zero M i j = entry zero N i j) : M = N := by
  obtain ⟨hMl, hMr⟩ := hM
  obtain ⟨hNl, hNr⟩ := hN
  apply List.ext_getElem (by omega)
  intro i h1 h2
  have r1 : (M[i]).length = n := hMr _ (List.getElem_mem h1)
  have r2 : (N[i]).length = n := hNr _ (List.getElem_mem h2)
  apply List.ext_getElem (by omega)
  intro j g1 g2
  have := h i j (by omega) (by omega)
  simpa [entry, List.getD_eq_getElem?_getD, List.getElem?_eq_getElem h1, List.getElem?_eq_getElem h2,
    List.getElem?_eq_getElem g1, List.getElem?_eq_getElem g2] using this

theorem length_triuOf (zero : A) (M : Mat A) (n : Nat) : ((triuPairs n).map fun p => entry zero M p.1 p.2).length = (triuPairs n).length := by
  simp

theorem fullAt_triu (zero : A) (M : Mat A) (n i j : Nat) (hi : i < n) (hj : j < n) :
    fullAt zero n ((triuPairs n).map fun p => entry zero M p.1 p.2) i j = if j < i then entry zero M j i else entry zero M i j := by
  unfold fullAt
  by_cases h : j < i
  · rw [if_pos h, if_pos h, upperAt_map zero n _ j i ((mem_triuPairs n j i).mpr ⟨by omega, hi⟩)]
  · rw [if_neg h, if_neg h, upperAt_map zero n _ i j ((mem_triuPairs n i j).mpr ⟨by omega, hj⟩)]

/-- expanding the row-major upper triangle of a square `M` gives `M` back exactly when `M` is symmetric (every `n`) -/
theorem fullOfTriu_triu_iff (zero : A) (M : Mat A) (n : Nat) (hM : Square M n) :
    fullOfTriu zero n ((triuPairs n).map fun p => entry zero M p.1 p.2) = M ↔ Symm zero M n := by
  constructor
  · intro h i j hi hj
    have e1 := entry_fullOfTriu zero n ((triuPairs n).map fun p => entry zero M p.1 p.2) i j hi hj
    rw [h, fullAt_triu zero M n i j hi hj] at e1
    by_cases hji : j < i
    · rw [if_pos hji] at e1; exact e1
    · have e2 := entry_fullOfTriu zero n ((triuPairs n).map fun p => entry zero M p.1 p.2) j i hj hi
      rw [h, fullAt_triu zero M n j i hj hi] at e2
      by_cases hij : i < j
      · rw [if_pos hij] at e2; exact e2.symm
      · have : i = j := by omega
        subst this; rfl
  · intro hs
    apply mat_ext zero _ _ n (fullOfTriu_square zero n _) hM
    intro i j hi hj
    rw [entry_fullOfTriu zero n _ i j hi hj, fullAt_triu zero M n i j hi hj]
    by_cases hji : j < i
    · rw [if_pos hji]; exact (hs i j hi hj).symm
    · rw [if_neg hji]

/-- the expansion is always symmetric -/
theorem fullOfTriu_symm (zero : A) (n : Nat) (arr : List A) : Symm zero (fullOfTriu zero n arr) n := by
  intro i j hi hj
  rw [entry_fullOfTriu zero n arr i j hi hj, entry_fullOfTriu zero n arr j i hj hi]
  unfold fullAt
  by_cases h1 : j < i
  · have h2 : ¬ i < j := by omega
    rw [if_pos h1, if_neg h2]
  · by_cases h2 : i < j
    · rw [if_neg h1, if_pos h2]
    · have : i = j := by omega
      subst this; rfl

/-- above the diagonal the expansion holds the file's numbers in row-major order -/
theorem entry_fullOfTriu_upper (zero : A) (n : Nat) (arr : List A) (i j : Nat) (hij : i ≤ j) (hj : j < n) :
    entry zero (fullOfTriu zero n arr) i j = arr.getD ((triuPairs n).idxOf (i, j)) zero := by
  rw [entry_fullOfTriu zero n arr i j (by omega) hj]
  unfold fullAt upperAt
  have hm : (triuPairs n).contains (i, j) = true := by simpa using (mem_triuPairs n i j).mpr ⟨hij, hj⟩
  by_cases h : j < i
  · omega
  · rw [if_neg h, if_pos hm]

theorem expandTriu_exact (zero : A) (n : Nat) (arr : List A) (h : arr.length = (triuPairs n).length) :
    expandTriu zero n arr = .ok (fullOfTriu zero n arr) := by
  simp [expandTriu, h]

end GraphSlam.Props.C13
