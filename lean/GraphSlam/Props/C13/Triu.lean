import GraphSlam.Model.G2O

/-!
# C13 helper lemmas: `np.triu_indices` order and `upper_triangular_matrix_to_full_matrix`, for every `n`
-/

namespace GraphSlam.Props.C13
open GraphSlam.Model.G2O

variable {A : Type}

/-- entry `(i, j)` of a list-of-rows matrix (`zero` outside) -/
def entry (zero : A) (M : Mat A) (i j : Nat) : A := (M.getD i []).getD j zero

/-- `M.shape == (n, n)` -/
def Square (M : Mat A) (n : Nat) : Prop := M.length = n ∧ ∀ r ∈ M, r.length = n

/-- `M == M.T` on the `n × n` block -/
def Symm (zero : A) (M : Mat A) (n : Nat) : Prop := ∀ i j, i < n → j < n → entry zero M i j = entry zero M j i

theorem mem_triuPairs (n i j : Nat) : (i, j) ∈ triuPairs n ↔ i ≤ j ∧ j < n := by
  unfold triuPairs
  simp only [List.mem_flatMap, List.mem_range, List.mem_map, List.mem_range'_1, Prod.mk.injEq]
  constructor
  · rintro ⟨a, ha, b, ⟨hb1, hb2⟩, rfl, rfl⟩
    omega
  · rintro ⟨h1, h2⟩
    exact ⟨i, by omega, j, ⟨h1, by omega⟩, rfl, rfl⟩

theorem mapE_ok {α β : Type} (f : α → Except PyErr β) (g : α → β) (l : List α) (h : ∀ x ∈ l, f x = .ok (g x)) :
    mapE f l = .ok (l.map g) := by
  induction l with
  | nil => rfl
  | cons a as ih =>
    have h1 := h a (by simp)
    have h2 := ih (fun x hx => h x (by simp [hx]))
    simp [mapE, h1, h2]

theorem get2_ok (zero : A) (M : Mat A) (n i j : Nat) (hM : Square M n) (hi : i < n) (hj : j < n) :
    get2 M i j = .ok (entry zero M i j) := by
  obtain ⟨hl, hr⟩ := hM
  have hi' : i < M.length := by omega
  have hrow : (M[i]).length = n := hr _ (List.getElem_mem hi')
  have hj' : j < (M[i]).length := by omega
  simp [get2, getIdx, entry, List.getElem?_eq_getElem hi', List.getElem?_eq_getElem hj', List.getD_eq_getElem?_getD]

/-- the writer's `information[np.triu_indices(n, 0)]` of a square matrix -/
theorem triuOf_square (zero : A) (M : Mat A) (n : Nat) (hM : Square M n) :
    triuOf M n = .ok ((triuPairs n).map fun p => entry zero M p.1 p.2) := by
  unfold triuOf
  apply mapE_ok
  intro p hp
  have := (mem_triuPairs n p.1 p.2).mp hp
  exact get2_ok zero M n p.1 p.2 hM (by omega) this.2

theorem upperAt_map (zero : A) (n : Nat) (g : Nat × Nat → A) (i j : Nat) (h : (i, j) ∈ triuPairs n) :
    upperAt zero n ((triuPairs n).map g) i j = g (i, j) := by
  unfold upperAt
  have hc : (triuPairs n).contains (i, j) = true := by simpa using h
  have hk : (triuPairs n).idxOf (i, j) < (triuPairs n).length := List.idxOf_lt_length_iff.mpr h
  rw [if_pos hc, List.getD_eq_getElem?_getD, List.getElem?_eq_getElem (by simpa using hk)]
  simp [List.getElem_idxOf hk]

theorem fullOfTriu_square (zero : A) (n : Nat) (arr : List A) : Square (fullOfTriu zero n arr) n := by
  unfold fullOfTriu Square
  constructor
  · simp
  · intro r hr
    simp only [List.mem_map, List.mem_range] at hr
    obtain ⟨i, _, rfl⟩ := hr
    simp

theorem entry_fullOfTriu (zero : A) (n : Nat) (arr : List A) (i j : Nat) (hi : i < n) (hj : j < n) :
    entry zero (fullOfTriu zero n arr) i j = fullAt zero n arr i j := by
  simp [entry, fullOfTriu, List.getD_eq_getElem?_getD, hi, hj]

theorem mat_ext (zero : A) (M N : Mat A) (n : Nat) (hM : Square M n) (hN : Square N n)
    (h : ∀ i j, i < n → j < n → entry zero M i j = entry zero N i j) : M = N := by
  obtain ⟨hMl, hMr⟩ := hM
  obtain ⟨hNl, hNr⟩ := hN
  apply List.ext_getElem (by omega)
  intro i h1 h2
  have r1 : (M[i]).length = n := hMr _ (List.getElem_mem h1)
  have r2 : (N[i]).length = n := hNr _ (List.getElem_mem h2)
  apply List.ext_getElem (by omega)
  intro j g1 g2
  have := h i j (by omega) (by omega)
  simpa [entry, List.getD_eq_getElem?_getD, List.getElem?_eq_getElem h1, List.getElem?_eq_getElem h2,
    List.getElem?_eq_getElem g1, List.getElem?_eq_getElem g2] using this

theorem length_triuOf (zero : A) (M : Mat A) (n : Nat) : ((triuPairs n).map fun p => entry zero M p.1 p.2).length = (triuPairs n).length := by
  simp

end GraphSlam.Props.C13
