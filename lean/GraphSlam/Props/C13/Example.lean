import GraphSlam.Props.C13.Defs

/-!
# A small concrete numeric environment and concrete graphs (to show that the hypotheses of the C13/C14 theorems are
satisfiable, and for the counterexample theorem)

Atoms are natural numbers written in unary: `fmtF n = "a" * (n+1)`, ids `fmtI z = "i" * (z+1)`; `wrap n = n % 4`,
`normQ` reduces every entry mod 2 (both idempotent); `numEq` is equality.
-/

deriving instance DecidableEq for Except

namespace GraphSlam.Props.C13.Ex
open GraphSlam.Model.G2O

def unary (c : Char) (s : Str) : Option Nat :=
  if s ≠ [] ∧ s.all (· == c) then some (s.length - 1) else none

def env : Env Nat where
  parseF s := unary 'a' s
  parseI s := (unary 'i' s).map Int.ofNat
  fmtF n := List.replicate (n + 1) 'a'
  fmtI z := List.replicate (z.toNat + 1) 'i'
  wrap n := n % 4
  normQ a b c d := [a % 2, b % 2, c % 2, d % 2]
  zero := 0
  numEq a b := a == b

theorem unary_replicate (c : Char) (n : Nat) : unary c (List.replicate (n + 1) c) = some n := by
  simp [unary]

theorem good (n : Nat) : GoodF env n := by
  refine ⟨unary_replicate 'a' n, by simp [env], ?_⟩
  intro c hc
  have : c = 'a' := by simpa [env] using (List.eq_of_mem_replicate hc)
  subst this; decide

def eye (n : Nat) (d : Nat) : Mat Nat := (List.range n).map fun i => (List.range n).map fun j => if i = j then d else 0

/-- all element kinds: SE(2)/SE(3)/R²/R³ vertices, both odometry edges, both landmark edges, both parameter kinds -/
def g : Graph Nat where
  params := [⟨.se3offset, 2, ⟨.se3, [1, 0, 2, 0, 0, 0, 1]⟩⟩, ⟨.se2offset, 2, ⟨.se2, [1, 1, 7]⟩⟩]
  vertices := [⟨0, ⟨.se2, [0, 1, 6]⟩⟩, ⟨1, ⟨.se2, [2, 0, 1]⟩⟩, ⟨2, ⟨.r2, [3, 4]⟩⟩,
               ⟨3, ⟨.se3, [0, 0, 0, 0, 0, 0, 1]⟩⟩, ⟨4, ⟨.se3, [1, 2, 3, 0, 3, 0, 2]⟩⟩, ⟨5, ⟨.r3, [1, 1, 1]⟩⟩]
  edges := [⟨[0, 1], [[2, 1, 0], [1, 2, 0], [0, 0, 3]], .odometry ⟨.se2, [2, 0, 5]⟩⟩,
            ⟨[3, 4], eye 6 2, .odometry ⟨.se3, [1, 2, 3, 0, 3, 0, 2]⟩⟩,
            ⟨[1, 2], [[1, 2], [2, 5]], .landmark ⟨.r2, [1, 2]⟩ ⟨.se2, [0, 0, 0]⟩ none⟩,
            ⟨[4, 5], eye 3 1, .landmark ⟨.r3, [0, 1, 2]⟩ ⟨.se3, [1, 0, 2, 0, 0, 0, 1]⟩ (some 2)⟩]

/-- an SE(2) landmark edge whose second vertex is a pose, not a point: `is_valid` accepts it; the writer refuses it
(before the repair f996508 it emitted an `EDGE_SE2_XY` line with two of the three estimate entries) -/
def gLandmarkToPose : Graph Nat where
  params := []
  vertices := [⟨0, ⟨.se2, [0, 0, 0]⟩⟩, ⟨1, ⟨.se2, [2, 1, 1]⟩⟩]
  edges := [⟨[0, 1], eye 3 1, .landmark ⟨.se2, [1, 2, 3]⟩ ⟨.se2, [0, 0, 0]⟩ (some 0)⟩]

end GraphSlam.Props.C13.Ex
