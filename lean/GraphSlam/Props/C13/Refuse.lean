import GraphSlam.Props.C13.Defs

/-!
# C13 helper lemmas: a successful export implies that every element has one of the writable shapes
-/

namespace GraphSlam.Props.C13
open GraphSlam.Model.G2O

variable {A : Type}

theorem writeSeq_none (l : List (Except PyErr Str)) (s : Str) (h : writeSeq l = (s, none)) : ∀ x ∈ l, ∃ t, x = .ok t := by
  induction l generalizing s with
  | nil => simp
  | cons x xs ih =>
    cases x with
    | error e => simp [writeSeq] at h
    | ok t =>
      simp only [writeSeq, Prod.mk.injEq] at h
      intro y hy
      rcases List.mem_cons.mp hy with rfl | hy
      · exact ⟨t, rfl⟩
      · exact ih _ (Prod.ext rfl h.2) y hy

theorem toG2O_ok_parts (env : Env A) (g : Graph A) (text : Str) (h : Graph.toG2O env g = .ok text) :
    g.edges.all (Edge.preCheck env g.params) = true ∧ (∀ p ∈ g.params, ∃ l, Param.toG2O env p = .ok l) ∧
      (∀ v ∈ g.vertices, ∃ l, Vertex.toG2O env v = .ok l) ∧ (∀ e ∈ g.edges, ∃ l, Edge.write env g.vertices e = .ok l) := by
  unfold Graph.toG2O Graph.toG2OTrace at h
  by_cases hp : g.edges.all (Edge.preCheck env g.params) = true
  · rw [if_pos hp] at h
    refine ⟨hp, ?_⟩
    generalize hw : writeSeq _ = w at h
    obtain ⟨s, oe⟩ := w
    cases oe with
    | some e => simp at h
    | none =>
      have hall := writeSeq_none _ s hw
      refine ⟨fun p hp' => ?_, fun v hv => ?_, fun e he => ?_⟩
      · exact hall _ (by simp only [List.mem_append, List.mem_map]; exact Or.inl (Or.inl ⟨p, hp', rfl⟩))
      · exact hall _ (by simp only [List.mem_append, List.mem_map]; exact Or.inl (Or.inr ⟨v, hv, rfl⟩))
      · exact hall _ (by simp only [List.mem_append, List.mem_map]; exact Or.inr ⟨e, he, rfl⟩)
  · rw [if_neg hp] at h; simp at h

/-- the shapes of edges for which `to_g2o` returns text (`k0`, `k1` = classes of the poses of the two bound vertices):
exactly the list of the property — odometry between SE(2) or SE(3) poses, landmark SE(2) → R² with an identity offset,
landmark SE(3) → R³ -/
def EdgeShape (env : Env A) (k0 : PoseKind) (k1 : Except PyErr PoseKind) (e : Edge A) : Prop :=
  match e.body with
  | .custom _ _ _ => True
  | .odometry _ => k0 = .se2 ∨ k0 = .se3
  | .landmark _ off _ => (k0 = .se2 ∧ k1 = .ok .r2 ∧ numEqList env off.xs (identitySE2 env) = true) ∨ (k0 = .se3 ∧ k1 = .ok .r3)

theorem toG2O_edge_shape (env : Env A) (k0 : PoseKind) (k1 : Except PyErr PoseKind) (e : Edge A) (r : Option Str)
    (h : Edge.toG2O env k0 k1 e = .ok r) : EdgeShape env k0 k1 e := by
  obtain ⟨ids, info, body⟩ := e
  cases body with
  | custom c est out => trivial
  | odometry est => cases k0 <;> simp_all [Edge.toG2O, EdgeShape]
  | landmark est off oid =>
    cases k0 with
    | se2 =>
      cases k1 with
      | error x => simp [Edge.toG2O] at h
      | ok k =>
        cases k with
        | r2 =>
          by_cases hn : numEqList env off.xs (identitySE2 env) = true
          · exact Or.inl ⟨rfl, rfl, hn⟩
          · simp [Edge.toG2O, hn] at h
        | r3 => simp [Edge.toG2O] at h
        | se2 => simp [Edge.toG2O] at h
        | se3 => simp [Edge.toG2O] at h
        | other => simp [Edge.toG2O] at h
    | se3 =>
      cases k1 with
      | error x => simp [Edge.toG2O] at h
      | ok k =>
        cases k with
        | r3 => exact Or.inr ⟨rfl, rfl⟩
        | r2 => simp [Edge.toG2O] at h
        | se2 => simp [Edge.toG2O] at h
        | se3 => simp [Edge.toG2O] at h
        | other => simp [Edge.toG2O] at h
    | r2 => simp [Edge.toG2O] at h
    | r3 => simp [Edge.toG2O] at h
    | other => simp [Edge.toG2O] at h

theorem write_edge_shape (env : Env A) (vs : List (Vertex A)) (e : Edge A) (l : Str) (h : Edge.write env vs e = .ok l) :
    (∃ c est out, e.body = .custom c est out) ∨ ∃ k0, Edge.kind0 vs e = .ok k0 ∧ EdgeShape env k0 (Edge.kind1 vs e) e := by
  obtain ⟨ids, info, body⟩ := e
  cases body with
  | custom c est out => exact Or.inl ⟨c, est, out, rfl⟩
  | odometry est =>
    right
    simp only [Edge.write] at h
    cases hk : Edge.kind0 vs ⟨ids, info, .odometry est⟩ with
    | error x => simp [hk] at h
    | ok k0 =>
      rw [hk] at h
      cases ht : Edge.toG2O env k0 (Edge.kind1 vs ⟨ids, info, .odometry est⟩) ⟨ids, info, .odometry est⟩ with
      | error x => simp [ht] at h
      | ok r => exact ⟨k0, rfl, toG2O_edge_shape env k0 _ _ r ht⟩
  | landmark est off oid =>
    right
    simp only [Edge.write] at h
    cases hk : Edge.kind0 vs ⟨ids, info, .landmark est off oid⟩ with
    | error x => simp [hk] at h
    | ok k0 =>
      rw [hk] at h
      cases ht : Edge.toG2O env k0 (Edge.kind1 vs ⟨ids, info, .landmark est off oid⟩) ⟨ids, info, .landmark est off oid⟩ with
      | error x => simp [ht] at h
      | ok r => exact ⟨k0, rfl, toG2O_edge_shape env k0 _ _ r ht⟩

end GraphSlam.Props.C13
