import GraphSlam.Props.C13.Canon

/-!
# C13 helper lemmas: the canonical form of an expressible graph is expressible (so a further cycle is covered by `roundtrip`)
-/

namespace GraphSlam.Props.C13
open GraphSlam.Model.G2O GraphSlam.Props.C14

variable {A : Type} [DecidableEq A]

set_option linter.unusedSimpArgs false
set_option linter.unusedSectionVars false

/-- the numbers produced by the reader are again printable and re-readable, and `==` is reflexive on non-NaN values -/
structure EnvClosed (env : Env A) : Prop where
  wrapGood : ∀ a, GoodF env a → GoodF env (env.wrap a)
  normGood : ∀ a b c d, GoodF env a → GoodF env b → GoodF env c → GoodF env d → ∀ x ∈ env.normQ a b c d, GoodF env x
  normLen : ∀ a b c d, (env.normQ a b c d).length = 4
  eqZero : env.numEq env.zero env.zero = true ∧ env.numEq (env.wrap env.zero) (env.wrap env.zero) = true
  eqRefl : ∀ a b, env.numEq a b = true → env.numEq a a = true

theorem numEqList_refl_of (env : Env A) (hc : EnvClosed env) (xs ys : List A) (h : numEqList env xs ys = true) : numEqList env xs xs = true := by
  induction xs generalizing ys with
  | nil => rfl
  | cons a as ih =>
    cases ys with
    | nil => simp [numEqList] at h
    | cons b bs =>
      simp only [numEqList, Bool.and_eq_true] at h ⊢
      exact ⟨hc.eqRefl a b h.1, ih bs h.2⟩

theorem poseOK_canon (env : Env A) (hc : EnvClosed env) (p : Pose A) (h : poseOK env p = true) : poseOK env (canonPose env p) = true := by
  by_cases hs : ∃ x y t, p = ⟨.se2, [x, y, t]⟩
  · obtain ⟨x, y, t, rfl⟩ := hs
    rw [canonPose_se2]
    obtain ⟨_, _, hx⟩ := (poseOK_iff env _).mp h
    rw [poseOK_iff]
    refine ⟨by simp, rfl, ?_⟩
    intro a ha
    simp only [List.mem_cons, List.not_mem_nil, or_false] at ha
    rcases ha with rfl | rfl | rfl
    · exact hx _ (by simp)
    · exact hx _ (by simp)
    · exact hc.wrapGood _ (hx _ (by simp))
  · rw [canonPose_other env p hs]; exact h

theorem vertexOK_canon (env : Env A) (hc : EnvClosed env) (v : Vertex A) (h : vertexOK env v = true) : vertexOK env (canonVertex env v) = true := by
  simp only [vertexOK, Bool.and_eq_true, canonVertex] at h ⊢
  exact ⟨h.1, poseOK_canon env hc _ h.2⟩

theorem paramOK_canon (env : Env A) (hc : EnvClosed env) (p : Param A) (h : paramOK env p = true) : paramOK env (canonParam env p) = true := by
  obtain ⟨k, id, v⟩ := p
  simp only [paramOK, Bool.and_eq_true, canonParam, canonPose_kind] at h ⊢
  exact ⟨⟨h.1.1, poseOK_canon env hc _ h.1.2⟩, h.2⟩

theorem kindAt_canon (env : Env A) (g : Graph A) (e : Edge A) (k : Nat) : kindAt (canon env g) (canonEdge env g.params e) k = kindAt g e k := by
  simp only [kindAt, canon, canonEdge_ids]
  cases e.ids[k]? with
  | none => rfl
  | some i =>
    simp only [Option.bind_some, lookupVertex_map_canon]
    cases lookupVertex g.vertices i with
    | none => rfl
    | some v => simp [canonVertex, canonPose_kind]

theorem edgeOK_canon (env : Env A) (hc : EnvClosed env) (g : Graph A) (hps : ∀ p ∈ g.params, paramOK env p = true) (e : Edge A)
    (h : edgeOK env g e = true) : edgeOK env (canon env g) (canonEdge env g.params e) = true := by
  obtain ⟨ids, info, body⟩ := e
  have hk0 := kindAt_canon env g ⟨ids, info, body⟩ 0
  have hk1 := kindAt_canon env g ⟨ids, info, body⟩ 1
  cases body with
  | custom c est out => simp [edgeOK] at h
  | odometry est =>
    have h' := h
    simp only [edgeOK, Bool.and_eq_true, decide_eq_true_eq, Bool.or_eq_true, beq_iff_eq] at h
    obtain ⟨⟨hl, hids⟩, ⟨⟨⟨hka, hkb⟩, hek⟩, hp⟩, hinfo⟩ := h
    rcases hka with hka | hka
    · have hek' : est.kind = .se2 := by rw [hka] at hek; simpa using hek
      have hce : canonEdge env g.params ⟨ids, info, .odometry est⟩ = ⟨ids, info, .odometry (canonPose env est)⟩ := by simp [canonEdge, hek']
      rw [hce] at hk0 hk1 ⊢
      simp only [edgeOK, Bool.and_eq_true, decide_eq_true_eq, Bool.or_eq_true, beq_iff_eq, hk0, hk1, canonPose_kind]
      exact ⟨⟨hl, hids⟩, ⟨⟨⟨Or.inl hka, hkb⟩, hek⟩, poseOK_canon env hc _ hp⟩, hinfo⟩
    · have hek' : est.kind = .se3 := by rw [hka] at hek; simpa using hek
      obtain ⟨ek, xs⟩ := est
      simp only at hek'
      subst hek'
      obtain ⟨_, hlen, hx⟩ := (poseOK_iff env _).mp hp
      obtain ⟨a0, a1, a2, a3, a4, a5, a6, rfl⟩ := len7 xs hlen
      have hce : canonEdge env g.params ⟨ids, info, .odometry ⟨.se3, [a0, a1, a2, a3, a4, a5, a6]⟩⟩
          = ⟨ids, info, .odometry ⟨.se3, a0 :: a1 :: a2 :: env.normQ a3 a4 a5 a6⟩⟩ := by simp [canonEdge, normalizeSE3]
      rw [hce] at hk0 hk1 ⊢
      have hpo : poseOK env ⟨.se3, a0 :: a1 :: a2 :: env.normQ a3 a4 a5 a6⟩ = true := by
        rw [poseOK_iff]
        refine ⟨by simp, by simp [arity, hc.normLen], ?_⟩
        intro a ha
        simp only [List.mem_cons] at ha
        rcases ha with rfl | rfl | rfl | ha
        · exact hx _ (by simp)
        · exact hx _ (by simp)
        · exact hx _ (by simp)
        · exact hc.normGood a3 a4 a5 a6 (hx _ (by simp)) (hx _ (by simp)) (hx _ (by simp)) (hx _ (by simp)) a ha
      simp only [edgeOK, Bool.and_eq_true, decide_eq_true_eq, Bool.or_eq_true, beq_iff_eq, hk0, hk1]
      exact ⟨⟨hl, hids⟩, ⟨⟨⟨Or.inr hka, hkb⟩, hek⟩, hpo⟩, hinfo⟩
  | landmark est off oid =>
    simp only [edgeOK, Bool.and_eq_true, decide_eq_true_eq, Bool.or_eq_true, beq_iff_eq] at h
    obtain ⟨⟨hl, hids⟩, hp, h⟩ := h
    rcases h with ⟨⟨⟨⟨⟨hka, hkb⟩, hek⟩, hok⟩, hid⟩, hinfo⟩ | ⟨⟨⟨⟨⟨hka, hkb⟩, hek⟩, hok⟩, hoid⟩, hinfo⟩
    · have hce : canonEdge env g.params ⟨ids, info, .landmark est off oid⟩ = ⟨ids, info, .landmark est ⟨.se2, identitySE2 env⟩ (some 0)⟩ := by
        simp [canonEdge, hok]
      rw [hce] at hk0 hk1 ⊢
      have hrefl : numEqList env (identitySE2 env) (identitySE2 env) = true := by
        simp [numEqList, identitySE2, hc.eqZero.1, hc.eqZero.2]
      simp only [edgeOK, Bool.and_eq_true, decide_eq_true_eq, Bool.or_eq_true, beq_iff_eq, hk0, hk1]
      exact ⟨⟨hl, hids⟩, hp, Or.inl ⟨⟨⟨⟨⟨hka, hkb⟩, hek⟩, trivial⟩, hrefl⟩, hinfo⟩⟩
    · cases oid with
      | none => simp at hoid
      | some z =>
        simp only [Bool.and_eq_true, decide_eq_true_eq] at hoid
        cases hlp : lookupParam g.params .se3offset z with
        | none => simp [hlp] at hoid
        | some p =>
          obtain ⟨hpm, hpk, _⟩ := lookupParam_mem _ _ _ _ hlp
          have hpv : p.value.kind = .se3 := by
            have := hps p hpm
            simp only [paramOK, Bool.and_eq_true, hpk, beq_iff_eq] at this
            exact this.2
          have hcp : canonParam env p = p := by
            obtain ⟨pk, pid, pv⟩ := p
            simp only [canonParam]
            rw [canonPose_of_ne_se2 env pv (by simp only at hpv; rw [hpv]; decide)]
          have hce : canonEdge env g.params ⟨ids, info, .landmark est off (some z)⟩ = ⟨ids, info, .landmark est p.value (some z)⟩ := by
            simp [canonEdge, hok, hlp]
          rw [hce] at hk0 hk1 ⊢
          have hl' : lookupParam (canon env g).params .se3offset z = some p := by
            simp [canon, lookupParam_map_canon, hlp, hcp]
          have hrefl : numEqList env p.value.xs p.value.xs = true := by
            have := hoid.2; rw [hlp] at this
            exact numEqList_refl_of env hc _ _ this
          simp only [edgeOK, Bool.and_eq_true, decide_eq_true_eq, Bool.or_eq_true, beq_iff_eq, hk0, hk1, hl', hpv]
          exact ⟨⟨hl, hids⟩, hp, Or.inr ⟨⟨⟨⟨⟨hka, hkb⟩, hek⟩, trivial⟩, hoid.1, hrefl⟩, hinfo⟩⟩

theorem expressible_canon_aux (env : Env A) (hc : EnvClosed env) (g : Graph A) (h : Expressible env g) : Expressible env (canon env g) := by
  have hps : ∀ p ∈ g.params, paramOK env p = true := by
    simp only [Expressible, expressible, Bool.and_eq_true, List.all_eq_true] at h
    exact h.1.1.2
  simp only [Expressible, expressible, Bool.and_eq_true, List.all_eq_true] at h ⊢
  obtain ⟨⟨⟨h1, h2⟩, h3⟩, h4⟩ := h
  refine ⟨⟨⟨?_, ?_⟩, ?_⟩, ?_⟩
  · simpa [canon, keysNodup_map_canon] using h1
  · intro p hp
    simp only [canon, List.mem_map] at hp
    obtain ⟨q, hq, rfl⟩ := hp
    exact paramOK_canon env hc q (h2 q hq)
  · intro v hv
    simp only [canon, List.mem_map] at hv
    obtain ⟨w, hw, rfl⟩ := hv
    exact vertexOK_canon env hc w (h3 w hw)
  · intro e he
    have he' : e ∈ g.edges.map (canonEdge env g.params) := he
    simp only [List.mem_map] at he'
    obtain ⟨f, hf, rfl⟩ := he'
    exact edgeOK_canon env hc g hps f (h4 f hf)

end GraphSlam.Props.C13
