import GraphSlam.Props.C06.Fixed
import GraphSlam.Props.C03.Assembled
import GraphSlam.Props.E2E.Step
import GraphSlam.Props.Tie.GraphPy

/-! C06 — umbrella (`fixed_column_zero`, `fixed_diagonal_identity`: the reduced system, in `Props/C03/Assembled.lean`). -/
