import GraphSlam.Props.C06.Fixed

/-! C06 — umbrella. -/
