import GraphSlam.Props.C15.Frame
import GraphSlam.Props.Tie.GraphPy
import GraphSlam.Props.C15.HeapExamples
import GraphSlam.Props.C15.HeapObsExamples
import GraphSlam.Props.C15.HeapNumOptExamples
/-! C15 — umbrella. -/
