import GraphSlam.Props.C15.Frame
/-! C15 — umbrella. -/
