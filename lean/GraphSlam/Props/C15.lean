import GraphSlam.Props.C15.Frame
import GraphSlam.Props.Tie.GraphPy
/-! C15 — umbrella. -/
