import GraphSlam.Props.C15.Frame
import GraphSlam.Props.Tie.GraphPy
import GraphSlam.Props.C15.HeapExamples
/-! C15 — umbrella. -/
