import GraphSlam.Props.C10.R2Core
import GraphSlam.Props.C10.R2Extra
import GraphSlam.Props.C10.R3Core
import GraphSlam.Props.C10.R3Extra
import GraphSlam.Props.C10.SE2Core
import GraphSlam.Props.C10.SE2Extra
import GraphSlam.Props.C10.SE3Core
import GraphSlam.Props.C10.SE3Extra
import GraphSlam.Props.C10.SE3Boxplus
import GraphSlam.Props.C10.Chain

/-! C10 — umbrella module: all public pose Jacobian methods are exact derivatives. -/
