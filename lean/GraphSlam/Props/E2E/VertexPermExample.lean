import GraphSlam.Props.E2E.VertexPermCall
import Mathlib.Tactic.IntervalCases
import Mathlib.Tactic.NormNum

/-!
# C08 — vertex-list permutation: the hypotheses of the whole-call theorem are jointly satisfiable

`optimizeSolve_vertexPerm` assumes an exact solver and that every system visited by the first run is uniquely solvable.
Here a concrete instance is exhibited for which *all* hypotheses hold, for every tolerance and iteration limit: two R²
vertices, the first fixed, one odometry edge with identity information, any initial estimates and measurement; the
second graph lists the two vertices in the opposite order.  The dense Hessian the model assembles is the 4×4 identity
at every visited state (`sysH`, evaluated through the whole assembly pipeline), hence uniquely solvable.
-/

namespace GraphSlam.Props.E2E.VertexPerm.Example2
open GraphSlam GraphSlam.Gen GraphSlam.Model GraphSlam.Props.C03 GraphSlam.Props.E2E GraphSlam.Props.E2E.VertexPerm
set_option linter.unusedSimpArgs false
set_option linter.unusedVariables false
noncomputable section

def eyeI : Nat → Nat → ℝ := fun a b => if a = b then 1 else 0
def ps (a b : Fin 2 → ℝ) : List (Pose ℝ) := [.r2 a, .r2 b]
def st (a b : Fin 2 → ℝ) : GState ℝ := [(0, 2, .r2 a), (2, 2, .r2 b)]
def es (z : Fin 2 → ℝ) : List (Edge ℝ) := [.odo 0 1 (.r2 z) eyeI]
/-- the swap of positions 0 and 1 -/
def π : Nat → Nat := fun k => match k with | 0 => 1 | 1 => 0 | k + 2 => k + 2

theorem st_eq (a b : Fin 2 → ℝ) : initState 0 (ps a b) = st a b := rfl

theorem fixed_eq (a b : Fin 2 → ℝ) : fixedOf false [true, false] (ps a b) = [0] := by
  simp [fixedOf, applyFixFirst, fixedIndices, ps, initState]

/-- the assembled Hessian of this graph is the identity on the 4 unknowns, at every state -/
theorem sysH (z a b : Fin 2 → ℝ) : ∃ r, system [0] (es z) (st a b) = some r ∧
    ∀ i, i < 4 → ∀ j, j < 4 → r.2.2 i j = if i = j then 1 else 0 := by
  refine ⟨_, rfl, ?_⟩
  intro i hi j hj
  interval_cases i <;> interval_cases j <;>
    simp [accumulate, update, contribs, pairsLE, Dict.addAt, fillHessian, fillHessianDict, setBlock, eyeBlock, layoutOf,
      hessContrib, sumTo, arrM, mkLin, st, es, eyeI, Block.transpose, Block.add, List.range_succ,
      EdgeOdometry.calc_jacobians_R2_0, EdgeOdometry.calc_jacobians_R2_1,
      PoseR2.jacobian_self_ominus_other_wrt_other_compact, PoseR2.jacobian_self_ominus_other_wrt_other,
      PoseR2.jacobian_self_ominus_other_wrt_self, PoseR2.jacobian_boxplus, dotMV, dotMM, finSum_two, eye, negM]

theorem uniquelySolvable_eye (N : Nat) (H : Nat → Nat → ℝ) (hH : ∀ i, i < N → ∀ j, j < N → H i j = if i = j then 1 else 0)
    (rhs : Nat → ℝ) : UniquelySolvable N H rhs := by
  have key : ∀ (x : Nat → ℝ) i, i < N → ∑ j ∈ Finset.range N, H i j * x j = x i := by
    intro x i hi
    rw [Finset.sum_eq_single i]
    · rw [hH i hi i hi]; simp
    · intro j hj hne
      rw [hH i hi j (Finset.mem_range.mp hj)]
      simp [Ne.symm hne]
    · intro h; exact absurd (Finset.mem_range.mpr hi) h
  refine ⟨rhs, fun i hi => key rhs i hi, ?_⟩
  intro y hy j hj
  rw [← key y j hj]
  exact hy j hj

/-- every visited state has the same shape -/
theorem visited (z a0 b0 : Fin 2 → ℝ) (solve : (Nat → Nat → ℝ) → (Nat → ℝ) → (Nat → ℝ)) (i : Nat) (t : GState ℝ)
    (h : iterStates (fun _ => step solve [0] (es z)) (st a0 b0) i = some t) : ∃ a b, t = st a b := by
  induction i generalizing t with
  | zero => simp only [iterStates, Option.some.injEq] at h; exact ⟨a0, b0, h.symm⟩
  | succ i ih =>
    simp only [iterStates] at h
    cases hp : iterStates (fun _ => step solve [0] (es z)) (st a0 b0) i with
    | none => rw [hp] at h; simp at h
    | some sp =>
      rw [hp] at h
      obtain ⟨a, b, rfl⟩ := ih sp hp
      obtain ⟨r, hr, _⟩ := sysH z a b
      simp only [Option.bind_some, step, hr, Option.map_some, Option.some.injEq] at h
      subst h
      refine ⟨a, readArray (storeArray (PoseR2.iadd_boxplus b (vecN fun t => solve r.2.2 (fun i => -r.2.1 i) (2 + t)))), ?_⟩
      simp [applyDx, st, Pose.boxplus]

theorem edgesOK (z : Fin 2 → ℝ) : EdgesOK (es z) where
  distinct := by
    intro e he
    simp only [es, List.mem_cons, List.not_mem_nil, or_false] at he
    subst he; simp [Edge.ends]
  symm := by
    intro e he a b
    simp only [es, List.mem_cons, List.not_mem_nil, or_false] at he
    subst he; simp [Edge.info, eyeI, eq_comm]

theorem flagsRel : FlagsRel π 2 (applyFixFirst false [true, false]) (applyFixFirst false [false, true]) := by
  intro k hk
  have hk' : k = 0 ∨ k = 1 := by omega
  rcases hk' with rfl | rfl <;> rfl

/-- **all hypotheses of `optimizeSolve_vertexPerm` hold for this instance** (any estimates `a`, `b`, measurement `z`,
    tolerance, iteration limit), so its conclusion holds: the graph `[v₀ (fixed), v₁]` and the graph `[v₁, v₀ (fixed)]`
    with the edge's endpoint positions swapped produce the same report and corresponding returned states -/
theorem whole_call_instance (z a b : Fin 2 → ℝ) (tol eps : ℝ) (maxIter : Nat) :
    ∃ solve, ExactSolver 4 solve ∧
      (∀ rep st fl, optimizeSolve tol eps maxIter false [true, false] solve (es z) (ps a b) = .ok (rep, st, fl) →
        fl = [true, false] ∧
        ∃ st', optimizeSolve tol eps maxIter false [false, true] solve ((es z).map (remap π)) (ps b a)
            = .ok (rep, st', [false, true]) ∧ OptRel (Relayout π) st st') := by
  classical
  let solve : (Nat → Nat → ℝ) → (Nat → ℝ) → (Nat → ℝ) :=
    fun H rhs => if h : ∃ x, Solves 4 H rhs x then Classical.choose h else fun _ => 0
  have hex : ExactSolver 4 solve := fun H rhs h => by
    simp only [solve, dif_pos h]; exact Classical.choose_spec h
  refine ⟨solve, hex, ?_⟩
  have hp : PermBy π (ps a b) (ps b a) := permBy_swap (Pose.r2 b) (Pose.r2 a) []
  have hN : totalDim (ps a b) = 4 := by simp [totalDim, ps, Pose.cdim]
  have hu : ∀ i t r, iterStates (fun _ => step solve (fixedOf false [true, false] (ps a b)) (es z)) (initState 0 (ps a b)) i = some t →
      system (fixedOf false [true, false] (ps a b)) (es z) t = some r →
      UniquelySolvable (totalDim (ps a b)) r.2.2 (fun i => - r.2.1 i) := by
    intro i t r ht hr
    rw [fixed_eq, st_eq] at ht
    rw [fixed_eq] at hr
    rw [hN]
    obtain ⟨a', b', rfl⟩ := visited z a b solve i t ht
    obtain ⟨r0, hr0, hH⟩ := sysH z a' b'
    rw [hr0] at hr; cases hr
    exact uniquelySolvable_eye 4 _ hH _
  have := (optimizeSolve_vertexPerm hp (es z) (edgesOK z) false false [true, false] [false, true] flagsRel tol eps maxIter
    solve (by rw [hN]; exact hex) hu).2
  exact this

end
end GraphSlam.Props.E2E.VertexPerm.Example2
