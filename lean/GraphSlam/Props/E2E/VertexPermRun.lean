import GraphSlam.Props.E2E.VertexPerm
import GraphSlam.Props.E2E.Run
import Mathlib.Algebra.BigOperators.Group.Finset.Basic
import Mathlib.Data.Finset.Card

/-!
# C08 — permuting the vertex list: solutions, the update, the trajectory, the whole call

Continues `Props/E2E/VertexPerm.lean` (`Relayout`, `remap`, `StateOK`, `system_hessian_relayout`,
`system_gradient_relayout`).  `N` is the number of unknowns (`_len_gradient`); `Tiles N s` says the index ranges of the
vertices of `s` tile `[0, N)` (true of `initState 0 ps` with `N = Σ cdim`: `tiles_initState`).

* `Solves N H rhs dx`        — `Σ_{j<N} H[i,j]·dx[j] = rhs[i]` for every row `i < N`;
* `solves_relayout`          — **`dx` solves `H dx = -b` iff the correspondingly re-indexed `dx'` solves `H' dx' = -b'`**
                               (`dx'[g'_u + a] = dx[g_u + a]` for every vertex `u` and local coordinate `a`);
* `reindexDx`, `reindexDx_spec` — such a `dx'` exists for every `dx`;
* `applyDx_relayout`         — **applying corresponding increments gives states that are again permutations of each other**
                               (same estimate for the same vertex), with the same gradient indices as before;
* `step_relayout`            — one iteration with a solver that returns *a* solution whenever one exists, at a state whose
                               system is uniquely solvable: both graphs are ill-typed together, or both step and the new
                               states correspond;
* `iterStates_relayout`      — hence the whole trajectory, **under "solve is exact and every visited system is uniquely
                               solvable"**;
* `chi2SeqOf_relayout`       — the χ² sequences the control loop sees are equal;
* `iterStates_relayout_upto`, `chi2SeqOf_relayout_upto` — the same assuming unique solvability only of the systems solved in
                               iterations `< n`;
* `stepWith_relayout`, `stateAt_relayout`, `chi2Seq_relayout` — the trajectory with *recorded* increments
                               (`Model.stepWith` / `Model.stateAt`, what the driver executes): corresponding increments
                               give corresponding states, with no hypothesis on edges, solver or solvability.

The whole call (`optimizeSolve_vertexPerm`, `optimizeRun_vertexPerm`) and the instantiation at `initState 0 ps` are in
`Props/E2E/VertexPermCall.lean`; a concrete instance satisfying every hypothesis is in `Props/E2E/VertexPermExample.lean`.
-/

namespace GraphSlam.Props.E2E.VertexPerm
open GraphSlam GraphSlam.Gen GraphSlam.Model GraphSlam.Props.C03 GraphSlam.Props.E2E
set_option linter.unusedSimpArgs false
set_option linter.unusedVariables false
noncomputable section

/-! ### re-indexing sums over `[0, N)` -/

theorem image_reindex (N : Nat) (ρ : Nat → Nat) (hmap : ∀ i, i < N → ρ i < N)
    (hinj : ∀ i, i < N → ∀ j, j < N → ρ i = ρ j → i = j) : (Finset.range N).image ρ = Finset.range N := by
  have hinjOn : Set.InjOn ρ (Finset.range N : Set Nat) := by
    intro i hi j hj h
    exact hinj i (by simpa using hi) j (by simpa using hj) h
  apply Finset.eq_of_subset_of_card_le
  · intro x hx
    obtain ⟨i, hi, rfl⟩ := Finset.mem_image.mp hx
    exact Finset.mem_range.mpr (hmap i (Finset.mem_range.mp hi))
  · rw [Finset.card_image_of_injOn hinjOn]

theorem sum_reindex {M : Type} [AddCommMonoid M] (N : Nat) (ρ : Nat → Nat) (hmap : ∀ i, i < N → ρ i < N)
    (hinj : ∀ i, i < N → ∀ j, j < N → ρ i = ρ j → i = j) (F : Nat → M) :
    ∑ j ∈ Finset.range N, F (ρ j) = ∑ j ∈ Finset.range N, F j := by
  have hinjOn : Set.InjOn ρ (Finset.range N : Set Nat) := by
    intro i hi j hj h
    exact hinj i (by simpa using hi) j (by simpa using hj) h
  conv_rhs => rw [← image_reindex N ρ hmap hinj]
  rw [Finset.sum_image hinjOn]

theorem surj_reindex (N : Nat) (ρ : Nat → Nat) (hmap : ∀ i, i < N → ρ i < N)
    (hinj : ∀ i, i < N → ∀ j, j < N → ρ i = ρ j → i = j) (i' : Nat) (hi' : i' < N) : ∃ i, i < N ∧ ρ i = i' := by
  have : i' ∈ (Finset.range N).image ρ := by rw [image_reindex N ρ hmap hinj]; exact Finset.mem_range.mpr hi'
  obtain ⟨i, hi, h⟩ := Finset.mem_image.mp this
  exact ⟨i, Finset.mem_range.mp hi, h⟩

/-! ### definitions -/

/-- `dx` solves `H dx = rhs` on the `N` unknowns -/
def Solves (N : Nat) (H : Nat → Nat → ℝ) (rhs : Nat → ℝ) (dx : Nat → ℝ) : Prop :=
  ∀ i, i < N → ∑ j ∈ Finset.range N, H i j * dx j = rhs i

/-- the index ranges of the vertices of `s` tile `[0, N)` -/
structure Tiles (N : Nat) (s : GState ℝ) : Prop where
  le : ∀ v ∈ s, v.1 + v.2.1 ≤ N
  cover : ∀ i, i < N → ∃ (k : Nat) (v : Nat × Nat × Pose ℝ), s[k]? = some v ∧ v.1 ≤ i ∧ i < v.1 + v.2.1

/-- two increments that give every vertex the same local increment -/
def DxRel (π : Nat → Nat) (s s' : GState ℝ) (dx dx' : Nat → ℝ) : Prop :=
  ∀ (k : Nat) (v v' : Nat × Nat × Pose ℝ), s[k]? = some v → s'[π k]? = some v' → ∀ a, a < v.2.1 → dx' (v'.1 + a) = dx (v.1 + a)

/-- everything the correspondence needs about a pair of states -/
structure Paired (π : Nat → Nat) (N : Nat) (fixed fixed' : List Nat) (s s' : GState ℝ) : Prop where
  rel : Relayout π s s'
  ok : StateOK s
  ok' : StateOK s'
  fix : FixedRel π s s' fixed fixed'
  tile : Tiles N s
  tile' : Tiles N s'

/-! ### the index correspondence `ρ` on `[0, N)` (internal) -/

open Classical in
/-- unknown `g_u + a` of the first layout ↦ unknown `g'_u + a` of the second -/
def rho (π : Nat → Nat) (s s' : GState ℝ) (i : Nat) : Nat :=
  if h : ∃ (j k : Nat) (v v' : Nat × Nat × Pose ℝ),
      s[k]? = some v ∧ s'[π k]? = some v' ∧ v.1 ≤ i ∧ i < v.1 + v.2.1 ∧ j = v'.1 + (i - v.1) then Classical.choose h else i

theorem rho_spec {π : Nat → Nat} {s s' : GState ℝ} (hs : StateOK s) {k : Nat} {v v' : Nat × Nat × Pose ℝ}
    (hk : s[k]? = some v) (hk' : s'[π k]? = some v') (a : Nat) (ha : a < v.2.1) : rho π s s' (v.1 + a) = v'.1 + a := by
  have h : ∃ (j k₂ : Nat) (v₂ v₂' : Nat × Nat × Pose ℝ), s[k₂]? = some v₂ ∧ s'[π k₂]? = some v₂' ∧ v₂.1 ≤ v.1 + a ∧
      v.1 + a < v₂.1 + v₂.2.1 ∧ j = v₂'.1 + (v.1 + a - v₂.1) :=
    ⟨v'.1 + (v.1 + a - v.1), k, v, v', hk, hk', by omega, by omega, rfl⟩
  unfold rho
  rw [dif_pos h]
  obtain ⟨k₂, v₂, v₂', h1, h2, h3, h4, h5⟩ := Classical.choose_spec h
  have hpair := hs.layout.disjoint _ (mem_layoutOf h1) _ (mem_layoutOf hk) (v.1 + a)
    (by unfold InIv; exact ⟨h3, h4⟩) (by unfold InIv; simp only; omega)
  have hg : v₂.1 = v.1 := by simpa using congrArg Prod.fst hpair
  have hkk : k₂ = k := hs.distinct _ _ _ _ h1 hk hg
  subst hkk
  rw [hk] at h1; cases h1
  rw [hk'] at h2; cases h2
  rw [h5]; omega

theorem rho_lt {π : Nat → Nat} {N : Nat} {fixed fixed' : List Nat} {s s' : GState ℝ} (hp : Paired π N fixed fixed' s s')
    (i : Nat) (hi : i < N) : rho π s s' i < N := by
  obtain ⟨k, v, hk, h1, h2⟩ := hp.tile.cover i hi
  obtain ⟨v', hk', hv'⟩ := hp.rel.some' hk
  have := rho_spec hp.ok hk hk' (i - v.1) (by omega)
  have hi' : v.1 + (i - v.1) = i := by omega
  rw [hi'] at this
  rw [this]
  have hle := hp.tile'.le v' (List.mem_of_getElem? hk')
  have : v'.2.1 = v.2.1 := by rw [hv']
  omega

theorem rho_inj {π : Nat → Nat} {N : Nat} {fixed fixed' : List Nat} {s s' : GState ℝ} (hp : Paired π N fixed fixed' s s')
    (i : Nat) (hi : i < N) (j : Nat) (hj : j < N) (h : rho π s s' i = rho π s s' j) : i = j := by
  obtain ⟨k, v, hk, h1, h2⟩ := hp.tile.cover i hi
  obtain ⟨v', hk', hv'⟩ := hp.rel.some' hk
  obtain ⟨l, w, hl, h3, h4⟩ := hp.tile.cover j hj
  obtain ⟨w', hl', hw'⟩ := hp.rel.some' hl
  have ri := rho_spec hp.ok hk hk' (i - v.1) (by omega)
  have rj := rho_spec hp.ok hl hl' (j - w.1) (by omega)
  have hi' : v.1 + (i - v.1) = i := by omega
  have hj' : w.1 + (j - w.1) = j := by omega
  rw [hi'] at ri; rw [hj'] at rj
  rw [ri, rj] at h
  have dv : v'.2.1 = v.2.1 := by rw [hv']
  have dw : w'.2.1 = w.2.1 := by rw [hw']
  have hpair := hp.ok'.layout.disjoint _ (mem_layoutOf hk') _ (mem_layoutOf hl') (v'.1 + (i - v.1))
    (by unfold InIv; simp only; omega) (by unfold InIv; simp only; omega)
  have hg : v'.1 = w'.1 := by simpa using congrArg Prod.fst hpair
  have hkl := hp.rel.pos_eq hk hl (hp.ok'.distinct _ _ _ _ hk' hl' hg)
  subst hkl
  rw [hk] at hl; cases hl
  omega

/-! ### solutions correspond -/

/-- **`dx` solves the first system on `[0, N)` iff the correspondingly re-indexed `dx'` solves the second**
    (`spsolve(H, -b)`, graph.py:466-480) -/
theorem solves_relayout {π : Nat → Nat} {N : Nat} {fixed fixed' : List Nat} {s s' : GState ℝ}
    (hp : Paired π N fixed fixed' s s') (es : List (Edge ℝ)) (hes : EdgesOK es)
    (r r' : ℝ × (Nat → ℝ) × (Nat → Nat → ℝ))
    (h : system fixed es s = some r) (h' : system fixed' (es.map (remap π)) s' = some r')
    (dx dx' : Nat → ℝ) (hdx : DxRel π s s' dx dx') :
    Solves N r.2.2 (fun i => - r.2.1 i) dx ↔ Solves N r'.2.2 (fun i => - r'.2.1 i) dx' := by
  -- entrywise correspondence along `ρ`
  have Hρ : ∀ i, i < N → ∀ j, j < N → r'.2.2 (rho π s s' i) (rho π s s' j) = r.2.2 i j := by
    intro i hi j hj
    obtain ⟨k, v, hk, h1, h2⟩ := hp.tile.cover i hi
    obtain ⟨v', hk', hv'⟩ := hp.rel.some' hk
    obtain ⟨l, w, hl, h3, h4⟩ := hp.tile.cover j hj
    obtain ⟨w', hl', hw'⟩ := hp.rel.some' hl
    have ri := rho_spec hp.ok hk hk' (i - v.1) (by omega)
    have rj := rho_spec hp.ok hl hl' (j - w.1) (by omega)
    have hi' : v.1 + (i - v.1) = i := by omega
    have hj' : w.1 + (j - w.1) = j := by omega
    rw [hi'] at ri; rw [hj'] at rj
    rw [ri, rj]
    have := system_hessian_relayout hp.rel hp.ok hp.ok' es hes fixed fixed' hp.fix r r' h h' k l v w v' w' hk hl hk' hl'
      (i - v.1) (j - w.1) (by omega) (by omega)
    rw [this, hi', hj']
  have Bρ : ∀ i, i < N → r'.2.1 (rho π s s' i) = r.2.1 i := by
    intro i hi
    obtain ⟨k, v, hk, h1, h2⟩ := hp.tile.cover i hi
    obtain ⟨v', hk', hv'⟩ := hp.rel.some' hk
    have ri := rho_spec hp.ok hk hk' (i - v.1) (by omega)
    have hi' : v.1 + (i - v.1) = i := by omega
    rw [hi'] at ri
    rw [ri]
    have := system_gradient_relayout hp.rel hp.ok hp.ok' es hes fixed fixed' hp.fix r r' h h' k v v' hk hk'
      (i - v.1) (by omega)
    rw [this, hi']
  have Dρ : ∀ j, j < N → dx' (rho π s s' j) = dx j := by
    intro j hj
    obtain ⟨l, w, hl, h3, h4⟩ := hp.tile.cover j hj
    obtain ⟨w', hl', hw'⟩ := hp.rel.some' hl
    have rj := rho_spec hp.ok hl hl' (j - w.1) (by omega)
    have hj' : w.1 + (j - w.1) = j := by omega
    rw [hj'] at rj
    rw [rj, hdx l w w' hl hl' (j - w.1) (by omega), hj']
  have key : ∀ i, i < N → ∑ j ∈ Finset.range N, r'.2.2 (rho π s s' i) j * dx' j = ∑ j ∈ Finset.range N, r.2.2 i j * dx j := by
    intro i hi
    rw [← sum_reindex N (rho π s s') (rho_lt hp) (rho_inj hp) (fun j => r'.2.2 (rho π s s' i) j * dx' j)]
    apply Finset.sum_congr rfl
    intro j hj
    have hj := Finset.mem_range.mp hj
    rw [Hρ i hi j hj, Dρ j hj]
  constructor
  · intro hsol i' hi'
    obtain ⟨i, hi, rfl⟩ := surj_reindex N (rho π s s') (rho_lt hp) (rho_inj hp) i' hi'
    show ∑ j ∈ Finset.range N, r'.2.2 (rho π s s' i) j * dx' j = - r'.2.1 (rho π s s' i)
    rw [key i hi, Bρ i hi]
    exact hsol i hi
  · intro hsol i hi
    have : ∑ j ∈ Finset.range N, r'.2.2 (rho π s s' i) j * dx' j = - r'.2.1 (rho π s s' i) :=
      hsol (rho π s s' i) (rho_lt hp i hi)
    rw [key i hi, Bρ i hi] at this
    exact this

open Classical in
/-- inverse of `ρ` on `[0, N)` -/
def rhoInv (π : Nat → Nat) (s s' : GState ℝ) (N : Nat) (i' : Nat) : Nat :=
  if h : ∃ i, i < N ∧ rho π s s' i = i' then Classical.choose h else i'

/-- the increment of the second layout that gives every vertex the same local increment as `dx` gives it in the first -/
def reindexDx (π : Nat → Nat) (s s' : GState ℝ) (N : Nat) (dx : Nat → ℝ) : Nat → ℝ := fun i' => dx (rhoInv π s s' N i')

theorem reindexDx_spec {π : Nat → Nat} {N : Nat} {fixed fixed' : List Nat} {s s' : GState ℝ}
    (hp : Paired π N fixed fixed' s s') (dx : Nat → ℝ) : DxRel π s s' dx (reindexDx π s s' N dx) := by
  intro k v v' hk hk' a ha
  have hlt : v.1 + a < N := by have := hp.tile.le v (List.mem_of_getElem? hk); omega
  have hρ := rho_spec hp.ok hk hk' a ha
  have h : ∃ i, i < N ∧ rho π s s' i = v'.1 + a := ⟨v.1 + a, hlt, hρ⟩
  unfold reindexDx rhoInv
  rw [dif_pos h]
  obtain ⟨h1, h2⟩ := Classical.choose_spec h
  have := rho_inj hp _ h1 _ hlt (h2.trans hρ.symm)
  rw [this]

/-- restricting `dx'` along `ρ` gives the corresponding increment of the first layout -/
theorem dxRel_comp_rho {π : Nat → Nat} {s s' : GState ℝ} (hs : StateOK s) (dx' : Nat → ℝ) :
    DxRel π s s' (fun j => dx' (rho π s s' j)) dx' := by
  intro k v v' hk hk' a ha
  simp only [rho_spec hs hk hk' a ha]

/-! ### the update -/

/-- what the update loop does to one vertex -/
def upd (fixed : List Nat) (dx : Nat → ℝ) (v : Nat × Nat × Pose ℝ) : Nat × Nat × Pose ℝ :=
  if v.1 ∈ fixed then v else (v.1, v.2.1, Pose.boxplus v.2.2 fun t => dx (v.1 + t))

theorem applyDx_eq_map (fixed : List Nat) (s : GState ℝ) (dx : Nat → ℝ) :
    applyDx Pose.boxplus fixed s dx = s.map (upd fixed dx) := by
  unfold applyDx
  apply List.map_congr_left
  intro v _
  obtain ⟨g, d, p⟩ := v
  simp only [upd]

theorem boxplus_cdim (p : Pose ℝ) (δ : Nat → ℝ) : (Pose.boxplus p δ).cdim = p.cdim := by
  cases p <;> rfl

/-- box-plus reads only the first `cdim` entries of the increment -/
theorem boxplus_congr (p : Pose ℝ) (δ δ' : Nat → ℝ) (h : ∀ t, t < p.cdim → δ t = δ' t) :
    Pose.boxplus p δ = Pose.boxplus p δ' := by
  cases p with
  | r2 p =>
    have : (vecN δ : Fin 2 → ℝ) = vecN δ' := funext fun i => h i.val i.isLt
    simp only [Pose.boxplus, this]
  | r3 p =>
    have : (vecN δ : Fin 3 → ℝ) = vecN δ' := funext fun i => h i.val i.isLt
    simp only [Pose.boxplus, this]
  | se2 p =>
    have : (vecN δ : Fin 3 → ℝ) = vecN δ' := funext fun i => h i.val i.isLt
    simp only [Pose.boxplus, this]
  | se3 p =>
    have : (vecN δ : Fin 6 → ℝ) = vecN δ' := funext fun i => h i.val i.isLt
    simp only [Pose.boxplus, this]

theorem upd_fst (fixed : List Nat) (dx : Nat → ℝ) (v : Nat × Nat × Pose ℝ) : (upd fixed dx v).1 = v.1 := by
  unfold upd; split <;> rfl
theorem upd_dim (fixed : List Nat) (dx : Nat → ℝ) (v : Nat × Nat × Pose ℝ) : (upd fixed dx v).2.1 = v.2.1 := by
  unfold upd; split <;> rfl
theorem upd_cdim (fixed : List Nat) (dx : Nat → ℝ) (v : Nat × Nat × Pose ℝ) : (upd fixed dx v).2.2.cdim = v.2.2.cdim := by
  unfold upd; split
  · rfl
  · exact boxplus_cdim _ _

theorem layoutOf_applyDx (fixed : List Nat) (s : GState ℝ) (dx : Nat → ℝ) :
    layoutOf (applyDx Pose.boxplus fixed s dx) = layoutOf s :=
  C06.applyDx_layout Pose.boxplus fixed s dx

/-- states with the same layout have the same `(gradient_index, dim)` at every position -/
theorem get_of_layout {s t : GState ℝ} (hl : layoutOf t = layoutOf s) {k : Nat} {w : Nat × Nat × Pose ℝ}
    (hw : t[k]? = some w) : ∃ v, s[k]? = some v ∧ v.1 = w.1 ∧ v.2.1 = w.2.1 := by
  have := congrArg (fun l => l[k]?) hl
  simp only [layoutOf, List.getElem?_map, hw, Option.map_some] at this
  cases hv : s[k]? with
  | none => rw [hv] at this; simp at this
  | some v =>
    rw [hv] at this
    simp only [Option.map_some, Option.some.injEq, Prod.mk.injEq] at this
    exact ⟨v, rfl, this.1.symm, this.2.symm⟩

theorem distinct_of_layout {s t : GState ℝ} (hl : layoutOf t = layoutOf s) (hd : Distinct s) : Distinct t := by
  intro i j v w hv hw h
  obtain ⟨v0, hv0, e1, _⟩ := get_of_layout hl hv
  obtain ⟨w0, hw0, e2, _⟩ := get_of_layout hl hw
  exact hd i j v0 w0 hv0 hw0 (by rw [e1, e2, h])

theorem tiles_of_layout {N : Nat} {s t : GState ℝ} (hl : layoutOf t = layoutOf s) (ht : Tiles N s) : Tiles N t := by
  constructor
  · intro w hw
    obtain ⟨k, hk⟩ := List.getElem?_of_mem hw
    obtain ⟨v, hv, e1, e2⟩ := get_of_layout hl hk
    have := ht.le v (List.mem_of_getElem? hv)
    omega
  · intro i hi
    obtain ⟨k, v, hv, h1, h2⟩ := ht.cover i hi
    obtain ⟨w, hw, e1, e2⟩ := get_of_layout hl.symm hv
    exact ⟨k, w, hw, by omega, by omega⟩

theorem fixedRel_of_layout {π : Nat → Nat} {s s' t t' : GState ℝ} {fixed fixed' : List Nat}
    (hl : layoutOf t = layoutOf s) (hl' : layoutOf t' = layoutOf s') (hf : FixedRel π s s' fixed fixed') :
    FixedRel π t t' fixed fixed' := by
  intro k w w' hw hw'
  obtain ⟨v, hv, e1, _⟩ := get_of_layout hl hw
  obtain ⟨v', hv', e1', _⟩ := get_of_layout hl' hw'
  rw [← e1, ← e1']
  exact hf k v v' hv hv'

theorem stateOK_applyDx {s : GState ℝ} (hs : StateOK s) (fixed : List Nat) (dx : Nat → ℝ) :
    StateOK (applyDx Pose.boxplus fixed s dx) where
  layout := by rw [layoutOf_applyDx]; exact hs.layout
  dims := by
    rw [applyDx_eq_map]
    intro w hw
    obtain ⟨v, hv, rfl⟩ := List.mem_map.mp hw
    rw [upd_dim, upd_cdim]
    exact hs.dims v hv
  distinct := distinct_of_layout (layoutOf_applyDx fixed s dx) hs.distinct

/-- **applying corresponding increments gives states that are permutations of each other**: the vertex at position `π k`
    of the second updated state has the same estimate as the vertex at position `k` of the first (graph.py:484-494) -/
theorem applyDx_relayout {π : Nat → Nat} {s s' : GState ℝ} (hr : Relayout π s s') (hd : DimsOK s)
    (fixed fixed' : List Nat) (hfix : FixedRel π s s' fixed fixed') (dx dx' : Nat → ℝ) (hdx : DxRel π s s' dx dx') :
    Relayout π (applyDx Pose.boxplus fixed s dx) (applyDx Pose.boxplus fixed' s' dx') := by
  rw [applyDx_eq_map, applyDx_eq_map]
  constructor
  · simp only [List.length_map]; exact hr.len
  · simp only [List.length_map]; exact hr.inj
  · simp only [List.length_map]; exact hr.range
  · intro i w hw
    rw [List.getElem?_map] at hw
    cases hv : s[i]? with
    | none => rw [hv] at hw; simp at hw
    | some v =>
      rw [hv] at hw
      simp only [Option.map_some, Option.some.injEq] at hw
      subst hw
      obtain ⟨g', hg'⟩ := hr.same i v hv
      refine ⟨g', ?_⟩
      rw [List.getElem?_map, hg']
      simp only [Option.map_some, Option.some.injEq]
      have hf := hfix i v _ hv hg'
      simp only at hf
      unfold upd
      by_cases hin : v.1 ∈ fixed
      · have hin' : g' ∈ fixed' := hf.mp hin
        simp only [hin, hin', if_true]
      · have hin' : g' ∉ fixed' := fun hh => hin (hf.mpr hh)
        simp only [hin, hin', if_false]
        have : Pose.boxplus v.2.2 (fun t => dx' (g' + t)) = Pose.boxplus v.2.2 (fun t => dx (v.1 + t)) := by
          apply boxplus_congr
          intro t ht
          have hdv := hd v (List.mem_of_getElem? hv)
          exact hdx i v _ hv hg' t (by omega)
        rw [this]

theorem paired_applyDx {π : Nat → Nat} {N : Nat} {fixed fixed' : List Nat} {s s' : GState ℝ}
    (hp : Paired π N fixed fixed' s s') (dx dx' : Nat → ℝ) (hdx : DxRel π s s' dx dx') :
    Paired π N fixed fixed' (applyDx Pose.boxplus fixed s dx) (applyDx Pose.boxplus fixed' s' dx') where
  rel := applyDx_relayout hp.rel hp.ok.dims fixed fixed' hp.fix dx dx' hdx
  ok := stateOK_applyDx hp.ok fixed dx
  ok' := stateOK_applyDx hp.ok' fixed' dx'
  fix := fixedRel_of_layout (layoutOf_applyDx fixed s dx) (layoutOf_applyDx fixed' s' dx') hp.fix
  tile := tiles_of_layout (layoutOf_applyDx fixed s dx) hp.tile
  tile' := tiles_of_layout (layoutOf_applyDx fixed' s' dx') hp.tile'

/-! ### one iteration, the trajectory -/

/-- the solver returns *a* solution whenever the system has one (on the `N` unknowns) -/
def ExactSolver (N : Nat) (solve : (Nat → Nat → ℝ) → (Nat → ℝ) → (Nat → ℝ)) : Prop :=
  ∀ H rhs, (∃ x, Solves N H rhs x) → Solves N H rhs (solve H rhs)

/-- the system has exactly one solution on the `N` unknowns -/
def UniquelySolvable (N : Nat) (H : Nat → Nat → ℝ) (rhs : Nat → ℝ) : Prop :=
  ∃ x, Solves N H rhs x ∧ ∀ y, Solves N H rhs y → ∀ j, j < N → y j = x j

/-- both `none`, or both `some` and related -/
def OptRel {α β : Type} (R : α → β → Prop) (o : Option α) (o' : Option β) : Prop :=
  (o = none ∧ o' = none) ∨ ∃ a a', o = some a ∧ o' = some a' ∧ R a a'

/-- **one whole iteration** (`Model.step`) of the two graphs, with an exact solver, at a state whose system is uniquely
    solvable: the new states correspond again -/
theorem step_relayout {π : Nat → Nat} {N : Nat} {fixed fixed' : List Nat} {s s' : GState ℝ}
    (hp : Paired π N fixed fixed' s s') (es : List (Edge ℝ)) (hes : EdgesOK es)
    (solve : (Nat → Nat → ℝ) → (Nat → ℝ) → (Nat → ℝ)) (hex : ExactSolver N solve)
    (hu : ∀ r, system fixed es s = some r → UniquelySolvable N r.2.2 (fun i => - r.2.1 i)) :
    OptRel (Paired π N fixed fixed') (step solve fixed es s) (step solve fixed' (es.map (remap π)) s') := by
  have hsome := system_isSome_relayout hp.rel fixed fixed' es
  unfold step
  cases h : system fixed es s with
  | none =>
    rw [h] at hsome
    cases h' : system fixed' (es.map (remap π)) s' with
    | none => left; exact ⟨rfl, rfl⟩
    | some r' => rw [h'] at hsome; simp at hsome
  | some r =>
    rw [h] at hsome
    cases h' : system fixed' (es.map (remap π)) s' with
    | none => rw [h'] at hsome; simp at hsome
    | some r' =>
      right
      refine ⟨_, _, rfl, rfl, ?_⟩
      apply paired_applyDx hp
      obtain ⟨x, hx, hux⟩ := hu r h
      -- the first solver output is the solution
      have hdx := hex _ _ ⟨x, hx⟩
      -- the second system is solvable: re-index `x`
      have hx' := (solves_relayout hp es hes r r' h h' x _ (reindexDx_spec hp x)).mp hx
      have hdx' := hex _ _ ⟨_, hx'⟩
      -- pull the second solver output back along `ρ`: a solution of the first system, hence the solution
      have hback := (solves_relayout hp es hes r r' h h' _ _ (dxRel_comp_rho hp.ok _)).mpr hdx'
      intro k v v' hk hk' a ha
      have hlt : v.1 + a < N := by have := hp.tile.le v (List.mem_of_getElem? hk); omega
      have e1 := hux _ hback (v.1 + a) hlt
      have e2 := hux _ hdx (v.1 + a) hlt
      simp only [rho_spec hp.ok hk hk' a ha] at e1
      rw [e1, e2]

/-- **the trajectory**: if the solver is exact and every system visited by the first run is uniquely solvable, then after
    every number of iterations both runs have failed together (ill-typed graph) or the two states list the same estimates
    for the same vertices -/
theorem iterStates_relayout {π : Nat → Nat} {N : Nat} {fixed fixed' : List Nat} {s s' : GState ℝ}
    (hp : Paired π N fixed fixed' s s') (es : List (Edge ℝ)) (hes : EdgesOK es)
    (solve : (Nat → Nat → ℝ) → (Nat → ℝ) → (Nat → ℝ)) (hex : ExactSolver N solve)
    (hu : ∀ i t r, iterStates (fun _ => step solve fixed es) s i = some t → system fixed es t = some r →
      UniquelySolvable N r.2.2 (fun i => - r.2.1 i)) (i : Nat) :
    OptRel (Paired π N fixed fixed') (iterStates (fun _ => step solve fixed es) s i)
      (iterStates (fun _ => step solve fixed' (es.map (remap π))) s' i) := by
  induction i with
  | zero => right; exact ⟨s, s', rfl, rfl, hp⟩
  | succ i ih =>
    simp only [iterStates]
    rcases ih with ⟨h1, h2⟩ | ⟨t, t', h1, h2, hpt⟩
    · left; rw [h1, h2]; exact ⟨rfl, rfl⟩
    · rw [h1, h2]
      simp only [Option.bind_some]
      exact step_relayout hpt es hes solve hex (fun r hr => hu i t r h1 hr)

/-- the χ² sequences the control loop sees are equal -/
theorem chi2SeqOf_relayout {π : Nat → Nat} {N : Nat} {fixed fixed' : List Nat} {s s' : GState ℝ}
    (hp : Paired π N fixed fixed' s s') (es : List (Edge ℝ)) (hes : EdgesOK es)
    (solve : (Nat → Nat → ℝ) → (Nat → ℝ) → (Nat → ℝ)) (hex : ExactSolver N solve)
    (hu : ∀ i t r, iterStates (fun _ => step solve fixed es) s i = some t → system fixed es t = some r →
      UniquelySolvable N r.2.2 (fun i => - r.2.1 i)) :
    chi2SeqOf (fun _ => step solve fixed' (es.map (remap π))) fixed' (es.map (remap π)) s'
      = chi2SeqOf (fun _ => step solve fixed es) fixed es s := by
  funext i
  unfold chi2SeqOf
  rcases iterStates_relayout hp es hes solve hex hu i with ⟨h1, h2⟩ | ⟨t, t', h1, h2, hpt⟩
  · rw [h1, h2]; rfl
  · rw [h1, h2]
    simp only [Option.bind_some]
    rw [chi2At_relayout hpt.rel fixed fixed' es]

/-! ### bounded versions: only the systems actually solved matter -/

/-- the trajectory up to iteration `n`, assuming unique solvability only of the systems solved in iterations `< n` -/
theorem iterStates_relayout_upto {π : Nat → Nat} {N : Nat} {fixed fixed' : List Nat} {s s' : GState ℝ}
    (hp : Paired π N fixed fixed' s s') (es : List (Edge ℝ)) (hes : EdgesOK es)
    (solve : (Nat → Nat → ℝ) → (Nat → ℝ) → (Nat → ℝ)) (hex : ExactSolver N solve) (n : Nat)
    (hu : ∀ i t r, i < n → iterStates (fun _ => step solve fixed es) s i = some t → system fixed es t = some r →
      UniquelySolvable N r.2.2 (fun i => - r.2.1 i)) (i : Nat) (hi : i ≤ n) :
    OptRel (Paired π N fixed fixed') (iterStates (fun _ => step solve fixed es) s i)
      (iterStates (fun _ => step solve fixed' (es.map (remap π))) s' i) := by
  induction i with
  | zero => right; exact ⟨s, s', rfl, rfl, hp⟩
  | succ i ih =>
    simp only [iterStates]
    rcases ih (by omega) with ⟨h1, h2⟩ | ⟨t, t', h1, h2, hpt⟩
    · left; rw [h1, h2]; exact ⟨rfl, rfl⟩
    · rw [h1, h2]
      simp only [Option.bind_some]
      exact step_relayout hpt es hes solve hex (fun r hr => hu i t r (by omega) h1 hr)

theorem chi2SeqOf_relayout_upto {π : Nat → Nat} {N : Nat} {fixed fixed' : List Nat} {s s' : GState ℝ}
    (hp : Paired π N fixed fixed' s s') (es : List (Edge ℝ)) (hes : EdgesOK es)
    (solve : (Nat → Nat → ℝ) → (Nat → ℝ) → (Nat → ℝ)) (hex : ExactSolver N solve) (n : Nat)
    (hu : ∀ i t r, i < n → iterStates (fun _ => step solve fixed es) s i = some t → system fixed es t = some r →
      UniquelySolvable N r.2.2 (fun i => - r.2.1 i)) (i : Nat) (hi : i ≤ n) :
    chi2SeqOf (fun _ => step solve fixed' (es.map (remap π))) fixed' (es.map (remap π)) s' i
      = chi2SeqOf (fun _ => step solve fixed es) fixed es s i := by
  unfold chi2SeqOf
  rcases iterStates_relayout_upto hp es hes solve hex n hu i hi with ⟨h1, h2⟩ | ⟨t, t', h1, h2, hpt⟩
  · rw [h1, h2]; rfl
  · rw [h1, h2]
    simp only [Option.bind_some]
    rw [chi2At_relayout hpt.rel fixed fixed' es]

/-! ### recorded increments (`Model.stepWith`, `Model.stateAt`: what the driver executes) — no solver hypothesis -/

theorem dxRel_of_layout {π : Nat → Nat} {s s' t t' : GState ℝ} {dx dx' : Nat → ℝ}
    (hl : layoutOf t = layoutOf s) (hl' : layoutOf t' = layoutOf s') (h : DxRel π s s' dx dx') : DxRel π t t' dx dx' := by
  intro k w w' hw hw' a ha
  obtain ⟨v, hv, e1, e2⟩ := get_of_layout hl hw
  obtain ⟨v', hv', e1', _⟩ := get_of_layout hl' hw'
  rw [← e1, ← e1']
  exact h k v v' hv hv' a (by omega)

/-- one iteration applying corresponding increments: no hypothesis on the edges or on how the increments were obtained -/
theorem stepWith_relayout {π : Nat → Nat} {N : Nat} {fixed fixed' : List Nat} {s s' : GState ℝ}
    (hp : Paired π N fixed fixed' s s') (es : List (Edge ℝ)) (dx dx' : Nat → ℝ) (hdx : DxRel π s s' dx dx') :
    OptRel (fun t t' => Paired π N fixed fixed' t t' ∧ layoutOf t = layoutOf s ∧ layoutOf t' = layoutOf s')
      (stepWith dx fixed es s) (stepWith dx' fixed' (es.map (remap π)) s') := by
  have hsome := system_isSome_relayout hp.rel fixed fixed' es
  unfold stepWith
  cases h : system fixed es s with
  | none =>
    rw [h] at hsome
    cases h' : system fixed' (es.map (remap π)) s' with
    | none => left; exact ⟨rfl, rfl⟩
    | some r' => rw [h'] at hsome; simp at hsome
  | some r =>
    rw [h] at hsome
    cases h' : system fixed' (es.map (remap π)) s' with
    | none => rw [h'] at hsome; simp at hsome
    | some r' =>
      right
      exact ⟨_, _, rfl, rfl, paired_applyDx hp dx dx' hdx, layoutOf_applyDx fixed s dx, layoutOf_applyDx fixed' s' dx'⟩

/-- **the trajectory with recorded increments**: if in every iteration the two runs apply corresponding increments
    (`dxs' i` gives every vertex the local increment `dxs i` gives it), the visited states correspond — for arbitrary edges
    and arbitrary increments (NaN-free reals; no solver, symmetry or solvability hypothesis) -/
theorem stateAt_relayout {π : Nat → Nat} {N : Nat} {fixed fixed' : List Nat} {s s' : GState ℝ}
    (hp : Paired π N fixed fixed' s s') (es : List (Edge ℝ)) (dxs dxs' : Nat → Nat → ℝ)
    (hdx : ∀ i, DxRel π s s' (dxs i) (dxs' i)) (i : Nat) :
    OptRel (fun t t' => Paired π N fixed fixed' t t' ∧ layoutOf t = layoutOf s ∧ layoutOf t' = layoutOf s')
      (stateAt dxs fixed es s i) (stateAt dxs' fixed' (es.map (remap π)) s' i) := by
  unfold stateAt
  induction i with
  | zero => right; exact ⟨s, s', rfl, rfl, hp, rfl, rfl⟩
  | succ i ih =>
    simp only [iterStates]
    rcases ih with ⟨h1, h2⟩ | ⟨t, t', h1, h2, hpt, hl, hl'⟩
    · left; rw [h1, h2]; exact ⟨rfl, rfl⟩
    · rw [h1, h2]
      simp only [Option.bind_some]
      rcases stepWith_relayout hpt es (dxs i) (dxs' i) (dxRel_of_layout hl hl' (hdx i)) with ⟨g1, g2⟩ | ⟨u, u', g1, g2, hpu, gl, gl'⟩
      · left; exact ⟨g1, g2⟩
      · right; exact ⟨u, u', g1, g2, hpu, gl.trans hl, gl'.trans hl'⟩

theorem chi2Seq_relayout {π : Nat → Nat} {N : Nat} {fixed fixed' : List Nat} {s s' : GState ℝ}
    (hp : Paired π N fixed fixed' s s') (es : List (Edge ℝ)) (dxs dxs' : Nat → Nat → ℝ)
    (hdx : ∀ i, DxRel π s s' (dxs i) (dxs' i)) :
    chi2Seq dxs' fixed' (es.map (remap π)) s' = chi2Seq dxs fixed es s := by
  funext i
  have := stateAt_relayout hp es dxs dxs' hdx i
  unfold stateAt at this
  unfold chi2Seq chi2SeqOf
  rcases this with ⟨h1, h2⟩ | ⟨t, t', h1, h2, hpt, _, _⟩
  · rw [h1, h2]; rfl
  · rw [h1, h2]
    simp only [Option.bind_some]
    rw [chi2At_relayout hpt.rel fixed fixed' es]

end
end GraphSlam.Props.E2E.VertexPerm
