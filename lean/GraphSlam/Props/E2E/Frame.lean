import GraphSlam.Model.GraphIter
import GraphSlam.Model.Run
import GraphSlam.Props.C07.Jacobians
import GraphSlam.Props.C06.Fixed

/-!
# End to end (C07, C06): one whole iteration of the typed-graph model commutes with a change of world frame

`Model.step` is the model of one iteration of `Graph.optimize` on a typed graph (tied to the real
`optimize(max_iter=1)` by tools/harness/graphiter.py).  Here the per-edge facts of `Props/C07` are composed through the
*whole* pipeline — binding, linearisation, contributions, accumulation, dense fill, solve, update:

* `step_equivariant`  — generic: if the frame action leaves every edge's linearisation unchanged and commutes with
  box-plus on the states considered, the step of the transformed graph is the transform of the step, **for any solver**
  (the solver is an arbitrary function of the assembled `H`, `-b`), including the fixed-vertex handling;
* `steps_equivariant` — hence for any number of iterations;
* instances: SE(2) graphs (all vertices poses), SE(3) graphs (unit quaternions), R² and R³ graphs (all edges, landmark
  edges included).  Graphs that mix SE(n) poses with R^n landmark *vertices* are not covered by the instances: there the
  Jacobian of a landmark vertex is rotated by `R_T`, the assembled system is conjugated by an orthogonal block matrix
  and the statement needs a solver hypothesis (`Theory.reparam_solves`); see DESIGN.md.
-/

namespace GraphSlam.Props.E2E
open GraphSlam GraphSlam.Gen GraphSlam.Model GraphSlam.Props.C07
set_option linter.unusedSimpArgs false
set_option linter.unusedVariables false
noncomputable section

/-- apply a map to every vertex estimate -/
def actState (f : Pose ℝ → Pose ℝ) (s : GState ℝ) : GState ℝ := s.map fun v => (v.1, v.2.1, f v.2.2)

theorem actState_getElem? (f : Pose ℝ → Pose ℝ) (s : GState ℝ) (i : Nat) :
    (actState f s)[i]? = (s[i]?).map fun v => (v.1, v.2.1, f v.2.2) := by
  simp [actState]

theorem layoutOf_actState (f : Pose ℝ → Pose ℝ) (s : GState ℝ) : layoutOf (actState f s) = layoutOf s := by
  simp [layoutOf, actState, List.map_map, Function.comp]

section generic
variable (act : Pose ℝ → Pose ℝ) (Good : Pose ℝ → Prop)

theorem linearise_act
    (hlin : ∀ g0 g1 p0 p1 e, Good p0 → Good p1 → lineariseAt g0 g1 (act p0) (act p1) e = lineariseAt g0 g1 p0 p1 e)
    (s : GState ℝ) (hs : ∀ v ∈ s, Good v.2.2) (e : Edge ℝ) :
    linearise (actState act s) e = linearise s e := by
  unfold linearise
  rw [actState_getElem?, actState_getElem?]
  cases h0 : s[e.ends.1]? with
  | none => simp
  | some v0 =>
    cases h1 : s[e.ends.2]? with
    | none => simp
    | some v1 =>
      obtain ⟨g0, d0, p0⟩ := v0
      obtain ⟨g1, d1, p1⟩ := v1
      simp only [Option.map_some]
      exact hlin g0 g1 p0 p1 e (hs _ (List.mem_of_getElem? h0)) (hs _ (List.mem_of_getElem? h1))

theorem system_act
    (hlin : ∀ g0 g1 p0 p1 e, Good p0 → Good p1 → lineariseAt g0 g1 (act p0) (act p1) e = lineariseAt g0 g1 p0 p1 e)
    (fixed : List Nat) (es : List (Edge ℝ)) (s : GState ℝ) (hs : ∀ v ∈ s, Good v.2.2) :
    system fixed es (actState act s) = system fixed es s := by
  unfold system
  have h : es.map (linearise (actState act s)) = es.map (linearise s) :=
    List.map_congr_left fun e _ => linearise_act act Good hlin s hs e
  rw [h, layoutOf_actState]

theorem applyDx_act
    (hbox : ∀ p δ, Good p → Pose.boxplus (act p) δ = act (Pose.boxplus p δ))
    (fixed : List Nat) (s : GState ℝ) (hs : ∀ v ∈ s, Good v.2.2) (dx : Nat → ℝ) :
    applyDx Pose.boxplus fixed (actState act s) dx = actState act (applyDx Pose.boxplus fixed s dx) := by
  unfold applyDx actState
  rw [List.map_map, List.map_map]
  apply List.map_congr_left
  intro v hv
  obtain ⟨g, d, p⟩ := v
  simp only [Function.comp]
  split
  · rfl
  · simp only [hbox p _ (hs _ hv)]

/-- **one iteration commutes with the frame action, for any solver** -/
theorem step_equivariant
    (hlin : ∀ g0 g1 p0 p1 e, Good p0 → Good p1 → lineariseAt g0 g1 (act p0) (act p1) e = lineariseAt g0 g1 p0 p1 e)
    (hbox : ∀ p δ, Good p → Pose.boxplus (act p) δ = act (Pose.boxplus p δ))
    (solve : (Nat → Nat → ℝ) → (Nat → ℝ) → (Nat → ℝ)) (fixed : List Nat) (es : List (Edge ℝ)) (s : GState ℝ)
    (hs : ∀ v ∈ s, Good v.2.2) :
    step solve fixed es (actState act s) = (step solve fixed es s).map (actState act) := by
  unfold step
  rw [system_act act Good hlin fixed es s hs]
  cases system fixed es s with
  | none => rfl
  | some r => simp only [Option.map_some, applyDx_act act Good hbox fixed s hs]

/-- the invariant is preserved by an iteration -/
theorem step_good (hgood : ∀ p δ, Good p → Good (Pose.boxplus p δ))
    (solve : (Nat → Nat → ℝ) → (Nat → ℝ) → (Nat → ℝ)) (fixed : List Nat) (es : List (Edge ℝ)) (s s' : GState ℝ)
    (hs : ∀ v ∈ s, Good v.2.2) (h : step solve fixed es s = some s') : ∀ v ∈ s', Good v.2.2 := by
  unfold step at h
  cases hsys : system fixed es s with
  | none => rw [hsys] at h; simp at h
  | some r =>
    rw [hsys] at h
    simp only [Option.map_some, Option.some.injEq] at h
    subst h
    intro v hv
    unfold applyDx at hv
    rw [List.mem_map] at hv
    obtain ⟨w, hw, rfl⟩ := hv
    obtain ⟨g, d, p⟩ := w
    simp only
    split
    · exact hs _ hw
    · exact hgood p _ (hs _ hw)

/-- `k` iterations (stopping at the first ill-typed graph, which never happens for a constructed `Graph`) -/
def steps (solve : (Nat → Nat → ℝ) → (Nat → ℝ) → (Nat → ℝ)) (fixed : List Nat) (es : List (Edge ℝ)) :
    Nat → GState ℝ → Option (GState ℝ)
  | 0, s => some s
  | k + 1, s => (step solve fixed es s).bind (steps solve fixed es k)

/-- **the whole trajectory commutes with the frame action, for any solver and any number of iterations** -/
theorem steps_equivariant
    (hlin : ∀ g0 g1 p0 p1 e, Good p0 → Good p1 → lineariseAt g0 g1 (act p0) (act p1) e = lineariseAt g0 g1 p0 p1 e)
    (hbox : ∀ p δ, Good p → Pose.boxplus (act p) δ = act (Pose.boxplus p δ))
    (hgood : ∀ p δ, Good p → Good (Pose.boxplus p δ))
    (solve : (Nat → Nat → ℝ) → (Nat → ℝ) → (Nat → ℝ)) (fixed : List Nat) (es : List (Edge ℝ)) (k : Nat) (s : GState ℝ)
    (hs : ∀ v ∈ s, Good v.2.2) :
    steps solve fixed es k (actState act s) = (steps solve fixed es k s).map (actState act) := by
  induction k generalizing s with
  | zero => rfl
  | succ k ih =>
    simp only [steps]
    rw [step_equivariant act Good hlin hbox solve fixed es s hs]
    cases h : step solve fixed es s with
    | none => rfl
    | some s' =>
      simp only [Option.map_some, Option.bind_some]
      exact ih s' (step_good Good hgood solve fixed es s s' hs h)

/-! ### the whole call -/

theorem initState_act (hcdim : ∀ p, (act p).cdim = p.cdim) (g : Nat) (ps : List (Pose ℝ)) :
    initState g (ps.map act) = actState act (initState g ps) := by
  induction ps generalizing g with
  | nil => rfl
  | cons p ps ih =>
    simp only [List.map_cons, initState, actState, List.map_cons, hcdim p]
    congr 1
    exact ih _

theorem initState_good (g : Nat) (ps : List (Pose ℝ)) (hps : ∀ p ∈ ps, Good p) : ∀ v ∈ initState g ps, Good v.2.2 := by
  induction ps generalizing g with
  | nil => intro v hv; simp [initState] at hv
  | cons p ps ih =>
    intro v hv
    simp only [initState, List.mem_cons] at hv
    rcases hv with rfl | hv
    · exact hps p (by simp)
    · exact ih _ (fun q hq => hps q (by simp [hq])) v hv

/-- the visited states commute with the frame action (and stay inside the invariant) -/
theorem iterStates_equivariant
    (hlin : ∀ g0 g1 p0 p1 e, Good p0 → Good p1 → lineariseAt g0 g1 (act p0) (act p1) e = lineariseAt g0 g1 p0 p1 e)
    (hbox : ∀ p δ, Good p → Pose.boxplus (act p) δ = act (Pose.boxplus p δ))
    (hgood : ∀ p δ, Good p → Good (Pose.boxplus p δ))
    (solve : (Nat → Nat → ℝ) → (Nat → ℝ) → (Nat → ℝ)) (fixed : List Nat) (es : List (Edge ℝ)) (s : GState ℝ)
    (hs : ∀ v ∈ s, Good v.2.2) (i : Nat) :
    iterStates (fun _ => step solve fixed es) (actState act s) i
        = (iterStates (fun _ => step solve fixed es) s i).map (actState act) ∧
      (∀ sp, iterStates (fun _ => step solve fixed es) s i = some sp → ∀ v ∈ sp, Good v.2.2) := by
  induction i with
  | zero => exact ⟨rfl, fun sp h => by simp only [iterStates, Option.some.injEq] at h; subst h; exact hs⟩
  | succ i ih =>
    obtain ⟨ih1, ih2⟩ := ih
    simp only [iterStates]
    rw [ih1]
    cases h : iterStates (fun _ => step solve fixed es) s i with
    | none => exact ⟨rfl, fun sp hsp => by simp at hsp⟩
    | some sp =>
      have hg := ih2 sp h
      refine ⟨?_, ?_⟩
      · simp only [Option.map_some, Option.bind_some]
        exact step_equivariant act Good hlin hbox solve fixed es sp hg
      · intro sq hsq
        simp only [Option.bind_some] at hsq
        exact step_good Good hgood solve fixed es sp sq hg hsq

theorem chi2At_act
    (hlin : ∀ g0 g1 p0 p1 e, Good p0 → Good p1 → lineariseAt g0 g1 (act p0) (act p1) e = lineariseAt g0 g1 p0 p1 e)
    (fixed : List Nat) (es : List (Edge ℝ)) (s : GState ℝ) (hs : ∀ v ∈ s, Good v.2.2) :
    chi2At fixed es (actState act s) = chi2At fixed es s := by
  unfold chi2At
  rw [system_act act Good hlin fixed es s hs]

/-- **the whole `optimize()` call commutes with the frame action, for any solver**: same report (χ² values, stopping
    index, `converged`), same flags, and the returned state is the transform of the returned state -/
theorem optimize_equivariant
    (hlin : ∀ g0 g1 p0 p1 e, Good p0 → Good p1 → lineariseAt g0 g1 (act p0) (act p1) e = lineariseAt g0 g1 p0 p1 e)
    (hbox : ∀ p δ, Good p → Pose.boxplus (act p) δ = act (Pose.boxplus p δ))
    (hgood : ∀ p δ, Good p → Good (Pose.boxplus p δ))
    (hcdim : ∀ p, (act p).cdim = p.cdim)
    (tol eps : ℝ) (maxIter : Nat) (ffp : Bool) (flags : List Bool)
    (solve : (Nat → Nat → ℝ) → (Nat → ℝ) → (Nat → ℝ)) (es : List (Edge ℝ)) (ps : List (Pose ℝ))
    (hps : ∀ p ∈ ps, Good p) :
    optimizeSolve tol eps maxIter ffp flags solve es (ps.map act) =
      (optimizeSolve tol eps maxIter ffp flags solve es ps).map fun r => (r.1, r.2.1.map (actState act), r.2.2) := by
  unfold optimizeSolve optimizeRunOf
  have hs0 := initState_good Good 0 ps hps
  rw [initState_act act hcdim]
  have hgidx : (actState act (initState 0 ps)).map (·.1) = (initState 0 ps).map (·.1) := by
    simp [actState, List.map_map, Function.comp]
  simp only [hgidx]
  generalize fixedIndices (applyFixFirst ffp flags) ((initState 0 ps).map (·.1)) = fixed
  have hseq : chi2SeqOf (fun _ => step solve fixed es) fixed es (actState act (initState 0 ps))
      = chi2SeqOf (fun _ => step solve fixed es) fixed es (initState 0 ps) := by
    funext i
    unfold chi2SeqOf
    obtain ⟨h1, h2⟩ := iterStates_equivariant act Good hlin hbox hgood solve fixed es (initState 0 ps) hs0 i
    rw [h1]
    cases h : iterStates (fun _ => step solve fixed es) (initState 0 ps) i with
    | none => rfl
    | some sp =>
      simp only [Option.map_some, Option.bind_some]
      rw [chi2At_act act Good hlin fixed es sp (h2 sp h)]
  rw [hseq]
  cases optimizeCtl tol eps maxIter (chi2SeqOf (fun _ => step solve fixed es) fixed es (initState 0 ps)) with
  | error e => rfl
  | ok r =>
    simp only [Except.map]
    rw [(iterStates_equivariant act Good hlin hbox hgood solve fixed es (initState 0 ps) hs0 _).1]

end generic

/-! ## SE(2) graphs -/

def actSE2 (T : Fin 3 → ℝ) : Pose ℝ → Pose ℝ
  | .se2 p => .se2 (PoseSE2.add T p)
  | q => q

def IsSE2 : Pose ℝ → Prop
  | .se2 _ => True
  | _ => False

theorem lineariseAt_SE2 (T : Fin 3 → ℝ) (g0 g1 : Nat) (p0 p1 : Pose ℝ) (e : Edge ℝ) (h0 : IsSE2 p0) (h1 : IsSE2 p1) :
    lineariseAt g0 g1 (actSE2 T p0) (actSE2 T p1) e = lineariseAt g0 g1 p0 p1 e := by
  cases p0 <;> simp only [IsSE2] at h0
  cases p1 <;> simp only [IsSE2] at h1
  rename_i a b
  cases e with
  | odo i j z info =>
    cases z <;> simp only [lineariseAt, actSE2]
    rw [odometry_SE2_frame, jacobians_frame_odometry_SE2_v0, jacobians_frame_odometry_SE2_v1]
  | lm i j z off info =>
    cases z <;> cases off <;> simp only [lineariseAt, actSE2]

theorem boxplus_SE2 (T : Fin 3 → ℝ) (p : Pose ℝ) (δ : Nat → ℝ) (h : IsSE2 p) :
    Pose.boxplus (actSE2 T p) δ = actSE2 T (Pose.boxplus p δ) := by
  cases p <;> simp only [IsSE2] at h
  simp only [Pose.boxplus, stored_eq, actSE2, PoseSE2.iadd_boxplus, boxplus_frame_SE2]

theorem good_SE2 (p : Pose ℝ) (δ : Nat → ℝ) (h : IsSE2 p) : IsSE2 (Pose.boxplus p δ) := by
  cases p <;> simp only [IsSE2] at h
  simp [Pose.boxplus, IsSE2]

/-- **SE(2) pose graphs: the `k`-iteration trajectory of the transformed graph is the transform of the trajectory** -/
theorem trajectory_frame_SE2 (T : Fin 3 → ℝ) (solve : (Nat → Nat → ℝ) → (Nat → ℝ) → (Nat → ℝ)) (fixed : List Nat)
    (es : List (Edge ℝ)) (k : Nat) (s : GState ℝ) (hs : ∀ v ∈ s, IsSE2 v.2.2) :
    steps solve fixed es k (actState (actSE2 T) s) = (steps solve fixed es k s).map (actState (actSE2 T)) :=
  steps_equivariant (actSE2 T) IsSE2 (lineariseAt_SE2 T) (boxplus_SE2 T) good_SE2 solve fixed es k s hs

/-! ## SE(3) graphs (unit quaternions) -/

def actSE3 (T : Fin 7 → ℝ) : Pose ℝ → Pose ℝ
  | .se3 p => .se3 (PoseSE3.add T p)
  | q => q

def IsUnitSE3 : Pose ℝ → Prop
  | .se3 p => C09.Unit4 p
  | _ => False

theorem lineariseAt_SE3 (T : Fin 7 → ℝ) (hT : C09.Unit4 T) (g0 g1 : Nat) (p0 p1 : Pose ℝ) (e : Edge ℝ)
    (h0 : IsUnitSE3 p0) (h1 : IsUnitSE3 p1) :
    lineariseAt g0 g1 (actSE3 T p0) (actSE3 T p1) e = lineariseAt g0 g1 p0 p1 e := by
  cases p0 <;> simp only [IsUnitSE3] at h0
  cases p1 <;> simp only [IsUnitSE3] at h1
  rename_i a b
  cases e with
  | odo i j z info =>
    cases z <;> simp only [lineariseAt, actSE3]
    rw [odometry_SE3_frame T _ a b hT h0, jacobians_frame_odometry_SE3_v0 T _ a b hT h0,
      jacobians_frame_odometry_SE3_v1 T _ a b hT h0 h1]
  | lm i j z off info =>
    cases z <;> cases off <;> simp only [lineariseAt, actSE3]

theorem boxplus_SE3 (T : Fin 7 → ℝ) (hT : C09.Unit4 T) (p : Pose ℝ) (δ : Nat → ℝ) (h : IsUnitSE3 p) :
    Pose.boxplus (actSE3 T p) δ = actSE3 T (Pose.boxplus p δ) := by
  cases p <;> simp only [IsUnitSE3] at h
  simp only [Pose.boxplus, stored_eq, actSE3, PoseSE3.iadd_boxplus, boxplus_frame_SE3 T _ _ hT h]

theorem good_SE3 (p : Pose ℝ) (δ : Nat → ℝ) (h : IsUnitSE3 p) : IsUnitSE3 (Pose.boxplus p δ) := by
  cases p <;> simp only [IsUnitSE3] at h
  simp only [Pose.boxplus, stored_eq, IsUnitSE3, PoseSE3.iadd_boxplus]
  exact unit_boxplus _ _ h

/-- **SE(3) pose graphs with unit quaternions** -/
theorem trajectory_frame_SE3 (T : Fin 7 → ℝ) (hT : C09.Unit4 T) (solve : (Nat → Nat → ℝ) → (Nat → ℝ) → (Nat → ℝ))
    (fixed : List Nat) (es : List (Edge ℝ)) (k : Nat) (s : GState ℝ) (hs : ∀ v ∈ s, IsUnitSE3 v.2.2) :
    steps solve fixed es k (actState (actSE3 T) s) = (steps solve fixed es k s).map (actState (actSE3 T)) :=
  steps_equivariant (actSE3 T) IsUnitSE3 (lineariseAt_SE3 T hT) (boxplus_SE3 T hT) good_SE3 solve fixed es k s hs

/-! ## R² and R³ graphs (every edge class, landmark edges included) -/

def actR2 (T : Fin 2 → ℝ) : Pose ℝ → Pose ℝ
  | .r2 p => .r2 (PoseR2.add T p)
  | q => q

def IsR2 : Pose ℝ → Prop
  | .r2 _ => True
  | _ => False

theorem lineariseAt_R2 (T : Fin 2 → ℝ) (g0 g1 : Nat) (p0 p1 : Pose ℝ) (e : Edge ℝ) (h0 : IsR2 p0) (h1 : IsR2 p1) :
    lineariseAt g0 g1 (actR2 T p0) (actR2 T p1) e = lineariseAt g0 g1 p0 p1 e := by
  cases p0 <;> simp only [IsR2] at h0
  cases p1 <;> simp only [IsR2] at h1
  rename_i a b
  cases e with
  | odo i j z info =>
    cases z <;> simp only [lineariseAt, actR2]
    rw [odometry_R2_frame, jacobians_frame_odometry_R2_v0, jacobians_frame_odometry_R2_v1]
  | lm i j z off info =>
    cases z <;> cases off <;> simp only [lineariseAt, actR2]
    rw [landmark_R2_frame, jacobians_frame_landmark_R2_v0, jacobians_frame_landmark_R2_v1]

theorem boxplus_R2 (T : Fin 2 → ℝ) (p : Pose ℝ) (δ : Nat → ℝ) (h : IsR2 p) :
    Pose.boxplus (actR2 T p) δ = actR2 T (Pose.boxplus p δ) := by
  cases p <;> simp only [IsR2] at h
  simp only [Pose.boxplus, stored_eq, actR2, PoseR2.iadd_boxplus, boxplus_frame_R2]

theorem good_R2 (p : Pose ℝ) (δ : Nat → ℝ) (h : IsR2 p) : IsR2 (Pose.boxplus p δ) := by
  cases p <;> simp only [IsR2] at h
  simp [Pose.boxplus, IsR2]

theorem trajectory_frame_R2 (T : Fin 2 → ℝ) (solve : (Nat → Nat → ℝ) → (Nat → ℝ) → (Nat → ℝ)) (fixed : List Nat)
    (es : List (Edge ℝ)) (k : Nat) (s : GState ℝ) (hs : ∀ v ∈ s, IsR2 v.2.2) :
    steps solve fixed es k (actState (actR2 T) s) = (steps solve fixed es k s).map (actState (actR2 T)) :=
  steps_equivariant (actR2 T) IsR2 (lineariseAt_R2 T) (boxplus_R2 T) good_R2 solve fixed es k s hs

def actR3 (T : Fin 3 → ℝ) : Pose ℝ → Pose ℝ
  | .r3 p => .r3 (PoseR3.add T p)
  | q => q

def IsR3 : Pose ℝ → Prop
  | .r3 _ => True
  | _ => False

theorem lineariseAt_R3 (T : Fin 3 → ℝ) (g0 g1 : Nat) (p0 p1 : Pose ℝ) (e : Edge ℝ) (h0 : IsR3 p0) (h1 : IsR3 p1) :
    lineariseAt g0 g1 (actR3 T p0) (actR3 T p1) e = lineariseAt g0 g1 p0 p1 e := by
  cases p0 <;> simp only [IsR3] at h0
  cases p1 <;> simp only [IsR3] at h1
  rename_i a b
  cases e with
  | odo i j z info =>
    cases z <;> simp only [lineariseAt, actR3]
    rw [odometry_R3_frame, jacobians_frame_odometry_R3_v0, jacobians_frame_odometry_R3_v1]
  | lm i j z off info =>
    cases z <;> cases off <;> simp only [lineariseAt, actR3]
    rw [landmark_R3_frame, jacobians_frame_landmark_R3_v0, jacobians_frame_landmark_R3_v1]

theorem boxplus_R3 (T : Fin 3 → ℝ) (p : Pose ℝ) (δ : Nat → ℝ) (h : IsR3 p) :
    Pose.boxplus (actR3 T p) δ = actR3 T (Pose.boxplus p δ) := by
  cases p <;> simp only [IsR3] at h
  simp only [Pose.boxplus, stored_eq, actR3, PoseR3.iadd_boxplus, boxplus_frame_R3]

theorem good_R3 (p : Pose ℝ) (δ : Nat → ℝ) (h : IsR3 p) : IsR3 (Pose.boxplus p δ) := by
  cases p <;> simp only [IsR3] at h
  simp [Pose.boxplus, IsR3]

theorem trajectory_frame_R3 (T : Fin 3 → ℝ) (solve : (Nat → Nat → ℝ) → (Nat → ℝ) → (Nat → ℝ)) (fixed : List Nat)
    (es : List (Edge ℝ)) (k : Nat) (s : GState ℝ) (hs : ∀ v ∈ s, IsR3 v.2.2) :
    steps solve fixed es k (actState (actR3 T) s) = (steps solve fixed es k s).map (actState (actR3 T)) :=
  steps_equivariant (actR3 T) IsR3 (lineariseAt_R3 T) (boxplus_R3 T) good_R3 solve fixed es k s hs

/-! ## the whole call, per world -/

theorem cdim_actSE2 (T : Fin 3 → ℝ) (p : Pose ℝ) : (actSE2 T p).cdim = p.cdim := by cases p <;> rfl
theorem cdim_actSE3 (T : Fin 7 → ℝ) (p : Pose ℝ) : (actSE3 T p).cdim = p.cdim := by cases p <;> rfl
theorem cdim_actR2 (T : Fin 2 → ℝ) (p : Pose ℝ) : (actR2 T p).cdim = p.cdim := by cases p <;> rfl
theorem cdim_actR3 (T : Fin 3 → ℝ) (p : Pose ℝ) : (actR3 T p).cdim = p.cdim := by cases p <;> rfl

/-- **C07 for a whole call, SE(2) pose graphs**: `optimize` of the transformed graph reports exactly the same χ² values,
    iteration count and `converged`, and returns the transform of what `optimize` of the original returns -/
theorem optimize_frame_SE2 (T : Fin 3 → ℝ) (tol eps : ℝ) (maxIter : Nat) (ffp : Bool) (flags : List Bool)
    (solve : (Nat → Nat → ℝ) → (Nat → ℝ) → (Nat → ℝ)) (es : List (Edge ℝ)) (ps : List (Pose ℝ)) (hps : ∀ p ∈ ps, IsSE2 p) :
    optimizeSolve tol eps maxIter ffp flags solve es (ps.map (actSE2 T)) =
      (optimizeSolve tol eps maxIter ffp flags solve es ps).map fun r => (r.1, r.2.1.map (actState (actSE2 T)), r.2.2) :=
  optimize_equivariant (actSE2 T) IsSE2 (lineariseAt_SE2 T) (boxplus_SE2 T) good_SE2 (cdim_actSE2 T) tol eps maxIter ffp flags solve es ps hps

theorem optimize_frame_SE3 (T : Fin 7 → ℝ) (hT : C09.Unit4 T) (tol eps : ℝ) (maxIter : Nat) (ffp : Bool) (flags : List Bool)
    (solve : (Nat → Nat → ℝ) → (Nat → ℝ) → (Nat → ℝ)) (es : List (Edge ℝ)) (ps : List (Pose ℝ)) (hps : ∀ p ∈ ps, IsUnitSE3 p) :
    optimizeSolve tol eps maxIter ffp flags solve es (ps.map (actSE3 T)) =
      (optimizeSolve tol eps maxIter ffp flags solve es ps).map fun r => (r.1, r.2.1.map (actState (actSE3 T)), r.2.2) :=
  optimize_equivariant (actSE3 T) IsUnitSE3 (lineariseAt_SE3 T hT) (boxplus_SE3 T hT) good_SE3 (cdim_actSE3 T) tol eps maxIter ffp flags solve es ps hps

theorem optimize_frame_R2 (T : Fin 2 → ℝ) (tol eps : ℝ) (maxIter : Nat) (ffp : Bool) (flags : List Bool)
    (solve : (Nat → Nat → ℝ) → (Nat → ℝ) → (Nat → ℝ)) (es : List (Edge ℝ)) (ps : List (Pose ℝ)) (hps : ∀ p ∈ ps, IsR2 p) :
    optimizeSolve tol eps maxIter ffp flags solve es (ps.map (actR2 T)) =
      (optimizeSolve tol eps maxIter ffp flags solve es ps).map fun r => (r.1, r.2.1.map (actState (actR2 T)), r.2.2) :=
  optimize_equivariant (actR2 T) IsR2 (lineariseAt_R2 T) (boxplus_R2 T) good_R2 (cdim_actR2 T) tol eps maxIter ffp flags solve es ps hps

theorem optimize_frame_R3 (T : Fin 3 → ℝ) (tol eps : ℝ) (maxIter : Nat) (ffp : Bool) (flags : List Bool)
    (solve : (Nat → Nat → ℝ) → (Nat → ℝ) → (Nat → ℝ)) (es : List (Edge ℝ)) (ps : List (Pose ℝ)) (hps : ∀ p ∈ ps, IsR3 p) :
    optimizeSolve tol eps maxIter ffp flags solve es (ps.map (actR3 T)) =
      (optimizeSolve tol eps maxIter ffp flags solve es ps).map fun r => (r.1, r.2.1.map (actState (actR3 T)), r.2.2) :=
  optimize_equivariant (actR3 T) IsR3 (lineariseAt_R3 T) (boxplus_R3 T) good_R3 (cdim_actR3 T) tol eps maxIter ffp flags solve es ps hps

end
end GraphSlam.Props.E2E
