import GraphSlam.Model.GraphIter
import GraphSlam.Props.C03.Assembled
import GraphSlam.Props.C06.Fixed

/-!
# End to end (C03, C06): what `Model.system` / `Model.step` compute on a typed graph

`Props/C03` proves the assembly correct for *any* list of per-edge linearisations; `Props/C01` proves the generated
`calc_jacobians_*` are the derivatives of the generated `calc_error_*`.  Here both are attached to the typed-graph model
of a whole iteration:

* `layout_initState`   — the gradient indices `Graph._initialize` assigns form a layout (disjoint index ranges);
* `linearise_wf`, `linearise_nodup`, `linearise_info` — the linearisation of a (well-typed) edge names vertices of the
  layout with the right block sizes, two different ones when the edge joins two different vertices, and carries the
  edge's information matrix;
* `system_hessian`, `system_gradient` — hence the dense `H` and `b` that `Model.system` returns are, block by block,
  `Σ_edges J̄ᵀ Ω J̄` and `Σ_edges J̄ᵀ Ω e` over the *typed* edges' own errors and Jacobians, with the rows and columns of
  fixed vertices replaced by identity / zero;
* `step_fixed`, `steps_fixed` — a fixed vertex keeps its estimate through any number of iterations, for any solver
  behaviour, also at this level.
-/

namespace GraphSlam.Props.E2E
open GraphSlam GraphSlam.Gen GraphSlam.Model GraphSlam.Props.C03
set_option linter.unusedSimpArgs false
set_option linter.unusedVariables false
noncomputable section

theorem cdim_pos (p : Pose ℝ) : 0 < p.cdim := by cases p <;> simp [Pose.cdim]

theorem layoutOf_initState (g : Nat) (ps : List (Pose ℝ)) :
    layoutOf (initState g ps) = prefixLayout g (ps.map Pose.cdim) := by
  induction ps generalizing g with
  | nil => rfl
  | cons p ps ih =>
    simp only [initState, layoutOf, List.map_cons, prefixLayout]
    congr 1
    exact ih (g + p.cdim)

/-- the gradient indices assigned by the constructor form a layout -/
theorem layout_initState (g : Nat) (ps : List (Pose ℝ)) : Layout (layoutOf (initState g ps)) := by
  rw [layoutOf_initState]
  apply prefixLayout_layout
  intro d hd
  rw [List.mem_map] at hd
  obtain ⟨p, _, rfl⟩ := hd
  exact cdim_pos p

/-- the stored compact dimension is the class's -/
def DimsOK (s : GState ℝ) : Prop := ∀ v ∈ s, v.2.1 = v.2.2.cdim

theorem dimsOK_initState (g : Nat) (ps : List (Pose ℝ)) : DimsOK (initState g ps) := by
  induction ps generalizing g with
  | nil => intro v hv; simp [initState] at hv
  | cons p ps ih =>
    intro v hv
    simp only [initState, List.mem_cons] at hv
    rcases hv with rfl | hv
    · rfl
    · exact ih _ v hv

/-- gradient indices strictly increase along the vertex list -/
theorem initState_pairwise (g : Nat) (ps : List (Pose ℝ)) : (initState g ps).Pairwise (fun v w => v.1 < w.1) := by
  induction ps generalizing g with
  | nil => simp [initState]
  | cons p ps ih =>
    simp only [initState, List.pairwise_cons]
    refine ⟨?_, ih _⟩
    intro w hw
    have hmem : (w.1, w.2.1) ∈ layoutOf (initState (g + p.cdim) ps) := by
      simp only [layoutOf, List.mem_map]; exact ⟨w, hw, rfl⟩
    rw [layoutOf_initState] at hmem
    have := prefixLayout_ge _ _ _ hmem
    have hp := cdim_pos p
    simp only at this ⊢
    omega

theorem initState_index_ne (g : Nat) (ps : List (Pose ℝ)) (i j : Nat) (hij : i ≠ j) (v w : Nat × Nat × Pose ℝ)
    (hv : (initState g ps)[i]? = some v) (hw : (initState g ps)[j]? = some w) : v.1 ≠ w.1 := by
  have hp := initState_pairwise g ps
  rw [List.pairwise_iff_getElem] at hp
  obtain ⟨hi, rfl⟩ := List.getElem?_eq_some_iff.mp hv
  obtain ⟨hj, rfl⟩ := List.getElem?_eq_some_iff.mp hw
  rcases Nat.lt_or_gt_of_ne hij with h | h
  · exact Nat.ne_of_lt (hp i j hi hj h)
  · exact (Nat.ne_of_lt (hp j i hj hi h)).symm

/-! ### what `linearise` returns -/

theorem lineariseAt_verts (g0 g1 : Nat) (p0 p1 : Pose ℝ) (e : Edge ℝ) (lin : EdgeLin ℝ)
    (h : lineariseAt g0 g1 p0 p1 e = some lin) :
    lin.verts.map (fun x => (x.1, x.2.1)) = [(g0, p0.cdim), (g1, p1.cdim)] ∧
      (∀ a b, lin.info a b = e.info a b) := by
  cases e with
  | odo i j z info =>
    cases z <;> cases p0 <;> cases p1 <;> simp only [lineariseAt] at h <;>
      first
      | (simp only [Option.some.injEq] at h; subst h; simp [mkLin, Pose.cdim, Edge.info])
      | (cases h)
  | lm i j z off info =>
    cases z <;> cases off <;> cases p0 <;> cases p1 <;> simp only [lineariseAt] at h <;>
      first
      | (simp only [Option.some.injEq] at h; subst h; simp [mkLin, Pose.cdim, Edge.info])
      | (cases h)

theorem linearise_spec (s : GState ℝ) (e : Edge ℝ) (lin : EdgeLin ℝ) (h : linearise s e = some lin) :
    ∃ v0 v1, s[e.ends.1]? = some v0 ∧ s[e.ends.2]? = some v1 ∧
      lin.verts.map (fun x => (x.1, x.2.1)) = [(v0.1, v0.2.2.cdim), (v1.1, v1.2.2.cdim)] ∧
      (∀ a b, lin.info a b = e.info a b) := by
  unfold linearise at h
  cases h0 : s[e.ends.1]? with
  | none => rw [h0] at h; simp at h
  | some v0 =>
    cases h1 : s[e.ends.2]? with
    | none => rw [h0, h1] at h; simp at h
    | some v1 =>
      rw [h0, h1] at h
      obtain ⟨g0, d0, p0⟩ := v0
      obtain ⟨g1, d1, p1⟩ := v1
      simp only at h
      have := lineariseAt_verts g0 g1 p0 p1 e lin h
      exact ⟨_, _, rfl, rfl, this.1, this.2⟩

/-- every vertex a linearised edge names is a vertex of the layout, with the layout's block size -/
theorem linearise_wf (s : GState ℝ) (hd : DimsOK s) (e : Edge ℝ) (lin : EdgeLin ℝ) (h : linearise s e = some lin) :
    ∀ x ∈ lin.verts, (x.1, x.2.1) ∈ layoutOf s := by
  obtain ⟨v0, v1, h0, h1, hv, _⟩ := linearise_spec s e lin h
  intro x hx
  have hx' : (x.1, x.2.1) ∈ lin.verts.map (fun x => (x.1, x.2.1)) := List.mem_map.mpr ⟨x, hx, rfl⟩
  rw [hv] at hx'
  simp only [List.mem_cons, List.not_mem_nil, or_false] at hx'
  have m0 := List.mem_of_getElem? h0
  have m1 := List.mem_of_getElem? h1
  rcases hx' with hx' | hx'
  · rw [hx', ← hd v0 m0]; exact List.mem_map.mpr ⟨v0, m0, rfl⟩
  · rw [hx', ← hd v1 m1]; exact List.mem_map.mpr ⟨v1, m1, rfl⟩

theorem linearise_nodup (g : Nat) (ps : List (Pose ℝ)) (e : Edge ℝ) (hne : e.ends.1 ≠ e.ends.2) (lin : EdgeLin ℝ)
    (h : linearise (initState g ps) e = some lin) : (lin.verts.map (·.1)).Nodup := by
  obtain ⟨v0, v1, h0, h1, hv, _⟩ := linearise_spec _ e lin h
  have : lin.verts.map (·.1) = (lin.verts.map (fun x => (x.1, x.2.1))).map (·.1) := by
    rw [List.map_map]; rfl
  rw [this, hv]
  simp only [List.map_cons, List.map_nil, List.nodup_cons, List.mem_cons, List.not_mem_nil, or_false, not_false_eq_true,
    List.nodup_nil, and_true]
  exact initState_index_ne g ps _ _ hne v0 v1 h0 h1

theorem allSome_mem {α : Type} (l : List (Option α)) (r : List α) (h : allSome l = some r) :
    ∀ x ∈ r, some x ∈ l := by
  induction l generalizing r with
  | nil => simp [allSome] at h; subst h; simp
  | cons o l ih =>
    cases o with
    | none => simp [allSome] at h
    | some a =>
      simp only [allSome, Option.map_eq_some_iff] at h
      obtain ⟨r', hr', rfl⟩ := h
      intro x hx
      simp only [List.mem_cons] at hx ⊢
      rcases hx with rfl | hx
      · left; rfl
      · right; exact ih r' hr' x hx

/-- a well-formed typed graph: what the constructor guarantees (C18) plus symmetric information matrices -/
structure GraphOK (ps : List (Pose ℝ)) (es : List (Edge ℝ)) : Prop where
  distinct : ∀ e ∈ es, e.ends.1 ≠ e.ends.2
  symm : ∀ e ∈ es, ∀ a b, e.info a b = e.info b a

theorem lins_ok (ps : List (Pose ℝ)) (es : List (Edge ℝ)) (hok : GraphOK ps es) (lins : List (EdgeLin ℝ))
    (h : allSome (es.map (linearise (initState 0 ps))) = some lins) :
    EdgesWF (layoutOf (initState 0 ps)) lins ∧ (∀ l ∈ lins, ∀ a b, l.info a b = l.info b a) ∧
      (∀ l ∈ lins, (l.verts.map (·.1)).Nodup) := by
  have hmem := allSome_mem _ _ h
  refine ⟨?_, ?_, ?_⟩
  · intro l hl
    obtain ⟨e, he, hle⟩ := List.mem_map.mp (hmem l hl)
    exact linearise_wf _ (dimsOK_initState 0 ps) e l hle
  · intro l hl a b
    obtain ⟨e, he, hle⟩ := List.mem_map.mp (hmem l hl)
    obtain ⟨_, _, _, _, _, hinfo⟩ := linearise_spec _ e l hle
    rw [hinfo, hinfo]; exact hok.symm e he a b
  · intro l hl
    obtain ⟨e, he, hle⟩ := List.mem_map.mp (hmem l hl)
    exact linearise_nodup 0 ps e (hok.distinct e he) l hle

/-- **the dense Hessian of the typed-graph model is `Σ_edges J̄ᵀ Ω J̄`, with identity / zero at fixed vertices** -/
theorem system_hessian (fixed : List Nat) (ps : List (Pose ℝ)) (es : List (Edge ℝ)) (hok : GraphOK ps es)
    (r : ℝ × (Nat → ℝ) × (Nat → Nat → ℝ)) (h : system fixed es (initState 0 ps) = some r)
    (q : Pos (layoutOf (initState 0 ps))) :
    ∃ lins, allSome (es.map (linearise (initState 0 ps))) = some lins ∧
      r.2.2 (q.u.1 + q.s) (q.w.1 + q.t) =
        if q.u.1 ∈ fixed ∨ q.w.1 ∈ fixed then (if q.u.1 = q.w.1 then eyeR q.s q.t else 0)
        else (lins.map fun e => (e.verts.map fun x => (e.verts.map fun y => ordered e q.u.1 q.w.1 q.s q.t x y).sum).sum).sum := by
  unfold system at h
  cases hl : allSome (es.map (linearise (initState 0 ps))) with
  | none => rw [hl] at h; simp at h
  | some lins =>
    rw [hl] at h
    simp only [Option.map_some, Option.some.injEq] at h
    subst h
    obtain ⟨hwf, hsym, hnd⟩ := lins_ok ps es hok lins hl
    exact ⟨lins, rfl, assembled_hessian (layout_initState 0 ps) fixed lins hwf hsym hnd q⟩

/-- **the dense gradient of the typed-graph model is `Σ_edges J̄ᵀ Ω e`, zero at fixed vertices** -/
theorem system_gradient (fixed : List Nat) (ps : List (Pose ℝ)) (es : List (Edge ℝ)) (hok : GraphOK ps es)
    (r : ℝ × (Nat → ℝ) × (Nat → Nat → ℝ)) (h : system fixed es (initState 0 ps) = some r)
    (u : Nat × Nat) (hu : u ∈ layoutOf (initState 0 ps)) (s : Nat) (hs : s < u.2) :
    ∃ lins, allSome (es.map (linearise (initState 0 ps))) = some lins ∧
      r.2.1 (u.1 + s) =
        if u.1 ∈ fixed then 0
        else (lins.map fun e => (e.verts.map fun x =>
                if x.1 = u.1 then (gradContrib e.m e.err e.info x.2.1 x.2.2).get s else 0).sum).sum := by
  unfold system at h
  cases hl : allSome (es.map (linearise (initState 0 ps))) with
  | none => rw [hl] at h; simp at h
  | some lins =>
    rw [hl] at h
    simp only [Option.map_some, Option.some.injEq] at h
    subst h
    obtain ⟨hwf, _, _⟩ := lins_ok ps es hok lins hl
    exact ⟨lins, rfl, assembled_gradient (layout_initState 0 ps) fixed lins hwf u hu s hs⟩

/-! ### fixed vertices through whole iterations -/

theorem step_fixed (solve : (Nat → Nat → ℝ) → (Nat → ℝ) → (Nat → ℝ)) (fixed : List Nat) (es : List (Edge ℝ))
    (s s' : GState ℝ) (h : step solve fixed es s = some s') (k : Nat) (v : Nat × Nat × Pose ℝ)
    (hv : s[k]? = some v) (hf : v.1 ∈ fixed) : s'[k]? = some v := by
  unfold step at h
  cases hsys : system fixed es s with
  | none => rw [hsys] at h; simp at h
  | some r =>
    rw [hsys] at h
    simp only [Option.map_some, Option.some.injEq] at h
    subst h
    exact C06.applyDx_fixed Pose.boxplus fixed s _ k v hv hf

end
end GraphSlam.Props.E2E

namespace GraphSlam.Props.E2E
open GraphSlam GraphSlam.Gen GraphSlam.Model GraphSlam.Props.C03
set_option linter.unusedSimpArgs false
set_option linter.unusedVariables false
noncomputable section

/-- `steps`-level version: a fixed vertex keeps its estimate through `k` whole iterations, whatever the solver returns -/
theorem iterate_fixed (solve : (Nat → Nat → ℝ) → (Nat → ℝ) → (Nat → ℝ)) (fixed : List Nat) (es : List (Edge ℝ))
    (run : Nat → GState ℝ → Option (GState ℝ))
    (h0 : ∀ s, run 0 s = some s) (hs : ∀ k s, run (k + 1) s = (step solve fixed es s).bind (run k))
    (n : Nat) (s s' : GState ℝ) (h : run n s = some s') (k : Nat) (v : Nat × Nat × Pose ℝ)
    (hv : s[k]? = some v) (hf : v.1 ∈ fixed) : s'[k]? = some v := by
  induction n generalizing s with
  | zero => rw [h0] at h; cases h; exact hv
  | succ n ih =>
    rw [hs] at h
    cases hst : step solve fixed es s with
    | none => rw [hst] at h; simp at h
    | some s1 =>
      rw [hst] at h
      exact ih s1 h (step_fixed solve fixed es s s1 hst k v hv hf)

/-! ### the order of the edge list does not matter (C08) -/

theorem allSome_perm {α : Type} {l l' : List (Option α)} (hp : l.Perm l') :
    (allSome l = none ∧ allSome l' = none) ∨ ∃ r r', allSome l = some r ∧ allSome l' = some r' ∧ r.Perm r' := by
  induction hp with
  | nil => right; exact ⟨[], [], rfl, rfl, List.Perm.refl _⟩
  | cons x _ ih =>
    cases x with
    | none => left; exact ⟨rfl, rfl⟩
    | some a =>
      rcases ih with ⟨h1, h2⟩ | ⟨r, r', h1, h2, hp⟩
      · left; simp [allSome, h1, h2]
      · right; exact ⟨a :: r, a :: r', by simp [allSome, h1], by simp [allSome, h2], hp.cons a⟩
  | swap x y l =>
    cases x <;> cases y <;> cases h : allSome l <;> simp [allSome, h]
    exact List.Perm.swap _ _ _
  | trans _ _ ih1 ih2 =>
    rcases ih1 with ⟨h1, h2⟩ | ⟨r, r', h1, h2, hp⟩
    · rcases ih2 with ⟨h3, h4⟩ | ⟨r2, r2', h3, h4, hp2⟩
      · left; exact ⟨h1, h4⟩
      · rw [h2] at h3; cases h3
    · rcases ih2 with ⟨h3, h4⟩ | ⟨r2, r2', h3, h4, hp2⟩
      · rw [h2] at h3; cases h3
      · rw [h2] at h3; cases h3
        right; exact ⟨r, r2', h1, h4, hp.trans hp2⟩

/-- **permuting the edge list of a well-formed typed graph leaves every entry of the dense Hessian unchanged** -/
theorem system_hessian_perm (fixed : List Nat) (ps : List (Pose ℝ)) (es es' : List (Edge ℝ)) (hp : es.Perm es')
    (hok : GraphOK ps es) (r r' : ℝ × (Nat → ℝ) × (Nat → Nat → ℝ))
    (h : system fixed es (initState 0 ps) = some r) (h' : system fixed es' (initState 0 ps) = some r')
    (q : Pos (layoutOf (initState 0 ps))) :
    r.2.2 (q.u.1 + q.s) (q.w.1 + q.t) = r'.2.2 (q.u.1 + q.s) (q.w.1 + q.t) := by
  have hok' : GraphOK ps es' := ⟨fun e he => hok.distinct e (hp.symm.subset he), fun e he => hok.symm e (hp.symm.subset he)⟩
  obtain ⟨lins, hl, hH⟩ := system_hessian fixed ps es hok r h q
  obtain ⟨lins', hl', hH'⟩ := system_hessian fixed ps es' hok' r' h' q
  rw [hH, hH']
  rcases allSome_perm (hp.map (linearise (initState 0 ps))) with ⟨h1, _⟩ | ⟨a, b, h1, h2, hperm⟩
  · rw [hl] at h1; cases h1
  · rw [hl] at h1; rw [hl'] at h2; cases h1; cases h2
    split
    · rfl
    · exact (hperm.map _).sum_eq

/-- … and every entry of the dense gradient -/
theorem system_gradient_perm (fixed : List Nat) (ps : List (Pose ℝ)) (es es' : List (Edge ℝ)) (hp : es.Perm es')
    (hok : GraphOK ps es) (r r' : ℝ × (Nat → ℝ) × (Nat → Nat → ℝ))
    (h : system fixed es (initState 0 ps) = some r) (h' : system fixed es' (initState 0 ps) = some r')
    (u : Nat × Nat) (hu : u ∈ layoutOf (initState 0 ps)) (s : Nat) (hs : s < u.2) :
    r.2.1 (u.1 + s) = r'.2.1 (u.1 + s) := by
  have hok' : GraphOK ps es' := ⟨fun e he => hok.distinct e (hp.symm.subset he), fun e he => hok.symm e (hp.symm.subset he)⟩
  obtain ⟨lins, hl, hG⟩ := system_gradient fixed ps es hok r h u hu s hs
  obtain ⟨lins', hl', hG'⟩ := system_gradient fixed ps es' hok' r' h' u hu s hs
  rw [hG, hG']
  rcases allSome_perm (hp.map (linearise (initState 0 ps))) with ⟨h1, _⟩ | ⟨a, b, h1, h2, hperm⟩
  · rw [hl] at h1; cases h1
  · rw [hl] at h1; rw [hl'] at h2; cases h1; cases h2
    split
    · rfl
    · exact (hperm.map _).sum_eq

end
end GraphSlam.Props.E2E
