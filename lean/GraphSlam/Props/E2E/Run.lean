import GraphSlam.Model.Run
import GraphSlam.Props.C12.Ctl
import GraphSlam.Props.C06.Fixed

/-!
# End to end (C12, C06): a whole `optimize()` call on a typed graph

`Model.optimizeRunOf` composes the control model with the iteration model, for an arbitrary per-iteration state map
(`Model.optimizeRun`: recorded solver outputs, what the driver executes; `Model.optimizeSolve`: a solver function).  For
every tolerance, iteration limit ≥ 1, `fix_first_pose`, flags, solver behaviour, edge list and vertex list — over any
scalar type, so also with the `Float` comparisons the driver executes (NaN compares false):

* `optimizeRunOf_spec`      — the call returns; `num_iterations` is the first index at which the documented test fires on
                              the χ² values **of the states actually visited**, else `max_iter`; the returned state is the
                              state after exactly `num_iterations` updates; `initial_chi2` / `final_chi2` are the χ² of the
                              first / the returned state; the flags are those after `fix_first_pose`;
* `final_chi2_is_calc_chi2` — `final_chi2` equals `calc_chi2()` of the returned graph;
* `iterStates_fixed`        — a fixed vertex has the same estimate in every visited state, whatever the solver returned;
* `iterStates_add`          — no hidden state: the state after `k₁ + k₂` updates is the state after `k₂` updates started
                              from the state after `k₁` (with the iteration maps shifted accordingly).
-/

namespace GraphSlam.Props.E2E
open GraphSlam GraphSlam.Model GraphSlam.Props.C12

variable {K : Type} [ScalarF K]

/-- the fixed index set of a call -/
def fixedOf (ffp : Bool) (flags : List Bool) (ps : List (Pose K)) : List Nat :=
  fixedIndices (applyFixFirst ffp flags) ((initState 0 ps).map (·.1))

theorem optimizeRunOf_spec (tol eps : K) (maxIter : Nat) (hm : 0 < maxIter) (ffp : Bool) (flags : List Bool)
    (stepFn : List Nat → Nat → GState K → Option (GState K)) (es : List (Edge K)) (ps : List (Pose K)) :
    ∃ r, optimizeRunOf tol eps maxIter ffp flags stepFn es ps =
        .ok (r, iterStates (stepFn (fixedOf ffp flags ps)) (initState 0 ps)
                  (endIndex tol eps (chi2SeqOf (stepFn (fixedOf ffp flags ps)) (fixedOf ffp flags ps) es (initState 0 ps)) maxIter),
             applyFixFirst ffp flags) ∧
      r.numIterations = some (endIndex tol eps (chi2SeqOf (stepFn (fixedOf ffp flags ps)) (fixedOf ffp flags ps) es (initState 0 ps)) maxIter) ∧
      (r.converged = true ↔ stop tol eps (chi2SeqOf (stepFn (fixedOf ffp flags ps)) (fixedOf ffp flags ps) es (initState 0 ps))
          (endIndex tol eps (chi2SeqOf (stepFn (fixedOf ffp flags ps)) (fixedOf ffp flags ps) es (initState 0 ps)) maxIter) = true) ∧
      r.initialChi2 = some (chi2SeqOf (stepFn (fixedOf ffp flags ps)) (fixedOf ffp flags ps) es (initState 0 ps) 0) ∧
      r.finalChi2 = some (chi2SeqOf (stepFn (fixedOf ffp flags ps)) (fixedOf ffp flags ps) es (initState 0 ps)
          (endIndex tol eps (chi2SeqOf (stepFn (fixedOf ffp flags ps)) (fixedOf ffp flags ps) es (initState 0 ps)) maxIter)) := by
  obtain ⟨r, hr, hn, hc, hi, hf, _, _⟩ :=
    report_fields tol eps (chi2SeqOf (stepFn (fixedOf ffp flags ps)) (fixedOf ffp flags ps) es (initState 0 ps)) maxIter hm
  refine ⟨r, ?_, hn, hc, hi, hf⟩
  unfold optimizeRunOf
  simp only [fixedOf] at hr hn ⊢
  rw [hr]
  simp only [hn, Option.getD_some]

/-- χ² of a visited, well-typed state is what the control loop saw at that index -/
theorem chi2SeqOf_eq (stepFn : Nat → GState K → Option (GState K)) (fixed : List Nat) (es : List (Edge K))
    (s0 s : GState K) (i : Nat) (x : K)
    (hs : iterStates stepFn s0 i = some s) (hx : chi2At fixed es s = some x) :
    chi2SeqOf stepFn fixed es s0 i = x := by
  unfold chi2SeqOf
  rw [hs]
  simp [hx]

/-- **`final_chi2` equals `calc_chi2()` of the returned graph** -/
theorem final_chi2_is_calc_chi2 (tol eps : K) (maxIter : Nat) (hm : 0 < maxIter) (ffp : Bool) (flags : List Bool)
    (stepFn : List Nat → Nat → GState K → Option (GState K)) (es : List (Edge K)) (ps : List (Pose K))
    (r : Report K) (st : GState K) (fl : List Bool) (x : K)
    (h : optimizeRunOf tol eps maxIter ffp flags stepFn es ps = .ok (r, some st, fl))
    (hx : chi2At (fixedOf ffp flags ps) es st = some x) : r.finalChi2 = some x := by
  obtain ⟨r', hr', _, _, _, hf⟩ := optimizeRunOf_spec tol eps maxIter hm ffp flags stepFn es ps
  rw [hr'] at h
  simp only [Except.ok.injEq, Prod.mk.injEq] at h
  obtain ⟨rfl, hst, _⟩ := h
  rw [hf, chi2SeqOf_eq _ _ es _ st _ x hst hx]

/-! ### the visited states -/

theorem stepWith_fixed (dx : Nat → K) (fixed : List Nat) (es : List (Edge K)) (s s' : GState K)
    (h : stepWith dx fixed es s = some s') (k : Nat) (v : Nat × Nat × Pose K) (hv : s[k]? = some v) (hf : v.1 ∈ fixed) :
    s'[k]? = some v := by
  unfold stepWith at h
  cases hsys : system fixed es s with
  | none => rw [hsys] at h; simp at h
  | some r =>
    rw [hsys] at h
    simp only [Option.map_some, Option.some.injEq] at h
    subst h
    exact C06.applyDx_fixed Pose.boxplus fixed s dx k v hv hf

theorem step_fixed' (solve : (Nat → Nat → K) → (Nat → K) → (Nat → K)) (fixed : List Nat) (es : List (Edge K))
    (s s' : GState K) (h : step solve fixed es s = some s') (k : Nat) (v : Nat × Nat × Pose K)
    (hv : s[k]? = some v) (hf : v.1 ∈ fixed) : s'[k]? = some v := by
  unfold step at h
  cases hsys : system fixed es s with
  | none => rw [hsys] at h; simp at h
  | some r =>
    rw [hsys] at h
    simp only [Option.map_some, Option.some.injEq] at h
    subst h
    exact C06.applyDx_fixed Pose.boxplus fixed s _ k v hv hf

/-- **a fixed vertex has the same estimate in every visited state**, for every iteration map that leaves fixed vertices
    alone (both `stepWith dx` and `step solve` do, whatever `dx` / the solver is) -/
theorem iterStates_fixed (stepFn : Nat → GState K → Option (GState K)) (fixed : List Nat)
    (hstep : ∀ (i : Nat) (s s' : GState K), stepFn i s = some s' →
      ∀ (k : Nat) (v : Nat × Nat × Pose K), s[k]? = some v → v.1 ∈ fixed → s'[k]? = some v)
    (s0 : GState K) (i : Nat) (s : GState K) (h : iterStates stepFn s0 i = some s) (k : Nat) (v : Nat × Nat × Pose K)
    (hv : s0[k]? = some v) (hf : v.1 ∈ fixed) : s[k]? = some v := by
  induction i generalizing s with
  | zero => simp only [iterStates, Option.some.injEq] at h; subst h; exact hv
  | succ i ih =>
    simp only [iterStates] at h
    cases hp : iterStates stepFn s0 i with
    | none => rw [hp] at h; simp at h
    | some sp =>
      rw [hp] at h
      simp only [Option.bind_some] at h
      exact hstep i sp s h k v (ih sp hp) hf

theorem stateAt_fixed (dxs : Nat → Nat → K) (fixed : List Nat) (es : List (Edge K)) (s0 : GState K) (i : Nat)
    (s : GState K) (h : stateAt dxs fixed es s0 i = some s) (k : Nat) (v : Nat × Nat × Pose K)
    (hv : s0[k]? = some v) (hf : v.1 ∈ fixed) : s[k]? = some v :=
  iterStates_fixed _ fixed (fun i s s' hs => stepWith_fixed (dxs i) fixed es s s' hs) s0 i s h k v hv hf

/-- **no hidden state**: `k₁ + k₂` updates = `k₂` updates from the state after `k₁` -/
theorem iterStates_add (stepFn : Nat → GState K → Option (GState K)) (s0 : GState K) (k₁ k₂ : Nat) :
    iterStates stepFn s0 (k₁ + k₂) =
      (iterStates stepFn s0 k₁).bind fun s => iterStates (fun i => stepFn (k₁ + i)) s k₂ := by
  induction k₂ with
  | zero => simp [iterStates]
  | succ k ih =>
    rw [← Nat.add_assoc]
    simp only [iterStates]
    rw [ih]
    cases iterStates stepFn s0 k₁ with
    | none => rfl
    | some s => simp only [Option.bind_some]

end GraphSlam.Props.E2E
