import GraphSlam.Model.GraphIter
import GraphSlam.Model.Run
import GraphSlam.Props.E2E.Step

/-!
# C08 — permuting the vertex list (typed-graph model): χ², `H`, `b` correspond entry by entry

`Graph._initialize` assigns gradient indices in *list order* (`Model.initState`), so listing the same vertices in another
order moves every vertex's block of unknowns to another place in `b`, `H`, `dx`.  Edges refer to their vertices by
position in the list, so the same graph with a permuted vertex list has the edges' endpoint positions remapped.

The comparison is set up between two arbitrary optimiser states (`Model.GState`: `(gradient_index, dim, estimate)` per
list position), not only `initState 0 ps`:

* `Relayout π s s'`  — `π` maps positions of `s` bijectively to positions of `s'`, and the vertex at position `π k` of `s'`
                       has the same compact dimension and the same estimate as the vertex at position `k` of `s`
                       (its gradient index is whatever the layout of `s'` says);
* `remap π e`        — the same edge with its endpoint positions remapped;
* `StateOK s`        — the index ranges of `s` form a `Layout`, stored dimensions are the classes', distinct positions
                       have distinct gradient indices (all true of `initState g ps`: `stateOK_initState`).

Theorems (all about `Model.linearise`, `Model.system`, `Model.chi2At`):

* `linearise_relayout`        — the remapped edge linearises to the same record (error, χ², information, Jacobians) with
                                only the gradient indices replaced;
* `chi2At_relayout`           — **χ² is unchanged** (no well-formedness hypothesis at all);
* `system_isSome_relayout`    — the two graphs are well-typed together;
* `system_hessian_relayout`   — **`H'[g'_u + a, g'_w + b] = H[g_u + a, g_w + b]`** for all vertices `u`, `w` (at positions `k`, `l`
                                of `s` and `π k`, `π l` of `s'`) and local coordinates `a`, `b`, when the fixed index sets
                                name the same vertices;
* `system_gradient_relayout`  — **`b'[g'_u + a] = b[g_u + a]`**.

`Props/E2E/VertexPermRun.lean` continues with the solutions, the update, the trajectory and the whole call.
-/

namespace GraphSlam.Props.E2E.VertexPerm
open GraphSlam GraphSlam.Gen GraphSlam.Model GraphSlam.Props.C03 GraphSlam.Props.E2E
set_option linter.unusedSimpArgs false
set_option linter.unusedVariables false
noncomputable section

/-! ### definitions -/

/-- the same edge with its endpoint positions remapped -/
def remap (π : Nat → Nat) : Edge ℝ → Edge ℝ
  | .odo i j z info => .odo (π i) (π j) z info
  | .lm i j z off info => .lm (π i) (π j) z off info

@[simp] theorem remap_ends (π : Nat → Nat) (e : Edge ℝ) : (remap π e).ends = (π e.ends.1, π e.ends.2) := by
  cases e <;> rfl

@[simp] theorem remap_info (π : Nat → Nat) (e : Edge ℝ) : (remap π e).info = e.info := by
  cases e <;> rfl

/-- `s'` lists the vertices of `s` in another order: position `k` of `s` is position `π k` of `s'` (same dimension, same
    estimate; the gradient indices are not related) -/
structure Relayout (π : Nat → Nat) (s s' : GState ℝ) : Prop where
  len : s'.length = s.length
  inj : ∀ i j, i < s.length → j < s.length → π i = π j → i = j
  range : ∀ i, π i < s.length ↔ i < s.length
  same : ∀ i v, s[i]? = some v → ∃ g', s'[π i]? = some (g', v.2.1, v.2.2)

/-- distinct list positions carry distinct gradient indices -/
def Distinct (s : GState ℝ) : Prop := ∀ (i j : Nat) (v w : Nat × Nat × Pose ℝ), s[i]? = some v → s[j]? = some w → v.1 = w.1 → i = j

/-- what `Graph._initialize` guarantees about the state -/
structure StateOK (s : GState ℝ) : Prop where
  layout : Layout (layoutOf s)
  dims : DimsOK s
  distinct : Distinct s

theorem stateOK_initState (g : Nat) (ps : List (Pose ℝ)) : StateOK (initState g ps) where
  layout := layout_initState g ps
  dims := dimsOK_initState g ps
  distinct := by
    intro i j v w hv hw h
    by_contra hij
    exact initState_index_ne g ps i j hij v w hv hw h

/-- symmetric information matrices, edges join two different vertices (what the constructor / C18 guarantee) -/
structure EdgesOK (es : List (Edge ℝ)) : Prop where
  distinct : ∀ e ∈ es, e.ends.1 ≠ e.ends.2
  symm : ∀ e ∈ es, ∀ a b, e.info a b = e.info b a

/-- the two fixed index sets name the same vertices -/
def FixedRel (π : Nat → Nat) (s s' : GState ℝ) (fixed fixed' : List Nat) : Prop :=
  ∀ (k : Nat) (v v' : Nat × Nat × Pose ℝ), s[k]? = some v → s'[π k]? = some v' → (v.1 ∈ fixed ↔ v'.1 ∈ fixed')

/-! ### basic facts about `Relayout` -/

theorem Relayout.some' {π : Nat → Nat} {s s' : GState ℝ} (hr : Relayout π s s') {k : Nat} {v : Nat × Nat × Pose ℝ}
    (hv : s[k]? = some v) : ∃ v', s'[π k]? = some v' ∧ v'.2 = v.2 := by
  obtain ⟨g', hg'⟩ := hr.same k v hv
  exact ⟨_, hg', rfl⟩

theorem Relayout.none' {π : Nat → Nat} {s s' : GState ℝ} (hr : Relayout π s s') {k : Nat}
    (hv : s[k]? = none) : s'[π k]? = none := by
  rw [List.getElem?_eq_none_iff] at hv ⊢
  rw [hr.len]
  have := hr.range k
  omega

theorem Relayout.lt {π : Nat → Nat} {s s' : GState ℝ} (hr : Relayout π s s') {k : Nat} {v : Nat × Nat × Pose ℝ}
    (hv : s[k]? = some v) : k < s.length := (List.getElem?_eq_some_iff.mp hv).1

/-- positions of `s'` come from positions of `s` only through `π` -/
theorem Relayout.pos_eq {π : Nat → Nat} {s s' : GState ℝ} (hr : Relayout π s s') {k l : Nat}
    {v w : Nat × Nat × Pose ℝ} (hv : s[k]? = some v) (hw : s[l]? = some w) (h : π k = π l) : k = l :=
  hr.inj k l (hr.lt hv) (hr.lt hw) h

theorem dimsOK_relayout {π : Nat → Nat} {s s' : GState ℝ} (hr : Relayout π s s') (hd : DimsOK s)
    (hsurj : ∀ j w, s'[j]? = some w → ∃ k, k < s.length ∧ π k = j) : DimsOK s' := by
  intro w hw
  obtain ⟨j, hj⟩ := List.getElem?_of_mem hw
  obtain ⟨k, hk, rfl⟩ := hsurj j w hj
  obtain ⟨v, hv⟩ : ∃ v, s[k]? = some v := ⟨s[k], List.getElem?_eq_getElem hk⟩
  obtain ⟨g', hg'⟩ := hr.same k v hv
  rw [hj] at hg'
  cases hg'
  exact hd v (List.mem_of_getElem? hv)

/-! ### the gradient-index correspondence `γ` (internal) -/

open Classical in
/-- old gradient index ↦ new gradient index of the same vertex -/
def gammaOf (π : Nat → Nat) (s s' : GState ℝ) (g : Nat) : Nat :=
  if h : ∃ (g' k : Nat) (v v' : Nat × Nat × Pose ℝ), s[k]? = some v ∧ v.1 = g ∧ s'[π k]? = some v' ∧ v'.1 = g' then Classical.choose h else 0

theorem gammaOf_spec {π : Nat → Nat} {s s' : GState ℝ} (hd : Distinct s) {k : Nat} {v v' : Nat × Nat × Pose ℝ}
    (hv : s[k]? = some v) (hv' : s'[π k]? = some v') : gammaOf π s s' v.1 = v'.1 := by
  have h : ∃ (g' k₂ : Nat) (v₂ v₂' : Nat × Nat × Pose ℝ), s[k₂]? = some v₂ ∧ v₂.1 = v.1 ∧ s'[π k₂]? = some v₂' ∧ v₂'.1 = g' :=
    ⟨v'.1, k, v, v', hv, rfl, hv', rfl⟩
  unfold gammaOf
  rw [dif_pos h]
  obtain ⟨k₂, v₂, v₂', h1, h2, h3, h4⟩ := Classical.choose_spec h
  have hk : k₂ = k := hd k₂ k v₂ v h1 hv h2
  subst hk
  rw [hv'] at h3
  cases h3
  exact h4.symm

/-- `γ` identifies vertices: `γ g_x = g'_u ↔ g_x = g_u` -/
theorem gammaOf_eq_iff {π : Nat → Nat} {s s' : GState ℝ} (hr : Relayout π s s') (hd : Distinct s) (hd' : Distinct s')
    {kx k : Nat} {vx v v' : Nat × Nat × Pose ℝ} (hx : s[kx]? = some vx) (hv : s[k]? = some v) (hv' : s'[π k]? = some v') :
    gammaOf π s s' vx.1 = v'.1 ↔ vx.1 = v.1 := by
  obtain ⟨vx', hx', _⟩ := hr.some' hx
  rw [gammaOf_spec hd hx hx']
  constructor
  · intro h
    have := hd' _ _ _ _ hx' hv' h
    have hk := hr.pos_eq hx hv this
    subst hk
    rw [hx] at hv; cases hv; rfl
  · intro h
    have hk := hd _ _ _ _ hx hv h
    subst hk
    rw [hx'] at hv'; cases hv'; rfl

/-- replace the gradient indices of a linearisation -/
def regrid (γ : Nat → Nat) (l : EdgeLin ℝ) : EdgeLin ℝ := { l with verts := l.verts.map fun x => (γ x.1, x.2) }

/-! ### linearisation -/

theorem lineariseAt_regrid (γ : Nat → Nat) (π : Nat → Nat) (g0 g1 : Nat) (p0 p1 : Pose ℝ) (e : Edge ℝ) :
    lineariseAt (γ g0) (γ g1) p0 p1 (remap π e) = (lineariseAt g0 g1 p0 p1 e).map (regrid γ) := by
  cases e with
  | odo i j z info =>
    cases z <;> cases p0 <;> cases p1 <;> simp [lineariseAt, remap, regrid, mkLin]
  | lm i j z off info =>
    cases z <;> cases off <;> cases p0 <;> cases p1 <;> simp [lineariseAt, remap, regrid, mkLin]

/-- χ² of an edge does not look at gradient indices or positions -/
theorem lineariseAt_chi2 (π : Nat → Nat) (g0 g1 g0' g1' : Nat) (p0 p1 : Pose ℝ) (e : Edge ℝ) :
    (lineariseAt g0' g1' p0 p1 (remap π e)).map (·.chi2) = (lineariseAt g0 g1 p0 p1 e).map (·.chi2) := by
  cases e with
  | odo i j z info =>
    cases z <;> cases p0 <;> cases p1 <;> simp [lineariseAt, remap, mkLin]
  | lm i j z off info =>
    cases z <;> cases off <;> cases p0 <;> cases p1 <;> simp [lineariseAt, remap, mkLin]

/-- the remapped edge reads the same two estimates -/
theorem linearise_chi2_relayout {π : Nat → Nat} {s s' : GState ℝ} (hr : Relayout π s s') (e : Edge ℝ) :
    (linearise s' (remap π e)).map (·.chi2) = (linearise s e).map (·.chi2) := by
  unfold linearise
  rw [remap_ends]
  cases h0 : s[e.ends.1]? with
  | none => rw [hr.none' h0]
  | some v0 =>
    obtain ⟨g0', hg0'⟩ := hr.same _ v0 h0
    cases h1 : s[e.ends.2]? with
    | none => rw [hr.none' h1, hg0']
    | some v1 =>
      obtain ⟨g1', hg1'⟩ := hr.same _ v1 h1
      rw [hg0', hg1']
      obtain ⟨g0, d0, p0⟩ := v0
      obtain ⟨g1, d1, p1⟩ := v1
      exact lineariseAt_chi2 π g0 g1 g0' g1' p0 p1 e

/-- **the remapped edge linearises to the same record with only the gradient indices replaced** -/
theorem linearise_relayout {π : Nat → Nat} {s s' : GState ℝ} (hr : Relayout π s s') (hd : Distinct s) (e : Edge ℝ) :
    linearise s' (remap π e) = (linearise s e).map (regrid (gammaOf π s s')) := by
  unfold linearise
  rw [remap_ends]
  cases h0 : s[e.ends.1]? with
  | none => rw [hr.none' h0]; rfl
  | some v0 =>
    obtain ⟨g0', hg0'⟩ := hr.same _ v0 h0
    cases h1 : s[e.ends.2]? with
    | none => rw [hr.none' h1, hg0']; rfl
    | some v1 =>
      obtain ⟨g1', hg1'⟩ := hr.same _ v1 h1
      have e0 := gammaOf_spec hd h0 hg0'
      have e1 := gammaOf_spec hd h1 hg1'
      rw [hg0', hg1']
      obtain ⟨g0, d0, p0⟩ := v0
      obtain ⟨g1, d1, p1⟩ := v1
      simp only at e0 e1 ⊢
      rw [← e0, ← e1]
      exact lineariseAt_regrid _ π g0 g1 p0 p1 e

theorem allSome_map {α β : Type} (f : α → β) (l : List (Option α)) :
    allSome (l.map (Option.map f)) = (allSome l).map (List.map f) := by
  induction l with
  | nil => rfl
  | cons o l ih =>
    cases o with
    | none => rfl
    | some a =>
      simp only [List.map_cons, Option.map_some, allSome, ih]
      cases allSome l <;> rfl

theorem lins_relayout {π : Nat → Nat} {s s' : GState ℝ} (hr : Relayout π s s') (hd : Distinct s) (es : List (Edge ℝ)) :
    allSome ((es.map (remap π)).map (linearise s'))
      = (allSome (es.map (linearise s))).map (List.map (regrid (gammaOf π s s'))) := by
  rw [← allSome_map, List.map_map, List.map_map]
  congr 1
  apply List.map_congr_left
  intro e _
  exact linearise_relayout hr hd e

theorem chi2s_relayout {π : Nat → Nat} {s s' : GState ℝ} (hr : Relayout π s s') (es : List (Edge ℝ)) :
    (allSome ((es.map (remap π)).map (linearise s'))).map (List.map (·.chi2))
      = (allSome (es.map (linearise s))).map (List.map (·.chi2)) := by
  rw [← allSome_map, ← allSome_map, List.map_map, List.map_map, List.map_map]
  congr 1
  apply List.map_congr_left
  intro e _
  exact linearise_chi2_relayout hr e

/-! ### χ² -/

/-- **χ² is unchanged by permuting the vertex list** (and remapping the edges' endpoint positions accordingly): for any
    two states listing the same estimates in different orders, any gradient-index assignment, any fixed sets, any edges —
    including ill-typed graphs (`none` on both sides) -/
theorem chi2At_relayout {π : Nat → Nat} {s s' : GState ℝ} (hr : Relayout π s s') (fixed fixed' : List Nat)
    (es : List (Edge ℝ)) : chi2At fixed' (es.map (remap π)) s' = chi2At fixed es s := by
  unfold chi2At system
  simp only [Option.map_map]
  have h := chi2s_relayout hr es
  cases h1 : allSome (es.map (linearise s)) with
  | none =>
    rw [h1] at h
    cases h2 : allSome ((es.map (remap π)).map (linearise s')) with
    | none => rfl
    | some l' => rw [h2] at h; simp at h
  | some l =>
    rw [h1] at h
    cases h2 : allSome ((es.map (remap π)).map (linearise s')) with
    | none => rw [h2] at h; simp at h
    | some l' =>
      rw [h2] at h
      simp only [Option.map_some, Option.some.injEq] at h
      simp only [Option.map_some, Function.comp, accumulate_chi2]
      rw [h]

/-- the two graphs are well-typed together -/
theorem system_isSome_relayout {π : Nat → Nat} {s s' : GState ℝ} (hr : Relayout π s s') (fixed fixed' : List Nat)
    (es : List (Edge ℝ)) : (system fixed' (es.map (remap π)) s').isSome = (system fixed es s).isSome := by
  have := chi2At_relayout hr fixed fixed' es
  unfold chi2At at this
  have h := congrArg Option.isSome this
  simpa using h

/-! ### well-formedness of the linearisations over an arbitrary well-formed state -/

theorem lin_ok {s : GState ℝ} (hs : StateOK s) (e : Edge ℝ) (hne : e.ends.1 ≠ e.ends.2)
    (hsym : ∀ a b, e.info a b = e.info b a) (lin : EdgeLin ℝ) (h : linearise s e = some lin) :
    (∀ x ∈ lin.verts, (x.1, x.2.1) ∈ layoutOf s) ∧ (∀ a b, lin.info a b = lin.info b a) ∧
      (lin.verts.map (·.1)).Nodup := by
  refine ⟨linearise_wf s hs.dims e lin h, ?_, ?_⟩
  · obtain ⟨_, _, _, _, _, hinfo⟩ := linearise_spec s e lin h
    intro a b; rw [hinfo, hinfo]; exact hsym a b
  · obtain ⟨v0, v1, h0, h1, hv, _⟩ := linearise_spec s e lin h
    have : lin.verts.map (·.1) = (lin.verts.map (fun x => (x.1, x.2.1))).map (·.1) := by
      rw [List.map_map]; rfl
    rw [this, hv]
    simp only [List.map_cons, List.map_nil, List.nodup_cons, List.mem_cons, List.not_mem_nil, or_false,
      not_false_eq_true, List.nodup_nil, and_true]
    intro hg
    exact hne (hs.distinct _ _ _ _ h0 h1 hg)

theorem lins_ok_gen {s : GState ℝ} (hs : StateOK s) (es : List (Edge ℝ))
    (hne : ∀ e ∈ es, linearise s e ≠ none → e.ends.1 ≠ e.ends.2)
    (hsym : ∀ e ∈ es, ∀ a b, e.info a b = e.info b a) (lins : List (EdgeLin ℝ))
    (h : allSome (es.map (linearise s)) = some lins) :
    EdgesWF (layoutOf s) lins ∧ (∀ l ∈ lins, ∀ a b, l.info a b = l.info b a) ∧
      (∀ l ∈ lins, (l.verts.map (·.1)).Nodup) := by
  have hmem := allSome_mem _ _ h
  have key : ∀ l ∈ lins, ∃ e ∈ es, linearise s e = some l := by
    intro l hl
    obtain ⟨e, he, hle⟩ := List.mem_map.mp (hmem l hl)
    exact ⟨e, he, hle⟩
  refine ⟨?_, ?_, ?_⟩
  · intro l hl
    obtain ⟨e, he, hle⟩ := key l hl
    exact (lin_ok hs e (hne e he (by rw [hle]; simp)) (hsym e he) l hle).1
  · intro l hl
    obtain ⟨e, he, hle⟩ := key l hl
    exact (lin_ok hs e (hne e he (by rw [hle]; simp)) (hsym e he) l hle).2.1
  · intro l hl
    obtain ⟨e, he, hle⟩ := key l hl
    exact (lin_ok hs e (hne e he (by rw [hle]; simp)) (hsym e he) l hle).2.2

/-- a linearised edge names vertices of the state -/
theorem lin_vert_pos {s : GState ℝ} (hs : StateOK s) (e : Edge ℝ) (lin : EdgeLin ℝ) (h : linearise s e = some lin)
    (x : Nat × Nat × (Nat → Nat → ℝ)) (hx : x ∈ lin.verts) :
    ∃ (k : Nat) (v : Nat × Nat × Pose ℝ), s[k]? = some v ∧ v.1 = x.1 := by
  have := linearise_wf s hs.dims e lin h x hx
  simp only [layoutOf, List.mem_map] at this
  obtain ⟨v, hv, hvx⟩ := this
  obtain ⟨k, hk⟩ := List.getElem?_of_mem hv
  exact ⟨k, v, hk, by simpa using congrArg Prod.fst hvx⟩

theorem remap_edges_ok {π : Nat → Nat} {s s' : GState ℝ} (hr : Relayout π s s') (es : List (Edge ℝ)) (hes : EdgesOK es) :
    (∀ e ∈ es.map (remap π), linearise s' e ≠ none → e.ends.1 ≠ e.ends.2) ∧
      (∀ e ∈ es.map (remap π), ∀ a b, e.info a b = e.info b a) := by
  constructor
  · intro e' he' hsome
    obtain ⟨e, he, rfl⟩ := List.mem_map.mp he'
    rw [remap_ends]
    simp only
    intro heq
    have hne := hes.distinct e he
    -- both endpoints are in range, otherwise the linearisation is `none`
    have h0 : e.ends.1 < s.length := by
      by_contra hlt
      have : s[e.ends.1]? = none := List.getElem?_eq_none_iff.mpr (by omega)
      have hn := hr.none' this
      apply hsome
      unfold linearise
      rw [remap_ends]
      simp only [hn]
    have h1 : e.ends.2 < s.length := by
      by_contra hlt
      have : s[e.ends.2]? = none := List.getElem?_eq_none_iff.mpr (by omega)
      have hn := hr.none' this
      apply hsome
      unfold linearise
      rw [remap_ends]
      simp only [hn]
      cases s'[π e.ends.1]? <;> rfl
    exact hne (hr.inj _ _ h0 h1 heq)
  · intro e' he' a b
    obtain ⟨e, he, rfl⟩ := List.mem_map.mp he'
    rw [remap_info]
    exact hes.symm e he a b

/-! ### the dense systems correspond entry by entry -/

theorem mem_layoutOf {s : GState ℝ} {k : Nat} {v : Nat × Nat × Pose ℝ} (hv : s[k]? = some v) :
    (v.1, v.2.1) ∈ layoutOf s := List.mem_map.mpr ⟨v, List.mem_of_getElem? hv, rfl⟩

theorem pairEntry_regrid (γ : Nat → Nat) (e : EdgeLin ℝ) (x y : Nat × Nat × (Nat → Nat → ℝ)) (a b : Nat) :
    pairEntry (regrid γ e) (γ x.1, x.2) (γ y.1, y.2) a b = pairEntry e x y a b := rfl

/-- the ordered-pair sum of one edge is the same in both layouts -/
theorem edge_hess_regrid (γ : Nat → Nat) (e : EdgeLin ℝ) (A B A' B' a b : Nat)
    (hc : ∀ x ∈ e.verts, (γ x.1 = A' ↔ x.1 = A) ∧ (γ x.1 = B' ↔ x.1 = B)) :
    ((regrid γ e).verts.map fun x => ((regrid γ e).verts.map fun y => ordered (regrid γ e) A' B' a b x y).sum).sum
      = (e.verts.map fun x => (e.verts.map fun y => ordered e A B a b x y).sum).sum := by
  have hv : (regrid γ e).verts = e.verts.map (fun x => (γ x.1, x.2)) := rfl
  rw [hv, List.map_map]
  apply congrArg
  apply List.map_congr_left
  intro x hx
  simp only [Function.comp_apply, List.map_map]
  apply congrArg
  apply List.map_congr_left
  intro y hy
  simp only [Function.comp_apply, ordered, (hc x hx).1, (hc y hy).2]
  rfl

theorem edge_grad_regrid (γ : Nat → Nat) (e : EdgeLin ℝ) (A A' a : Nat)
    (hc : ∀ x ∈ e.verts, (γ x.1 = A' ↔ x.1 = A)) :
    ((regrid γ e).verts.map fun x =>
        if x.1 = A' then (gradContrib (regrid γ e).m (regrid γ e).err (regrid γ e).info x.2.1 x.2.2).get a else 0).sum
      = (e.verts.map fun x => if x.1 = A then (gradContrib e.m e.err e.info x.2.1 x.2.2).get a else 0).sum := by
  have hv : (regrid γ e).verts = e.verts.map (fun x => (γ x.1, x.2)) := rfl
  rw [hv, List.map_map]
  apply congrArg
  apply List.map_congr_left
  intro x hx
  simp only [Function.comp_apply, hc x hx]
  rfl

/-- **permuting the vertex list: the dense Hessians correspond entry by entry.**  `s`, `s'` list the same vertices in
    different orders (`π`), the edges' endpoint positions are remapped, and the two fixed index sets name the same
    vertices.  Then for the vertices at positions `k`, `l` of `s` (gradient indices `g_u = vk.1`, `g_w = vl.1`; in `s'` they
    sit at `π k`, `π l` with indices `g'_u = vk'.1`, `g'_w = vl'.1`) and local coordinates `a`, `b` inside their blocks:
    `H'[g'_u + a, g'_w + b] = H[g_u + a, g_w + b]`.  (`_calc_chi2_gradient_hessian`, graph.py:367-412.) -/
theorem system_hessian_relayout {π : Nat → Nat} {s s' : GState ℝ} (hr : Relayout π s s') (hs : StateOK s) (hs' : StateOK s')
    (es : List (Edge ℝ)) (hes : EdgesOK es) (fixed fixed' : List Nat) (hfix : FixedRel π s s' fixed fixed')
    (r r' : ℝ × (Nat → ℝ) × (Nat → Nat → ℝ))
    (h : system fixed es s = some r) (h' : system fixed' (es.map (remap π)) s' = some r')
    (k l : Nat) (vk vl vk' vl' : Nat × Nat × Pose ℝ)
    (hk : s[k]? = some vk) (hl : s[l]? = some vl) (hk' : s'[π k]? = some vk') (hl' : s'[π l]? = some vl')
    (a b : Nat) (ha : a < vk.2.1) (hb : b < vl.2.1) :
    r'.2.2 (vk'.1 + a) (vl'.1 + b) = r.2.2 (vk.1 + a) (vl.1 + b) := by
  have hlr := lins_relayout hr hs.distinct es
  unfold system at h h'
  cases hl1 : allSome (es.map (linearise s)) with
  | none => rw [hl1] at h; simp at h
  | some lins =>
    rw [hl1] at h hlr
    simp only [Option.map_some] at hlr
    rw [hlr] at h'
    simp only [Option.map_some, Option.some.injEq] at h h'
    subst h; subst h'
    simp only
    -- the vertices of `s'` have the same dimensions
    obtain ⟨wk, hwk, hwk2⟩ := hr.some' hk
    obtain ⟨wl, hwl, hwl2⟩ := hr.some' hl
    rw [hk'] at hwk; cases hwk
    rw [hl'] at hwl; cases hwl
    have hdk : vk'.2.1 = vk.2.1 := by rw [hwk2]
    have hdl : vl'.2.1 = vl.2.1 := by rw [hwl2]
    obtain ⟨hwf, hsym, hnd⟩ := lins_ok_gen hs es (fun e he _ => hes.distinct e he) hes.symm lins hl1
    obtain ⟨hne', hsym'⟩ := remap_edges_ok hr es hes
    obtain ⟨hwf', hsymL', hnd'⟩ := lins_ok_gen hs' (es.map (remap π)) hne' hsym' _ hlr
    have H := assembled_hessian hs.layout fixed lins hwf hsym hnd
      ⟨(vk.1, vk.2.1), (vl.1, vl.2.1), a, b, mem_layoutOf hk, mem_layoutOf hl, ha, hb⟩
    have H' := assembled_hessian hs'.layout fixed' _ hwf' hsymL' hnd'
      ⟨(vk'.1, vk'.2.1), (vl'.1, vl'.2.1), a, b, mem_layoutOf hk', mem_layoutOf hl', by simpa [hdk] using ha,
        by simpa [hdl] using hb⟩
    simp only at H H'
    rw [H, H']
    have e1 : vk'.1 ∈ fixed' ↔ vk.1 ∈ fixed := (hfix k vk vk' hk hk').symm
    have e2 : vl'.1 ∈ fixed' ↔ vl.1 ∈ fixed := (hfix l vl vl' hl hl').symm
    have e3 : vk'.1 = vl'.1 ↔ vk.1 = vl.1 := by
      constructor
      · intro hh
        have := hr.pos_eq hk hl (hs'.distinct _ _ _ _ hk' hl' hh)
        subst this
        rw [hk] at hl; cases hl; rfl
      · intro hh
        have := hs.distinct _ _ _ _ hk hl hh
        subst this
        rw [hk'] at hl'; cases hl'; rfl
    simp only [e1, e2, e3]
    split
    · rfl
    · rw [List.map_map]
      apply congrArg
      apply List.map_congr_left
      intro e he
      obtain ⟨e0, he0, hle0⟩ := List.mem_map.mp (allSome_mem _ _ hl1 e he)
      simp only [Function.comp_apply]
      apply edge_hess_regrid
      intro x hx
      obtain ⟨kx, vx, hkx, hgx⟩ := lin_vert_pos hs e0 e hle0 x hx
      rw [← hgx]
      exact ⟨gammaOf_eq_iff hr hs.distinct hs'.distinct hkx hk hk', gammaOf_eq_iff hr hs.distinct hs'.distinct hkx hl hl'⟩

/-- **… and the dense gradients: `b'[g'_u + a] = b[g_u + a]`** -/
theorem system_gradient_relayout {π : Nat → Nat} {s s' : GState ℝ} (hr : Relayout π s s') (hs : StateOK s) (hs' : StateOK s')
    (es : List (Edge ℝ)) (hes : EdgesOK es) (fixed fixed' : List Nat) (hfix : FixedRel π s s' fixed fixed')
    (r r' : ℝ × (Nat → ℝ) × (Nat → Nat → ℝ))
    (h : system fixed es s = some r) (h' : system fixed' (es.map (remap π)) s' = some r')
    (k : Nat) (vk vk' : Nat × Nat × Pose ℝ) (hk : s[k]? = some vk) (hk' : s'[π k]? = some vk')
    (a : Nat) (ha : a < vk.2.1) :
    r'.2.1 (vk'.1 + a) = r.2.1 (vk.1 + a) := by
  have hlr := lins_relayout hr hs.distinct es
  unfold system at h h'
  cases hl1 : allSome (es.map (linearise s)) with
  | none => rw [hl1] at h; simp at h
  | some lins =>
    rw [hl1] at h hlr
    simp only [Option.map_some] at hlr
    rw [hlr] at h'
    simp only [Option.map_some, Option.some.injEq] at h h'
    subst h; subst h'
    simp only
    obtain ⟨wk, hwk, hwk2⟩ := hr.some' hk
    rw [hk'] at hwk; cases hwk
    have hdk : vk'.2.1 = vk.2.1 := by rw [hwk2]
    obtain ⟨hwf, hsym, hnd⟩ := lins_ok_gen hs es (fun e he _ => hes.distinct e he) hes.symm lins hl1
    obtain ⟨hne', hsym'⟩ := remap_edges_ok hr es hes
    obtain ⟨hwf', hsymL', hnd'⟩ := lins_ok_gen hs' (es.map (remap π)) hne' hsym' _ hlr
    have G := assembled_gradient hs.layout fixed lins hwf (vk.1, vk.2.1) (mem_layoutOf hk) a ha
    have G' := assembled_gradient hs'.layout fixed' _ hwf' (vk'.1, vk'.2.1) (mem_layoutOf hk') a (by simpa [hdk] using ha)
    simp only at G G'
    rw [G, G']
    have e1 : vk'.1 ∈ fixed' ↔ vk.1 ∈ fixed := (hfix k vk vk' hk hk').symm
    simp only [e1]
    split
    · rfl
    · rw [List.map_map]
      apply congrArg
      apply List.map_congr_left
      intro e he
      obtain ⟨e0, he0, hle0⟩ := List.mem_map.mp (allSome_mem _ _ hl1 e he)
      simp only [Function.comp_apply]
      apply edge_grad_regrid
      intro x hx
      obtain ⟨kx, vx, hkx, hgx⟩ := lin_vert_pos hs e0 e hle0 x hx
      rw [← hgx]
      exact gammaOf_eq_iff hr hs.distinct hs'.distinct hkx hk hk'

end
end GraphSlam.Props.E2E.VertexPerm
