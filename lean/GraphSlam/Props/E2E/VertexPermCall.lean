import GraphSlam.Props.E2E.VertexPermRun
import Mathlib.Data.List.Perm.Basic
import GraphSlam.Props.C12.Ctl

/-!
# C08 — permuting the vertex list: the constructor's states, the whole `optimize()` call

Instantiates `Props/E2E/VertexPerm.lean` / `VertexPermRun.lean` at the states `Graph._initialize` builds
(`Model.initState 0 ps`, gradient indices = running sums of the compact dimensions in *list order*) and at the fixed
index sets `optimize` computes from the vertices' flags (`Model.applyFixFirst`, `Model.fixedIndices`).

* `PermBy π ps ps'`            — `ps'` lists the poses `ps` in another order: position `k` ↦ position `π k`;
* `permBy_of_perm`             — every `List.Perm` is of this form;
* `relayout_initState`, `tiles_initState`, `totalDim_permBy`, `fixedRel_of_flags`, `paired_initState` — the hypotheses of
  the correspondence theorems hold for the constructor's states when the flags are permuted alike;
* `chi2_vertexPerm`            — χ² of the constructed graphs is equal;
* `hessian_vertexPerm`, `gradient_vertexPerm` — entrywise correspondence of `H`, `b` for the constructed graphs;
* `optimizeSolve_vertexPerm`   — **the whole call**: same report, corresponding returned states, under "the solver is exact
  and every visited system is uniquely solvable"; `optimizeSolve_vertexPerm_upto` needs unique solvability only for
  iterations `< max_iter` (`optimizeCtl_congr`: the report depends only on the first `max_iter + 1` χ² values);
* `optimizeRun_vertexPerm`     — the whole call with *recorded* increments re-indexed to the second layout: same report,
  corresponding states, no solver / edge hypothesis at all;
* `flagsRel_noFix`, `flagsRel_fixFirst`, `fixFirst_moves_fixed_vertex` — which `fix_first_pose` settings keep the same
  vertices fixed;
* an `example` (three vertices of two classes, two edges, one fixed vertex) showing the hypotheses are satisfiable.
-/

namespace GraphSlam.Props.E2E.VertexPerm
open GraphSlam GraphSlam.Gen GraphSlam.Model GraphSlam.Props.C03 GraphSlam.Props.E2E
set_option linter.unusedSimpArgs false
set_option linter.unusedVariables false
noncomputable section

/-- `ps'` lists the vertices `ps` in another order: position `k` of `ps` is position `π k` of `ps'` -/
structure PermBy {α : Type} (π : Nat → Nat) (ps ps' : List α) : Prop where
  len : ps'.length = ps.length
  inj : ∀ i j, i < ps.length → j < ps.length → π i = π j → i = j
  range : ∀ i, π i < ps.length ↔ i < ps.length
  same : ∀ i, i < ps.length → ps'[π i]? = ps[i]?

/-- the flags are permuted like the vertices -/
def FlagsRel (π : Nat → Nat) (n : Nat) (F F' : List Bool) : Prop := ∀ k, k < n → F'[π k]? = F[k]?

/-- `_len_gradient` -/
def totalDim (ps : List (Pose ℝ)) : Nat := (ps.map Pose.cdim).sum

/-! ### the constructor's state -/

theorem initState_length (g : Nat) (ps : List (Pose ℝ)) : (initState g ps).length = ps.length := by
  induction ps generalizing g with
  | nil => rfl
  | cons p ps ih => simp [initState, ih]

theorem initState_getElem? (g : Nat) (ps : List (Pose ℝ)) (k : Nat) :
    (initState g ps)[k]? = (ps[k]?).map fun p => (g + ((ps.take k).map Pose.cdim).sum, p.cdim, p) := by
  induction ps generalizing g k with
  | nil => simp [initState]
  | cons p ps ih =>
    cases k with
    | zero => simp [initState]
    | succ k =>
      simp only [initState, List.getElem?_cons_succ, ih, List.take_succ_cons, List.map_cons, List.sum_cons]
      cases ps[k]? with
      | none => rfl
      | some q => simp only [Option.map_some, Nat.add_assoc]

theorem relayout_initState {π : Nat → Nat} {ps ps' : List (Pose ℝ)} (hp : PermBy π ps ps') (g g' : Nat) :
    Relayout π (initState g ps) (initState g' ps') := by
  constructor
  · rw [initState_length, initState_length]; exact hp.len
  · rw [initState_length]; exact hp.inj
  · rw [initState_length]; exact hp.range
  · intro i v hv
    rw [initState_getElem?] at hv
    cases hp0 : ps[i]? with
    | none => rw [hp0] at hv; simp at hv
    | some p =>
      rw [hp0] at hv
      simp only [Option.map_some, Option.some.injEq] at hv
      subst hv
      have hi : i < ps.length := (List.getElem?_eq_some_iff.mp hp0).1
      have := hp.same i hi
      rw [hp0] at this
      rw [initState_getElem?, this]
      exact ⟨_, rfl⟩

theorem tiles_initState_gen (g : Nat) (ps : List (Pose ℝ)) :
    (∀ v ∈ initState g ps, g ≤ v.1 ∧ v.1 + v.2.1 ≤ g + totalDim ps) ∧
      (∀ i, g ≤ i → i < g + totalDim ps →
        ∃ (k : Nat) (v : Nat × Nat × Pose ℝ), (initState g ps)[k]? = some v ∧ v.1 ≤ i ∧ i < v.1 + v.2.1) := by
  induction ps generalizing g with
  | nil =>
    constructor
    · intro v hv; simp [initState] at hv
    · intro i h1 h2; simp [totalDim] at h2; omega
  | cons p ps ih =>
    obtain ⟨ih1, ih2⟩ := ih (g + p.cdim)
    have ht : totalDim (p :: ps) = p.cdim + totalDim ps := by simp [totalDim]
    constructor
    · intro v hv
      simp only [initState, List.mem_cons] at hv
      rcases hv with rfl | hv
      · simp only; omega
      · have := ih1 v hv; omega
    · intro i h1 h2
      by_cases hi : i < g + p.cdim
      · exact ⟨0, (g, p.cdim, p), by simp [initState], h1, hi⟩
      · obtain ⟨k, v, hk, h3, h4⟩ := ih2 i (by omega) (by omega)
        exact ⟨k + 1, v, by simpa [initState] using hk, h3, h4⟩

/-- the index ranges assigned by `Graph._initialize` tile `[0, _len_gradient)` -/
theorem tiles_initState (ps : List (Pose ℝ)) : Tiles (totalDim ps) (initState 0 ps) := by
  obtain ⟨h1, h2⟩ := tiles_initState_gen 0 ps
  constructor
  · intro v hv; have := h1 v hv; omega
  · intro i hi; exact h2 i (by omega) (by omega)

theorem sum_map_eq_range (f : Pose ℝ → Nat) (l : List (Pose ℝ)) :
    (l.map f).sum = ∑ k ∈ Finset.range l.length, ((l[k]?).map f).getD 0 := by
  induction l with
  | nil => simp
  | cons a l ih =>
    rw [List.length_cons, Finset.sum_range_succ']
    simp only [List.map_cons, List.sum_cons, List.getElem?_cons_succ, List.getElem?_cons_zero, Option.map_some,
      Option.getD_some]
    rw [ih]; omega

/-- the number of unknowns does not depend on the order of the vertex list -/
theorem totalDim_permBy {π : Nat → Nat} {ps ps' : List (Pose ℝ)} (hp : PermBy π ps ps') : totalDim ps' = totalDim ps := by
  unfold totalDim
  rw [sum_map_eq_range, sum_map_eq_range, hp.len]
  rw [← sum_reindex ps.length π (fun i hi => (hp.range i).mpr hi) (fun i hi j hj h => hp.inj i j hi hj h)]
  apply Finset.sum_congr rfl
  intro k hk
  rw [hp.same k (Finset.mem_range.mp hk)]

/-! ### the fixed index sets -/

theorem mem_fixed_iff {s : GState ℝ} (hd : Distinct s) (F : List Bool) {k : Nat} {v : Nat × Nat × Pose ℝ}
    (hv : s[k]? = some v) : v.1 ∈ fixedIndices F (s.map (·.1)) ↔ F[k]? = some true := by
  rw [C06.mem_fixedIndices]
  constructor
  · rintro ⟨j, h1, h2⟩
    rw [List.getElem?_map] at h2
    cases hw : s[j]? with
    | none => rw [hw] at h2; simp at h2
    | some w =>
      rw [hw] at h2
      simp only [Option.map_some, Option.some.injEq] at h2
      have := hd j k w v hw hv h2
      subst this
      exact h1
  · intro h
    exact ⟨k, h, by rw [List.getElem?_map, hv]; rfl⟩

/-- flags permuted like the vertices ⇒ the two fixed index sets (graph.py:433) name the same vertices -/
theorem fixedRel_of_flags {π : Nat → Nat} {s s' : GState ℝ} (hr : Relayout π s s') (hd : Distinct s) (hd' : Distinct s')
    (F F' : List Bool) (hfl : FlagsRel π s.length F F') :
    FixedRel π s s' (fixedIndices F (s.map (·.1))) (fixedIndices F' (s'.map (·.1))) := by
  intro k v v' hv hv'
  rw [mem_fixed_iff hd F hv, mem_fixed_iff hd' F' hv', hfl k (hr.lt hv)]

/-- **the constructor's states of a graph and of the same graph with its vertex list permuted correspond** -/
theorem paired_initState {π : Nat → Nat} {ps ps' : List (Pose ℝ)} (hp : PermBy π ps ps') (F F' : List Bool)
    (hfl : FlagsRel π ps.length F F') :
    Paired π (totalDim ps) (fixedIndices F ((initState 0 ps).map (·.1))) (fixedIndices F' ((initState 0 ps').map (·.1)))
      (initState 0 ps) (initState 0 ps') where
  rel := relayout_initState hp 0 0
  ok := stateOK_initState 0 ps
  ok' := stateOK_initState 0 ps'
  fix := fixedRel_of_flags (relayout_initState hp 0 0) (stateOK_initState 0 ps).distinct (stateOK_initState 0 ps').distinct
    F F' (by rw [initState_length]; exact hfl)
  tile := tiles_initState ps
  tile' := by rw [← totalDim_permBy hp]; exact tiles_initState ps'

/-! ### the constructed graphs -/

/-- **χ² is unchanged by permuting the vertex list** (`Graph.calc_chi2`), whatever the flags -/
theorem chi2_vertexPerm {π : Nat → Nat} {ps ps' : List (Pose ℝ)} (hp : PermBy π ps ps') (fixed fixed' : List Nat)
    (es : List (Edge ℝ)) :
    chi2At fixed' (es.map (remap π)) (initState 0 ps') = chi2At fixed es (initState 0 ps) :=
  chi2At_relayout (relayout_initState hp 0 0) fixed fixed' es

/-- **`H'[g'_u + a, g'_w + b] = H[g_u + a, g_w + b]`** for the graphs as constructed: `k`, `l` are the positions of two
    vertices in `ps`; `vk`, `vl`, `vk'`, `vl'` their entries `(gradient_index, dim, estimate)` in the two layouts -/
theorem hessian_vertexPerm {π : Nat → Nat} {ps ps' : List (Pose ℝ)} (hp : PermBy π ps ps') (F F' : List Bool)
    (hfl : FlagsRel π ps.length F F') (es : List (Edge ℝ)) (hes : EdgesOK es)
    (r r' : ℝ × (Nat → ℝ) × (Nat → Nat → ℝ))
    (h : system (fixedIndices F ((initState 0 ps).map (·.1))) es (initState 0 ps) = some r)
    (h' : system (fixedIndices F' ((initState 0 ps').map (·.1))) (es.map (remap π)) (initState 0 ps') = some r')
    (k l : Nat) (vk vl vk' vl' : Nat × Nat × Pose ℝ)
    (hk : (initState 0 ps)[k]? = some vk) (hl : (initState 0 ps)[l]? = some vl)
    (hk' : (initState 0 ps')[π k]? = some vk') (hl' : (initState 0 ps')[π l]? = some vl')
    (a b : Nat) (ha : a < vk.2.1) (hb : b < vl.2.1) :
    r'.2.2 (vk'.1 + a) (vl'.1 + b) = r.2.2 (vk.1 + a) (vl.1 + b) :=
  let P := paired_initState hp F F' hfl
  system_hessian_relayout P.rel P.ok P.ok' es hes _ _ P.fix r r' h h' k l vk vl vk' vl' hk hl hk' hl' a b ha hb

/-- **`b'[g'_u + a] = b[g_u + a]`** for the graphs as constructed -/
theorem gradient_vertexPerm {π : Nat → Nat} {ps ps' : List (Pose ℝ)} (hp : PermBy π ps ps') (F F' : List Bool)
    (hfl : FlagsRel π ps.length F F') (es : List (Edge ℝ)) (hes : EdgesOK es)
    (r r' : ℝ × (Nat → ℝ) × (Nat → Nat → ℝ))
    (h : system (fixedIndices F ((initState 0 ps).map (·.1))) es (initState 0 ps) = some r)
    (h' : system (fixedIndices F' ((initState 0 ps').map (·.1))) (es.map (remap π)) (initState 0 ps') = some r')
    (k : Nat) (vk vk' : Nat × Nat × Pose ℝ)
    (hk : (initState 0 ps)[k]? = some vk) (hk' : (initState 0 ps')[π k]? = some vk')
    (a : Nat) (ha : a < vk.2.1) :
    r'.2.1 (vk'.1 + a) = r.2.1 (vk.1 + a) :=
  let P := paired_initState hp F F' hfl
  system_gradient_relayout P.rel P.ok P.ok' es hes _ _ P.fix r r' h h' k vk vk' hk hk' a ha

/-! ### the whole call -/

theorem optRel_mono {α β : Type} {R R' : α → β → Prop} (h : ∀ a b, R a b → R' a b) {o : Option α} {o' : Option β}
    (hr : OptRel R o o') : OptRel R' o o' := by
  rcases hr with h0 | ⟨a, a', h1, h2, h3⟩
  · exact Or.inl h0
  · exact Or.inr ⟨a, a', h1, h2, h _ _ h3⟩

/-- **The whole `optimize()` call does not depend on the order of the vertex list.**  `ps'` lists the vertices of `ps` in
    another order (`π`), the edges' endpoint positions are remapped, and the flags *after* `fix_first_pose` are permuted
    alike (so: `fix_first_pose=False` on both sides with flags permuted, or `fix_first_pose=True` with `π 0 = 0`; see
    `flagsRel_noFix`, `flagsRel_fixFirst`).  If the solver returns a solution whenever one exists and every system visited
    by the first run is uniquely solvable, then both calls fail alike or both return **the same report** (every χ²,
    `num_iterations`, `converged`) and returned states that list **the same estimate for the same vertex**. -/
theorem optimizeSolve_vertexPerm {π : Nat → Nat} {ps ps' : List (Pose ℝ)} (hp : PermBy π ps ps')
    (es : List (Edge ℝ)) (hes : EdgesOK es) (ffp ffp' : Bool) (flags flags' : List Bool)
    (hfl : FlagsRel π ps.length (applyFixFirst ffp flags) (applyFixFirst ffp' flags'))
    (tol eps : ℝ) (maxIter : Nat)
    (solve : (Nat → Nat → ℝ) → (Nat → ℝ) → (Nat → ℝ)) (hex : ExactSolver (totalDim ps) solve)
    (hu : ∀ i t r, iterStates (fun _ => step solve (fixedOf ffp flags ps) es) (initState 0 ps) i = some t →
      system (fixedOf ffp flags ps) es t = some r → UniquelySolvable (totalDim ps) r.2.2 (fun i => - r.2.1 i)) :
    (∀ e, optimizeSolve tol eps maxIter ffp flags solve es ps = .error e →
        optimizeSolve tol eps maxIter ffp' flags' solve (es.map (remap π)) ps' = .error e) ∧
    (∀ rep st fl, optimizeSolve tol eps maxIter ffp flags solve es ps = .ok (rep, st, fl) →
        fl = applyFixFirst ffp flags ∧
        ∃ st', optimizeSolve tol eps maxIter ffp' flags' solve (es.map (remap π)) ps'
            = .ok (rep, st', applyFixFirst ffp' flags') ∧ OptRel (Relayout π) st st') := by
  have hP := paired_initState hp (applyFixFirst ffp flags) (applyFixFirst ffp' flags') hfl
  have hseq := chi2SeqOf_relayout hP es hes solve hex hu
  have htraj := iterStates_relayout hP es hes solve hex hu
  unfold fixedOf at hu
  unfold optimizeSolve optimizeRunOf
  simp only
  rw [hseq]
  cases optimizeCtl tol eps maxIter
      (chi2SeqOf (fun _ => step solve (fixedIndices (applyFixFirst ffp flags) ((initState 0 ps).map (·.1))) es)
        (fixedIndices (applyFixFirst ffp flags) ((initState 0 ps).map (·.1))) es (initState 0 ps)) with
  | error e0 =>
    constructor
    · intro e he; exact he
    · intro rep st fl h; cases h
  | ok r0 =>
    constructor
    · intro e he; cases he
    · intro rep st fl h
      simp only [Except.ok.injEq, Prod.mk.injEq] at h
      obtain ⟨rfl, rfl, rfl⟩ := h
      exact ⟨rfl, _, rfl, optRel_mono (fun a b hab => hab.rel) (htraj _)⟩

/-! ### … assuming unique solvability only for the iterations the call can run -/

/-- the control loop reads the χ² sequence only at the indices it visits -/
theorem ctlLoop_congr (tol eps : ℝ) (c c' : Nat → ℝ) : ∀ (n i : Nat) (prev : ℝ) (ret : Report ℝ),
    (∀ j, i ≤ j → j < i + n → c j = c' j) → ctlLoop tol eps c n i prev ret = ctlLoop tol eps c' n i prev ret := by
  intro n
  induction n with
  | zero => intro i prev ret _; rfl
  | succ n ih =>
    intro i prev ret h
    simp only [ctlLoop]
    rw [h i (Nat.le_refl _) (by omega)]
    have hrec : ∀ prev ret, ctlLoop tol eps c n (i + 1) prev ret = ctlLoop tol eps c' n (i + 1) prev ret :=
      fun prev ret => ih (i + 1) prev ret (fun j h1 h2 => h j (by omega) (by omega))
    simp only [hrec]

/-- `Graph.optimize`'s report depends on the χ² sequence only through its first `max_iter + 1` values -/
theorem optimizeCtl_congr (tol eps : ℝ) (maxIter : Nat) (c c' : Nat → ℝ) (h : ∀ j, j ≤ maxIter → c j = c' j) :
    optimizeCtl tol eps maxIter c = optimizeCtl tol eps maxIter c' := by
  unfold optimizeCtl
  rw [ctlLoop_congr tol eps c c' maxIter 0 _ _ (fun j _ hj => h j (by omega)), h maxIter (Nat.le_refl _)]

/-- **The whole call, sharper hypothesis**: unique solvability is needed only for the systems of iterations
    `0 … max_iter − 1` of the first run (the only ones `optimize` can solve). -/
theorem optimizeSolve_vertexPerm_upto {π : Nat → Nat} {ps ps' : List (Pose ℝ)} (hp : PermBy π ps ps')
    (es : List (Edge ℝ)) (hes : EdgesOK es) (ffp ffp' : Bool) (flags flags' : List Bool)
    (hfl : FlagsRel π ps.length (applyFixFirst ffp flags) (applyFixFirst ffp' flags'))
    (tol eps : ℝ) (maxIter : Nat)
    (solve : (Nat → Nat → ℝ) → (Nat → ℝ) → (Nat → ℝ)) (hex : ExactSolver (totalDim ps) solve)
    (hu : ∀ i t r, i < maxIter →
      iterStates (fun _ => step solve (fixedOf ffp flags ps) es) (initState 0 ps) i = some t →
      system (fixedOf ffp flags ps) es t = some r → UniquelySolvable (totalDim ps) r.2.2 (fun i => - r.2.1 i)) :
    (∀ e, optimizeSolve tol eps maxIter ffp flags solve es ps = .error e →
        optimizeSolve tol eps maxIter ffp' flags' solve (es.map (remap π)) ps' = .error e) ∧
    (∀ rep st fl, optimizeSolve tol eps maxIter ffp flags solve es ps = .ok (rep, st, fl) →
        fl = applyFixFirst ffp flags ∧
        ∃ st', optimizeSolve tol eps maxIter ffp' flags' solve (es.map (remap π)) ps'
            = .ok (rep, st', applyFixFirst ffp' flags') ∧ OptRel (Relayout π) st st') := by
  have hP := paired_initState hp (applyFixFirst ffp flags) (applyFixFirst ffp' flags') hfl
  have hseq := chi2SeqOf_relayout_upto hP es hes solve hex maxIter hu
  have htraj := iterStates_relayout_upto hP es hes solve hex maxIter hu
  unfold fixedOf at hu
  unfold optimizeSolve optimizeRunOf
  simp only
  rw [optimizeCtl_congr tol eps maxIter _ _ hseq]
  by_cases hm : 0 < maxIter
  · obtain ⟨r0, hr0, hn, _⟩ := C12.report_fields tol eps
      (chi2SeqOf (fun _ => step solve (fixedIndices (applyFixFirst ffp flags) ((initState 0 ps).map (·.1))) es)
        (fixedIndices (applyFixFirst ffp flags) ((initState 0 ps).map (·.1))) es (initState 0 ps)) maxIter hm
    have hle := (C12.stops_at_first tol eps
      (chi2SeqOf (fun _ => step solve (fixedIndices (applyFixFirst ffp flags) ((initState 0 ps).map (·.1))) es)
        (fixedIndices (applyFixFirst ffp flags) ((initState 0 ps).map (·.1))) es (initState 0 ps)) maxIter hm).2.1
    rw [hr0]
    constructor
    · intro e he; cases he
    · intro rep st fl h
      simp only [Except.ok.injEq, Prod.mk.injEq] at h
      obtain ⟨rfl, rfl, rfl⟩ := h
      refine ⟨rfl, _, rfl, optRel_mono (fun a b hab => hab.rel) (htraj _ ?_)⟩
      rw [hn]; exact hle
  · have : maxIter = 0 := by omega
    subst this
    rw [C12.optimizeCtl_zero]
    constructor
    · intro e he; exact he
    · intro rep st fl h; cases h

/-! ### the whole call with recorded increments (what the driver's `run` command executes) -/

/-- **The whole call with recorded solver outputs, no solver hypothesis.**  If iteration `i` of the second run applies the
    increment `dxs i` re-indexed to the second layout (`reindexDx`), both calls fail alike or return the same report and
    corresponding states — for arbitrary edges and increments. -/
theorem optimizeRun_vertexPerm {π : Nat → Nat} {ps ps' : List (Pose ℝ)} (hp : PermBy π ps ps')
    (es : List (Edge ℝ)) (ffp ffp' : Bool) (flags flags' : List Bool)
    (hfl : FlagsRel π ps.length (applyFixFirst ffp flags) (applyFixFirst ffp' flags'))
    (tol eps : ℝ) (maxIter : Nat) (dxs : Nat → Nat → ℝ) :
    (∀ e, optimizeRun tol eps maxIter ffp flags dxs es ps = .error e →
        optimizeRun tol eps maxIter ffp' flags'
          (fun i => reindexDx π (initState 0 ps) (initState 0 ps') (totalDim ps) (dxs i)) (es.map (remap π)) ps' = .error e) ∧
    (∀ rep st fl, optimizeRun tol eps maxIter ffp flags dxs es ps = .ok (rep, st, fl) →
        fl = applyFixFirst ffp flags ∧
        ∃ st', optimizeRun tol eps maxIter ffp' flags'
            (fun i => reindexDx π (initState 0 ps) (initState 0 ps') (totalDim ps) (dxs i)) (es.map (remap π)) ps'
            = .ok (rep, st', applyFixFirst ffp' flags') ∧ OptRel (Relayout π) st st') := by
  have hP := paired_initState hp (applyFixFirst ffp flags) (applyFixFirst ffp' flags') hfl
  have hdx : ∀ i, DxRel π (initState 0 ps) (initState 0 ps') (dxs i)
      (reindexDx π (initState 0 ps) (initState 0 ps') (totalDim ps) (dxs i)) := fun i => reindexDx_spec hP (dxs i)
  have hseq : chi2SeqOf
      (fun i => stepWith (reindexDx π (initState 0 ps) (initState 0 ps') (totalDim ps) (dxs i))
        (fixedIndices (applyFixFirst ffp' flags') ((initState 0 ps').map (·.1))) (es.map (remap π)))
      (fixedIndices (applyFixFirst ffp' flags') ((initState 0 ps').map (·.1))) (es.map (remap π)) (initState 0 ps')
      = chi2SeqOf (fun i => stepWith (dxs i) (fixedIndices (applyFixFirst ffp flags) ((initState 0 ps).map (·.1))) es)
        (fixedIndices (applyFixFirst ffp flags) ((initState 0 ps).map (·.1))) es (initState 0 ps) :=
    chi2Seq_relayout hP es dxs _ hdx
  have htraj := stateAt_relayout hP es dxs _ hdx
  unfold stateAt at htraj
  unfold optimizeRun optimizeRunOf
  simp only
  rw [hseq]
  cases optimizeCtl tol eps maxIter
      (chi2SeqOf (fun i => stepWith (dxs i) (fixedIndices (applyFixFirst ffp flags) ((initState 0 ps).map (·.1))) es)
        (fixedIndices (applyFixFirst ffp flags) ((initState 0 ps).map (·.1))) es (initState 0 ps)) with
  | error e0 =>
    constructor
    · intro e he; exact he
    · intro rep st fl h; cases h
  | ok r0 =>
    constructor
    · intro e he; cases he
    · intro rep st fl h
      simp only [Except.ok.injEq, Prod.mk.injEq] at h
      obtain ⟨rfl, rfl, rfl⟩ := h
      exact ⟨rfl, _, rfl, optRel_mono (fun a b hab => hab.1.rel) (htraj _)⟩

/-! ### which flag settings satisfy `FlagsRel` -/

/-- `fix_first_pose=False` on both sides, flags permuted like the vertices -/
theorem flagsRel_noFix (π : Nat → Nat) (n : Nat) (flags flags' : List Bool) (h : FlagsRel π n flags flags') :
    FlagsRel π n (applyFixFirst false flags) (applyFixFirst false flags') := h

/-- `fix_first_pose=True` on both sides, the first vertex stays first, the other flags permuted like the vertices -/
theorem flagsRel_fixFirst (π : Nat → Nat) (n : Nat) (flags flags' : List Bool) (h : FlagsRel π n flags flags')
    (h0 : π 0 = 0) (hinj : ∀ k, k < n → π k = 0 → k = 0) (hne : flags = [] ↔ flags' = []) :
    FlagsRel π n (applyFixFirst true flags) (applyFixFirst true flags') := by
  intro k hk
  rw [C06.fix_first_pose_flags, C06.fix_first_pose_flags]
  by_cases hk0 : k = 0
  · subst hk0
    have := h 0 hk
    rw [h0] at this ⊢
    by_cases hf : flags = []
    · have hf' := hne.mp hf
      simp [hf, hf']
    · have hf' : flags' ≠ [] := fun hh => hf (hne.mpr hh)
      simp [hf, hf']
  · have hπ : π k ≠ 0 := fun hh => hk0 (hinj k hk hh)
    simp only [hk0, hπ, false_and, and_false, if_false]
    exact h k hk

/-- `fix_first_pose=True` with the first vertex moved is *not* covered, and must not be: the call then fixes a different
    vertex (the C08 clause says "keeping the same vertices fixed").  E.g. swapping two unflagged vertices: the flags after
    `fix_first_pose` are `[true, false]` on both sides, which is not "permuted alike". -/
theorem fixFirst_moves_fixed_vertex :
    ¬ FlagsRel (fun k => match k with | 0 => 1 | 1 => 0 | k + 2 => k + 2) 2
        (applyFixFirst true [false, false]) (applyFixFirst true [false, false]) := by
  intro h
  have := h 0 (by omega)
  simp [applyFixFirst] at this

/-! ### every `List.Perm` is a `PermBy` -/

theorem permBy_refl {α : Type} (l : List α) : PermBy id l l :=
  ⟨rfl, fun _ _ _ _ h => h, fun _ => Iff.rfl, fun _ _ => rfl⟩

theorem permBy_trans {α : Type} {π₁ π₂ : Nat → Nat} {l₁ l₂ l₃ : List α} (h₁ : PermBy π₁ l₁ l₂) (h₂ : PermBy π₂ l₂ l₃) :
    PermBy (π₂ ∘ π₁) l₁ l₃ where
  len := h₂.len.trans h₁.len
  inj := by
    intro i j hi hj h
    have hi' : π₁ i < l₂.length := by rw [h₁.len]; exact (h₁.range i).mpr hi
    have hj' : π₁ j < l₂.length := by rw [h₁.len]; exact (h₁.range j).mpr hj
    exact h₁.inj i j hi hj (h₂.inj _ _ hi' hj' h)
  range := by
    intro i
    have := h₂.range (π₁ i)
    have := h₁.range i
    have := h₁.len
    simp only [Function.comp]
    omega
  same := by
    intro i hi
    have hi' : π₁ i < l₂.length := by rw [h₁.len]; exact (h₁.range i).mpr hi
    simp only [Function.comp]
    rw [h₂.same _ hi', h₁.same i hi]

theorem permBy_cons {α : Type} {π : Nat → Nat} {l l' : List α} (x : α) (h : PermBy π l l') :
    PermBy (fun k => match k with | 0 => 0 | k + 1 => π k + 1) (x :: l) (x :: l') where
  len := by simp [h.len]
  inj := by
    intro i j hi hj hij
    cases i <;> cases j <;> simp only [List.length_cons] at hi hj hij ⊢
    · omega
    · omega
    · rename_i i j
      have := h.inj i j (by omega) (by omega) (by omega)
      omega
  range := by
    intro i
    cases i with
    | zero => simp
    | succ i => have := h.range i; simp only [List.length_cons]; omega
  same := by
    intro i hi
    cases i with
    | zero => rfl
    | succ i =>
      simp only [List.length_cons] at hi
      simp only [List.getElem?_cons_succ]
      exact h.same i (by omega)

theorem permBy_swap {α : Type} (x y : α) (l : List α) :
    PermBy (fun k => match k with | 0 => 1 | 1 => 0 | k + 2 => k + 2) (y :: x :: l) (x :: y :: l) where
  len := rfl
  inj := by
    intro i j hi hj hij
    match i, j with
    | 0, 0 => rfl
    | 0, 1 => simp at hij
    | 0, j + 2 => simp at hij
    | 1, 0 => simp at hij
    | 1, 1 => rfl
    | 1, j + 2 => simp at hij
    | i + 2, 0 => simp at hij
    | i + 2, 1 => simp at hij
    | i + 2, j + 2 => simpa using hij
  range := by
    intro i
    match i with
    | 0 => simp
    | 1 => simp
    | i + 2 => simp
  same := by
    intro i hi
    match i with
    | 0 => rfl
    | 1 => rfl
    | i + 2 => rfl

/-- **every permutation of the vertex list is covered**: `List.Perm` gives a position bijection -/
theorem permBy_of_perm {α : Type} {l l' : List α} (h : l.Perm l') : ∃ π, PermBy π l l' := by
  induction h with
  | nil => exact ⟨id, permBy_refl _⟩
  | cons x _ ih => obtain ⟨π, hπ⟩ := ih; exact ⟨_, permBy_cons x hπ⟩
  | swap x y l => exact ⟨_, permBy_swap x y l⟩
  | trans _ _ ih1 ih2 =>
    obtain ⟨π₁, h₁⟩ := ih1
    obtain ⟨π₂, h₂⟩ := ih2
    exact ⟨_, permBy_trans h₁ h₂⟩

/-- … so: for every permutation `ps'` of the vertex list there is a remapping of the edges' endpoint positions under which
    χ² is the same (for all edges, all fixed sets) -/
theorem chi2_of_perm {ps ps' : List (Pose ℝ)} (h : ps.Perm ps') :
    ∃ π, PermBy π ps ps' ∧ ∀ (fixed fixed' : List Nat) (es : List (Edge ℝ)),
      chi2At fixed' (es.map (remap π)) (initState 0 ps') = chi2At fixed es (initState 0 ps) := by
  obtain ⟨π, hπ⟩ := permBy_of_perm h
  exact ⟨π, hπ, fun fixed fixed' es => chi2_vertexPerm hπ fixed fixed' es⟩

/-! ### non-vacuity: a concrete mixed graph listed in two orders -/

namespace Example
open GraphSlam.Props.E2E.VertexPerm

/-- vertices: an SE(2) pose (fixed), an R² landmark, a second SE(2) pose -/
def ps : List (Pose ℝ) := [.se2 fun _ => 0, .r2 fun i => (i.val : ℝ) + 1, .se2 fun i => if i.val = 2 then 1 / 2 else 1]
/-- the same vertices listed landmark first, the fixed pose last -/
def ps' : List (Pose ℝ) := [.r2 fun i => (i.val : ℝ) + 1, .se2 fun i => if i.val = 2 then 1 / 2 else 1, .se2 fun _ => 0]
/-- position `k` of `ps` is position `π k` of `ps'` -/
def π : Nat → Nat := fun k => match k with | 0 => 2 | 1 => 0 | 2 => 1 | k + 3 => k + 3
def eye : Nat → Nat → ℝ := fun a b => if a = b then 1 else 0
/-- an odometry edge pose 0 → pose 2, and the landmark (vertex 1) seen from pose 2 -/
def es : List (Edge ℝ) :=
  [.odo 0 2 (.se2 fun _ => 1) eye, .lm 2 1 (.r2 fun _ => 1 / 3) (.se2 fun _ => 0) eye]
def F : List Bool := [true, false, false]
def F' : List Bool := [false, false, true]

theorem permBy : PermBy π ps ps' where
  len := rfl
  inj := by
    intro i j hi hj h
    simp only [ps, List.length_cons, List.length_nil] at hi hj
    have hi' : i = 0 ∨ i = 1 ∨ i = 2 := by omega
    have hj' : j = 0 ∨ j = 1 ∨ j = 2 := by omega
    rcases hi' with rfl | rfl | rfl <;> rcases hj' with rfl | rfl | rfl <;> simp [π] at h ⊢
  range := by
    intro i
    match i with
    | 0 => simp [π, ps]
    | 1 => simp [π, ps]
    | 2 => simp [π, ps]
    | i + 3 => simp [π, ps]
  same := by
    intro i hi
    simp only [ps, List.length_cons, List.length_nil] at hi
    have hi' : i = 0 ∨ i = 1 ∨ i = 2 := by omega
    rcases hi' with rfl | rfl | rfl <;> rfl

theorem edgesOK : EdgesOK es where
  distinct := by
    intro e he
    simp only [es, List.mem_cons, List.not_mem_nil, or_false] at he
    rcases he with rfl | rfl <;> simp [Edge.ends]
  symm := by
    intro e he a b
    simp only [es, List.mem_cons, List.not_mem_nil, or_false] at he
    rcases he with rfl | rfl <;> simp [Edge.info, eye, eq_comm]

theorem flagsRel : FlagsRel π ps.length F F' := by
  intro k hk
  simp only [ps, List.length_cons, List.length_nil] at hk
  have hk' : k = 0 ∨ k = 1 ∨ k = 2 := by omega
  rcases hk' with rfl | rfl | rfl <;> rfl

/-- all hypotheses of the correspondence theorems hold for this instance, and both graphs are well-typed -/
example :
    Paired π (totalDim ps) (fixedIndices F ((initState 0 ps).map (·.1))) (fixedIndices F' ((initState 0 ps').map (·.1)))
        (initState 0 ps) (initState 0 ps') ∧ EdgesOK es ∧
      (system (fixedIndices F ((initState 0 ps).map (·.1))) es (initState 0 ps)).isSome = true ∧
      (system (fixedIndices F' ((initState 0 ps').map (·.1))) (es.map (remap π)) (initState 0 ps')).isSome = true := by
  have hP := paired_initState permBy F F' flagsRel
  have h1 : (system (fixedIndices F ((initState 0 ps).map (·.1))) es (initState 0 ps)).isSome = true := rfl
  refine ⟨hP, edgesOK, h1, ?_⟩
  rw [system_isSome_relayout hP.rel]; exact h1

/-- … so e.g. the block coupling the landmark (vertex 1: unknowns 3–4 in the first layout, 0–1 in the second) and the second
    pose (vertex 2: unknowns 5–7, resp. 2–4) is the same in both dense Hessians -/
example (r r' : ℝ × (Nat → ℝ) × (Nat → Nat → ℝ))
    (h : system (fixedIndices F ((initState 0 ps).map (·.1))) es (initState 0 ps) = some r)
    (h' : system (fixedIndices F' ((initState 0 ps').map (·.1))) (es.map (remap π)) (initState 0 ps') = some r')
    (a b : Nat) (ha : a < 2) (hb : b < 3) : r'.2.2 (0 + a) (2 + b) = r.2.2 (3 + a) (5 + b) :=
  hessian_vertexPerm permBy F F' flagsRel es edgesOK r r' h h' 1 2
    (3, 2, .r2 fun i => (i.val : ℝ) + 1) (5, 3, .se2 fun i => if i.val = 2 then 1 / 2 else 1)
    (0, 2, .r2 fun i => (i.val : ℝ) + 1) (2, 3, .se2 fun i => if i.val = 2 then 1 / 2 else 1)
    rfl rfl rfl rfl a b ha hb

/-- a solver that is exact in the sense of `ExactSolver` exists for every `N` -/
example (N : Nat) : ∃ solve, ExactSolver N solve := by
  classical
  exact ⟨fun H rhs => if h : ∃ x, Solves N H rhs x then Classical.choose h else fun _ => 0,
    fun H rhs h => by simp only [dif_pos h]; exact Classical.choose_spec h⟩

end Example

end
end GraphSlam.Props.E2E.VertexPerm
