import GraphSlam.Model.GraphIter
import GraphSlam.Model.Validity

/-!
# C08 — relabelling vertex ids by an injective map changes nothing (graph.py:349-351)

`Graph._initialize` resolves the vertex ids an edge names to *positions* in the vertex list through the dictionary
`{v.id: i for i, v in enumerate(vertices)}`.  Two models of that lookup exist: `Model.indexOfId` (typed-graph model,
what the driver executes before it builds `Model.Edge`s) and `Model.Validity.lastIdx` / `bind` / `bindVertices`
(constructor model of C18).  From then on the model (`linearise`, `system`, `step`, `optimizeRunOf`, …) only sees
positions: ids do not occur in `Model.Edge`, `Model.GState` or anything downstream.  Hence:

* `indexOfId_relabel`, `lastIdx_relabel`, `bind_relabel` — for an injective `f : Int → Int`, looking up `f x` among the
  relabelled ids gives the same position as looking up `x` among the original ids (also when `x` is absent, and with
  duplicate ids: "last one wins" is preserved);
* `indexOfId_eq_lastIdx` — the two models of the dictionary agree;
* `resolve_relabel` — any typed edge built from the resolved positions (as the driver does) is literally the same
  edge, so the whole model run (`optimizeRunOf` etc.), being a function of those edges, is literally unchanged;
* `bindVertices_relabel`, `bindAll_relabel`, `construct_relabel` — the constructor model: the bound vertices are the
  relabelled bound vertices, and the constructor's verdict (`ok` with the same gradient indices / `KeyError` /
  `AssertionError`) is the same, provided user-defined `is_valid` methods do not depend on the labels.
* `indexOfId_relabel_counterexample` — injectivity is needed.

Mathlib-free.
-/

namespace GraphSlam.Props.E2E.Relabel
open GraphSlam GraphSlam.Model GraphSlam.Model.Validity GraphSlam.Model.Cmp

/-! ### `Model.indexOfId` -/

theorem foldl_relabel (f : Int → Int) (hf : Function.Injective f) (x : Int) (l : List (Int × Nat)) (acc : Option Nat) :
    (l.map (Prod.map f id)).foldl (fun acc (p : Int × Nat) => if p.1 = f x then some p.2 else acc) acc
      = l.foldl (fun acc (p : Int × Nat) => if p.1 = x then some p.2 else acc) acc := by
  induction l generalizing acc with
  | nil => rfl
  | cons p l ih =>
    simp only [List.map_cons, List.foldl_cons, Prod.map_fst, Prod.map_snd, id_eq]
    have : (f p.1 = f x) = (p.1 = x) := propext ⟨fun h => hf h, fun h => by rw [h]⟩
    simp only [this]
    exact ih _

/-- **id relabelling, typed-graph model**: the dictionary lookup of `Graph._initialize` returns the same position (or the
    same `KeyError`) after all ids were relabelled by an injective map -/
theorem indexOfId_relabel (f : Int → Int) (hf : Function.Injective f) (ids : List Int) (x : Int) :
    indexOfId (ids.map f) (f x) = indexOfId ids x := by
  unfold indexOfId
  rw [List.zipIdx_map]
  exact foldl_relabel f hf x _ _

/-- what the driver (`Driver/Iter.lean`, `Rd.graph`) does with the looked-up positions: build the edge, or fail -/
def resolve {α : Type} (ids : List Int) (a b : Int) (mk : Nat → Nat → α) : Option α :=
  match indexOfId ids a, indexOfId ids b with
  | some i, some j => some (mk i j)
  | _, _ => none

/-- **every edge binds to the same positions**: the typed edge built from the resolved ids is literally the same, hence so
    is every function of the typed graph (`Model.system`, `Model.step`, `Model.optimizeRunOf`, …) -/
theorem resolve_relabel {α : Type} (f : Int → Int) (hf : Function.Injective f) (ids : List Int) (a b : Int)
    (mk : Nat → Nat → α) : resolve (ids.map f) (f a) (f b) mk = resolve ids a b mk := by
  unfold resolve
  rw [indexOfId_relabel f hf, indexOfId_relabel f hf]

/-- the whole edge list -/
theorem resolveAll_relabel {α : Type} (f : Int → Int) (hf : Function.Injective f) (ids : List Int)
    (raw : List (Int × Int × (Nat → Nat → α))) :
    (raw.map fun r => resolve (ids.map f) (f r.1) (f r.2.1) r.2.2) = raw.map fun r => resolve ids r.1 r.2.1 r.2.2 :=
  List.map_congr_left fun r _ => resolve_relabel f hf ids r.1 r.2.1 r.2.2

/-- … and therefore the whole call: `run` is any function of the resolved edges (e.g.
    `fun es => (allSome es).map (optimizeSolve tol eps maxIter ffp flags solve · ps)`) -/
theorem run_relabel {α β : Type} (f : Int → Int) (hf : Function.Injective f) (ids : List Int)
    (raw : List (Int × Int × (Nat → Nat → α))) (run : List (Option α) → β) :
    run (raw.map fun r => resolve (ids.map f) (f r.1) (f r.2.1) r.2.2) = run (raw.map fun r => resolve ids r.1 r.2.1 r.2.2) := by
  rw [resolveAll_relabel f hf]

/-! ### `Model.Validity.lastIdx`, `bind` -/

/-- **id relabelling, constructor model** -/
theorem lastIdx_relabel (f : Int → Int) (hf : Function.Injective f) (ids : List Int) (x : Int) :
    lastIdx (ids.map f) (f x) = lastIdx ids x := by
  induction ids with
  | nil => rfl
  | cons y ys ih =>
    simp only [List.map_cons, lastIdx, ih]
    have : (f y = f x) = (y = x) := propext ⟨fun h => hf h, fun h => by rw [h]⟩
    simp only [this]

/-- `[id_index_dict[v_id] for v_id in e.vertex_ids]` is unchanged: same positions, or `KeyError` in both -/
theorem bind_relabel (f : Int → Int) (hf : Function.Injective f) (ids xs : List Int) :
    Validity.bind (ids.map f) (xs.map f) = Validity.bind ids xs := by
  induction xs with
  | nil => rfl
  | cons x xs ih => simp only [List.map_cons, Validity.bind, lastIdx_relabel f hf, ih]

/-! ### the two models of the dictionary agree -/

theorem foldl_zipIdx_lastIdx (x : Int) (ids : List Int) (n : Nat) (acc : Option Nat) :
    (ids.zipIdx n).foldl (fun acc (p : Int × Nat) => if p.1 = x then some p.2 else acc) acc
      = match lastIdx ids x with
        | some j => some (n + j)
        | none => acc := by
  induction ids generalizing n acc with
  | nil => rfl
  | cons y ys ih =>
    simp only [List.zipIdx_cons, List.foldl_cons, lastIdx]
    rw [ih]
    cases h : lastIdx ys x with
    | some j => simp only [Nat.add_assoc, Nat.add_comm 1 j]
    | none =>
      by_cases hy : y = x
      · simp [hy]
      · simp [hy]

/-- `Model.indexOfId` (typed-graph model) and `Model.Validity.lastIdx` (constructor model) are the same function -/
theorem indexOfId_eq_lastIdx (ids : List Int) (x : Int) : indexOfId ids x = lastIdx ids x := by
  unfold indexOfId
  rw [foldl_zipIdx_lastIdx]
  cases lastIdx ids x <;> simp

/-! ### the constructor model as a whole -/

/-- relabel a vertex descriptor -/
def relV (f : Int → Int) (v : VertexDesc) : VertexDesc := { v with id := f v.id }
/-- relabel an edge descriptor -/
def relE (f : Int → Int) (e : EdgeDesc) : EdgeDesc := { e with vertexIds := e.vertexIds.map f }

theorem pick_map {α β : Type} (g : α → β) (vs : List α) (js : List Nat) : pick (vs.map g) js = (pick vs js).map g := by
  induction js with
  | nil => rfl
  | cons j js ih =>
    simp only [pick, List.getElem?_map]
    cases vs[j]? with
    | none => simpa using ih
    | some v => simp [ih]

/-- **`e.vertices` after binding**: the relabelled graph binds each edge to the relabelled copies of the same vertices -/
theorem bindVertices_relabel (f : Int → Int) (hf : Function.Injective f) (vs : List VertexDesc) (xs : List Int) :
    bindVertices (vs.map (relV f)) (xs.map f) = (bindVertices vs xs).map (List.map (relV f)) := by
  unfold bindVertices
  have : (vs.map (relV f)).map (·.id) = (vs.map (·.id)).map f := by
    simp [List.map_map, Function.comp, relV]
  rw [this, bind_relabel f hf]
  cases Validity.bind (vs.map (·.id)) xs with
  | error e => rfl
  | ok js => simp only [pick_map]; rfl

theorem bindAll_relabel (f : Int → Int) (hf : Function.Injective f) (vs : List VertexDesc) (es : List EdgeDesc) :
    bindAll (vs.map (relV f)) (es.map (relE f)) = (bindAll vs es).map (List.map (List.map (relV f))) := by
  induction es with
  | nil => rfl
  | cons e es ih =>
    simp only [List.map_cons, bindAll, ih]
    have : (relE f e).vertexIds = e.vertexIds.map f := rfl
    rw [this, bindVertices_relabel f hf]
    cases bindVertices vs e.vertexIds with
    | error err => rfl
    | ok b =>
      cases bindAll vs es with
      | error err => rfl
      | ok bs => rfl

theorem idsMatch_relabel (f : Int → Int) (hf : Function.Injective f) (vs : List VertexDesc) (xs : List Int) :
    idsMatch (vs.map (relV f)) (xs.map f) = idsMatch vs xs := by
  induction vs generalizing xs with
  | nil => cases xs <;> rfl
  | cons v vs ih =>
    cases xs with
    | nil => rfl
    | cons x xs =>
      simp only [List.map_cons, idsMatch, ih]
      have : (relV f v).id = f v.id := rfl
      rw [this]
      have : (f v.id ≠ f x) = (v.id ≠ x) := propext ⟨fun h e => h (by rw [e]), fun h e => h (hf e)⟩
      simp only [this]

theorem isValidBase_relabel (f : Int → Int) (hf : Function.Injective f) (e : EdgeDesc) (b : List VertexDesc) :
    isValidBase (relE f e) (some (b.map (relV f))) = isValidBase e (some b) := by
  simp only [isValidBase, relE, List.length_map, idsMatch_relabel f hf]

theorem isValidOdometry_relabel (f : Int → Int) (hf : Function.Injective f) (e : EdgeDesc) (b : List VertexDesc) :
    isValidOdometry (relE f e) (some (b.map (relV f))) = isValidOdometry e (some b) := by
  unfold isValidOdometry
  rw [isValidBase_relabel f hf]
  match b with
  | [] => rfl
  | [_] => rfl
  | [_, _] => rfl
  | _ :: _ :: _ :: _ => rfl

theorem isValidLandmark_relabel (f : Int → Int) (hf : Function.Injective f) (e : EdgeDesc) (b : List VertexDesc) :
    isValidLandmark (relE f e) (some (b.map (relV f))) = isValidLandmark e (some b) := by
  unfold isValidLandmark
  rw [isValidBase_relabel f hf]
  match b with
  | [] => rfl
  | [_] => rfl
  | [_, _] => rfl
  | _ :: _ :: _ :: _ => rfl

/-- a user-defined `is_valid` that does not look at the labels -/
def CustomInvariant (f : Int → Int) (custom : CustomValid) : Prop :=
  ∀ k e b, custom k (relE f e) (some (b.map (relV f))) = custom k e (some b)

theorem isValid_relabel (f : Int → Int) (hf : Function.Injective f) (custom : CustomValid) (hc : CustomInvariant f custom)
    (e : EdgeDesc) (b : List VertexDesc) :
    isValid custom (relE f e) (some (b.map (relV f))) = isValid custom e (some b) := by
  unfold isValid
  have : (relE f e).cls = e.cls := rfl
  rw [this]
  cases e.cls with
  | odometry => exact isValidOdometry_relabel f hf e b
  | landmark => exact isValidLandmark_relabel f hf e b
  | custom k => exact hc k e b

theorem allValid_relabel (f : Int → Int) (hf : Function.Injective f) (custom : CustomValid) (hc : CustomInvariant f custom)
    (es : List EdgeDesc) (bs : List (List VertexDesc)) :
    allValid custom (es.map (relE f)) (bs.map (List.map (relV f))) = allValid custom es bs := by
  induction es generalizing bs with
  | nil => cases bs <;> rfl
  | cons e es ih =>
    cases bs with
    | nil => rfl
    | cons b bs => simp only [List.map_cons, allValid, isValid_relabel f hf custom hc, ih]

theorem gradLoop_relabel (f : Int → Int) (vs : List VertexDesc) (acc : Nat) :
    gradLoop (vs.map (relV f)) acc = gradLoop vs acc := by
  induction vs generalizing acc with
  | nil => rfl
  | cons v vs ih =>
    simp only [List.map_cons, gradLoop, ih]
    rfl

/-- relabel the result of the constructor -/
def relB (f : Int → Int) (g : BoundGraph) : BoundGraph :=
  { g with edgeVertices := g.edgeVertices.map (List.map (relV f)) }

/-- **the constructor model commutes with an injective relabelling**: same verdict (`KeyError`, `AssertionError` or
    success), same gradient indices, and every edge bound to the relabelled copies of the same vertices -/
theorem construct_relabel (f : Int → Int) (hf : Function.Injective f) (custom : CustomValid) (hc : CustomInvariant f custom)
    (vs : List VertexDesc) (es : List EdgeDesc) :
    construct custom (vs.map (relV f)) (es.map (relE f)) = (construct custom vs es).map (relB f) := by
  unfold construct
  simp only [gradLoop_relabel, bindAll_relabel f hf]
  cases bindAll vs es with
  | error err => rfl
  | ok bound =>
    simp only [Except.map, allValid_relabel f hf custom hc]
    split <;> rfl

/-- the harness's custom edge classes are label-independent for injective `f` -/
theorem harnessCustom_invariant (f : Int → Int) (hf : Function.Injective f) : CustomInvariant f harnessCustom := by
  intro k e b
  unfold harnessCustom
  match k with
  | 0 => rfl
  | 1 => rfl
  | 2 => exact isValidBase_relabel f hf e b
  | 3 =>
    simp only [isValidBase_relabel f hf]
    match b with
    | [] => rfl
    | [_] => rfl
    | _ :: _ :: _ => rfl
  | _ + 4 => rfl

/-! ### non-vacuity, and necessity of injectivity -/

/-- ids `[7, -3, 7, 12]` (a duplicate: last one wins) relabelled by `x ↦ 2x + 5`: vertex `7` is found at position 2 in
    both labellings, an unknown id is unknown in both -/
example : indexOfId ([7, -3, 7, 12].map fun x => 2 * x + 5) (2 * 7 + 5) = some 2 ∧ indexOfId [7, -3, 7, 12] 7 = some 2 ∧
    indexOfId ([7, -3, 7, 12].map fun x => 2 * x + 5) (2 * 8 + 5) = none := by decide

example : Function.Injective (fun x : Int => 2 * x + 5) := fun a b h => by simp only at h; omega

/-- injectivity cannot be dropped: a relabelling that merges two ids rebinds an edge to another vertex -/
theorem indexOfId_relabel_counterexample :
    indexOfId ([1, 2].map fun _ => 0) ((fun _ => (0 : Int)) 1) ≠ indexOfId [1, 2] 1 := by decide

end GraphSlam.Props.E2E.Relabel
