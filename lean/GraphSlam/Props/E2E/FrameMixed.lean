import GraphSlam.Props.E2E.FrameMixed.Conj
import GraphSlam.Props.E2E.FrameMixed.Blocks
import GraphSlam.Props.E2E.FrameMixed.Dense
import GraphSlam.Props.E2E.FrameMixed.Step
import GraphSlam.Props.E2E.FrameMixed.Run
import GraphSlam.Props.E2E.FrameMixed.Helpers
import GraphSlam.Props.E2E.FrameMixed.SE2
import GraphSlam.Props.E2E.FrameMixed.SE3
import GraphSlam.Props.E2E.FrameMixed.Examples

/-!
# C07 end to end for graphs that mix SE(n) pose vertices with R^n landmark vertices

* `FrameMixed/Conj.lean`    — vocabulary (`MixedFrame`, `LinConj`), the linearisation of an edge of the transformed state,
                              conjugation of one edge's contributions;
* `FrameMixed/Blocks.lean`  — (b) block form: `H'_{uw} = R_u H_{uw} R_wᵀ`, `b'_u = R_u b_u`, `χ²' = χ²` on `Model.system`;
* `FrameMixed/Dense.lean`   — (b) dense form `H' = P H Pᵀ`, `b' = P b`, `P Pᵀ = 1`; (c) `solution_transport`, `unique_transport`;
* `FrameMixed/Step.lean`    — (d) `step_frame_mixed(_exact)`, (e) `trajectory_frame_mixed`;
* `FrameMixed/Run.lean`     — the whole `optimize()` call: `optimize_frame_mixed`;
* `FrameMixed/SE2.lean`     — (a) and the instance for SE(2) poses + R² landmarks (`*_SE2`);
* `FrameMixed/SE3.lean`     — (a) and the instance for SE(3) poses + R³ landmarks, unit quaternions (`*_SE3`);
* `FrameMixed/Examples.lean` — non-vacuity: concrete graphs (and an exact solver) satisfying every hypothesis.
-/
