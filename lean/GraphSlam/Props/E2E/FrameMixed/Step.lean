import GraphSlam.Props.E2E.FrameMixed.Dense

/-!
# C07, mixed graphs — (d) one iteration and (e) the whole trajectory commute with the frame change

`Model.step` (graph.py:466-494): assemble, `dx = solve(H, -b)`, update the free vertices by box-plus.

* `applyDx_conj`            — updating the transformed state with `P dx` gives the transform of the state updated with `dx`
                              (`(T ⊕ p) ⊞ δ = T ⊕ (p ⊞ δ)` on poses, `T·l + R_T d = T·(l + d)` on landmarks);
* `step_frame_mixed`        — (d) for two increments related by `dx' = P dx`;
* `step_frame_mixed_exact`  — (d) for a solver that returns *a* solution of both systems when the original system has at
                              most one solution (then so has the transformed one, `unique_transport`);
* `trajectory_frame_mixed`  — (e) any number of iterations, under the hypothesis that at every visited state of the
                              original run the solver is exact on both systems and the original system is uniquely solvable;
(the whole `optimize()` call is in `FrameMixed/Run.lean`: `optimize_frame_mixed`).

Unlike the all-pose case (`Props/E2E/Frame.lean`) a solver hypothesis is unavoidable: the two runs hand *different*
matrices to the solver (`H` and `P H Pᵀ`), so an arbitrary function `solve` need not return related answers.
-/

namespace GraphSlam.Props.E2E.FrameMixed
open GraphSlam GraphSlam.Gen GraphSlam.Model GraphSlam.Props.C03 GraphSlam.Props.E2E
set_option linter.unusedSimpArgs false
set_option linter.unusedVariables false
noncomputable section

/-- the solver returns a solution of the system assembled at state `s` (whenever the graph is well typed) -/
def SolverExactAt (solve : (Nat → Nat → ℝ) → (Nat → ℝ) → (Nat → ℝ)) (fixed : List Nat) (es : List (Edge ℝ))
    (s : GState ℝ) : Prop :=
  ∀ r, system fixed es s = some r → Solves (stateDim s) r.2.2 r.2.1 (solve r.2.2 (fun i => - r.2.1 i))

/-- the system assembled at state `s` has at most one solution -/
def UniqueAt (fixed : List Nat) (es : List (Edge ℝ)) (s : GState ℝ) : Prop :=
  ∀ r, system fixed es s = some r → UniqueSol (stateDim s) r.2.2 r.2.1

theorem stateDim_actState (f : Pose ℝ → Pose ℝ) (s : GState ℝ) : stateDim (actState f s) = stateDim s := by
  unfold stateDim actState
  rw [List.map_map]
  rfl

/-! ### (d) the update -/

/-- updating the transformed state with the rotated increment -/
theorem applyDx_conj (F : MixedFrame) (ps : List (Pose ℝ)) (hps : ∀ p ∈ ps, F.Good p) (fixed : List Nat) (dx dx' : Nat → ℝ)
    (hdx : ∀ i, i < stateDim (initState 0 ps) →
      dx' i = mulP (stateDim (initState 0 ps)) (Pdense F (initState 0 ps)) dx i) :
    applyDx Pose.boxplus fixed (actState F.act (initState 0 ps)) dx'
      = actState F.act (applyDx Pose.boxplus fixed (initState 0 ps) dx) := by
  unfold applyDx actState
  rw [List.map_map, List.map_map]
  apply List.map_congr_left
  intro v hv
  have hgood := initState_good F.Good 0 ps hps v hv
  have hdim := dimsOK_initState 0 ps v hv
  have hle := ((initState_cover 0 ps).1 v hv).2
  have hblk := fun a ha => mulP_block F ps v hv a ha dx
  obtain ⟨g, d, p⟩ := v
  simp only [Function.comp]
  split
  · rfl
  · simp only at hgood hdim hle hblk
    congr 2
    apply F.box p _ _ hgood
    intro t ht
    rw [hdx (g + t) (by omega), hblk t (by omega)]
    unfold rotVec
    rw [hdim]

/-- **(d) `step_frame_mixed`**: if the increment computed for the transformed graph is `P` times the increment computed
    for the original graph, one iteration of the transformed graph yields the transform of one iteration -/
theorem step_frame_mixed (F : MixedFrame) (solve : (Nat → Nat → ℝ) → (Nat → ℝ) → (Nat → ℝ)) (fixed : List Nat)
    (ps : List (Pose ℝ)) (es : List (Edge ℝ)) (hes : ∀ e ∈ es, F.EdgeOK e) (hps : ∀ p ∈ ps, F.Good p)
    (hsolve : ∀ r r', system fixed es (initState 0 ps) = some r →
      system fixed es (actState F.act (initState 0 ps)) = some r' →
      ∀ i, i < stateDim (initState 0 ps) →
        solve r'.2.2 (fun i => - r'.2.1 i) i =
          mulP (stateDim (initState 0 ps)) (Pdense F (initState 0 ps)) (solve r.2.2 (fun i => - r.2.1 i)) i) :
    step solve fixed es (actState F.act (initState 0 ps)) = (step solve fixed es (initState 0 ps)).map (actState F.act) := by
  have hsome := system_isSome_conj F fixed ps es hes hps
  unfold step
  cases h : system fixed es (initState 0 ps) with
  | none =>
    cases h' : system fixed es (actState F.act (initState 0 ps)) with
    | none => rfl
    | some r' => rw [h, h'] at hsome; simp at hsome
  | some r =>
    cases h' : system fixed es (actState F.act (initState 0 ps)) with
    | none => rw [h, h'] at hsome; simp at hsome
    | some r' =>
      simp only [Option.map_some]
      rw [applyDx_conj F ps hps fixed _ _ (hsolve r r' h h')]

/-- **(d) with an exact solver**: the solver returns a solution of each of the two systems and the original system has
    at most one solution -/
theorem step_frame_mixed_exact (F : MixedFrame) (solve : (Nat → Nat → ℝ) → (Nat → ℝ) → (Nat → ℝ)) (fixed : List Nat)
    (ps : List (Pose ℝ)) (es : List (Edge ℝ)) (hok : GraphOK ps es) (hes : ∀ e ∈ es, F.EdgeOK e) (hps : ∀ p ∈ ps, F.Good p)
    (hex : SolverExactAt solve fixed es (initState 0 ps))
    (hex' : SolverExactAt solve fixed es (actState F.act (initState 0 ps)))
    (hun : UniqueAt fixed es (initState 0 ps)) :
    step solve fixed es (actState F.act (initState 0 ps)) = (step solve fixed es (initState 0 ps)).map (actState F.act) := by
  apply step_frame_mixed F solve fixed ps es hes hps
  intro r r' h h' i hi
  have h1 := (solution_transport F fixed ps es hok hes hps r r' h h' _).mp (hex r h)
  have h2 := hex' r' h'
  rw [stateDim_actState] at h2
  exact unique_transport F fixed ps es hok hes hps r r' h h' (hun r h) _ _ h2 h1 i hi

/-! ### the states an iteration produces are again states the constructor could have built -/

theorem cdim_boxplus (p : Pose ℝ) (δ : Nat → ℝ) : (Pose.boxplus p δ).cdim = p.cdim := by
  cases p <;> rfl

theorem initState_map (φ : Nat → Pose ℝ → Pose ℝ) (hφ : ∀ g p, (φ g p).cdim = p.cdim) (g : Nat) (ps : List (Pose ℝ)) :
    (initState g ps).map (fun v => (v.1, v.2.1, φ v.1 v.2.2))
      = initState g ((initState g ps).map fun v => φ v.1 v.2.2) := by
  induction ps generalizing g with
  | nil => rfl
  | cons p ps ih =>
    simp only [initState, List.map_cons, hφ g p]
    congr 1
    exact ih _

theorem applyDx_initState (fixed : List Nat) (ps : List (Pose ℝ)) (dx : Nat → ℝ) :
    applyDx Pose.boxplus fixed (initState 0 ps) dx =
      initState 0 ((initState 0 ps).map fun v =>
        if v.1 ∈ fixed then v.2.2 else Pose.boxplus v.2.2 (fun t => dx (v.1 + t))) := by
  rw [← initState_map (fun g p => if g ∈ fixed then p else Pose.boxplus p (fun t => dx (g + t)))
    (fun g p => by split <;> simp [cdim_boxplus])]
  unfold applyDx
  apply List.map_congr_left
  intro v _
  obtain ⟨g, d, p⟩ := v
  simp only
  split <;> rfl

theorem step_initState (solve : (Nat → Nat → ℝ) → (Nat → ℝ) → (Nat → ℝ)) (fixed : List Nat) (es : List (Edge ℝ))
    (Good : Pose ℝ → Prop) (hgood : ∀ p δ, Good p → Good (Pose.boxplus p δ))
    (ps : List (Pose ℝ)) (hps : ∀ p ∈ ps, Good p) (s1 : GState ℝ) (h : step solve fixed es (initState 0 ps) = some s1) :
    ∃ ps1, s1 = initState 0 ps1 ∧ ∀ p ∈ ps1, Good p := by
  unfold step at h
  cases hsys : system fixed es (initState 0 ps) with
  | none => rw [hsys] at h; simp at h
  | some r =>
    rw [hsys] at h
    simp only [Option.map_some, Option.some.injEq] at h
    subst h
    refine ⟨_, applyDx_initState fixed ps _, ?_⟩
    intro p hp
    rw [List.mem_map] at hp
    obtain ⟨v, hv, rfl⟩ := hp
    have := initState_good Good 0 ps hps v hv
    split
    · exact this
    · exact hgood _ _ this

/-! ### (e) any number of iterations -/

/-- the solver hypothesis of the trajectory theorem at one state of the original run -/
def SolverGoodAt (F : MixedFrame) (solve : (Nat → Nat → ℝ) → (Nat → ℝ) → (Nat → ℝ)) (fixed : List Nat) (es : List (Edge ℝ))
    (s : GState ℝ) : Prop :=
  SolverExactAt solve fixed es s ∧ SolverExactAt solve fixed es (actState F.act s) ∧ UniqueAt fixed es s

/-- **(e) `trajectory_frame_mixed`**: for any number `k` of iterations, optimising the transformed graph yields the
    transform of the result of optimising the original graph, provided that at every state the original run visits
    before the `k`-th update the solver returns a solution of the system of that state and of the system of its
    transform, and the former has at most one solution -/
theorem trajectory_frame_mixed (F : MixedFrame) (solve : (Nat → Nat → ℝ) → (Nat → ℝ) → (Nat → ℝ)) (fixed : List Nat)
    (es : List (Edge ℝ)) (hdist : ∀ e ∈ es, e.ends.1 ≠ e.ends.2) (hsym : ∀ e ∈ es, ∀ a b, e.info a b = e.info b a)
    (hes : ∀ e ∈ es, F.EdgeOK e) (k : Nat) (ps : List (Pose ℝ)) (hps : ∀ p ∈ ps, F.Good p)
    (hsolver : ∀ j, j < k → ∀ sj, steps solve fixed es j (initState 0 ps) = some sj → SolverGoodAt F solve fixed es sj) :
    steps solve fixed es k (actState F.act (initState 0 ps))
      = (steps solve fixed es k (initState 0 ps)).map (actState F.act) := by
  induction k generalizing ps with
  | zero => rfl
  | succ k ih =>
    simp only [steps]
    obtain ⟨h1, h2, h3⟩ := hsolver 0 (Nat.succ_pos k) (initState 0 ps) rfl
    rw [step_frame_mixed_exact F solve fixed ps es ⟨hdist, hsym⟩ hes hps h1 h2 h3]
    cases hst : step solve fixed es (initState 0 ps) with
    | none => rfl
    | some s1 =>
      simp only [Option.map_some, Option.bind_some]
      obtain ⟨ps1, rfl, hps1⟩ := step_initState solve fixed es F.Good F.good_box ps hps s1 hst
      apply ih ps1 hps1
      intro j hj sj hsj
      apply hsolver (j + 1) (by omega) sj
      simp only [steps, hst, Option.bind_some]
      exact hsj

end
end GraphSlam.Props.E2E.FrameMixed
