import GraphSlam.Props.E2E.FrameMixed.Helpers

/-!
# C07 end to end for SE(3) graphs with R³ landmark vertices (unit quaternions)

The frame change by a rigid transform `T ∈ SE(3)` (unit quaternion): pose vertices `p ↦ T ⊕ p`, landmark vertices
`l ↦ T · l` (`PoseSE3.add_point`).  Edges: SE(3) odometry edges between pose vertices and landmark edges (R³ measurement,
SE(3) sensor offset with a unit quaternion) from a pose vertex to a landmark vertex.

* (a) `jacobians_frame_landmark_SE3_v1'` (`J' · R_T = J`, chain rule + uniqueness of the Fréchet derivative, on top of
  C01), `rotSE3_orthogonal`, `jacobians_frame_landmark_SE3_v1` (`J' = J · R_Tᵀ`), `lineariseAt_landmark_SE3`;
* `frameSE3 T hT : MixedFrame`, hence (b)–(e): `system_conjugate_SE3`, `solution_transport_SE3`,
  `step_frame_mixed_SE3`, `trajectory_frame_mixed_SE3`.
-/

namespace GraphSlam.Props.E2E.FrameMixed
open GraphSlam GraphSlam.Gen GraphSlam.Model GraphSlam.Props.C03 GraphSlam.Props.C07 GraphSlam.Props.C09 GraphSlam.Props.E2E
set_option linter.unusedSimpArgs false
set_option linter.unusedVariables false
noncomputable section

/-! ### (a) one edge -/

/-- the rotation matrix `R_T` of an SE(3) transform, as the code computes it (`jacobian_self_oplus_point_wrt_point`) -/
def rotSE3 (T : Fin 7 → ℝ) : Fin 3 → Fin 3 → ℝ := PoseSE3.jacobian_self_oplus_point_wrt_point T (fun _ => 0)

theorem rotSE3_eq (T : Fin 7 → ℝ) (l : Fin 3 → ℝ) : PoseSE3.jacobian_self_oplus_point_wrt_point T l = rotSE3 T := rfl

/-- `R_T R_Tᵀ = 1` for a unit quaternion -/
theorem rotSE3_orthogonal (T : Fin 7 → ℝ) (hT : Unit4 T) (i j : Fin 3) :
    finSum 3 (fun k => rotSE3 T i k * rotSE3 T j k) = if i = j then 1 else 0 := by
  unfold Unit4 at hT
  fin_cases i <;> fin_cases j <;>
    simp [rotSE3, finSum_three, PoseSE3.jacobian_self_oplus_point_wrt_point]
  · linear_combination (4 * (T 4 ^ 2 + T 5 ^ 2)) * hT
  · linear_combination (-4 * T 3 * T 4) * hT
  · linear_combination (-4 * T 3 * T 5) * hT
  · linear_combination (-4 * T 3 * T 4) * hT
  · linear_combination (4 * (T 3 ^ 2 + T 5 ^ 2)) * hT
  · linear_combination (-4 * T 4 * T 5) * hT
  · linear_combination (-4 * T 3 * T 5) * hT
  · linear_combination (-4 * T 4 * T 5) * hT
  · linear_combination (4 * (T 3 ^ 2 + T 4 ^ 2)) * hT

theorem dotMM_assoc {k l m n : Nat} (A : Fin k → Fin l → ℝ) (B : Fin l → Fin m → ℝ) (C : Fin m → Fin n → ℝ) :
    dotMM (dotMM A B) C = dotMM A (dotMM B C) := by
  funext i j
  simp only [dotMM, finSum_eq_sum, Finset.sum_mul, Finset.mul_sum]
  rw [Finset.sum_comm]
  apply Finset.sum_congr rfl; intro a _
  apply Finset.sum_congr rfl; intro b _
  ring

theorem dotMM_eye {m n : Nat} (A : Fin m → Fin n → ℝ) : dotMM A (eye n) = A := by
  funext i j
  simp [dotMM, finSum_eq_sum, eye]

/-- **(a)**, first form: `J' · R_T = J` — both are the Fréchet derivative (C01) of the error as a function of the
    landmark increment, which in the transformed frame is rotated by `R_T` -/
theorem jacobians_frame_landmark_SE3_v1' (T : Fin 7 → ℝ) (z : Fin 3 → ℝ) (off p0 : Fin 7 → ℝ) (l : Fin 3 → ℝ)
    (hT : Unit4 T) (h0 : Unit4 p0) (ho : Unit4 off) :
    dotMM (EdgeLandmark.calc_jacobians_SE3_1 z off (PoseSE3.add T p0) (PoseSE3.add_point T l)) (rotSE3 T)
      = EdgeLandmark.calc_jacobians_SE3_1 z off p0 l := by
  have hlin : HasFDerivAt (fun δ : Fin 3 → ℝ => dotMV (rotSE3 T) δ) (toCLM (rotSE3 T)) 0 := by
    have : (fun δ : Fin 3 → ℝ => dotMV (rotSE3 T) δ) = toCLM (rotSE3 T) := by
      funext δ i
      rw [toCLM_apply]
      simp [dotMV, finSum_eq_sum]
    rw [this]
    exact (toCLM (rotSE3 T)).hasFDerivAt
  have hg := C01.landmark_SE3_v1 z off (PoseSE3.add T p0) (PoseSE3.add_point T l)
  have hz : dotMV (rotSE3 T) (0 : Fin 3 → ℝ) = 0 := by
    funext i; simp [dotMV, finSum_eq_sum]
  have hcomp := comp_toCLM (g := fun δ => EdgeLandmark.calc_error_SE3 z off (PoseSE3.add T p0)
      (PoseR3.boxplus (PoseSE3.add_point T l) δ)) (f := fun δ => dotMV (rotSE3 T) δ) hz hg hlin
  refine jac_eq_of_fun_eq hcomp (C01.landmark_SE3_v1 z off p0 l) ?_
  funext δ
  rw [← landmark_SE3_frame T z off p0 (PoseR3.boxplus l δ) hT h0 ho]
  congr 1
  funext i
  rw [add_point_affine_SE3, rotSE3_eq]
  fin_cases i <;> simp [PoseR3.boxplus]

/-- **(a)**: the Jacobian of the landmark vertex in the transformed frame is `J · R_Tᵀ` -/
theorem jacobians_frame_landmark_SE3_v1 (T : Fin 7 → ℝ) (z : Fin 3 → ℝ) (off p0 : Fin 7 → ℝ) (l : Fin 3 → ℝ)
    (hT : Unit4 T) (h0 : Unit4 p0) (ho : Unit4 off) :
    EdgeLandmark.calc_jacobians_SE3_1 z off (PoseSE3.add T p0) (PoseSE3.add_point T l)
      = dotMM (EdgeLandmark.calc_jacobians_SE3_1 z off p0 l) (transposeM (rotSE3 T)) := by
  have horth : dotMM (rotSE3 T) (transposeM (rotSE3 T)) = eye 3 := by
    funext i j
    have := rotSE3_orthogonal T hT i j
    simp only [dotMM, transposeM, eye]
    rw [this]; simp
  rw [← jacobians_frame_landmark_SE3_v1' T z off p0 l hT h0 ho, dotMM_assoc, horth, dotMM_eye]

/-- `T·(l + d) = T·l + R_T d` -/
theorem add_point_affine_SE3' (T : Fin 7 → ℝ) (l δ : Fin 3 → ℝ) :
    PoseSE3.add_point T (PoseR3.boxplus l δ) = PoseR3.boxplus (PoseSE3.add_point T l) (dotMV (rotSE3 T) δ) := by
  funext i
  rw [add_point_affine_SE3, rotSE3_eq]
  fin_cases i <;> simp [PoseR3.boxplus]

/-! ### the frame change as a `MixedFrame` -/

def actMixSE3 (T : Fin 7 → ℝ) : Pose ℝ → Pose ℝ
  | .se3 p => .se3 (PoseSE3.add T p)
  | .r3 l => .r3 (PoseSE3.add_point T l)
  | q => q

/-- the block of a vertex: `1` for a pose vertex, `R_T` for a landmark vertex -/
def rotMixSE3 (T : Fin 7 → ℝ) : Pose ℝ → Nat → Nat → ℝ
  | .r3 _ => arrM (rotSE3 T)
  | _ => eyeR

/-- the vertices of an SE(3) graph with landmarks: poses with a unit quaternion, R³ points -/
def IsUnitSE3orR3 : Pose ℝ → Prop
  | .se3 p => Unit4 p
  | .r3 _ => True
  | _ => False

/-- the edges of an SE(3) graph with landmarks: SE(3) odometry, and landmark edges with an R³ measurement and an SE(3)
    sensor offset (unit quaternion) -/
def EdgeSE3Mixed : Edge ℝ → Prop
  | .odo _ _ (.se3 _) _ => True
  | .lm _ _ (.r3 _) (.se3 o) _ => Unit4 o
  | _ => False

/-- **(a) on the model**: `lineariseAt` of a landmark edge at the transformed estimates — same error, same χ², same
    pose-vertex Jacobian, landmark-vertex Jacobian `J · R_Tᵀ` -/
theorem lineariseAt_landmark_SE3 (T : Fin 7 → ℝ) (hT : Unit4 T) (g0 g1 i j : Nat) (z : Fin 3 → ℝ) (off a : Fin 7 → ℝ)
    (b : Fin 3 → ℝ) (info : Nat → Nat → ℝ) (ha : Unit4 a) (ho : Unit4 off) :
    lineariseAt g0 g1 (.se3 (PoseSE3.add T a)) (.r3 (PoseSE3.add_point T b)) (.lm i j (.r3 z) (.se3 off) info)
      = some (mkLin g0 g1 (EdgeLandmark.calc_error_SE3 z off a b) info (EdgeLandmark.calc_jacobians_SE3_0 z off a b)
          (dotMM (EdgeLandmark.calc_jacobians_SE3_1 z off a b) (transposeM (rotSE3 T)))) := by
  simp only [lineariseAt]
  rw [landmark_SE3_frame T z off a b hT ha ho, jacobians_frame_landmark_SE3_v0 T z off a b hT ha ho,
    jacobians_frame_landmark_SE3_v1 T z off a b hT ha ho]

theorem lin_SE3 (T : Fin 7 → ℝ) (hT : Unit4 T) (g0 g1 : Nat) (p0 p1 : Pose ℝ) (e : Edge ℝ) (he : EdgeSE3Mixed e)
    (h0 : IsUnitSE3orR3 p0) (h1 : IsUnitSE3orR3 p1) :
    OptRel (LinRel2 (rotMixSE3 T p0) (rotMixSE3 T p1) g0 p0.cdim g1 p1.cdim) (lineariseAt g0 g1 p0 p1 e)
      (lineariseAt g0 g1 (actMixSE3 T p0) (actMixSE3 T p1) e) := by
  cases e with
  | odo i j z info =>
    cases z <;> simp only [EdgeSE3Mixed] at he
    cases p0 <;> simp only [IsUnitSE3orR3] at h0 <;> cases p1 <;> simp only [IsUnitSE3orR3] at h1 <;>
      simp only [lineariseAt, actMixSE3, OptRel]
    rename_i z a b
    rw [odometry_SE3_frame T z a b hT h0, jacobians_frame_odometry_SE3_v0 T z a b hT h0,
      jacobians_frame_odometry_SE3_v1 T z a b hT h0 h1]
    exact linRel2_refl g0 g1 _ info _ _
  | lm i j z off info =>
    cases z <;> cases off <;> simp only [EdgeSE3Mixed] at he
    cases p0 <;> simp only [IsUnitSE3orR3] at h0 <;> cases p1 <;> simp only [IsUnitSE3orR3] at h1 <;>
      first
      | (simp only [actMixSE3, lineariseAt, OptRel]; done)
      | (simp only [actMixSE3, lineariseAt_landmark_SE3 T hT _ _ _ _ _ _ _ _ _ h0 he]
         simp only [lineariseAt, OptRel]
         exact ⟨rfl, rfl, rfl, rfl, _, _, _, _, rfl, rfl, fun a _ t ht => (rotCols_eye _ _ a t ht).symm,
           fun a ha t ht => arrM_dotMM_transpose _ _ a t ha ht⟩)

theorem orth_SE3 (T : Fin 7 → ℝ) (hT : Unit4 T) (p : Pose ℝ) (hp : IsUnitSE3orR3 p) (s t : Nat)
    (hs : s < p.cdim) (ht : t < p.cdim) :
    ∑ k ∈ Finset.range p.cdim, rotMixSE3 T p s k * rotMixSE3 T p t k = if s = t then 1 else 0 := by
  cases p <;> simp only [IsUnitSE3orR3] at hp
  · exact orth_arrM (rotSE3 T) (rotSE3_orthogonal T hT) s t hs ht
  · exact orth_eye _ s t hs

theorem box_SE3 (T : Fin 7 → ℝ) (hT : Unit4 T) (p : Pose ℝ) (δ δ' : Nat → ℝ) (hp : IsUnitSE3orR3 p)
    (h : ∀ t, t < p.cdim → δ' t = rotVec p.cdim (rotMixSE3 T p) δ t) :
    Pose.boxplus (actMixSE3 T p) δ' = actMixSE3 T (Pose.boxplus p δ) := by
  cases p <;> simp only [IsUnitSE3orR3] at hp
  · -- landmark: `T·l + R_T d = T·(l + d)`
    have hv : (vecN δ' : Fin 3 → ℝ) = dotMV (rotSE3 T) (vecN δ) := vecN_rotVec (rotSE3 T) δ δ' h
    simp only [Pose.boxplus, stored_eq, actMixSE3, PoseR3.iadd_boxplus, add_point_affine_SE3', hv]
  · -- pose: `(T ⊕ p) ⊞ δ = T ⊕ (p ⊞ δ)`
    have hv : (vecN δ' : Fin 6 → ℝ) = vecN δ := vecN_eye δ δ' h
    simp only [Pose.boxplus, stored_eq, actMixSE3, PoseSE3.iadd_boxplus, boxplus_frame_SE3 T _ _ hT hp, hv]

theorem good_box_SE3 (p : Pose ℝ) (δ : Nat → ℝ) (h : IsUnitSE3orR3 p) : IsUnitSE3orR3 (Pose.boxplus p δ) := by
  cases p <;> simp only [IsUnitSE3orR3] at h
  · simp [Pose.boxplus, IsUnitSE3orR3]
  · simp only [Pose.boxplus, stored_eq, IsUnitSE3orR3, PoseSE3.iadd_boxplus]
    exact unit_boxplus _ _ h

/-- the change of world frame by `T ∈ SE(3)` (unit quaternion) on a graph of SE(3) poses and R³ landmarks -/
def frameSE3 (T : Fin 7 → ℝ) (hT : Unit4 T) : MixedFrame where
  act := actMixSE3 T
  rot := rotMixSE3 T
  Good := IsUnitSE3orR3
  EdgeOK := EdgeSE3Mixed
  cdim_act := fun p => by cases p <;> rfl
  orth_row := orth_SE3 T hT
  lin := lin_SE3 T hT
  box := box_SE3 T hT
  good_box := good_box_SE3

/-! ### (b)–(e) for SE(3) graphs with R³ landmarks -/

/-- the block-diagonal matrix of the frame change on the index space of `dx`: `1` on the six indices of a pose vertex,
    `R_T` on the three indices of a landmark vertex -/
def PdenseSE3 (T : Fin 7 → ℝ) (hT : Unit4 T) (s : GState ℝ) : Nat → Nat → ℝ := Pdense (frameSE3 T hT) s

/-- **(b) `system_conjugate`, SE(3) + R³**: `H' = P H Pᵀ`, `b' = P b` (entrywise on `[0, N)`), same χ²; any fixed set -/
theorem system_conjugate_SE3 (T : Fin 7 → ℝ) (hT : Unit4 T) (fixed : List Nat) (ps : List (Pose ℝ)) (es : List (Edge ℝ))
    (hok : GraphOK ps es) (hes : ∀ e ∈ es, EdgeSE3Mixed e) (hps : ∀ p ∈ ps, IsUnitSE3orR3 p)
    (r r' : ℝ × (Nat → ℝ) × (Nat → Nat → ℝ)) (h : system fixed es (initState 0 ps) = some r)
    (h' : system fixed es (actState (actMixSE3 T) (initState 0 ps)) = some r') :
    r'.1 = r.1 ∧
    (∀ i, i < stateDim (initState 0 ps) →
      r'.2.1 i = ∑ k ∈ Finset.range (stateDim (initState 0 ps)), PdenseSE3 T hT (initState 0 ps) i k * r.2.1 k) ∧
    (∀ i j, i < stateDim (initState 0 ps) → j < stateDim (initState 0 ps) →
      r'.2.2 i j = ∑ k ∈ Finset.range (stateDim (initState 0 ps)), ∑ l ∈ Finset.range (stateDim (initState 0 ps)),
        PdenseSE3 T hT (initState 0 ps) i k * r.2.2 k l * PdenseSE3 T hT (initState 0 ps) j l) :=
  system_conjugate (frameSE3 T hT) fixed ps es hok hes hps r r' h h'

/-- `P` is orthogonal -/
theorem PdenseSE3_orthogonal (T : Fin 7 → ℝ) (hT : Unit4 T) (ps : List (Pose ℝ)) (hps : ∀ p ∈ ps, IsUnitSE3orR3 p)
    (i j : Nat) (hi : i < stateDim (initState 0 ps)) (hj : j < stateDim (initState 0 ps)) :
    ∑ k ∈ Finset.range (stateDim (initState 0 ps)),
        PdenseSE3 T hT (initState 0 ps) i k * PdenseSE3 T hT (initState 0 ps) j k
      = if i = j then 1 else 0 :=
  Pdense_orthogonal (frameSE3 T hT) ps hps i j hi hj

/-- the transformed graph is well typed iff the original is -/
theorem system_isSome_SE3 (T : Fin 7 → ℝ) (hT : Unit4 T) (fixed : List Nat) (ps : List (Pose ℝ)) (es : List (Edge ℝ))
    (hes : ∀ e ∈ es, EdgeSE3Mixed e) (hps : ∀ p ∈ ps, IsUnitSE3orR3 p) :
    (system fixed es (actState (actMixSE3 T) (initState 0 ps))).isSome = (system fixed es (initState 0 ps)).isSome :=
  system_isSome_conj (frameSE3 T hT) fixed ps es hes hps

/-- **(c) `solution_transport`, SE(3) + R³** -/
theorem solution_transport_SE3 (T : Fin 7 → ℝ) (hT : Unit4 T) (fixed : List Nat) (ps : List (Pose ℝ)) (es : List (Edge ℝ))
    (hok : GraphOK ps es) (hes : ∀ e ∈ es, EdgeSE3Mixed e) (hps : ∀ p ∈ ps, IsUnitSE3orR3 p)
    (r r' : ℝ × (Nat → ℝ) × (Nat → Nat → ℝ)) (h : system fixed es (initState 0 ps) = some r)
    (h' : system fixed es (actState (actMixSE3 T) (initState 0 ps)) = some r') (dx : Nat → ℝ) :
    Solves (stateDim (initState 0 ps)) r.2.2 r.2.1 dx ↔
      Solves (stateDim (initState 0 ps)) r'.2.2 r'.2.1
        (mulP (stateDim (initState 0 ps)) (PdenseSE3 T hT (initState 0 ps)) dx) :=
  solution_transport (frameSE3 T hT) fixed ps es hok hes hps r r' h h' dx

/-- **(d) `step_frame_mixed`, SE(3) + R³**, for two increments related by `dx' = P dx` -/
theorem step_frame_mixed_SE3 (T : Fin 7 → ℝ) (hT : Unit4 T) (solve : (Nat → Nat → ℝ) → (Nat → ℝ) → (Nat → ℝ))
    (fixed : List Nat) (ps : List (Pose ℝ)) (es : List (Edge ℝ)) (hes : ∀ e ∈ es, EdgeSE3Mixed e)
    (hps : ∀ p ∈ ps, IsUnitSE3orR3 p)
    (hsolve : ∀ r r', system fixed es (initState 0 ps) = some r →
      system fixed es (actState (actMixSE3 T) (initState 0 ps)) = some r' →
      ∀ i, i < stateDim (initState 0 ps) →
        solve r'.2.2 (fun i => - r'.2.1 i) i =
          mulP (stateDim (initState 0 ps)) (PdenseSE3 T hT (initState 0 ps)) (solve r.2.2 (fun i => - r.2.1 i)) i) :
    step solve fixed es (actState (actMixSE3 T) (initState 0 ps))
      = (step solve fixed es (initState 0 ps)).map (actState (actMixSE3 T)) :=
  step_frame_mixed (frameSE3 T hT) solve fixed ps es hes hps hsolve

/-- **(d) with an exact solver and a uniquely solvable system** -/
theorem step_frame_mixed_exact_SE3 (T : Fin 7 → ℝ) (hT : Unit4 T) (solve : (Nat → Nat → ℝ) → (Nat → ℝ) → (Nat → ℝ))
    (fixed : List Nat) (ps : List (Pose ℝ)) (es : List (Edge ℝ)) (hok : GraphOK ps es) (hes : ∀ e ∈ es, EdgeSE3Mixed e)
    (hps : ∀ p ∈ ps, IsUnitSE3orR3 p)
    (hex : SolverExactAt solve fixed es (initState 0 ps))
    (hex' : SolverExactAt solve fixed es (actState (actMixSE3 T) (initState 0 ps)))
    (hun : UniqueAt fixed es (initState 0 ps)) :
    step solve fixed es (actState (actMixSE3 T) (initState 0 ps))
      = (step solve fixed es (initState 0 ps)).map (actState (actMixSE3 T)) :=
  step_frame_mixed_exact (frameSE3 T hT) solve fixed ps es hok hes hps hex hex' hun

/-- **(e) C07 for SE(3) graphs with R³ landmark vertices, any number of iterations** (unit quaternions) -/
theorem trajectory_frame_mixed_SE3 (T : Fin 7 → ℝ) (hT : Unit4 T) (solve : (Nat → Nat → ℝ) → (Nat → ℝ) → (Nat → ℝ))
    (fixed : List Nat) (es : List (Edge ℝ)) (hdist : ∀ e ∈ es, e.ends.1 ≠ e.ends.2)
    (hsym : ∀ e ∈ es, ∀ a b, e.info a b = e.info b a) (hes : ∀ e ∈ es, EdgeSE3Mixed e) (k : Nat)
    (ps : List (Pose ℝ)) (hps : ∀ p ∈ ps, IsUnitSE3orR3 p)
    (hsolver : ∀ j, j < k → ∀ sj, steps solve fixed es j (initState 0 ps) = some sj →
      SolverExactAt solve fixed es sj ∧ SolverExactAt solve fixed es (actState (actMixSE3 T) sj) ∧ UniqueAt fixed es sj) :
    steps solve fixed es k (actState (actMixSE3 T) (initState 0 ps))
      = (steps solve fixed es k (initState 0 ps)).map (actState (actMixSE3 T)) :=
  trajectory_frame_mixed (frameSE3 T hT) solve fixed es hdist hsym hes k ps hps hsolver

/-- **C07 for a whole `optimize()` call, SE(3) graphs with R³ landmark vertices** (unit quaternions) -/
theorem optimize_frame_mixed_SE3 (T : Fin 7 → ℝ) (hT : Unit4 T) (tol eps : ℝ) (maxIter : Nat) (ffp : Bool)
    (flags : List Bool) (solve : (Nat → Nat → ℝ) → (Nat → ℝ) → (Nat → ℝ)) (es : List (Edge ℝ))
    (hdist : ∀ e ∈ es, e.ends.1 ≠ e.ends.2) (hsym : ∀ e ∈ es, ∀ a b, e.info a b = e.info b a)
    (hes : ∀ e ∈ es, EdgeSE3Mixed e) (ps : List (Pose ℝ)) (hps : ∀ p ∈ ps, IsUnitSE3orR3 p)
    (hsolver : ∀ j sj,
      iterStates (fun _ => step solve (fixedIndices (applyFixFirst ffp flags) ((initState 0 ps).map (·.1))) es)
        (initState 0 ps) j = some sj →
      SolverGoodAt (frameSE3 T hT) solve (fixedIndices (applyFixFirst ffp flags) ((initState 0 ps).map (·.1))) es sj) :
    optimizeSolve tol eps maxIter ffp flags solve es (ps.map (actMixSE3 T)) =
      (optimizeSolve tol eps maxIter ffp flags solve es ps).map fun r => (r.1, r.2.1.map (actState (actMixSE3 T)), r.2.2) :=
  optimize_frame_mixed (frameSE3 T hT) tol eps maxIter ffp flags solve es hdist hsym hes ps hps hsolver

end
end GraphSlam.Props.E2E.FrameMixed
