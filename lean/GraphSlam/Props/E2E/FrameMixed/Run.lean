import GraphSlam.Props.E2E.FrameMixed.Step

/-!
# C07, mixed graphs — the whole `optimize()` call commutes with the frame change

`Model.optimizeSolve` (graph.py:405-510: `fix_first_pose`, the loop with its stopping rule, the report) on the transformed
graph returns the same report (χ² of every visited state, number of iterations, `converged`), the same flags, and the
transform of the returned state — under the solver hypothesis of `trajectory_frame_mixed` at every state the original
run can visit.
-/

namespace GraphSlam.Props.E2E.FrameMixed
open GraphSlam GraphSlam.Gen GraphSlam.Model GraphSlam.Props.C03 GraphSlam.Props.E2E
set_option linter.unusedSimpArgs false
set_option linter.unusedVariables false
noncomputable section

/-- the visited states commute with the frame change and remain states the constructor could have built -/
theorem iterStates_frame_mixed (F : MixedFrame) (solve : (Nat → Nat → ℝ) → (Nat → ℝ) → (Nat → ℝ)) (fixed : List Nat)
    (es : List (Edge ℝ)) (hdist : ∀ e ∈ es, e.ends.1 ≠ e.ends.2) (hsym : ∀ e ∈ es, ∀ a b, e.info a b = e.info b a)
    (hes : ∀ e ∈ es, F.EdgeOK e) (ps : List (Pose ℝ)) (hps : ∀ p ∈ ps, F.Good p)
    (hsolver : ∀ j sj, iterStates (fun _ => step solve fixed es) (initState 0 ps) j = some sj →
      SolverGoodAt F solve fixed es sj) (i : Nat) :
    iterStates (fun _ => step solve fixed es) (actState F.act (initState 0 ps)) i
        = (iterStates (fun _ => step solve fixed es) (initState 0 ps) i).map (actState F.act) ∧
      (∀ sp, iterStates (fun _ => step solve fixed es) (initState 0 ps) i = some sp →
        ∃ psp, sp = initState 0 psp ∧ ∀ p ∈ psp, F.Good p) := by
  induction i with
  | zero =>
    exact ⟨rfl, fun sp h => by simp only [iterStates, Option.some.injEq] at h; subst h; exact ⟨ps, rfl, hps⟩⟩
  | succ i ih =>
    obtain ⟨ih1, ih2⟩ := ih
    simp only [iterStates]
    rw [ih1]
    cases h : iterStates (fun _ => step solve fixed es) (initState 0 ps) i with
    | none => exact ⟨rfl, fun sp hsp => by simp at hsp⟩
    | some sp =>
      obtain ⟨psp, rfl, hpsp⟩ := ih2 sp h
      obtain ⟨h1, h2, h3⟩ := hsolver i _ h
      refine ⟨?_, ?_⟩
      · simp only [Option.map_some, Option.bind_some]
        exact step_frame_mixed_exact F solve fixed psp es ⟨hdist, hsym⟩ hes hpsp h1 h2 h3
      · intro sq hsq
        simp only [Option.bind_some] at hsq
        exact step_initState solve fixed es F.Good F.good_box psp hpsp sq hsq

theorem chi2At_frame_mixed (F : MixedFrame) (fixed : List Nat) (es : List (Edge ℝ)) (hes : ∀ e ∈ es, F.EdgeOK e)
    (ps : List (Pose ℝ)) (hps : ∀ p ∈ ps, F.Good p) :
    chi2At fixed es (actState F.act (initState 0 ps)) = chi2At fixed es (initState 0 ps) := by
  have hsome := system_isSome_conj F fixed ps es hes hps
  unfold chi2At
  cases h : system fixed es (initState 0 ps) with
  | none =>
    cases h' : system fixed es (actState F.act (initState 0 ps)) with
    | none => rfl
    | some r' => rw [h, h'] at hsome; simp at hsome
  | some r =>
    cases h' : system fixed es (actState F.act (initState 0 ps)) with
    | none => rw [h, h'] at hsome; simp at hsome
    | some r' =>
      simp only [Option.map_some]
      rw [chi2_conj F fixed ps es hes hps r r' h h']

/-- **C07 for a whole `optimize()` call on a graph mixing pose and landmark vertices**: the call on the transformed
    graph returns exactly the same report and flags, and the transform of the returned state, provided that at every
    state the original run can visit the solver is exact (on the system of the state and of its transform) and the
    system has at most one solution -/
theorem optimize_frame_mixed (F : MixedFrame) (tol eps : ℝ) (maxIter : Nat) (ffp : Bool) (flags : List Bool)
    (solve : (Nat → Nat → ℝ) → (Nat → ℝ) → (Nat → ℝ)) (es : List (Edge ℝ))
    (hdist : ∀ e ∈ es, e.ends.1 ≠ e.ends.2) (hsym : ∀ e ∈ es, ∀ a b, e.info a b = e.info b a)
    (hes : ∀ e ∈ es, F.EdgeOK e) (ps : List (Pose ℝ)) (hps : ∀ p ∈ ps, F.Good p)
    (hsolver : ∀ j sj,
      iterStates (fun _ => step solve (fixedIndices (applyFixFirst ffp flags) ((initState 0 ps).map (·.1))) es)
        (initState 0 ps) j = some sj →
      SolverGoodAt F solve (fixedIndices (applyFixFirst ffp flags) ((initState 0 ps).map (·.1))) es sj) :
    optimizeSolve tol eps maxIter ffp flags solve es (ps.map F.act) =
      (optimizeSolve tol eps maxIter ffp flags solve es ps).map fun r => (r.1, r.2.1.map (actState F.act), r.2.2) := by
  unfold optimizeSolve optimizeRunOf
  rw [initState_act F.act F.cdim_act]
  have hgidx : (actState F.act (initState 0 ps)).map (·.1) = (initState 0 ps).map (·.1) := by
    simp [actState, List.map_map, Function.comp]
  simp only [hgidx]
  generalize fixedIndices (applyFixFirst ffp flags) ((initState 0 ps).map (·.1)) = fixed at hsolver
  have hit := iterStates_frame_mixed F solve fixed es hdist hsym hes ps hps hsolver
  have hseq : chi2SeqOf (fun _ => step solve fixed es) fixed es (actState F.act (initState 0 ps))
      = chi2SeqOf (fun _ => step solve fixed es) fixed es (initState 0 ps) := by
    funext i
    unfold chi2SeqOf
    obtain ⟨h1, h2⟩ := hit i
    rw [h1]
    cases h : iterStates (fun _ => step solve fixed es) (initState 0 ps) i with
    | none => rfl
    | some sp =>
      obtain ⟨psp, rfl, hpsp⟩ := h2 sp h
      simp only [Option.map_some, Option.bind_some]
      rw [chi2At_frame_mixed F fixed es hes psp hpsp]
  rw [hseq]
  cases optimizeCtl tol eps maxIter (chi2SeqOf (fun _ => step solve fixed es) fixed es (initState 0 ps)) with
  | error e => rfl
  | ok r =>
    simp only [Except.map]
    rw [(hit _).1]

end
end GraphSlam.Props.E2E.FrameMixed
