import GraphSlam.Props.E2E.FrameMixed.Blocks
import Mathlib.LinearAlgebra.Matrix.NonsingularInverse
import Mathlib.Algebra.BigOperators.Intervals

/-!
# C07, mixed graphs — (b) dense form `H' = P H Pᵀ`, `b' = P b`, and (c) transport of solutions

`Pdense F s` is the block-diagonal matrix of the frame change on the optimiser's index space `[0, N)`,
`N = stateDim s` (the length of `dx`): on the index range of a vertex it is that vertex's orthogonal block (`1` for a
pose vertex, `R_T` for a landmark vertex).

* `system_conjugate`   — `H' i j = Σ_{k,l<N} P i k · H k l · P j l`, `b' i = Σ_{k<N} P i k · b k`, `χ²' = χ²` for all `i, j < N`;
* `Pdense_orthogonal`  — `Σ_k P i k · P j k = δ_ij` on `[0, N)`;
* `solution_transport` — `dx` solves `H dx = -b` on `[0, N)` **iff** `P dx` solves `H' dx' = -b'`;
* `unique_transport`   — if the original system has at most one solution, so has the transformed one.
-/

namespace GraphSlam.Props.E2E.FrameMixed
open GraphSlam GraphSlam.Gen GraphSlam.Model GraphSlam.Props.C03 GraphSlam.Props.E2E
set_option linter.unusedSimpArgs false
set_option linter.unusedVariables false
noncomputable section

/-- the number of unknowns: the sum of the compact dimensions (the length of `dx`, graph.py:441) -/
def stateDim (s : GState ℝ) : Nat := (s.map (·.2.1)).sum

/-- the frame change on the index space of `dx`: block diagonal, the block of vertex `v` on `v`'s index range -/
def Pdense (F : MixedFrame) (s : GState ℝ) (i k : Nat) : ℝ :=
  match s.find? (fun v => decide (v.1 ≤ i ∧ i < v.1 + v.2.1)) with
  | some v => if v.1 ≤ k ∧ k < v.1 + v.2.1 then F.rot v.2.2 (i - v.1) (k - v.1) else 0
  | none => if i = k then 1 else 0

/-- `P x` on `[0, N)` -/
def mulP (N : Nat) (P : Nat → Nat → ℝ) (x : Nat → ℝ) (i : Nat) : ℝ := ∑ k ∈ Finset.range N, P i k * x k

/-- `dx` solves `H dx = -b` on `[0, N)` -/
def Solves (N : Nat) (H : Nat → Nat → ℝ) (b : Nat → ℝ) (dx : Nat → ℝ) : Prop :=
  ∀ i, i < N → ∑ k ∈ Finset.range N, H i k * dx k = - b i

/-- `H dx = -b` has at most one solution on `[0, N)` -/
def UniqueSol (N : Nat) (H : Nat → Nat → ℝ) (b : Nat → ℝ) : Prop :=
  ∀ x y, Solves N H b x → Solves N H b y → ∀ i, i < N → x i = y i

/-! ### the layout covers `[0, N)` -/

theorem stateDim_initState (g : Nat) (ps : List (Pose ℝ)) : stateDim (initState g ps) = (ps.map Pose.cdim).sum := by
  induction ps generalizing g with
  | nil => rfl
  | cons p ps ih =>
    simp only [initState, stateDim, List.map_cons, List.sum_cons]
    congr 1
    exact ih _

theorem initState_cover (g : Nat) (ps : List (Pose ℝ)) :
    (∀ v ∈ initState g ps, g ≤ v.1 ∧ v.1 + v.2.1 ≤ g + stateDim (initState g ps)) ∧
      ∀ i, g ≤ i → i < g + stateDim (initState g ps) → ∃ v ∈ initState g ps, v.1 ≤ i ∧ i < v.1 + v.2.1 := by
  induction ps generalizing g with
  | nil =>
    refine ⟨by simp [initState], ?_⟩
    intro i h1 h2
    simp [initState, stateDim] at h2
    omega
  | cons p ps ih =>
    obtain ⟨ih1, ih2⟩ := ih (g + p.cdim)
    have hd : stateDim (initState g (p :: ps)) = p.cdim + stateDim (initState (g + p.cdim) ps) := by
      simp [initState, stateDim]
    constructor
    · intro v hv
      simp only [initState, List.mem_cons] at hv
      rcases hv with rfl | hv
      · simp only; rw [hd]; omega
      · have := ih1 v hv; rw [hd]; omega
    · intro i h1 h2
      by_cases hi : i < g + p.cdim
      · exact ⟨(g, p.cdim, p), by simp [initState], h1, hi⟩
      · obtain ⟨v, hv, hv'⟩ := ih2 i (by omega) (by rw [hd] at h2; omega)
        exact ⟨v, by simp [initState, hv], hv'⟩

/-- the row of `P` through a point of a vertex's range is that vertex's block, zero elsewhere -/
theorem Pdense_block (F : MixedFrame) (ps : List (Pose ℝ)) (v : Nat × Nat × Pose ℝ) (hv : v ∈ initState 0 ps)
    (a : Nat) (ha : a < v.2.1) (k : Nat) :
    Pdense F (initState 0 ps) (v.1 + a) k =
      if v.1 ≤ k ∧ k < v.1 + v.2.1 then F.rot v.2.2 a (k - v.1) else 0 := by
  unfold Pdense
  cases h : (initState 0 ps).find? (fun w => decide (w.1 ≤ v.1 + a ∧ v.1 + a < w.1 + w.2.1)) with
  | none =>
    have := List.find?_eq_none.mp h v hv
    simp only [decide_eq_true_eq, not_and, not_lt] at this
    have := this (by omega)
    omega
  | some w =>
    have hw := List.mem_of_find?_eq_some h
    have hp := List.find?_some h
    simp only [decide_eq_true_eq] at hp
    have hlw : (w.1, w.2.1) ∈ layoutOf (initState 0 ps) := List.mem_map.mpr ⟨w, hw, rfl⟩
    have hlv : (v.1, v.2.1) ∈ layoutOf (initState 0 ps) := List.mem_map.mpr ⟨v, hv, rfl⟩
    have heq := (layout_initState 0 ps).disjoint _ hlw _ hlv (v.1 + a) hp (by unfold InIv; simp only; omega)
    have hwv : w = v := mem_unique_of_pairwise (initState_pairwise 0 ps) hw hv (Prod.mk.inj heq).1
    subst hwv
    simp only [Nat.add_sub_cancel_left]

/-- a function supported on `[g, g + d) ⊆ [0, N)` is summed over that block -/
theorem sum_range_block (N g d : Nat) (f : Nat → ℝ) (hgd : g + d ≤ N)
    (hz : ∀ k, k < N → ¬ (g ≤ k ∧ k < g + d) → f k = 0) :
    ∑ k ∈ Finset.range N, f k = ∑ t ∈ Finset.range d, f (g + t) := by
  have hsub : Finset.Ico g (g + d) ⊆ Finset.range N := by
    intro k hk
    rw [Finset.mem_Ico] at hk
    rw [Finset.mem_range]; omega
  rw [← Finset.sum_subset hsub (fun k hk hnk => hz k (Finset.mem_range.mp hk) (by
    intro hc; apply hnk; rw [Finset.mem_Ico]; exact hc))]
  rw [Finset.sum_Ico_eq_sum_range]
  simp only [Nat.add_sub_cancel_left]

/-- every index below `N` is a point of exactly one vertex range -/
theorem index_vertex (ps : List (Pose ℝ)) (i : Nat) (hi : i < stateDim (initState 0 ps)) :
    ∃ v ∈ initState 0 ps, ∃ a, a < v.2.1 ∧ i = v.1 + a ∧ v.1 + v.2.1 ≤ stateDim (initState 0 ps) := by
  obtain ⟨h1, h2⟩ := initState_cover 0 ps
  obtain ⟨v, hv, hv1, hv2⟩ := h2 i (Nat.zero_le _) (by omega)
  have := (h1 v hv).2
  exact ⟨v, hv, i - v.1, by omega, by omega, by omega⟩

/-- `(P x)` on a vertex's range is that vertex's block times the slice of `x` -/
theorem mulP_block (F : MixedFrame) (ps : List (Pose ℝ)) (v : Nat × Nat × Pose ℝ) (hv : v ∈ initState 0 ps)
    (a : Nat) (ha : a < v.2.1) (x : Nat → ℝ) :
    mulP (stateDim (initState 0 ps)) (Pdense F (initState 0 ps)) x (v.1 + a) =
      ∑ t ∈ Finset.range v.2.1, F.rot v.2.2 a t * x (v.1 + t) := by
  unfold mulP
  have hle := ((initState_cover 0 ps).1 v hv).2
  rw [sum_range_block _ v.1 v.2.1 _ (by omega)]
  · apply Finset.sum_congr rfl
    intro t ht
    rw [Finset.mem_range] at ht
    rw [Pdense_block F ps v hv a ha]
    have : v.1 ≤ v.1 + t ∧ v.1 + t < v.1 + v.2.1 := by omega
    simp only [this, and_self, if_true, Nat.add_sub_cancel_left]
  · intro k _ hk
    rw [Pdense_block F ps v hv a ha, if_neg hk, zero_mul]

/-! ### (b) in dense form -/

/-- **(b) `system_conjugate`**: the system assembled for the transformed state is the original one conjugated by the
    orthogonal block matrix `P`: `H' = P H Pᵀ`, `b' = P b` entrywise on `[0, N)`, and χ² is the same number.  Fixed
    vertices need no special treatment. -/
theorem system_conjugate (F : MixedFrame) (fixed : List Nat) (ps : List (Pose ℝ)) (es : List (Edge ℝ)) (hok : GraphOK ps es)
    (hes : ∀ e ∈ es, F.EdgeOK e) (hps : ∀ p ∈ ps, F.Good p)
    (r r' : ℝ × (Nat → ℝ) × (Nat → Nat → ℝ)) (h : system fixed es (initState 0 ps) = some r)
    (h' : system fixed es (actState F.act (initState 0 ps)) = some r') :
    r'.1 = r.1 ∧
    (∀ i, i < stateDim (initState 0 ps) →
      r'.2.1 i = ∑ k ∈ Finset.range (stateDim (initState 0 ps)), Pdense F (initState 0 ps) i k * r.2.1 k) ∧
    (∀ i j, i < stateDim (initState 0 ps) → j < stateDim (initState 0 ps) →
      r'.2.2 i j = ∑ k ∈ Finset.range (stateDim (initState 0 ps)), ∑ l ∈ Finset.range (stateDim (initState 0 ps)),
        Pdense F (initState 0 ps) i k * r.2.2 k l * Pdense F (initState 0 ps) j l) := by
  refine ⟨chi2_conj F fixed ps es hes hps r r' h h', ?_, ?_⟩
  · intro i hi
    obtain ⟨v, hv, a, ha, rfl, hle⟩ := index_vertex ps i hi
    have hlv : (v.1, v.2.1) ∈ layoutOf (initState 0 ps) := List.mem_map.mpr ⟨v, hv, rfl⟩
    have := gradient_conj F fixed ps es hok hes hps r r' h h' (v.1, v.2.1) hlv a ha
    simp only at this
    rw [this, rotAt_mem F (initState_pairwise 0 ps) hv]
    exact (mulP_block F ps v hv a ha r.2.1).symm
  · intro i j hi hj
    obtain ⟨v, hv, a, ha, rfl, hle⟩ := index_vertex ps i hi
    obtain ⟨w, hw, c, hc, rfl, hle'⟩ := index_vertex ps j hj
    have hlv : (v.1, v.2.1) ∈ layoutOf (initState 0 ps) := List.mem_map.mpr ⟨v, hv, rfl⟩
    have hlw : (w.1, w.2.1) ∈ layoutOf (initState 0 ps) := List.mem_map.mpr ⟨w, hw, rfl⟩
    have := hessian_conj F fixed ps es hok hes hps r r' h h' ⟨(v.1, v.2.1), (w.1, w.2.1), a, c, hlv, hlw, ha, hc⟩
    simp only at this
    rw [this, rotAt_mem F (initState_pairwise 0 ps) hv, rotAt_mem F (initState_pairwise 0 ps) hw, Finset.sum_product]
    symm
    -- outer sum over k: supported on v's range
    rw [sum_range_block (stateDim (initState 0 ps)) v.1 v.2.1 _ (by omega)]
    · apply Finset.sum_congr rfl
      intro s hs
      rw [Finset.mem_range] at hs
      rw [sum_range_block (stateDim (initState 0 ps)) w.1 w.2.1 _ (by omega)]
      · apply Finset.sum_congr rfl
        intro t ht
        rw [Finset.mem_range] at ht
        rw [Pdense_block F ps v hv a ha, Pdense_block F ps w hw c hc]
        have h1 : v.1 ≤ v.1 + s ∧ v.1 + s < v.1 + v.2.1 := by omega
        have h2 : w.1 ≤ w.1 + t ∧ w.1 + t < w.1 + w.2.1 := by omega
        simp only [h1, h2, and_self, if_true, Nat.add_sub_cancel_left]
      · intro l _ hl
        rw [Pdense_block F ps w hw c hc, if_neg hl, mul_zero]
    · intro k _ hk
      apply Finset.sum_eq_zero
      intro l _
      rw [Pdense_block F ps v hv a ha, if_neg hk, zero_mul, zero_mul]

/-- `P Pᵀ = 1` on `[0, N)` -/
theorem Pdense_orthogonal (F : MixedFrame) (ps : List (Pose ℝ)) (hps : ∀ p ∈ ps, F.Good p)
    (i j : Nat) (hi : i < stateDim (initState 0 ps)) (hj : j < stateDim (initState 0 ps)) :
    ∑ k ∈ Finset.range (stateDim (initState 0 ps)), Pdense F (initState 0 ps) i k * Pdense F (initState 0 ps) j k
      = if i = j then 1 else 0 := by
  obtain ⟨v, hv, a, ha, rfl, hle⟩ := index_vertex ps i hi
  obtain ⟨w, hw, c, hc, rfl, hle'⟩ := index_vertex ps j hj
  have hdv := dimsOK_initState 0 ps v hv
  rw [sum_range_block _ v.1 v.2.1 _ (by omega)]
  · by_cases hvw : v.1 = w.1
    · have hvw' : w = v := mem_unique_of_pairwise (initState_pairwise 0 ps) hw hv hvw.symm
      subst hvw'
      have : ∀ t ∈ Finset.range w.2.1,
          Pdense F (initState 0 ps) (w.1 + a) (w.1 + t) * Pdense F (initState 0 ps) (w.1 + c) (w.1 + t)
            = F.rot w.2.2 a t * F.rot w.2.2 c t := by
        intro t ht
        rw [Finset.mem_range] at ht
        rw [Pdense_block F ps w hw a ha, Pdense_block F ps w hw c hc]
        have h1 : w.1 ≤ w.1 + t ∧ w.1 + t < w.1 + w.2.1 := by omega
        simp only [h1, and_self, if_true, Nat.add_sub_cancel_left]
      rw [Finset.sum_congr rfl this, hdv]
      rw [F.orth_row w.2.2 (initState_good F.Good 0 ps hps w hw) a c (by rw [← hdv]; exact ha) (by rw [← hdv]; exact hc)]
      by_cases hac : a = c
      · simp [hac]
      · have : ¬ (w.1 + a = w.1 + c) := by omega
        simp [hac, this]
    · have hne : ¬ (v.1 + a = w.1 + c) := by
        intro heq
        have hlw : (w.1, w.2.1) ∈ layoutOf (initState 0 ps) := List.mem_map.mpr ⟨w, hw, rfl⟩
        have hlv : (v.1, v.2.1) ∈ layoutOf (initState 0 ps) := List.mem_map.mpr ⟨v, hv, rfl⟩
        have := (layout_initState 0 ps).disjoint _ hlv _ hlw (v.1 + a) (by unfold InIv; simp only; omega)
          (by unfold InIv; simp only; omega)
        exact hvw (Prod.mk.inj this).1
      rw [if_neg hne]
      apply Finset.sum_eq_zero
      intro t ht
      rw [Finset.mem_range] at ht
      rw [Pdense_block F ps w hw c hc]
      have : ¬ (w.1 ≤ v.1 + t ∧ v.1 + t < w.1 + w.2.1) := by
        intro hcov
        have hlw : (w.1, w.2.1) ∈ layoutOf (initState 0 ps) := List.mem_map.mpr ⟨w, hw, rfl⟩
        have hlv : (v.1, v.2.1) ∈ layoutOf (initState 0 ps) := List.mem_map.mpr ⟨v, hv, rfl⟩
        have := (layout_initState 0 ps).disjoint _ hlv _ hlw (v.1 + t) (by unfold InIv; simp only; omega) hcov
        exact hvw (Prod.mk.inj this).1
      rw [if_neg this, mul_zero]
  · intro k _ hk
    rw [Pdense_block F ps v hv a ha, if_neg hk, zero_mul]

/-! ### (c) transport of solutions: matrix algebra on `Fin N` -/

section algebra
open Matrix
variable {N : Nat} (Hm H'm Pm : Matrix (Fin N) (Fin N) ℝ) (bm b'm : Fin N → ℝ)

theorem mat_transport (hH : H'm = Pm * Hm * Pmᵀ) (hb : b'm = Pm *ᵥ bm) (hP : Pm * Pmᵀ = 1) (x : Fin N → ℝ) :
    Hm *ᵥ x = -bm ↔ H'm *ᵥ (Pm *ᵥ x) = -b'm := by
  have hP' : Pmᵀ * Pm = 1 := mul_eq_one_comm.mp hP
  have key : H'm *ᵥ (Pm *ᵥ x) = Pm *ᵥ (Hm *ᵥ x) := by
    rw [hH, mulVec_mulVec, mulVec_mulVec, Matrix.mul_assoc, Matrix.mul_assoc, hP', Matrix.mul_one]
  rw [key, hb]
  constructor
  · intro h; rw [h, mulVec_neg]
  · intro h
    have : Pmᵀ *ᵥ (Pm *ᵥ (Hm *ᵥ x)) = Pmᵀ *ᵥ (-(Pm *ᵥ bm)) := by rw [h]
    rw [mulVec_mulVec, mulVec_mulVec, hP', Matrix.one_mul, mulVec_neg, mulVec_mulVec, hP',
      one_mulVec] at this
    exact this

theorem mat_unique_transport (hH : H'm = Pm * Hm * Pmᵀ) (hb : b'm = Pm *ᵥ bm) (hP : Pm * Pmᵀ = 1)
    (hu : ∀ x y : Fin N → ℝ, Hm *ᵥ x = -bm → Hm *ᵥ y = -bm → x = y) :
    ∀ x y : Fin N → ℝ, H'm *ᵥ x = -b'm → H'm *ᵥ y = -b'm → x = y := by
  intro x y hx hy
  have hxx : Pm *ᵥ (Pmᵀ *ᵥ x) = x := by rw [mulVec_mulVec, hP, one_mulVec]
  have hyy : Pm *ᵥ (Pmᵀ *ᵥ y) = y := by rw [mulVec_mulVec, hP, one_mulVec]
  have h1 := (mat_transport Hm H'm Pm bm b'm hH hb hP (Pmᵀ *ᵥ x)).mpr (by rw [hxx]; exact hx)
  have h2 := (mat_transport Hm H'm Pm bm b'm hH hb hP (Pmᵀ *ᵥ y)).mpr (by rw [hyy]; exact hy)
  rw [← hxx, ← hyy, hu _ _ h1 h2]

end algebra

/-- restriction of the `Nat`-indexed arrays to `Fin N` -/
def matOf (N : Nat) (H : Nat → Nat → ℝ) : Matrix (Fin N) (Fin N) ℝ := fun i j => H i.val j.val
def vecOf (N : Nat) (x : Nat → ℝ) : Fin N → ℝ := fun i => x i.val
def extOf (N : Nat) (x : Fin N → ℝ) : Nat → ℝ := fun i => if h : i < N then x ⟨i, h⟩ else 0

theorem vecOf_extOf (N : Nat) (x : Fin N → ℝ) : vecOf N (extOf N x) = x := by
  funext i; simp [vecOf, extOf]

theorem solves_iff_mat (N : Nat) (H : Nat → Nat → ℝ) (b x : Nat → ℝ) :
    Solves N H b x ↔ Matrix.mulVec (matOf N H) (vecOf N x) = -(vecOf N b) := by
  unfold Solves
  constructor
  · intro h
    funext i
    have := h i.val i.isLt
    rw [Finset.sum_range] at this
    simpa [Matrix.mulVec, dotProduct, matOf, vecOf] using this
  · intro h i hi
    have := congrFun h ⟨i, hi⟩
    rw [Finset.sum_range]
    simpa [Matrix.mulVec, dotProduct, matOf, vecOf] using this

theorem vecOf_mulP (N : Nat) (P : Nat → Nat → ℝ) (x : Nat → ℝ) :
    vecOf N (mulP N P x) = Matrix.mulVec (matOf N P) (vecOf N x) := by
  funext i
  simp only [vecOf, mulP, Matrix.mulVec, dotProduct, matOf]
  rw [Finset.sum_range]

/-- the three dense facts, as matrix identities on `Fin N` -/
theorem mat_facts (F : MixedFrame) (fixed : List Nat) (ps : List (Pose ℝ)) (es : List (Edge ℝ)) (hok : GraphOK ps es)
    (hes : ∀ e ∈ es, F.EdgeOK e) (hps : ∀ p ∈ ps, F.Good p)
    (r r' : ℝ × (Nat → ℝ) × (Nat → Nat → ℝ)) (h : system fixed es (initState 0 ps) = some r)
    (h' : system fixed es (actState F.act (initState 0 ps)) = some r') :
    matOf (stateDim (initState 0 ps)) r'.2.2 =
        matOf (stateDim (initState 0 ps)) (Pdense F (initState 0 ps)) * matOf (stateDim (initState 0 ps)) r.2.2 *
          (matOf (stateDim (initState 0 ps)) (Pdense F (initState 0 ps))).transpose ∧
      vecOf (stateDim (initState 0 ps)) r'.2.1 =
        Matrix.mulVec (matOf (stateDim (initState 0 ps)) (Pdense F (initState 0 ps))) (vecOf (stateDim (initState 0 ps)) r.2.1) ∧
      matOf (stateDim (initState 0 ps)) (Pdense F (initState 0 ps)) *
        (matOf (stateDim (initState 0 ps)) (Pdense F (initState 0 ps))).transpose = 1 := by
  obtain ⟨_, hb, hH⟩ := system_conjugate F fixed ps es hok hes hps r r' h h'
  refine ⟨?_, ?_, ?_⟩
  · funext i j
    have := hH i.val j.val i.isLt j.isLt
    simp only [matOf] at this ⊢
    rw [this, Matrix.mul_apply]
    simp only [Matrix.mul_apply, Matrix.transpose_apply, matOf]
    rw [Finset.sum_range, Finset.sum_comm]
    simp only [Finset.sum_range (fun l => _), Finset.sum_mul]
  · funext i
    have := hb i.val i.isLt
    simp only [vecOf] at this ⊢
    rw [this, Finset.sum_range]
    simp [Matrix.mulVec, dotProduct, matOf, vecOf]
  · funext i j
    have := Pdense_orthogonal F ps hps i.val j.val i.isLt j.isLt
    rw [Matrix.mul_apply]
    simp only [Matrix.transpose_apply, matOf]
    rw [← Finset.sum_range (fun k => Pdense F (initState 0 ps) i.val k * Pdense F (initState 0 ps) j.val k), this]
    simp [Matrix.one_apply, Fin.ext_iff]

/-- **(c) `solution_transport`**: `dx` solves the system of the original state **iff** `P dx` solves the system of the
    transformed state (`H dx = -b` on `[0, N)`, the equations `spsolve` is asked to solve at graph.py:478) -/
theorem solution_transport (F : MixedFrame) (fixed : List Nat) (ps : List (Pose ℝ)) (es : List (Edge ℝ)) (hok : GraphOK ps es)
    (hes : ∀ e ∈ es, F.EdgeOK e) (hps : ∀ p ∈ ps, F.Good p)
    (r r' : ℝ × (Nat → ℝ) × (Nat → Nat → ℝ)) (h : system fixed es (initState 0 ps) = some r)
    (h' : system fixed es (actState F.act (initState 0 ps)) = some r') (dx : Nat → ℝ) :
    Solves (stateDim (initState 0 ps)) r.2.2 r.2.1 dx ↔
      Solves (stateDim (initState 0 ps)) r'.2.2 r'.2.1
        (mulP (stateDim (initState 0 ps)) (Pdense F (initState 0 ps)) dx) := by
  obtain ⟨hH, hb, hP⟩ := mat_facts F fixed ps es hok hes hps r r' h h'
  rw [solves_iff_mat, solves_iff_mat, vecOf_mulP]
  exact mat_transport _ _ _ _ _ hH hb hP _

/-- uniqueness is transported as well: if `H dx = -b` has at most one solution, so has `H' dx' = -b'` -/
theorem unique_transport (F : MixedFrame) (fixed : List Nat) (ps : List (Pose ℝ)) (es : List (Edge ℝ)) (hok : GraphOK ps es)
    (hes : ∀ e ∈ es, F.EdgeOK e) (hps : ∀ p ∈ ps, F.Good p)
    (r r' : ℝ × (Nat → ℝ) × (Nat → Nat → ℝ)) (h : system fixed es (initState 0 ps) = some r)
    (h' : system fixed es (actState F.act (initState 0 ps)) = some r')
    (hu : UniqueSol (stateDim (initState 0 ps)) r.2.2 r.2.1) :
    UniqueSol (stateDim (initState 0 ps)) r'.2.2 r'.2.1 := by
  obtain ⟨hH, hb, hP⟩ := mat_facts F fixed ps es hok hes hps r r' h h'
  have hum : ∀ x y : Fin (stateDim (initState 0 ps)) → ℝ,
      Matrix.mulVec (matOf _ r.2.2) x = -(vecOf _ r.2.1) → Matrix.mulVec (matOf _ r.2.2) y = -(vecOf _ r.2.1) → x = y := by
    intro x y hx hy
    have h1 := (solves_iff_mat _ r.2.2 r.2.1 (extOf _ x)).mpr (by rw [vecOf_extOf]; exact hx)
    have h2 := (solves_iff_mat _ r.2.2 r.2.1 (extOf _ y)).mpr (by rw [vecOf_extOf]; exact hy)
    funext i
    have := hu _ _ h1 h2 i.val i.isLt
    simpa [extOf] using this
  have hum' := mat_unique_transport _ _ _ _ _ hH hb hP hum
  intro x y hx hy i hi
  have := hum' _ _ ((solves_iff_mat _ _ _ _).mp hx) ((solves_iff_mat _ _ _ _).mp hy)
  exact congrFun this ⟨i, hi⟩

end
end GraphSlam.Props.E2E.FrameMixed
