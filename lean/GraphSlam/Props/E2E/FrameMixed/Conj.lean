import GraphSlam.Props.E2E.Step
import GraphSlam.Props.E2E.Frame

/-!
# C07 for graphs that mix pose vertices with landmark vertices — (b) the assembled system is conjugated, block by block

`Props/E2E/Frame.lean` covers graphs whose vertices are all poses of one class: there the linearisation of every edge is
*literally the same* in both world frames.  When SE(n) pose vertices are mixed with R^n landmark vertices this is no
longer true: the error and the Jacobian of the pose vertex are unchanged, but the Jacobian of the landmark vertex is
multiplied by `R_Tᵀ` on the right.  This file proves, for the model `Model.system` (graph.py:367-412) and any frame
action packaged as a `MixedFrame`:

* `linearise_conj`  — every (well-typed) edge of the transformed state linearises to the same error, information and χ²
  and to Jacobians `J_x · (R_x)ᵀ`, `R_x` the orthogonal block of the vertex (`1` for poses, `R_T` for landmarks);
* `hessian_conj`, `gradient_conj` — hence the dense `H'`, `b'` of the transformed state are, block by block,
  `H'[u,w] = R_u · H[u,w] · R_wᵀ` and `b'[u] = R_u · b[u]`, **fixed vertices included** (their identity / zero blocks are
  invariant because `R_u R_uᵀ = 1`);
* `chi2_conj` — χ² is the same number.

The dense form `H' = P H Pᵀ`, `b' = P b` and the transport of solutions are in `FrameMixed/Dense.lean`.
-/

namespace GraphSlam.Props.E2E.FrameMixed
open GraphSlam GraphSlam.Gen GraphSlam.Model GraphSlam.Props.C03 GraphSlam.Props.E2E
set_option linter.unusedSimpArgs false
set_option linter.unusedVariables false
noncomputable section

/-! ### vocabulary -/

/-- entry `(a, t)` of `J · Rᵀ` for a `· × d` Jacobian and a `d × d` block -/
def rotCols (d : Nat) (R : Nat → Nat → ℝ) (J : Nat → Nat → ℝ) (a t : Nat) : ℝ := ∑ k ∈ Finset.range d, J a k * R t k

/-- entry `t` of `R · v` -/
def rotVec (d : Nat) (R : Nat → Nat → ℝ) (v : Nat → ℝ) (t : Nat) : ℝ := ∑ k ∈ Finset.range d, R t k * v k

/-- both absent, or both present and related -/
def OptRel {α : Type} (R : α → α → Prop) : Option α → Option α → Prop
  | none, none => True
  | some a, some b => R a b
  | _, _ => False

/-- the linearisation `l'` of a binary edge in the transformed frame against `l` in the original one: same error, χ²,
    information; Jacobians multiplied on the right by the transposes of the vertices' blocks -/
structure LinRel2 (R0 R1 : Nat → Nat → ℝ) (g0 d0 g1 d1 : Nat) (l l' : EdgeLin ℝ) : Prop where
  m : l'.m = l.m
  chi2 : l'.chi2 = l.chi2
  err : l'.err = l.err
  info : l'.info = l.info
  verts : ∃ J0 J1 J0' J1', l.verts = [(g0, d0, J0), (g1, d1, J1)] ∧ l'.verts = [(g0, d0, J0'), (g1, d1, J1')] ∧
    (∀ a, a < l.m → ∀ t, t < d0 → J0' a t = rotCols d0 R0 J0 a t) ∧
    (∀ a, a < l.m → ∀ t, t < d1 → J1' a t = rotCols d1 R1 J1 a t)

/-- a change of world frame on a typed graph: what it does to a vertex estimate (`act`), the orthogonal block by which
    the increments of that vertex are rotated (`rot`; the identity for pose vertices), the invariant the estimates must
    satisfy (`Good`, e.g. unit quaternions) and the edge classes it is compatible with (`EdgeOK`) -/
structure MixedFrame where
  act : Pose ℝ → Pose ℝ
  rot : Pose ℝ → Nat → Nat → ℝ
  Good : Pose ℝ → Prop
  EdgeOK : Edge ℝ → Prop
  cdim_act : ∀ p, (act p).cdim = p.cdim
  /-- rows of a block are orthonormal -/
  orth_row : ∀ p, Good p → ∀ s t, s < p.cdim → t < p.cdim →
    ∑ k ∈ Finset.range p.cdim, rot p s k * rot p t k = if s = t then 1 else 0
  /-- (a): the linearisation of an edge at the transformed estimates -/
  lin : ∀ g0 g1 p0 p1 e, EdgeOK e → Good p0 → Good p1 →
    OptRel (LinRel2 (rot p0) (rot p1) g0 p0.cdim g1 p1.cdim) (lineariseAt g0 g1 p0 p1 e) (lineariseAt g0 g1 (act p0) (act p1) e)
  /-- box-plus with the rotated increment is the transform of box-plus -/
  box : ∀ p δ δ', Good p → (∀ t, t < p.cdim → δ' t = rotVec p.cdim (rot p) δ t) →
    Pose.boxplus (act p) δ' = act (Pose.boxplus p δ)
  good_box : ∀ p δ, Good p → Good (Pose.boxplus p δ)

/-- the block of the vertex with gradient index `g` in state `s` -/
def rotAt (F : MixedFrame) (s : GState ℝ) (g : Nat) : Nat → Nat → ℝ :=
  match s.find? (fun v => v.1 = g) with
  | some v => F.rot v.2.2
  | none => fun _ _ => 0

theorem mem_unique_of_pairwise {s : GState ℝ} (hpw : s.Pairwise (fun v w => v.1 < w.1)) {v w : Nat × Nat × Pose ℝ}
    (hv : v ∈ s) (hw : w ∈ s) (h : v.1 = w.1) : v = w := by
  induction s with
  | nil => simp at hv
  | cons a s ih =>
    rw [List.pairwise_cons] at hpw
    simp only [List.mem_cons] at hv hw
    rcases hv with rfl | hv <;> rcases hw with rfl | hw
    · rfl
    · have := hpw.1 w hw; omega
    · have := hpw.1 v hv; omega
    · exact ih hpw.2 hv hw

theorem rotAt_mem (F : MixedFrame) {s : GState ℝ} (hpw : s.Pairwise (fun v w => v.1 < w.1)) {v : Nat × Nat × Pose ℝ}
    (hv : v ∈ s) : rotAt F s v.1 = F.rot v.2.2 := by
  unfold rotAt
  cases h : s.find? (fun w => w.1 = v.1) with
  | none =>
    have := List.find?_eq_none.mp h v hv
    simp at this
  | some w =>
    have hw := List.mem_of_find?_eq_some h
    have hp := List.find?_some h
    simp only [decide_eq_true_eq] at hp
    rw [mem_unique_of_pairwise hpw hw hv hp]

/-- the Jacobian of one vertex of an edge against its Jacobian in the original frame -/
def VertRot (m : Nat) (Rg : Nat → Nat → Nat → ℝ) (x x' : Nat × Nat × (Nat → Nat → ℝ)) : Prop :=
  x'.1 = x.1 ∧ x'.2.1 = x.2.1 ∧ ∀ a, a < m → ∀ t, t < x.2.1 → x'.2.2 a t = rotCols x.2.1 (Rg x.1) x.2.2 a t

/-- `LinRel2` with the blocks looked up by gradient index, for edges of any arity -/
structure LinConj (Rg : Nat → Nat → Nat → ℝ) (l l' : EdgeLin ℝ) : Prop where
  m : l'.m = l.m
  chi2 : l'.chi2 = l.chi2
  err : l'.err = l.err
  info : l'.info = l.info
  verts : List.Forall₂ (VertRot l.m Rg) l.verts l'.verts

/-! ### the linearisation of an edge of the transformed state -/

theorem pairwise_actState (f : Pose ℝ → Pose ℝ) {s : GState ℝ} (hpw : s.Pairwise (fun v w => v.1 < w.1)) :
    (actState f s).Pairwise (fun v w => v.1 < w.1) := by
  unfold actState
  rw [List.pairwise_map]
  exact hpw

/-- **(a) on the state**: an edge of the transformed state linearises to the conjugate of its linearisation -/
theorem linearise_conj (F : MixedFrame) (s : GState ℝ) (hs : ∀ v ∈ s, F.Good v.2.2)
    (hpw : s.Pairwise (fun v w => v.1 < w.1)) (e : Edge ℝ) (he : F.EdgeOK e) :
    OptRel (LinConj (rotAt F s)) (linearise s e) (linearise (actState F.act s) e) := by
  unfold linearise
  rw [actState_getElem?, actState_getElem?]
  cases h0 : s[e.ends.1]? with
  | none => simp [OptRel]
  | some v0 =>
    cases h1 : s[e.ends.2]? with
    | none => simp [OptRel]
    | some v1 =>
      have m0 := List.mem_of_getElem? h0
      have m1 := List.mem_of_getElem? h1
      have r0 := rotAt_mem F hpw m0
      have r1 := rotAt_mem F hpw m1
      obtain ⟨g0, d0, p0⟩ := v0
      obtain ⟨g1, d1, p1⟩ := v1
      simp only [Option.map_some]
      have hl := F.lin g0 g1 p0 p1 e he (hs _ m0) (hs _ m1)
      simp only at r0 r1
      cases ha : lineariseAt g0 g1 p0 p1 e with
      | none =>
        cases hb : lineariseAt g0 g1 (F.act p0) (F.act p1) e with
        | none => simp [OptRel]
        | some l' => rw [ha, hb] at hl; simp [OptRel] at hl
      | some l =>
        cases hb : lineariseAt g0 g1 (F.act p0) (F.act p1) e with
        | none => rw [ha, hb] at hl; simp [OptRel] at hl
        | some l' =>
          rw [ha, hb] at hl
          simp only [OptRel] at hl ⊢
          obtain ⟨hm, hc, herr, hinfo, J0, J1, J0', J1', hv, hv', hJ0, hJ1⟩ := hl
          refine ⟨hm, hc, herr, hinfo, ?_⟩
          rw [hv, hv']
          refine List.Forall₂.cons ⟨rfl, rfl, ?_⟩ (List.Forall₂.cons ⟨rfl, rfl, ?_⟩ List.Forall₂.nil)
          · intro a ha t ht; simp only [r0]; exact hJ0 a ha t ht
          · intro a ha t ht; simp only [r1]; exact hJ1 a ha t ht

theorem allSome_rel {α β : Type} (R : β → β → Prop) (f f' : α → Option β) (es : List α)
    (h : ∀ e ∈ es, OptRel R (f e) (f' e)) :
    OptRel (List.Forall₂ R) (allSome (es.map f)) (allSome (es.map f')) := by
  induction es with
  | nil => simp [allSome, OptRel]
  | cons e es ih =>
    have he := h e (by simp)
    have ih' := ih (fun x hx => h x (by simp [hx]))
    simp only [List.map_cons]
    cases ha : f e with
    | none =>
      cases hb : f' e with
      | none => simp [allSome, OptRel]
      | some b => rw [ha, hb] at he; simp [OptRel] at he
    | some a =>
      cases hb : f' e with
      | none => rw [ha, hb] at he; simp [OptRel] at he
      | some b =>
        rw [ha, hb] at he
        simp only [OptRel] at he
        simp only [allSome]
        cases hc : allSome (es.map f) with
        | none =>
          cases hd : allSome (es.map f') with
          | none => simp [OptRel]
          | some r' => rw [hc, hd] at ih'; simp [OptRel] at ih'
        | some r =>
          cases hd : allSome (es.map f') with
          | none => rw [hc, hd] at ih'; simp [OptRel] at ih'
          | some r' =>
            rw [hc, hd] at ih'
            simp only [OptRel] at ih' ⊢
            simp only [Option.map_some, OptRel]
            exact List.Forall₂.cons he ih'

/-! ### sums -/

theorem forall₂_sum {α β : Type} {R : α → β → Prop} {l : List α} {l' : List β} (h : List.Forall₂ R l l')
    (f : α → ℝ) (f' : β → ℝ) (hf : ∀ x x', x ∈ l → R x x' → f' x' = f x) : (l'.map f').sum = (l.map f).sum := by
  induction h with
  | nil => rfl
  | cons hx _ ih =>
    simp only [List.map_cons, List.sum_cons]
    rw [ih (fun x x' hm hr => hf x x' (List.mem_cons_of_mem _ hm) hr), hf _ _ (List.mem_cons_self) hx]

/-- a finite linear combination commutes with a list sum -/
theorem list_sum_lin {α κ : Type} (l : List α) (S : Finset κ) (c d : κ → ℝ) (f : κ → α → ℝ) :
    (l.map fun x => ∑ k ∈ S, c k * f k x * d k).sum = ∑ k ∈ S, c k * (l.map (f k)).sum * d k := by
  induction l with
  | nil => simp
  | cons a l ih =>
    simp only [List.map_cons, List.sum_cons, ih, ← Finset.sum_add_distrib]
    apply Finset.sum_congr rfl
    intro k _
    ring

theorem sum3_rotate (A B C : Finset Nat) (f : Nat → Nat → Nat → ℝ) :
    ∑ b ∈ A, ∑ a ∈ B, ∑ k ∈ C, f b a k = ∑ k ∈ C, ∑ b ∈ A, ∑ a ∈ B, f b a k := by
  calc ∑ b ∈ A, ∑ a ∈ B, ∑ k ∈ C, f b a k = ∑ b ∈ A, ∑ k ∈ C, ∑ a ∈ B, f b a k :=
        Finset.sum_congr rfl (fun b _ => Finset.sum_comm)
    _ = ∑ k ∈ C, ∑ b ∈ A, ∑ a ∈ B, f b a k := Finset.sum_comm

/-- `(J_x R_xᵀ)ᵀ Ω (J_y R_yᵀ) = R_x (J_xᵀ Ω J_y) R_yᵀ`, entrywise -/
theorem pairEntry_conj (Rg : Nat → Nat → Nat → ℝ) (e e' : EdgeLin ℝ) (hm : e'.m = e.m) (hinfo : e'.info = e.info)
    (x x' y y' : Nat × Nat × (Nat → Nat → ℝ)) (hx : VertRot e.m Rg x x') (hy : VertRot e.m Rg y y')
    (s t : Nat) (hs : s < x.2.1) (ht : t < y.2.1) :
    pairEntry e' x' y' s t =
      ∑ k ∈ Finset.range x.2.1 ×ˢ Finset.range y.2.1, Rg x.1 s k.1 * pairEntry e x y k.1 k.2 * Rg y.1 t k.2 := by
  rw [Finset.sum_product, pairEntry_eq, hm, hinfo]
  have h1 : ∀ b ∈ Finset.range e.m, ∀ a ∈ Finset.range e.m,
      x'.2.2 a s * e.info a b * y'.2.2 b t
        = ∑ k ∈ Finset.range x.2.1, ∑ k' ∈ Finset.range y.2.1,
            Rg x.1 s k * (x.2.2 a k * e.info a b * y.2.2 b k') * Rg y.1 t k' := by
    intro b hb a ha
    rw [hx.2.2 a (Finset.mem_range.mp ha) s hs, hy.2.2 b (Finset.mem_range.mp hb) t ht]
    unfold rotCols
    rw [Finset.sum_mul, Finset.sum_mul]
    apply Finset.sum_congr rfl
    intro k _
    rw [Finset.mul_sum]
    apply Finset.sum_congr rfl
    intro k' _
    ring
  rw [Finset.sum_congr rfl (fun b hb => Finset.sum_congr rfl (fun a ha => h1 b hb a ha))]
  rw [sum3_rotate]
  apply Finset.sum_congr rfl
  intro k _
  rw [sum3_rotate]
  apply Finset.sum_congr rfl
  intro k' _
  rw [pairEntry_eq, Finset.mul_sum, Finset.sum_mul]
  apply Finset.sum_congr rfl
  intro b _
  rw [Finset.mul_sum, Finset.sum_mul]

theorem list_sum_lin1 {α κ : Type} (l : List α) (S : Finset κ) (c : κ → ℝ) (f : κ → α → ℝ) :
    (l.map fun x => ∑ k ∈ S, c k * f k x).sum = ∑ k ∈ S, c k * (l.map (f k)).sum := by
  induction l with
  | nil => simp
  | cons a l ih =>
    simp only [List.map_cons, List.sum_cons, ih, ← Finset.sum_add_distrib]
    apply Finset.sum_congr rfl
    intro k _
    ring

theorem ordered_conj (Rg : Nat → Nat → Nat → ℝ) (e e' : EdgeLin ℝ) (hm : e'.m = e.m) (hinfo : e'.info = e.info)
    (x x' y y' : Nat × Nat × (Nat → Nat → ℝ)) (hx : VertRot e.m Rg x x') (hy : VertRot e.m Rg y y')
    (a b da db s t : Nat) (hda : x.1 = a → x.2.1 = da) (hdb : y.1 = b → y.2.1 = db) (hs : s < da) (ht : t < db) :
    ordered e' a b s t x' y' =
      ∑ k ∈ Finset.range da ×ˢ Finset.range db, Rg a s k.1 * ordered e a b k.1 k.2 x y * Rg b t k.2 := by
  unfold ordered
  rw [hx.1, hy.1]
  by_cases h : x.1 = a ∧ y.1 = b
  · simp only [h, and_self, if_true]
    obtain ⟨h1, h2⟩ := h
    have := pairEntry_conj Rg e e' hm hinfo x x' y y' hx hy s t (by rw [hda h1]; exact hs) (by rw [hdb h2]; exact ht)
    rw [this, hda h1, hdb h2, h1, h2]
  · simp [h]

/-- one edge's block of `J̄ᵀ Ω J̄` in the transformed frame -/
theorem edge_ordered_conj (Rg : Nat → Nat → Nat → ℝ) (e e' : EdgeLin ℝ) (hc : LinConj Rg e e')
    (a b da db s t : Nat) (hda : ∀ x ∈ e.verts, x.1 = a → x.2.1 = da) (hdb : ∀ y ∈ e.verts, y.1 = b → y.2.1 = db)
    (hs : s < da) (ht : t < db) :
    (e'.verts.map fun x' => (e'.verts.map fun y' => ordered e' a b s t x' y').sum).sum =
      ∑ k ∈ Finset.range da ×ˢ Finset.range db,
        Rg a s k.1 * (e.verts.map fun x => (e.verts.map fun y => ordered e a b k.1 k.2 x y).sum).sum * Rg b t k.2 := by
  rw [← list_sum_lin]
  apply forall₂_sum hc.verts
  intro x x' hxm hxx'
  rw [← list_sum_lin]
  apply forall₂_sum hc.verts
  intro y y' hym hyy'
  exact ordered_conj Rg e e' hc.m hc.info x x' y y' hxx' hyy' a b da db s t (hda x hxm) (hdb y hym) hs ht

theorem gradContrib_conj (Rg : Nat → Nat → Nat → ℝ) (e e' : EdgeLin ℝ) (hc : LinConj Rg e e')
    (x x' : Nat × Nat × (Nat → Nat → ℝ)) (hx : VertRot e.m Rg x x') (t : Nat) (ht : t < x.2.1) :
    (gradContrib e'.m e'.err e'.info x'.2.1 x'.2.2).get t =
      ∑ k ∈ Finset.range x.2.1, Rg x.1 t k * (gradContrib e.m e.err e.info x.2.1 x.2.2).get k := by
  simp only [gradContrib, sumTo_eq_sum, hc.m, hc.err, hc.info]
  have h1 : ∀ b ∈ Finset.range e.m, (∑ a ∈ Finset.range e.m, e.err a * e.info a b) * x'.2.2 b t
      = ∑ k ∈ Finset.range x.2.1, Rg x.1 t k * ((∑ a ∈ Finset.range e.m, e.err a * e.info a b) * x.2.2 b k) := by
    intro b hb
    rw [hx.2.2 b (Finset.mem_range.mp hb) t ht]
    unfold rotCols
    rw [Finset.mul_sum]
    apply Finset.sum_congr rfl
    intro k _
    ring
  rw [Finset.sum_congr rfl h1, Finset.sum_comm]
  apply Finset.sum_congr rfl
  intro k _
  rw [Finset.mul_sum]

theorem edge_grad_conj (Rg : Nat → Nat → Nat → ℝ) (e e' : EdgeLin ℝ) (hc : LinConj Rg e e')
    (a da t : Nat) (hda : ∀ x ∈ e.verts, x.1 = a → x.2.1 = da) (ht : t < da) :
    (e'.verts.map fun x' => if x'.1 = a then (gradContrib e'.m e'.err e'.info x'.2.1 x'.2.2).get t else 0).sum =
      ∑ k ∈ Finset.range da, Rg a t k *
        (e.verts.map fun x => if x.1 = a then (gradContrib e.m e.err e.info x.2.1 x.2.2).get k else 0).sum := by
  rw [← list_sum_lin1]
  apply forall₂_sum hc.verts
  intro x x' hxm hxx'
  rw [hxx'.1]
  by_cases h : x.1 = a
  · simp only [h, if_true]
    rw [gradContrib_conj Rg e e' hc x x' hxx' t (by rw [hda x hxm h]; exact ht), hda x hxm h, h]
  · simp [h]

end
end GraphSlam.Props.E2E.FrameMixed
