import GraphSlam.Props.E2E.FrameMixed.Run

/-!
# C07, mixed graphs — small lemmas shared by the SE(2)+R² and SE(3)+R³ instances

Identity blocks (pose vertices) and the passage from the generated `Fin n`-indexed matrices (`dotMM`, `dotMV`,
`transposeM`) to the `Nat`-indexed arrays of `Model.Assembly` (`arrM`, `vecN`).
-/

namespace GraphSlam.Props.E2E.FrameMixed
open GraphSlam GraphSlam.Gen GraphSlam.Model GraphSlam.Props.C03 GraphSlam.Props.E2E
set_option linter.unusedSimpArgs false
set_option linter.unusedVariables false
noncomputable section

theorem rotCols_eye (d : Nat) (J : Nat → Nat → ℝ) (a t : Nat) (ht : t < d) : rotCols d eyeR J a t = J a t := by
  unfold rotCols eyeR
  have : ∀ k ∈ Finset.range d, J a k * (if t = k then (1 : ℝ) else 0) = if t = k then J a k else 0 := by
    intro k _; split <;> simp
  rw [Finset.sum_congr rfl this, Finset.sum_ite_eq]
  simp [ht]

theorem rotVec_eye (d : Nat) (v : Nat → ℝ) (t : Nat) (ht : t < d) : rotVec d eyeR v t = v t := by
  unfold rotVec eyeR
  have : ∀ k ∈ Finset.range d, (if t = k then (1 : ℝ) else 0) * v k = if t = k then v k else 0 := by
    intro k _; split <;> simp
  rw [Finset.sum_congr rfl this, Finset.sum_ite_eq]
  simp [ht]

theorem orth_eye (d s t : Nat) (hs : s < d) :
    ∑ k ∈ Finset.range d, eyeR s k * eyeR t k = if s = t then 1 else 0 := by
  unfold eyeR
  have : ∀ k ∈ Finset.range d, (if s = k then (1 : ℝ) else 0) * (if t = k then 1 else 0) = if s = k then (if t = k then 1 else 0) else 0 := by
    intro k _; split <;> simp
  rw [Finset.sum_congr rfl this, Finset.sum_ite_eq]
  simp only [Finset.mem_range, hs, if_true]
  by_cases h : s = t
  · simp [h]
  · have : ¬ t = s := fun h' => h h'.symm
    simp [h, this]

/-- the identity linearisation relation (edges between two pose vertices) -/
theorem linRel2_refl (g0 g1 : Nat) {m c0 c1 : Nat} (err : Fin m → ℝ) (info : Nat → Nat → ℝ)
    (J0 : Fin m → Fin c0 → ℝ) (J1 : Fin m → Fin c1 → ℝ) :
    LinRel2 eyeR eyeR g0 c0 g1 c1 (mkLin g0 g1 err info J0 J1) (mkLin g0 g1 err info J0 J1) :=
  ⟨rfl, rfl, rfl, rfl, _, _, _, _, rfl, rfl,
    fun a _ t ht => (rotCols_eye _ _ a t ht).symm, fun a _ t ht => (rotCols_eye _ _ a t ht).symm⟩

/-- `np.dot(J, R.T)` as an array is `rotCols` of the arrays -/
theorem arrM_dotMM_transpose {m n : Nat} (J : Fin m → Fin n → ℝ) (R : Fin n → Fin n → ℝ) (a t : Nat)
    (ha : a < m) (ht : t < n) :
    arrM (dotMM J (transposeM R)) a t = rotCols n (arrM R) (arrM J) a t := by
  unfold rotCols
  rw [Finset.sum_range]
  simp only [arrM, ha, ht, Fin.is_lt, and_self, dite_true, dotMM, finSum_eq_sum, transposeM]

/-- row-orthonormality of a generated matrix, on its array -/
theorem orth_arrM {n : Nat} (R : Fin n → Fin n → ℝ)
    (h : ∀ i j : Fin n, finSum n (fun k => R i k * R j k) = if i = j then 1 else 0) (s t : Nat) (hs : s < n) (ht : t < n) :
    ∑ k ∈ Finset.range n, arrM R s k * arrM R t k = if s = t then 1 else 0 := by
  rw [Finset.sum_range]
  have := h ⟨s, hs⟩ ⟨t, ht⟩
  rw [finSum_eq_sum] at this
  simp only [arrM, hs, ht, Fin.is_lt, and_self, dite_true]
  rw [this]
  simp [Fin.ext_iff]

/-- the rotated slice of an increment, as a generated vector -/
theorem vecN_rotVec {n : Nat} (R : Fin n → Fin n → ℝ) (δ δ' : Nat → ℝ)
    (h : ∀ t, t < n → δ' t = rotVec n (arrM R) δ t) : (vecN δ' : Fin n → ℝ) = dotMV R (vecN δ) := by
  funext i
  simp only [vecN, dotMV, finSum_eq_sum]
  rw [h i.val i.isLt]
  unfold rotVec
  rw [Finset.sum_range]
  simp only [arrM, Fin.is_lt, and_self, dite_true]

/-- an unrotated slice -/
theorem vecN_eye {n : Nat} (δ δ' : Nat → ℝ) (h : ∀ t, t < n → δ' t = rotVec n eyeR δ t) :
    (vecN δ' : Fin n → ℝ) = vecN δ := by
  funext i
  simp only [vecN]
  rw [h i.val i.isLt, rotVec_eye n δ i.val i.isLt]

end
end GraphSlam.Props.E2E.FrameMixed
