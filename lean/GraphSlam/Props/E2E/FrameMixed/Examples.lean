import GraphSlam.Props.E2E.FrameMixed.SE2
import GraphSlam.Props.E2E.FrameMixed.SE3
import Mathlib.Tactic.IntervalCases

/-!
# C07, mixed graphs — non-vacuity: concrete graphs satisfying the hypotheses
-/

namespace GraphSlam.Props.E2E.FrameMixed.Examples
open GraphSlam GraphSlam.Gen GraphSlam.Model GraphSlam.Props.C03 GraphSlam.Props.C09 GraphSlam.Props.E2E
  GraphSlam.Props.E2E.FrameMixed
set_option linter.unusedSimpArgs false
set_option linter.unusedVariables false
noncomputable section

def idInfo : Nat → Nat → ℝ := fun a b => if a = b then 1 else 0

/-- two SE(2) poses and one R² landmark seen from both -/
def ps2 : List (Pose ℝ) := [.se2 ![0, 0, 0], .se2 ![1, 0, 1 / 2], .r2 ![2, 1]]

def es2 : List (Edge ℝ) :=
  [.odo 0 1 (.se2 ![1, 0, 1 / 2]) idInfo,
   .lm 0 2 (.r2 ![2, 1]) (.se2 ![0, 0, 0]) idInfo,
   .lm 1 2 (.r2 ![1, 1]) (.se2 ![1 / 10, 0, 1 / 5]) idInfo]

def T2 : Fin 3 → ℝ := ![3, -1, 7 / 10]

theorem es2_ok : GraphOK ps2 es2 := by
  constructor
  · intro e he
    simp only [es2, List.mem_cons, List.not_mem_nil, or_false] at he
    rcases he with rfl | rfl | rfl <;> simp [Edge.ends]
  · intro e he a b
    simp only [es2, List.mem_cons, List.not_mem_nil, or_false] at he
    rcases he with rfl | rfl | rfl <;> simp only [Edge.info, idInfo, eq_comm]

theorem es2_mixed : ∀ e ∈ es2, EdgeSE2Mixed e := by
  intro e he
  simp only [es2, List.mem_cons, List.not_mem_nil, or_false] at he
  rcases he with rfl | rfl | rfl <;> trivial

theorem ps2_good : ∀ p ∈ ps2, IsSE2orR2 p := by
  intro p hp
  simp only [ps2, List.mem_cons, List.not_mem_nil, or_false] at hp
  rcases hp with rfl | rfl | rfl <;> trivial

/-- the hypotheses of `system_conjugate_SE2` / `solution_transport_SE2` hold for a concrete graph with the first pose
    fixed and a transform with a non-trivial rotation: both systems exist and are conjugate -/
example : ∃ r r', system [0] es2 (initState 0 ps2) = some r ∧
    system [0] es2 (actState (actMixSE2 T2) (initState 0 ps2)) = some r' ∧ r'.1 = r.1 ∧
    (∀ dx, Solves 8 r.2.2 r.2.1 dx ↔ Solves 8 r'.2.2 r'.2.1 (mulP 8 (PdenseSE2 T2 (initState 0 ps2)) dx)) := by
  refine ⟨_, _, rfl, rfl, ?_, ?_⟩
  · exact (system_conjugate_SE2 T2 [0] ps2 es2 es2_ok es2_mixed ps2_good _ _ rfl rfl).1
  · intro dx
    exact solution_transport_SE2 T2 [0] ps2 es2 es2_ok es2_mixed ps2_good _ _ rfl rfl dx

/-! ### the solver hypothesis of (d), (e) and of the whole call is satisfiable

A pose vertex (fixed by `fix_first_pose`) observing one landmark vertex through a landmark edge with unit information:
for **every** pose `a`, offset `off`, landmark `l`, measurement `z` the assembled Hessian is the identity (the landmark
block is `JᵀJ` with `J` a rotation matrix), so the solver `solve H c = c` is exact and every system is uniquely
solvable; the landmark moves in every iteration in which its error is not zero. -/

def ps1 (a : Fin 3 → ℝ) (l : Fin 2 → ℝ) : List (Pose ℝ) := [.se2 a, .r2 l]
def es1 (z : Fin 2 → ℝ) (off : Fin 3 → ℝ) : List (Edge ℝ) := [.lm 0 1 (.r2 z) (.se2 off) idInfo]

theorem hessContrib_r (m : Nat) (info : Nat → Nat → ℝ) (di : Nat) (Ji : Nat → Nat → ℝ) (dj : Nat) (Jj : Nat → Nat → ℝ) :
    (hessContrib m info di Ji dj Jj).r = di := rfl
theorem hessContrib_c (m : Nat) (info : Nat → Nat → ℝ) (di : Nat) (Ji : Nat → Nat → ℝ) (dj : Nat) (Jj : Nat → Nat → ℝ) :
    (hessContrib m info di Ji dj Jj).c = dj := rfl

theorem H_id (a off : Fin 3 → ℝ) (l z : Fin 2 → ℝ) (r : ℝ × (Nat → ℝ) × (Nat → Nat → ℝ))
    (h : system [0] (es1 z off) (initState 0 (ps1 a l)) = some r) (i k : Nat) (hi : i < 5) (hk : k < 5) :
    r.2.2 i k = if i = k then 1 else 0 := by
  simp only [system, es1, ps1, initState, List.map_cons, List.map_nil, linearise, Edge.ends, lineariseAt, allSome,
    Option.map_some, Option.some.injEq, List.getElem?_cons_zero, List.getElem?_cons_succ, Pose.cdim] at h
  subst h
  simp only [accumulate, List.foldl_cons, List.foldl_nil, update, contribs, mkLin, pairsLE, List.map_cons, List.map_nil,
    List.append_nil, List.cons_append, List.nil_append, Dict.addAt, layoutOf]
  simp only [Nat.zero_add, le_refl, Nat.zero_le, if_true, Dict.addAt, Prod.mk.injEq, true_and, and_true,
    OfNat.ofNat_ne_zero, (by decide : (0:Nat) ≠ 3), (by decide : ¬ (0:Nat) = 3), (by decide : ¬ (3:Nat) = 0), if_false, and_false, false_and,
    fillHessian, fillHessianDict, List.foldl_cons, List.foldl_nil, List.mem_singleton, true_or, or_true, or_false, false_or,
    ne_eq, not_true_eq_false, not_false_eq_true]
  have hJ : ∀ s t, s < 2 → t < 2 → (hessContrib 2 idInfo 2 (arrM (EdgeLandmark.calc_jacobians_SE2_1 z off a l)) 2
          (arrM (EdgeLandmark.calc_jacobians_SE2_1 z off a l))).get s t = if s = t then 1 else 0 := by
    intro s t hs ht
    interval_cases s <;> interval_cases t <;>
      simp [hessContrib, sumTo, List.range, List.range.loop, idInfo, arrM, EdgeLandmark.calc_jacobians_SE2_1, dotMM, finSum_two,
        PoseSE2.jacobian_self_oplus_point_wrt_point, PoseR2.jacobian_boxplus, eye]
    · linear_combination Real.cos_sq_add_sin_sq (PoseSE2.inverse (PoseSE2.add a off) 2)
    · ring
    · ring
    · linear_combination Real.sin_sq_add_cos_sq (PoseSE2.inverse (PoseSE2.add a off) 2)
  rw [setBlock_apply, setBlock_apply, setBlock_apply]
  interval_cases i <;> interval_cases k <;> simp [eyeBlock, hJ, hessContrib_r, hessContrib_c]

/-- the trivial solver, exact whenever `H = 1` -/
def idSolve : (Nat → Nat → ℝ) → (Nat → ℝ) → (Nat → ℝ) := fun _ c => c

theorem id_solves (N : Nat) (H : Nat → Nat → ℝ) (b : Nat → ℝ)
    (hH : ∀ i k, i < N → k < N → H i k = if i = k then 1 else 0) (x : Nat → ℝ) :
    Solves N H b x ↔ ∀ i, i < N → x i = - b i := by
  unfold Solves
  have : ∀ i, i < N → ∑ k ∈ Finset.range N, H i k * x k = x i := by
    intro i hi
    have h1 : ∀ k ∈ Finset.range N, H i k * x k = if i = k then x k else 0 := by
      intro k hk
      rw [hH i k hi (Finset.mem_range.mp hk)]
      split <;> simp
    rw [Finset.sum_congr rfl h1, Finset.sum_ite_eq]
    simp [hi]
  constructor
  · intro h i hi; rw [← this i hi]; exact h i hi
  · intro h i hi; rw [this i hi]; exact h i hi

theorem stateDim_ps1 (a : Fin 3 → ℝ) (l : Fin 2 → ℝ) : stateDim (initState 0 (ps1 a l)) = 5 := rfl

theorem exact_ps1 (a off : Fin 3 → ℝ) (l z : Fin 2 → ℝ) :
    SolverExactAt idSolve [0] (es1 z off) (initState 0 (ps1 a l)) := by
  intro r h
  rw [stateDim_ps1, id_solves 5 _ _ (H_id a off l z r h)]
  intro i _
  rfl

theorem unique_ps1 (a off : Fin 3 → ℝ) (l z : Fin 2 → ℝ) : UniqueAt [0] (es1 z off) (initState 0 (ps1 a l)) := by
  intro r h x y hx hy i hi
  rw [stateDim_ps1] at hx hy hi
  rw [id_solves 5 _ _ (H_id a off l z r h)] at hx hy
  rw [hx i hi, hy i hi]

theorem act_ps1 (T a : Fin 3 → ℝ) (l : Fin 2 → ℝ) :
    actState (actMixSE2 T) (initState 0 (ps1 a l)) = initState 0 (ps1 (PoseSE2.add T a) (PoseSE2.add_point T l)) := rfl

theorem good_ps1 (T a off : Fin 3 → ℝ) (l z : Fin 2 → ℝ) :
    SolverGoodAt (frameSE2 T) idSolve [0] (es1 z off) (initState 0 (ps1 a l)) :=
  ⟨exact_ps1 a off l z, by
    show SolverExactAt idSolve [0] (es1 z off) (actState (actMixSE2 T) (initState 0 (ps1 a l)))
    rw [act_ps1]; exact exact_ps1 _ off _ z, unique_ps1 a off l z⟩

/-- an iteration moves only the landmark -/
theorem step_ps1 (a off : Fin 3 → ℝ) (l z : Fin 2 → ℝ) (s1 : GState ℝ)
    (h : step idSolve [0] (es1 z off) (initState 0 (ps1 a l)) = some s1) : ∃ l', s1 = initState 0 (ps1 a l') := by
  unfold step at h
  cases hsys : system [0] (es1 z off) (initState 0 (ps1 a l)) with
  | none => rw [hsys] at h; simp at h
  | some r =>
    rw [hsys] at h
    simp only [Option.map_some, Option.some.injEq] at h
    subst h
    exact ⟨readArray (storeArray (PoseR2.iadd_boxplus l (vecN fun t => idSolve r.2.2 (fun i => -r.2.1 i) (3 + t)))),
      by simp [applyDx, initState, ps1, Pose.cdim, Pose.boxplus]⟩

theorem iter_ps1 (a off : Fin 3 → ℝ) (l z : Fin 2 → ℝ) (j : Nat) (sj : GState ℝ)
    (h : iterStates (fun _ => step idSolve [0] (es1 z off)) (initState 0 (ps1 a l)) j = some sj) :
    ∃ l', sj = initState 0 (ps1 a l') := by
  induction j generalizing sj with
  | zero => simp only [iterStates, Option.some.injEq] at h; exact ⟨l, h.symm⟩
  | succ j ih =>
    simp only [iterStates] at h
    cases hj : iterStates (fun _ => step idSolve [0] (es1 z off)) (initState 0 (ps1 a l)) j with
    | none => rw [hj] at h; simp at h
    | some sp =>
      rw [hj] at h
      obtain ⟨l', rfl⟩ := ih sp hj
      exact step_ps1 a off l' z sj h

/-- **non-vacuity of the whole-call theorem**: for every transform `T`, pose, offset, landmark, measurement, tolerance and
    iteration bound, all hypotheses of `optimize_frame_mixed_SE2` hold for the one-landmark graph with the exact solver
    `idSolve` — so `optimize()` of the transformed graph returns the same report and the transformed state -/
example (T a off : Fin 3 → ℝ) (l z : Fin 2 → ℝ) (tol eps : ℝ) (maxIter : Nat) :
    optimizeSolve tol eps maxIter true [false, false] idSolve (es1 z off) ((ps1 a l).map (actMixSE2 T)) =
      (optimizeSolve tol eps maxIter true [false, false] idSolve (es1 z off) (ps1 a l)).map
        fun r => (r.1, r.2.1.map (actState (actMixSE2 T)), r.2.2) := by
  apply optimize_frame_mixed_SE2 T tol eps maxIter true [false, false] idSolve (es1 z off)
  · intro e he; simp only [es1, List.mem_singleton] at he; subst he; simp [Edge.ends]
  · intro e he p q; simp only [es1, List.mem_singleton] at he; subst he; simp only [Edge.info, idInfo, eq_comm]
  · intro e he; simp only [es1, List.mem_singleton] at he; subst he; trivial
  · intro p hp; simp only [ps1, List.mem_cons, List.not_mem_nil, or_false] at hp; rcases hp with rfl | rfl <;> trivial
  · intro j sj hj
    have hfixed : fixedIndices (applyFixFirst true [false, false]) ((initState 0 (ps1 a l)).map (·.1)) = [0] := rfl
    rw [hfixed] at hj ⊢
    obtain ⟨l', rfl⟩ := iter_ps1 a off l z j sj hj
    exact good_ps1 T a off l' z


theorem steps_ps1 (a off : Fin 3 → ℝ) (z : Fin 2 → ℝ) (j : Nat) (l : Fin 2 → ℝ) (sj : GState ℝ)
    (h : steps idSolve [0] (es1 z off) j (initState 0 (ps1 a l)) = some sj) : ∃ l', sj = initState 0 (ps1 a l') := by
  induction j generalizing l with
  | zero => simp only [steps, Option.some.injEq] at h; exact ⟨l, h.symm⟩
  | succ j ih =>
    simp only [steps] at h
    cases hs : step idSolve [0] (es1 z off) (initState 0 (ps1 a l)) with
    | none => rw [hs] at h; simp at h
    | some s1 =>
      rw [hs] at h
      obtain ⟨l1, rfl⟩ := step_ps1 a off l z s1 hs
      exact ih l1 h

/-- **non-vacuity of (e)**: the `k`-iteration trajectory of the one-landmark graph, any `k`, any transform -/
example (T a off : Fin 3 → ℝ) (l z : Fin 2 → ℝ) (k : Nat) :
    steps idSolve [0] (es1 z off) k (actState (actMixSE2 T) (initState 0 (ps1 a l)))
      = (steps idSolve [0] (es1 z off) k (initState 0 (ps1 a l))).map (actState (actMixSE2 T)) := by
  apply trajectory_frame_mixed_SE2 T idSolve [0] (es1 z off)
  · intro e he; simp only [es1, List.mem_singleton] at he; subst he; simp [Edge.ends]
  · intro e he p q; simp only [es1, List.mem_singleton] at he; subst he; simp only [Edge.info, idInfo, eq_comm]
  · intro e he; simp only [es1, List.mem_singleton] at he; subst he; trivial
  · intro p hp; simp only [ps1, List.mem_cons, List.not_mem_nil, or_false] at hp; rcases hp with rfl | rfl <;> trivial
  · intro j _ sj hj
    obtain ⟨l', rfl⟩ := steps_ps1 a off z j l sj hj
    exact good_ps1 T a off l' z

/-! ### SE(3) + R³ -/

/-- an SE(3) pose (identity) observing an R³ landmark through a sensor rotated by 180° about `x` -/
def ps3 : List (Pose ℝ) := [.se3 ![0, 0, 0, 0, 0, 0, 1], .se3 ![1, 0, 0, 0, 0, 1, 0], .r3 ![1, 2, 3]]

def es3 : List (Edge ℝ) :=
  [.odo 0 1 (.se3 ![1, 0, 0, 0, 0, 1, 0]) idInfo,
   .lm 0 2 (.r3 ![1, 2, 3]) (.se3 ![0, 0, 0, 1, 0, 0, 0]) idInfo,
   .lm 1 2 (.r3 ![0, 1, 1]) (.se3 ![0, 0, 0, 0, 0, 0, 1]) idInfo]

/-- a transform with a 120° rotation about `(1,1,1)` -/
def T3 : Fin 7 → ℝ := ![1, 2, 3, 1 / 2, 1 / 2, 1 / 2, 1 / 2]

theorem T3_unit : Unit4 T3 := by
  unfold Unit4 T3; simp [Matrix.cons_val]; norm_num

theorem es3_ok : GraphOK ps3 es3 := by
  constructor
  · intro e he
    simp only [es3, List.mem_cons, List.not_mem_nil, or_false] at he
    rcases he with rfl | rfl | rfl <;> simp [Edge.ends]
  · intro e he a b
    simp only [es3, List.mem_cons, List.not_mem_nil, or_false] at he
    rcases he with rfl | rfl | rfl <;> simp only [Edge.info, idInfo, eq_comm]

theorem es3_mixed : ∀ e ∈ es3, EdgeSE3Mixed e := by
  intro e he
  simp only [es3, List.mem_cons, List.not_mem_nil, or_false] at he
  rcases he with rfl | rfl | rfl <;> simp [EdgeSE3Mixed, Unit4]

theorem ps3_good : ∀ p ∈ ps3, IsUnitSE3orR3 p := by
  intro p hp
  simp only [ps3, List.mem_cons, List.not_mem_nil, or_false] at hp
  rcases hp with rfl | rfl | rfl <;> simp [IsUnitSE3orR3, Unit4]

/-- the hypotheses of `system_conjugate_SE3` / `solution_transport_SE3` hold for a concrete graph -/
example : ∃ r r', system [0] es3 (initState 0 ps3) = some r ∧
    system [0] es3 (actState (actMixSE3 T3) (initState 0 ps3)) = some r' ∧ r'.1 = r.1 ∧
    (∀ dx, Solves 15 r.2.2 r.2.1 dx ↔ Solves 15 r'.2.2 r'.2.1 (mulP 15 (PdenseSE3 T3 T3_unit (initState 0 ps3)) dx)) := by
  refine ⟨_, _, rfl, rfl, ?_, ?_⟩
  · exact (system_conjugate_SE3 T3 T3_unit [0] ps3 es3 es3_ok es3_mixed ps3_good _ _ rfl rfl).1
  · intro dx
    exact solution_transport_SE3 T3 T3_unit [0] ps3 es3 es3_ok es3_mixed ps3_good _ _ rfl rfl dx


/-! ### why `EdgeSE2Mixed` excludes R² odometry edges between landmark vertices

Such an edge measures `l₁ - l₀` in *world* coordinates, which a rotation of the world changes: the statement of C07
for it is the translation statement `optimize_frame_R2`. -/

/-- an R² odometry edge between two landmark points is **not** invariant under a rotation by `π` -/
example : EdgeOdometry.calc_error_R2 ![0, 0] (PoseSE2.add_point ![0, 0, Real.pi] ![0, 0]) (PoseSE2.add_point ![0, 0, Real.pi] ![1, 0])
    ≠ EdgeOdometry.calc_error_R2 (![0, 0] : Fin 2 → ℝ) ![0, 0] ![1, 0] := by
  intro h
  have := congrFun h 0
  simp [EdgeOdometry.calc_error_R2, PoseR2.to_compact, PoseR2.sub, PoseSE2.add_point] at this
  norm_num at this


end
end GraphSlam.Props.E2E.FrameMixed.Examples
