import GraphSlam.Props.E2E.FrameMixed.Conj

/-!
# C07, mixed graphs — (b) `Model.system` of the transformed state, block by block

For the typed-graph model of `_calc_chi2_gradient_hessian` (graph.py:367-412) on the state `initState 0 ps` the
constructor builds, and the transformed state `actState F.act (initState 0 ps)`:

* `hessian_conj`  : `H'[g_u+s, g_w+t] = Σ_{s',t'} R_u[s,s'] · H[g_u+s', g_w+t'] · R_w[t,t']`   (`H'_{uw} = R_u H_{uw} R_wᵀ`)
* `gradient_conj` : `b'[g_u+t] = Σ_k R_u[t,k] · b[g_u+k]`                                       (`b'_u = R_u b_u`)
* `chi2_conj`     : `χ²' = χ²`
* `system_isSome_conj` : the transformed graph is well typed iff the original is.

`R_u = rotAt F s g_u` is the orthogonal block of vertex `u`.  Fixed vertices are included: their rows and columns are
identity / zero in both frames and `R_u · 1 · R_uᵀ = 1`.
-/

namespace GraphSlam.Props.E2E.FrameMixed
open GraphSlam GraphSlam.Gen GraphSlam.Model GraphSlam.Props.C03 GraphSlam.Props.E2E
set_option linter.unusedSimpArgs false
set_option linter.unusedVariables false
noncomputable section

theorem graphOK_map (f : Pose ℝ → Pose ℝ) {ps : List (Pose ℝ)} {es : List (Edge ℝ)} (h : GraphOK ps es) :
    GraphOK (ps.map f) es := ⟨h.distinct, h.symm⟩

/-- the per-edge linearisations of the two states, related edge by edge -/
theorem lins_conj (F : MixedFrame) (ps : List (Pose ℝ)) (es : List (Edge ℝ)) (hes : ∀ e ∈ es, F.EdgeOK e)
    (hps : ∀ p ∈ ps, F.Good p) :
    OptRel (List.Forall₂ (LinConj (rotAt F (initState 0 ps))))
      (allSome (es.map (linearise (initState 0 ps))))
      (allSome (es.map (linearise (actState F.act (initState 0 ps))))) :=
  allSome_rel _ _ _ es fun e he =>
    linearise_conj F _ (initState_good F.Good 0 ps hps) (initState_pairwise 0 ps) e (hes e he)

/-- the transformed graph is well typed exactly when the original one is -/
theorem system_isSome_conj (F : MixedFrame) (fixed : List Nat) (ps : List (Pose ℝ)) (es : List (Edge ℝ))
    (hes : ∀ e ∈ es, F.EdgeOK e) (hps : ∀ p ∈ ps, F.Good p) :
    (system fixed es (actState F.act (initState 0 ps))).isSome = (system fixed es (initState 0 ps)).isSome := by
  have h := lins_conj F ps es hes hps
  unfold system
  cases ha : allSome (es.map (linearise (initState 0 ps))) with
  | none =>
    cases hb : allSome (es.map (linearise (actState F.act (initState 0 ps)))) with
    | none => rfl
    | some l' => rw [ha, hb] at h; simp [OptRel] at h
  | some l =>
    cases hb : allSome (es.map (linearise (actState F.act (initState 0 ps)))) with
    | none => rw [ha, hb] at h; simp [OptRel] at h
    | some l' => rfl

/-- a vertex of the layout is a vertex of the state -/
theorem layout_vertex (ps : List (Pose ℝ)) (u : Nat × Nat) (hu : u ∈ layoutOf (initState 0 ps)) :
    ∃ v ∈ initState 0 ps, v.1 = u.1 ∧ v.2.2.cdim = u.2 := by
  simp only [layoutOf, List.mem_map] at hu
  obtain ⟨v, hv, rfl⟩ := hu
  exact ⟨v, hv, rfl, (dimsOK_initState 0 ps v hv).symm⟩

theorem sum_eye_conj (d : Nat) (R : Nat → Nat → ℝ) (s t : Nat) :
    ∑ k ∈ Finset.range d ×ˢ Finset.range d, R s k.1 * eyeR k.1 k.2 * R t k.2 = ∑ k ∈ Finset.range d, R s k * R t k := by
  rw [Finset.sum_product]
  apply Finset.sum_congr rfl
  intro k hk
  have : ∀ k' ∈ Finset.range d, R s k * eyeR k k' * R t k' = if k = k' then R s k * R t k' else 0 := by
    intro k' _
    unfold eyeR
    split <;> simp
  rw [Finset.sum_congr rfl this, Finset.sum_ite_eq]
  simp [hk]

/-- **(b) Hessian**: `H'_{uw} = R_u · H_{uw} · R_wᵀ`, for every pair of vertices, fixed or free -/
theorem hessian_conj (F : MixedFrame) (fixed : List Nat) (ps : List (Pose ℝ)) (es : List (Edge ℝ)) (hok : GraphOK ps es)
    (hes : ∀ e ∈ es, F.EdgeOK e) (hps : ∀ p ∈ ps, F.Good p)
    (r r' : ℝ × (Nat → ℝ) × (Nat → Nat → ℝ)) (h : system fixed es (initState 0 ps) = some r)
    (h' : system fixed es (actState F.act (initState 0 ps)) = some r') (q : Pos (layoutOf (initState 0 ps))) :
    r'.2.2 (q.u.1 + q.s) (q.w.1 + q.t) =
      ∑ k ∈ Finset.range q.u.2 ×ˢ Finset.range q.w.2,
        rotAt F (initState 0 ps) q.u.1 q.s k.1 * r.2.2 (q.u.1 + k.1) (q.w.1 + k.2) * rotAt F (initState 0 ps) q.w.1 q.t k.2 := by
  have hlay : layoutOf (initState 0 (ps.map F.act)) = layoutOf (initState 0 ps) := by
    rw [initState_act F.act F.cdim_act, layoutOf_actState]
  have h'' : system fixed es (initState 0 (ps.map F.act)) = some r' := by rw [initState_act F.act F.cdim_act]; exact h'
  let q' : Pos (layoutOf (initState 0 (ps.map F.act))) :=
    ⟨q.u, q.w, q.s, q.t, by rw [hlay]; exact q.hu, by rw [hlay]; exact q.hw, q.hs, q.ht⟩
  obtain ⟨lins', hl', hH'⟩ := system_hessian fixed (ps.map F.act) es (graphOK_map F.act hok) r' h'' q'
  obtain ⟨lins, hl, -⟩ := system_hessian fixed ps es hok r h q
  have hH : ∀ k ∈ Finset.range q.u.2 ×ˢ Finset.range q.w.2, r.2.2 (q.u.1 + k.1) (q.w.1 + k.2) =
      if q.u.1 ∈ fixed ∨ q.w.1 ∈ fixed then (if q.u.1 = q.w.1 then eyeR k.1 k.2 else 0)
      else (lins.map fun e => (e.verts.map fun x => (e.verts.map fun y => ordered e q.u.1 q.w.1 k.1 k.2 x y).sum).sum).sum := by
    intro k hk
    rw [Finset.mem_product, Finset.mem_range, Finset.mem_range] at hk
    obtain ⟨lins2, hl2, hH2⟩ := system_hessian fixed ps es hok r h ⟨q.u, q.w, k.1, k.2, q.hu, q.hw, hk.1, hk.2⟩
    rw [hl] at hl2
    cases hl2
    exact hH2
  have hrel := lins_conj F ps es hes hps
  rw [initState_act F.act F.cdim_act] at hl'
  rw [hl, hl'] at hrel
  simp only [OptRel] at hrel
  have hH'' : r'.2.2 (q.u.1 + q.s) (q.w.1 + q.t) =
      if q.u.1 ∈ fixed ∨ q.w.1 ∈ fixed then (if q.u.1 = q.w.1 then eyeR q.s q.t else 0)
      else (lins'.map fun e => (e.verts.map fun x => (e.verts.map fun y => ordered e q.u.1 q.w.1 q.s q.t x y).sum).sum).sum := hH'
  rw [hH'', Finset.sum_congr rfl (fun k hk => by rw [hH k hk])]
  have hlayout := layout_initState 0 ps
  by_cases hfix : q.u.1 ∈ fixed ∨ q.w.1 ∈ fixed
  · simp only [hfix, if_true]
    by_cases huw : q.u.1 = q.w.1
    · simp only [huw, if_true]
      have huw' : q.u = q.w := hlayout.index_unique _ q.hu _ q.hw huw
      obtain ⟨v, hv, hv1, hv2⟩ := layout_vertex ps q.w q.hw
      rw [huw', sum_eye_conj, ← hv1, rotAt_mem F (initState_pairwise 0 ps) hv, ← hv2]
      have := F.orth_row v.2.2 (initState_good F.Good 0 ps hps v hv) q.s q.t (by rw [hv2, ← huw']; exact q.hs)
        (by rw [hv2]; exact q.ht)
      rw [this]; rfl
    · simp [huw]
  · simp only [hfix, if_false]
    rw [← list_sum_lin]
    obtain ⟨hwf, _, _⟩ := lins_ok ps es hok lins hl
    apply forall₂_sum hrel
    intro e e' hem hc
    have hdim : ∀ (a : Nat × Nat), a ∈ layoutOf (initState 0 ps) → ∀ x ∈ e.verts, x.1 = a.1 → x.2.1 = a.2 := by
      intro a ha x hx hxa
      have := hlayout.index_unique _ (hwf e hem x hx) a ha hxa
      exact congrArg Prod.snd this
    exact edge_ordered_conj _ e e' hc q.u.1 q.w.1 q.u.2 q.w.2 q.s q.t (hdim q.u q.hu) (hdim q.w q.hw) q.hs q.ht

/-- **(b) gradient**: `b'_u = R_u · b_u`, for every vertex, fixed or free -/
theorem gradient_conj (F : MixedFrame) (fixed : List Nat) (ps : List (Pose ℝ)) (es : List (Edge ℝ)) (hok : GraphOK ps es)
    (hes : ∀ e ∈ es, F.EdgeOK e) (hps : ∀ p ∈ ps, F.Good p)
    (r r' : ℝ × (Nat → ℝ) × (Nat → Nat → ℝ)) (h : system fixed es (initState 0 ps) = some r)
    (h' : system fixed es (actState F.act (initState 0 ps)) = some r')
    (u : Nat × Nat) (hu : u ∈ layoutOf (initState 0 ps)) (t : Nat) (ht : t < u.2) :
    r'.2.1 (u.1 + t) = ∑ k ∈ Finset.range u.2, rotAt F (initState 0 ps) u.1 t k * r.2.1 (u.1 + k) := by
  have hlay : layoutOf (initState 0 (ps.map F.act)) = layoutOf (initState 0 ps) := by
    rw [initState_act F.act F.cdim_act, layoutOf_actState]
  have h'' : system fixed es (initState 0 (ps.map F.act)) = some r' := by rw [initState_act F.act F.cdim_act]; exact h'
  obtain ⟨lins', hl', hG'⟩ := system_gradient fixed (ps.map F.act) es (graphOK_map F.act hok) r' h'' u (by rw [hlay]; exact hu) t ht
  obtain ⟨lins, hl, -⟩ := system_gradient fixed ps es hok r h u hu t ht
  have hG : ∀ k ∈ Finset.range u.2, r.2.1 (u.1 + k) =
      if u.1 ∈ fixed then 0
      else (lins.map fun e => (e.verts.map fun x =>
              if x.1 = u.1 then (gradContrib e.m e.err e.info x.2.1 x.2.2).get k else 0).sum).sum := by
    intro k hk
    obtain ⟨lins2, hl2, hG2⟩ := system_gradient fixed ps es hok r h u hu k (Finset.mem_range.mp hk)
    rw [hl] at hl2
    cases hl2
    exact hG2
  have hrel := lins_conj F ps es hes hps
  rw [initState_act F.act F.cdim_act] at hl'
  rw [hl, hl'] at hrel
  simp only [OptRel] at hrel
  rw [hG', Finset.sum_congr rfl (fun k hk => by rw [hG k hk])]
  by_cases hfix : u.1 ∈ fixed
  · simp [hfix]
  · simp only [hfix, if_false]
    rw [← list_sum_lin1]
    obtain ⟨hwf, _, _⟩ := lins_ok ps es hok lins hl
    apply forall₂_sum hrel
    intro e e' hem hc
    have hdim : ∀ x ∈ e.verts, x.1 = u.1 → x.2.1 = u.2 := by
      intro x hx hxa
      have := (layout_initState 0 ps).index_unique _ (hwf e hem x hx) u hu hxa
      exact congrArg Prod.snd this
    exact edge_grad_conj _ e e' hc u.1 u.2 t hdim ht

/-- **χ² does not see the frame** (on the model of `calc_chi2` / the first component of `_calc_chi2_gradient_hessian`) -/
theorem chi2_conj (F : MixedFrame) (fixed : List Nat) (ps : List (Pose ℝ)) (es : List (Edge ℝ))
    (hes : ∀ e ∈ es, F.EdgeOK e) (hps : ∀ p ∈ ps, F.Good p)
    (r r' : ℝ × (Nat → ℝ) × (Nat → Nat → ℝ)) (h : system fixed es (initState 0 ps) = some r)
    (h' : system fixed es (actState F.act (initState 0 ps)) = some r') : r'.1 = r.1 := by
  have hrel := lins_conj F ps es hes hps
  unfold system at h h'
  cases ha : allSome (es.map (linearise (initState 0 ps))) with
  | none => rw [ha] at h; simp at h
  | some lins =>
    cases hb : allSome (es.map (linearise (actState F.act (initState 0 ps)))) with
    | none => rw [hb] at h'; simp at h'
    | some lins' =>
      rw [ha] at h; rw [hb] at h'
      rw [ha, hb] at hrel
      simp only [OptRel] at hrel
      simp only [Option.map_some, Option.some.injEq] at h h'
      subst h; subst h'
      simp only [accumulate_chi2]
      exact forall₂_sum hrel _ _ (fun e e' _ hc => hc.chi2)

end
end GraphSlam.Props.E2E.FrameMixed
