import GraphSlam.Props.E2E.FrameMixed.Helpers

/-!
# C07 end to end for SE(2) graphs with R² landmark vertices

The frame change by a rigid transform `T ∈ SE(2)`: pose vertices `p ↦ T ⊕ p`, landmark vertices `l ↦ T · l`
(`PoseSE2.add_point`).  Edges: SE(2) odometry edges between pose vertices and landmark edges (R² measurement, SE(2)
sensor offset) from a pose vertex to a landmark vertex.

* (a) `jacobians_frame_landmark_SE2_v1`, `lineariseAt_landmark_SE2` : in the transformed frame the landmark-vertex
  Jacobian is `J · R_Tᵀ`, the pose-vertex Jacobian and the error are unchanged;
* `frameSE2 T : MixedFrame` packages this with `R_T R_Tᵀ = 1` and `T·(l + d) = T·l + R_T d`, so that (b)–(e) of
  `FrameMixed/{Blocks,Dense,Step}.lean` apply: `system_conjugate_SE2`, `solution_transport_SE2`, `step_frame_mixed_SE2`,
  `trajectory_frame_mixed_SE2`.
-/

namespace GraphSlam.Props.E2E.FrameMixed
open GraphSlam GraphSlam.Gen GraphSlam.Model GraphSlam.Props.C03 GraphSlam.Props.C07 GraphSlam.Props.C09 GraphSlam.Props.E2E
set_option linter.unusedSimpArgs false
set_option linter.unusedVariables false
noncomputable section

/-! ### (a) one edge -/

/-- the rotation part `R_T` of an SE(2) transform, as the code computes it (`jacobian_self_oplus_point_wrt_point`,
    se2.py:413-429) -/
def rotSE2 (T : Fin 3 → ℝ) : Fin 2 → Fin 2 → ℝ := PoseSE2.jacobian_self_oplus_point_wrt_point T (fun _ => 0)

/-- **(a)** the Jacobian of the landmark vertex in the transformed frame is `J · R_Tᵀ` -/
theorem jacobians_frame_landmark_SE2_v1 (T : Fin 3 → ℝ) (z : Fin 2 → ℝ) (off p0 : Fin 3 → ℝ) (l : Fin 2 → ℝ) :
    EdgeLandmark.calc_jacobians_SE2_1 z off (PoseSE2.add T p0) (PoseSE2.add_point T l)
      = dotMM (EdgeLandmark.calc_jacobians_SE2_1 z off p0 l) (transposeM (rotSE2 T)) := by
  funext i j
  fin_cases i <;> fin_cases j <;>
    simp [EdgeLandmark.calc_jacobians_SE2_1, rotSE2, transposeM, dotMM, finSum_two,
      PoseSE2.jacobian_self_oplus_point_wrt_point, PoseR2.jacobian_boxplus, eye] <;>
    se2_unfold <;> simp only [Real.cos_add, Real.sin_add, Real.cos_neg, Real.sin_neg] <;> ring

/-- `R_T R_Tᵀ = 1` -/
theorem rotSE2_orthogonal (T : Fin 3 → ℝ) (i j : Fin 2) :
    finSum 2 (fun k => rotSE2 T i k * rotSE2 T j k) = if i = j then 1 else 0 := by
  fin_cases i <;> fin_cases j <;>
    simp [rotSE2, finSum_two, PoseSE2.jacobian_self_oplus_point_wrt_point] <;>
    nlinarith [Real.sin_sq_add_cos_sq (T 2)]

/-- … equivalently `J' · R_T = J` -/
theorem jacobians_frame_landmark_SE2_v1' (T : Fin 3 → ℝ) (z : Fin 2 → ℝ) (off p0 : Fin 3 → ℝ) (l : Fin 2 → ℝ) :
    dotMM (EdgeLandmark.calc_jacobians_SE2_1 z off (PoseSE2.add T p0) (PoseSE2.add_point T l)) (rotSE2 T)
      = EdgeLandmark.calc_jacobians_SE2_1 z off p0 l := by
  funext i j
  fin_cases i <;> fin_cases j <;>
    simp [EdgeLandmark.calc_jacobians_SE2_1, rotSE2, transposeM, dotMM, finSum_two,
      PoseSE2.jacobian_self_oplus_point_wrt_point, PoseR2.jacobian_boxplus, eye] <;>
    se2_unfold <;> simp only [Real.cos_add, Real.sin_add, Real.cos_neg, Real.sin_neg] <;>
    first
    | linear_combination (Real.cos (p0 2) * Real.cos (off 2) - Real.sin (p0 2) * Real.sin (off 2)) * Real.sin_sq_add_cos_sq (T 2)
    | linear_combination (Real.sin (p0 2) * Real.cos (off 2) + Real.cos (p0 2) * Real.sin (off 2)) * Real.sin_sq_add_cos_sq (T 2)
    | linear_combination (-(Real.sin (p0 2) * Real.cos (off 2) + Real.cos (p0 2) * Real.sin (off 2))) * Real.sin_sq_add_cos_sq (T 2)

/-- the action on points is affine with linear part `R_T`: `T·(l + d) = T·l + R_T d` -/
theorem add_point_affine_SE2 (T : Fin 3 → ℝ) (l δ : Fin 2 → ℝ) :
    PoseSE2.add_point T (PoseR2.boxplus l δ) = PoseR2.boxplus (PoseSE2.add_point T l) (dotMV (rotSE2 T) δ) := by
  funext i
  fin_cases i <;>
    simp [PoseSE2.add_point, PoseR2.boxplus, rotSE2, PoseSE2.jacobian_self_oplus_point_wrt_point, dotMV, finSum_two] <;> ring

/-! ### the frame change as a `MixedFrame` -/

def actMixSE2 (T : Fin 3 → ℝ) : Pose ℝ → Pose ℝ
  | .se2 p => .se2 (PoseSE2.add T p)
  | .r2 l => .r2 (PoseSE2.add_point T l)
  | q => q

/-- the block of a vertex: `1` for a pose vertex, `R_T` for a landmark vertex -/
def rotMixSE2 (T : Fin 3 → ℝ) : Pose ℝ → Nat → Nat → ℝ
  | .r2 _ => arrM (rotSE2 T)
  | _ => eyeR

/-- the vertices of an SE(2) graph with landmarks -/
def IsSE2orR2 : Pose ℝ → Prop
  | .se2 _ => True
  | .r2 _ => True
  | _ => False

/-- the edges of an SE(2) graph with landmarks: SE(2) odometry, and landmark edges with an R² measurement and an SE(2)
    sensor offset.  (R² odometry / R²-offset landmark edges between two *landmark* vertices are not rotation invariant:
    C07 grants them translations only, `optimize_frame_R2`.) -/
def EdgeSE2Mixed : Edge ℝ → Prop
  | .odo _ _ (.se2 _) _ => True
  | .lm _ _ (.r2 _) (.se2 _) _ => True
  | _ => False

/-- **(a) on the model**: `lineariseAt` of a landmark edge at the transformed estimates — same error, same χ², same
    pose-vertex Jacobian, landmark-vertex Jacobian `J · R_Tᵀ` -/
theorem lineariseAt_landmark_SE2 (T : Fin 3 → ℝ) (g0 g1 i j : Nat) (z : Fin 2 → ℝ) (off a : Fin 3 → ℝ) (b : Fin 2 → ℝ)
    (info : Nat → Nat → ℝ) :
    lineariseAt g0 g1 (.se2 (PoseSE2.add T a)) (.r2 (PoseSE2.add_point T b)) (.lm i j (.r2 z) (.se2 off) info)
      = some (mkLin g0 g1 (EdgeLandmark.calc_error_SE2 z off a b) info (EdgeLandmark.calc_jacobians_SE2_0 z off a b)
          (dotMM (EdgeLandmark.calc_jacobians_SE2_1 z off a b) (transposeM (rotSE2 T)))) := by
  simp only [lineariseAt]
  rw [landmark_SE2_frame, jacobians_frame_landmark_SE2_v0, jacobians_frame_landmark_SE2_v1]

theorem lin_SE2 (T : Fin 3 → ℝ) (g0 g1 : Nat) (p0 p1 : Pose ℝ) (e : Edge ℝ) (he : EdgeSE2Mixed e)
    (h0 : IsSE2orR2 p0) (h1 : IsSE2orR2 p1) :
    OptRel (LinRel2 (rotMixSE2 T p0) (rotMixSE2 T p1) g0 p0.cdim g1 p1.cdim) (lineariseAt g0 g1 p0 p1 e)
      (lineariseAt g0 g1 (actMixSE2 T p0) (actMixSE2 T p1) e) := by
  cases e with
  | odo i j z info =>
    cases z <;> simp only [EdgeSE2Mixed] at he
    cases p0 <;> simp only [IsSE2orR2] at h0 <;> cases p1 <;> simp only [IsSE2orR2] at h1 <;>
      simp only [lineariseAt, actMixSE2, OptRel]
    rw [odometry_SE2_frame, jacobians_frame_odometry_SE2_v0, jacobians_frame_odometry_SE2_v1]
    exact linRel2_refl g0 g1 _ info _ _
  | lm i j z off info =>
    cases z <;> cases off <;> simp only [EdgeSE2Mixed] at he
    cases p0 <;> simp only [IsSE2orR2] at h0 <;> cases p1 <;> simp only [IsSE2orR2] at h1 <;>
      simp only [actMixSE2, lineariseAt_landmark_SE2] <;> simp only [lineariseAt, OptRel]
    exact ⟨rfl, rfl, rfl, rfl, _, _, _, _, rfl, rfl, fun a _ t ht => (rotCols_eye _ _ a t ht).symm,
      fun a ha t ht => arrM_dotMM_transpose _ _ a t ha ht⟩

theorem orth_SE2 (T : Fin 3 → ℝ) (p : Pose ℝ) (hp : IsSE2orR2 p) (s t : Nat) (hs : s < p.cdim) (ht : t < p.cdim) :
    ∑ k ∈ Finset.range p.cdim, rotMixSE2 T p s k * rotMixSE2 T p t k = if s = t then 1 else 0 := by
  cases p <;> simp only [IsSE2orR2] at hp
  · exact orth_arrM (rotSE2 T) (rotSE2_orthogonal T) s t hs ht
  · exact orth_eye _ s t hs

theorem box_SE2 (T : Fin 3 → ℝ) (p : Pose ℝ) (δ δ' : Nat → ℝ) (hp : IsSE2orR2 p)
    (h : ∀ t, t < p.cdim → δ' t = rotVec p.cdim (rotMixSE2 T p) δ t) :
    Pose.boxplus (actMixSE2 T p) δ' = actMixSE2 T (Pose.boxplus p δ) := by
  cases p <;> simp only [IsSE2orR2] at hp
  · -- landmark: `T·l + R_T d = T·(l + d)`
    have hv : (vecN δ' : Fin 2 → ℝ) = dotMV (rotSE2 T) (vecN δ) := vecN_rotVec (rotSE2 T) δ δ' h
    simp only [Pose.boxplus, stored_eq, actMixSE2, PoseR2.iadd_boxplus, add_point_affine_SE2, hv]
  · -- pose: `(T ⊕ p) ⊞ δ = T ⊕ (p ⊞ δ)`
    have hv : (vecN δ' : Fin 3 → ℝ) = vecN δ := vecN_eye δ δ' h
    simp only [Pose.boxplus, stored_eq, actMixSE2, PoseSE2.iadd_boxplus, boxplus_frame_SE2, hv]

theorem good_box_SE2 (p : Pose ℝ) (δ : Nat → ℝ) (h : IsSE2orR2 p) : IsSE2orR2 (Pose.boxplus p δ) := by
  cases p <;> simp only [IsSE2orR2] at h <;> simp [Pose.boxplus, IsSE2orR2]

/-- the change of world frame by `T ∈ SE(2)` on a graph of SE(2) poses and R² landmarks -/
def frameSE2 (T : Fin 3 → ℝ) : MixedFrame where
  act := actMixSE2 T
  rot := rotMixSE2 T
  Good := IsSE2orR2
  EdgeOK := EdgeSE2Mixed
  cdim_act := fun p => by cases p <;> rfl
  orth_row := orth_SE2 T
  lin := lin_SE2 T
  box := box_SE2 T
  good_box := good_box_SE2

/-! ### (b)–(e) for SE(2) graphs with R² landmarks -/

/-- the block-diagonal matrix of the frame change on the index space of `dx`: `1` on the three indices of a pose vertex,
    `R_T` on the two indices of a landmark vertex -/
def PdenseSE2 (T : Fin 3 → ℝ) (s : GState ℝ) : Nat → Nat → ℝ := Pdense (frameSE2 T) s

/-- **(b) `system_conjugate`, SE(2) + R²**: for the typed-graph model of `_calc_chi2_gradient_hessian`, the system of
    the transformed graph is `H' = P H Pᵀ`, `b' = P b` (entrywise on `[0, N)`), with the same χ²; any fixed set -/
theorem system_conjugate_SE2 (T : Fin 3 → ℝ) (fixed : List Nat) (ps : List (Pose ℝ)) (es : List (Edge ℝ))
    (hok : GraphOK ps es) (hes : ∀ e ∈ es, EdgeSE2Mixed e) (hps : ∀ p ∈ ps, IsSE2orR2 p)
    (r r' : ℝ × (Nat → ℝ) × (Nat → Nat → ℝ)) (h : system fixed es (initState 0 ps) = some r)
    (h' : system fixed es (actState (actMixSE2 T) (initState 0 ps)) = some r') :
    r'.1 = r.1 ∧
    (∀ i, i < stateDim (initState 0 ps) →
      r'.2.1 i = ∑ k ∈ Finset.range (stateDim (initState 0 ps)), PdenseSE2 T (initState 0 ps) i k * r.2.1 k) ∧
    (∀ i j, i < stateDim (initState 0 ps) → j < stateDim (initState 0 ps) →
      r'.2.2 i j = ∑ k ∈ Finset.range (stateDim (initState 0 ps)), ∑ l ∈ Finset.range (stateDim (initState 0 ps)),
        PdenseSE2 T (initState 0 ps) i k * r.2.2 k l * PdenseSE2 T (initState 0 ps) j l) :=
  system_conjugate (frameSE2 T) fixed ps es hok hes hps r r' h h'

/-- `P` is orthogonal -/
theorem PdenseSE2_orthogonal (T : Fin 3 → ℝ) (ps : List (Pose ℝ)) (hps : ∀ p ∈ ps, IsSE2orR2 p)
    (i j : Nat) (hi : i < stateDim (initState 0 ps)) (hj : j < stateDim (initState 0 ps)) :
    ∑ k ∈ Finset.range (stateDim (initState 0 ps)), PdenseSE2 T (initState 0 ps) i k * PdenseSE2 T (initState 0 ps) j k
      = if i = j then 1 else 0 :=
  Pdense_orthogonal (frameSE2 T) ps hps i j hi hj

/-- the transformed graph is well typed iff the original is -/
theorem system_isSome_SE2 (T : Fin 3 → ℝ) (fixed : List Nat) (ps : List (Pose ℝ)) (es : List (Edge ℝ))
    (hes : ∀ e ∈ es, EdgeSE2Mixed e) (hps : ∀ p ∈ ps, IsSE2orR2 p) :
    (system fixed es (actState (actMixSE2 T) (initState 0 ps))).isSome = (system fixed es (initState 0 ps)).isSome :=
  system_isSome_conj (frameSE2 T) fixed ps es hes hps

/-- **(c) `solution_transport`, SE(2) + R²**: `dx` solves `H dx = -b` iff `P dx` solves `H' dx' = -b'` -/
theorem solution_transport_SE2 (T : Fin 3 → ℝ) (fixed : List Nat) (ps : List (Pose ℝ)) (es : List (Edge ℝ))
    (hok : GraphOK ps es) (hes : ∀ e ∈ es, EdgeSE2Mixed e) (hps : ∀ p ∈ ps, IsSE2orR2 p)
    (r r' : ℝ × (Nat → ℝ) × (Nat → Nat → ℝ)) (h : system fixed es (initState 0 ps) = some r)
    (h' : system fixed es (actState (actMixSE2 T) (initState 0 ps)) = some r') (dx : Nat → ℝ) :
    Solves (stateDim (initState 0 ps)) r.2.2 r.2.1 dx ↔
      Solves (stateDim (initState 0 ps)) r'.2.2 r'.2.1
        (mulP (stateDim (initState 0 ps)) (PdenseSE2 T (initState 0 ps)) dx) :=
  solution_transport (frameSE2 T) fixed ps es hok hes hps r r' h h' dx

/-- **(d) `step_frame_mixed`, SE(2) + R²**, for two increments related by `dx' = P dx` -/
theorem step_frame_mixed_SE2 (T : Fin 3 → ℝ) (solve : (Nat → Nat → ℝ) → (Nat → ℝ) → (Nat → ℝ)) (fixed : List Nat)
    (ps : List (Pose ℝ)) (es : List (Edge ℝ)) (hes : ∀ e ∈ es, EdgeSE2Mixed e) (hps : ∀ p ∈ ps, IsSE2orR2 p)
    (hsolve : ∀ r r', system fixed es (initState 0 ps) = some r →
      system fixed es (actState (actMixSE2 T) (initState 0 ps)) = some r' →
      ∀ i, i < stateDim (initState 0 ps) →
        solve r'.2.2 (fun i => - r'.2.1 i) i =
          mulP (stateDim (initState 0 ps)) (PdenseSE2 T (initState 0 ps)) (solve r.2.2 (fun i => - r.2.1 i)) i) :
    step solve fixed es (actState (actMixSE2 T) (initState 0 ps))
      = (step solve fixed es (initState 0 ps)).map (actState (actMixSE2 T)) :=
  step_frame_mixed (frameSE2 T) solve fixed ps es hes hps hsolve

/-- **(d) with an exact solver and a uniquely solvable system** -/
theorem step_frame_mixed_exact_SE2 (T : Fin 3 → ℝ) (solve : (Nat → Nat → ℝ) → (Nat → ℝ) → (Nat → ℝ)) (fixed : List Nat)
    (ps : List (Pose ℝ)) (es : List (Edge ℝ)) (hok : GraphOK ps es) (hes : ∀ e ∈ es, EdgeSE2Mixed e)
    (hps : ∀ p ∈ ps, IsSE2orR2 p)
    (hex : SolverExactAt solve fixed es (initState 0 ps))
    (hex' : SolverExactAt solve fixed es (actState (actMixSE2 T) (initState 0 ps)))
    (hun : UniqueAt fixed es (initState 0 ps)) :
    step solve fixed es (actState (actMixSE2 T) (initState 0 ps))
      = (step solve fixed es (initState 0 ps)).map (actState (actMixSE2 T)) :=
  step_frame_mixed_exact (frameSE2 T) solve fixed ps es hok hes hps hex hex' hun

/-- **(e) C07 for SE(2) graphs with R² landmark vertices, any number of iterations**: the `k`-iteration trajectory of the
    transformed graph is the transform of the trajectory, if at every visited state the solver is exact (on the system of
    the state and of its transform) and the system is uniquely solvable -/
theorem trajectory_frame_mixed_SE2 (T : Fin 3 → ℝ) (solve : (Nat → Nat → ℝ) → (Nat → ℝ) → (Nat → ℝ)) (fixed : List Nat)
    (es : List (Edge ℝ)) (hdist : ∀ e ∈ es, e.ends.1 ≠ e.ends.2) (hsym : ∀ e ∈ es, ∀ a b, e.info a b = e.info b a)
    (hes : ∀ e ∈ es, EdgeSE2Mixed e) (k : Nat) (ps : List (Pose ℝ)) (hps : ∀ p ∈ ps, IsSE2orR2 p)
    (hsolver : ∀ j, j < k → ∀ sj, steps solve fixed es j (initState 0 ps) = some sj →
      SolverExactAt solve fixed es sj ∧ SolverExactAt solve fixed es (actState (actMixSE2 T) sj) ∧ UniqueAt fixed es sj) :
    steps solve fixed es k (actState (actMixSE2 T) (initState 0 ps))
      = (steps solve fixed es k (initState 0 ps)).map (actState (actMixSE2 T)) :=
  trajectory_frame_mixed (frameSE2 T) solve fixed es hdist hsym hes k ps hps hsolver

/-- **C07 for a whole `optimize()` call, SE(2) graphs with R² landmark vertices**: same report (χ² values, iteration
    count, `converged`), same flags, transformed result — if at every state the original run can visit the solver is
    exact (on the system of the state and of its transform) and the system is uniquely solvable -/
theorem optimize_frame_mixed_SE2 (T : Fin 3 → ℝ) (tol eps : ℝ) (maxIter : Nat) (ffp : Bool) (flags : List Bool)
    (solve : (Nat → Nat → ℝ) → (Nat → ℝ) → (Nat → ℝ)) (es : List (Edge ℝ))
    (hdist : ∀ e ∈ es, e.ends.1 ≠ e.ends.2) (hsym : ∀ e ∈ es, ∀ a b, e.info a b = e.info b a)
    (hes : ∀ e ∈ es, EdgeSE2Mixed e) (ps : List (Pose ℝ)) (hps : ∀ p ∈ ps, IsSE2orR2 p)
    (hsolver : ∀ j sj,
      iterStates (fun _ => step solve (fixedIndices (applyFixFirst ffp flags) ((initState 0 ps).map (·.1))) es)
        (initState 0 ps) j = some sj →
      SolverGoodAt (frameSE2 T) solve (fixedIndices (applyFixFirst ffp flags) ((initState 0 ps).map (·.1))) es sj) :
    optimizeSolve tol eps maxIter ffp flags solve es (ps.map (actMixSE2 T)) =
      (optimizeSolve tol eps maxIter ffp flags solve es ps).map fun r => (r.1, r.2.1.map (actState (actMixSE2 T)), r.2.2) :=
  optimize_frame_mixed (frameSE2 T) tol eps maxIter ffp flags solve es hdist hsym hes ps hps hsolver

end
end GraphSlam.Props.E2E.FrameMixed
