import GraphSlam.Real.Reflect
import GraphSlam.Real.Wrap
import GraphSlam.Generated.PoseSE2

/-!
# C10 for `PoseSE2` — every public Jacobian method is the exact Fréchet derivative

Statements are hand-written and fixed; the definitions they mention (`PoseSE2.add`, `PoseSE2.jacobian_…`) are
regenerated from `/repo/graphslam/pose/se2.py` on every run, so a change to a formula changes the term these theorems
are about.  All operands range over *all* real vectors (no unit-norm / range hypothesis) except where a
hypothesis is displayed.
-/

namespace GraphSlam.Props.C10
open GraphSlam GraphSlam.Gen GraphSlam.Expr
set_option linter.unusedSimpArgs false
set_option linter.unusedVariables false
set_option linter.unnecessarySeqFocus false
set_option maxHeartbeats 4000000

theorem PoseSE2_add_wrt_self_compact (p q : Fin 3 → ℝ) (h : OffWrap (p 2 + q 2)) :
    HasFDerivAt (fun s => PoseSE2.to_compact (PoseSE2.add s q)) (toCLM (PoseSE2.jacobian_self_oplus_other_wrt_self_compact p q)) p := by
  refine hasFDerivAt_of_reflect q p _ (PoseSE2.to_compact (PoseSE2.add (E := Expr 3 3) (vars 3 3) (pars 3 3))) _ ?_ ?_ ?_
  · reflect_rfl
  · intro i; fin_cases i <;> simp [PoseSE2.add, PoseSE2.to_compact, PoseSE2.jacobian_self_oplus_other_wrt_self_compact, Util.neg_pi_to_pi, Smooth, closed, eval, vars, pars] <;> exact ⟨Real.pi_pos, h⟩
  · jac_entries [PoseSE2.add, PoseSE2.to_compact, PoseSE2.jacobian_self_oplus_other_wrt_self_compact, Util.neg_pi_to_pi]

theorem PoseSE2_add_wrt_other (p q : Fin 3 → ℝ) (h : OffWrap (p 2 + q 2)) :
    HasFDerivAt (fun o => PoseSE2.add p o) (toCLM (PoseSE2.jacobian_self_oplus_other_wrt_other p q)) q := by
  refine hasFDerivAt_of_reflect p q _ (PoseSE2.add (E := Expr 3 3) (pars 3 3) (vars 3 3)) _ ?_ ?_ ?_
  · reflect_rfl
  · intro i; fin_cases i <;> simp [PoseSE2.add, PoseSE2.jacobian_self_oplus_other_wrt_other, Util.neg_pi_to_pi, Smooth, closed, eval, vars, pars] <;> exact ⟨Real.pi_pos, h⟩
  · jac_entries [PoseSE2.add, PoseSE2.jacobian_self_oplus_other_wrt_other, Util.neg_pi_to_pi]

theorem PoseSE2_add_wrt_other_compact (p q : Fin 3 → ℝ) (h : OffWrap (p 2 + q 2)) :
    HasFDerivAt (fun o => PoseSE2.to_compact (PoseSE2.add p o)) (toCLM (PoseSE2.jacobian_self_oplus_other_wrt_other_compact p q)) q := by
  refine hasFDerivAt_of_reflect p q _ (PoseSE2.to_compact (PoseSE2.add (E := Expr 3 3) (pars 3 3) (vars 3 3))) _ ?_ ?_ ?_
  · reflect_rfl
  · intro i; fin_cases i <;> simp [PoseSE2.add, PoseSE2.to_compact, PoseSE2.jacobian_self_oplus_other_wrt_other_compact, Util.neg_pi_to_pi, Smooth, closed, eval, vars, pars] <;> exact ⟨Real.pi_pos, h⟩
  · jac_entries [PoseSE2.add, PoseSE2.to_compact, PoseSE2.jacobian_self_oplus_other_wrt_other_compact, Util.neg_pi_to_pi]

/-- the `_compact` variant is the first 3 rows of the full Jacobian -/
theorem PoseSE2_add_wrt_self_compact_rows (p q : Fin 3 → ℝ) (i : Fin 3) (j : Fin 3) :
    PoseSE2.jacobian_self_oplus_other_wrt_self_compact p q i j = PoseSE2.jacobian_self_oplus_other_wrt_self p q (Fin.castLE (by omega) i) j := by
  fin_cases i <;> fin_cases j <;> rfl

/-- the `_compact` variant is the first 3 rows of the full Jacobian -/
theorem PoseSE2_add_wrt_other_compact_rows (p q : Fin 3 → ℝ) (i : Fin 3) (j : Fin 3) :
    PoseSE2.jacobian_self_oplus_other_wrt_other_compact p q i j = PoseSE2.jacobian_self_oplus_other_wrt_other p q (Fin.castLE (by omega) i) j := by
  fin_cases i <;> fin_cases j <;> rfl

theorem PoseSE2_sub_wrt_self_compact (p q : Fin 3 → ℝ) (h : OffWrap (p 2 - q 2)) :
    HasFDerivAt (fun s => PoseSE2.to_compact (PoseSE2.sub s q)) (toCLM (PoseSE2.jacobian_self_ominus_other_wrt_self_compact p q)) p := by
  refine hasFDerivAt_of_reflect q p _ (PoseSE2.to_compact (PoseSE2.sub (E := Expr 3 3) (vars 3 3) (pars 3 3))) _ ?_ ?_ ?_
  · reflect_rfl
  · intro i; fin_cases i <;> simp [PoseSE2.sub, PoseSE2.to_compact, PoseSE2.jacobian_self_ominus_other_wrt_self_compact, Util.neg_pi_to_pi, Smooth, closed, eval, vars, pars] <;> exact ⟨Real.pi_pos, h⟩
  · jac_entries [PoseSE2.sub, PoseSE2.to_compact, PoseSE2.jacobian_self_ominus_other_wrt_self_compact, Util.neg_pi_to_pi]

/-- the `_compact` variant is the first 3 rows of the full Jacobian -/
theorem PoseSE2_sub_wrt_self_compact_rows (p q : Fin 3 → ℝ) (i : Fin 3) (j : Fin 3) :
    PoseSE2.jacobian_self_ominus_other_wrt_self_compact p q i j = PoseSE2.jacobian_self_ominus_other_wrt_self p q (Fin.castLE (by omega) i) j := by
  fin_cases i <;> fin_cases j <;> rfl

/-- the `_compact` variant is the first 3 rows of the full Jacobian -/
theorem PoseSE2_sub_wrt_other_compact_rows (p q : Fin 3 → ℝ) (i : Fin 3) (j : Fin 3) :
    PoseSE2.jacobian_self_ominus_other_wrt_other_compact p q i j = PoseSE2.jacobian_self_ominus_other_wrt_other p q (Fin.castLE (by omega) i) j := by
  fin_cases i <;> fin_cases j <;> rfl

end GraphSlam.Props.C10
