import GraphSlam.Real.Reflect
import GraphSlam.Real.Wrap
import GraphSlam.Generated.PoseSE2

/-!
# C10 for `PoseSE2` — every public Jacobian method is the exact Fréchet derivative

Statements are hand-written and fixed; the definitions they mention (`PoseSE2.add`, `PoseSE2.jacobian_…`) are
regenerated from `/repo/graphslam/pose/se2.py` on every run, so a change to a formula changes the term these theorems
are about.  All operands range over *all* real vectors (no unit-norm / range hypothesis) except where a
hypothesis is displayed.
-/

namespace GraphSlam.Props.C10
open GraphSlam GraphSlam.Gen GraphSlam.Expr
set_option linter.unusedSimpArgs false
set_option linter.unusedVariables false
set_option linter.unnecessarySeqFocus false
set_option maxHeartbeats 4000000

theorem PoseSE2_add_wrt_self (p q : Fin 3 → ℝ) (h : OffWrap (p 2 + q 2)) :
    HasFDerivAt (fun s => PoseSE2.add s q) (toCLM (PoseSE2.jacobian_self_oplus_other_wrt_self p q)) p := by
  refine hasFDerivAt_of_reflect q p _ (PoseSE2.add (E := Expr 3 3) (vars 3 3) (pars 3 3)) _ ?_ ?_ ?_
  · reflect_rfl
  · intro i; fin_cases i <;> simp [PoseSE2.add, PoseSE2.jacobian_self_oplus_other_wrt_self, Util.neg_pi_to_pi, Smooth, closed, eval, vars, pars] <;> exact ⟨Real.pi_pos, h⟩
  · jac_entries [PoseSE2.add, PoseSE2.jacobian_self_oplus_other_wrt_self, Util.neg_pi_to_pi]

theorem PoseSE2_sub_wrt_self (p q : Fin 3 → ℝ) (h : OffWrap (p 2 - q 2)) :
    HasFDerivAt (fun s => PoseSE2.sub s q) (toCLM (PoseSE2.jacobian_self_ominus_other_wrt_self p q)) p := by
  refine hasFDerivAt_of_reflect q p _ (PoseSE2.sub (E := Expr 3 3) (vars 3 3) (pars 3 3)) _ ?_ ?_ ?_
  · reflect_rfl
  · intro i; fin_cases i <;> simp [PoseSE2.sub, PoseSE2.jacobian_self_ominus_other_wrt_self, Util.neg_pi_to_pi, Smooth, closed, eval, vars, pars] <;> exact ⟨Real.pi_pos, h⟩
  · jac_entries [PoseSE2.sub, PoseSE2.jacobian_self_ominus_other_wrt_self, Util.neg_pi_to_pi]

theorem PoseSE2_sub_wrt_other (p q : Fin 3 → ℝ) (h : OffWrap (p 2 - q 2)) :
    HasFDerivAt (fun o => PoseSE2.sub p o) (toCLM (PoseSE2.jacobian_self_ominus_other_wrt_other p q)) q := by
  refine hasFDerivAt_of_reflect p q _ (PoseSE2.sub (E := Expr 3 3) (pars 3 3) (vars 3 3)) _ ?_ ?_ ?_
  · reflect_rfl
  · intro i; fin_cases i <;> simp [PoseSE2.sub, PoseSE2.jacobian_self_ominus_other_wrt_other, Util.neg_pi_to_pi, Smooth, closed, eval, vars, pars] <;> exact ⟨Real.pi_pos, h⟩
  · jac_entries [PoseSE2.sub, PoseSE2.jacobian_self_ominus_other_wrt_other, Util.neg_pi_to_pi]

theorem PoseSE2_sub_wrt_other_compact (p q : Fin 3 → ℝ) (h : OffWrap (p 2 - q 2)) :
    HasFDerivAt (fun o => PoseSE2.to_compact (PoseSE2.sub p o)) (toCLM (PoseSE2.jacobian_self_ominus_other_wrt_other_compact p q)) q := by
  refine hasFDerivAt_of_reflect p q _ (PoseSE2.to_compact (PoseSE2.sub (E := Expr 3 3) (pars 3 3) (vars 3 3))) _ ?_ ?_ ?_
  · reflect_rfl
  · intro i; fin_cases i <;> simp [PoseSE2.sub, PoseSE2.to_compact, PoseSE2.jacobian_self_ominus_other_wrt_other_compact, Util.neg_pi_to_pi, Smooth, closed, eval, vars, pars] <;> exact ⟨Real.pi_pos, h⟩
  · jac_entries [PoseSE2.sub, PoseSE2.to_compact, PoseSE2.jacobian_self_ominus_other_wrt_other_compact, Util.neg_pi_to_pi]

theorem PoseSE2_inverse (p : Fin 3 → ℝ) (h : OffWrap (-p 2)) :
    HasFDerivAt (fun s => PoseSE2.inverse s) (toCLM (PoseSE2.jacobian_inverse p)) p := by
  refine hasFDerivAt_of_reflect (Fin.elim0 : Fin 0 → ℝ) p _ (PoseSE2.inverse (E := Expr 0 3) (vars 0 3)) _ ?_ ?_ ?_
  · reflect_rfl
  · intro i; fin_cases i <;> simp [PoseSE2.inverse, PoseSE2.jacobian_inverse, Util.neg_pi_to_pi, Smooth, closed, eval, vars, pars] <;> exact ⟨Real.pi_pos, h⟩
  · jac_entries [PoseSE2.inverse, PoseSE2.jacobian_inverse, Util.neg_pi_to_pi]

theorem PoseSE2_oplus_point_wrt_self (p : Fin 3 → ℝ) (x : Fin 2 → ℝ) :
    HasFDerivAt (fun s => PoseSE2.add_point s x) (toCLM (PoseSE2.jacobian_self_oplus_point_wrt_self p x)) p := by
  refine hasFDerivAt_of_reflect x p _ (PoseSE2.add_point (E := Expr 2 3) (vars 2 3) (pars 2 3)) _ ?_ ?_ ?_
  · reflect_rfl
  · intro i; fin_cases i <;> simp [PoseSE2.add_point, PoseSE2.jacobian_self_oplus_point_wrt_self, Smooth, vars, pars]
  · jac_entries [PoseSE2.add_point, PoseSE2.jacobian_self_oplus_point_wrt_self]

theorem PoseSE2_oplus_point_wrt_point (p : Fin 3 → ℝ) (x : Fin 2 → ℝ) :
    HasFDerivAt (fun o => PoseSE2.add_point p o) (toCLM (PoseSE2.jacobian_self_oplus_point_wrt_point p x)) x := by
  refine hasFDerivAt_of_reflect p x _ (PoseSE2.add_point (E := Expr 3 2) (pars 3 2) (vars 3 2)) _ ?_ ?_ ?_
  · reflect_rfl
  · intro i; fin_cases i <;> simp [PoseSE2.add_point, PoseSE2.jacobian_self_oplus_point_wrt_point, Smooth, vars, pars]
  · jac_entries [PoseSE2.add_point, PoseSE2.jacobian_self_oplus_point_wrt_point]

theorem PoseSE2_boxplus (p : Fin 3 → ℝ) (h : OffWrap (p 2)) :
    HasFDerivAt (fun δ => PoseSE2.boxplus p δ) (toCLM (PoseSE2.jacobian_boxplus p)) (0 : Fin 3 → ℝ) := by
  refine hasFDerivAt_of_reflect p (0 : Fin 3 → ℝ) _ (PoseSE2.boxplus (E := Expr 3 3) (pars 3 3) (vars 3 3)) _ ?_ ?_ ?_
  · reflect_rfl
  · intro i; fin_cases i <;> simp [PoseSE2.boxplus, PoseSE2.jacobian_boxplus, Util.neg_pi_to_pi, Smooth, closed, eval, vars, pars] <;> exact ⟨Real.pi_pos, h⟩
  · jac_entries [PoseSE2.boxplus, PoseSE2.jacobian_boxplus, Util.neg_pi_to_pi]

end GraphSlam.Props.C10
