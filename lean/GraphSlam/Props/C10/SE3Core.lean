import GraphSlam.Real.Reflect
import GraphSlam.Real.Wrap
import GraphSlam.Generated.PoseSE3

/-!
# C10 for `PoseSE3` — every public Jacobian method is the exact Fréchet derivative

Statements are hand-written and fixed; the definitions they mention (`PoseSE3.add`, `PoseSE3.jacobian_…`) are
regenerated from `/repo/graphslam/pose/se3.py` on every run, so a change to a formula changes the term these theorems
are about.  All operands range over *all* real vectors (no unit-norm / range hypothesis) except where a
hypothesis is displayed.
-/

namespace GraphSlam.Props.C10
open GraphSlam GraphSlam.Gen GraphSlam.Expr
set_option linter.unusedSimpArgs false
set_option linter.unusedVariables false
set_option linter.unnecessarySeqFocus false
set_option maxHeartbeats 4000000

theorem PoseSE3_add_wrt_self (p q : Fin 7 → ℝ) :
    HasFDerivAt (fun s => PoseSE3.add s q) (toCLM (PoseSE3.jacobian_self_oplus_other_wrt_self p q)) p := by
  refine hasFDerivAt_of_reflect q p _ (PoseSE3.add (E := Expr 7 7) (vars 7 7) (pars 7 7)) _ ?_ ?_ ?_
  · reflect_rfl
  · intro i; fin_cases i <;> simp [PoseSE3.add, PoseSE3.jacobian_self_oplus_other_wrt_self, Smooth, vars, pars]
  · jac_entries [PoseSE3.add, PoseSE3.jacobian_self_oplus_other_wrt_self]

theorem PoseSE3_sub_wrt_self (p q : Fin 7 → ℝ) :
    HasFDerivAt (fun s => PoseSE3.sub s q) (toCLM (PoseSE3.jacobian_self_ominus_other_wrt_self p q)) p := by
  refine hasFDerivAt_of_reflect q p _ (PoseSE3.sub (E := Expr 7 7) (vars 7 7) (pars 7 7)) _ ?_ ?_ ?_
  · reflect_rfl
  · intro i; fin_cases i <;> simp [PoseSE3.sub, PoseSE3.jacobian_self_ominus_other_wrt_self, Smooth, vars, pars]
  · jac_entries [PoseSE3.sub, PoseSE3.jacobian_self_ominus_other_wrt_self]

theorem PoseSE3_sub_wrt_other (p q : Fin 7 → ℝ) :
    HasFDerivAt (fun o => PoseSE3.sub p o) (toCLM (PoseSE3.jacobian_self_ominus_other_wrt_other p q)) q := by
  refine hasFDerivAt_of_reflect p q _ (PoseSE3.sub (E := Expr 7 7) (pars 7 7) (vars 7 7)) _ ?_ ?_ ?_
  · reflect_rfl
  · intro i; fin_cases i <;> simp [PoseSE3.sub, PoseSE3.jacobian_self_ominus_other_wrt_other, Smooth, vars, pars]
  · jac_entries [PoseSE3.sub, PoseSE3.jacobian_self_ominus_other_wrt_other]

theorem PoseSE3_sub_wrt_other_compact (p q : Fin 7 → ℝ) :
    HasFDerivAt (fun o => PoseSE3.to_compact (PoseSE3.sub p o)) (toCLM (PoseSE3.jacobian_self_ominus_other_wrt_other_compact p q)) q := by
  refine hasFDerivAt_of_reflect p q _ (PoseSE3.to_compact (PoseSE3.sub (E := Expr 7 7) (pars 7 7) (vars 7 7))) _ ?_ ?_ ?_
  · reflect_rfl
  · intro i; fin_cases i <;> simp [PoseSE3.sub, PoseSE3.to_compact, PoseSE3.jacobian_self_ominus_other_wrt_other_compact, Smooth, vars, pars]
  · jac_entries [PoseSE3.sub, PoseSE3.to_compact, PoseSE3.jacobian_self_ominus_other_wrt_other_compact]

theorem PoseSE3_inverse (p : Fin 7 → ℝ) :
    HasFDerivAt (fun s => PoseSE3.inverse s) (toCLM (PoseSE3.jacobian_inverse p)) p := by
  refine hasFDerivAt_of_reflect (Fin.elim0 : Fin 0 → ℝ) p _ (PoseSE3.inverse (E := Expr 0 7) (vars 0 7)) _ ?_ ?_ ?_
  · reflect_rfl
  · intro i; fin_cases i <;> simp [PoseSE3.inverse, PoseSE3.jacobian_inverse, Smooth, vars, pars]
  · jac_entries [PoseSE3.inverse, PoseSE3.jacobian_inverse]

theorem PoseSE3_oplus_point_wrt_self (p : Fin 7 → ℝ) (x : Fin 3 → ℝ) :
    HasFDerivAt (fun s => PoseSE3.add_point s x) (toCLM (PoseSE3.jacobian_self_oplus_point_wrt_self p x)) p := by
  refine hasFDerivAt_of_reflect x p _ (PoseSE3.add_point (E := Expr 3 7) (vars 3 7) (pars 3 7)) _ ?_ ?_ ?_
  · reflect_rfl
  · intro i; fin_cases i <;> simp [PoseSE3.add_point, PoseSE3.jacobian_self_oplus_point_wrt_self, Smooth, vars, pars]
  · jac_entries [PoseSE3.add_point, PoseSE3.jacobian_self_oplus_point_wrt_self]

theorem PoseSE3_oplus_point_wrt_point (p : Fin 7 → ℝ) (x : Fin 3 → ℝ) :
    HasFDerivAt (fun o => PoseSE3.add_point p o) (toCLM (PoseSE3.jacobian_self_oplus_point_wrt_point p x)) x := by
  refine hasFDerivAt_of_reflect p x _ (PoseSE3.add_point (E := Expr 7 3) (pars 7 3) (vars 7 3)) _ ?_ ?_ ?_
  · reflect_rfl
  · intro i; fin_cases i <;> simp [PoseSE3.add_point, PoseSE3.jacobian_self_oplus_point_wrt_point, Smooth, vars, pars]
  · jac_entries [PoseSE3.add_point, PoseSE3.jacobian_self_oplus_point_wrt_point]

end GraphSlam.Props.C10
