import GraphSlam.Real.Reflect
import GraphSlam.Real.Wrap
import GraphSlam.Generated.PoseR3

/-!
# C10 for `PoseR3` — every public Jacobian method is the exact Fréchet derivative

Statements are hand-written and fixed; the definitions they mention (`PoseR3.add`, `PoseR3.jacobian_…`) are
regenerated from `/repo/graphslam/pose/r3.py` on every run, so a change to a formula changes the term these theorems
are about.  All operands range over *all* real vectors (no unit-norm / range hypothesis) except where a
hypothesis is displayed.
-/

namespace GraphSlam.Props.C10
open GraphSlam GraphSlam.Gen GraphSlam.Expr
set_option linter.unusedSimpArgs false
set_option linter.unusedVariables false
set_option linter.unnecessarySeqFocus false
set_option maxHeartbeats 4000000

theorem PoseR3_add_wrt_self (p q : Fin 3 → ℝ) :
    HasFDerivAt (fun s => PoseR3.add s q) (toCLM (PoseR3.jacobian_self_oplus_other_wrt_self p q)) p := by
  refine hasFDerivAt_of_reflect q p _ (PoseR3.add (E := Expr 3 3) (vars 3 3) (pars 3 3)) _ ?_ ?_ ?_
  · reflect_rfl
  · intro i; fin_cases i <;> simp [PoseR3.add, PoseR3.jacobian_self_oplus_other_wrt_self, Smooth, vars, pars]
  · jac_entries [PoseR3.add, PoseR3.jacobian_self_oplus_other_wrt_self]

theorem PoseR3_sub_wrt_self (p q : Fin 3 → ℝ) :
    HasFDerivAt (fun s => PoseR3.sub s q) (toCLM (PoseR3.jacobian_self_ominus_other_wrt_self p q)) p := by
  refine hasFDerivAt_of_reflect q p _ (PoseR3.sub (E := Expr 3 3) (vars 3 3) (pars 3 3)) _ ?_ ?_ ?_
  · reflect_rfl
  · intro i; fin_cases i <;> simp [PoseR3.sub, PoseR3.jacobian_self_ominus_other_wrt_self, Smooth, vars, pars]
  · jac_entries [PoseR3.sub, PoseR3.jacobian_self_ominus_other_wrt_self]

theorem PoseR3_sub_wrt_other (p q : Fin 3 → ℝ) :
    HasFDerivAt (fun o => PoseR3.sub p o) (toCLM (PoseR3.jacobian_self_ominus_other_wrt_other p q)) q := by
  refine hasFDerivAt_of_reflect p q _ (PoseR3.sub (E := Expr 3 3) (pars 3 3) (vars 3 3)) _ ?_ ?_ ?_
  · reflect_rfl
  · intro i; fin_cases i <;> simp [PoseR3.sub, PoseR3.jacobian_self_ominus_other_wrt_other, Smooth, vars, pars]
  · jac_entries [PoseR3.sub, PoseR3.jacobian_self_ominus_other_wrt_other]

theorem PoseR3_sub_wrt_other_compact (p q : Fin 3 → ℝ) :
    HasFDerivAt (fun o => PoseR3.to_compact (PoseR3.sub p o)) (toCLM (PoseR3.jacobian_self_ominus_other_wrt_other_compact p q)) q := by
  refine hasFDerivAt_of_reflect p q _ (PoseR3.to_compact (PoseR3.sub (E := Expr 3 3) (pars 3 3) (vars 3 3))) _ ?_ ?_ ?_
  · reflect_rfl
  · intro i; fin_cases i <;> simp [PoseR3.sub, PoseR3.to_compact, PoseR3.jacobian_self_ominus_other_wrt_other_compact, Smooth, vars, pars]
  · jac_entries [PoseR3.sub, PoseR3.to_compact, PoseR3.jacobian_self_ominus_other_wrt_other_compact]

theorem PoseR3_inverse (p : Fin 3 → ℝ) :
    HasFDerivAt (fun s => PoseR3.inverse s) (toCLM (PoseR3.jacobian_inverse p)) p := by
  refine hasFDerivAt_of_reflect (Fin.elim0 : Fin 0 → ℝ) p _ (PoseR3.inverse (E := Expr 0 3) (vars 0 3)) _ ?_ ?_ ?_
  · reflect_rfl
  · intro i; fin_cases i <;> simp [PoseR3.inverse, PoseR3.jacobian_inverse, Smooth, vars, pars]
  · jac_entries [PoseR3.inverse, PoseR3.jacobian_inverse]

theorem PoseR3_oplus_point_wrt_self (p : Fin 3 → ℝ) (x : Fin 3 → ℝ) :
    HasFDerivAt (fun s => PoseR3.add s x) (toCLM (PoseR3.jacobian_self_oplus_point_wrt_self p x)) p := by
  refine hasFDerivAt_of_reflect x p _ (PoseR3.add (E := Expr 3 3) (vars 3 3) (pars 3 3)) _ ?_ ?_ ?_
  · reflect_rfl
  · intro i; fin_cases i <;> simp [PoseR3.add, PoseR3.jacobian_self_oplus_point_wrt_self, Smooth, vars, pars]
  · jac_entries [PoseR3.add, PoseR3.jacobian_self_oplus_point_wrt_self]

theorem PoseR3_oplus_point_wrt_point (p : Fin 3 → ℝ) (x : Fin 3 → ℝ) :
    HasFDerivAt (fun o => PoseR3.add p o) (toCLM (PoseR3.jacobian_self_oplus_point_wrt_point p x)) x := by
  refine hasFDerivAt_of_reflect p x _ (PoseR3.add (E := Expr 3 3) (pars 3 3) (vars 3 3)) _ ?_ ?_ ?_
  · reflect_rfl
  · intro i; fin_cases i <;> simp [PoseR3.add, PoseR3.jacobian_self_oplus_point_wrt_point, Smooth, vars, pars]
  · jac_entries [PoseR3.add, PoseR3.jacobian_self_oplus_point_wrt_point]

theorem PoseR3_boxplus (p : Fin 3 → ℝ) :
    HasFDerivAt (fun δ => PoseR3.boxplus p δ) (toCLM (PoseR3.jacobian_boxplus p)) (0 : Fin 3 → ℝ) := by
  refine hasFDerivAt_of_reflect p (0 : Fin 3 → ℝ) _ (PoseR3.boxplus (E := Expr 3 3) (pars 3 3) (vars 3 3)) _ ?_ ?_ ?_
  · reflect_rfl
  · intro i; fin_cases i <;> simp [PoseR3.boxplus, PoseR3.jacobian_boxplus, Smooth, vars, pars]
  · jac_entries [PoseR3.boxplus, PoseR3.jacobian_boxplus]

end GraphSlam.Props.C10
