import GraphSlam.Real.Reflect
import GraphSlam.Generated.PoseSE3
import Mathlib.Analysis.SpecialFunctions.Sqrt

/-!
# C10/C01: the SE(3) box-plus Jacobian

`PoseSE3.boxplus p δ` (se3.py:178-196) rebuilds the scalar part of the increment quaternion as
`√(1 - ‖δ_v‖²)` and falls back to the identity rotation when `‖δ_v‖ > 1`.  Near `δ = 0` the first branch is taken,
`np.linalg.norm(δ_v)**2 = ‖δ_v‖²`, and the map is `p ⊕ lift δ` with `lift δ = (δ_t, δ_v, √(1-‖δ_v‖²))`, whose
derivative at `0` is `[I₆; 0]`.  Hence `jacobian_boxplus p` (se3.py:433-451) is the exact derivative at `δ = 0`,
for every real 7-vector `p`.
-/

namespace GraphSlam.Props.C10
open GraphSlam GraphSlam.Gen
open Filter Topology
set_option maxHeartbeats 4000000
set_option linter.unusedSimpArgs false
set_option linter.unusedTactic false
set_option linter.unreachableTactic false

/-- squared norm of the vector part of the increment -/
def vnorm2 (δ : Fin 6 → ℝ) : ℝ := δ 3 * δ 3 + δ 4 * δ 4 + δ 5 * δ 5

/-- the increment pose whose compact form is `δ` -/
noncomputable def lift (δ : Fin 6 → ℝ) : Fin 7 → ℝ := fun i => match i with
  | 0 => δ 0 | 1 => δ 1 | 2 => δ 2 | 3 => δ 3 | 4 => δ 4 | 5 => δ 5
  | 6 => Real.sqrt (1 - vnorm2 δ)

/-- `[I₆; 0]` -/
def liftJ : Fin 7 → Fin 6 → ℝ := fun i j => if i.val = j.val then 1 else 0

theorem vnorm2_nonneg (δ : Fin 6 → ℝ) : 0 ≤ vnorm2 δ := by
  unfold vnorm2; nlinarith [mul_self_nonneg (δ 3), mul_self_nonneg (δ 4), mul_self_nonneg (δ 5)]

/-- **box-plus is composition with the lifted increment** whenever `‖δ_v‖ ≤ 1` (C09 clause) -/
theorem PoseSE3_boxplus_eq_add_lift (p : Fin 7 → ℝ) (δ : Fin 6 → ℝ) (h : vnorm2 δ ≤ 1) :
    PoseSE3.boxplus p δ = PoseSE3.add p (lift δ) := by
  have hs : ¬ (Real.sqrt (vnorm2 δ) > 1) := by
    rw [gt_iff_lt, not_lt]
    calc Real.sqrt (vnorm2 δ) ≤ Real.sqrt 1 := Real.sqrt_le_sqrt h
      _ = 1 := Real.sqrt_one
  have hsq : Real.sqrt (vnorm2 δ) * Real.sqrt (vnorm2 δ) = vnorm2 δ := Real.mul_self_sqrt (vnorm2_nonneg δ)
  unfold vnorm2 at hs hsq
  funext i
  fin_cases i <;>
    simp only [PoseSE3.boxplus, PoseSE3.add, lift, vnorm2, real_sqrt, real_gt, real_ofInt, hs, hsq, if_false,
      Fin.isValue, Fin.zero_eta, Fin.mk_one, Fin.reduceFinMk, Int.cast_one, Int.cast_zero, Int.cast_ofNat] <;>
    (try ring)

/-- documented fallback (se3.py:182-183): for `‖δ_v‖ > 1` the rotation increment is dropped -/
theorem PoseSE3_boxplus_big (p : Fin 7 → ℝ) (δ : Fin 6 → ℝ) (h : 1 < vnorm2 δ) :
    PoseSE3.boxplus p δ = PoseSE3.add p (fun i => match i with
      | 0 => δ 0 | 1 => δ 1 | 2 => δ 2 | 3 => 0 | 4 => 0 | 5 => 0 | 6 => 1) := by
  have hs : Real.sqrt (vnorm2 δ) > 1 := by
    rw [gt_iff_lt, Real.lt_sqrt (by norm_num)]; simpa using h
  unfold vnorm2 at hs
  funext i
  fin_cases i <;>
    simp only [PoseSE3.boxplus, PoseSE3.add, real_sqrt, real_gt, real_ofInt, hs, if_true,
      Fin.isValue, Fin.zero_eta, Fin.mk_one, Fin.reduceFinMk, Int.cast_one, Int.cast_zero, Int.cast_ofNat] <;>
    (try ring)

/-- `vnorm2` as an expression, to reuse the verified differentiator -/
def vnorm2E : Expr 0 6 :=
  .add (.add (.mul (.var 3) (.var 3)) (.mul (.var 4) (.var 4))) (.mul (.var 5) (.var 5))

theorem hasFDerivAt_vnorm2_zero : HasFDerivAt vnorm2 (0 : (Fin 6 → ℝ) →L[ℝ] ℝ) 0 := by
  have h := Expr.hasFDerivAt_eval (P := 0) Fin.elim0 vnorm2E (0 : Fin 6 → ℝ) (by simp [vnorm2E, Expr.Smooth])
  have hg : Expr.grad (Fin.elim0 : Fin 0 → ℝ) vnorm2E (0 : Fin 6 → ℝ) = 0 := by
    ext v; simp [Expr.grad_apply, vnorm2E, Expr.diff, Expr.eval]
  rw [hg] at h
  exact h

theorem hasFDerivAt_lift_zero : HasFDerivAt lift (toCLM liftJ) 0 := by
  rw [hasFDerivAt_pi']
  intro i
  have hproj : ∀ k : Fin 6, ∀ (i : Fin 7), i.val = k.val →
      (ContinuousLinearMap.proj (R := ℝ) (φ := fun _ : Fin 7 => ℝ) i).comp (toCLM liftJ)
        = ContinuousLinearMap.proj (R := ℝ) (φ := fun _ : Fin 6 => ℝ) k := by
    intro k i hik
    ext v
    simp only [ContinuousLinearMap.comp_apply, ContinuousLinearMap.proj_apply, toCLM_apply, liftJ, hik]
    simp [Fin.val_inj, Finset.sum_ite_eq]
  have hlast : ∀ (i : Fin 7), i.val = 6 →
      (ContinuousLinearMap.proj (R := ℝ) (φ := fun _ : Fin 7 => ℝ) i).comp (toCLM liftJ) = 0 := by
    intro i hi
    ext v
    simp only [ContinuousLinearMap.comp_apply, ContinuousLinearMap.proj_apply, toCLM_apply, liftJ]
    apply Finset.sum_eq_zero
    intro j _
    have hne : ¬ (i.val = j.val) := by have := j.isLt; omega
    rw [if_neg hne, zero_mul]
  fin_cases i
  · rw [hproj 0 _ rfl]; exact hasFDerivAt_apply (0 : Fin 6) _
  · rw [hproj 1 _ rfl]; exact hasFDerivAt_apply (1 : Fin 6) _
  · rw [hproj 2 _ rfl]; exact hasFDerivAt_apply (2 : Fin 6) _
  · rw [hproj 3 _ rfl]; exact hasFDerivAt_apply (3 : Fin 6) _
  · rw [hproj 4 _ rfl]; exact hasFDerivAt_apply (4 : Fin 6) _
  · rw [hproj 5 _ rfl]; exact hasFDerivAt_apply (5 : Fin 6) _
  · show HasFDerivAt (fun δ => Real.sqrt (1 - vnorm2 δ)) _ 0
    rw [hlast _ rfl]
    have h1 : HasFDerivAt (fun δ => 1 - vnorm2 δ) (0 : (Fin 6 → ℝ) →L[ℝ] ℝ) 0 := by
      simpa using hasFDerivAt_vnorm2_zero.const_sub 1
    have hne : (1 - vnorm2 (0 : Fin 6 → ℝ)) ≠ 0 := by simp [vnorm2]
    have := h1.sqrt hne
    simpa using this

theorem lift_zero : lift 0 = (PoseSE3.identity (E := ℝ)) := by
  funext i; fin_cases i <;> simp [lift, vnorm2, PoseSE3.identity]

/-- symbolic Jacobian of `q ↦ p ⊕ q` (no reference to any `jacobian_*` method of the code) -/
noncomputable def addSym (p q : Fin 7 → ℝ) : Fin 7 → Fin 7 → ℝ :=
  fun i j => Expr.eval p q (Expr.diff j (PoseSE3.add (E := Expr 7 7) (pars 7 7) (vars 7 7) i))

theorem hasFDerivAt_add_right (p q : Fin 7 → ℝ) :
    HasFDerivAt (fun o => PoseSE3.add p o) (toCLM (addSym p q)) q := by
  refine hasFDerivAt_of_reflect p q _ (PoseSE3.add (E := Expr 7 7) (pars 7 7) (vars 7 7)) _ ?_ ?_ ?_
  · reflect_rfl
  · intro i; fin_cases i <;> simp [PoseSE3.add, Expr.Smooth, vars, pars]
  · intro i j; rfl

/-- `jacobian_boxplus p = (∂(p ⊕ q)/∂q at q = lift 0) · [I₆; 0]` -/
theorem jacobian_boxplus_factor (p : Fin 7 → ℝ) :
    toCLM (PoseSE3.jacobian_boxplus p) = (toCLM (addSym p (lift 0))).comp (toCLM liftJ) := by
  ext v i
  simp only [ContinuousLinearMap.comp_apply, toCLM_apply]
  fin_cases i <;>
    (simp only [addSym, liftJ, Fin.sum_univ_succ, Finset.univ_eq_empty, Finset.sum_empty]
     gs_unfold [PoseSE3.jacobian_boxplus, PoseSE3.add]
     simp [Fin.sum_univ_succ, Expr.eval]
     first | done | ring1 | (left; ring1))

/-- **`jacobian_boxplus` is the exact derivative of box-plus at `δ = 0`, at every `p`.** -/
theorem PoseSE3_boxplus (p : Fin 7 → ℝ) :
    HasFDerivAt (fun δ => PoseSE3.boxplus p δ) (toCLM (PoseSE3.jacobian_boxplus p)) (0 : Fin 6 → ℝ) := by
  have hcomp : HasFDerivAt (fun δ => PoseSE3.add p (lift δ))
      ((toCLM (addSym p (lift 0))).comp (toCLM liftJ)) 0 :=
    (hasFDerivAt_add_right p (lift 0)).comp 0 hasFDerivAt_lift_zero
  rw [jacobian_boxplus_factor]
  refine hcomp.congr_of_eventuallyEq ?_
  have hcont : ContinuousAt vnorm2 0 := hasFDerivAt_vnorm2_zero.continuousAt
  have hnb : Set.Iio (1 : ℝ) ∈ 𝓝 (vnorm2 0) := Iio_mem_nhds (by simp [vnorm2])
  filter_upwards [hcont hnb] with δ hδ
  exact PoseSE3_boxplus_eq_add_lift p δ (le_of_lt hδ)

end GraphSlam.Props.C10
