import GraphSlam.Props.C01.SE3
import GraphSlam.Props.C10.SE3Extra

/-!
# C10 — chained with the box-plus Jacobian, the pose Jacobians give the derivative along the manifold

For every real 7-vector (so every unit quaternion), the product `J_op(p, q) · jacobian_boxplus(p)` (what a custom edge
forms with `np.dot`) is the Fréchet derivative at `δ = 0` of `δ ↦ op(p ⊞ δ, q)` (and likewise for the other operand).
-/

namespace GraphSlam.Props.C10
open GraphSlam GraphSlam.Gen GraphSlam.Props.C01

theorem manifold_chain_add_wrt_self (p q : Fin 7 → ℝ) :
    HasFDerivAt (fun δ => PoseSE3.add (PoseSE3.boxplus p δ) q)
      (toCLM (dotMM (PoseSE3.jacobian_self_oplus_other_wrt_self p q) (PoseSE3.jacobian_boxplus p))) (0 : Fin 6 → ℝ) :=
  comp_toCLM (g := fun s => PoseSE3.add s q) (f := fun δ => PoseSE3.boxplus p δ) (PoseSE3_boxplus_zero p)
    (PoseSE3_add_wrt_self p q) (PoseSE3_boxplus p)

theorem manifold_chain_add_wrt_other (p q : Fin 7 → ℝ) :
    HasFDerivAt (fun δ => PoseSE3.add p (PoseSE3.boxplus q δ))
      (toCLM (dotMM (PoseSE3.jacobian_self_oplus_other_wrt_other p q) (PoseSE3.jacobian_boxplus q))) (0 : Fin 6 → ℝ) :=
  comp_toCLM (g := fun o => PoseSE3.add p o) (f := fun δ => PoseSE3.boxplus q δ) (PoseSE3_boxplus_zero q)
    (PoseSE3_add_wrt_other p q) (PoseSE3_boxplus q)

theorem manifold_chain_sub_wrt_self (p q : Fin 7 → ℝ) :
    HasFDerivAt (fun δ => PoseSE3.sub (PoseSE3.boxplus p δ) q)
      (toCLM (dotMM (PoseSE3.jacobian_self_ominus_other_wrt_self p q) (PoseSE3.jacobian_boxplus p))) (0 : Fin 6 → ℝ) :=
  comp_toCLM (g := fun s => PoseSE3.sub s q) (f := fun δ => PoseSE3.boxplus p δ) (PoseSE3_boxplus_zero p)
    (PoseSE3_sub_wrt_self p q) (PoseSE3_boxplus p)

theorem manifold_chain_sub_wrt_other (p q : Fin 7 → ℝ) :
    HasFDerivAt (fun δ => PoseSE3.sub p (PoseSE3.boxplus q δ))
      (toCLM (dotMM (PoseSE3.jacobian_self_ominus_other_wrt_other p q) (PoseSE3.jacobian_boxplus q))) (0 : Fin 6 → ℝ) :=
  comp_toCLM (g := fun o => PoseSE3.sub p o) (f := fun δ => PoseSE3.boxplus q δ) (PoseSE3_boxplus_zero q)
    (PoseSE3_sub_wrt_other p q) (PoseSE3_boxplus q)

theorem manifold_chain_compact_sub_wrt_other (p q : Fin 7 → ℝ) :
    HasFDerivAt (fun δ => PoseSE3.to_compact (PoseSE3.sub p (PoseSE3.boxplus q δ)))
      (toCLM (dotMM (PoseSE3.jacobian_self_ominus_other_wrt_other_compact p q) (PoseSE3.jacobian_boxplus q))) (0 : Fin 6 → ℝ) :=
  comp_toCLM (g := fun o => PoseSE3.to_compact (PoseSE3.sub p o)) (f := fun δ => PoseSE3.boxplus q δ) (PoseSE3_boxplus_zero q)
    (PoseSE3_sub_wrt_other_compact p q) (PoseSE3_boxplus q)

theorem manifold_chain_inverse (p : Fin 7 → ℝ) :
    HasFDerivAt (fun δ => PoseSE3.inverse (PoseSE3.boxplus p δ))
      (toCLM (dotMM (PoseSE3.jacobian_inverse p) (PoseSE3.jacobian_boxplus p))) (0 : Fin 6 → ℝ) :=
  comp_toCLM (g := fun s => PoseSE3.inverse s) (f := fun δ => PoseSE3.boxplus p δ) (PoseSE3_boxplus_zero p)
    (PoseSE3_inverse p) (PoseSE3_boxplus p)

theorem manifold_chain_point_wrt_self (p : Fin 7 → ℝ) (x : Fin 3 → ℝ) :
    HasFDerivAt (fun δ => PoseSE3.add_point (PoseSE3.boxplus p δ) x)
      (toCLM (dotMM (PoseSE3.jacobian_self_oplus_point_wrt_self p x) (PoseSE3.jacobian_boxplus p))) (0 : Fin 6 → ℝ) :=
  comp_toCLM (g := fun s => PoseSE3.add_point s x) (f := fun δ => PoseSE3.boxplus p δ) (PoseSE3_boxplus_zero p)
    (PoseSE3_oplus_point_wrt_self p x) (PoseSE3_boxplus p)

end GraphSlam.Props.C10
