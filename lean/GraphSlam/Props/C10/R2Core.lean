import GraphSlam.Real.Reflect
import GraphSlam.Real.Wrap
import GraphSlam.Generated.PoseR2

/-!
# C10 for `PoseR2` — every public Jacobian method is the exact Fréchet derivative

Statements are hand-written and fixed; the definitions they mention (`PoseR2.add`, `PoseR2.jacobian_…`) are
regenerated from `/repo/graphslam/pose/r2.py` on every run, so a change to a formula changes the term these theorems
are about.  All operands range over *all* real vectors (no unit-norm / range hypothesis) except where a
hypothesis is displayed.
-/

namespace GraphSlam.Props.C10
open GraphSlam GraphSlam.Gen GraphSlam.Expr
set_option linter.unusedSimpArgs false
set_option linter.unusedVariables false
set_option linter.unnecessarySeqFocus false
set_option maxHeartbeats 4000000

theorem PoseR2_add_wrt_self (p q : Fin 2 → ℝ) :
    HasFDerivAt (fun s => PoseR2.add s q) (toCLM (PoseR2.jacobian_self_oplus_other_wrt_self p q)) p := by
  refine hasFDerivAt_of_reflect q p _ (PoseR2.add (E := Expr 2 2) (vars 2 2) (pars 2 2)) _ ?_ ?_ ?_
  · reflect_rfl
  · intro i; fin_cases i <;> simp [PoseR2.add, PoseR2.jacobian_self_oplus_other_wrt_self, Smooth, vars, pars]
  · jac_entries [PoseR2.add, PoseR2.jacobian_self_oplus_other_wrt_self]

theorem PoseR2_sub_wrt_self (p q : Fin 2 → ℝ) :
    HasFDerivAt (fun s => PoseR2.sub s q) (toCLM (PoseR2.jacobian_self_ominus_other_wrt_self p q)) p := by
  refine hasFDerivAt_of_reflect q p _ (PoseR2.sub (E := Expr 2 2) (vars 2 2) (pars 2 2)) _ ?_ ?_ ?_
  · reflect_rfl
  · intro i; fin_cases i <;> simp [PoseR2.sub, PoseR2.jacobian_self_ominus_other_wrt_self, Smooth, vars, pars]
  · jac_entries [PoseR2.sub, PoseR2.jacobian_self_ominus_other_wrt_self]

theorem PoseR2_sub_wrt_other (p q : Fin 2 → ℝ) :
    HasFDerivAt (fun o => PoseR2.sub p o) (toCLM (PoseR2.jacobian_self_ominus_other_wrt_other p q)) q := by
  refine hasFDerivAt_of_reflect p q _ (PoseR2.sub (E := Expr 2 2) (pars 2 2) (vars 2 2)) _ ?_ ?_ ?_
  · reflect_rfl
  · intro i; fin_cases i <;> simp [PoseR2.sub, PoseR2.jacobian_self_ominus_other_wrt_other, Smooth, vars, pars]
  · jac_entries [PoseR2.sub, PoseR2.jacobian_self_ominus_other_wrt_other]

theorem PoseR2_sub_wrt_other_compact (p q : Fin 2 → ℝ) :
    HasFDerivAt (fun o => PoseR2.to_compact (PoseR2.sub p o)) (toCLM (PoseR2.jacobian_self_ominus_other_wrt_other_compact p q)) q := by
  refine hasFDerivAt_of_reflect p q _ (PoseR2.to_compact (PoseR2.sub (E := Expr 2 2) (pars 2 2) (vars 2 2))) _ ?_ ?_ ?_
  · reflect_rfl
  · intro i; fin_cases i <;> simp [PoseR2.sub, PoseR2.to_compact, PoseR2.jacobian_self_ominus_other_wrt_other_compact, Smooth, vars, pars]
  · jac_entries [PoseR2.sub, PoseR2.to_compact, PoseR2.jacobian_self_ominus_other_wrt_other_compact]

theorem PoseR2_inverse (p : Fin 2 → ℝ) :
    HasFDerivAt (fun s => PoseR2.inverse s) (toCLM (PoseR2.jacobian_inverse p)) p := by
  refine hasFDerivAt_of_reflect (Fin.elim0 : Fin 0 → ℝ) p _ (PoseR2.inverse (E := Expr 0 2) (vars 0 2)) _ ?_ ?_ ?_
  · reflect_rfl
  · intro i; fin_cases i <;> simp [PoseR2.inverse, PoseR2.jacobian_inverse, Smooth, vars, pars]
  · jac_entries [PoseR2.inverse, PoseR2.jacobian_inverse]

theorem PoseR2_oplus_point_wrt_self (p : Fin 2 → ℝ) (x : Fin 2 → ℝ) :
    HasFDerivAt (fun s => PoseR2.add s x) (toCLM (PoseR2.jacobian_self_oplus_point_wrt_self p x)) p := by
  refine hasFDerivAt_of_reflect x p _ (PoseR2.add (E := Expr 2 2) (vars 2 2) (pars 2 2)) _ ?_ ?_ ?_
  · reflect_rfl
  · intro i; fin_cases i <;> simp [PoseR2.add, PoseR2.jacobian_self_oplus_point_wrt_self, Smooth, vars, pars]
  · jac_entries [PoseR2.add, PoseR2.jacobian_self_oplus_point_wrt_self]

theorem PoseR2_oplus_point_wrt_point (p : Fin 2 → ℝ) (x : Fin 2 → ℝ) :
    HasFDerivAt (fun o => PoseR2.add p o) (toCLM (PoseR2.jacobian_self_oplus_point_wrt_point p x)) x := by
  refine hasFDerivAt_of_reflect p x _ (PoseR2.add (E := Expr 2 2) (pars 2 2) (vars 2 2)) _ ?_ ?_ ?_
  · reflect_rfl
  · intro i; fin_cases i <;> simp [PoseR2.add, PoseR2.jacobian_self_oplus_point_wrt_point, Smooth, vars, pars]
  · jac_entries [PoseR2.add, PoseR2.jacobian_self_oplus_point_wrt_point]

theorem PoseR2_boxplus (p : Fin 2 → ℝ) :
    HasFDerivAt (fun δ => PoseR2.boxplus p δ) (toCLM (PoseR2.jacobian_boxplus p)) (0 : Fin 2 → ℝ) := by
  refine hasFDerivAt_of_reflect p (0 : Fin 2 → ℝ) _ (PoseR2.boxplus (E := Expr 2 2) (pars 2 2) (vars 2 2)) _ ?_ ?_ ?_
  · reflect_rfl
  · intro i; fin_cases i <;> simp [PoseR2.boxplus, PoseR2.jacobian_boxplus, Smooth, vars, pars]
  · jac_entries [PoseR2.boxplus, PoseR2.jacobian_boxplus]

end GraphSlam.Props.C10
